import RsModel.Lemmas.PosReplace
import RsModel.Lemmas.PosComb
/-! # every chunk any stream delivers is a token: at most one line break, and only as its last byte -/
namespace Rs

theorem chunksTok_nil : ChunksTok [] := by intro t m h; simp at h

theorem chunksTok_append (a b : List Ev) (ha : ChunksTok a) (hb : ChunksTok b) : ChunksTok (a ++ b) := by
  intro t m h
  rcases List.mem_append.1 h with h | h
  · exact ha t m h
  · exact hb t m h

theorem chunksTok_single (t : Text) (m : Mapping) (h : TokOK t) : ChunksTok [Ev.chunk (some t) m] := by
  intro t' m' hm
  simp only [List.mem_singleton, Ev.chunk.injEq, Option.some.injEq] at hm
  rw [hm.1]; exact h

theorem chunksTok_noChunk (evs : List Ev) (h : ∀ e ∈ evs, e.isChunk = false) : ChunksTok evs := by
  intro t m hm
  have := h _ hm
  simp [Ev.isChunk] at this

theorem tokOK_nil : TokOK [] := ⟨[], by simp, Or.inl rfl⟩

theorem tokOK_of_lines : ∀ (ls : List Text), Lines ls → ∀ ln ∈ ls, TokOK ln := by
  intro ls h
  induction h with
  | nil => intro ln h; simp at h
  | last t _ hno => intro ln h; simp only [List.mem_singleton] at h; subst h; exact ⟨_, hno, Or.inl rfl⟩
  | lastNL t hno => intro ln h; simp only [List.mem_singleton] at h; subst h; exact ⟨_, hno, Or.inr rfl⟩
  | cons t rest hno _ _ ih =>
    intro ln h
    simp only [List.mem_cons] at h
    rcases h with rfl | h
    · exact ⟨t, hno, Or.inr rfl⟩
    · exact ih ln h

theorem tokOK_take (t : Text) (h : TokOK t) (n : Nat) : TokOK (t.take n) := by
  obtain ⟨s, hs, hc⟩ := h
  rcases hc with rfl | rfl
  · exact ⟨t.take n, fun x hx => hs x (List.mem_of_mem_take hx), Or.inl rfl⟩
  · by_cases hn : n ≤ s.length
    · rw [List.take_append_of_le_length hn]
      exact ⟨s.take n, fun x hx => hs x (List.mem_of_mem_take hx), Or.inl rfl⟩
    · rw [List.take_of_length_le (by simp; omega)]
      exact ⟨s, hs, Or.inr rfl⟩

theorem tokOK_drop (t : Text) (h : TokOK t) (n : Nat) : TokOK (t.drop n) := by
  obtain ⟨s, hs, hc⟩ := h
  rcases hc with rfl | rfl
  · exact ⟨t.drop n, fun x hx => hs x (List.mem_of_mem_drop hx), Or.inl rfl⟩
  · by_cases hn : n ≤ s.length
    · rw [List.drop_append_of_le_length hn]
      exact ⟨s.drop n, fun x hx => hs x (List.mem_of_mem_drop hx), Or.inr rfl⟩
    · rw [List.drop_of_length_le (by simp; omega)]
      exact tokOK_nil

theorem tokOK_bsub (t : Text) (h : TokOK t) (a b : Nat) : TokOK (bsub t a b) := tokOK_take _ (tokOK_drop t h a) _

theorem tokOK_csub (t : Text) (h : TokOK t) (a b : Nat) : TokOK (csub t a b) := by
  unfold csub
  split
  · exact tokOK_nil
  · exact tokOK_bsub t h _ _

theorem tokOK_getD (ls : List Text) (h : ∀ ln ∈ ls, TokOK ln) (k : Nat) : TokOK (ls.getD k []) := by
  rw [List.getD_eq_getElem?_getD]
  cases hx : ls[k]? with
  | none => exact tokOK_nil
  | some ln => exact h ln (List.mem_of_getElem? hx)

/-! ## leaves -/
theorem lineEvs_tok (g : Nat → Option Orig) : ∀ (ls : List Text) (l : Nat), (∀ ln ∈ ls, TokOK ln) → ChunksTok (lineEvs g l ls) := by
  intro ls
  induction ls with
  | nil => intro l _; exact chunksTok_nil
  | cons t ts ih =>
    intro l h
    exact chunksTok_append [_] _ (chunksTok_single _ _ (h t (by simp))) (ih (l + 1) (fun x hx => h x (by simp [hx])))

theorem streamRaw_tok (t : Text) (c : Bool) : ChunksTok (streamRaw t ⟨c, false⟩).evs := by
  simp only [streamRaw, Bool.false_eq_true, if_false, rawChunks_eq]
  exact lineEvs_tok _ _ _ (tokOK_of_lines _ (lines_of_splitLines t))

theorem origTokChunks_tok : ∀ (toks : List Text) (l c : Nat), (∀ x ∈ toks, TokOK x) → ChunksTok (origTokChunks false l c toks).1 := by
  intro toks
  induction toks with
  | nil => intro l c _; exact chunksTok_nil
  | cons tok toks ih =>
    intro l c h
    simp only [origTokChunks, Bool.false_eq_true, if_false]
    apply chunksTok_append
    · split <;> exact chunksTok_single _ _ (h tok (by simp))
    · split <;> exact ih _ _ (fun x hx => h x (by simp [hx]))

theorem streamOriginal_tok (t name : Text) (c : Bool) : ChunksTok (streamOriginal t name ⟨c, false⟩).evs := by
  cases c with
  | false =>
    simp only [streamOriginal, Bool.false_eq_true, if_false, origLineChunks_eq]
    exact chunksTok_append [_] _ (chunksTok_noChunk _ (by simp [Ev.isChunk])) (lineEvs_tok _ _ _ (tokOK_of_lines _ (lines_of_splitLines t)))
  | true =>
    simp only [streamOriginal, if_true]
    exact chunksTok_append [_] _ (chunksTok_noChunk _ (by simp [Ev.isChunk])) (origTokChunks_tok _ _ _ (tokens_ok t))

/-! ## map-driven splitters -/
theorem smWholeLines_tok (lines : List Text) (h : ∀ ln ∈ lines, TokOK ln) (a b : Nat) : ChunksTok (smWholeLines lines a b) := by
  intro t m hm
  simp only [smWholeLines, List.mem_flatten, List.mem_map] at hm
  obtain ⟨l, ⟨k, _, rfl⟩, hl⟩ := hm
  split at hl
  · simp only [List.mem_singleton, Ev.chunk.injEq, Option.some.injEq] at hl
    rw [hl.1]; exact tokOK_getD lines h _
  · simp at hl

theorem optChunk_tok (ch : Text) (m : Mapping) (h : TokOK ch) : ChunksTok (if ch.isEmpty then [] else [Ev.chunk (some ch) m]) := by
  split
  · exact chunksTok_nil
  · exact chunksTok_single _ _ h

theorem smFullStep_tok (lines : List Text) (h : ∀ ln ∈ lines, TokOK ln) (fl fc : Nat) (s : FullSt) (m : Mapping) :
    ChunksTok (smFullStep lines fl fc s m).2 := by
  have hc : ∀ k a b, TokOK (csub (lines.getD k []) a b) := fun k a b => tokOK_csub _ (tokOK_getD lines h k) a b
  unfold smFullStep
  split
  · exact chunksTok_nil
  · apply chunksTok_append
    · apply chunksTok_append
      · apply chunksTok_append
        · unfold smStep1; repeat' split
          all_goals first | exact chunksTok_nil | exact optChunk_tok _ _ (hc _ _ _)
        · unfold smStep2; repeat' split
          all_goals first | exact chunksTok_nil | exact chunksTok_single _ _ (hc _ _ _)
      · exact smWholeLines_tok lines h _ _
    · unfold smStep4; repeat' split
      all_goals first | exact chunksTok_nil | exact chunksTok_single _ _ (hc _ _ _)

theorem smFullGo_tok (lines : List Text) (h : ∀ ln ∈ lines, TokOK ln) (fl fc : Nat) : ∀ (ms : List Mapping) (s : FullSt),
    ChunksTok (smFullGo lines fl fc s ms) := by
  intro ms
  induction ms with
  | nil => intro s; exact chunksTok_nil
  | cons m rest ih => intro s; exact chunksTok_append _ _ (smFullStep_tok lines h fl fc s m) (ih _)

theorem smLinesFullGo_tok (lines : List Text) (h : ∀ ln ∈ lines, TokOK ln) : ∀ (ms : List Mapping) (cur : Nat),
    ChunksTok (smLinesFullGo lines cur ms).1 := by
  intro ms
  induction ms with
  | nil => intro cur; exact chunksTok_nil
  | cons m rest ih =>
    intro cur
    unfold smLinesFullGo
    split
    · exact ih _
    · split
      · exact ih _
      · exact chunksTok_append _ (_ :: _) (smWholeLines_tok lines h _ _)
          (chunksTok_append [_] _ (chunksTok_single _ _ (tokOK_getD lines h _)) (ih _))

theorem streamSM_tok (t : Text) (sm : SMap) (c : Bool) : ChunksTok (streamSM t sm ⟨c, false⟩).evs := by
  have hl := tokOK_of_lines _ (lines_of_splitLines t)
  cases c
  · simp only [streamSM, streamSMLinesFull]
    split
    · exact chunksTok_nil
    · exact chunksTok_append _ _ (chunksTok_append _ _ (chunksTok_noChunk _ (smSourceEvs_nochunk sm)) (smLinesFullGo_tok _ hl _ _))
        (smWholeLines_tok _ hl _ _)
  · simp only [streamSM, streamSMFull]
    split
    · exact chunksTok_nil
    · exact chunksTok_append _ _ (chunksTok_append _ _ (chunksTok_noChunk _ (smSourceEvs_nochunk sm)) (chunksTok_noChunk _ (smNameEvs_nochunk sm)))
        (smFullGo_tok _ hl _ _ _ _)

/-- `ChunksTok` only looks at the chunk texts -/
theorem chunksTok_of_keys (a b : List Ev) (h : evsKeys a = evsKeys b) (hb : ChunksTok b) : ChunksTok a := by
  intro t m hm
  have : (some t, m.gl, m.gc) ∈ evsKeys a := by
    simp only [evsKeys, List.mem_filterMap]
    exact ⟨_, hm, rfl⟩
  rw [h] at this
  simp only [evsKeys, List.mem_filterMap] at this
  obtain ⟨e, he, hk⟩ := this
  cases e with
  | chunk t' m' =>
    simp only [Ev.key, Option.some.injEq, Prod.mk.injEq] at hk
    obtain ⟨rfl, _, _⟩ := hk
    exact hb t m' he
  | source i s c => simp [Ev.key] at hk
  | name i n => simp [Ev.key] at hk

theorem streamCombined_tok (t : Text) (sm : SMap) (n : Text) (os : Option Text) (im : SMap) (rm : Bool) (c : Bool) :
    ChunksTok (streamCombined t sm n os im rm ⟨c, false⟩).evs := by
  simp only [streamCombined]
  exact chunksTok_of_keys _ _ (combFold_keys _ _ _) (streamSM_tok t sm c)

end Rs

namespace Rs

/-! ## ConcatSource -/
theorem concatEv_tok (st : CSt) (e : Ev) (h : ChunksTok [e]) : ChunksTok (concatEv false st e).2 := by
  cases e with
  | chunk text m =>
    simp only [concatEv]
    apply chunksTok_append
    · split
      · intro t m' hm; simp at hm
      · exact chunksTok_nil
    · cases text with
      | none => split <;> (intro t m' hm; simp at hm)
      | some t =>
        have ht := h t m (by simp)
        split <;> exact chunksTok_single _ _ ht
  | source i s c => simp only [concatEv]; unfold globalSource; split <;> (intro t m hm; simp at hm)
  | name i n => simp only [concatEv]; unfold globalName; split <;> (intro t m hm; simp at hm)

theorem concatEvs_tok : ∀ (evs : List Ev) (st : CSt), ChunksTok evs → ChunksTok (concatEvs false st evs).2 := by
  intro evs
  induction evs with
  | nil => intro st _; exact chunksTok_nil
  | cons e es ih =>
    intro st h
    simp only [concatEvs]
    exact chunksTok_append _ _ (concatEv_tok st e (fun t m hm => h t m (by simp at hm; simp [hm])))
      (ih _ (fun t m hm => h t m (by simp [hm])))

theorem concatGo_tok : ∀ (children : List SResult) (st : CSt), (∀ c ∈ children, ChunksTok c.evs) → ChunksTok (concatGo false st children).2 := by
  intro children
  induction children with
  | nil => intro st _; exact chunksTok_nil
  | cons c cs ih =>
    intro st h
    simp only [concatGo]
    apply chunksTok_append
    · simp only [concatChild]
      apply chunksTok_append
      · exact concatEvs_tok _ _ (h c (by simp))
      · split
        · intro t m hm; simp at hm
        · exact chunksTok_nil
    · exact ih _ (fun x hx => h x (by simp [hx]))

theorem concatStream_tok (children : List SResult) (h : ∀ c ∈ children, ChunksTok c.evs) : ChunksTok (concatStream false children).evs := by
  simp only [concatStream]; exact concatGo_tok children {} h

/-! ## ReplaceSource -/
theorem emitContent_tok (gc : Nat) (orig : Option Orig) : ∀ (cls : List Text), (∀ ln ∈ cls, TokOK ln) → ∀ (n : Option Nat) (st : RSt) (line : Int),
    ChunksTok (emitContent gc orig cls n st line).2.1 := by
  intro cls
  induction cls with
  | nil => intro _ n st line; exact chunksTok_nil
  | cons cl cls ih =>
    intro h n st line
    simp only [emitContent]
    exact chunksTok_append [_] _ (chunksTok_single _ _ (h cl (by simp))) (ih (fun x hx => h x (by simp [hx])) _ _ _)

theorem rIter_tok (chunk : Text) (hT : TokOK chunk) (gl endPos : Nat) (r : Repl) (rs : List Repl) (st : RSt) (l : LSt) :
    ChunksTok (rIter chunk gl endPos r rs st l).1 := by
  have hall : ChunksTok ((rBefore chunk ((gl : Int) + st.lineOff) r st l).2.2 ++ (rName r (rBefore chunk ((gl : Int) + st.lineOff) r st l).1 (rBefore chunk ((gl : Int) + st.lineOff) r st l).2.1).2.1
      ++ (emitContent (rBefore chunk ((gl : Int) + st.lineOff) r st l).2.1.gc (rBefore chunk ((gl : Int) + st.lineOff) r st l).2.1.orig (splitLines r.content)
          (rName r (rBefore chunk ((gl : Int) + st.lineOff) r st l).1 (rBefore chunk ((gl : Int) + st.lineOff) r st l).2.1).2.2
          (rName r (rBefore chunk ((gl : Int) + st.lineOff) r st l).1 (rBefore chunk ((gl : Int) + st.lineOff) r st l).2.1).1 ((gl : Int) + st.lineOff)).2.1) := by
    apply chunksTok_append
    · apply chunksTok_append
      · unfold rBefore; split
        · exact chunksTok_single _ _ (tokOK_bsub chunk hT _ _)
        · exact chunksTok_nil
      · exact chunksTok_noChunk _ (rName_facts _ _ _).1
    · exact emitContent_tok _ _ _ (tokOK_of_lines _ (lines_of_splitLines _)) _ _ _
  unfold rIter
  simp only
  repeat' split
  all_goals exact hall

theorem rLoop_tok (chunk : Text) (hT : TokOK chunk) (gl endPos : Nat) : ∀ (rs : List Repl) (st : RSt) (l : LSt),
    ChunksTok (rLoop chunk gl endPos rs st l).2.1 := by
  intro rs
  induction rs with
  | nil => intro st l; exact chunksTok_nil
  | cons r rs ih =>
    intro st l
    unfold rLoop
    split
    · have h := rIter_tok chunk hT gl endPos r rs st l
      generalize rIter chunk gl endPos r rs st l = it at *
      obtain ⟨evs, nx⟩ := it
      cases nx with
      | done st' => exact h
      | cont st' l' => exact chunksTok_append _ _ h (ih _ _)
    · exact chunksTok_nil

theorem rOnChunk_tok (st : RSt) (chunk : Text) (hT : TokOK chunk) (m : Mapping) : ChunksTok (rOnChunk st chunk m).2 := by
  unfold rOnChunk
  simp only
  split
  · exact chunksTok_nil
  · rename_i st1 l1 _
    have h := rLoop_tok chunk hT m.gl (st.pos + chunk.length) st1.rest st1 l1
    generalize rLoop chunk m.gl (st.pos + chunk.length) st1.rest st1 l1 = R at *
    obtain ⟨st2, evs, ol⟩ := R
    cases ol with
    | none => exact h
    | some l2 =>
      apply chunksTok_append _ _ h
      split
      · exact chunksTok_single _ _ (tokOK_drop chunk hT _)
      · exact chunksTok_nil

theorem rEvs_tok : ∀ (evs : List Ev) (st : RSt), ChunksTok evs → ChunksTok (rEvs st evs).2 := by
  intro evs
  induction evs with
  | nil => intro st _; exact chunksTok_nil
  | cons e es ih =>
    intro st h
    unfold rEvs
    apply chunksTok_append
    · cases e with
      | chunk t m =>
        cases t with
        | none => exact rOnChunk_tok _ _ tokOK_nil _
        | some t => exact rOnChunk_tok _ _ (h t m (by simp)) _
      | source i s c => exact chunksTok_noChunk _ (by simp [rEv, Ev.isChunk])
      | name i n => simp only [rEv]; exact chunksTok_noChunk _ (globalName_noChunk _ _)
    · exact ih _ (fun t m hm => h t m (by simp [hm]))

theorem replaceStream_tok (sorted : List Repl) (inner : SResult) (h : ChunksTok inner.evs) : ChunksTok (replaceStream sorted inner).evs := by
  unfold replaceStream
  simp only
  apply chunksTok_append
  · exact rEvs_tok _ _ h
  · rw [rRemainder_eq _ _ none]
    exact emitContent_tok _ _ _ (tokOK_of_lines _ (lines_of_splitLines _)) _ _ _

/-! ## whole trees -/
mutual
theorem Src.stream_tok : ∀ (s : Src) (c : Bool) (σ : Store), ChunksTok (s.stream ⟨c, false⟩ σ).1.evs
  | .raw _ _ lossy, c, σ => by simp only [Src.stream]; exact streamRaw_tok lossy c
  | .rawStr t, c, σ => by simp only [Src.stream]; exact streamRaw_tok t c
  | .rawBuf _ lossy, c, σ => by simp only [Src.stream]; exact streamRaw_tok lossy c
  | .orig t name, c, σ => by simp only [Src.stream]; exact streamOriginal_tok t name c
  | .sms t name map origSrc inner remove, c, σ => by
    simp only [Src.stream]
    cases inner with
    | none => exact streamSM_tok t map c
    | some im => exact streamCombined_tok t map name origSrc im remove c
  | .concat .nil, c, σ => by simp only [Src.stream]; exact concatStream_tok [] (by simp)
  | .concat (.cons s rest), c, σ => by
    cases hr : rest with
    | nil => simp only [Src.stream]; exact Src.stream_tok s c σ
    | cons s2 rest2 =>
      simp only [Src.stream]
      apply concatStream_tok
      intro x hx
      simp only [List.mem_cons] at hx
      rcases hx with rfl | hx
      · exact Src.stream_tok s c σ
      · exact SrcList.streams_tok (.cons s2 rest2) c _ x hx
  | .replace inner rs, c, σ => by simp only [Src.stream]; exact replaceStream_tok _ _ (Src.stream_tok inner c σ)
  | .cached id inner, c, σ => by
    simp only [Src.stream]
    cases hg : Store.get? σ (id, ⟨c, false⟩) with
    | none => simp only; exact Src.stream_tok inner c σ
    | some v =>
      cases v with
      | none => simp only; exact streamRaw_tok inner.src c
      | some m => simp only; exact streamSM_tok inner.src m c
theorem SrcList.streams_tok : ∀ (l : SrcList) (c : Bool) (σ : Store), ∀ r ∈ (l.streams ⟨c, false⟩ σ).1, ChunksTok r.evs
  | .nil, c, σ => by simp [SrcList.streams]
  | .cons s rest, c, σ => by
    intro r hr
    simp only [SrcList.streams, List.mem_cons] at hr
    rcases hr with rfl | hr
    · exact Src.stream_tok s c σ
    · exact SrcList.streams_tok rest c _ r hr
end

end Rs
