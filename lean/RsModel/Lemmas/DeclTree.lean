import RsModel.Lemmas.DeclReplace
import RsModel.Lemmas.PosTree
import RsModel.Lemmas.CombTables
/-! # C11 stream clause for whole trees, all four modes -/
namespace Rs

mutual
/-- what the property's quantifier provides: attached maps (outer and inner) reference existing sources / names of their own tables -/
def Src.IdxHyp : Src → Prop
  | .sms t name map origSrc inner remove =>
    match inner with
    | none => MapIdxOK map
    | some im => MapIdxOK map ∧ MapIdxOK im
  | .concat cs => cs.IdxHyps
  | .replace inner _ => inner.IdxHyp
  | .cached _ inner => inner.IdxHyp
  | _ => True
def SrcList.IdxHyps : SrcList → Prop
  | .nil => True
  | .cons s r => s.IdxHyp ∧ r.IdxHyps
end

/-- maps already cached for the nodes of this tree reference existing sources / names -/
def StoreIdx (σ : Store) (nodes : List (Nat × Src)) : Prop :=
  ∀ p ∈ nodes, ∀ o m, σ.get? (p.1, o) = some (some m) → MapIdxOK m

theorem storeIdx_sub (σ : Store) (a b : List (Nat × Src)) (h : StoreIdx σ (a ++ b)) : StoreIdx σ a ∧ StoreIdx σ b :=
  ⟨fun p hp => h p (List.mem_append_left _ hp), fun p hp => h p (List.mem_append_right _ hp)⟩

theorem storeIdx_transfer (σ σ' : Store) (nodes : List (Nat × Src)) (h : StoreIdx σ nodes)
    (hsame : ∀ p ∈ nodes, ∀ o, σ'.get? (p.1, o) = σ.get? (p.1, o)) : StoreIdx σ' nodes := by
  intro p hp o m hm
  rw [hsame p hp o] at hm
  exact h p hp o m hm

mutual
theorem Src.stream_declOK : ∀ (s : Src) (o : Opts) (σ : Store), s.IdxHyp → s.ids.Nodup → StoreIdx σ s.cachedNodes →
    DeclOK 0 0 (s.stream o σ).1.evs
  | .raw _ _ lossy, o, σ, _, _, _ => by simp only [Src.stream]; exact streamRaw_declOK lossy o 0 0
  | .rawStr t, o, σ, _, _, _ => by simp only [Src.stream]; exact streamRaw_declOK t o 0 0
  | .rawBuf _ lossy, o, σ, _, _, _ => by simp only [Src.stream]; exact streamRaw_declOK lossy o 0 0
  | .orig t name, o, σ, _, _, _ => by simp only [Src.stream]; exact streamOriginal_declOK t name o
  | .sms t name map origSrc inner remove, o, σ, hp, _, _ => by
    simp only [Src.stream]
    cases inner with
    | none => exact streamSM_declOK t map o hp
    | some im => exact streamCombined_declOK t map name origSrc im remove o hp.1 hp.2
  | .concat .nil, o, σ, _, _, _ => by simp only [Src.stream]; exact concatStream_declOK _ _
  | .concat (.cons s rest), o, σ, hp, hn, hs => by
    simp only [Src.IdxHyp, SrcList.IdxHyps] at hp
    simp only [Src.ids, Src.cachedNodes, SrcList.cachedNodesL, List.map_append] at hn hs
    cases hr : rest with
    | nil =>
      simp only [Src.stream]
      exact Src.stream_declOK s o σ hp.1 (List.nodup_append.1 hn).1 (storeIdx_sub σ _ _ hs).1
    | cons s2 rest2 => simp only [Src.stream]; exact concatStream_declOK _ _
  | .replace inner rs, o, σ, hp, hn, hs => by
    simp only [Src.stream]
    exact replaceStream_declOK _ _ (Src.stream_declOK inner _ σ hp hn hs)
  | .cached id inner, o, σ, hp, hn, hs => by
    simp only [Src.ids, Src.cachedNodes, List.map_cons, List.nodup_cons] at hn
    simp only [Src.stream]
    cases hg : Store.get? σ (id, o) with
    | none =>
      simp only
      exact Src.stream_declOK inner o σ hp hn.2 (fun p hpm => hs p (by simp [Src.cachedNodes, hpm]))
    | some v =>
      cases v with
      | none => simp only; exact streamRaw_declOK inner.src o 0 0
      | some m => simp only; exact streamSM_declOK inner.src m o (hs (id, inner) (by simp [Src.cachedNodes]) o m hg)
end

end Rs
