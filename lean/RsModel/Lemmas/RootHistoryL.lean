import RsModel.Lemmas.RootHistory
import RsModel.Lemmas.WarmLinesF
/-!
# Call histories on a CachedSource wrapper itself, columns = false (file and line granularity)
-/
namespace Rs

def rootKeyL (id : Nat) : Nat × Opts := (id, ⟨false, false⟩)

def rootCallL (id : Nat) (inner : Src) (c : RCall) (σ : Store) : RAns × Store :=
  match c with
  | .stream => (.stream ((Src.cached id inner).stream ⟨false, false⟩ σ).1, ((Src.cached id inner).stream ⟨false, false⟩ σ).2)
  | .map => (.map ((Src.cached id inner).map ⟨false, false⟩ σ).1, ((Src.cached id inner).map ⟨false, false⟩ σ).2)

def runRootL (id : Nat) (inner : Src) : List RCall → Store → List RAns × Store
  | [], σ => ([], σ)
  | c :: cs, σ => ((rootCallL id inner c σ).1 :: (runRootL id inner cs (rootCallL id inner c σ).2).1, (runRootL id inner cs (rootCallL id inner c σ).2).2)

def mapFillL (inner : Src) : Option SMap := (getMap inner ⟨false, false⟩ []).1
def streamFillL (inner : Src) : Option SMap := mapOfEvs false (inner.stream ⟨false, false⟩ []).1.evs

def RootInvL (id : Nat) (inner : Src) (σ : Store) : Prop :=
  σ.get? (rootKeyL id) = none ∨ σ.get? (rootKeyL id) = some (mapFillL inner) ∨ σ.get? (rootKeyL id) = some (streamFillL inner)

structure RootHypL (inner : Src) : Prop where
  nc : inner.NoCached
  mode : inner.ModeHypL
  ascii : IsAscii inner.src
  len : inner.src.length ≤ USIZE_MAX
  smallF : ∀ m ∈ chunkMs (inner.stream ⟨false, true⟩ []).1.evs, ∀ o, m.orig = some o → o.src < U31 ∧ o.line < U31
  smallN : ∀ m ∈ chunkMs (inner.stream ⟨false, false⟩ []).1.evs, ∀ o, m.orig = some o → o.src < U31 ∧ o.line < U31
  isGetMap : ∀ σ, inner.map ⟨false, false⟩ σ = getMap inner ⟨false, false⟩ σ

/-- replaying either fill resolves the first mapped chunk of every line like the wrapped source's own stream -/
theorem replay_fill_lname (id : Nat) (inner : Src) (h : RootHypL inner) (e : Option SMap) (he : e = mapFillL inner ∨ e = streamFillL inner) (L : Nat) :
    LNameOf (match e with
      | some m => streamSM inner.src m ⟨false, false⟩
      | none => streamRaw inner.src ⟨false, false⟩).evs L = LNameOf (inner.stream ⟨false, false⟩ []).1.evs L := by
  obtain ⟨hw, hp, hi⟩ := Src.modeHypL_base inner h.mode
  have hst := Src.strip_of_nc inner h.nc
  have hwc : (Src.cached id inner).WF := ⟨hw, textOK_of_ascii _ h.ascii h.len⟩
  have hpc : (Src.cached id inner).PosHyp false := ⟨hp, h.ascii, h.len⟩
  rcases he with rfl | rfl
  · -- the entry `map()` stored: the map of the text-less stream
    have hl := replayLF_leaf id inner (by rw [hst]; exact h.mode) h.ascii h.len (by rw [hst]; exact h.smallF)
    have hleaf : (Src.cached id inner).LeafOK true := by
      simp only [Src.LeafOK]
      exact ⟨hl.1, (Src.modeHypL_base _ hl.2).2.2, by rw [hst]; exact hi⟩
    have := warmG_lname true (Src.cached id inner) hwc hpc hleaf trivial L
    simp only [Src.warm, Src.strip, hst] at this
    simp only [mapFillL, getMap]
    cases hm : mapOfEvs false (inner.stream ⟨false, true⟩ []).1.evs with
    | some sm => rw [hm] at this; simpa [Src.stream] using this
    | none => rw [hm] at this; simpa [Src.stream] using this
  · have hl := replayL_leaf id inner (by rw [hst]; exact hw) (by rw [hst]; exact hp) (by rw [hst]; exact hi) h.ascii h.len (by rw [hst]; exact h.smallN)
    have hleaf : (Src.cached id inner).LeafOK false := by
      simp only [Src.LeafOK]
      exact ⟨hl.1, hl.2, by rw [hst]; exact hi⟩
    have := warmG_lname false (Src.cached id inner) hwc hpc hleaf trivial L
    simp only [Src.warm, Src.strip, hst] at this
    simp only [streamFillL]
    cases hm : mapOfEvs false (inner.stream ⟨false, false⟩ []).1.evs with
    | some sm => rw [hm] at this; simpa [Src.stream] using this
    | none => rw [hm] at this; simpa [Src.stream] using this

theorem rootInvL_step (id : Nat) (inner : Src) (h : RootHypL inner) (σ : Store) (hi : RootInvL id inner σ) (c : RCall) :
    RootInvL id inner (rootCallL id inner c σ).2
    ∧ (match (rootCallL id inner c σ).1 with
       | .stream r => ∀ L, LNameOf r.evs L = LNameOf (inner.stream ⟨false, false⟩ []).1.evs L
       | .map m => m = mapFillL inner ∨ m = streamFillL inner) := by
  have hs := Src.stream_nc inner ⟨false, false⟩ σ h.nc
  cases c with
  | stream =>
    simp only [rootCallL, Src.stream]
    rcases hi with h0 | h1 | h2
    · simp only [rootKeyL] at h0
      rw [h0]
      simp only []
      rw [hs.1, hs.2]
      refine ⟨Or.inr (Or.inr ?_), fun _ => rfl⟩
      simp only [rootKeyL]
      rw [insertNew_self _ _ _ h0]
      rfl
    · simp only [rootKeyL] at h1
      rw [h1]
      have := replay_fill_lname id inner h (mapFillL inner) (Or.inl rfl)
      cases hm : mapFillL inner with
      | some sm => rw [hm] at this; exact ⟨Or.inr (Or.inl (by simp only [rootKeyL]; rw [h1, hm])), this⟩
      | none => rw [hm] at this; exact ⟨Or.inr (Or.inl (by simp only [rootKeyL]; rw [h1, hm])), this⟩
    · simp only [rootKeyL] at h2
      rw [h2]
      have := replay_fill_lname id inner h (streamFillL inner) (Or.inr rfl)
      cases hm : streamFillL inner with
      | some sm => rw [hm] at this; exact ⟨Or.inr (Or.inr (by simp only [rootKeyL]; rw [h2, hm])), this⟩
      | none => rw [hm] at this; exact ⟨Or.inr (Or.inr (by simp only [rootKeyL]; rw [h2, hm])), this⟩
  | map =>
    simp only [rootCallL, Src.map]
    rcases hi with h0 | h1 | h2
    · simp only [rootKeyL] at h0
      rw [h0]
      simp only []
      rw [h.isGetMap σ, getMap_nc inner h.nc ⟨false, false⟩ σ]
      refine ⟨Or.inr (Or.inl ?_), Or.inl rfl⟩
      simp only [rootKeyL]
      rw [insertNew_self _ _ _ h0]
      rfl
    · simp only [rootKeyL] at h1
      rw [h1]
      exact ⟨Or.inr (Or.inl h1), Or.inl rfl⟩
    · simp only [rootKeyL] at h2
      rw [h2]
      exact ⟨Or.inr (Or.inr h2), Or.inr rfl⟩

theorem runRootL_answers (id : Nat) (inner : Src) (h : RootHypL inner) : ∀ (calls : List RCall) (σ : Store), RootInvL id inner σ →
    ∀ a ∈ (runRootL id inner calls σ).1,
      (match a with
       | .stream r => ∀ L, LNameOf r.evs L = LNameOf (inner.stream ⟨false, false⟩ []).1.evs L
       | .map m => m = mapFillL inner ∨ m = streamFillL inner) := by
  intro calls
  induction calls with
  | nil => intro σ _ a ha; simp [runRootL] at ha
  | cons c cs ih =>
    intro σ hi a ha
    obtain ⟨s1, s2⟩ := rootInvL_step id inner h σ hi c
    simp only [runRootL, List.mem_cons] at ha
    rcases ha with rfl | ha
    · exact s2
    · exact ih _ s1 a ha

/-- both fills resolve every generated line (first mapped segment, through the map's own `sources`) like the wrapped source's stream -/
theorem fills_resolve_lines (inner : Src) (h : RootHypL inner) (m : Option SMap) (hm : m = mapFillL inner ∨ m = streamFillL inner) :
    ∀ sm, m = some sm → ∀ L, 0 < L → LNameM sm L = LNameOf (inner.stream ⟨false, false⟩ []).1.evs L := by
  obtain ⟨hn, _, _⟩ := nc_facts inner h.nc
  have hcold : Cold [] inner.ids := cold_nil _
  intro sm hsm L hL
  rcases hm with rfl | rfl
  · exact getMap_lname inner h.mode hn [] [] hcold hcold false h.smallF sm hsm L hL
  · obtain ⟨b1, _, b3, _, b5, _, _⟩ := Src.base_factsL inner h.mode hn [] [] hcold hcold
    have hsorted := chunkMs_sorted _ [] b1.1 b3
    have hlo := linesOK_of_sorted _ 1 0 hsorted
    have hdec : decode sm.mappings = keptLines {} (chunkMs (inner.stream ⟨false, false⟩ []).1.evs) := by
      rw [mapOfEvs_mappings_lines _ sm hsm]; exact decode_lencode _ h.smallN hlo
    have hrel := mapAcc_tblRelF (inner.stream ⟨false, false⟩ []).1.evs 0 0 {} emptyS emptyN b5 ⟨rfl, rfl, fun i hi => by omega, fun i hi => by omega⟩
    obtain ⟨_, _, r4, _⟩ := hrel
    simp only [Nat.zero_add] at r4
    have hsrc : sm.sources = ((inner.stream ⟨false, false⟩ []).1.evs.foldl mapAccEv {}).sources := by
      simp only [streamFillL] at hsm
      unfold mapOfEvs at hsm
      dsimp only at hsm
      split at hsm
      · cases hsm
      · simp only [Option.some.injEq] at hsm
        rw [← hsm]
    unfold LNameM LNameOf
    rw [hdec, keptLines_lookup L _ {} (by simp; omega)]
    cases hq : lookupLines (chunkMs (inner.stream ⟨false, false⟩ []).1.evs) L with
    | none => rfl
    | some p =>
      obtain ⟨si, ol⟩ := p
      have hsi := lookupLines_idx _ b5 L si ol hq
      simp only [Option.map_some, Option.some.injEq, Prod.mk.injEq, and_true]
      rw [r4 si hsi, hsrc]

end Rs
