import RsModel.Lemmas.RopeSearch
/-!
# Rope: `byte_slice` cuts exactly the window of the flat string, with `str`'s char-boundary rule
-/
namespace Rs
namespace Rope

/-- a piece is a `&str`: it does not begin inside a character -/
def pieceOK (c : Text) : Bool := match c with | [] => true | b :: _ => !isCont b

def PiecesOK (ps : List (Text × Nat)) : Prop := ∀ p ∈ ps, pieceOK p.1 = true

def WF : Rope → Prop
  | .light s => pieceOK s = true
  | .full ps => OffsOK 0 ps ∧ PiecesOK ps

theorem pieceOK_flat : ∀ (ps : List (Text × Nat)), PiecesOK ps → pieceOK (flat ps) = true := by
  intro ps
  induction ps with
  | nil => intro _; rfl
  | cons p rest ih =>
    intro h
    have hp : pieceOK p.1 = true := h p (by simp)
    have hr := ih (fun q hq => h q (by simp [hq]))
    simp only [flat, List.map_cons, List.flatten_cons] at hr ⊢
    cases hc : p.1 with
    | nil => simpa using hr
    | cons b bs => rw [hc] at hp; simpa [pieceOK] using hp

theorem isBoundary_len (c : Text) : isBoundary c c.length = true := by
  unfold isBoundary
  split
  · rfl
  · simp

theorem isBoundary_zero (c : Text) : isBoundary c 0 = true := by simp [isBoundary]

/-- at a piece border the flat string has a char boundary -/
theorem isBoundary_border (ps : List (Text × Nat)) (hp : PiecesOK ps) (j : Nat) :
    isBoundary (flat ps) (total (ps.take j)) = true := by
  have hsplit : flat ps = flat (ps.take j) ++ flat (ps.drop j) := by rw [← flat_append, List.take_append_drop]
  have hl : (flat (ps.take j)).length = total (ps.take j) := flat_length _
  unfold isBoundary
  split
  · rfl
  · rw [hsplit, List.getElem?_append_right (by omega), hl, Nat.sub_self]
    have hd : pieceOK (flat (ps.drop j)) = true := pieceOK_flat _ (fun q hq => hp q (List.mem_of_mem_drop hq))
    cases hf : flat (ps.drop j) with
    | nil => simp [hl]
    | cons b bs => rw [hf] at hd; simpa [pieceOK] using hd

/-- inside (or at the ends of) piece `k`, `str::is_char_boundary` of the piece and of the flat string agree -/
theorem isBoundary_local (ps : List (Text × Nat)) (hp : PiecesOK ps) (k p : Nat) (hk : k < ps.length)
    (h1 : total (ps.take k) ≤ p) (h2 : p ≤ total (ps.take k) + (ps.getD k default).1.length) :
    isBoundary (ps.getD k default).1 (p - total (ps.take k)) = isBoundary (flat ps) p := by
  by_cases hend : p = total (ps.take k) + (ps.getD k default).1.length
  · -- the end of the piece is the border `k+1`
    have : p = total (ps.take (k + 1)) := by rw [total_take_succ ps k hk]; exact hend
    rw [this, isBoundary_border ps hp (k + 1), total_take_succ ps k hk, Nat.add_sub_cancel_left, isBoundary_len]
  · by_cases hst : p = total (ps.take k)
    · rw [hst, isBoundary_border ps hp k, Nat.sub_self, isBoundary_zero]
    · have hq : p - total (ps.take k) < (ps.getD k default).1.length := by omega
      have hl : (flat (ps.take k)).length = total (ps.take k) := flat_length _
      unfold isBoundary
      have e1 : ¬ (p - total (ps.take k) = 0) := by omega
      have e2 : ¬ (p = 0) := by omega
      simp only [e1, e2, if_false]
      rw [flat_split ps k hk, List.append_assoc, List.getElem?_append_right (by omega), List.getElem?_append_left (by omega), hl]
      rw [List.getElem?_eq_getElem hq]

theorem bget_eq (c : Text) (a b : Nat) (h1 : a ≤ b) (h2 : b ≤ c.length) :
    bget c a b = if isBoundary c a && isBoundary c b then some (bsub c a b) else none := by
  unfold bget
  by_cases ha : isBoundary c a = true <;> by_cases hb : isBoundary c b = true <;> simp [h1, h2, ha, hb]

theorem bsub_split (t : Text) (a m b : Nat) (h1 : a ≤ m) (h2 : m ≤ b) : bsub t a b = bsub t a m ++ bsub t m b := by
  unfold bsub
  have : b - a = (m - a) + (b - m) := by omega
  rw [this, List.take_add, List.drop_drop]
  congr 3; omega

theorem bsub_self (t : Text) (a : Nat) : bsub t a a = [] := by simp [bsub]

theorem bsub_whole (c : Text) : bsub c 0 c.length = c := by simp [bsub]

theorem pieceOK_drop (c : Text) (q : Nat) (h : pieceOK c = true) (hb : isBoundary c q = true) : pieceOK (c.drop q) = true := by
  cases hd : c.drop q with
  | nil => rfl
  | cons x xs =>
    have hq : q < c.length := by
      rcases Nat.lt_or_ge q c.length with h' | h'
      · exact h'
      · rw [List.drop_eq_nil_of_le h'] at hd; cases hd
    have hx : c[q]? = some x := by
      have := congrArg List.head? hd
      simpa [List.head?_drop] using this
    unfold isBoundary at hb
    by_cases h0 : q = 0
    · subst h0; simp only [List.drop_zero] at hd; rw [hd] at h; simpa [pieceOK] using h
    · simp only [h0, if_false, hx] at hb
      simpa [pieceOK] using hb

theorem pieceOK_take (c : Text) (n : Nat) (h : pieceOK c = true) : pieceOK (c.take n) = true := by
  cases c with
  | nil => simp [pieceOK]
  | cons x xs =>
    cases n with
    | zero => rfl
    | succ n => simpa [pieceOK] using h

theorem pieceOK_bsub (c : Text) (a b : Nat) (h : pieceOK c = true) (hb : isBoundary c a = true) : pieceOK (bsub c a b) = true :=
  pieceOK_take _ _ (pieceOK_drop c a h hb)

end Rope
end Rs

namespace Rs
namespace Rope

theorem getElem?_getD (ps : List (Text × Nat)) (i : Nat) (hi : i < ps.length) : ps[i]? = some (ps.getD i default) := by
  simp [List.getD_eq_getElem?_getD, List.getElem?_eq_getElem hi]

theorem flat_cons (c : Text) (l : Nat) (out : List (Text × Nat)) : flat ((c, l) :: out) = c ++ flat out := by simp [flat]

/-- the pieces after the first one, up to the cut at `b` in piece `k1` -/
theorem sliceGo_tail (ps : List (Text × Nat)) (hoff : OffsOK 0 ps) (hp : PiecesOK ps) (k0 k1 a b : Nat) (hk1 : k1 < ps.length)
    (hSb : total (ps.take k1) ≤ b) (hbE : b ≤ total (ps.take k1) + (ps.getD k1 default).1.length) :
    ∀ (n i l : Nat), k0 < i → i ≤ k1 → n = k1 + 1 - i →
      (isBoundary (flat ps) b = true → ∃ out, sliceGo ps k0 k1 a b n i l = .ok out
          ∧ flat out = bsub (flat ps) (total (ps.take i)) b ∧ OffsOK l out ∧ PiecesOK out)
      ∧ (isBoundary (flat ps) b = false → sliceGo ps k0 k1 a b n i l = .error .boundary) := by
  intro n
  induction n with
  | zero => intro i l _ h2 h3; omega
  | succ n ih =>
    intro i l h1 h2 h3
    have hi : i < ps.length := by omega
    have hst := offsOK_start ps 0 i hoff hi
    have hpc : pieceOK (ps.getD i default).1 = true := hp _ (by
      rw [List.getD_eq_getElem?_getD, List.getElem?_eq_getElem hi]; exact List.getElem_mem hi)
    unfold sliceGo
    rw [getElem?_getD ps i hi]
    have hne : ¬ i = k0 := by omega
    simp only [hne, if_false]
    by_cases hik : i = k1
    · subst hik
      have hn0 : n = 0 := by omega
      subst hn0
      simp only [if_true]
      have hst' : (ps.getD i default).2 = total (ps.take i) := by omega
      rw [hst', bget_eq _ 0 (b - total (ps.take i)) (by omega) (by omega), isBoundary_zero, Bool.true_and,
        isBoundary_local ps hp i b hi hSb hbE]
      constructor
      · intro hb
        simp only [hb, if_true, sliceGo, Except.map]
        refine ⟨_, rfl, ?_, ⟨rfl, trivial⟩, ?_⟩
        · rw [flat_cons, flat, List.map_nil, List.flatten_nil, List.append_nil,
            bsub_in_piece ps i (total (ps.take i)) b hi (by omega) hSb hbE, Nat.sub_self]
        · intro q hq
          simp only [List.mem_cons, List.not_mem_nil, or_false] at hq
          subst hq
          exact pieceOK_bsub _ _ _ hpc (isBoundary_zero _)
      · intro hb
        simp only [hb, Bool.false_eq_true, if_false]
    · simp only [hik, if_false]
      obtain ⟨ih1, ih2⟩ := ih (i + 1) (l + (ps.getD i default).1.length) (by omega) (by omega) (by omega)
      have hT : total (ps.take (i + 1)) ≤ b := by
        have := total_take_le ps (i + 1) k1 (by omega); omega
      constructor
      · intro hb
        obtain ⟨out, e1, e2, e3, e4⟩ := ih1 hb
        rw [e1]
        simp only [Except.map]
        refine ⟨_, rfl, ?_, ⟨rfl, e3⟩, ?_⟩
        · rw [flat_cons, e2, bsub_split (flat ps) (total (ps.take i)) (total (ps.take (i + 1))) b (total_take_le ps _ _ (by omega)) hT]
          congr 1
          rw [bsub_in_piece ps i _ _ hi (by omega) (total_take_le ps _ _ (by omega)) (by rw [total_take_succ ps i hi]; omega),
            Nat.sub_self, total_take_succ ps i hi, Nat.add_sub_cancel_left, bsub_whole]
        · intro q hq
          simp only [List.mem_cons] at hq
          rcases hq with rfl | hq
          · exact hpc
          · exact e4 q hq
      · intro hb
        rw [ih2 hb]; rfl

end Rope
end Rs

namespace Rs
namespace Rope

theorem WF.inv {r : Rope} (h : r.WF) : r.Inv := by
  cases r with
  | light s => trivial
  | full ps => exact h.1

/-- where the two searches of `get_byte_slice_impl` land -/
theorem slice_indices (ps : List (Text × Nat)) (hoff : OffsOK 0 ps) (hne : ps ≠ []) (a b : Nat) (hab : a ≤ b) (hb : b ≤ total ps) :
    startChunk ps a < ps.length ∧ total (ps.take (startChunk ps a)) ≤ a
    ∧ (∀ j, startChunk ps a < j → j < ps.length → a < total (ps.take j))
    ∧ endChunk ps b < ps.length ∧ total (ps.take (endChunk ps b)) ≤ b
    ∧ b ≤ total (ps.take (endChunk ps b)) + (ps.getD (endChunk ps b) default).1.length := by
  obtain ⟨s1, s2, s3⟩ := startChunk_spec ps hoff hne a
  refine ⟨s1, s2, s3, ?_⟩
  have hlen : 0 < ps.length := List.length_pos_iff.mpr hne
  have hend : ∀ j, j < ps.length → (ps.getD j default).2 + (ps.getD j default).1.length = total (ps.take (j + 1)) := by
    intro j hj; have := offsOK_end ps 0 j hoff hj; omega
  have hlast : total (ps.take (ps.length - 1 + 1)) = total ps := total_take_all ps _ (by omega)
  rw [endChunk_eq]
  rcases findEnd_spec (fun p => p.2 + p.1.length) ps b hne (ends_mono ps hoff) with ⟨e1, e2, _⟩ | ⟨e1, e2, e3⟩
  · refine ⟨e1, ?_, ?_⟩
    · rw [hend _ e1, total_take_succ ps _ e1] at e2; omega
    · rw [hend _ e1, total_take_succ ps _ e1] at e2; omega
  · have hk : findEnd (fun p => p.2 + p.1.length) ps b < ps.length := by
      rcases Nat.lt_or_ge (findEnd (fun p => p.2 + p.1.length) ps b) ps.length with h | h
      · exact h
      · have := e2 (ps.length - 1) (by omega)
        rw [hend _ (by omega), hlast] at this; omega
    refine ⟨hk, ?_, ?_⟩
    · rcases Nat.eq_zero_or_pos (findEnd (fun p => p.2 + p.1.length) ps b) with h0 | h0
      · rw [h0]; simp [total]
      · have := e2 (findEnd (fun p => p.2 + p.1.length) ps b - 1) (by omega)
        rw [hend _ (by omega)] at this
        have e : findEnd (fun p => p.2 + p.1.length) ps b - 1 + 1 = findEnd (fun p => p.2 + p.1.length) ps b := by omega
        rw [e] at this; omega
    · have := e3 _ (Nat.le_refl _) hk
      rw [hend _ hk, total_take_succ ps _ hk] at this; omega

/-- **`byte_slice(a..b)` on an in-range window**: succeeds exactly when both ends are char boundaries of the flat
string, and then renders to that window and is again a well-formed rope -/
theorem byteSlice_spec (r : Rope) (h : r.WF) (a b : Nat) (hab : a ≤ b) (hb : b ≤ r.render.length) :
    ((isBoundary r.render a && isBoundary r.render b) = true →
        ∃ r', byteSlice r a b = .ok r' ∧ r'.render = bsub r.render a b ∧ r'.WF)
    ∧ ((isBoundary r.render a && isBoundary r.render b) = false → byteSlice r a b = .error .boundary) := by
  have hlen := len_eq_render r h.inv
  unfold byteSlice
  have h1 : ¬ a > b := by omega
  have h2 : ¬ b > r.len := by omega
  simp only [h1, h2, if_false]
  cases r with
  | light s =>
    simp only [render] at hb ⊢
    rw [bget_eq s a b hab hb]
    constructor
    · intro hbd
      simp only [hbd, if_true]
      have ha : isBoundary s a = true := by simp only [Bool.and_eq_true] at hbd; exact hbd.1
      exact ⟨_, rfl, rfl, pieceOK_bsub s a b h ha⟩
    · intro hbd; simp only [hbd, Bool.false_eq_true, if_false]
  | full ps =>
    obtain ⟨hoff, hp⟩ := h
    rw [render_full] at hb ⊢
    rw [flat_length] at hb
    by_cases hemp : ps = []
    · subst hemp
      simp only [List.isEmpty_nil, if_true]
      have : a = 0 ∧ b = 0 := by simp [total] at hb; omega
      obtain ⟨rfl, rfl⟩ := this
      exact ⟨fun _ => ⟨_, rfl, by simp [new, render, flat, bsub], by simp [new, WF, pieceOK]⟩, fun hbd => by simp [flat, isBoundary] at hbd⟩
    · have hie : ps.isEmpty = false := by cases ps <;> simp_all
      simp only [hie, Bool.false_eq_true, if_false]
      obtain ⟨s1, s2, s3, e1, e2, e3⟩ := slice_indices ps hoff hemp a b hab hb
      generalize startChunk ps a = k0 at *
      generalize endChunk ps b = k1 at *
      by_cases hk : k0 = k1
      · subst hk
        simp only [if_true]
        rw [getElem?_getD ps k0 s1]
        have hst : (ps.getD k0 default).2 = total (ps.take k0) := by have := offsOK_start ps 0 k0 hoff s1; omega
        simp only [hst]
        rw [bget_eq _ _ _ (by omega) (by omega), isBoundary_local ps hp k0 a s1 s2 (by omega), isBoundary_local ps hp k0 b s1 e2 e3]
        have hpc : pieceOK (ps.getD k0 default).1 = true := hp _ (by
          rw [List.getD_eq_getElem?_getD, List.getElem?_eq_getElem s1]; exact List.getElem_mem s1)
        constructor
        · intro hbd
          simp only [hbd, if_true]
          have ha : isBoundary (flat ps) a = true := by simp only [Bool.and_eq_true] at hbd; exact hbd.1
          refine ⟨_, rfl, ?_, ?_⟩
          · simp only [render]; rw [bsub_in_piece ps k0 a b s1 s2 hab e3]
          · refine pieceOK_bsub _ _ _ hpc ?_
            rw [isBoundary_local ps hp k0 a s1 s2 (by omega)]; exact ha
        · intro hbd; simp only [hbd, Bool.false_eq_true, if_false]
      · simp only [hk, if_false]
        by_cases hlt : k1 < k0
        · simp only [hlt, if_true]
          -- then the window is empty and sits on a piece border
          have hT : total (ps.take (k1 + 1)) ≤ total (ps.take k0) := total_take_le ps _ _ (by omega)
          rw [total_take_succ ps k1 e1] at hT
          have hab' : a = b := by omega
          have ha0 : a = total (ps.take k0) := by omega
          subst hab'
          constructor
          · intro _; exact ⟨_, rfl, by simp [new, render, bsub_self], by simp [new, WF, pieceOK]⟩
          · intro hbd
            rw [ha0, isBoundary_border ps hp k0] at hbd; simp at hbd
        · simp only [hlt, if_false]
          have hk01 : k0 < k1 := by omega
          have hst : (ps.getD k0 default).2 = total (ps.take k0) := by have := offsOK_start ps 0 k0 hoff s1; omega
          have haE : a < total (ps.take (k0 + 1)) := s3 (k0 + 1) (by omega) (by omega)
          have haE' := haE; rw [total_take_succ ps k0 s1] at haE'
          have hpc : pieceOK (ps.getD k0 default).1 = true := hp _ (by
            rw [List.getD_eq_getElem?_getD, List.getElem?_eq_getElem s1]; exact List.getElem_mem s1)
          have hn : k1 + 1 - k0 = (k1 - k0) + 1 := by omega
          rw [hn]
          unfold sliceGo
          rw [getElem?_getD ps k0 s1]
          simp only [if_true, hst]
          rw [bget_eq _ _ _ (by omega) (Nat.le_refl _), isBoundary_len, Bool.and_true, isBoundary_local ps hp k0 a s1 s2 (by omega)]
          obtain ⟨t1, t2⟩ := sliceGo_tail ps hoff hp k0 k1 a b e1 e2 e3 (k1 - k0) (k0 + 1)
            (0 + (bsub (ps.getD k0 default).1 (a - total (ps.take k0)) (ps.getD k0 default).1.length).length) (by omega) (by omega) (by omega)
          constructor
          · intro hbd
            simp only [Bool.and_eq_true] at hbd
            obtain ⟨out, o1, o2, o3, o4⟩ := t1 hbd.2
            simp only [hbd.1, if_true, o1, Except.map]
            refine ⟨_, rfl, ?_, ⟨⟨rfl, o3⟩, ?_⟩⟩
            · simp only [render]
              change flat (_ :: out) = _
              rw [flat_cons, o2, bsub_split (flat ps) a (total (ps.take (k0 + 1))) b (by omega)
                (by have := total_take_le ps (k0 + 1) k1 (by omega); omega)]
              congr 1
              rw [bsub_in_piece ps k0 a _ s1 s2 (by omega) (by rw [total_take_succ ps k0 s1]; omega), total_take_succ ps k0 s1,
                Nat.add_sub_cancel_left]
            · intro q hq
              simp only [List.mem_cons] at hq
              rcases hq with rfl | hq
              · refine pieceOK_bsub _ _ _ hpc ?_
                rw [isBoundary_local ps hp k0 a s1 s2 (by omega)]; exact hbd.1
              · exact o4 q hq
          · intro hbd
            by_cases ha : isBoundary (flat ps) a = true
            · have hb' : isBoundary (flat ps) b = false := by simp only [ha, Bool.true_and] at hbd; exact hbd
              simp only [ha, if_true, t2 hb']; rfl
            · simp only [ha, Bool.false_eq_true, if_false]; rfl

theorem byteSlice_reversed (r : Rope) (a b : Nat) (h : a > b) : byteSlice r a b = .error .reversed := by
  simp [byteSlice, h]

theorem byteSlice_endOOB (r : Rope) (hi : r.Inv) (a b : Nat) (h1 : a ≤ b) (h2 : b > r.render.length) : byteSlice r a b = .error .endOOB := by
  have := len_eq_render r hi
  unfold byteSlice
  simp only [show ¬ a > b from by omega, if_false, show b > r.len from by omega, if_true]

end Rope
end Rs

namespace Rs
namespace Rope

/-- the `get_unchecked` calls of `get_byte_slice_impl` are reached with in-range indices -/
theorem sliceUnsafeOK_spec (r : Rope) (h : r.WF) (a b : Nat) (hab : a ≤ b) (hb : b ≤ r.render.length) : sliceUnsafeOK r a b = true := by
  cases r with
  | light s => rfl
  | full ps =>
    obtain ⟨hoff, _⟩ := h
    rw [render_full, flat_length] at hb
    unfold sliceUnsafeOK
    by_cases hemp : ps = []
    · subst hemp; rfl
    · have hie : ps.isEmpty = false := by cases ps <;> simp_all
      obtain ⟨s1, _, _, e1, _, _⟩ := slice_indices ps hoff hemp a b hab hb
      simp only [hie, Bool.false_eq_true, if_false]
      split
      · simpa using s1
      · split
        · rfl
        · simpa using e1

/-! ## constructors keep ropes well formed -/
theorem piecesOK_of_map (a b : List (Text × Nat)) (h : a.map (·.1) = b.map (·.1)) (hb : PiecesOK b) : PiecesOK a := by
  intro p hp
  have : p.1 ∈ b.map (·.1) := by rw [← h]; exact List.mem_map_of_mem hp
  obtain ⟨q, hq, e⟩ := List.mem_map.1 this
  rw [← e]; exact hb q hq

theorem piecesOK_append (a b : List (Text × Nat)) (ha : PiecesOK a) (hb : PiecesOK b) : PiecesOK (a ++ b) := by
  intro p hp
  rcases List.mem_append.1 hp with h | h
  · exact ha p h
  · exact hb p h

theorem wf_new : Rope.new.WF := by simp [new, WF, pieceOK]

theorem wf_add (r : Rope) (v : Text) (h : r.WF) (hv : pieceOK v = true) : (r.add v).WF := by
  have hi := inv_add r v h.inv
  unfold add at hi ⊢
  split
  · exact h
  · rename_i hne
    simp only [hne, if_false] at hi
    cases r with
    | light s =>
      simp only [WF] at h
      refine ⟨hi, ?_⟩
      intro p hp
      simp only [List.mem_cons, List.not_mem_nil, or_false] at hp
      rcases hp with rfl | rfl <;> assumption
    | full ps =>
      refine ⟨hi, piecesOK_append _ _ h.2 ?_⟩
      intro p hp
      simp only [List.mem_cons, List.not_mem_nil, or_false] at hp
      subst hp; exact hv

theorem wf_append (a b : Rope) (ha : a.WF) (hb : b.WF) : (a.append b).WF := by
  have hi := inv_append a b ha.inv hb.inv
  cases a with
  | light s =>
    cases b with
    | light o =>
      simp only [append] at hi ⊢
      split
      · exact ha
      · rename_i hne
        simp only [hne, if_false] at hi
        refine ⟨hi, ?_⟩
        intro p hp
        simp only [List.mem_cons, List.not_mem_nil, or_false] at hp
        rcases hp with rfl | rfl
        · exact ha
        · exact hb
    | full os =>
      simp only [append] at hi ⊢
      split
      · exact hb
      · rename_i hne
        simp only [hne, if_false] at hi
        refine ⟨hi, ?_⟩
        obtain ⟨os', h1, h2, _⟩ := pushAll_spec [(s, 0)] s.length os
        rw [h1]
        refine piecesOK_append _ _ ?_ (piecesOK_of_map _ _ h2 hb.2)
        intro p hp
        simp only [List.mem_cons, List.not_mem_nil, or_false] at hp
        subst hp; exact ha
  | full ps =>
    cases b with
    | light o =>
      simp only [append] at hi ⊢
      split
      · exact ha
      · rename_i hne
        simp only [hne, if_false] at hi
        refine ⟨hi, piecesOK_append _ _ ha.2 ?_⟩
        intro p hp
        simp only [List.mem_cons, List.not_mem_nil, or_false] at hp
        subst hp; exact hb
    | full os =>
      simp only [append] at hi ⊢
      split
      · exact ha
      · rename_i hne
        simp only [hne, if_false] at hi
        refine ⟨hi, ?_⟩
        obtain ⟨os', h1, h2, _⟩ := pushAll_spec ps (endOf ps) os
        rw [h1]
        exact piecesOK_append _ _ ha.2 (piecesOK_of_map _ _ h2 hb.2)

theorem fromIterGo_pieces (l : Nat) (cs : List Text) (h : ∀ c ∈ cs, pieceOK c = true) : PiecesOK (fromIterGo l cs) := by
  induction cs generalizing l with
  | nil => intro p hp; simp [fromIterGo] at hp
  | cons c cs ih =>
    simp only [fromIterGo]
    split
    · exact ih l (fun x hx => h x (by simp [hx]))
    · intro p hp
      simp only [List.mem_cons] at hp
      rcases hp with rfl | hp
      · exact h c (by simp)
      · exact ih _ (fun x hx => h x (by simp [hx])) p hp

theorem wf_fromIter (cs : List Text) (h : ∀ c ∈ cs, pieceOK c = true) : (fromIter cs).WF :=
  ⟨inv_fromIter cs, fromIterGo_pieces 0 cs h⟩

end Rope
end Rs
