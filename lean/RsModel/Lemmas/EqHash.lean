import RsModel.Model.EqHash
/-! # equality ⇒ equal hasher calls and equal views; injectivity of the feed encodings -/
namespace Rs

mutual
theorem Src.eqv_calls (fxh : List HCall → Nat) : (a b : Src) → a.eqv b = true → a.calls fxh = b.calls fxh
  | .raw b1 x1 l1, .raw b2 x2 l2, h => by simp [Src.eqv] at h; simp [Src.calls, h.2]
  | .rawStr t1, .rawStr t2, h => by simp [Src.eqv] at h; simp [Src.calls, h]
  | .rawBuf x1 _, .rawBuf x2 _, h => by simp [Src.eqv] at h; simp [Src.calls, h]
  | .orig t1 n1, .orig t2 n2, h => by simp [Src.eqv] at h; simp [Src.calls, h.1, h.2]
  | .sms t1 n1 m1 o1 i1 r1, .sms t2 n2 m2 o2 i2 r2, h => by
    simp [Src.eqv] at h
    obtain ⟨⟨⟨⟨⟨h1, _⟩, h3⟩, h4⟩, h5⟩, h6⟩ := h
    simp [Src.calls, h1, h3, h4, h5, h6]
  | .concat c1, .concat c2, h => by simp [Src.eqv] at h; simp [Src.calls, SrcList.eqvL_calls fxh c1 c2 h]
  | .replace i1 r1, .replace i2 r2, h => by
    simp [Src.eqv] at h; simp [Src.calls, h.2, Src.eqv_calls fxh i1 i2 h.1]
  | .cached _ i1, .cached _ i2, h => by simp [Src.eqv] at h; simp [Src.calls, Src.eqv_calls fxh i1 i2 h]
  | .raw .., .rawStr .., h | .raw .., .rawBuf .., h | .raw .., .orig .., h | .raw .., .sms .., h | .raw .., .concat .., h
  | .raw .., .replace .., h | .raw .., .cached .., h => by simp [Src.eqv] at h
  | .rawStr .., .raw .., h | .rawStr .., .rawBuf .., h | .rawStr .., .orig .., h | .rawStr .., .sms .., h | .rawStr .., .concat .., h
  | .rawStr .., .replace .., h | .rawStr .., .cached .., h => by simp [Src.eqv] at h
  | .rawBuf .., .raw .., h | .rawBuf .., .rawStr .., h | .rawBuf .., .orig .., h | .rawBuf .., .sms .., h | .rawBuf .., .concat .., h
  | .rawBuf .., .replace .., h | .rawBuf .., .cached .., h => by simp [Src.eqv] at h
  | .orig .., .raw .., h | .orig .., .rawStr .., h | .orig .., .rawBuf .., h | .orig .., .sms .., h | .orig .., .concat .., h
  | .orig .., .replace .., h | .orig .., .cached .., h => by simp [Src.eqv] at h
  | .sms .., .raw .., h | .sms .., .rawStr .., h | .sms .., .rawBuf .., h | .sms .., .orig .., h | .sms .., .concat .., h
  | .sms .., .replace .., h | .sms .., .cached .., h => by simp [Src.eqv] at h
  | .concat .., .raw .., h | .concat .., .rawStr .., h | .concat .., .rawBuf .., h | .concat .., .orig .., h | .concat .., .sms .., h
  | .concat .., .replace .., h | .concat .., .cached .., h => by simp [Src.eqv] at h
  | .replace .., .raw .., h | .replace .., .rawStr .., h | .replace .., .rawBuf .., h | .replace .., .orig .., h | .replace .., .sms .., h
  | .replace .., .concat .., h | .replace .., .cached .., h => by simp [Src.eqv] at h
  | .cached .., .raw .., h | .cached .., .rawStr .., h | .cached .., .rawBuf .., h | .cached .., .orig .., h | .cached .., .sms .., h
  | .cached .., .concat .., h | .cached .., .replace .., h => by simp [Src.eqv] at h
theorem SrcList.eqvL_calls (fxh : List HCall → Nat) : (a b : SrcList) → a.eqvL b = true → a.callsL fxh = b.callsL fxh
  | .nil, .nil, _ => rfl
  | .cons a r, .cons b s, h => by
    simp [SrcList.eqvL] at h
    simp [SrcList.callsL, Src.eqv_calls fxh a b h.1, SrcList.eqvL_calls fxh r s h.2]
  | .nil, .cons .., h | .cons .., .nil, h => by simp [SrcList.eqvL] at h
end

mutual
theorem Src.eqv_refl : (a : Src) → a.eqv a = true
  | .raw .. | .rawStr .. | .rawBuf .. | .orig .. | .sms .. => by simp [Src.eqv]
  | .concat c => by simp [Src.eqv, SrcList.eqvL_refl c]
  | .replace i _ => by simp [Src.eqv, Src.eqv_refl i]
  | .cached _ i => by simp [Src.eqv, Src.eqv_refl i]
theorem SrcList.eqvL_refl : (a : SrcList) → a.eqvL a = true
  | .nil => rfl
  | .cons a r => by simp [SrcList.eqvL, Src.eqv_refl a, SrcList.eqvL_refl r]
end

/-! ## self-delimiting encodings -/

theorem hStr_inj (a b : Text) (x y : List HCall) (h : hStr a ++ x = hStr b ++ y) : a = b ∧ x = y := by
  simp [hStr] at h; exact h

theorem hBytes_inj (a b : Text) (x y : List HCall) (h : hBytes a ++ x = hBytes b ++ y) : a = b ∧ x = y := by
  simp [hBytes] at h; exact ⟨h.2.1, h.2.2⟩

theorem hOpt_hStr_inj (a b : Option Text) (x y : List HCall) (h : hOpt hStr a ++ x = hOpt hStr b ++ y) : a = b ∧ x = y := by
  cases a <;> cases b <;> simp [hOpt, hStr] at h ⊢ <;> exact h

end Rs
