import RsModel.Model.Stream
/-! # `WithIndices`: the char-start table is increasing and bounded (used by C19 and by the text lemmas) -/
namespace Rs

/-- the char-start table of `WithIndices` is increasing and bounded by the line length, so the byte range
handed to `byte_slice_unchecked` is ordered and in range -/
theorem charStartsFrom_bounds : ∀ (t : Text) (i : Nat), ∀ x ∈ charStartsFrom i t, i ≤ x ∧ x < i + t.length := by
  intro t
  induction t with
  | nil => intro i x hx; simp [charStartsFrom] at hx
  | cons b bs ih =>
    intro i x hx
    simp only [charStartsFrom] at hx
    split at hx
    · have := ih (i + 1) x hx; simp; omega
    · simp only [List.mem_cons] at hx
      rcases hx with rfl | hx
      · simp
      · have := ih (i + 1) x hx; simp; omega

theorem charStartsFrom_sorted : ∀ (t : Text) (i : Nat), (charStartsFrom i t).Pairwise (· < ·) := by
  intro t
  induction t with
  | nil => intro i; simp [charStartsFrom]
  | cons b bs ih =>
    intro i
    simp only [charStartsFrom]
    split
    · exact ih (i + 1)
    · rw [List.pairwise_cons]
      refine ⟨?_, ih (i + 1)⟩
      intro x hx
      have := (charStartsFrom_bounds bs (i + 1) x hx).1
      omega

/-- `WithIndices::substring(a, b)` with `a < b`: `start ≤ end ≤ len` -/
theorem substring_range (line : Text) (a b : Nat) (h : a < b) :
    (charStarts line).getD a line.length ≤ (charStarts line).getD b line.length
    ∧ (charStarts line).getD b line.length ≤ line.length := by
  unfold charStarts
  have hb := charStartsFrom_bounds line 0
  have hs := charStartsFrom_sorted line 0
  constructor
  · by_cases hbl : b < (charStartsFrom 0 line).length
    · have hal : a < (charStartsFrom 0 line).length := by omega
      simp only [List.getD_eq_getElem?_getD, List.getElem?_eq_getElem hal, List.getElem?_eq_getElem hbl, Option.getD_some]
      exact Nat.le_of_lt (List.pairwise_iff_getElem.mp hs a b hal hbl h)
    · have hbn : (charStartsFrom 0 line)[b]? = none := by simp; omega
      simp only [List.getD_eq_getElem?_getD, hbn, Option.getD_none]
      by_cases hal : a < (charStartsFrom 0 line).length
      · simp only [List.getElem?_eq_getElem hal, Option.getD_some]
        have := (hb _ (List.getElem_mem hal)).2; omega
      · have : (charStartsFrom 0 line)[a]? = none := by simp; omega
        simp [this]
  · by_cases hbl : b < (charStartsFrom 0 line).length
    · simp only [List.getD_eq_getElem?_getD, List.getElem?_eq_getElem hbl, Option.getD_some]
      have := (hb _ (List.getElem_mem hbl)).2; omega
    · have hbn : (charStartsFrom 0 line)[b]? = none := by simp; omega
      simp [List.getD_eq_getElem?_getD, hbn]

end Rs
