import RsModel.Lemmas.ProvTree3
import RsModel.Lemmas.ModeCold
/-!
# C03 at name level: file *names* and *names*, not indices

The indices of the map returned by `get_map` resolve, through the map's own `sources` / `names` tables, to the same file name and
name that the chunk of the normal stream resolves to through the announcements of that stream.
-/
namespace Rs

/-- file name, original line, original column, name -/
structure NLoc where
  file : Option Text
  line : Nat
  col : Nat
  name : Option (Option Text)
deriving DecidableEq

def RLoc.toN (r : RLoc) : NLoc := ⟨r.file.map (·.1), r.line, r.col, r.name⟩

/-- what a consumer of the SourceMap resolves an original location to (names only) -/
def resolveMF (sm : SMap) (o : Orig) : NLoc := ⟨sm.sources[o.src]?, o.line, o.col, o.name.map fun k => sm.names[k]?⟩

def TblRelF (a : MapAcc) (S : SrcTbl) (N : NameTbl) (ns nn : Nat) : Prop :=
  a.sources.length = ns ∧ a.names.length = nn
  ∧ (∀ i, i < ns → (S i).map (·.1) = a.sources[i]?)
  ∧ (∀ i, i < nn → N i = a.names[i]?)

theorem mapAcc_tblRelF : ∀ (evs : List Ev) (ns nn : Nat) (a : MapAcc) (S : SrcTbl) (N : NameTbl), DeclOK ns nn evs →
    TblRelF a S N ns nn → TblRelF (evs.foldl mapAccEv a) (tblS S evs) (tblN N evs) (ns + cntS evs) (nn + cntN evs) := by
  intro evs
  induction evs with
  | nil => intro ns nn a S N _ h; simpa [tblS, tblN, cntS, cntN] using h
  | cons e es ih =>
    intro ns nn a S N hd h
    rw [List.foldl_cons]
    obtain ⟨h1, h3, h4, h5⟩ := h
    cases e with
    | chunk t m =>
      have := ih ns nn (mapAccEv a (.chunk t m)) S N hd.2 ⟨h1, h3, h4, h5⟩
      simpa [tblS, tblN, cntS, cntN] using this
    | source k s c =>
      obtain ⟨hk, hr⟩ := hd
      have hrel : TblRelF (mapAccEv a (.source k s c)) (upd S k (s, c)) N (ns + 1) nn := by
        have ek1 : k = a.sources.length := by omega
        have t1 : tblSet a.sources k s = a.sources ++ [s] := by rw [ek1]; exact tblSet_next _ _
        simp only [mapAccEv, t1]
        refine ⟨by rw [List.length_append]; simp [h1], h3, ?_, h5⟩
        intro i hi
        simp only [upd]
        by_cases hik : i = k
        · have e1 : (a.sources ++ [s])[i]? = some s := by
            rw [show i = a.sources.length by omega]; exact List.getElem?_concat_length
          rw [if_pos hik, e1]; rfl
        · have hlt : i < ns := by omega
          rw [if_neg hik, h4 i hlt, List.getElem?_append_left (by omega)]
      have := ih (ns + 1) nn _ _ N hr hrel
      simp only [tblS, tblN, cntS, cntN]
      have e : ns + (cntS es + 1) = ns + 1 + cntS es := by omega
      rw [e]; exact this
    | name k n =>
      obtain ⟨hk, hr⟩ := hd
      have hrel : TblRelF (mapAccEv a (.name k n)) S (upd N k n) ns (nn + 1) := by
        have ek : k = a.names.length := by omega
        have t1 : tblSet a.names k n = a.names ++ [n] := by rw [ek]; exact tblSet_next _ _
        simp only [mapAccEv, t1]
        refine ⟨h1, by rw [List.length_append]; simp [h3], h4, ?_⟩
        intro i hi
        simp only [upd]
        by_cases hik : i = k
        · have e1 : (a.names ++ [n])[i]? = some n := by
            rw [show i = a.names.length by omega]; exact List.getElem?_concat_length
          rw [if_pos hik, e1]
        · have hlt : i < nn := by omega
          rw [if_neg hik, h5 i hlt, List.getElem?_append_left (by omega)]
      have := ih ns (nn + 1) _ S _ hr hrel
      simp only [tblS, tblN, cntS, cntN]
      have e : nn + (cntN es + 1) = nn + 1 + cntN es := by omega
      rw [e]; exact this

/-- **C03, name level** (columns = true; trees with CachedSource nodes on cold caches included): resolving every position of
`source()` through the returned SourceMap and its `sources` / `names` tables gives the same file name, original line, original
column and name as the chunk covering that position in the normal stream resolves to through that stream's announcements -/
theorem getMap_names (s : Src) (h : s.ModeHypC) (hn : s.ids.Nodup) (σF σN : Store) (hcF : Cold σF s.ids) (hcN : Cold σN s.ids) (final : Bool)
    (hsmall : ∀ m ∈ chunkMs (s.stream ⟨true, true⟩ σF).1.evs, m.small) (sm : SMap) (hm : (getMap s ⟨true, final⟩ σF).1 = some sm) :
    (attrFrom (decode sm.mappings) startPos s.src).map (Option.map (resolveMF sm))
      = (attrN emptyS emptyN (s.stream ⟨true, false⟩ σN).1.evs).map (Option.map RLoc.toN) := by
  obtain ⟨b1, b2, b3, b4, b5, b6, b7⟩ := Src.base_factsC s h hn σF σN hcF hcN
  have hm3 := Src.m3c s h hn σF σN hcF hcN
  rw [(getMap_attrC s h hn σF σN hcF hcN final hsmall).1 sm hm]
  have hrel := mapAcc_tblRelF (s.stream ⟨true, false⟩ σN).1.evs 0 0 {} emptyS emptyN b5 ⟨rfl, rfl, fun i hi => by omega, fun i hi => by omega⟩
  obtain ⟨d1, _, d3⟩ := mapAcc_decls (s.stream ⟨true, true⟩ σF).1.evs {}
  obtain ⟨e1, _, e3⟩ := mapAcc_decls (s.stream ⟨true, false⟩ σN).1.evs {}
  have hsm : sm.sources = ((s.stream ⟨true, false⟩ σN).1.evs.foldl mapAccEv {}).sources
      ∧ sm.names = ((s.stream ⟨true, false⟩ σN).1.evs.foldl mapAccEv {}).names := by
    simp only [getMap, mapOfEvs] at hm
    split at hm
    · cases hm
    · simp only [Option.some.injEq] at hm
      rw [← hm]
      simp only
      rw [d1, d3, e1, e3, hm3.decls]
      exact ⟨rfl, rfl⟩
  obtain ⟨r1, r3, r4, r5⟩ := hrel
  rw [attrN_end_tables _ 0 0 emptyS emptyN b5, List.map_map]
  apply List.map_congr_left
  intro a ha
  obtain ⟨m, hmm, rfl⟩ := attrOf_mem _ a ha
  cases ho : m.orig with
  | none => rfl
  | some o =>
    have hidx := declOK_chunkMs _ 0 0 b5 m hmm o ho
    simp only [Function.comp, Option.map_some, resolveMF, resolveO, RLoc.toN, Option.some.injEq, NLoc.mk.injEq, true_and]
    simp only [Nat.zero_add] at hidx r4 r5
    refine ⟨?_, ?_⟩
    · rw [r4 o.src hidx.1, hsm.1]
    · cases hn' : o.name with
      | none => rfl
      | some k => simp only [Option.map_some]; rw [r5 k (hidx.2 k hn'), hsm.2]

end Rs
