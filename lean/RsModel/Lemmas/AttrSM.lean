import RsModel.Lemmas.PosSM
import RsModel.Lemmas.ChunksTok
import RsModel.Spec.Attr
/-!
# C08 — the map-driven splitter attributes every byte as a lookup in the map does (columns = true)

`attrOf evs`: the original location each delivered byte carries (the `orig` of the chunk that covers it).
`attrFrom ms p t`: what looking each position of `t` (starting at `p`) up in the segment list `ms` gives.
-/
namespace Rs

def attrOf : List Ev → List (Option Orig)
  | [] => []
  | .chunk (some t) m :: es => List.replicate t.length m.orig ++ attrOf es
  | _ :: es => attrOf es

def attrFrom (ms : List Mapping) : Pos → Text → List (Option Orig)
  | _, [] => []
  | p, c :: cs => lookupCols ms p.line p.col :: attrFrom ms (adv p [c]) cs

theorem attrOf_append (a b : List Ev) : attrOf (a ++ b) = attrOf a ++ attrOf b := by
  induction a with
  | nil => rfl
  | cons e es ih =>
    cases e with
    | chunk t m => cases t <;> simp [attrOf, ih]
    | source i s c => simp [attrOf, ih]
    | name i n => simp [attrOf, ih]

theorem attrFrom_append (ms : List Mapping) : ∀ (a b : Text) (p : Pos), attrFrom ms p (a ++ b) = attrFrom ms p a ++ attrFrom ms (adv p a) b := by
  intro a
  induction a with
  | nil => intro b p; rfl
  | cons c cs ih =>
    intro b p
    simp only [List.cons_append, attrFrom, ih]
    have : adv p (c :: cs) = adv (adv p [c]) cs := by
      rw [show c :: cs = [c] ++ cs from rfl, adv_append]
    rw [this]

theorem attrOf_noChunk : ∀ (evs : List Ev), (∀ e ∈ evs, e.isChunk = false) → attrOf evs = [] := by
  intro evs
  induction evs with
  | nil => intro _; rfl
  | cons e es ih =>
    intro h
    have he := h e (by simp)
    cases e with
    | chunk t m => simp [Ev.isChunk] at he
    | source i s c => exact ih (fun x hx => h x (by simp [hx]))
    | name i n => exact ih (fun x hx => h x (by simp [hx]))

/-- a stretch of text without line break (except possibly as its last byte) whose positions all look up to `o` -/
theorem attrFrom_region (ms : List Mapping) (o : Option Orig) : ∀ (t : Text) (l c0 : Nat), LineLike t →
    (∀ c, c0 ≤ c → c < c0 + t.length → lookupCols ms l c = o) → attrFrom ms ⟨l, c0⟩ t = List.replicate t.length o := by
  intro t
  induction t with
  | nil => intro l c0 _ _; rfl
  | cons b bs ih =>
    intro l c0 hl h
    simp only [attrFrom, List.length_cons, List.replicate_succ]
    rw [h c0 (Nat.le_refl _) (by simp)]
    congr 1
    cases bs with
    | nil => rfl
    | cons b2 bs2 =>
      have hb : b ≠ NL := by
        have := hl 0 (by simp)
        simpa using this
      have hadv : adv ⟨l, c0⟩ [b] = ⟨l, c0 + 1⟩ := by simp [adv, hb]
      rw [hadv]
      apply ih l (c0 + 1)
      · intro i hi
        have := hl (i + 1) (by simp at hi ⊢; omega)
        simpa using this
      · intro c h1 h2
        exact h c (by omega) (by simp at h2 ⊢; omega)

/-! ## lookups in sorted lists -/

theorem lookupGo_append (l c : Nat) (acc : Option (Option Orig)) (a b : List Mapping) :
    lookupGo l c acc (a ++ b) = lookupGo l c (lookupGo l c acc a) b := by
  induction a generalizing acc with
  | nil => rfl
  | cons m ms ih => simp only [List.cons_append, lookupGo, ih]

/-- segments that do not qualify leave the answer alone -/
theorem lookupGo_skip (l c : Nat) : ∀ (ms : List Mapping) (acc : Option (Option Orig)), (∀ m ∈ ms, ¬ (m.gl = l ∧ m.gc ≤ c)) → lookupGo l c acc ms = acc := by
  intro ms
  induction ms with
  | nil => intro acc _; rfl
  | cons m ms ih =>
    intro acc h
    simp only [lookupGo, h m (by simp), if_false]
    exact ih acc (fun x hx => h x (by simp [hx]))

/-- all segments of the line that are in the list start at or before `c0`: the answer is the same for every column from `c0` on -/
theorem lookupGo_const (l c0 c : Nat) (hc : c0 ≤ c) : ∀ (ms : List Mapping) (acc : Option (Option Orig)), (∀ m ∈ ms, m.gl = l → m.gc ≤ c0) →
    lookupGo l c acc ms = lookupGo l c0 acc ms := by
  intro ms
  induction ms with
  | nil => intro acc _; rfl
  | cons m ms ih =>
    intro acc h
    simp only [lookupGo]
    have : (m.gl = l ∧ m.gc ≤ c) ↔ (m.gl = l ∧ m.gc ≤ c0) := by
      constructor
      · rintro ⟨h1, _⟩; exact ⟨h1, h m (by simp) h1⟩
      · rintro ⟨h1, h2⟩; exact ⟨h1, by omega⟩
    simp only [this]
    exact ih _ (fun x hx => h x (by simp [hx]))

end Rs

namespace Rs

theorem lineLike_of_tok (t : Text) (h : TokOK t) : LineLike t := by
  obtain ⟨s, hs, hc⟩ := h
  intro i hi
  rcases hc with rfl | rfl
  · have hlt : i < t.length := by omega
    rw [List.getD_eq_getElem?_getD, List.getElem?_eq_getElem hlt]
    exact hs _ (List.getElem_mem hlt)
  · have hlt : i < s.length := by simp at hi; omega
    rw [List.getD_eq_getElem?_getD, List.getElem?_append_left hlt, List.getElem?_eq_getElem hlt]
    exact hs _ (List.getElem_mem hlt)

/-- one chunk, at a real position, whose columns all look up to its `orig` -/
theorem attr_chunk (all : List Mapping) (pre t : Text) (m : Mapping) (hp : adv startPos pre = ⟨m.gl, m.gc⟩) (hT : TokOK t)
    (hreg : ∀ c, m.gc ≤ c → c < m.gc + t.length → lookupCols all m.gl c = m.orig) :
    attrOf [Ev.chunk (some t) m] = attrFrom all (adv startPos pre) t := by
  rw [hp, attrFrom_region all m.orig t m.gl m.gc (lineLike_of_tok t hT) hreg]
  simp [attrOf]

theorem csub_length_ascii (ln : Text) (h : IsAscii ln) (a b : Nat) : (csub ln a b).length ≤ b - a := by
  by_cases hab : a ≤ b
  · rw [csub_eq ln a b hab]
    simp only [List.length_drop, List.length_take]
    by_cases hb : b ≤ ln.length
    · rw [cpos_ascii ln h b hb, cpos_ascii ln h a (by omega)]; omega
    · rw [cpos_big ln b (by omega)]
      by_cases ha : a ≤ ln.length
      · rw [cpos_ascii ln h a ha]; omega
      · rw [cpos_big ln a (by omega)]; omega
  · unfold csub; simp [show b ≤ a by omega]

/-- where the processed prefix `P` of the map stands relative to the walker -/
structure WInv (P : List Mapping) (s : FullSt) : Prop where
  reached : ∀ p ∈ P, p.gl < s.line ∨ (p.gl = s.line ∧ p.gc ≤ s.col)
  cur : (lookupGo s.line s.col none P).join = (if s.active then s.orig else none)

/-- looking a position at or after the walker up in the processed prefix -/
theorem lk_prefix (P : List Mapping) (s : FullSt) (h : WInv P s) (l c : Nat) (hpos : s.line < l ∨ (s.line = l ∧ s.col ≤ c)) :
    (lookupGo l c none P).join = if l = s.line then (if s.active then s.orig else none) else none := by
  rcases hpos with hlt | ⟨rfl, hc⟩
  · have : ¬ l = s.line := by omega
    simp only [this, if_false]
    rw [lookupGo_skip l c P none (fun p hp ⟨h1, _⟩ => by rcases h.reached p hp with h2 | ⟨h2, _⟩ <;> omega)]
    rfl
  · simp only [if_true]
    rw [lookupGo_const s.line s.col c hc P none (fun p hp h1 => by rcases h.reached p hp with h2 | ⟨_, h2⟩; omega; exact h2)]
    exact h.cur

/-- the rest of the (sorted) map does not matter for positions strictly before its first segment `m` -/
theorem lk_all (P R : List Mapping) (m : Mapping) (hR : ∀ x ∈ R, m.gl < x.gl ∨ (m.gl = x.gl ∧ m.gc ≤ x.gc)) (l c : Nat)
    (hbefore : l < m.gl ∨ (l = m.gl ∧ c < m.gc)) : lookupCols (P ++ m :: R) l c = (lookupGo l c none P).join := by
  unfold lookupCols
  rw [lookupGo_append, lookupGo_skip l c (m :: R) _ ?_]
  intro x hx ⟨h1, h2⟩
  simp only [List.mem_cons] at hx
  rcases hx with rfl | hx
  · omega
  · rcases hR x hx with h3 | ⟨h3, h4⟩ <;> omega

end Rs

namespace Rs

theorem tok_lineAt (lines : List Text) (E : Env lines) (k : Nat) : TokOK (lines.getD k []) :=
  tokOK_getD lines (tokOK_of_lines lines E.ls) k

theorem tok_csub' (t : Text) (h : TokOK t) (a b : Nat) : TokOK (csub t a b) := tokOK_csub t h a b

theorem ascii_lineAt (lines : List Text) (E : Env lines) (k : Nat) : IsAscii (lines.getD k []) := by
  rw [List.getD_eq_getElem?_getD]
  cases hx : lines[k]? with
  | none => intro b hb; simp at hb
  | some ln => exact E.ascii ln (List.mem_of_getElem? hx)

theorem attr_optChunk (all : List Mapping) (pre ch : Text) (m : Mapping) (hp : adv startPos pre = ⟨m.gl, m.gc⟩) (hT : TokOK ch)
    (hreg : ∀ c, m.gc ≤ c → c < m.gc + ch.length → lookupCols all m.gl c = m.orig) :
    attrOf (if ch.isEmpty then [] else [Ev.chunk (some ch) m]) = attrFrom all (adv startPos pre) (evsText (if ch.isEmpty then [] else [Ev.chunk (some ch) m])) := by
  split
  · rfl
  · rw [evsText_singleton]; exact attr_chunk all pre ch m hp hT hreg

theorem smStep1_attr (lines : List Text) (E : Env lines) (all : List Mapping) (s : FullSt) (m : Mapping) (h1 : 1 ≤ s.line) (hc : ColOK lines s)
    (hreg : s.active = true → s.line ≤ lines.length → ∀ c, s.col ≤ c → (m.gl = s.line → c < m.gc) → lookupCols all s.line c = s.orig) :
    attrOf (smStep1 lines s m).2 = attrFrom all (adv startPos (emitted lines s.line s.col)) (evsText (smStep1 lines s m).2) := by
  unfold smStep1
  by_cases hcnd : (s.active && decide (s.line ≤ lines.length)) = true
  · simp only [hcnd, if_true]
    have hact : s.active = true := by simp at hcnd; exact hcnd.1
    have hn : s.line ≤ lines.length := by simp at hcnd; exact hcnd.2
    have hv := valid_pos lines E.ls E.ascii s.line s.col h1 hn (hc hn)
    have hT := tok_lineAt lines E (s.line - 1)
    by_cases hne : (m.gl != s.line) = true
    · simp only [hne, if_true]
      have hml : ¬ m.gl = s.line := by simpa using hne
      exact attr_optChunk all _ _ ⟨s.line, s.col, s.orig⟩ hv (tok_csub' _ hT _ _)
        (fun c h1 _ => hreg hact hn c (by simpa using h1) (fun e => absurd e hml))
    · simp only [hne, Bool.false_eq_true, if_false]
      have hl := csub_length_ascii _ (ascii_lineAt lines E (s.line - 1)) s.col m.gc
      exact attr_optChunk all _ _ ⟨s.line, s.col, s.orig⟩ hv (tok_csub' _ hT _ _)
        (fun c h1 h2 => hreg hact hn c (by simpa using h1) (fun _ => by simp only at h1 h2; omega))
  · simp only [hcnd, Bool.false_eq_true, if_false]; rfl

theorem smStep2_attr (lines : List Text) (E : Env lines) (all : List Mapping) (s : FullSt) (m : Mapping) (h1 : 1 ≤ s.line) (hc : ColOK lines s)
    (hreg : s.line ≤ lines.length → m.gl > s.line → ∀ c, s.col ≤ c → lookupCols all s.line c = none) :
    attrOf (smStep2 lines s m).2 = attrFrom all (adv startPos (emitted lines s.line s.col)) (evsText (smStep2 lines s m).2) := by
  unfold smStep2
  by_cases hcnd : (decide (m.gl > s.line) && decide (s.col > 0)) = true
  · simp only [hcnd, if_true]
    have hgt : m.gl > s.line := by simp at hcnd; exact hcnd.1
    by_cases hn : s.line ≤ lines.length
    · simp only [hn, if_true, evsText_singleton]
      exact attr_chunk all _ _ ⟨s.line, s.col, none⟩ (valid_pos lines E.ls E.ascii s.line s.col h1 hn (hc hn))
        (tok_csub' _ (tok_lineAt lines E (s.line - 1)) _ _) (fun c h1 _ => hreg hn hgt c (by simpa using h1))
    · simp only [hn, if_false]; rfl
  · simp only [hcnd, Bool.false_eq_true, if_false]; rfl

theorem smStep4_attr (lines : List Text) (E : Env lines) (all : List Mapping) (s : FullSt) (m : Mapping) (h1 : 1 ≤ s.line) (hc : ColOK lines s)
    (hreg : s.line ≤ lines.length → ∀ c, s.col ≤ c → c < m.gc → lookupCols all s.line c = none) :
    attrOf (smStep4 lines s m).2 = attrFrom all (adv startPos (emitted lines s.line s.col)) (evsText (smStep4 lines s m).2) := by
  unfold smStep4
  by_cases hcnd : m.gc > s.col
  · simp only [hcnd, if_true]
    by_cases hn : s.line ≤ lines.length
    · simp only [hn, if_true, evsText_singleton]
      have hl := csub_length_ascii _ (ascii_lineAt lines E (s.line - 1)) s.col m.gc
      exact attr_chunk all _ _ ⟨s.line, s.col, none⟩ (valid_pos lines E.ls E.ascii s.line s.col h1 hn (hc hn))
        (tok_csub' _ (tok_lineAt lines E (s.line - 1)) _ _) (fun c h1 h2 => hreg hn c (by simpa using h1) (by simp only at h1 h2; omega))
    · simp only [hn, if_false]; rfl
  · simp only [hcnd, if_false]; rfl

theorem smWholeLines_attr (lines : List Text) (E : Env lines) (all : List Mapping) : ∀ (k a b : Nat), b - a = k → 1 ≤ a → a ≤ b →
    (∀ l', a ≤ l' → l' < b → l' ≤ lines.length → ∀ c, lookupCols all l' c = none) →
    attrOf (smWholeLines lines a b) = attrFrom all (adv startPos (emitted lines a 0)) (evsText (smWholeLines lines a b)) := by
  intro k
  induction k with
  | zero =>
    intro a b hk h1 hab _
    rw [smWholeLines_nil lines a b (by omega)]; rfl
  | succ k ih =>
    intro a b hk h1 hab hreg
    rw [smWholeLines_step lines a b (by omega), attrOf_append, evsText_append, attrFrom_append, ← adv_append]
    by_cases hn : a ≤ lines.length
    · simp only [hn, if_true, evsText_singleton, Ev.text]
      rw [attr_chunk all _ _ ⟨a, 0, none⟩ (valid_pos lines E.ls E.ascii a 0 h1 hn (Nat.zero_le _)) (tok_lineAt lines E (a - 1))
        (fun c _ _ => hreg a (Nat.le_refl _) (by omega) hn c)]
      rw [emitted_whole_line lines E.wf a h1 hn]
      rw [ih (a + 1) b (by omega) (by omega) (by omega) (fun l' h1 h2 h3 c => hreg l' (by omega) h2 h3 c)]
    · simp only [hn, if_false, evsText_nil, List.append_nil]
      have : attrOf ([] : List Ev) = [] := rfl
      have h2 : attrFrom all (adv startPos (emitted lines a 0)) [] = [] := rfl
      rw [this, h2, List.nil_append, emitted_beyond lines a 0 (by omega), ← emitted_beyond lines (a + 1) 0 (by omega)]
      exact ih (a + 1) b (by omega) (by omega) (by omega) (fun l' h1 h2 h3 c => hreg l' (by omega) h2 h3 c)

end Rs

namespace Rs

theorem smStep1_cases (lines : List Text) (s : FullSt) (m : Mapping) :
    ((s.active = true ∧ s.line ≤ lines.length ∧ m.gl ≠ s.line) → (smStep1 lines s m).1 = { s with line := s.line + 1, col := 0, active := false })
    ∧ ((s.active = true ∧ s.line ≤ lines.length ∧ m.gl = s.line) → (smStep1 lines s m).1 = { s with col := m.gc, active := false })
    ∧ (¬ (s.active = true ∧ s.line ≤ lines.length) → (smStep1 lines s m).1 = s) := by
  unfold smStep1
  refine ⟨?_, ?_, ?_⟩
  · rintro ⟨h1, h2, h3⟩; simp [h1, h2, h3]
  · rintro ⟨h1, h2, h3⟩; simp [h1, h2, h3]
  · intro h
    have : (s.active && decide (s.line ≤ lines.length)) = false := by
      cases ha : s.active <;> simp_all
    simp [this]

theorem smStep2_cases (lines : List Text) (s : FullSt) (m : Mapping) :
    ((m.gl > s.line ∧ s.col > 0) → (smStep2 lines s m).1 = { s with line := s.line + 1, col := 0 })
    ∧ (¬ (m.gl > s.line ∧ s.col > 0) → (smStep2 lines s m).1 = s) := by
  unfold smStep2
  refine ⟨?_, ?_⟩
  · rintro ⟨h1, h2⟩; simp [h1, h2]
  · intro h
    have : (decide (m.gl > s.line) && decide (s.col > 0)) = false := by
      by_cases h1 : m.gl > s.line <;> by_cases h2 : s.col > 0 <;> simp_all
    simp [this]

theorem smStep2_active (lines : List Text) (s : FullSt) (m : Mapping) : (smStep2 lines s m).1.active = s.active := by
  unfold smStep2; split <;> rfl

theorem smStep4_active (lines : List Text) (s : FullSt) (m : Mapping) : (smStep4 lines s m).1.active = s.active := by
  unfold smStep4; split <;> rfl

/-- **one `on_mapping` call**: every byte emitted is attributed as the lookup in the whole map says, and the walker invariant moves
on to the processed prefix extended by `m` -/
theorem smFullStep_attr (lines : List Text) (E : Env lines) (fl fc : Nat) (P R : List Mapping) (m : Mapping) (s : FullSt)
    (h1 : 1 ≤ s.line) (hc : ColOK lines s) (hi : Inside lines m) (hw : WInv P s) (hb : notBehind s m)
    (hR : ∀ x ∈ R, m.gl < x.gl ∨ (m.gl = x.gl ∧ m.gc ≤ x.gc))
    (hact : s.active = true → s.line ≤ lines.length)
    (hin : m.orig.isSome = true → (m.gl < fl ∨ (m.gl = fl ∧ m.gc < fc))) (hfl : fl ≤ lines.length + 1) (hfc : fl = lines.length + 1 → fc = 0) :
    attrOf (smFullStep lines fl fc s m).2 = attrFrom (P ++ m :: R) (adv startPos (emitted lines s.line s.col)) (evsText (smFullStep lines fl fc s m).2)
    ∧ WInv (P ++ [m]) (smFullStep lines fl fc s m).1
    ∧ ((smFullStep lines fl fc s m).1.active = true → (smFullStep lines fl fc s m).1.line ≤ lines.length)
    ∧ (smFullStep lines fl fc s m).1.line = m.gl ∧ (smFullStep lines fl fc s m).1.col = m.gc := by
  -- the window between the walker and `m`
  have U : ∀ l c, (s.line < l ∨ (s.line = l ∧ s.col ≤ c)) → (l < m.gl ∨ (l = m.gl ∧ c < m.gc)) →
      lookupCols (P ++ m :: R) l c = if l = s.line then (if s.active then s.orig else none) else none := by
    intro l c hge hlt
    rw [lk_all P R m hR l c hlt, lk_prefix P s hw l c hge]
  obtain ⟨A1, A2, A3⟩ := smStep1_cases lines s m
  have hnb : ¬ ((decide (m.gl < s.line) || (m.gl == s.line && decide (m.gc < s.col))) = true) := by
    simp; rcases hb with hb | hb
    · exact ⟨by omega, fun h => by omega⟩
    · exact ⟨by omega, fun _ => hb.2⟩
  obtain ⟨e1, l1, b1⟩ := smStep1_spec lines E.wf s m h1 hb
  obtain ⟨_, c1⟩ := smStep1_pos lines E s m h1 hc hi
  obtain ⟨e2, l2, b2, c2⟩ := smStep2_spec lines E.wf (smStep1 lines s m).1 m l1 b1
  obtain ⟨_, cc2⟩ := smStep2_pos lines E (smStep1 lines s m).1 m l1 c1
  obtain ⟨D1, D2⟩ := smStep2_cases lines (smStep1 lines s m).1 m
  -- relation of the intermediate states to `s`
  have hr1 : (s.line < (smStep1 lines s m).1.line ∨ (s.line = (smStep1 lines s m).1.line ∧ s.col ≤ (smStep1 lines s m).1.col))
      ∧ ((smStep1 lines s m).1.line = s.line → s.active = true → s.line ≤ lines.length → m.gl = s.line ∧ (smStep1 lines s m).1.col = m.gc) := by
    by_cases ha : s.active = true ∧ s.line ≤ lines.length
    · by_cases hm : m.gl = s.line
      · rw [A2 ⟨ha.1, ha.2, hm⟩]
        refine ⟨Or.inr ⟨rfl, ?_⟩, fun _ _ _ => ⟨hm, rfl⟩⟩
        rcases hb with hb | hb <;> simp only <;> omega
      · rw [A1 ⟨ha.1, ha.2, hm⟩]
        exact ⟨Or.inl (by simp only; omega), fun h => by simp only at h; omega⟩
    · rw [A3 ha]
      exact ⟨Or.inr ⟨rfl, Nat.le_refl _⟩, fun _ h2 h3 => absurd ⟨h2, h3⟩ ha⟩
  have hr2 : ((smStep1 lines s m).1.line < (smStep2 lines (smStep1 lines s m).1 m).1.line
        ∨ ((smStep1 lines s m).1.line = (smStep2 lines (smStep1 lines s m).1 m).1.line ∧ (smStep1 lines s m).1.col = (smStep2 lines (smStep1 lines s m).1 m).1.col)) := by
    by_cases hd : m.gl > (smStep1 lines s m).1.line ∧ (smStep1 lines s m).1.col > 0
    · rw [D1 hd]; exact Or.inl (by simp only; omega)
    · rw [D2 hd]; exact Or.inr ⟨rfl, rfl⟩
  unfold smFullStep
  simp only [hnb, Bool.false_eq_true, if_false]
  generalize hr1e : smStep1 lines s m = r1 at *
  generalize hr2e : smStep2 lines r1.1 m = r2 at *
  have hle : r2.1.line ≤ m.gl := by rcases b2 with b2 | b2 <;> omega
  have hmax : max r2.1.line m.gl = m.gl := by omega
  have e3 : emitted lines r2.1.line r2.1.col ++ evsText (smWholeLines lines r2.1.line m.gl) = emitted lines m.gl r2.1.col := by
    by_cases hlt : r2.1.line < m.gl
    · have h0 := c2 hlt
      rw [h0]
      exact smWholeLines_spec lines E.wf _ r2.1.line m.gl rfl l2 (by omega)
    · have : r2.1.line = m.gl := by omega
      rw [smWholeLines_nil lines _ _ (by omega), evsText_nil, List.append_nil, this]
  have c3 : ColOK lines { r2.1 with line := max r2.1.line m.gl } := by
    intro hn
    simp only [hmax] at hn ⊢
    by_cases hlt : r2.1.line < m.gl
    · rw [c2 hlt]; exact Nat.zero_le _
    · have hq : r2.1.line = m.gl := by omega
      have := cc2 (by omega)
      rwa [hq] at this
  -- the four regions
  have a1 := smStep1_attr lines E (P ++ m :: R) s m h1 hc (fun ha hn c hcol hcm => by
    rw [U s.line c (Or.inr ⟨rfl, hcol⟩) (by rcases hb with hb | hb; exact Or.inl hb; exact Or.inr ⟨hb.1, hcm hb.1.symm⟩)]
    simp [ha])
  rw [hr1e] at a1
  have a2 := smStep2_attr lines E (P ++ m :: R) r1.1 m l1 c1 (fun hn hgt c hcol => by
    have hge : s.line < r1.1.line ∨ (s.line = r1.1.line ∧ s.col ≤ c) := by
      rcases hr1.1 with h | h
      · exact Or.inl h
      · exact Or.inr ⟨h.1, by omega⟩
    rw [U r1.1.line c hge (Or.inl hgt)]
    by_cases hl : r1.1.line = s.line
    · by_cases ha : s.active = true
      · have := hr1.2 hl ha (by omega)
        omega
      · simp [hl, ha]
    · simp [hl])
  rw [hr2e] at a2
  have a3 : attrOf (smWholeLines lines r2.1.line m.gl) = attrFrom (P ++ m :: R) (adv startPos (emitted lines r2.1.line r2.1.col)) (evsText (smWholeLines lines r2.1.line m.gl)) := by
    by_cases hlt : r2.1.line < m.gl
    · rw [c2 hlt]
      apply smWholeLines_attr lines E (P ++ m :: R) _ r2.1.line m.gl rfl l2 (by omega)
      intro l' hl1 hl2 hl3 c
      have hge1 : s.line ≤ r2.1.line := by rcases hr1.1 with h | h <;> rcases hr2 with h' | h' <;> omega
      have hge : s.line < l' ∨ (s.line = l' ∧ s.col ≤ c) := by
        rcases Nat.lt_or_ge s.line l' with h | h
        · exact Or.inl h
        · -- then nothing moved: `r2 = r1 = s` on this line and the column is 0
          have hq : l' = s.line := by omega
          have h0 := c2 hlt
          rcases hr1.1 with h | h
          · omega
          · rcases hr2 with h' | h'
            · omega
            · exact Or.inr ⟨hq.symm, by omega⟩
      rw [U l' c hge (Or.inl hl2)]
      by_cases hl : l' = s.line
      · by_cases ha : s.active = true
        · -- an active walker on a real line has been closed by step 1
          exfalso
          rcases hr1.1 with h | h
          · rcases hr2 with h' | h' <;> omega
          · have := hr1.2 h.1.symm ha (by omega)
            omega
        · simp [hl, ha]
      · simp [hl]
    · rw [smWholeLines_nil lines _ _ (by omega)]; rfl
  have a4 := smStep4_attr lines E (P ++ m :: R) { r2.1 with line := max r2.1.line m.gl } m (by simp only [hmax]; exact hi.1) c3 (fun hn c hcol hcm => by
    simp only [hmax] at hn hcol ⊢
    have hge : s.line < m.gl ∨ (s.line = m.gl ∧ s.col ≤ c) := by
      rcases Nat.lt_or_ge s.line m.gl with h | h
      · exact Or.inl h
      · have hq : m.gl = s.line := by rcases hb with hb | hb <;> omega
        refine Or.inr ⟨hq.symm, ?_⟩
        rcases hr1.1 with h' | h'
        · rcases hr2 with h'' | h'' <;> omega
        · rcases hr2 with h'' | h''
          · omega
          · omega
    rw [U m.gl c hge (Or.inr ⟨rfl, hcm⟩)]
    by_cases hl : m.gl = s.line
    · by_cases ha : s.active = true
      · exfalso
        have hs := hact ha
        rcases hr1.1 with h | h
        · rcases hr2 with h' | h' <;> omega
        · have := hr1.2 h.1.symm ha hs
          rcases hr2 with h' | h'
          · omega
          · omega
      · simp [hl, ha]
    · simp [hl])
  obtain ⟨e4, l4, c4⟩ := smStep4_spec lines { r2.1 with line := max r2.1.line m.gl } m
  obtain ⟨p5l, p5c⟩ := smStep5_pos fl fc (smStep4 lines { r2.1 with line := max r2.1.line m.gl } m).1 m
  dsimp only at e4 l4 c4 p5l p5c a4
  simp only [hmax] at e4 l4 c4 p5l p5c a4 ⊢
  have hs3 : r2.1.col ≤ m.gc := by
    rcases b2 with b2 | b2
    · rw [c2 b2]; exact Nat.zero_le _
    · exact b2.2
  have hcol4 : (smStep4 lines { line := m.gl, col := r2.1.col, active := r2.1.active, orig := r2.1.orig } m).1.col = m.gc := by
    unfold smStep4
    by_cases hg : m.gc > r2.1.col
    · simp [hg]
    · simp only [hg, if_false]; omega
  refine ⟨?_, ?_, ?_, by rw [p5l, l4], by rw [p5c, hcol4]⟩
  · -- assemble the four regions
    simp only [attrOf_append, evsText_append, attrFrom_append, ← adv_append]
    rw [a1, a2, a3, a4]
    simp only [← List.append_assoc, e1, e2, e3]
  · -- the invariant for `P ++ [m]`
    constructor
    · intro p hp
      rw [p5l, p5c, l4]
      rcases List.mem_append.1 hp with hp | hp
      · rcases hw.reached p hp with h | h
        · rcases hb with hb | hb
          · exact Or.inl (by omega)
          · rcases Nat.lt_or_ge p.gl m.gl with h' | h'
            · exact Or.inl h'
            · exact Or.inl (by omega)
        · rcases hb with hb | hb
          · exact Or.inl (by omega)
          · exact Or.inr ⟨by omega, by omega⟩
      · simp only [List.mem_singleton] at hp
        subst hp
        exact Or.inr ⟨rfl, c4⟩
    · -- the walker stands exactly on `m`, and is active iff `m` is mapped
      have hinact : (smStep4 lines { line := m.gl, col := r2.1.col, active := r2.1.active, orig := r2.1.orig } m).1.active = false := by
        rw [smStep4_active]
        simp only
        rw [← hr2e, smStep2_active]
        by_cases ha : s.active = true ∧ s.line ≤ lines.length
        · by_cases hm : m.gl = s.line
          · rw [A2 ⟨ha.1, ha.2, hm⟩]
          · rw [A1 ⟨ha.1, ha.2, hm⟩]
        · rw [A3 ha]
          cases hsa : s.active with
          | false => rfl
          | true => exact absurd ⟨hsa, hact hsa⟩ ha
      rw [p5l, p5c, l4, hcol4, lookupGo_append]
      simp only [lookupGo, and_self, Nat.le_refl, if_true, Option.join]
      unfold smStep5
      cases ho : m.orig with
      | none => simp only [hinact, Bool.false_eq_true, if_false]; rfl
      | some o =>
        have hcond := hin (by rw [ho]; rfl)
        have : (decide (m.gl < fl) || (m.gl == fl && decide (m.gc < fc))) = true := by
          rcases hcond with h | ⟨h1, h2⟩ <;> simp [*]
        simp only [this, if_true]; rfl
  · intro hact'
    rw [p5l, l4]
    unfold smStep5 at hact'
    have hinact : (smStep4 lines { line := m.gl, col := r2.1.col, active := r2.1.active, orig := r2.1.orig } m).1.active = false := by
      rw [smStep4_active]
      simp only
      rw [← hr2e, smStep2_active]
      by_cases ha : s.active = true ∧ s.line ≤ lines.length
      · by_cases hm : m.gl = s.line
        · rw [A2 ⟨ha.1, ha.2, hm⟩]
        · rw [A1 ⟨ha.1, ha.2, hm⟩]
      · rw [A3 ha]
        cases hsa : s.active with
        | false => rfl
        | true => exact absurd ⟨hsa, hact hsa⟩ ha
    cases ho : m.orig with
    | none => rw [ho] at hact'; simp only [hinact] at hact'; cases hact'
    | some o =>
      have hcond := hin (by rw [ho]; rfl)
      rcases hcond with h | ⟨h1, h2⟩
      · omega
      · rcases Nat.lt_or_ge fl (lines.length + 1) with h3 | h3
        · omega
        · have := hfc (by omega); omega

end Rs

namespace Rs

theorem sortedFrom_all : ∀ (ms : List Mapping) (l c : Nat), sortedFrom l c ms → ∀ x ∈ ms, l < x.gl ∨ (l = x.gl ∧ c ≤ x.gc) := by
  intro ms
  induction ms with
  | nil => intro l c _ x hx; simp at hx
  | cons m ms ih =>
    intro l c ⟨h1, h2⟩ x hx
    simp only [List.mem_cons] at hx
    rcases hx with rfl | hx
    · exact h1
    · rcases ih m.gl m.gc h2 x hx with h | h
      · rcases h1 with h1 | h1 <;> exact Or.inl (by omega)
      · rcases h1 with h1 | h1
        · exact Or.inl (by omega)
        · exact Or.inr ⟨by omega, by omega⟩

/-- what the theorem assumes of each segment: inside the text, and a mapped segment lies strictly before the end of the text -/
def SegOK (lines : List Text) (fl fc : Nat) (m : Mapping) : Prop :=
  Inside lines m ∧ (m.orig.isSome = true → (m.gl < fl ∨ (m.gl = fl ∧ m.gc < fc))) ∧ (m.gl < fl ∨ (m.gl = fl ∧ m.gc ≤ fc))

theorem smFullGo_attr (lines : List Text) (E : Env lines) (fl fc : Nat) (hfl : fl ≤ lines.length + 1) (hfc : fl = lines.length + 1 → fc = 0) (all : List Mapping) :
    ∀ (ms P : List Mapping) (s : FullSt), all = P ++ ms → sortedFrom s.line s.col ms → 1 ≤ s.line → ColOK lines s → WInv P s →
      (s.active = true → s.line ≤ lines.length) → (∀ m ∈ ms, SegOK lines fl fc m) →
      attrOf (smFullGo lines fl fc s ms) = attrFrom all (adv startPos (emitted lines s.line s.col)) (evsText (smFullGo lines fl fc s ms)) := by
  intro ms
  induction ms with
  | nil => intro P s _ _ _ _ _ _ _; rfl
  | cons m rest ih =>
    intro P s hall hs h1 hc hw hact hseg
    obtain ⟨hb, hrest⟩ := hs
    obtain ⟨hi, hin, _⟩ := hseg m (by simp)
    have hR := sortedFrom_all rest m.gl m.gc hrest
    obtain ⟨a, w, act, pl, pc⟩ := smFullStep_attr lines E fl fc P rest m s h1 hc hi hw hb hR hact hin hfl hfc
    obtain ⟨e1, l1, _⟩ := smFullStep_spec lines E.wf fl fc s m h1
    obtain ⟨_, c1⟩ := smFullStep_pos lines E fl fc s m h1 hc hi
    simp only [smFullGo, attrOf_append, evsText_append, attrFrom_append, ← adv_append]
    rw [hall, a, e1]
    congr 1
    have := ih (P ++ [m]) (smFullStep lines fl fc s m).1 (by rw [hall]; simp) (by rw [pl, pc]; exact hrest) l1 c1 w act
      (fun x hx => hseg x (by simp [hx]))
    rw [hall] at this
    exact this

/-- lexicographic order of positions -/
def posLt (a b : Pos) : Prop := a.line < b.line ∨ (a.line = b.line ∧ a.col < b.col)
def posLe (a b : Pos) : Prop := a.line < b.line ∨ (a.line = b.line ∧ a.col ≤ b.col)

theorem adv_ge : ∀ (t : Text) (p : Pos), posLe p (adv p t) := by
  intro t
  induction t with
  | nil => intro p; exact Or.inr ⟨rfl, Nat.le_refl _⟩
  | cons c cs ih =>
    intro p
    simp only [adv]
    split
    · rcases ih ⟨p.line + 1, 0⟩ with h | h
      · exact Or.inl (by simp only at h; omega)
      · exact Or.inl (by simp only at h; omega)
    · rcases ih ⟨p.line, p.col + 1⟩ with h | h
      · exact Or.inl (by simp only at h; omega)
      · exact Or.inr ⟨by simp only at h; omega, by simp only at h; omega⟩

theorem adv_gt (c : UInt8) (cs : Text) (p : Pos) : posLt p (adv p (c :: cs)) := by
  simp only [adv]
  split
  · rcases adv_ge cs ⟨p.line + 1, 0⟩ with h | h <;> exact Or.inl (by simp only at h; omega)
  · rcases adv_ge cs ⟨p.line, p.col + 1⟩ with h | h
    · exact Or.inl (by simp only at h; omega)
    · exact Or.inr ⟨by simp only at h; omega, by simp only at h; omega⟩

/-- two segment lists that answer alike on every position of the text attribute the text alike -/
theorem attrFrom_congr (A B : List Mapping) : ∀ (t : Text) (p : Pos),
    (∀ q : Pos, posLe p q → posLt q (adv p t) → lookupCols A q.line q.col = lookupCols B q.line q.col) → attrFrom A p t = attrFrom B p t := by
  intro t
  induction t with
  | nil => intro p _; rfl
  | cons c cs ih =>
    intro p h
    simp only [attrFrom]
    rw [h p (Or.inr ⟨rfl, Nat.le_refl _⟩) (adv_gt c cs p)]
    congr 1
    apply ih
    intro q h1 h2
    have hstep : adv p (c :: cs) = adv (adv p [c]) cs := by rw [show c :: cs = [c] ++ cs from rfl, adv_append]
    apply h q
    · have := adv_gt c [] p
      rcases this with h3 | h3 <;> rcases h1 with h4 | h4
      · exact Or.inl (by omega)
      · exact Or.inl (by omega)
      · exact Or.inl (by omega)
      · exact Or.inr ⟨by omega, by omega⟩
    · rw [hstep]; exact h2

/-- **C08 (columns = true): the map-driven splitter attributes every byte of the text exactly as a lookup in the map does** —
for every ASCII text and every sorted map whose segments lie inside it -/
theorem streamSMFull_attr (t : Text) (sm : SMap) (ha : IsAscii t) (hl : t.length ≤ USIZE_MAX) (hsorted : sortedFrom 1 0 (decode sm.mappings))
    (hseg : ∀ m ∈ decode sm.mappings, SegOK (splitLines t) (adv startPos t).line (adv startPos t).col m) :
    attrOf (streamSMFull t sm).evs = attrFrom (decode sm.mappings) startPos t := by
  have E := env_of_ascii t ha hl
  have hT := textOK_of_ascii t ha hl
  have htext := streamSMFull_text t sm hT
  have hend := adv_text_end t
  unfold streamSMFull at htext ⊢
  by_cases he : (splitLines t).isEmpty = true
  · have hsl : splitLines t = [] := by simpa using he
    have ht : t = [] := by have hj := splitLines_join t; rw [hsl] at hj; simpa using hj.symm
    subst ht
    simp [he, attrOf, attrFrom]
  · simp only [he, Bool.false_eq_true, if_false] at htext ⊢
    have hne : splitLines t ≠ [] := by simpa using he
    have hlen : 0 < (splitLines t).length := List.length_pos_iff.mpr hne
    -- the end position in the form the splitter computes it
    have hfin : adv startPos t = ⟨if endsWithNL ((splitLines t).getLast?.getD []) then (splitLines t).length + 1 else (splitLines t).length,
        if endsWithNL ((splitLines t).getLast?.getD []) then 0 else ((splitLines t).getLast?.getD []).length⟩ := by
      rw [hend]; unfold lineLoopInfo
      cases hl' : (splitLines t).getLast? with
      | none => exact absurd (List.getLast?_eq_none_iff.1 hl') hne
      | some last => simp only [Option.getD_some]; split <;> rfl
    generalize hfl : (if endsWithNL ((splitLines t).getLast?.getD []) then (splitLines t).length + 1 else (splitLines t).length) = fl at *
    generalize hfc : (if endsWithNL ((splitLines t).getLast?.getD []) then 0 else ((splitLines t).getLast?.getD []).length) = fc at *
    rw [hfin] at hseg
    simp only at hseg
    have hflb : fl ≤ (splitLines t).length + 1 := by rw [← hfl]; split <;> omega
    have hfcb : fl = (splitLines t).length + 1 → fc = 0 := by
      intro h; rw [← hfc]; rw [← hfl] at h
      by_cases hb : endsWithNL ((splitLines t).getLast?.getD []) = true
      · simp [hb]
      · simp [hb] at h
    rw [attrOf_append, attrOf_append, attrOf_noChunk _ (smSourceEvs_nochunk sm), attrOf_noChunk _ (smNameEvs_nochunk sm), List.nil_append, List.nil_append]
    rw [evsText_append, evsText_append, smSourceEvs_notext, smNameEvs_notext, List.nil_append, List.nil_append] at htext
    -- the sentinel segment at the end of the text
    have hsent : SegOK (splitLines t) fl fc ⟨fl, fc, none⟩ := by
      refine ⟨⟨by show 1 ≤ fl; rw [← hfl]; split <;> omega, ?_⟩, fun h => by simp at h, Or.inr ⟨rfl, Nat.le_refl _⟩⟩
      intro hle
      by_cases hnl : endsWithNL ((splitLines t).getLast?.getD []) = true
      · simp only [hnl, if_true] at hfl; simp only at hle; omega
      · simp only [hnl, Bool.false_eq_true, if_false] at hfl hfc
        have hlast : lineAt (splitLines t) (splitLines t).length = (splitLines t).getLast?.getD [] := by
          unfold lineAt; rw [List.getLast?_eq_getElem?]; simp [List.getD_eq_getElem?_getD]
        simp only
        rw [← hfl, hlast, ← hfc]
        unfold width; simp [hnl]
    have hsortedAll : sortedFrom 1 0 (decode sm.mappings ++ [⟨fl, fc, none⟩]) := by
      -- every segment lies at or before the end position
      have : ∀ (ms : List Mapping) (l c : Nat), sortedFrom l c ms → (∀ m ∈ ms, m.gl < fl ∨ (m.gl = fl ∧ m.gc ≤ fc)) → (l < fl ∨ (l = fl ∧ c ≤ fc)) →
          sortedFrom l c (ms ++ [⟨fl, fc, none⟩]) := by
        intro ms
        induction ms with
        | nil => intro l c _ _ h; exact ⟨h, trivial⟩
        | cons m ms ih => intro l c ⟨h1, h2⟩ hm _; exact ⟨h1, ih m.gl m.gc h2 (fun x hx => hm x (by simp [hx])) (hm m (by simp))⟩
      apply this _ 1 0 hsorted
      · intro m hm; exact (hseg m hm).2.2
      · by_cases hnl : endsWithNL ((splitLines t).getLast?.getD []) = true
        · simp only [hnl, if_true] at hfl; exact Or.inl (by omega)
        · simp only [hnl, Bool.false_eq_true, if_false] at hfl
          rcases Nat.lt_or_ge 1 (splitLines t).length with h | h
          · exact Or.inl (by omega)
          · exact Or.inr ⟨by omega, Nat.zero_le _⟩
    have hgo := smFullGo_attr (splitLines t) E fl fc hflb hfcb (decode sm.mappings ++ [⟨fl, fc, none⟩])
      (decode sm.mappings ++ [⟨fl, fc, none⟩]) [] {} (by simp) hsortedAll (by decide) (fun _ => Nat.zero_le _)
      ⟨by simp, by simp [lookupGo]⟩ (by simp) (fun m hm => by
        rcases List.mem_append.1 hm with h | h
        · exact hseg m h
        · simp only [List.mem_singleton] at h; subst h; exact hsent)
    rw [show emitted (splitLines t) ({} : FullSt).line ({} : FullSt).col = [] from emitted_start _ E.wf] at hgo
    rw [hgo, htext]
    -- the sentinel does not qualify for any position of the text
    apply attrFrom_congr
    intro q _ hq
    rw [show adv startPos [] = startPos from rfl, hfin] at hq
    unfold lookupCols
    rw [lookupGo_append, lookupGo_skip q.line q.col [⟨fl, fc, none⟩] _ (by
      intro x hx ⟨h1, h2⟩
      simp only [List.mem_singleton] at hx; subst hx
      rcases hq with h | h <;> simp only at h h1 h2 <;> omega)]

end Rs
