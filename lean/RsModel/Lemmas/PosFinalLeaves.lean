import RsModel.Lemmas.PosFinal
/-! # final-mode contract for the leaves -/
namespace Rs

theorem streamRaw_finOK (t : Text) (c : Bool) : FinOK t (streamRaw t ⟨c, true⟩) := by
  simp only [streamRaw, if_true]
  exact ⟨fun k hk => by simp [evsKeys] at hk, genInfo_adv t⟩

theorem origTok_fin : ∀ (toks : List Text) (l c : Nat),
    (origTokChunks true l c toks).2 = (origTokChunks false l c toks).2
    ∧ ∀ k ∈ evsKeys (origTokChunks true l c toks).1, ∃ k' ∈ evsKeys (origTokChunks false l c toks).1, k'.2 = k.2 := by
  intro toks
  induction toks with
  | nil => intro l c; exact ⟨rfl, fun k hk => by simp [origTokChunks, evsKeys] at hk⟩
  | cons tok toks ih =>
    intro l c
    simp only [origTokChunks, if_true, Bool.false_eq_true, if_false]
    constructor
    · split
      · exact (ih _ _).1
      · exact (ih _ _).1
    · intro k hk
      rw [evsKeys_append, List.mem_append] at hk
      rw [evsKeys_append]
      rcases hk with hk | hk
      · split at hk
        · simp [evsKeys] at hk
        · rename_i hcond
          simp only [evsKeys, List.filterMap_cons, Ev.key, List.filterMap_nil, List.mem_singleton] at hk
          subst hk
          refine ⟨(some tok, l, c), ?_, rfl⟩
          simp [hcond, evsKeys, Ev.key]
      · split at hk
        · rename_i he
          obtain ⟨k', hk', e⟩ := (ih _ _).2 k hk
          exact ⟨k', by simp only [he, if_true]; exact List.mem_append_right _ hk', e⟩
        · rename_i he
          obtain ⟨k', hk', e⟩ := (ih _ _).2 k hk
          exact ⟨k', by simp only [he, Bool.false_eq_true, if_false]; exact List.mem_append_right _ hk', e⟩

theorem streamOriginal_finOK (t name : Text) (c : Bool) : FinOK t (streamOriginal t name ⟨c, true⟩) := by
  cases c
  · -- one text-less chunk per line start
    simp only [streamOriginal, Bool.false_eq_true, if_false, if_true]
    have hfl := finalLine_le t
    have key : ∀ n, n - 1 ≤ (splitLines t).length → ∀ k ∈ evsKeys (origFinalLines 1 n), IsPos t ⟨k.2.1, k.2.2⟩ := by
      intro n hn k hk
      simp only [origFinalLines, evsKeys, List.mem_filterMap, List.mem_map, List.mem_range] at hk
      obtain ⟨e, ⟨j, hj, rfl⟩, hk⟩ := hk
      simp only [Ev.key, Option.some.injEq] at hk
      subst hk
      exact isPos_line_start t (1 + j) (by omega) (by omega)
    split
    · rename_i h0
      simp only [h0, if_true] at hfl
      refine ⟨fun k hk => ?_, genInfo_adv t⟩
      simp only [evsKeys, List.filterMap_cons, Ev.key] at hk
      exact key _ hfl k hk
    · rename_i h0
      simp only [h0, Bool.false_eq_true, if_false] at hfl
      refine ⟨fun k hk => ?_, genInfo_adv t⟩
      simp only [evsKeys, List.filterMap_cons, Ev.key] at hk
      exact key _ (by omega) k hk
  · have hn := finOK_of_posOK _ (streamOriginal_posOK t name true) (streamOriginal_tl t name true)
    rw [streamOriginal_text] at hn
    apply finOK_sub t _ _ hn
    · simp only [streamOriginal, if_true]; exact (origTok_fin _ _ _).1
    · intro k hk
      simp only [streamOriginal, if_true, evsKeys, List.filterMap_cons, Ev.key] at hk ⊢
      exact (origTok_fin _ _ _).2 k hk

/-! ## SourceMapSource -/

theorem emitted_prefix (lines : List Text) (l c : Nat) (h1 : 1 ≤ l) (hl : l ≤ lines.length) :
    ∃ rest, lines.flatten = emitted lines l c ++ rest := by
  unfold emitted
  refine ⟨(lineAt lines l).drop (cpos (lineAt lines l) c) ++ (lines.drop l).flatten, ?_⟩
  have hd : lines.drop (l - 1) = lineAt lines l :: lines.drop l := by
    unfold lineAt
    have : l - 1 < lines.length := by omega
    rw [List.drop_eq_getElem_cons this, List.getD_eq_getElem?_getD, List.getElem?_eq_getElem this]
    simp only [Option.getD_some]
    congr 2
    omega
  calc lines.flatten = (lines.take (l - 1) ++ lines.drop (l - 1)).flatten := by rw [List.take_append_drop]
    _ = _ := by
      rw [List.flatten_append, hd, List.flatten_cons]
      conv => lhs; rw [← List.take_append_drop (cpos (lineAt lines l) c) (lineAt lines l)]
      simp only [List.append_assoc]

theorem isPos_inside (t : Text) (ha : IsAscii t) (hl : t.length ≤ USIZE_MAX) (m : Mapping) (hin : Inside (splitLines t) m)
    (hlen : m.gl ≤ (splitLines t).length) : IsPos t ⟨m.gl, m.gc⟩ := by
  have E := env_of_ascii t ha hl
  have hv := valid_pos (splitLines t) E.ls E.ascii m.gl m.gc hin.1 hlen (hin.2 hlen)
  obtain ⟨rest, hr⟩ := emitted_prefix (splitLines t) m.gl m.gc hin.1 hlen
  rw [splitLines_join] at hr
  have := isPos_prefix (emitted (splitLines t) m.gl m.gc) rest
  rw [← hr, hv] at this
  exact this

theorem smFinalGo_pos (t : Text) (ha : IsAscii t) (hl : t.length ≤ USIZE_MAX) :
    ∀ (ms : List Mapping) (act : Nat), (∀ m ∈ ms, Inside (splitLines t) m) →
    ∀ k ∈ evsKeys (smFinalGo (genInfo t) act ms), IsPos t ⟨k.2.1, k.2.2⟩ := by
  intro ms
  induction ms with
  | nil => intro act _ k hk; simp [smFinalGo, evsKeys] at hk
  | cons m ms ih =>
    intro act hin k hk
    have hrest : ∀ m' ∈ ms, Inside (splitLines t) m' := fun m' h => hin m' (by simp [h])
    simp only [smFinalGo] at hk
    split at hk
    · exact ih act hrest k hk
    · rename_i hcond
      have hlen : m.gl ≤ (splitLines t).length := by
        have hge : ¬ (m.gl ≥ (genInfo t).line ∧ (m.gc ≥ (genInfo t).col ∨ m.gl > (genInfo t).line)) := by
          simpa using hcond
        have hfl := finalLine_le t
        rcases Nat.lt_or_ge m.gl (genInfo t).line with h | h
        · split at hfl <;> omega
        · have hc : ¬ (m.gc ≥ (genInfo t).col ∨ m.gl > (genInfo t).line) := fun x => hge ⟨h, x⟩
          have hc1 : m.gc < (genInfo t).col := by
            rcases Nat.lt_or_ge m.gc (genInfo t).col with h' | h'
            · exact h'
            · exact absurd (Or.inl h') hc
          have hc2 : m.gl = (genInfo t).line := by
            rcases Nat.lt_or_ge (genInfo t).line m.gl with h' | h'
            · exact absurd (Or.inr h') hc
            · omega
          have : ((genInfo t).col == 0) = false := by simp; omega
          simp only [this, Bool.false_eq_true, if_false] at hfl
          omega
      have hp := isPos_inside t ha hl m (hin m (by simp)) hlen
      split at hk
      · simp only [evsKeys, List.filterMap_cons, Ev.key, List.mem_cons] at hk
        rcases hk with rfl | hk
        · exact hp
        · exact ih _ hrest k hk
      · split at hk
        · simp only [evsKeys, List.filterMap_cons, Ev.key, List.mem_cons] at hk
          rcases hk with rfl | hk
          · exact hp
          · exact ih _ hrest k hk
        · exact ih _ hrest k hk

theorem evsKeys_sourceEvs (sm : SMap) : evsKeys (smSourceEvs sm) = [] := by
  simp only [smSourceEvs, evsKeys, List.filterMap_map]
  apply List.filterMap_eq_nil_iff.2
  intro i _; rfl

theorem evsKeys_nameEvs (sm : SMap) : evsKeys (smNameEvs sm) = [] := by
  simp only [smNameEvs, evsKeys, List.filterMap_map]
  apply List.filterMap_eq_nil_iff.2
  intro i _; rfl

theorem streamSMFinal_finOK (t : Text) (sm : SMap) (ha : IsAscii t) (hl : t.length ≤ USIZE_MAX) (hm : MapInside t sm) :
    FinOK t (streamSMFinal t sm) := by
  unfold streamSMFinal
  dsimp only
  split
  · exact ⟨fun k hk => by simp [evsKeys] at hk, genInfo_adv t⟩
  · refine ⟨fun k hk => ?_, genInfo_adv t⟩
    simp only [evsKeys_append, evsKeys_sourceEvs, evsKeys_nameEvs, List.nil_append] at hk
    exact smFinalGo_pos t ha hl _ 0 hm k hk

theorem smLinesFinalGo_pos (t : Text) (fl : Nat) (hfl : fl ≤ (splitLines t).length) :
    ∀ (ms : List Mapping) (cur : Nat), 1 ≤ cur → ∀ k ∈ evsKeys (smLinesFinalGo fl cur ms), IsPos t ⟨k.2.1, k.2.2⟩ := by
  intro ms
  induction ms with
  | nil => intro cur _ k hk; simp [smLinesFinalGo, evsKeys] at hk
  | cons m ms ih =>
    intro cur hc k hk
    simp only [smLinesFinalGo] at hk
    split at hk
    · split at hk
      · rename_i hcond
        simp only [Bool.and_eq_true, decide_eq_true_eq] at hcond
        simp only [evsKeys, List.filterMap_cons, Ev.key, List.mem_cons] at hk
        rcases hk with rfl | hk
        · exact isPos_line_start t m.gl (by omega) (by omega)
        · exact ih _ (by omega) k hk
      · exact ih _ hc k hk
    · exact ih _ hc k hk

theorem streamSMLinesFinal_finOK (t : Text) (sm : SMap) : FinOK t (streamSMLinesFinal t sm) := by
  unfold streamSMLinesFinal
  dsimp only
  split
  · rename_i h
    refine ⟨fun k hk => by simp [evsKeys] at hk, ?_⟩
    rw [← genInfo_adv]
    simp only [Bool.and_eq_true, beq_iff_eq] at h
    cases hg : genInfo t with
    | mk l c => rw [hg] at h; simp only at h; rw [h.1, h.2]
  · refine ⟨fun k hk => ?_, genInfo_adv t⟩
    simp only [evsKeys_append, evsKeys_sourceEvs, List.nil_append] at hk
    exact smLinesFinalGo_pos t _ (finalLine_le t) _ 1 (Nat.le_refl _) k hk

theorem streamSM_finOK (t : Text) (sm : SMap) (c : Bool) (ha : IsAscii t) (hl : t.length ≤ USIZE_MAX) (hm : c = true → MapInside t sm) :
    FinOK t (streamSM t sm ⟨c, true⟩) := by
  cases c
  · exact streamSMLinesFinal_finOK t sm
  · exact streamSMFinal_finOK t sm ha hl (hm rfl)

theorem streamCombined_finOK (t : Text) (sm : SMap) (n : Text) (os : Option Text) (im : SMap) (rm : Bool) (c : Bool)
    (h : FinOK t (streamSM t sm ⟨c, true⟩)) : FinOK t (streamCombined t sm n os im rm ⟨c, true⟩) := by
  refine ⟨fun k hk => ?_, ?_⟩
  · simp only [streamCombined] at hk
    rw [combFold_keys] at hk
    exact h.1 k hk
  · simpa [streamCombined] using h.2

end Rs
