import RsModel.Spec.ReplRef
/-! # ReplaceSource: sorting, the splice loop, history independence -/
namespace Rs

theorem Repl.le_trans (a b c : Repl) : a.le b = true → b.le c = true → a.le c = true := by
  simp only [Repl.le, Bool.or_eq_true, Bool.and_eq_true, decide_eq_true_eq, beq_iff_eq]
  omega

theorem Repl.le_total (a b : Repl) : (a.le b || b.le a) = true := by
  simp only [Repl.le, Bool.or_eq_true, Bool.and_eq_true, decide_eq_true_eq, beq_iff_eq]
  omega

theorem insertStable_spec (a : Repl) (l₁ l₂ : List Repl) (h1 : ∀ b ∈ l₁, (!a.le b) = true)
    (h2 : ∀ b ∈ l₂, a.le b = true) :
    sortRepls.insertSortedStable a (l₁ ++ l₂) = l₁ ++ a :: l₂ := by
  induction l₁ with
  | nil =>
    cases l₂ with
    | nil => rfl
    | cons x xs => simp [sortRepls.insertSortedStable, h2 x (by simp)]
  | cons x xs ih =>
    have hx : a.le x = false := by simpa using h1 x (by simp)
    simp only [List.cons_append, sortRepls.insertSortedStable, hx, Bool.false_eq_true, if_false]
    rw [ih (fun b hb => h1 b (by simp [hb]))]

/-- the crate's sort (stable, keyed by (start, end, enforce)) is Lean's stable merge sort -/
theorem sortRepls_eq_mergeSort (rs : List Repl) : sortRepls rs = rs.mergeSort Repl.le := by
  induction rs with
  | nil => simp [sortRepls]
  | cons a l ih =>
    obtain ⟨l₁, l₂, h1, h2, h3⟩ := List.mergeSort_cons Repl.le_trans Repl.le_total a l
    have hs := List.pairwise_mergeSort Repl.le_trans Repl.le_total (a :: l)
    rw [h1] at hs
    have h4 : ∀ b ∈ l₂, a.le b = true := by
      intro b hb
      have := (List.pairwise_append.mp hs).2.1
      exact (List.pairwise_cons.mp this).1 b hb
    show sortRepls.insertSortedStable a (sortRepls l) = _
    rw [ih, h2, h1]
    exact insertStable_spec a l₁ l₂ h3 h4

/-- the suffix formulation used by the implementation's loop equals the reference on absolute positions -/
theorem specGo_eq_applyGo (inner : Text) : ∀ (rs : List Repl) (pos : Nat), pos ≤ inner.length →
    specGo pos (inner.drop pos) rs = applyGo inner pos rs := by
  intro rs
  induction rs with
  | nil => intro pos _; rfl
  | cons r rs ih =>
    intro pos hpos
    simp only [specGo, applyGo]
    have hlen : (inner.drop pos).length = inner.length - pos := by simp
    have e1 : (inner.drop pos).take (r.start - pos) = (if pos < r.start then bsub inner pos (min r.start inner.length) else []) := by
      split
      · unfold bsub
        apply List.ext_getElem?
        intro i
        simp only [List.getElem?_take, List.getElem?_drop]
        by_cases h : i < r.start - pos
        · simp only [h, if_true]
          by_cases h2 : i < min r.start inner.length - pos
          · simp [h2]
          · simp only [h2, if_false]
            rw [List.getElem?_eq_none]; omega
        · simp only [h, if_false]
          have : ¬ i < min r.start inner.length - pos := by omega
          simp [this]
      · have : r.start - pos = 0 := by omega
        simp [this]
    have e2 : pos + min (max pos r.stop - pos) (inner.drop pos).length = min (max pos r.stop) inner.length := by
      rw [hlen]; omega
    have e3 : (inner.drop pos).drop (max pos r.stop - pos) = inner.drop (min (max pos r.stop) inner.length) := by
      rw [List.drop_drop]
      by_cases h : max pos r.stop ≤ inner.length
      · congr 1; omega
      · rw [List.drop_of_length_le (by omega), List.drop_of_length_le (by omega)]
    rw [e1, e2, e3, ih _ (by omega)]

theorem replaceSource_eq_applyRepls (inner : Text) (rs : List Repl) :
    replaceSource inner rs = applyRepls inner rs := by
  unfold replaceSource applyRepls
  split
  · rename_i h
    have : rs = [] := by simpa using h
    subst this; simp [applyGo]
  · rw [← sortRepls_eq_mergeSort]
    simpa using specGo_eq_applyGo inner (sortRepls rs) 0 (by omega)

/-! ## histories -/

/-- the replacements pushed by a history, in call order -/
def histRepls (ops : List ROp) : List Repl := ops.filterMap ROp.repl?

def RState.Inv (s : RState) : Prop := s.isSorted = true → s.sorted = sortRepls s.repls

theorem RState.inv_step (s : RState) (op : ROp) (h : s.Inv) : (s.step op).Inv := by
  cases op with
  | replace r => intro h2; simp [RState.step] at h2
  | observe =>
    show (s.sort).Inv
    unfold RState.sort
    by_cases hs : s.isSorted = true
    · simp only [hs, if_true]; exact h
    · simp only [hs, Bool.false_eq_true, if_false]; intro _; rfl
  | clone => exact h

theorem RState.repls_sort (s : RState) : s.sort.repls = s.repls := by
  unfold RState.sort; split <;> rfl

theorem RState.repls_step (s : RState) (op : ROp) :
    (s.step op).repls = s.repls ++ (match op.repl? with | some r => [r] | none => []) := by
  cases op with
  | replace r => simp [RState.step, ROp.repl?]
  | observe => simp [RState.step, ROp.repl?, RState.repls_sort]
  | clone => simp [RState.step, ROp.repl?]

theorem RState.run_inv (ops : List ROp) : ∀ s : RState, s.Inv →
    (ops.foldl RState.step s).Inv ∧ (ops.foldl RState.step s).repls = s.repls ++ histRepls ops := by
  induction ops with
  | nil => intro s h; exact ⟨h, by simp [histRepls]⟩
  | cons op ops ih =>
    intro s h
    obtain ⟨h1, h2⟩ := ih (s.step op) (s.inv_step op h)
    refine ⟨h1, ?_⟩
    rw [List.foldl_cons, h2, RState.repls_step]
    cases op <;> simp [histRepls, ROp.repl?, List.filterMap_cons]

theorem RState.source_of_inv (inner : Text) (s : RState) (h : s.Inv) :
    s.source inner = replaceSource inner s.repls := by
  unfold RState.source RState.sort replaceSource
  by_cases hs : s.isSorted = true
  · simp only [hs, if_true, h hs]
    cases hr : s.repls with
    | nil => simp [sortRepls]
    | cons r rs =>
      have : sortRepls (r :: rs) ≠ [] := by
        rw [sortRepls_eq_mergeSort]
        intro h0
        have := (List.mergeSort_perm (r :: rs) Repl.le).length_eq
        simp [h0] at this
      simp [this]
  · simp only [hs, Bool.false_eq_true, if_false]
    cases hr : s.repls with
    | nil => simp [sortRepls]
    | cons r rs =>
      have : sortRepls (r :: rs) ≠ [] := by
        rw [sortRepls_eq_mergeSort]
        intro h0
        have := (List.mergeSort_perm (r :: rs) Repl.le).length_eq
        simp [h0] at this
      simp [this]

end Rs
