import RsModel.Lemmas.CombTables
/-!
# C06, ReplaceSource: names

Every chunk a ReplaceSource delivers with a name carries — through the names the ReplaceSource itself announces — either the name
the inner stream announced for the inner chunk it was cut from (or spliced into), or the name given with a replacement.
`RN` is the invariant on the two name tables (`name_mapping`, the name-keyed de-duplication table, lists the announced names in
order; every entry of `name_index_mapping` points to an announcement of the same name as the inner stream's).
-/
namespace Rs

structure RN (RNs : List Text) (st : RSt) (N IN : List Text) : Prop where
  nm : st.nameMapping = N.zipIdx
  len : st.nim.length = IN.length
  nim : ∀ (i g : Nat), st.nim[i]? = some g → N[g]? = IN[i]?
  rest : ∀ r ∈ st.rest, ∀ nm, r.name = some nm → nm ∈ RNs

/-- a delivered name index: the inner chunk's name `an`, or a replacement's name -/
def NameOK (RNs : List Text) (N IN : List Text) (an : Option Nat) (k : Nat) : Prop :=
  (∃ i, an = some i ∧ N[k]? = IN[i]? ∧ i < IN.length) ∨ (∃ nm, nm ∈ RNs ∧ N[k]? = some nm)

def AllNamed (RNs : List Text) (N IN : List Text) (an : Option Nat) (evs : List Ev) : Prop :=
  ∀ t mm, Ev.chunk t mm ∈ evs → ∀ y, mm.orig = some y → ∀ k, y.name = some k → NameOK RNs N IN an k

theorem nameOK_mono (RNs N IN x : List Text) (an : Option Nat) (k : Nat) (h : NameOK RNs N IN an k) : NameOK RNs (N ++ x) IN an k := by
  rcases h with ⟨i, h1, h2, h3⟩ | ⟨nm, h1, h2⟩
  · refine Or.inl ⟨i, h1, ?_, h3⟩
    rw [List.getElem?_eq_getElem h3] at h2 ⊢
    rw [List.getElem?_append_left (List.getElem?_eq_some_iff.1 h2).1]; exact h2
  · refine Or.inr ⟨nm, h1, ?_⟩
    rw [List.getElem?_append_left (List.getElem?_eq_some_iff.1 h2).1]; exact h2

theorem allNamed_mono (RNs N IN x : List Text) (an : Option Nat) (evs : List Ev) (h : AllNamed RNs N IN an evs) : AllNamed RNs (N ++ x) IN an evs :=
  fun t mm hm y hy k hk => nameOK_mono _ _ _ _ _ _ (h t mm hm y hy k hk)

theorem allNamed_nil (RNs N IN : List Text) (an : Option Nat) : AllNamed RNs N IN an [] := fun t mm h => (by simp at h)

theorem allNamed_append (RNs N IN : List Text) (an : Option Nat) (a b : List Ev) (ha : AllNamed RNs N IN an a) (hb : AllNamed RNs N IN an b) :
    AllNamed RNs N IN an (a ++ b) := by
  intro t mm h
  rcases List.mem_append.1 h with h | h
  · exact ha t mm h
  · exact hb t mm h

theorem allNamed_noChunk (RNs N IN : List Text) (an : Option Nat) (evs : List Ev) (h : ∀ t mm, Ev.chunk t mm ∉ evs) : AllNamed RNs N IN an evs :=
  fun t mm hm => absurd hm (h t mm)

theorem rn_mono_nim (RNs : List Text) (st : RSt) (N IN x : List Text) (h : RN RNs st N IN) : ∀ (i g : Nat), st.nim[i]? = some g → (N ++ x)[g]? = IN[i]? := by
  intro i g hg
  have h1 := h.nim i g hg
  have hi : i < IN.length := by rw [← h.len]; exact (List.getElem?_eq_some_iff.1 hg).1
  rw [List.getElem?_eq_getElem hi] at h1 ⊢
  rw [List.getElem?_append_left (List.getElem?_eq_some_iff.1 h1).1]; exact h1

/-- the inner chunk's name is what the walker carries -/
def OrigName (an : Option Nat) (o : Option Orig) : Prop := ∀ x, o = some x → x.name = an

theorem origName_adv (an : Option Nat) (c : List (Option Text)) (o : Option Orig) (s : Text) (b : Nat) (h : OrigName an o) : OrigName an (advOrig c o s b) := by
  intro x hx
  unfold advOrig at hx
  cases o with
  | none => cases hx
  | some o0 =>
    simp only at hx
    split at hx
    · simp only [Option.some.injEq] at hx; subst hx; exact h o0 rfl
    · simp only [Option.some.injEq] at hx; subst hx; exact h o0 rfl

/-- a piece of the inner text: its name is the inner chunk's name, translated -/
theorem mapName_named (RNs : List Text) (st : RSt) (N IN : List Text) (h : RN RNs st N IN) (an : Option Nat) (o : Option Orig) (ho : OrigName an o)
    (t : Option Text) (gl gc : Nat) : AllNamed RNs N IN an [Ev.chunk t ⟨gl, gc, mapName st.nim o⟩] := by
  intro t' mm hm y hy k hk
  simp only [List.mem_singleton, Ev.chunk.injEq] at hm
  obtain ⟨_, rfl⟩ := hm
  cases o with
  | none => simp [mapName] at hy
  | some o0 =>
    simp only [mapName, Option.map_some, Option.some.injEq] at hy
    subst hy
    simp only at hk
    have hn := ho o0 rfl
    cases han : an with
    | none => rw [han] at hn; rw [hn] at hk; simp at hk
    | some i =>
      rw [han] at hn; rw [hn] at hk
      simp only [Option.bind_some] at hk
      exact Or.inl ⟨i, rfl, h.nim i k hk, by rw [← h.len]; exact (List.getElem?_eq_some_iff.1 hk).1⟩

theorem rBefore_named (RNs : List Text) (chunk : Text) (line : Int) (r : Repl) (st : RSt) (l : LSt) (N IN : List Text) (h : RN RNs st N IN)
    (an : Option Nat) (hl : OrigName an l.orig) :
    AllNamed RNs N IN an (rBefore chunk line r st l).2.2
    ∧ (∀ t mm, Ev.chunk t mm ∈ (rBefore chunk line r st l).2.2 → True)
    ∧ annN (rBefore chunk line r st l).2.2 = []
    ∧ (rBefore chunk line r st l).1.nameMapping = st.nameMapping ∧ (rBefore chunk line r st l).1.nim = st.nim
    ∧ (rBefore chunk line r st l).1.rest = st.rest
    ∧ OrigName an (rBefore chunk line r st l).2.1.orig := by
  unfold rBefore
  split
  · exact ⟨mapName_named RNs st N IN h an l.orig hl _ _ _, fun _ _ _ => trivial, rfl, rfl, rfl, rfl, origName_adv an _ _ _ _ hl⟩
  · exact ⟨allNamed_nil _ _ _ _, fun _ _ _ => trivial, rfl, rfl, rfl, rfl, hl⟩

/-- the name index for the first line of a replacement's content -/
theorem rName_named (RNs : List Text) (r : Repl) (st : RSt) (l : LSt) (N IN : List Text) (h : RN RNs st N IN) (an : Option Nat) (hl : OrigName an l.orig)
    (hr : ∀ nm, r.name = some nm → nm ∈ RNs) :
    (∀ t mm, Ev.chunk t mm ∉ (rName r st l).2.1)
    ∧ RN RNs (rName r st l).1 (N ++ annN (rName r st l).2.1) IN
    ∧ (rName r st l).1.rest = st.rest
    ∧ (∀ k, (rName r st l).2.2 = some k → NameOK RNs (N ++ annN (rName r st l).2.1) IN an k) := by
  unfold rName
  split
  · rename_i nm x hnm hx
    obtain ⟨n1, _, _, n4⟩ := globalName_spec N nm 0
    have hnc := globalName_noChunkMem N.zipIdx nm
    rw [h.nm]
    generalize globalName N.zipIdx nm = g at n1 n4 hnc
    refine ⟨hnc, ⟨n1, h.len, rn_mono_nim RNs st N IN _ h, h.rest⟩, (by first | rfl | trivial), fun k hk => ?_⟩
    simp only [Option.some.injEq] at hk; subst hk
    exact Or.inr ⟨nm, hr nm hnm, n4⟩
  · simp only [annN, List.append_nil]
    refine ⟨fun t mm hm => (by simp at hm), h, (by first | rfl | trivial), fun k hk => ?_⟩
    cases ho : l.orig with
    | none => rw [ho] at hk; simp at hk
    | some o0 =>
      rw [ho] at hk
      simp only [Option.bind_some] at hk
      have hn := hl o0 ho
      cases han : an with
      | none => rw [han] at hn; rw [hn] at hk; simp at hk
      | some i =>
        rw [han] at hn; rw [hn] at hk
        simp only [Option.bind_some] at hk
        exact Or.inl ⟨i, rfl, h.nim i k hk, by rw [← h.len]; exact (List.getElem?_eq_some_iff.1 hk).1⟩

theorem emitContent_named (RNs : List Text) (N IN : List Text) (an : Option Nat) (gc : Nat) (orig : Option Orig) :
    ∀ (cls : List Text) (nameIdx : Option Nat) (st : RSt) (line : Int), (∀ k, nameIdx = some k → NameOK RNs N IN an k) →
    AllNamed RNs N IN an (emitContent gc orig cls nameIdx st line).2.1
    ∧ annN (emitContent gc orig cls nameIdx st line).2.1 = []
    ∧ (emitContent gc orig cls nameIdx st line).1.nameMapping = st.nameMapping ∧ (emitContent gc orig cls nameIdx st line).1.nim = st.nim
    ∧ (emitContent gc orig cls nameIdx st line).1.rest = st.rest := by
  intro cls
  induction cls with
  | nil => intro nameIdx st line _; exact ⟨allNamed_nil _ _ _ _, rfl, rfl, rfl, rfl⟩
  | cons cl cls ih =>
    intro nameIdx st line hk
    simp only [emitContent]
    have hhead : AllNamed RNs N IN an [Ev.chunk (some cl) ⟨u32 line, gcolOf st line gc, orig.map fun o => { o with name := nameIdx }⟩] := by
      intro t mm hm y hy k hk'
      simp only [List.mem_singleton, Ev.chunk.injEq] at hm
      obtain ⟨_, rfl⟩ := hm
      cases orig with
      | none => simp at hy
      | some o0 =>
        simp only [Option.map_some, Option.some.injEq] at hy
        subst hy
        exact hk k hk'
    split
    · obtain ⟨i1, i2, i3, i4, i5⟩ := ih none (if st.colOffLine == line then { st with colOff := st.colOff + cl.length } else { st with colOff := cl.length, colOffLine := line }) line (fun k hk => by cases hk)
      refine ⟨allNamed_append _ _ _ _ [_] _ hhead i1, by simp only [annN]; exact i2, i3.trans (by split <;> rfl), i4.trans (by split <;> rfl), i5.trans (by split <;> rfl)⟩
    · obtain ⟨i1, i2, i3, i4, i5⟩ := ih none { st with lineOff := st.lineOff + 1, colOff := -(gc : Int), colOffLine := line + 1 } (line + 1) (fun k hk => by cases hk)
      exact ⟨allNamed_append _ _ _ _ [_] _ hhead i1, by simp only [annN]; exact i2, i3, i4, i5⟩

theorem skipWhole_rest (st : RSt) (chunk : Text) (gl gc remain endPos : Nat) : (skipWhole st chunk gl gc remain endPos).rest = st.rest := by
  unfold skipWhole
  dsimp only
  split
  · split <;> rfl
  · split <;> rfl

theorem colShift_rest (st : RSt) (line by_ : Int) : (colShift st line by_).rest = st.rest := by
  unfold colShift
  split <;> rfl

theorem rn_of_same (RNs : List Text) (a b : RSt) (N IN : List Text) (h : RN RNs b N IN) (s : SameNames a b)
    (hr : ∀ r ∈ a.rest, ∀ nm, r.name = some nm → nm ∈ RNs) : RN RNs a N IN :=
  ⟨by rw [s.1]; exact h.nm, by rw [s.2]; exact h.len, by rw [s.2]; exact h.nim, hr⟩

/-- one replacement: the pieces and the content delivered are named by the inner chunk's name or the replacement's -/
theorem rIter_named (RNs : List Text) (an : Option Nat) (chunk : Text) (gl endPos : Nat) (r : Repl) (rs : List Repl) (st : RSt) (l : LSt)
    (N IN : List Text) (h : RN RNs st N IN) (hl : OrigName an l.orig) (hr : ∀ nm, r.name = some nm → nm ∈ RNs)
    (hrs : ∀ r' ∈ rs, ∀ nm, r'.name = some nm → nm ∈ RNs) :
    AllNamed RNs (N ++ annN (rIter chunk gl endPos r rs st l).1) IN an (rIter chunk gl endPos r rs st l).1
    ∧ (match (rIter chunk gl endPos r rs st l).2 with
       | .done st' => RN RNs st' (N ++ annN (rIter chunk gl endPos r rs st l).1) IN
       | .cont st' l' => RN RNs st' (N ++ annN (rIter chunk gl endPos r rs st l).1) IN ∧ OrigName an l'.orig) := by
  obtain ⟨b1, _, b3, b4, b5, b6, b7⟩ := rBefore_named RNs chunk ((gl : Int) + st.lineOff) r st l N IN h an hl
  generalize hb : rBefore chunk ((gl : Int) + st.lineOff) r st l = b at b1 b3 b4 b5 b6 b7
  have hb1 : RN RNs b.1 N IN := ⟨by rw [b4]; exact h.nm, by rw [b5]; exact h.len, by rw [b5]; exact h.nim, by rw [b6]; exact h.rest⟩
  obtain ⟨n1, n2, n3, n4⟩ := rName_named RNs r b.1 b.2.1 N IN hb1 an b7 hr
  generalize hn : rName r b.1 b.2.1 = n at n1 n2 n3 n4
  obtain ⟨c1, c2, c3, c4, c5⟩ := emitContent_named RNs (N ++ annN n.2.1) IN an b.2.1.gc b.2.1.orig (splitLines r.content) n.2.2 n.1 ((gl : Int) + st.lineOff) n4
  generalize hc : emitContent b.2.1.gc b.2.1.orig (splitLines r.content) n.2.2 n.1 ((gl : Int) + st.lineOff) = c at c1 c2 c3 c4 c5
  have hann : annN (b.2.2 ++ n.2.1 ++ c.2.1) = annN n.2.1 := by rw [annN_append, annN_append, b3, c2]; simp
  have hall : AllNamed RNs (N ++ annN n.2.1) IN an (b.2.2 ++ n.2.1 ++ c.2.1) :=
    allNamed_append _ _ _ _ _ _ (allNamed_append _ _ _ _ _ _ (allNamed_mono _ _ _ _ _ _ b1) (allNamed_noChunk _ _ _ _ _ n1)) c1
  have hcn : RN RNs c.1 (N ++ annN n.2.1) IN :=
    ⟨by rw [c3]; exact n2.nm, by rw [c4]; exact n2.len, by rw [c4]; exact n2.nim, by rw [c5]; exact n2.rest⟩
  simp only [rIter, hb, hn, hc]
  split
  · split
    · simp only [hann]
      refine ⟨hall, rn_of_same RNs _ _ _ _ ?_ (skipWhole_same _ _ _ _ _ _) (by rw [skipWhole_rest]; exact hrs)⟩
      exact ⟨hcn.nm, hcn.len, hcn.nim, hrs⟩
    · simp only [hann]
      refine ⟨hall, rn_of_same RNs _ _ _ _ ?_ (colShift_same _ _ _) (by rw [colShift_rest]; exact hrs), origName_adv an _ _ _ _ b7⟩
      exact ⟨hcn.nm, hcn.len, hcn.nim, hrs⟩
  · simp only [hann]
    exact ⟨hall, ⟨hcn.nm, hcn.len, hcn.nim, hrs⟩, b7⟩

theorem rLoop_named (RNs : List Text) (an : Option Nat) (chunk : Text) (gl endPos : Nat) : ∀ (rs : List Repl) (st : RSt) (l : LSt) (N IN : List Text),
    RN RNs st N IN → OrigName an l.orig → (∀ r ∈ rs, ∀ nm, r.name = some nm → nm ∈ RNs) →
    AllNamed RNs (N ++ annN (rLoop chunk gl endPos rs st l).2.1) IN an (rLoop chunk gl endPos rs st l).2.1
    ∧ RN RNs (rLoop chunk gl endPos rs st l).1 (N ++ annN (rLoop chunk gl endPos rs st l).2.1) IN
    ∧ ∀ l2, (rLoop chunk gl endPos rs st l).2.2 = some l2 → OrigName an l2.orig := by
  intro rs
  induction rs with
  | nil =>
    intro st l N IN h hl _
    simp only [rLoop, annN, List.append_nil]
    exact ⟨allNamed_nil _ _ _ _, ⟨h.nm, h.len, h.nim, fun r hr => (by simp at hr)⟩, fun l2 h2 => by simp only [Option.some.injEq] at h2; subst h2; exact hl⟩
  | cons r rs ih =>
    intro st l N IN h hl hrs
    have hr0 := hrs r (by simp)
    have hrs' : ∀ r' ∈ rs, ∀ nm, r'.name = some nm → nm ∈ RNs := fun r' hr' => hrs r' (by simp [hr'])
    simp only [rLoop]
    split
    · obtain ⟨a1, a2⟩ := rIter_named RNs an chunk gl endPos r rs st l N IN h hl hr0 hrs'
      split
      · rename_i evs st' heq
        rw [heq] at a1 a2
        exact ⟨a1, a2, fun l2 h2 => by cases h2⟩
      · rename_i evs st' l' heq
        rw [heq] at a1 a2
        simp only at a1 a2
        obtain ⟨i1, i2, i3⟩ := ih st' l' _ IN a2.1 a2.2 hrs'
        simp only [annN_append, ← List.append_assoc]
        exact ⟨allNamed_append _ _ _ _ _ _ (allNamed_mono _ _ _ _ _ _ a1) i1, i2, i3⟩
    · simp only [annN, List.append_nil]
      exact ⟨allNamed_nil _ _ _ _, ⟨h.nm, h.len, h.nim, hrs⟩, fun l2 h2 => by simp only [Option.some.injEq] at h2; subst h2; exact hl⟩

/-- everything delivered while one inner chunk is processed -/
theorem rOnChunk_named (RNs : List Text) (st : RSt) (chunk : Text) (m : Mapping) (N IN : List Text) (h : RN RNs st N IN) :
    AllNamed RNs (N ++ annN (rOnChunk st chunk m).2) IN (m.orig.bind (·.name)) (rOnChunk st chunk m).2
    ∧ RN RNs (rOnChunk st chunk m).1 (N ++ annN (rOnChunk st chunk m).2) IN := by
  have hm : OrigName (m.orig.bind (·.name)) m.orig := by
    intro x hx; rw [hx]; rfl
  unfold rOnChunk
  dsimp only
  split
  · simp only [annN, List.append_nil]
    exact ⟨allNamed_nil _ _ _ _, rn_of_same RNs _ _ _ _ h (skipWhole_same _ _ _ _ _ _) (by rw [skipWhole_rest]; exact h.rest)⟩
  · rename_i st1 l1 hstart
    have h1 : RN RNs st1 N IN ∧ OrigName (m.orig.bind (·.name)) l1.orig := by
      split at hstart
      · split at hstart
        · cases hstart
        · simp only [Option.some.injEq, Prod.mk.injEq] at hstart
          obtain ⟨e1, e2⟩ := hstart
          subst e1 e2
          refine ⟨rn_of_same RNs _ _ _ _ ?_ (colShift_same _ _ _) (by rw [colShift_rest]; exact h.rest), origName_adv _ _ _ _ _ hm⟩
          exact ⟨h.nm, h.len, h.nim, h.rest⟩
      · simp only [Option.some.injEq, Prod.mk.injEq] at hstart
        obtain ⟨e1, e2⟩ := hstart
        subst e1 e2
        exact ⟨h, hm⟩
    obtain ⟨a1, a2, a3⟩ := rLoop_named RNs (m.orig.bind (·.name)) chunk m.gl (st.pos + chunk.length) st1.rest st1 l1 N IN h1.1 h1.2 h1.1.rest
    split
    · rename_i st2 evs heq
      rw [heq] at a1 a2
      exact ⟨a1, a2⟩
    · rename_i st2 evs l2 heq
      rw [heq] at a1 a2 a3
      simp only at a1 a2
      have hl2 := a3 l2 rfl
      have htail : annN (if l2.chunkPos < chunk.length then
          [Ev.chunk (some (chunk.drop l2.chunkPos)) ⟨u32 ((m.gl : Int) + st2.lineOff), gcolOf st2 ((m.gl : Int) + st2.lineOff) l2.gc, mapName st2.nim l2.orig⟩]
          else []) = [] := by split <;> rfl
      rw [annN_append, htail, List.append_nil]
      refine ⟨allNamed_append _ _ _ _ _ _ a1 ?_, ⟨a2.nm, a2.len, a2.nim, a2.rest⟩⟩
      split
      · exact mapName_named RNs st2 _ IN a2 _ l2.orig hl2 _ _ _
      · exact allNamed_nil _ _ _ _

theorem nameOK_monoIN (RNs N IN x : List Text) (an : Option Nat) (k : Nat) (h : NameOK RNs N IN an k) : NameOK RNs N (IN ++ x) an k := by
  rcases h with ⟨i, h1, h2, h3⟩ | h
  · refine Or.inl ⟨i, h1, ?_, by simp; omega⟩
    rw [List.getElem?_append_left h3]; exact h2
  · exact Or.inr h

/-- the whole inner stream -/
theorem rEvs_named (RNs : List Text) : ∀ (evs : List Ev) (st : RSt) (N IN : List Text) (nsi : Nat), RN RNs st N IN → DeclOK nsi IN.length evs →
    (∀ t' mm, Ev.chunk t' mm ∈ (rEvs st evs).2 → ∃ t m, Ev.chunk t m ∈ evs ∧ ∀ y, mm.orig = some y → ∀ k, y.name = some k →
        NameOK RNs (N ++ annN (rEvs st evs).2) (IN ++ annN evs) (m.orig.bind (·.name)) k)
    ∧ RN RNs (rEvs st evs).1 (N ++ annN (rEvs st evs).2) (IN ++ annN evs) := by
  intro evs
  induction evs with
  | nil => intro st N IN nsi h _; simp only [rEvs, annN, List.append_nil]; exact ⟨fun t' mm hm => (by simp at hm), h⟩
  | cons e es ih =>
    intro st N IN nsi h hd
    simp only [rEvs]
    cases e with
    | chunk t m =>
      simp only [rEv]
      obtain ⟨a1, a2⟩ := rOnChunk_named RNs st (t.getD []) m N IN h
      obtain ⟨i1, i2⟩ := ih (rOnChunk st (t.getD []) m).1 _ IN nsi a2 hd.2
      simp only [annN_append, annN, ← List.append_assoc]
      refine ⟨fun t' mm hm => ?_, i2⟩
      rcases List.mem_append.1 hm with hm | hm
      · exact ⟨t, m, by simp, fun y hy k hk => nameOK_monoIN _ _ _ _ _ _ (nameOK_mono _ _ _ _ _ _ (a1 t' mm hm y hy k hk))⟩
      · obtain ⟨t2, m2, b1, b2⟩ := i1 t' mm hm
        exact ⟨t2, m2, List.mem_cons_of_mem _ b1, b2⟩
    | source i s c =>
      simp only [rEv]
      obtain ⟨i1, i2⟩ := ih { st with contents := lmInsert none st.contents i c } N IN (nsi + 1) ⟨h.nm, h.len, h.nim, h.rest⟩ hd.2
      simp only [annN, List.cons_append, List.nil_append]
      refine ⟨fun t' mm hm => ?_, i2⟩
      simp only [List.mem_cons, reduceCtorEq, false_or] at hm
      obtain ⟨t2, m2, b1, b2⟩ := i1 t' mm hm
      exact ⟨t2, m2, List.mem_cons_of_mem _ b1, b2⟩
    | name i n =>
      obtain ⟨rfl, hd2⟩ := hd
      simp only [rEv]
      obtain ⟨n1, _, _, n4⟩ := globalName_spec N n 0
      have hnc := globalName_noChunkMem N.zipIdx n
      rw [h.nm]
      generalize globalName N.zipIdx n = g at n1 n4 hnc
      have hst : RN RNs { st with nameMapping := g.1, nim := lmInsert 0 st.nim IN.length g.2.2 } (N ++ annN g.2.1) (IN ++ [n]) := by
        refine ⟨n1, ?_, ?_, h.rest⟩
        · show (lmInsert 0 st.nim IN.length g.2.2).length = (IN ++ [n]).length
          rw [lmInsert_length, h.len]; simp
        · intro i' g' hg'
          have hle : IN.length ≤ st.nim.length := by rw [h.len]; exact Nat.le_refl _
          change (lmInsert 0 st.nim IN.length g.2.2)[i']? = some g' at hg'
          rw [lmInsert_get _ _ _ _ hle] at hg'
          split at hg'
          · rename_i hi
            simp only [Option.some.injEq] at hg'; subst hg'; subst hi
            rw [n4]; simp
          · rename_i hi
            have := rn_mono_nim RNs st N IN (annN g.2.1) h i' g' hg'
            rw [this]
            have hlt : i' < IN.length := by rw [← h.len]; exact (List.getElem?_eq_some_iff.1 hg').1
            rw [List.getElem?_append_left hlt]
      obtain ⟨i1, i2⟩ := ih _ _ _ nsi hst (by simpa using hd2)
      simp only [annN_append, annN, ← List.append_assoc]
      have e1 : IN ++ n :: annN es = IN ++ [n] ++ annN es := by simp
      rw [e1]
      refine ⟨fun t' mm hm => ?_, i2⟩
      rcases List.mem_append.1 hm with hm | hm
      · exact absurd hm (hnc t' mm)
      · obtain ⟨t2, m2, b1, b2⟩ := i1 t' mm hm
        exact ⟨t2, m2, List.mem_cons_of_mem _ b1, b2⟩

/-- **C06, ReplaceSource, names**: a chunk delivered with a name carries — through the names the ReplaceSource announces — the name the
inner stream announced for the inner chunk it was cut from / spliced into, or the name given with one of the replacements -/
theorem replaceStream_names (sorted : List Repl) (inner : SResult) (hd : DeclOK 0 0 inner.evs) :
    ∀ t' mm, Ev.chunk t' mm ∈ (replaceStream sorted inner).evs → ∀ y, mm.orig = some y → ∀ k, y.name = some k →
      (∃ t m a i, Ev.chunk t m ∈ inner.evs ∧ m.orig = some a ∧ a.name = some i
          ∧ (annN (replaceStream sorted inner).evs)[k]? = (annN inner.evs)[i]? ∧ i < (annN inner.evs).length)
      ∨ (∃ r ∈ sorted, ∃ nm, r.name = some nm ∧ (annN (replaceStream sorted inner).evs)[k]? = some nm) := by
  intro t' mm hmem y hy k hk
  simp only [replaceStream] at hmem ⊢
  have h0 : RN (sorted.filterMap (·.name)) ({ rest := sorted } : RSt) [] [] :=
    ⟨rfl, rfl, fun i g hg => (by simp at hg), fun r hr nm hnm => List.mem_filterMap.2 ⟨r, hr, hnm⟩⟩
  obtain ⟨a1, a2⟩ := rEvs_named (sorted.filterMap (·.name)) inner.evs { rest := sorted } [] [] 0 h0 hd
  simp only [List.nil_append] at a1 a2
  rcases List.mem_append.1 hmem with hmem | hmem
  · obtain ⟨t, m, b1, b2⟩ := a1 t' mm hmem
    have hrem := (rRemainder_unmapped inner.info.col (splitLines ((rEvs { rest := sorted } inner.evs).1.rest.map (·.content)).flatten)
      (rEvs { rest := sorted } inner.evs).1 ((inner.info.line : Int) + (rEvs { rest := sorted } inner.evs).1.lineOff))
    have hannR : annN (rRemainder inner.info.col (splitLines ((rEvs { rest := sorted } inner.evs).1.rest.map (·.content)).flatten)
      (rEvs { rest := sorted } inner.evs).1 ((inner.info.line : Int) + (rEvs { rest := sorted } inner.evs).1.lineOff)).2.1 = [] := by
      apply List.eq_nil_of_length_eq_zero
      rw [annN_length]
      exact (chunkOrigs_cnt _ _ (rRemainder_origs (fun _ => True) _ _ _ _)).2
    rw [annN_append, hannR, List.append_nil]
    rcases b2 y hy k hk with ⟨i, c1, c2, c3⟩ | ⟨nm, c1, c2⟩
    · cases hmo : m.orig with
      | none => rw [hmo] at c1; simp at c1
      | some a =>
        rw [hmo] at c1
        simp only [Option.bind_some] at c1
        exact Or.inl ⟨t, m, a, i, b1, hmo, c1, c2, c3⟩
    · obtain ⟨r, hr, hnm⟩ := List.mem_filterMap.1 c1
      exact Or.inr ⟨r, hr, nm, hnm, c2⟩
  · have := (rRemainder_unmapped _ _ _ _).1 t' mm hmem
    rw [this] at hy; cases hy


/-! ## the exact rule for replacement content -/

/-- **which name the first line of a replacement's content carries**: the replacement's own name when it has one (and the
spot it is spliced into is mapped) — resolved through the names announced so far plus what `rName` announces —, otherwise the
name of the inner segment it is spliced into, translated by the ReplaceSource's table -/
theorem rName_exact (RNs : List Text) (r : Repl) (st : RSt) (l : LSt) (N IN : List Text) (h : RN RNs st N IN) :
    (∀ nm x, r.name = some nm → l.orig = some x →
        (N ++ annN (rName r st l).2.1)[(rName r st l).2.2.getD 0]? = some nm ∧ ((rName r st l).2.2).isSome = true)
    ∧ ((r.name = none ∨ l.orig = none) → (rName r st l).2.2 = (l.orig.bind (·.name)).bind fun n => st.nim[n]?) := by
  constructor
  · intro nm x hnm hx
    unfold rName
    rw [hnm, hx]
    simp only []
    obtain ⟨_, _, _, n4⟩ := globalName_spec N nm 0
    rw [h.nm]
    exact ⟨by simpa using n4, rfl⟩
  · intro hno
    unfold rName
    rcases hno with hno | hno
    · rw [hno]
    · rw [hno]; cases r.name <;> rfl

/-- only the first line of a replacement's content carries a name: the following lines are delivered without one -/
theorem emitContent_names (gc : Nat) (orig : Option Orig) : ∀ (cls : List Text) (nameIdx : Option Nat) (st : RSt) (line : Int),
    (chunkMs (emitContent gc orig cls nameIdx st line).2.1).map (fun m => m.orig.bind (·.name))
      = match cls with
        | [] => []
        | _ :: rest => (orig.bind fun _ => nameIdx) :: rest.map fun _ => none := by
  intro cls
  induction cls with
  | nil => intro _ _ _; rfl
  | cons cl cls ih =>
    intro nameIdx st line
    simp only [emitContent, chunkMs, List.map_cons]
    rw [ih none]
    cases cls with
    | nil => cases orig <;> rfl
    | cons c2 cs => cases orig <;> simp

end Rs
