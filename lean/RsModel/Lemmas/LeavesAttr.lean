import RsModel.Lemmas.NameLevel
import RsModel.Lemmas.WellDeclDecl
/-!
# C13 through `map()`: the attribution of a ConcatSource tree depends only on its sequence of leaves

`leaves s` flattens every nesting of ConcatSource.  For trees whose leaves are well declared (`Src.WD`), the resolved per-byte
attribution of the chunk stream — and hence, by C03, of `map()` — is the concatenation of what the leaves attribute on their own.
-/
namespace Rs

mutual
def Src.leaves : Src → List Src
  | .concat cs => cs.leavesL
  | s => [s]
def SrcList.leavesL : SrcList → List Src
  | .nil => []
  | .cons s r => s.leaves ++ r.leavesL
end

mutual
theorem Src.wd_nc (cons : Text → Option Text) : ∀ (s : Src), Src.WD cons true s → s.NoCached
  | .raw .., _ | .rawStr .., _ | .rawBuf .., _ | .orig .., _ | .sms .., _ => trivial
  | .concat cs, h => by simp only [Src.WD] at h; exact SrcList.wd_ncL cons cs h
  | .replace inner rs, h => by simp only [Src.WD] at h; exact h.1
  | .cached .., h => by simp [Src.WD] at h
theorem SrcList.wd_ncL (cons : Text → Option Text) : ∀ (l : SrcList), SrcList.WD cons true l → l.NoCachedL
  | .nil, _ => trivial
  | .cons s r, h => by simp only [SrcList.WD] at h; exact ⟨Src.wd_nc cons s h.1, SrcList.wd_ncL cons r h.2⟩
end

mutual
/-- the stream of a ConcatSource tree attributes every byte as its leaves do, one after the other -/
theorem Src.attr_leaves (cons : Text → Option Text) : ∀ (s : Src), Src.WD cons true s → ∀ σ,
    s.attr true σ = (s.leaves.map fun l => l.attr true σ).flatten
  | .raw .., _, σ | .rawStr .., _, σ | .rawBuf .., _, σ | .orig .., _, σ | .sms .., _, σ | .replace .., _, σ => by simp [Src.leaves]
  | .concat cs, h, σ => by
    simp only [Src.WD] at h
    rw [Src.attr_concat cons true cs h σ]
    simp only [Src.leaves]
    exact SrcList.attr_leavesL cons cs h σ
  | .cached .., h, _ => by simp [Src.WD] at h
theorem SrcList.attr_leavesL (cons : Text → Option Text) : ∀ (l : SrcList), SrcList.WD cons true l → ∀ σ,
    ((l.streams ⟨true, false⟩ σ).1.map fun r => attrN emptyS emptyN r.evs).flatten = (l.leavesL.map fun x => x.attr true σ).flatten
  | .nil, _, σ => by simp [SrcList.streams, SrcList.leavesL]
  | .cons s r, h, σ => by
    simp only [SrcList.WD] at h
    simp only [SrcList.streams, SrcList.leavesL, List.map_cons, List.flatten_cons, List.map_append, List.flatten_append]
    rw [(Src.stream_nc s ⟨true, false⟩ σ (Src.wd_nc cons s h.1)).1, SrcList.attr_leavesL cons r h.2 σ]
    have := Src.attr_leaves cons s h.1 σ
    unfold Src.attr at this
    rw [this]
    rfl
end

/-- **two ConcatSource trees with the same sequence of leaves attribute alike** — whatever the grouping (typed or boxed nesting,
single-child wrappers), in the chunk stream … -/
theorem attr_same_leaves (cons : Text → Option Text) (a b : Src) (ha : Src.WD cons true a) (hb : Src.WD cons true b) (h : a.leaves = b.leaves) (σ : Store) :
    a.attr true σ = b.attr true σ := by
  rw [Src.attr_leaves cons a ha σ, Src.attr_leaves cons b hb σ, h]

/-- … and through `map()`: resolving every position through the two maps and their own tables gives the same file name, line,
column and name -/
theorem map_same_leaves (cons : Text → Option Text) (a b : Src) (ha : Src.WD cons true a) (hb : Src.WD cons true b) (h : a.leaves = b.leaves)
    (hma : a.ModeHypC) (hmb : b.ModeHypC) (hsrc : a.src = b.src) (final : Bool)
    (hsa : ∀ m ∈ chunkMs (a.stream ⟨true, true⟩ []).1.evs, m.small) (hsb : ∀ m ∈ chunkMs (b.stream ⟨true, true⟩ []).1.evs, m.small)
    (sma smb : SMap) (h1 : (getMap a ⟨true, final⟩ []).1 = some sma) (h2 : (getMap b ⟨true, final⟩ []).1 = some smb) :
    (attrFrom (decode sma.mappings) startPos a.src).map (Option.map (resolveMF sma))
      = (attrFrom (decode smb.mappings) startPos a.src).map (Option.map (resolveMF smb)) := by
  have hna := Src.nc_nodes a (Src.wd_nc cons a ha)
  have hnb := Src.nc_nodes b (Src.wd_nc cons b hb)
  have hida : a.ids = [] := by simp [Src.ids, hna]
  have hidb : b.ids = [] := by simp [Src.ids, hnb]
  have e1 := getMap_names a hma (by rw [hida]; exact List.nodup_nil) [] [] (by rw [hida]; intro i hi; simp at hi) (by rw [hida]; intro i hi; simp at hi) final hsa sma h1
  have e2 := getMap_names b hmb (by rw [hidb]; exact List.nodup_nil) [] [] (by rw [hidb]; intro i hi; simp at hi) (by rw [hidb]; intro i hi; simp at hi) final hsb smb h2
  rw [e1, hsrc, e2]
  have := attr_same_leaves cons a b ha hb h []
  unfold Src.attr at this
  rw [this]

/-- **a ReplaceSource over a well-declared cache-free tree is well declared** (so it may stand as a leaf in the ConcatSource law of
C06 and in the regrouping theorem of C13): it passes the announcements of its inner stream through and keeps them dense -/
theorem Src.wd_replace (cons : Text → Option Text) (inner : Src) (rs : List Repl) (hw : Src.WD cons true inner) (hi : inner.IdxHyp) :
    Src.WD cons true (.replace inner rs) := by
  have hnc := Src.wd_nc cons inner hw
  refine ⟨hnc, fun σ => ?_⟩
  simp only [Src.stream]
  have hnodes := Src.nc_nodes inner hnc
  have hnd : inner.ids.Nodup := by simp [Src.ids, hnodes]
  have hsi : StoreIdx σ inner.cachedNodes := fun p hp => by rw [hnodes] at hp; simp at hp
  exact replaceStream_wellDecl cons _ _ (Src.stream_wd cons true inner hw σ) (Src.stream_declOK inner _ σ hi hnd hsi)

end Rs
