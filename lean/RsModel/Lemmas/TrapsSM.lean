import RsModel.Model.Checked
import RsModel.Lemmas.TreeText
/-!
# No trap site of the map-driven splitters, the raw stream and `ReplaceSource::source` can fire

Each theorem says: on the stated domain the *checked* function of `Model/Checked.lean` (which is `none` where the Rust would panic)
returns `some` of exactly what the total model function returns.
-/
namespace Rs
namespace Chk

/-! ## arithmetic helpers -/

theorem sub_one (a : Nat) (h : 1 ≤ a) : sub a 1 = some (a - 1) := by simp [sub, h]
theorem add32_one (a : Nat) (h : a + 1 < 2 ^ 32) : add32 a 1 = some (a + 1) := by simp [add32, h]
theorem idx_getD {α : Type} (l : List α) (i : Nat) (d : α) (h : i < l.length) : idx l i = some (l.getD i d) := by
  simp [idx, List.getD, List.getElem?_eq_getElem h]

/-! ## `ReplaceSource::source` -/

/-- a replacement position the documented domain allows: on a char boundary of the inner text, or beyond its end -/
def PosOKB (t : Text) (p : Nat) : Prop := isBoundary t p = true ∨ t.length ≤ p

theorem isBoundary_length (c : Text) : isBoundary c c.length = true := by
  unfold isBoundary
  split
  · rfl
  · simp

theorem isBoundary_clamp (t : Text) (p : Nat) (h : PosOKB t p) : isBoundary t (min p t.length) = true := by
  rcases h with h | h
  · by_cases hp : p ≤ t.length
    · rw [Nat.min_eq_left hp]; exact h
    · rw [Nat.min_eq_right (by omega)]; exact isBoundary_length t
  · rw [Nat.min_eq_right h]; exact isBoundary_length t

theorem bget_some (c : Text) (a b : Nat) (h1 : a ≤ b) (h2 : b ≤ c.length) (ha : isBoundary c a = true) (hb : isBoundary c b = true) :
    bget c a b = some (bsub c a b) := by
  unfold bget; simp [h1, h2, ha, hb]

theorem take_clamp {α : Type} (l : List α) (n : Nat) : l.take n = l.take (min n l.length) := by
  by_cases h : n ≤ l.length
  · rw [Nat.min_eq_left h]
  · rw [Nat.min_eq_right (by omega), List.take_length, List.take_of_length_le (by omega)]

theorem drop_clamp {α : Type} (l : List α) (n : Nat) : l.drop n = l.drop (min n l.length) := by
  by_cases h : n ≤ l.length
  · rw [Nat.min_eq_left h]
  · rw [Nat.min_eq_right (by omega), List.drop_length, List.drop_of_length_le (by omega)]

theorem spliceC_eq (inner : Text) (hlen : inner.length < 2 ^ 32) :
    ∀ (rs : List Repl) (pos : Nat), pos ≤ inner.length → isBoundary inner pos = true →
      (∀ r ∈ rs, PosOKB inner r.start ∧ PosOKB inner r.stop) →
      spliceC inner pos rs = some (specGo pos (inner.drop pos) rs) := by
  intro rs
  induction rs with
  | nil =>
    intro pos hp hb _
    simp only [spliceC, specGo]
    rw [bget_some inner pos inner.length hp (Nat.le_refl _) hb (isBoundary_length inner)]
    unfold bsub
    rw [List.take_of_length_le (by simp)]
  | cons r rs ih =>
    intro pos hp hb hall
    obtain ⟨hs, he⟩ := hall r (by simp)
    simp only [spliceC, specGo]
    have hmod : inner.length % 2 ^ 32 = inner.length := Nat.mod_eq_of_lt hlen
    rw [hmod]
    -- the piece before the replacement
    have hpiece : (if pos < r.start then bget inner pos (min r.start inner.length) else some [])
        = some ((inner.drop pos).take (r.start - pos)) := by
      by_cases hlt : pos < r.start
      · simp only [hlt, if_true]
        rw [bget_some inner pos _ (by omega) (Nat.min_le_right _ _) hb (isBoundary_clamp inner r.start hs)]
        unfold bsub
        rw [take_clamp (inner.drop pos) (r.start - pos)]
        congr 2
        simp only [List.length_drop]; omega
      · simp only [hlt, if_false]
        have : r.start - pos = 0 := by omega
        rw [this]; rfl
    rw [hpiece]
    -- the next position
    have hnb : isBoundary inner (min (max pos r.stop) inner.length) = true := by
      by_cases hle : r.stop ≤ pos
      · rw [Nat.max_eq_left hle, Nat.min_eq_left hp]; exact hb
      · rw [Nat.max_eq_right (by omega)]; exact isBoundary_clamp inner r.stop he
    rw [ih (min (max pos r.stop) inner.length) (Nat.min_le_right _ _) hnb (fun r' hr' => hall r' (List.mem_cons_of_mem _ hr'))]
    have e1 : pos + min (max pos r.stop - pos) (inner.drop pos).length = min (max pos r.stop) inner.length := by
      simp only [List.length_drop]; omega
    have e2 : (inner.drop pos).drop (max pos r.stop - pos) = inner.drop (min (max pos r.stop) inner.length) := by
      rw [List.drop_drop, ← drop_clamp]
      congr 1; omega
    rw [e1, e2]

/-- **`ReplaceSource::source()` cannot panic** when every replacement position is on a char boundary of the inner text or beyond
its end (inner text below 4 GiB): the checked splice — every `&inner[a..b]` evaluated with `str::get` — returns exactly the text the
total model computes.  No hypothesis `start ≤ end`, none on order or overlap. -/
theorem replaceSourceC_eq (inner : Text) (hlen : inner.length < 2 ^ 32) (rs : List Repl)
    (h : ∀ r ∈ rs, PosOKB inner r.start ∧ PosOKB inner r.stop) :
    replaceSourceC inner rs = some (replaceSource inner rs) := by
  unfold replaceSourceC replaceSource
  by_cases he : rs.isEmpty = true
  · simp [he]
  · simp only [he, if_false, Bool.false_eq_true]
    have := spliceC_eq inner hlen (sortRepls rs) 0 (Nat.zero_le _) (by simp [isBoundary])
      (fun r hr => h r ((mem_sortRepls rs r).1 hr))
    simpa using this

/-! ## the `while mapping.generated_line > current_generated_line` loop -/

theorem smWholeLines_nil (lines : List Text) (a b : Nat) (h : b ≤ a) : smWholeLines lines a b = [] := by
  unfold smWholeLines
  have : b - a = 0 := by omega
  rw [this]; rfl

theorem smWholeLines_step (lines : List Text) (a b : Nat) (h : a < b) :
    smWholeLines lines a b = (if a ≤ lines.length then [Ev.chunk (some (lines.getD (a - 1) [])) ⟨a, 0, none⟩] else []) ++ smWholeLines lines (a + 1) b := by
  unfold smWholeLines
  have : b - a = (b - (a + 1)) + 1 := by omega
  rw [this, List.range_succ_eq_map]
  simp only [List.map_cons, List.flatten_cons, List.map_map, Nat.add_zero]
  congr 2
  apply List.map_congr_left
  intro k _
  simp only [Function.comp]
  have : a + (k + 1) = a + 1 + k := by omega
  rw [this]

theorem smWholeC_eq (lines : List Text) (to_ : Nat) (hto : to_ < 2 ^ 32) :
    ∀ (fuel cur : Nat), 1 ≤ cur → to_ - cur ≤ fuel →
      smWholeC lines to_ fuel cur = some (max cur to_, smWholeLines lines cur to_) := by
  intro fuel
  induction fuel with
  | zero =>
    intro cur _ hf
    simp only [smWholeC]
    rw [smWholeLines_nil lines cur to_ (by omega), Nat.max_eq_left (by omega)]
  | succ n ih =>
    intro cur h1 hf
    simp only [smWholeC]
    by_cases hgt : to_ > cur
    · simp only [hgt, if_true]
      rw [sub_one cur h1, add32_one cur (by omega)]
      simp only []
      rw [ih (cur + 1) (by omega) (by omega), smWholeLines_step lines cur to_ hgt]
      have hmax : max (cur + 1) to_ = max cur to_ := by omega
      by_cases hle : cur ≤ lines.length
      · simp only [hle, if_true]
        rw [idx_getD lines (cur - 1) [] (by omega), hmax]
      · simp only [hle, if_false, hmax]
    · simp only [hgt, if_false]
      rw [smWholeLines_nil lines cur to_ (by omega), Nat.max_eq_left (by omega)]

/-! ## columns = true, normal mode -/

/-- what the `u32` variables of the closure satisfy between two calls -/
structure _root_.Rs.FullSt.Ok (s : FullSt) : Prop where
  pos : 1 ≤ s.line
  line32 : s.line < 2 ^ 32

theorem smStep1C_eq (lines : List Text) (s : FullSt) (m : Mapping) (hs : s.Ok) (hm : m.gl < 2 ^ 32)
    (hfw : ¬ (m.gl < s.line)) :
    smStep1C lines s m = some (smStep1 lines s m) ∧ (smStep1 lines s m).1.Ok ∧ ¬ (m.gl < (smStep1 lines s m).1.line) := by
  unfold smStep1C smStep1
  by_cases hc : (s.active && decide (s.line ≤ lines.length)) = true
  · simp only [hc, if_true]
    have hle : s.line ≤ lines.length := by simp at hc; exact hc.2
    rw [sub_one s.line hs.pos]
    simp only []
    rw [idx_getD lines (s.line - 1) [] (by have := hs.pos; omega)]
    simp only []
    by_cases hne : (m.gl != s.line) = true
    · simp only [hne, if_true]
      have hne' : m.gl ≠ s.line := by simpa using hne
      rw [add32_one s.line (by omega)]
      exact ⟨(by first | rfl | trivial), ⟨by simp, by simp; omega⟩, by simp; omega⟩
    · simp only [hne, if_false, Bool.false_eq_true]
      exact ⟨(by first | rfl | trivial), ⟨hs.pos, hs.line32⟩, hfw⟩
  · simp only [hc, if_false, Bool.false_eq_true]
    exact ⟨(by first | rfl | trivial), hs, hfw⟩

theorem smStep2C_eq (lines : List Text) (s : FullSt) (m : Mapping) (hs : s.Ok) (hm : m.gl < 2 ^ 32) :
    smStep2C lines s m = some (smStep2 lines s m) ∧ (smStep2 lines s m).1.Ok := by
  unfold smStep2C smStep2
  by_cases hc : (decide (m.gl > s.line) && decide (s.col > 0)) = true
  · simp only [hc, if_true]
    have hgt : m.gl > s.line := by simp at hc; exact hc.1
    rw [sub_one s.line hs.pos, add32_one s.line (by omega)]
    simp only []
    by_cases hle : s.line ≤ lines.length
    · simp only [hle, if_true]
      rw [idx_getD lines (s.line - 1) [] (by have := hs.pos; omega)]
      exact ⟨(by first | rfl | trivial), ⟨by simp, by simp; omega⟩⟩
    · simp only [hle, if_false]
      exact ⟨(by first | rfl | trivial), ⟨by simp, by simp; omega⟩⟩
  · simp only [hc, if_false, Bool.false_eq_true]
    exact ⟨(by first | rfl | trivial), hs⟩

theorem smStep4C_eq (lines : List Text) (s : FullSt) (m : Mapping) (hs : s.Ok) :
    smStep4C lines s m = some (smStep4 lines s m) ∧ (smStep4 lines s m).1.Ok := by
  unfold smStep4C smStep4
  by_cases hc : m.gc > s.col
  · simp only [hc, if_true]
    rw [sub_one s.line hs.pos]
    simp only []
    by_cases hle : s.line ≤ lines.length
    · simp only [hle, if_true]
      rw [idx_getD lines (s.line - 1) [] (by have := hs.pos; omega)]
      exact ⟨(by first | rfl | trivial), ⟨hs.pos, hs.line32⟩⟩
    · simp only [hle, if_false]
      exact ⟨(by first | rfl | trivial), ⟨hs.pos, hs.line32⟩⟩
  · simp only [hc, if_false, Bool.false_eq_true]
    exact ⟨(by first | rfl | trivial), hs⟩

theorem smStep5_ok (fl fc : Nat) (s : FullSt) (m : Mapping) (hs : s.Ok) : (smStep5 fl fc s m).Ok := by
  unfold smStep5
  split
  · split
    · exact ⟨hs.pos, hs.line32⟩
    · exact hs
  · exact hs

theorem smFullStepC_eq (lines : List Text) (fl fc : Nat) (s : FullSt) (m : Mapping) (hs : s.Ok) (hm : m.gl < 2 ^ 32) :
    smFullStepC lines fl fc s m = some (smFullStep lines fl fc s m) ∧ (smFullStep lines fl fc s m).1.Ok := by
  unfold smFullStepC smFullStep
  by_cases hb : (decide (m.gl < s.line) || (m.gl == s.line && decide (m.gc < s.col))) = true
  · simp only [hb, if_true]; exact ⟨(by first | rfl | trivial), hs⟩
  · simp only [hb, if_false, Bool.false_eq_true]
    have hfw : ¬ (m.gl < s.line) := by
      intro h; apply hb; simp [h]
    obtain ⟨e1, o1, f1⟩ := smStep1C_eq lines s m hs hm hfw
    obtain ⟨e2, o2⟩ := smStep2C_eq lines (smStep1 lines s m).1 m o1 hm
    rw [e1]; simp only []
    rw [e2]; simp only []
    rw [smWholeC_eq lines m.gl hm _ _ o2.pos (Nat.le_refl _)]
    simp only []
    have o3 : ({ (smStep2 lines (smStep1 lines s m).1 m).1 with line := max (smStep2 lines (smStep1 lines s m).1 m).1.line m.gl } : FullSt).Ok :=
      ⟨by have := o2.pos; simp only []; omega, by have := o2.line32; simp only []; omega⟩
    obtain ⟨e4, o4⟩ := smStep4C_eq lines _ m o3
    rw [e4]
    exact ⟨(by first | rfl | trivial), smStep5_ok fl fc _ m o4⟩

theorem smFullGoC_eq (lines : List Text) (fl fc : Nat) : ∀ (ms : List Mapping) (s : FullSt), s.Ok → (∀ m ∈ ms, m.gl < 2 ^ 32) →
    smFullGoC lines fl fc s ms = some (smFullGo lines fl fc s ms) := by
  intro ms
  induction ms with
  | nil => intro s _ _; rfl
  | cons m ms ih =>
    intro s hs hm
    obtain ⟨e, o⟩ := smFullStepC_eq lines fl fc s m hs (hm m (by simp))
    simp only [smFullGoC, smFullGo]
    rw [e]; simp only []
    rw [ih _ o (fun m' h' => hm m' (List.mem_cons_of_mem _ h'))]

theorem getLast?_eq_getD {α : Type} (l : List α) (d : α) (h : l ≠ []) : l[l.length - 1]? = some (l.getLast?.getD d) := by
  rw [List.getLast?_eq_getElem?]
  have : l.length - 1 < l.length := by have := List.length_pos_iff.2 h; omega
  rw [List.getElem?_eq_getElem this]; rfl

/-- **`stream_chunks_of_source_map_full` cannot panic**, whatever the map: for every text below 4 GiB and every list of decoded
segments (any order, any columns, any source / name indices, lines anywhere in `u32`) each checked site — the three
`line_with_indices_list[current_generated_line - 1]`, the `u32` increments, the `len() - 1` — succeeds, and the result is the
total model's. -/
theorem streamSMFullC_eq (t : Text) (sm : SMap) (hlen : (splitLines t).length + 1 < 2 ^ 32)
    (hll : ∀ l ∈ splitLines t, l.length < 2 ^ 32) (hm : ∀ m ∈ decode sm.mappings, m.gl < 2 ^ 32) :
    streamSMFullC t sm = some (streamSMFull t sm) := by
  unfold streamSMFullC streamSMFull
  simp only []
  by_cases he : (splitLines t).isEmpty = true
  · simp only [he, if_true]
  · simp only [he, if_false, Bool.false_eq_true]
    have hne : splitLines t ≠ [] := by intro h; rw [h] at he; simp at he
    have hpos := List.length_pos_iff.2 hne
    rw [sub_one _ hpos]
    simp only []
    have hidx : idx (splitLines t) ((splitLines t).length - 1) = some ((splitLines t).getLast?.getD []) := getLast?_eq_getD _ _ hne
    rw [hidx]
    simp only []
    have hlast : ((splitLines t).getLast?.getD []).length < 2 ^ 32 := by
      obtain ⟨x, hx⟩ := Option.isSome_iff_exists.1 (by rw [List.getLast?_isSome]; exact hne : (splitLines t).getLast?.isSome = true)
      rw [hx]; exact hll x (List.mem_of_getLast? hx)
    have hfl : (if endsWithNL ((splitLines t).getLast?.getD []) = true then (splitLines t).length + 1 else (splitLines t).length) % 2 ^ 32
        = (if endsWithNL ((splitLines t).getLast?.getD []) = true then (splitLines t).length + 1 else (splitLines t).length) := by
      apply Nat.mod_eq_of_lt; split <;> omega
    have hfc : (if endsWithNL ((splitLines t).getLast?.getD []) = true then 0 else ((splitLines t).getLast?.getD []).length) % 2 ^ 32
        = (if endsWithNL ((splitLines t).getLast?.getD []) = true then 0 else ((splitLines t).getLast?.getD []).length) := by
      apply Nat.mod_eq_of_lt; split <;> omega
    rw [hfl, hfc]
    rw [smFullGoC_eq (splitLines t) _ _ _ {} ⟨by decide, by decide⟩ (by
      intro m hmem
      rcases List.mem_append.1 hmem with h | h
      · exact hm m h
      · simp only [List.mem_singleton] at h; rw [h]; simp only []; split <;> omega)]

/-! ## columns = false, normal mode -/

theorem smLinesFullGoC_eq (lines : List Text) (hlen : lines.length + 1 < 2 ^ 32) : ∀ (ms : List Mapping) (cur : Nat), 1 ≤ cur →
    smLinesFullGoC lines cur ms = some (smLinesFullGo lines cur ms) ∧ 1 ≤ (smLinesFullGo lines cur ms).2 := by
  intro ms
  induction ms with
  | nil => intro cur h; exact ⟨rfl, h⟩
  | cons m ms ih =>
    intro cur h1
    simp only [smLinesFullGoC, smLinesFullGo]
    cases ho : m.orig with
    | none => simp only []; exact ih cur h1
    | some o =>
      simp only []
      by_cases hc : (decide (m.gl < cur) || decide (m.gl > lines.length)) = true
      · simp only [hc, if_true]; exact ih cur h1
      · simp only [hc, if_false, Bool.false_eq_true]
        have h2 : ¬ m.gl < cur ∧ ¬ m.gl > lines.length := by
          constructor <;> (intro h; apply hc; simp [h])
        rw [smWholeC_eq lines m.gl (by omega) _ cur h1 (Nat.le_refl _)]
        simp only []
        rw [sub_one _ (by omega)]
        simp only []
        rw [idx_getD lines (max cur m.gl - 1) [] (by omega)]
        simp only []
        rw [add32_one _ (by omega)]
        simp only []
        obtain ⟨e, o1⟩ := ih (max cur m.gl + 1) (by omega)
        rw [e]
        exact ⟨rfl, o1⟩

theorem lineLoopInfo_eq (lines : List Text) (hne : lines ≠ []) (hlen : lines.length + 1 < 2 ^ 32) (hll : ∀ l ∈ lines, l.length < 2 ^ 32) :
    lineLoopInfo lines = ⟨(if endsWithNL (lines.getLast?.getD []) = true then lines.length + 1 else lines.length) % 2 ^ 32,
      (if endsWithNL (lines.getLast?.getD []) = true then 0 else (lines.getLast?.getD []).length) % 2 ^ 32⟩ := by
  obtain ⟨x, hx⟩ := Option.isSome_iff_exists.1 (by rw [List.getLast?_isSome]; exact hne : lines.getLast?.isSome = true)
  have hxl := hll x (List.mem_of_getLast? hx)
  unfold lineLoopInfo
  rw [hx]
  simp only [Option.getD_some]
  by_cases he : endsWithNL x = true
  · simp only [he, if_true]
    rw [Nat.mod_eq_of_lt hlen]
  · simp only [he, if_false, Bool.false_eq_true]
    rw [Nat.mod_eq_of_lt (by omega), Nat.mod_eq_of_lt hxl]

/-- **`stream_chunks_of_source_map_lines_full` cannot panic**, whatever the map -/
theorem streamSMLinesFullC_eq (t : Text) (sm : SMap) (hlen : (splitLines t).length + 1 < 2 ^ 32)
    (hll : ∀ l ∈ splitLines t, l.length < 2 ^ 32) :
    streamSMLinesFullC t sm = some (streamSMLinesFull t sm) := by
  unfold streamSMLinesFullC streamSMLinesFull
  simp only []
  by_cases he : (splitLines t).isEmpty = true
  · simp only [he, if_true]
  · simp only [he, if_false, Bool.false_eq_true]
    have hne : splitLines t ≠ [] := by intro h; rw [h] at he; simp at he
    have hpos := List.length_pos_iff.2 hne
    obtain ⟨e, o1⟩ := smLinesFullGoC_eq (splitLines t) hlen (decode sm.mappings) 1 (Nat.le_refl _)
    rw [e]
    simp only []
    rw [smWholeC_eq (splitLines t) _ hlen _ _ o1 (Nat.le_refl _)]
    simp only []
    rw [sub_one _ hpos]
    simp only []
    have hidx : idx (splitLines t) ((splitLines t).length - 1) = some ((splitLines t).getLast?.getD []) := getLast?_eq_getD _ _ hne
    rw [hidx]
    simp only []
    rw [lineLoopInfo_eq (splitLines t) hne hlen hll]

/-! ## columns = false, text-less mode -/

theorem smLinesFinalGoC_eq (fl : Nat) (hfl : fl + 1 < 2 ^ 32) : ∀ (ms : List Mapping) (cur : Nat),
    smLinesFinalGoC fl cur ms = some (smLinesFinalGo fl cur ms) := by
  intro ms
  induction ms with
  | nil => intro cur; rfl
  | cons m ms ih =>
    intro cur
    simp only [smLinesFinalGoC, smLinesFinalGo]
    cases ho : m.orig with
    | none => simp only []; exact ih cur
    | some o =>
      simp only []
      by_cases hc : (decide (cur ≤ m.gl) && decide (m.gl ≤ fl)) = true
      · simp only [hc, if_true]
        have : m.gl ≤ fl := by simp at hc; exact hc.2
        rw [add32_one _ (by omega)]
        simp only []
        rw [ih]
      · simp only [hc, if_false, Bool.false_eq_true]; exact ih cur

theorem genInfo_line_pos (t : Text) : 1 ≤ (genInfo t).line := by
  unfold genInfo
  simp only []
  split
  · simp
  · simp only []; omega

theorem genInfo_line_le (t : Text) : (genInfo t).line ≤ (splitLines t).length + 1 := by
  unfold genInfo
  simp only []
  split
  · simp
  · simp only []; omega

/-- **`stream_chunks_of_source_map_lines_final` cannot panic**, whatever the map (the `result.generated_line - 1` and the
`mapping.generated_line + 1`) -/
theorem streamSMLinesFinalC_eq (t : Text) (sm : SMap) (hlen : (splitLines t).length + 2 < 2 ^ 32) :
    streamSMLinesFinalC t sm = some (streamSMLinesFinal t sm) := by
  unfold streamSMLinesFinalC streamSMLinesFinal
  simp only []
  by_cases he : ((genInfo t).line == 1 && (genInfo t).col == 0) = true
  · simp only [he, if_true]
  · simp only [he, if_false, Bool.false_eq_true]
    have h1 := genInfo_line_pos t
    have h2 := genInfo_line_le t
    by_cases hc : ((genInfo t).col == 0) = true
    · simp only [hc, if_true]
      rw [sub_one _ h1]
      simp only []
      rw [smLinesFinalGoC_eq _ (by omega)]
    · simp only [hc, if_false, Bool.false_eq_true]
      rw [smLinesFinalGoC_eq _ (by omega)]

/-! ## raw text -/

theorem rawChunksC_eq : ∀ (ts : List Text) (l : Nat), l + ts.length < 2 ^ 32 → rawChunksC l ts = some (rawChunks l ts, l + ts.length) := by
  intro ts
  induction ts with
  | nil => intro l _; rfl
  | cons t ts ih =>
    intro l h
    simp only [rawChunksC, rawChunks, List.length_cons] at h ⊢
    rw [add32_one l (by omega)]
    simp only []
    rw [ih (l + 1) (by omega)]
    simp only [Option.some.injEq, Prod.mk.injEq, true_and]
    omega

/-- **`stream_chunks_of_raw_source` cannot panic** (`line += 1`, `line - 1`) -/
theorem streamRawC_eq (t : Text) (o : Opts) (hlen : (splitLines t).length + 1 < 2 ^ 32) (hll : ∀ l ∈ splitLines t, l.length < 2 ^ 32) :
    streamRawC t o = some (streamRaw t o) := by
  unfold streamRawC streamRaw
  by_cases hf : o.final = true
  · simp only [hf, if_true]
  · simp only [hf, if_false, Bool.false_eq_true]
    rw [rawChunksC_eq (splitLines t) 1 (by omega)]
    simp only []
    unfold lineLoopInfo
    cases hl : (splitLines t).getLast? with
    | none =>
      simp only []
      have : splitLines t = [] := List.getLast?_eq_none_iff.1 hl
      rw [this]; rfl
    | some last =>
      simp only []
      have hxl := hll last (List.mem_of_getLast? hl)
      by_cases he : endsWithNL last = true
      · simp only [he, Bool.not_true, Bool.false_eq_true, if_false, if_true]
        rw [Nat.add_comm]
      · simp only [he, Bool.not_false, if_true, if_false, Bool.false_eq_true]
        have hpos : 1 ≤ 1 + (splitLines t).length := by omega
        rw [sub_one _ hpos, Nat.mod_eq_of_lt hxl]
        simp only [Nat.add_sub_cancel_left]

/-- **the four map-driven splitters cannot panic**: every text below 4 GiB, every map — unsorted, segments outside the text,
source and name indices outside the tables — both column settings, both modes -/
theorem streamSMC_eq (t : Text) (sm : SMap) (o : Opts) (hlen : (splitLines t).length + 2 < 2 ^ 32)
    (hll : ∀ l ∈ splitLines t, l.length < 2 ^ 32) (hm : ∀ m ∈ decode sm.mappings, m.gl < 2 ^ 32) :
    streamSMC t sm o = some (streamSM t sm o) := by
  unfold streamSMC streamSM
  rcases o with ⟨c, f⟩
  cases c <;> cases f <;> simp only []
  · exact streamSMLinesFullC_eq t sm (by omega) hll
  · exact streamSMLinesFinalC_eq t sm hlen
  · exact streamSMFullC_eq t sm (by omega) hll hm

end Chk
end Rs
