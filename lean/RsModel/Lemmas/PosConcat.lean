import RsModel.Lemmas.Pos
import RsModel.Lemmas.TextComposite
import RsModel.Lemmas.HasText
/-! # C02 for ConcatSource: shifting child positions by the position where the child starts -/
namespace Rs

def nlCount : Text → Nat
  | [] => 0
  | c :: cs => (if c = NL then 1 else 0) + nlCount cs

/-- number of bytes after the last line break (the whole length when there is none) -/
def lastLen : Text → Nat
  | [] => 0
  | c :: cs => if nlCount cs = 0 then (if c = NL then cs.length else cs.length + 1) else lastLen cs

theorem adv_char : ∀ (t : Text) (p : Pos), adv p t = ⟨p.line + nlCount t, if nlCount t = 0 then p.col + t.length else lastLen t⟩ := by
  intro t
  induction t with
  | nil => intro p; simp [adv, nlCount]
  | cons c cs ih =>
    intro p
    by_cases hc : c = NL
    · simp only [adv, hc, if_true, ih, nlCount, lastLen]
      by_cases h0 : nlCount cs = 0
      · simp [h0]
      · simp [h0]; omega
    · simp only [adv, hc, if_false, ih, nlCount, lastLen, Nat.zero_add]
      by_cases h0 : nlCount cs = 0
      · simp [h0]; omega
      · simp [h0]

/-- writing `t` from `p` lands where writing it from the origin lands, shifted by `p` -/
theorem adv_shift (t : Text) (p : Pos) :
    adv p t = ⟨(adv startPos t).line + p.line - 1, if (adv startPos t).line = 1 then (adv startPos t).col + p.col else (adv startPos t).col⟩ := by
  rw [adv_char t p, adv_char t startPos]
  simp only [startPos, Pos.mk.injEq]
  constructor
  · omega
  · by_cases h0 : nlCount t = 0
    · simp [h0]; omega
    · have : ¬ (1 + nlCount t = 1) := by omega
      simp [h0, this]

/-- the state of the concat walker agrees with the position `P` where the current child starts -/
def CRel (st : CSt) (P : Pos) : Prop := st.lineOff + 1 = P.line ∧ st.colOff = P.col ∧ st.needClose = false

theorem concatEv_pos (st : CSt) (P : Pos) (hr : CRel st P) (gpre cpre : Text) (hP : adv startPos gpre = P) (e : Ev)
    (hpos : posOKT cpre [e]) :
    posOKT (gpre ++ cpre) (concatEv false st e).2 ∧ CRel (concatEv false st e).1 P := by
  obtain ⟨r1, r2, r3⟩ := hr
  cases e with
  | chunk text m =>
    simp only [concatEv, r3, Bool.false_and, Bool.false_eq_true, if_false, List.nil_append]
    refine ⟨?_, ⟨r1, r2, rfl⟩⟩
    cases text with
    | none => split <;> trivial
    | some t =>
      simp only [posOKT, and_true] at hpos
      have hg : adv startPos (gpre ++ cpre) = ⟨m.gl + st.lineOff, if (m.gl == 1) = true then m.gc + st.colOff else m.gc⟩ := by
        rw [adv_append, hP, adv_shift cpre P, ← hpos]
        simp only [Pos.mk.injEq]
        constructor
        · omega
        · by_cases h1 : m.gl = 1 <;> simp [h1, r2]
      split <;> exact ⟨hg.symm, trivial⟩
  | source i s c =>
    simp only [concatEv]
    refine ⟨?_, ⟨r1, r2, r3⟩⟩
    unfold globalSource; split <;> simp [posOKT]
  | name i n =>
    simp only [concatEv]
    refine ⟨?_, ⟨r1, r2, r3⟩⟩
    unfold globalName; split <;> simp [posOKT]

theorem posOKT_cons (pre : Text) (e : Ev) (es : List Ev) : posOKT pre (e :: es) ↔ posOKT pre [e] ∧ posOKT (pre ++ e.text) es := by
  have := posOKT_append [e] es pre
  simpa [evsText_singleton] using this

theorem concatEvs_pos : ∀ (evs : List Ev) (st : CSt) (P : Pos) (gpre cpre : Text), CRel st P → adv startPos gpre = P → posOKT cpre evs →
    posOKT (gpre ++ cpre) (concatEvs false st evs).2 ∧ CRel (concatEvs false st evs).1 P := by
  intro evs
  induction evs with
  | nil => intro st P gpre cpre hr _ _; exact ⟨trivial, hr⟩
  | cons e es ih =>
    intro st P gpre cpre hr hP hpos
    rw [posOKT_cons] at hpos
    obtain ⟨a, b⟩ := concatEv_pos st P hr gpre cpre hP e hpos.1
    obtain ⟨c, d⟩ := ih (concatEv false st e).1 P gpre (cpre ++ e.text) b hP hpos.2
    simp only [concatEvs]
    rw [posOKT_append]
    refine ⟨⟨a, ?_⟩, d⟩
    rw [concatEv_text, List.append_assoc]; exact c

theorem concatChild_pos (st : CSt) (P : Pos) (gpre : Text) (child : SResult) (hr : CRel st P) (hP : adv startPos gpre = P) (hc : PosOK child) :
    posOKT gpre (concatChild false st child).2
    ∧ CRel (concatChild false st child).1 (adv startPos (gpre ++ evsText child.evs)) := by
  obtain ⟨h1, h2⟩ := hc
  have hr0 : CRel { st with sim := [], nim := [], lastMappingLine := 0 } P := hr
  obtain ⟨a, b⟩ := concatEvs_pos child.evs _ P gpre [] hr0 hP h1
  obtain ⟨b1, b2, b3⟩ := b
  simp only [List.append_nil] at a
  simp only [concatChild, b3, Bool.false_and, Bool.false_eq_true, if_false, List.append_nil, Bool.or_self]
  have hl : 1 ≤ child.info.line := by rw [h2, adv_char]; simp [startPos]
  refine ⟨a, ?_, ?_, rfl⟩
  · rw [adv_append, hP, adv_shift _ P, ← h2]; simp only; omega
  · rw [adv_append, hP, adv_shift _ P, ← h2]
    simp only
    by_cases hgt : child.info.line > 1
    · have : ¬ child.info.line = 1 := by omega
      simp [hgt, this]
    · have : child.info.line = 1 := by omega
      simp [hgt, this, b2]; omega

theorem concatGo_pos : ∀ (children : List SResult) (st : CSt) (gpre : Text), CRel st (adv startPos gpre) → (∀ c ∈ children, PosOK c) →
    posOKT gpre (concatGo false st children).2
    ∧ CRel (concatGo false st children).1 (adv startPos (gpre ++ (children.map fun c => evsText c.evs).flatten)) := by
  intro children
  induction children with
  | nil => intro st gpre hr _; simpa [concatGo, posOKT] using hr
  | cons c cs ih =>
    intro st gpre hr hc
    obtain ⟨a, b⟩ := concatChild_pos st _ gpre c hr rfl (hc c (by simp))
    obtain ⟨i1, i2⟩ := ih (concatChild false st c).1 (gpre ++ evsText c.evs) b (fun x hx => hc x (by simp [hx]))
    simp only [concatGo]
    rw [posOKT_append, concatChild_text]
    refine ⟨⟨a, i1⟩, ?_⟩
    simpa [List.append_assoc] using i2

/-- **ConcatSource**: if every child reports true positions (relative to its own text), so does the concatenation -/
theorem concatStream_posOK (children : List SResult) (hc : ∀ c ∈ children, PosOK c) : PosOK (concatStream false children) := by
  obtain ⟨a, b1, b2, _⟩ := concatGo_pos children {} [] ⟨rfl, rfl, rfl⟩ hc
  refine ⟨a, ?_⟩
  simp only [concatStream, concatGo_text, List.nil_append] at b1 b2 ⊢
  rw [b1, b2]

end Rs
