import RsModel.Lemmas.ReplaceKeeps
/-!
# Well-declaredness from "announced before use, densely" plus consistent contents

`WellDecl cons` (the hypothesis of the ConcatSource attribution law, C06) is implied by `DeclOK` (C11's stream clause) together
with "every announcement of a file carries the content `cons` assigns to that name".  A ReplaceSource passes the announcements of
its inner stream through unchanged and keeps `DeclOK`, so it keeps `WellDecl`.
-/
namespace Rs

/-- every announcement of a file carries the content `cons` assigns to its name -/
def ContOK (cons : Text → Option Text) (evs : List Ev) : Prop := ∀ i s c, Ev.source i s c ∈ evs → c = cons s

theorem wellDecl_contOK (cons : Text → Option Text) : ∀ (evs : List Ev) (S : SrcTbl) (N : NameTbl), WellDecl cons S N evs → ContOK cons evs := by
  intro evs
  induction evs with
  | nil => intro S N _ i s c h; simp at h
  | cons e es ih =>
    intro S N h i s c hm
    cases e with
    | chunk t m =>
      simp only [List.mem_cons, reduceCtorEq, false_or] at hm
      exact ih S N h.2 i s c hm
    | source i0 s0 c0 =>
      simp only [List.mem_cons, Ev.source.injEq] at hm
      rcases hm with ⟨_, rfl, rfl⟩ | hm
      · exact h.1
      · exact ih _ N h.2 i s c hm
    | name i0 n0 =>
      simp only [List.mem_cons, reduceCtorEq, false_or] at hm
      exact ih S _ h i s c hm

theorem wellDecl_of_declOK (cons : Text → Option Text) : ∀ (evs : List Ev) (ns nn : Nat) (S : SrcTbl) (N : NameTbl),
    DeclOK ns nn evs → (∀ i, i < ns → (S i).isSome = true) → (∀ i, i < nn → (N i).isSome = true) → ContOK cons evs →
    WellDecl cons S N evs := by
  intro evs
  induction evs with
  | nil => intro ns nn S N _ _ _ _; trivial
  | cons e es ih =>
    intro ns nn S N hd hS hN hc
    have hc' : ContOK cons es := fun i s c hm => hc i s c (List.mem_cons_of_mem _ hm)
    cases e with
    | chunk t m =>
      exact ⟨fun o ho => ⟨hS _ (hd.1 o ho).1, fun k hk => hN _ ((hd.1 o ho).2 k hk)⟩, ih ns nn S N hd.2 hS hN hc'⟩
    | source i s c =>
      obtain ⟨rfl, hd2⟩ := hd
      refine ⟨hc _ s c (List.mem_cons_self), ih (i + 1) nn _ N hd2 ?_ hN hc'⟩
      intro j hj
      unfold upd
      by_cases hji : j = i
      · simp [hji]
      · simp only [hji, if_false]; exact hS j (by omega)
    | name i n =>
      obtain ⟨rfl, hd2⟩ := hd
      refine ih ns (i + 1) S _ hd2 hS ?_ hc'
      intro j hj
      unfold upd
      by_cases hji : j = i
      · simp [hji]
      · simp only [hji, if_false]; exact hN j (by omega)

/-- **a ReplaceSource keeps well-declaredness** of a densely announcing inner stream -/
theorem replaceStream_wellDecl (cons : Text → Option Text) (sorted : List Repl) (inner : SResult)
    (hw : WellDecl cons emptyS emptyN inner.evs) (hd : DeclOK 0 0 inner.evs) :
    WellDecl cons emptyS emptyN (replaceStream sorted inner).evs := by
  apply wellDecl_of_declOK cons _ 0 0 emptyS emptyN (replaceStream_declOK sorted inner hd) (fun i hi => by omega) (fun i hi => by omega)
  intro i s c hm
  exact wellDecl_contOK cons _ _ _ hw i s c (((replaceStream_keeps sorted inner).2 i s c).1 hm)

end Rs
