import RsModel.Lemmas.DeclConcat
/-! # DeclOK for ReplaceSource: sources pass through, names are renumbered densely -/
namespace Rs

structure RD (st : RSt) (nn : Nat) : Prop where
  len : st.nameMapping.length = nn
  val : ∀ n g, st.nameMapping.get? n = some g → g < nn
  nim : ∀ g ∈ st.nim, g < nn

def SrcLt (ns : Nat) (o : Option Orig) : Prop := ∀ x, o = some x → x.src < ns

def SameNames (a b : RSt) : Prop := a.nameMapping = b.nameMapping ∧ a.nim = b.nim

theorem RD.of_same {a b : RSt} {nn : Nat} (h : RD b nn) (s : SameNames a b) : RD a nn :=
  ⟨by rw [s.1]; exact h.len, by rw [s.1]; exact h.val, by rw [s.2]; exact h.nim⟩

theorem sameNames_trans {a b c : RSt} (h1 : SameNames a b) (h2 : SameNames b c) : SameNames a c :=
  ⟨h1.1.trans h2.1, h1.2.trans h2.2⟩

theorem advOrig_src (ns : Nat) (c : List (Option Text)) (o : Option Orig) (s : Text) (b : Nat) (h : SrcLt ns o) : SrcLt ns (advOrig c o s b) := by
  intro x hx
  unfold advOrig at hx
  cases o with
  | none => cases hx
  | some o0 =>
    simp only at hx
    split at hx
    · simp only [Option.some.injEq] at hx; subst hx; exact h o0 rfl
    · simp only [Option.some.injEq] at hx; subst hx; exact h o0 rfl

theorem mapName_idx (st : RSt) (ns nn : Nat) (hr : RD st nn) (o : Option Orig) (h : SrcLt ns o) :
    ∀ x, mapName st.nim o = some x → IdxLt ns nn x := by
  intro x hx
  cases o with
  | none => cases hx
  | some o0 =>
    simp only [mapName, Option.map_some, Option.some.injEq] at hx
    subst hx
    refine ⟨h o0 rfl, fun k hk => ?_⟩
    simp only at hk
    cases hn : o0.name with
    | none => rw [hn] at hk; simp at hk
    | some n0 =>
      rw [hn] at hk
      simp only [Option.bind_some] at hk
      exact hr.nim k (List.mem_of_getElem? hk)

theorem skipWhole_same (st : RSt) (chunk : Text) (gl gc remain endPos : Nat) : SameNames (skipWhole st chunk gl gc remain endPos) st := by
  unfold skipWhole
  dsimp only
  split
  · split <;> exact ⟨rfl, rfl⟩
  · split <;> exact ⟨rfl, rfl⟩

theorem colShift_same (st : RSt) (line by_ : Int) : SameNames (colShift st line by_) st := by
  unfold colShift
  split <;> exact ⟨rfl, rfl⟩

theorem emitContent_decl (ns nn gc : Nat) (orig : Option Orig) (ho : SrcLt ns orig) : ∀ (cls : List Text) (nameIdx : Option Nat) (st : RSt) (line : Int),
    (∀ k, nameIdx = some k → k < nn) →
    DeclOK ns nn (emitContent gc orig cls nameIdx st line).2.1 ∧ cntS (emitContent gc orig cls nameIdx st line).2.1 = 0
    ∧ cntN (emitContent gc orig cls nameIdx st line).2.1 = 0 ∧ SameNames (emitContent gc orig cls nameIdx st line).1 st := by
  intro cls
  induction cls with
  | nil => intro nameIdx st line _; exact ⟨trivial, rfl, rfl, rfl, rfl⟩
  | cons cl cls ih =>
    intro nameIdx st line hn
    simp only [emitContent]
    have hev : ∀ o, (orig.map fun o => { o with name := nameIdx }) = some o → o.src < ns ∧ ∀ k, o.name = some k → k < nn := by
      intro o hoo
      cases orig with
      | none => cases hoo
      | some o0 =>
        simp only [Option.map_some, Option.some.injEq] at hoo
        subst hoo
        exact ⟨ho o0 rfl, fun k hk => hn k hk⟩
    split
    · rename_i hc
      obtain ⟨a, b, c, d⟩ := ih none (if st.colOffLine == line then { st with colOff := st.colOff + cl.length } else { st with colOff := cl.length, colOffLine := line }) line (fun k hk => by cases hk)
      refine ⟨⟨hev, a⟩, b, c, sameNames_trans d ?_⟩
      split <;> exact ⟨rfl, rfl⟩
    · obtain ⟨a, b, c, d⟩ := ih none { st with lineOff := st.lineOff + 1, colOff := -(gc : Int), colOffLine := line + 1 } (line + 1) (fun k hk => by cases hk)
      exact ⟨⟨hev, a⟩, b, c, sameNames_trans d ⟨rfl, rfl⟩⟩

theorem rBefore_decl (ns nn : Nat) (chunk : Text) (line : Int) (r : Repl) (st : RSt) (l : LSt) (hr : RD st nn) (hl : SrcLt ns l.orig) :
    DeclOK ns nn (rBefore chunk line r st l).2.2 ∧ cntS (rBefore chunk line r st l).2.2 = 0 ∧ cntN (rBefore chunk line r st l).2.2 = 0
    ∧ SameNames (rBefore chunk line r st l).1 st ∧ SrcLt ns (rBefore chunk line r st l).2.1.orig := by
  unfold rBefore
  split
  · exact ⟨⟨mapName_idx st ns nn hr l.orig hl, trivial⟩, rfl, rfl, ⟨rfl, rfl⟩, advOrig_src ns _ _ _ _ hl⟩
  · exact ⟨trivial, rfl, rfl, ⟨rfl, rfl⟩, hl⟩

theorem globalName_rd (nm : Assoc) (nn : Nat) (hlen : nm.length = nn) (hval : ∀ n g, nm.get? n = some g → g < nn) (n : Text) :
    DeclOK 0 nn (globalName nm n).2.1 ∧ cntS (globalName nm n).2.1 = 0
    ∧ (globalName nm n).1.length = nn + cntN (globalName nm n).2.1
    ∧ (∀ n' g, (globalName nm n).1.get? n' = some g → g < nn + cntN (globalName nm n).2.1)
    ∧ (globalName nm n).2.2 < nn + cntN (globalName nm n).2.1 := by
  unfold globalName
  cases hget : nm.get? n with
  | some g => exact ⟨trivial, rfl, by simpa [cntN] using hlen, by simpa [cntN] using hval, by simpa [cntN] using hval n g hget⟩
  | none =>
    simp only [cntS, cntN, Nat.zero_add]
    refine ⟨⟨hlen, trivial⟩, trivial, ?_, ?_, by omega⟩
    · rw [assoc_length_insert _ _ _ hget, hlen]
    · intro n' g' hg'
      by_cases hs : n' = n
      · subst hs
        rw [assoc_get_insert_self _ _ _ hget] at hg'
        cases hg'; omega
      · rw [assoc_get_insert_other _ _ _ _ hget hs] at hg'
        have := hval n' g' hg'; omega

theorem declOK_names_only : ∀ (evs : List Ev) (ns nn : Nat), cntS evs = 0 → DeclOK 0 nn evs → DeclOK ns nn evs := by
  intro evs
  induction evs with
  | nil => intros; trivial
  | cons e es ih =>
    intro ns nn hc h
    cases e with
    | chunk t m =>
      simp only [cntS] at hc
      refine ⟨fun o ho => ?_, ih ns nn hc h.2⟩
      have := (h.1 o ho).1
      omega
    | source i s c => simp [cntS] at hc
    | name i n => simp only [cntS] at hc; exact ⟨h.1, ih ns _ hc h.2⟩

theorem rName_decl (ns nn : Nat) (r : Repl) (st : RSt) (l : LSt) (hr : RD st nn) :
    DeclOK ns nn (rName r st l).2.1 ∧ cntS (rName r st l).2.1 = 0 ∧ RD (rName r st l).1 (nn + cntN (rName r st l).2.1)
    ∧ ∀ k, (rName r st l).2.2 = some k → k < nn + cntN (rName r st l).2.1 := by
  unfold rName
  split
  · rename_i nm o hn ho
    obtain ⟨a, b, c, d, e⟩ := globalName_rd st.nameMapping nn hr.len hr.val nm
    refine ⟨declOK_names_only _ ns nn b a, b, ⟨c, d, fun g hg => by have := hr.nim g hg; omega⟩, fun k hk => ?_⟩
    simp only [Option.some.injEq] at hk
    subst hk; exact e
  · refine ⟨trivial, rfl, by simpa [cntN] using hr, fun k hk => ?_⟩
    simp only [cntN, Nat.add_zero]
    cases ho : l.orig with
    | none => rw [ho] at hk; simp at hk
    | some o =>
      rw [ho] at hk
      simp only [Option.bind_some] at hk
      cases hn : o.name with
      | none => rw [hn] at hk; simp at hk
      | some n0 =>
        rw [hn] at hk
        simp only [Option.bind_some] at hk
        exact hr.nim k (List.mem_of_getElem? hk)

/-- what one loop iteration guarantees about its events and the state it hands on -/
def NextOK (ns nn : Nat) : RNext → Prop
  | .done st' => RD st' nn
  | .cont st' l' => RD st' nn ∧ SrcLt ns l'.orig

theorem rIter_decl (ns nn : Nat) (chunk : Text) (gl endPos : Nat) (r : Repl) (rs : List Repl) (st : RSt) (l : LSt)
    (hr : RD st nn) (hl : SrcLt ns l.orig) :
    DeclOK ns nn (rIter chunk gl endPos r rs st l).1 ∧ cntS (rIter chunk gl endPos r rs st l).1 = 0
    ∧ NextOK ns (nn + cntN (rIter chunk gl endPos r rs st l).1) (rIter chunk gl endPos r rs st l).2 := by
  obtain ⟨b1, b2, b3, b4, b5⟩ := rBefore_decl ns nn chunk ((gl : Int) + st.lineOff) r st l hr hl
  have hrb : RD (rBefore chunk ((gl : Int) + st.lineOff) r st l).1 nn := hr.of_same b4
  obtain ⟨n1, n2, n3, n4⟩ := rName_decl ns nn r _ (rBefore chunk ((gl : Int) + st.lineOff) r st l).2.1 hrb
  obtain ⟨c1, c2, c3, c4⟩ := emitContent_decl ns (nn + cntN (rName r (rBefore chunk ((gl : Int) + st.lineOff) r st l).1 (rBefore chunk ((gl : Int) + st.lineOff) r st l).2.1).2.1)
    (rBefore chunk ((gl : Int) + st.lineOff) r st l).2.1.gc (rBefore chunk ((gl : Int) + st.lineOff) r st l).2.1.orig b5 (splitLines r.content)
    (rName r (rBefore chunk ((gl : Int) + st.lineOff) r st l).1 (rBefore chunk ((gl : Int) + st.lineOff) r st l).2.1).2.2
    (rName r (rBefore chunk ((gl : Int) + st.lineOff) r st l).1 (rBefore chunk ((gl : Int) + st.lineOff) r st l).2.1).1 ((gl : Int) + st.lineOff) n4
  have hrc := n3.of_same c4
  simp only [rIter]
  have hevs : DeclOK ns nn ((rBefore chunk ((gl : Int) + st.lineOff) r st l).2.2 ++ (rName r (rBefore chunk ((gl : Int) + st.lineOff) r st l).1 (rBefore chunk ((gl : Int) + st.lineOff) r st l).2.1).2.1
      ++ (emitContent (rBefore chunk ((gl : Int) + st.lineOff) r st l).2.1.gc (rBefore chunk ((gl : Int) + st.lineOff) r st l).2.1.orig (splitLines r.content)
        (rName r (rBefore chunk ((gl : Int) + st.lineOff) r st l).1 (rBefore chunk ((gl : Int) + st.lineOff) r st l).2.1).2.2
        (rName r (rBefore chunk ((gl : Int) + st.lineOff) r st l).1 (rBefore chunk ((gl : Int) + st.lineOff) r st l).2.1).1 ((gl : Int) + st.lineOff)).2.1) := by
    rw [declOK_append, declOK_append]
    refine ⟨⟨b1, ?_⟩, ?_⟩
    · rw [b2, b3]; exact n1
    · rw [cntS_append, cntN_append, b2, b3, n2]
      simpa using c1
  have hcs : cntS ((rBefore chunk ((gl : Int) + st.lineOff) r st l).2.2 ++ (rName r (rBefore chunk ((gl : Int) + st.lineOff) r st l).1 (rBefore chunk ((gl : Int) + st.lineOff) r st l).2.1).2.1
      ++ (emitContent (rBefore chunk ((gl : Int) + st.lineOff) r st l).2.1.gc (rBefore chunk ((gl : Int) + st.lineOff) r st l).2.1.orig (splitLines r.content)
        (rName r (rBefore chunk ((gl : Int) + st.lineOff) r st l).1 (rBefore chunk ((gl : Int) + st.lineOff) r st l).2.1).2.2
        (rName r (rBefore chunk ((gl : Int) + st.lineOff) r st l).1 (rBefore chunk ((gl : Int) + st.lineOff) r st l).2.1).1 ((gl : Int) + st.lineOff)).2.1) = 0 := by
    rw [cntS_append, cntS_append, b2, n2, c2]
  have hcn : nn + cntN ((rBefore chunk ((gl : Int) + st.lineOff) r st l).2.2 ++ (rName r (rBefore chunk ((gl : Int) + st.lineOff) r st l).1 (rBefore chunk ((gl : Int) + st.lineOff) r st l).2.1).2.1
      ++ (emitContent (rBefore chunk ((gl : Int) + st.lineOff) r st l).2.1.gc (rBefore chunk ((gl : Int) + st.lineOff) r st l).2.1.orig (splitLines r.content)
        (rName r (rBefore chunk ((gl : Int) + st.lineOff) r st l).1 (rBefore chunk ((gl : Int) + st.lineOff) r st l).2.1).2.2
        (rName r (rBefore chunk ((gl : Int) + st.lineOff) r st l).1 (rBefore chunk ((gl : Int) + st.lineOff) r st l).2.1).1 ((gl : Int) + st.lineOff)).2.1)
      = nn + cntN (rName r (rBefore chunk ((gl : Int) + st.lineOff) r st l).1 (rBefore chunk ((gl : Int) + st.lineOff) r st l).2.1).2.1 := by
    rw [cntN_append, cntN_append, b3, c3]; omega
  split
  · split
    · refine ⟨hevs, hcs, ?_⟩
      rw [hcn]
      exact RD.of_same (b := { (emitContent _ _ _ _ _ _).1 with re := _, rest := rs }) ⟨hrc.len, hrc.val, hrc.nim⟩ (skipWhole_same _ _ _ _ _ _)
    · refine ⟨hevs, hcs, ?_⟩
      rw [hcn]
      refine ⟨RD.of_same (b := { (emitContent _ _ _ _ _ _).1 with re := _, rest := rs, pos := _ }) ⟨hrc.len, hrc.val, hrc.nim⟩ (colShift_same _ _ _), ?_⟩
      exact advOrig_src ns _ _ _ _ b5
  · refine ⟨hevs, hcs, ?_⟩
    rw [hcn]
    exact ⟨⟨hrc.len, hrc.val, hrc.nim⟩, b5⟩

theorem rLoop_decl (ns : Nat) (chunk : Text) (gl endPos : Nat) : ∀ (rs : List Repl) (nn : Nat) (st : RSt) (l : LSt), RD st nn → SrcLt ns l.orig →
    DeclOK ns nn (rLoop chunk gl endPos rs st l).2.1 ∧ cntS (rLoop chunk gl endPos rs st l).2.1 = 0
    ∧ RD (rLoop chunk gl endPos rs st l).1 (nn + cntN (rLoop chunk gl endPos rs st l).2.1)
    ∧ ∀ l2, (rLoop chunk gl endPos rs st l).2.2 = some l2 → SrcLt ns l2.orig := by
  intro rs
  induction rs with
  | nil =>
    intro nn st l hr hl
    simp only [rLoop, cntN, Nat.add_zero]
    exact ⟨trivial, rfl, ⟨hr.len, hr.val, hr.nim⟩, fun l2 h2 => by simp only [Option.some.injEq] at h2; subst h2; exact hl⟩
  | cons r rs ih =>
    intro nn st l hr hl
    simp only [rLoop]
    split
    · obtain ⟨a, b, c⟩ := rIter_decl ns nn chunk gl endPos r rs st l hr hl
      split
      · rename_i evs st' heq
        rw [heq] at a b c
        exact ⟨a, b, c, fun l2 h2 => by cases h2⟩
      · rename_i evs st' l' heq
        rw [heq] at a b c
        simp only [NextOK] at c
        obtain ⟨i1, i2, i3, i4⟩ := ih (nn + cntN evs) st' l' c.1 c.2
        simp only
        rw [declOK_append, cntS_append, cntN_append, b]
        refine ⟨⟨a, by simpa using i1⟩, by simpa using i2, by simpa [Nat.add_assoc] using i3, i4⟩
    · simp only [cntN, Nat.add_zero]
      exact ⟨trivial, rfl, ⟨hr.len, hr.val, hr.nim⟩, fun l2 h2 => by simp only [Option.some.injEq] at h2; subst h2; exact hl⟩

theorem rOnChunk_decl (ns nn : Nat) (st : RSt) (chunk : Text) (m : Mapping) (hr : RD st nn) (hm : SrcLt ns m.orig) :
    DeclOK ns nn (rOnChunk st chunk m).2 ∧ cntS (rOnChunk st chunk m).2 = 0 ∧ RD (rOnChunk st chunk m).1 (nn + cntN (rOnChunk st chunk m).2) := by
  unfold rOnChunk
  dsimp only
  split
  · -- whole chunk skipped
    simp only [cntN, Nat.add_zero]
    exact ⟨trivial, rfl, hr.of_same (skipWhole_same _ _ _ _ _ _)⟩
  · rename_i st1 l1 hstart
    have h1 : RD st1 nn ∧ SrcLt ns l1.orig := by
      split at hstart
      · split at hstart
        · cases hstart
        · simp only [Option.some.injEq, Prod.mk.injEq] at hstart
          obtain ⟨e1, e2⟩ := hstart
          subst e1 e2
          exact ⟨RD.of_same (b := { st with pos := _ }) ⟨hr.len, hr.val, hr.nim⟩ (colShift_same _ _ _), advOrig_src ns _ _ _ _ hm⟩
      · simp only [Option.some.injEq, Prod.mk.injEq] at hstart
        obtain ⟨e1, e2⟩ := hstart
        subst e1 e2
        exact ⟨hr, hm⟩
    obtain ⟨a, b, c, d⟩ := rLoop_decl ns chunk m.gl (st.pos + chunk.length) st1.rest nn st1 l1 h1.1 h1.2
    split
    · rename_i st2 evs heq
      rw [heq] at a b c
      exact ⟨a, b, c⟩
    · rename_i st2 evs l2 heq
      rw [heq] at a b c d
      have hl2 := d l2 rfl
      simp only
      rw [declOK_append, cntS_append, cntN_append, b]
      split
      · simp only [cntS, cntN, Nat.add_zero]
        exact ⟨⟨a, ⟨mapName_idx st2 ns _ c _ hl2, trivial⟩⟩, trivial, ⟨c.len, c.val, c.nim⟩⟩
      · simp only [cntS, cntN, Nat.add_zero]
        exact ⟨⟨a, trivial⟩, trivial, ⟨c.len, c.val, c.nim⟩⟩

theorem rEvs_decl : ∀ (evs : List Ev) (ns nni nn : Nat) (st : RSt), DeclOK ns nni evs → RD st nn →
    DeclOK ns nn (rEvs st evs).2 ∧ cntS (rEvs st evs).2 = cntS evs ∧ RD (rEvs st evs).1 (nn + cntN (rEvs st evs).2) := by
  intro evs
  induction evs with
  | nil => intro ns nni nn st _ hr; exact ⟨trivial, rfl, by simpa [rEvs, cntN] using hr⟩
  | cons e es ih =>
    intro ns nni nn st hd hr
    simp only [rEvs]
    cases e with
    | chunk text m =>
      obtain ⟨hdm, hdr⟩ := hd
      obtain ⟨a, b, c⟩ := rOnChunk_decl ns nn st (text.getD []) m hr (fun x hx => (hdm x hx).1)
      obtain ⟨i1, i2, i3⟩ := ih ns nni _ _ hdr c
      simp only [rEv]
      rw [declOK_append, cntS_append, cntN_append, b]
      exact ⟨⟨a, by simpa using i1⟩, by simpa [cntS] using i2, by simpa [Nat.add_assoc] using i3⟩
    | source i s c =>
      obtain ⟨hdi, hdr⟩ := hd
      obtain ⟨i1, i2, i3⟩ := ih (ns + 1) nni nn { st with contents := lmInsert none st.contents i c } hdr ⟨hr.len, hr.val, hr.nim⟩
      simp only [rEv, List.cons_append, List.nil_append, DeclOK, cntS, cntN]
      exact ⟨⟨hdi, i1⟩, by omega, i3⟩
    | name i n =>
      obtain ⟨_, hdr⟩ := hd
      obtain ⟨g1, g2, g3, g4, g5⟩ := globalName_rd st.nameMapping nn hr.len hr.val n
      have hr' : RD { st with nameMapping := (globalName st.nameMapping n).1, nim := lmInsert 0 st.nim i (globalName st.nameMapping n).2.2 }
          (nn + cntN (globalName st.nameMapping n).2.1) :=
        ⟨g3, g4, lmInsert_bound _ _ _ _ (fun g hg => by have := hr.nim g hg; omega) g5⟩
      obtain ⟨i1, i2, i3⟩ := ih ns (nni + 1) _ _ hdr hr'
      simp only [rEv]
      rw [declOK_append, cntS_append, cntN_append, g2]
      exact ⟨⟨declOK_names_only _ ns nn g2 g1, by simpa using i1⟩, by simpa [cntS] using i2, by simpa [Nat.add_assoc] using i3⟩

theorem rRemainder_origs (P : Orig → Prop) (gcInfo : Nat) : ∀ (cls : List Text) (st : RSt) (line : Int), ChunkOrigs P (rRemainder gcInfo cls st line).2.1 := by
  intro cls
  induction cls with
  | nil => intro st line; exact chunkOrigs_nil P
  | cons cl cls ih =>
    intro st line
    simp only [rRemainder]
    split
    · exact chunkOrigs_cons P _ _ _ (fun o ho => by cases ho) (ih _ _)
    · exact chunkOrigs_cons P _ _ _ (fun o ho => by cases ho) (ih _ _)

/-- **ReplaceSource**: if the inner stream announces before use, densely, so does the spliced stream -/
theorem replaceStream_declOK (sorted : List Repl) (inner : SResult) (h : DeclOK 0 0 inner.evs) : DeclOK 0 0 (replaceStream sorted inner).evs := by
  obtain ⟨a, b, c⟩ := rEvs_decl inner.evs 0 0 0 { rest := sorted } h ⟨rfl, fun n g hg => by simp [Assoc.get?] at hg, fun g hg => by simp at hg⟩
  simp only [replaceStream]
  rw [declOK_append]
  exact ⟨a, declOK_chunks _ _ _ (rRemainder_origs _ _ _ _ _)⟩

end Rs
