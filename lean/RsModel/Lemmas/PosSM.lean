import RsModel.Lemmas.Pos
import RsModel.Lemmas.SMText
/-! # C02 for the map-driven splitters (SourceMapSource leaf, CachedSource replay): ASCII text, segments inside the text -/
namespace Rs

theorem ascii_not_cont : ∀ b : UInt8, b.toNat < 128 → isCont b = false := by
  apply forall_u8; decide +kernel

theorem charStartsFrom_ascii : ∀ (t : Text) (i : Nat), IsAscii t → charStartsFrom i t = List.range' i t.length := by
  intro t
  induction t with
  | nil => intro i _; rfl
  | cons b bs ih =>
    intro i h
    have hb := ascii_not_cont b (h b (by simp))
    simp only [charStartsFrom, hb, Bool.false_eq_true, if_false, List.length_cons, List.range'_succ]
    rw [ih (i + 1) (fun x hx => h x (by simp [hx]))]

theorem cpos_ascii (ln : Text) (h : IsAscii ln) (c : Nat) (hc : c ≤ ln.length) : cpos ln c = c := by
  unfold cpos charStarts
  rw [charStartsFrom_ascii ln 0 h]
  by_cases hlt : c < ln.length
  · simp [List.getD_eq_getElem?_getD, List.getElem?_range', hlt]
  · have : c = ln.length := by omega
    subst this
    simp [List.getD_eq_getElem?_getD]

/-- visible width of a line: its length without the closing line break -/
def width (ln : Text) : Nat := if endsWithNL ln then ln.length - 1 else ln.length

/-- access into the line structure -/
theorem lines_get : ∀ (ls : List Text), Lines ls → ∀ (k : Nat), k < ls.length →
    (∃ s, (∀ x ∈ s, x ≠ NL) ∧ ((ls.getD k [] = s ++ [NL]) ∨ (k + 1 = ls.length ∧ ls.getD k [] = s)))
    ∧ ∀ p : Pos, adv p ((ls.take k).flatten) = ⟨p.line + k, if k = 0 then p.col else 0⟩ := by
  intro ls h
  induction h with
  | nil => intro k hk; simp at hk
  | last t hne hno =>
    intro k hk
    have : k = 0 := by simpa using hk
    subst this
    exact ⟨⟨t, hno, Or.inr ⟨rfl, rfl⟩⟩, fun p => by simp [adv]⟩
  | lastNL t hno =>
    intro k hk
    have : k = 0 := by simpa using hk
    subst this
    exact ⟨⟨t, hno, Or.inl rfl⟩, fun p => by simp [adv]⟩
  | cons t rest hno hne hr ih =>
    intro k hk
    cases k with
    | zero => exact ⟨⟨t, hno, Or.inl rfl⟩, fun p => by simp [adv]⟩
    | succ k =>
      obtain ⟨⟨s, hs, hcase⟩, hadv⟩ := ih k (by simpa using hk)
      refine ⟨⟨s, hs, ?_⟩, ?_⟩
      · rcases hcase with h | ⟨h1, h2⟩
        · exact Or.inl (by simpa using h)
        · exact Or.inr ⟨by simp; omega, by simpa using h2⟩
      · intro p
        simp only [List.take_succ_cons, List.flatten_cons]
        rw [adv_append, adv_line t p hno, hadv]
        simp only [Pos.mk.injEq]
        constructor
        · omega
        · split <;> simp

theorem width_cases (s : Text) (hs : ∀ x ∈ s, x ≠ NL) : width (s ++ [NL]) = s.length ∧ width s = s.length := by
  unfold width
  rw [endsWithNL_snoc, endsWithNL_noNL s hs]
  simp

/-- **a real position of the text**: line `l` exists and column `c` lies within its visible width; then the text emitted before
`(l, c)` ends exactly at `(l, c)` -/
theorem valid_pos (lines : List Text) (hL : Lines lines) (hA : ∀ ln ∈ lines, IsAscii ln) (l c : Nat) (h1 : 1 ≤ l) (hl : l ≤ lines.length)
    (hc : c ≤ width (lineAt lines l)) : adv startPos (emitted lines l c) = ⟨l, c⟩ := by
  obtain ⟨⟨s, hs, hcase⟩, hadv⟩ := lines_get lines hL (l - 1) (by omega)
  unfold emitted
  have hln : lineAt lines l = lines.getD (l - 1) [] := rfl
  have hw := width_cases s hs
  have hmem : lineAt lines l ∈ lines := by
    rw [hln, List.getD_eq_getElem?_getD, List.getElem?_eq_getElem (by omega)]; exact List.getElem_mem _
  have hcl : c ≤ s.length ∧ (lineAt lines l).take c = s.take c := by
    rcases hcase with h | ⟨_, h⟩
    · rw [hln, h] at hc ⊢; rw [hw.1] at hc; exact ⟨hc, List.take_append_of_le_length hc⟩
    · rw [hln, h] at hc ⊢; rw [hw.2] at hc; exact ⟨hc, rfl⟩
  have hlen : c ≤ (lineAt lines l).length := by
    rcases hcase with h | ⟨_, h⟩
    · rw [hln, h, List.length_append]; omega
    · rw [hln, h]; omega
  rw [cpos_ascii _ (hA _ hmem) c hlen, adv_append, hadv startPos, hcl.2]
  rw [adv_noNL (s.take c) _ (fun x hx => hs x (List.mem_of_mem_take hx))]
  simp only [startPos, List.length_take, Pos.mk.injEq]
  constructor
  · omega
  · split <;> omega

end Rs

namespace Rs

structure Env (lines : List Text) : Prop where
  ls : Lines lines
  ascii : ∀ ln ∈ lines, IsAscii ln
  wf : WFLines lines

/-- the segment lies inside the text -/
def Inside (lines : List Text) (m : Mapping) : Prop := 1 ≤ m.gl ∧ (m.gl ≤ lines.length → m.gc ≤ width (lineAt lines m.gl))

def ColOK (lines : List Text) (s : FullSt) : Prop := s.line ≤ lines.length → s.col ≤ width (lineAt lines s.line)

theorem posOKT_single (pre t : Text) (m : Mapping) (h : adv startPos pre = ⟨m.gl, m.gc⟩) : posOKT pre [Ev.chunk (some t) m] :=
  ⟨h.symm, trivial⟩

theorem posOKT_optChunk (pre ch : Text) (m : Mapping) (h : adv startPos pre = ⟨m.gl, m.gc⟩) :
    posOKT pre (if ch.isEmpty then [] else [Ev.chunk (some ch) m]) := by
  split
  · trivial
  · exact posOKT_single pre ch m h

theorem smStep1_pos (lines : List Text) (E : Env lines) (s : FullSt) (m : Mapping) (h1 : 1 ≤ s.line) (hc : ColOK lines s) (hi : Inside lines m) :
    posOKT (emitted lines s.line s.col) (smStep1 lines s m).2 ∧ ColOK lines (smStep1 lines s m).1 := by
  unfold smStep1
  by_cases hcnd : (s.active && decide (s.line ≤ lines.length)) = true
  · simp only [hcnd, if_true]
    have hn : s.line ≤ lines.length := by simp at hcnd; exact hcnd.2
    have hv := valid_pos lines E.ls E.ascii s.line s.col h1 hn (hc hn)
    by_cases hne : (m.gl != s.line) = true
    · simp only [hne, if_true]
      exact ⟨posOKT_optChunk _ _ _ hv, fun _ => Nat.zero_le _⟩
    · simp only [hne, Bool.false_eq_true, if_false]
      have heq : m.gl = s.line := by simpa using hne
      refine ⟨posOKT_optChunk _ _ _ hv, ?_⟩
      intro _
      have := hi.2 (by omega)
      rw [heq] at this; exact this
  · simp only [hcnd, Bool.false_eq_true, if_false]
    exact ⟨trivial, hc⟩

theorem smStep2_pos (lines : List Text) (E : Env lines) (s : FullSt) (m : Mapping) (h1 : 1 ≤ s.line) (hc : ColOK lines s) :
    posOKT (emitted lines s.line s.col) (smStep2 lines s m).2 ∧ ColOK lines (smStep2 lines s m).1 := by
  unfold smStep2
  by_cases hcnd : (decide (m.gl > s.line) && decide (s.col > 0)) = true
  · simp only [hcnd, if_true]
    refine ⟨?_, fun _ => Nat.zero_le _⟩
    by_cases hn : s.line ≤ lines.length
    · simp only [hn, if_true]
      exact posOKT_single _ _ _ (valid_pos lines E.ls E.ascii s.line s.col h1 hn (hc hn))
    · simp only [hn, if_false]; trivial
  · simp only [hcnd, Bool.false_eq_true, if_false]
    exact ⟨trivial, hc⟩

theorem smStep4_pos (lines : List Text) (E : Env lines) (s : FullSt) (m : Mapping) (h1 : 1 ≤ s.line) (hc : ColOK lines s)
    (hm : m.gl = s.line) (hi : Inside lines m) :
    posOKT (emitted lines s.line s.col) (smStep4 lines s m).2 ∧ ColOK lines (smStep4 lines s m).1 := by
  unfold smStep4
  by_cases hcnd : m.gc > s.col
  · simp only [hcnd, if_true]
    refine ⟨?_, ?_⟩
    · by_cases hn : s.line ≤ lines.length
      · simp only [hn, if_true]
        exact posOKT_single _ _ _ (valid_pos lines E.ls E.ascii s.line s.col h1 hn (hc hn))
      · simp only [hn, if_false]; trivial
    · intro hn
      have := hi.2 (by rw [hm]; exact hn)
      rw [hm] at this; exact this
  · simp only [hcnd, if_false]
    exact ⟨trivial, hc⟩

theorem smWholeLines_pos (lines : List Text) (E : Env lines) : ∀ (k a b : Nat), b - a = k → 1 ≤ a → a ≤ b →
    posOKT (emitted lines a 0) (smWholeLines lines a b) := by
  intro k
  induction k with
  | zero =>
    intro a b hk h1 hab
    rw [smWholeLines_nil lines a b (by omega)]; trivial
  | succ k ih =>
    intro a b hk h1 hab
    rw [smWholeLines_step lines a b (by omega), posOKT_append]
    by_cases hn : a ≤ lines.length
    · simp only [hn, if_true, evsText_singleton, Ev.text]
      refine ⟨posOKT_single _ _ _ (valid_pos lines E.ls E.ascii a 0 h1 hn (Nat.zero_le _)), ?_⟩
      rw [emitted_whole_line lines E.wf a h1 hn]
      exact ih (a + 1) b (by omega) (by omega) (by omega)
    · simp only [hn, if_false, evsText_nil, List.append_nil]
      refine ⟨trivial, ?_⟩
      rw [emitted_beyond lines a 0 (by omega), ← emitted_beyond lines (a + 1) 0 (by omega)]
      exact ih (a + 1) b (by omega) (by omega) (by omega)

end Rs

namespace Rs

theorem smFullStep_pos (lines : List Text) (E : Env lines) (fl fc : Nat) (s : FullSt) (m : Mapping) (h1 : 1 ≤ s.line)
    (hc : ColOK lines s) (hi : Inside lines m) :
    posOKT (emitted lines s.line s.col) (smFullStep lines fl fc s m).2 ∧ ColOK lines (smFullStep lines fl fc s m).1 := by
  unfold smFullStep
  by_cases hback : (decide (m.gl < s.line) || (m.gl == s.line && decide (m.gc < s.col))) = true
  · simp only [hback, if_true]; exact ⟨trivial, hc⟩
  · simp only [hback, Bool.false_eq_true, if_false]
    have hb : notBehind s m := by
      simp at hback
      rcases Nat.lt_or_ge s.line m.gl with hx | hx
      · exact Or.inl hx
      · have : m.gl = s.line := by omega
        exact Or.inr ⟨this.symm, hback.2 this⟩
    obtain ⟨e1, l1, b1⟩ := smStep1_spec lines E.wf s m h1 hb
    obtain ⟨p1, c1⟩ := smStep1_pos lines E s m h1 hc hi
    obtain ⟨e2, l2, b2, c2⟩ := smStep2_spec lines E.wf (smStep1 lines s m).1 m l1 b1
    obtain ⟨p2, cc2⟩ := smStep2_pos lines E (smStep1 lines s m).1 m l1 c1
    generalize hr1 : smStep1 lines s m = r1 at *
    generalize hr2 : smStep2 lines r1.1 m = r2 at *
    have hle : r2.1.line ≤ m.gl := by rcases b2 with b2 | b2 <;> omega
    have hmax : max r2.1.line m.gl = m.gl := by omega
    -- step 3
    have p3 : posOKT (emitted lines r2.1.line r2.1.col) (smWholeLines lines r2.1.line m.gl) := by
      by_cases hlt : r2.1.line < m.gl
      · rw [c2 hlt]; exact smWholeLines_pos lines E _ r2.1.line m.gl rfl l2 (by omega)
      · rw [smWholeLines_nil lines _ _ (by omega)]; trivial
    have e3 : emitted lines r2.1.line r2.1.col ++ evsText (smWholeLines lines r2.1.line m.gl) = emitted lines m.gl r2.1.col := by
      by_cases hlt : r2.1.line < m.gl
      · have h0 := c2 hlt
        rw [h0]
        exact smWholeLines_spec lines E.wf _ r2.1.line m.gl rfl l2 (by omega)
      · have : r2.1.line = m.gl := by omega
        rw [smWholeLines_nil lines _ _ (by omega), evsText_nil, List.append_nil, this]
    have c3 : ColOK lines { r2.1 with line := max r2.1.line m.gl } := by
      intro hn
      simp only [hmax] at hn ⊢
      by_cases hlt : r2.1.line < m.gl
      · rw [c2 hlt]; exact Nat.zero_le _
      · have : r2.1.line = m.gl := by omega
        have := cc2 (by omega)
        rwa [‹r2.1.line = m.gl›] at this
    obtain ⟨p4, c4⟩ := smStep4_pos lines E { r2.1 with line := max r2.1.line m.gl } m (by simp only [hmax]; exact hi.1) c3 (by simp only [hmax]) hi
    obtain ⟨p5l, p5c⟩ := smStep5_pos fl fc (smStep4 lines { r2.1 with line := max r2.1.line m.gl } m).1 m
    refine ⟨?_, ?_⟩
    · rw [posOKT_append, posOKT_append, posOKT_append]
      refine ⟨⟨⟨p1, ?_⟩, ?_⟩, ?_⟩
      · rw [e1]; exact p2
      · rw [evsText_append, ← List.append_assoc, e1, e2]; exact p3
      · rw [evsText_append, evsText_append, ← List.append_assoc, ← List.append_assoc, e1, e2, e3]
        simpa only [hmax] using p4
    · intro hn
      rw [p5l] at hn
      rw [p5l, p5c]
      exact c4 hn

theorem smFullGo_pos (lines : List Text) (E : Env lines) (fl fc : Nat) : ∀ (ms : List Mapping) (s : FullSt), 1 ≤ s.line → ColOK lines s →
    (∀ m ∈ ms, Inside lines m) → posOKT (emitted lines s.line s.col) (smFullGo lines fl fc s ms) := by
  intro ms
  induction ms with
  | nil => intro s _ _ _; trivial
  | cons m rest ih =>
    intro s h1 hc hi
    obtain ⟨e1, l1, _⟩ := smFullStep_spec lines E.wf fl fc s m h1
    obtain ⟨p1, c1⟩ := smFullStep_pos lines E fl fc s m h1 hc (hi m (by simp))
    simp only [smFullGo]
    rw [posOKT_append, e1]
    exact ⟨p1, ih _ l1 c1 (fun x hx => hi x (by simp [hx]))⟩

end Rs

namespace Rs

theorem mem_splitLines_sub (t : Text) : ∀ ln ∈ splitLines t, ∀ b ∈ ln, b ∈ t := by
  intro ln hln b hb
  have := splitLines_join t
  rw [← this]
  exact List.mem_flatten.2 ⟨ln, hln, hb⟩

theorem textOK_of_ascii (t : Text) (ha : IsAscii t) (hl : t.length ≤ USIZE_MAX) : TextOK t := by
  refine ⟨?_, hl⟩
  intro ln hln b rest he
  subst he
  exact ascii_not_cont b (ha b (mem_splitLines_sub t _ hln b (by simp)))

theorem env_of_ascii (t : Text) (ha : IsAscii t) (hl : t.length ≤ USIZE_MAX) : Env (splitLines t) :=
  ⟨lines_of_splitLines t, fun ln hln b hb => ha b (mem_splitLines_sub t ln hln b hb), wfLines_of_textOK t (textOK_of_ascii t ha hl)⟩

theorem emitted_start (lines : List Text) (h : WFLines lines) : emitted lines 1 0 = [] := by
  unfold emitted lineAt
  have hs : startsOK (lines.getD 0 []) := by
    cases hx : lines[0]? with
    | none => intro b rest hh; simp [List.getD_eq_getElem?_getD, hx] at hh
    | some ln => simpa [List.getD_eq_getElem?_getD, hx] using h.starts ln (List.mem_of_getElem? hx)
  simp only [Nat.sub_self, List.take_zero, List.flatten_nil, List.nil_append]
  rw [cpos_zero _ hs]; simp

theorem adv_text_end (t : Text) : adv startPos t = lineLoopInfo (splitLines t) := by
  have h := (lineEvs_pos (fun _ => none) (splitLines t) (lines_of_splitLines t) [] 1 rfl).2
  rw [List.nil_append, splitLines_join, endAfter_one] at h
  exact h

theorem posOKT_nochunk : ∀ (evs : List Ev) (pre : Text), (∀ e ∈ evs, e.isChunk = false) → posOKT pre evs := by
  intro evs
  induction evs with
  | nil => intro _ _; trivial
  | cons e es ih =>
    intro pre h
    have he := h e (by simp)
    cases e with
    | chunk t m => simp [Ev.isChunk] at he
    | source i s c => exact ih pre (fun x hx => h x (by simp [hx]))
    | name i n => exact ih pre (fun x hx => h x (by simp [hx]))

theorem smSourceEvs_nochunk (m : SMap) : ∀ e ∈ smSourceEvs m, e.isChunk = false := by
  intro e he
  simp only [smSourceEvs, List.mem_map] at he
  obtain ⟨i, _, rfl⟩ := he; rfl

theorem smNameEvs_nochunk (m : SMap) : ∀ e ∈ smNameEvs m, e.isChunk = false := by
  intro e he
  simp only [smNameEvs, List.mem_map] at he
  obtain ⟨i, _, rfl⟩ := he; rfl

/-- every segment of the map lies inside the text -/
def MapInside (t : Text) (sm : SMap) : Prop := ∀ m ∈ decode sm.mappings, Inside (splitLines t) m

/-- **SourceMapSource leaf with columns** -/
theorem streamSMFull_posOK (t : Text) (sm : SMap) (ha : IsAscii t) (hl : t.length ≤ USIZE_MAX) (hm : MapInside t sm) :
    PosOK (streamSMFull t sm) := by
  have E := env_of_ascii t ha hl
  have hT := textOK_of_ascii t ha hl
  have htext := streamSMFull_text t sm hT
  refine ⟨?_, ?_⟩
  · unfold streamSMFull
    by_cases he : (splitLines t).isEmpty = true
    · simp only [he, if_true]; trivial
    · simp only [he, Bool.false_eq_true, if_false]
      rw [posOKT_append, posOKT_append]
      refine ⟨⟨?_, ?_⟩, ?_⟩
      · exact posOKT_nochunk _ _ (smSourceEvs_nochunk sm)
      · exact posOKT_nochunk _ _ (smNameEvs_nochunk sm)
      · rw [evsText_append, smSourceEvs_notext, smNameEvs_notext, List.nil_append, List.nil_append]
        have hne : splitLines t ≠ [] := by simpa using he
        have hgo := smFullGo_pos (splitLines t) E
          (if endsWithNL ((splitLines t).getLast?.getD []) then (splitLines t).length + 1 else (splitLines t).length)
          (if endsWithNL ((splitLines t).getLast?.getD []) then 0 else ((splitLines t).getLast?.getD []).length)
          (decode sm.mappings ++ [⟨if endsWithNL ((splitLines t).getLast?.getD []) then (splitLines t).length + 1 else (splitLines t).length,
            if endsWithNL ((splitLines t).getLast?.getD []) then 0 else ((splitLines t).getLast?.getD []).length, none⟩])
          {} (by decide) (fun _ => Nat.zero_le _)
        rw [show emitted (splitLines t) ({} : FullSt).line ({} : FullSt).col = [] from emitted_start _ E.wf] at hgo
        apply hgo
        intro m hmem
        rcases List.mem_append.1 hmem with h | h
        · exact hm m h
        · simp only [List.mem_singleton] at h
          subst h
          have hlen : 0 < (splitLines t).length := List.length_pos_iff.mpr hne
          constructor
          · show 1 ≤ (if endsWithNL ((splitLines t).getLast?.getD []) = true then (splitLines t).length + 1 else (splitLines t).length)
            split <;> omega
          · intro hle
            by_cases hnl : endsWithNL ((splitLines t).getLast?.getD []) = true
            · simp only [hnl, if_true] at hle; omega
            · simp only [hnl, Bool.false_eq_true, if_false]
              have hlast : lineAt (splitLines t) (splitLines t).length = (splitLines t).getLast?.getD [] := by
                unfold lineAt; rw [List.getLast?_eq_getElem?]; simp [List.getD_eq_getElem?_getD]
              rw [hlast]
              unfold width
              simp [hnl]
  · rw [htext, adv_text_end]
    unfold streamSMFull lineLoopInfo
    by_cases he : (splitLines t).isEmpty = true
    · have : splitLines t = [] := by simpa using he
      simp [he, this]
    · simp only [he, Bool.false_eq_true, if_false]
      have hne : splitLines t ≠ [] := by simpa using he
      cases hl' : (splitLines t).getLast? with
      | none => exact absurd (List.getLast?_eq_none_iff.1 hl') hne
      | some last => simp only [Option.getD_some]; split <;> rfl

end Rs

namespace Rs

theorem smLinesFullGo_pos (lines : List Text) (E : Env lines) : ∀ (ms : List Mapping) (cur : Nat), 1 ≤ cur → cur ≤ lines.length + 1 →
    posOKT (emitted lines cur 0) (smLinesFullGo lines cur ms).1 := by
  intro ms
  induction ms with
  | nil => intro cur _ _; trivial
  | cons m rest ih =>
    intro cur h1 h2
    simp only [smLinesFullGo]
    cases ho : m.orig with
    | none => simpa [ho] using ih cur h1 h2
    | some o =>
      simp only [ho]
      by_cases hskip : (decide (m.gl < cur) || decide (m.gl > lines.length)) = true
      · simp only [hskip, if_true]; exact ih cur h1 h2
      · simp only [hskip, Bool.false_eq_true, if_false]
        have hge : cur ≤ m.gl := by simp at hskip; omega
        have hle : m.gl ≤ lines.length := by simp at hskip; omega
        have hmax : max cur m.gl = m.gl := by omega
        rw [posOKT_append]
        refine ⟨smWholeLines_pos lines E _ cur m.gl rfl h1 hge, ?_⟩
        rw [smWholeLines_spec lines E.wf _ cur m.gl rfl h1 hge]
        refine ⟨(valid_pos lines E.ls E.ascii m.gl 0 (by omega) hle (Nat.zero_le _)).symm, ?_⟩
        rw [hmax, emitted_whole_line lines E.wf m.gl (by omega) hle]
        exact ih (m.gl + 1) (by omega) (by omega)

/-- **SourceMapSource leaf without columns**: holds for ANY attached map -/
theorem streamSMLinesFull_posOK (t : Text) (sm : SMap) (ha : IsAscii t) (hl : t.length ≤ USIZE_MAX) : PosOK (streamSMLinesFull t sm) := by
  have E := env_of_ascii t ha hl
  have hT := textOK_of_ascii t ha hl
  have htext := streamSMLinesFull_text t sm hT
  refine ⟨?_, ?_⟩
  · unfold streamSMLinesFull
    by_cases he : (splitLines t).isEmpty = true
    · simp only [he, if_true]; trivial
    · simp only [he, Bool.false_eq_true, if_false]
      obtain ⟨e, l, u⟩ := smLinesFullGo_spec (splitLines t) E.wf (decode sm.mappings) 1 (by omega) (by omega)
      have hp := smLinesFullGo_pos (splitLines t) E (decode sm.mappings) 1 (by omega) (by omega)
      rw [emitted_start _ E.wf] at hp e
      rw [List.nil_append] at e
      rw [posOKT_append, posOKT_append]
      refine ⟨⟨posOKT_nochunk _ _ (smSourceEvs_nochunk sm), ?_⟩, ?_⟩
      · rw [smSourceEvs_notext, List.nil_append]; exact hp
      · rw [evsText_append, smSourceEvs_notext, List.nil_append, List.nil_append, e]
        exact smWholeLines_pos (splitLines t) E _ _ _ rfl l u
  · rw [htext, adv_text_end]
    unfold streamSMLinesFull
    by_cases he : (splitLines t).isEmpty = true
    · have : splitLines t = [] := by simpa using he
      simp [this, lineLoopInfo]
    · simp only [he, Bool.false_eq_true, if_false]

/-- **the map-driven splitters**: a SourceMapSource without inner map, or the replay of a CachedSource -/
theorem streamSM_posOK (t : Text) (sm : SMap) (c : Bool) (ha : IsAscii t) (hl : t.length ≤ USIZE_MAX) (hm : c = true → MapInside t sm) :
    PosOK (streamSM t sm ⟨c, false⟩) := by
  cases c
  · exact streamSMLinesFull_posOK t sm ha hl
  · exact streamSMFull_posOK t sm ha hl (hm rfl)

end Rs
