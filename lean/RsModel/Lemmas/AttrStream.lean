import RsModel.Lemmas.AttrSM
/-!
# A stream that reports true positions attributes every byte as a lookup in its own chunk mappings does

This is the bridge between the chunk view (C06, C08) and the map view (C03, C10, C12): the list of chunk mappings of a stream,
read as segments of a source map, gives back the attribution the chunks carry.
-/
namespace Rs

/-- the mappings of the chunks, in delivery order (what `get_map` hands to the encoder) -/
def chunkMs : List Ev → List Mapping
  | [] => []
  | .chunk _ m :: es => m :: chunkMs es
  | _ :: es => chunkMs es

theorem posLe_trans {a b c : Pos} (h1 : posLe a b) (h2 : posLe b c) : posLe a c := by
  rcases h1 with h1 | h1 <;> rcases h2 with h2 | h2
  · exact Or.inl (by omega)
  · exact Or.inl (by omega)
  · exact Or.inl (by omega)
  · exact Or.inr ⟨by omega, by omega⟩

/-- every later chunk is reported at or after the current position -/
theorem chunkMs_after : ∀ (evs : List Ev) (pre : Text), posOKT pre evs → evsTL evs = false →
    ∀ x ∈ chunkMs evs, posLe (adv startPos pre) ⟨x.gl, x.gc⟩ := by
  intro evs
  induction evs with
  | nil => intro pre _ _ x hx; simp [chunkMs] at hx
  | cons e es ih =>
    intro pre hp hTL x hx
    have hTLs : evsTL es = false := by simp only [evsTL_cons, Bool.or_eq_false_iff] at hTL; exact hTL.2
    cases e with
    | chunk t m =>
      cases t with
      | none => simp [evsTL_cons, Ev.textless] at hTL
      | some t =>
        simp only [posOKT] at hp
        simp only [chunkMs, List.mem_cons] at hx
        rcases hx with rfl | hx
        · rw [← hp.1]; exact Or.inr ⟨rfl, Nat.le_refl _⟩
        · have := ih (pre ++ t) hp.2 hTLs x hx
          rw [adv_append] at this
          exact posLe_trans (adv_ge t _) this
    | source i s c => exact ih pre hp hTLs x (by simpa [chunkMs] using hx)
    | name i n => exact ih pre hp hTLs x (by simpa [chunkMs] using hx)

theorem attrFrom_nil (ms : List Mapping) (p : Pos) : attrFrom ms p [] = [] := rfl

/-- **chunk attribution = lookup in the chunk mappings** -/
theorem attr_of_chunks : ∀ (evs : List Ev) (P : List Mapping) (pre : Text), posOKT pre evs → ChunksTok evs → evsTL evs = false →
    (∀ p ∈ P, posLe ⟨p.gl, p.gc⟩ (adv startPos pre)) →
    attrFrom (P ++ chunkMs evs) (adv startPos pre) (evsText evs) = attrOf evs := by
  intro evs
  induction evs with
  | nil => intro P pre _ _ _ _; rfl
  | cons e es ih =>
    intro P pre hp hT hTL hP
    have hTs : ChunksTok es := fun t m hm => hT t m (by simp [hm])
    have hTLs : evsTL es = false := by simp only [evsTL_cons, Bool.or_eq_false_iff] at hTL; exact hTL.2
    cases e with
    | chunk t m =>
      cases t with
      | none => simp [evsTL_cons, Ev.textless] at hTL
      | some t =>
        simp only [posOKT] at hp
        obtain ⟨hpos, hrest⟩ := hp
        have htok := hT t m (by simp)
        simp only [chunkMs, evsText_cons, Ev.text, attrOf]
        rw [attrFrom_append]
        congr 1
        · -- the bytes of this chunk
          rw [← hpos]
          apply attrFrom_region _ m.orig t m.gl m.gc (lineLike_of_tok t htok)
          intro c hc1 hc2
          have hafter := chunkMs_after es (pre ++ t) hrest hTLs
          -- position after the chunk
          have hend : posLt ⟨m.gl, c⟩ (adv startPos (pre ++ t)) := by
            rw [adv_append, ← hpos]
            obtain ⟨s, hs, hcase⟩ := htok
            rcases hcase with rfl | rfl
            · rw [adv_noNL t _ hs]; exact Or.inr ⟨rfl, by simp only; omega⟩
            · rw [adv_line s _ hs]; exact Or.inl (by simp only; omega)
          unfold lookupCols
          rw [lookupGo_append]
          simp only [lookupGo, and_self, hc1, if_true]
          rw [lookupGo_skip m.gl c (chunkMs es) _ ?_]
          · rfl
          · intro x hx ⟨h1, h2⟩
            have := hafter x hx
            rcases hend with h | h <;> rcases this with h' | h' <;> simp only at h h' <;> omega
        · -- the rest, with this chunk's mapping moved to the processed prefix
          have := ih (P ++ [m]) (pre ++ t) hrest hTs hTLs (by
            intro p hp
            rcases List.mem_append.1 hp with hp | hp
            · rw [adv_append]; exact posLe_trans (hP p hp) (adv_ge t _)
            · simp only [List.mem_singleton] at hp; subst hp
              rw [adv_append, ← hpos]; exact adv_ge t _)
          rw [List.append_assoc] at this
          rw [← adv_append]
          exact this
    | source i s c =>
      simp only [chunkMs, evsText_cons, Ev.text, List.nil_append, attrOf]
      exact ih P pre hp hTs hTLs hP
    | name i n =>
      simp only [chunkMs, evsText_cons, Ev.text, List.nil_append, attrOf]
      exact ih P pre hp hTs hTLs hP

/-- for a whole stream -/
theorem attr_of_stream (r : SResult) (hp : PosOK r) (hT : ChunksTok r.evs) (hTL : evsTL r.evs = false) :
    attrFrom (chunkMs r.evs) startPos (evsText r.evs) = attrOf r.evs := by
  have := attr_of_chunks r.evs [] [] hp.1 hT hTL (by simp)
  rw [List.nil_append] at this
  exact this

end Rs
