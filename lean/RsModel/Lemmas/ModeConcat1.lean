import RsModel.Lemmas.ModeLeaves
import RsModel.Lemmas.DeclConcat
/-!
# final_source mode attributes like normal mode: ConcatSource, part 1

Lookups in the chunk mappings a ConcatSource delivers for one child, expressed through lookups in the child's own
(translated) chunk mappings.  Everything here holds for either mode.
-/
namespace Rs

/-- `concatEv`'s translation of an original location through the child's index tables -/
def trans (sim nim : List Nat) (orig : Option Orig) : Option Orig :=
  match orig.bind (fun o => sim[o.src]?), orig with
  | some si, some o => some ⟨si, o.line, o.col, (orig.bind (·.name)).bind fun n => nim[n]?⟩
  | _, _ => none

theorem trans_none (sim nim : List Nat) : trans sim nim none = none := rfl

/-- the child's chunk mappings at their own positions, with the original locations translated as `concatEvs` translates them -/
def trMs (final : Bool) : CSt → List Ev → List Mapping
  | _, [] => []
  | st, .chunk t m :: es => ⟨m.gl, m.gc, trans st.sim st.nim m.orig⟩ :: trMs final (concatEv final st (.chunk t m)).1 es
  | st, .source i s c :: es => trMs final (concatEv final st (.source i s c)).1 es
  | st, .name i n :: es => trMs final (concatEv final st (.name i n)).1 es

/-- the mappings `concatEv` delivers for a chunk -/
theorem concatEv_chunk_ms (final : Bool) (st : CSt) (text : Option Text) (m : Mapping) :
    chunkMs (concatEv final st (.chunk text m)).2 =
      (if (st.needClose && (m.gl != 1 || m.gc != 0)) = true then [(⟨st.lineOff + 1, st.colOff, none⟩ : Mapping)] else [])
        ++ [⟨m.gl + st.lineOff, if (m.gl == 1) = true then m.gc + st.colOff else m.gc, trans st.sim st.nim m.orig⟩] := by
  simp only [concatEv, chunkMs_app]
  congr 1
  · split <;> rfl
  · unfold trans
    cases h1 : (m.orig.bind fun o => st.sim[o.src]?) <;> cases h2 : m.orig <;> simp [chunkMs]

theorem concatEv_chunk_st (final : Bool) (st : CSt) (text : Option Text) (m : Mapping) :
    (concatEv final st (.chunk text m)).1 = { st with needClose := false, lastMappingLine := if (trans st.sim st.nim m.orig).isNone then 0 else m.gl } := by
  simp only [concatEv]
  congr 1
  unfold trans
  cases h1 : m.orig.bind (fun o => st.sim[o.src]?) with
  | none => simp
  | some si =>
    cases h2 : m.orig with
    | none => rw [h2] at h1; simp at h1
    | some o => simp

theorem concatEv_decl_ms (final : Bool) (st : CSt) (e : Ev) (he : e.isChunk = false) :
    chunkMs (concatEv final st e).2 = [] ∧ (concatEv final st e).1.needClose = st.needClose
    ∧ (concatEv final st e).1.lineOff = st.lineOff ∧ (concatEv final st e).1.colOff = st.colOff
    ∧ (concatEv final st e).1.lastMappingLine = st.lastMappingLine := by
  cases e with
  | chunk t m => simp [Ev.isChunk] at he
  | source i s c =>
    simp only [concatEv, globalSource]
    cases st.sourceMapping.get? s <;> simp [chunkMs]
  | name i n =>
    simp only [concatEv, globalName]
    cases st.nameMapping.get? n <;> simp [chunkMs]

/-- does the first chunk of the stream stand somewhere else than at (1, 0)? -/
def firstOff : List Ev → Bool
  | [] => false
  | .chunk _ m :: _ => (m.gl != 1 || m.gc != 0)
  | _ :: es => firstOff es

def hasChunk : List Ev → Bool
  | [] => false
  | .chunk _ _ :: _ => true
  | _ :: es => hasChunk es

theorem lookupGo_acc (l c : Nat) : ∀ (ms : List Mapping) (acc : Option (Option Orig)),
    lookupGo l c acc ms = match lookupGo l c none ms with | some x => some x | none => acc := by
  intro ms
  induction ms with
  | nil => intro acc; rfl
  | cons m ms ih =>
    intro acc
    simp only [lookupGo]
    by_cases hm : m.gl = l ∧ m.gc ≤ c
    · rw [if_pos hm, if_pos hm, ih (some m.orig)]
      cases lookupGo l c none ms <;> rfl
    · rw [if_neg hm, if_neg hm]
      exact ih acc

theorem lookupGo_close (L C : Nat) (acc : Option (Option Orig)) (b : Bool) (pl pc : Nat) :
    lookupGo L C acc (if b = true then [(⟨pl, pc, none⟩ : Mapping)] else []) = if b = true ∧ pl = L ∧ pc ≤ C then some none else acc := by
  cases b
  · simp [lookupGo]
  · simp [lookupGo]

/-- the generated position of a child-local position `(l', c')`, for a walker whose child starts at `(lineOff + 1, colOff)` -/
def shiftL (st : CSt) (l' : Nat) : Nat := l' + st.lineOff
def shiftC (st : CSt) (l' c' : Nat) : Nat := if l' = 1 then c' + st.colOff else c'

theorem shift_match (st : CSt) (l' c' : Nat) (m : Mapping) :
    (m.gl + st.lineOff = shiftL st l' ∧ (if (m.gl == 1) = true then m.gc + st.colOff else m.gc) ≤ shiftC st l' c') ↔ (m.gl = l' ∧ m.gc ≤ c') := by
  unfold shiftL shiftC
  constructor
  · rintro ⟨h1, h2⟩
    have : m.gl = l' := by omega
    subst this
    refine ⟨rfl, ?_⟩
    by_cases h : m.gl = 1
    · simp [h] at h2; omega
    · simp [h] at h2; exact h2
  · rintro ⟨rfl, h2⟩
    refine ⟨rfl, ?_⟩
    by_cases h : m.gl = 1
    · simp [h]; omega
    · simp [h]; exact h2

/-- **lookups through `concatEvs`**: the delivered mappings answer a lookup at a shifted position like the child's translated
mappings answer it at the local position; when they have no answer, a pending close (emitted before the first chunk, when that
chunk is not at the child's origin) answers "unmapped" on the child's first line, and otherwise the earlier answer stands. -/
theorem concatEvs_look (final : Bool) (l' c' : Nat) : ∀ (evs : List Ev) (st : CSt) (acc0 : Option (Option Orig)),
    lookupGo (shiftL st l') (shiftC st l' c') acc0 (chunkMs (concatEvs final st evs).2) =
      match lookupGo l' c' none (trMs final st evs) with
      | some x => some x
      | none => if st.needClose = true ∧ l' = 1 ∧ firstOff evs = true then some none else acc0 := by
  intro evs
  induction evs with
  | nil => intro st acc0; simp [concatEvs, chunkMs, trMs, lookupGo, firstOff]
  | cons e es ih =>
    intro st acc0
    simp only [concatEvs, chunkMs_app, lookupGo_append]
    cases e with
    | chunk text m =>
      have hst := concatEv_chunk_st final st text m
      have hsl : shiftL (concatEv final st (.chunk text m)).1 l' = shiftL st l' := by rw [hst]; rfl
      have hsc : shiftC (concatEv final st (.chunk text m)).1 l' c' = shiftC st l' c' := by rw [hst]; rfl
      rw [← hsl, ← hsc, ih, hsl, hsc]
      have hnc : (concatEv final st (.chunk text m)).1.needClose = false := by rw [hst]
      simp only [hnc, Bool.false_eq_true, false_and, if_false, trMs, lookupGo, firstOff]
      rw [lookupGo_acc l' c' _ (if m.gl = l' ∧ m.gc ≤ c' then some (trans st.sim st.nim m.orig) else none)]
      cases hr : lookupGo l' c' none (trMs final (concatEv final st (.chunk text m)).1 es) with
      | some x => rfl
      | none =>
        simp only
        rw [concatEv_chunk_ms, lookupGo_append]
        simp only [lookupGo]
        have hmatch := shift_match st l' c' m
        by_cases hm : m.gl = l' ∧ m.gc ≤ c'
        · rw [if_pos hm, if_pos (hmatch.2 hm)]
        · have hm' : ¬ (m.gl + st.lineOff = shiftL st l' ∧ (if (m.gl == 1) = true then m.gc + st.colOff else m.gc) ≤ shiftC st l' c') :=
            fun h => hm (hmatch.1 h)
          rw [if_neg hm, if_neg hm']
          -- the close, if any
          rw [lookupGo_close]
          have hiff : ((st.needClose && (m.gl != 1 || m.gc != 0)) = true ∧ st.lineOff + 1 = shiftL st l' ∧ st.colOff ≤ shiftC st l' c')
              ↔ (st.needClose = true ∧ l' = 1 ∧ (m.gl != 1 || m.gc != 0) = true) := by
            unfold shiftL shiftC
            constructor
            · rintro ⟨a, b, _⟩
              simp only [Bool.and_eq_true] at a
              exact ⟨a.1, by omega, a.2⟩
            · rintro ⟨a, b, c⟩
              subst b
              exact ⟨by simp only [Bool.and_eq_true]; exact ⟨a, c⟩, by omega, by simp⟩
          simp only [hiff]
          by_cases hq : st.needClose = true ∧ l' = 1 ∧ (m.gl != 1 || m.gc != 0) = true <;> simp [hq]
    | source i s c =>
      obtain ⟨d1, d2, d3, d4, _⟩ := concatEv_decl_ms final st (.source i s c) rfl
      have hsl : shiftL (concatEv final st (.source i s c)).1 l' = shiftL st l' := by unfold shiftL; rw [d3]
      have hsc : shiftC (concatEv final st (.source i s c)).1 l' c' = shiftC st l' c' := by unfold shiftC; rw [d4]
      rw [d1]
      simp only [lookupGo, trMs, firstOff]
      rw [← hsl, ← hsc, ih, d2]
      cases lookupGo l' c' none (trMs final (concatEv final st (.source i s c)).1 es) with
      | some x => rfl
      | none => by_cases hq : st.needClose = true ∧ l' = 1 ∧ firstOff es = true <;> simp [hq]
    | name i n =>
      obtain ⟨d1, d2, d3, d4, _⟩ := concatEv_decl_ms final st (.name i n) rfl
      have hsl : shiftL (concatEv final st (.name i n)).1 l' = shiftL st l' := by unfold shiftL; rw [d3]
      have hsc : shiftC (concatEv final st (.name i n)).1 l' c' = shiftC st l' c' := by unfold shiftC; rw [d4]
      rw [d1]
      simp only [lookupGo, trMs, firstOff]
      rw [← hsl, ← hsc, ih, d2]
      cases lookupGo l' c' none (trMs final (concatEv final st (.name i n)).1 es) with
      | some x => rfl
      | none => by_cases hq : st.needClose = true ∧ l' = 1 ∧ firstOff es = true <;> simp [hq]

end Rs
