import RsModel.Lemmas.RopeSlice
import RsModel.Lemmas.Lines
/-! # `Rope::lines_impl`: the items render to the lines of the flat string -/
namespace Rs
namespace Rope

theorem idxOf_none_not_mem (t : Text) (h : t.idxOf? NL = none) : ∀ c ∈ t, c ≠ NL := by
  induction t with
  | nil => intro c hc; simp at hc
  | cons b bs ih =>
    rw [List.idxOf?_cons] at h
    split at h
    · cases h
    · rename_i hb
      have hbs : bs.idxOf? NL = none := by simpa using h
      intro c hc
      simp only [List.mem_cons] at hc
      rcases hc with rfl | hc
      · simpa using hb
      · exact ih hbs c hc

theorem splitAux_noNL : ∀ (t acc : Text), t.idxOf? NL = none →
    splitLinesAux acc t = if (acc.reverse ++ t).isEmpty then [] else [acc.reverse ++ t] := by
  intro t
  induction t with
  | nil => intro acc _; simp [splitLinesAux]
  | cons b bs ih =>
    intro acc h
    rw [List.idxOf?_cons] at h
    split at h
    · cases h
    · rename_i hb
      have hbs : bs.idxOf? NL = none := by simpa using h
      have hne : ¬ b = NL := by simpa using hb
      simp only [splitLinesAux, hne, if_false]
      rw [ih (b :: acc) hbs]
      simp

theorem splitAux_NL : ∀ (t acc : Text) (i : Nat), t.idxOf? NL = some i →
    splitLinesAux acc t = (acc.reverse ++ t.take (i + 1)) :: splitLines (t.drop (i + 1)) := by
  intro t
  induction t with
  | nil => intro acc i h; simp at h
  | cons b bs ih =>
    intro acc i h
    rw [List.idxOf?_cons] at h
    split at h
    · rename_i hb
      have hbe : b = NL := by simpa using hb
      cases h
      simp [splitLinesAux, hbe, splitLines]
    · rename_i hb
      have hne : ¬ b = NL := by simpa using hb
      cases hbs : bs.idxOf? NL with
      | none => simp [hbs] at h
      | some j =>
        simp only [hbs, Option.map_some, Option.some.injEq] at h
        subst h
        simp only [splitLinesAux, hne, if_false]
        rw [ih (b :: acc) j hbs]
        simp

/-- the text-level specification of `lines_impl(trailing)` -/
def linesSpec (t : Text) (trailing : Bool) : List Text :=
  splitLines t ++ (if trailing && (t.isEmpty || endsWithNL t) then [[]] else [])

theorem lines_eq_spec (r : Rope) (trailing : Bool) : r.lines trailing = linesSpec r.render trailing := by
  unfold lines linesSpec
  cases trailing <;> simp <;> split <;> simp_all

theorem linesSpec_nil (tr : Bool) : linesSpec [] tr = if tr then [[]] else [] := by
  cases tr <;> simp [linesSpec, splitLines, splitLinesAux]

theorem endsWithNL_drop (t : Text) (k : Nat) (h : k < t.length) : endsWithNL (t.drop k) = endsWithNL t := by
  unfold endsWithNL
  rw [List.getLast?_drop]
  simp [show ¬ t.length ≤ k from by omega]

theorem take_succ_endsNL (t : Text) (i : Nat) (h : t.idxOf? NL = some i) : i < t.length ∧ endsWithNL (t.take (i + 1)) = true := by
  induction t generalizing i with
  | nil => simp at h
  | cons b bs ih =>
    rw [List.idxOf?_cons] at h
    split at h
    · rename_i hb
      have hbe : b = NL := by simpa using hb
      cases h; simp [endsWithNL, hbe]
    · cases hbs : bs.idxOf? NL with
      | none => simp [hbs] at h
      | some j =>
        simp only [hbs, Option.map_some, Option.some.injEq] at h
        subst h
        obtain ⟨a, b'⟩ := ih j hbs
        refine ⟨by simp; omega, ?_⟩
        simp only [List.take_succ_cons, endsWithNL] at b' ⊢
        cases hx : bs.take (j + 1) with
        | nil => simp [hx] at b'
        | cons y ys => rw [hx] at b'; simpa [List.getLast?_cons_cons] using b'

theorem linesSpec_NL (t : Text) (tr : Bool) (i : Nat) (h : t.idxOf? NL = some i) :
    linesSpec t tr = t.take (i + 1) :: linesSpec (t.drop (i + 1)) tr := by
  obtain ⟨hi, hnl⟩ := take_succ_endsNL t i h
  unfold linesSpec
  rw [show splitLines t = splitLinesAux [] t from rfl, splitAux_NL t [] i h]
  simp only [List.reverse_nil, List.nil_append, List.cons_append]
  congr 2
  have hte : t.isEmpty = false := by cases t <;> simp_all
  by_cases hr : i + 1 < t.length
  · have : (t.drop (i + 1)).isEmpty = false := by
      cases hd : t.drop (i + 1) with
      | nil => have := congrArg List.length hd; simp at this; omega
      | cons _ _ => rfl
    rw [this, hte, endsWithNL_drop t (i + 1) hr]
  · have hd : t.drop (i + 1) = [] := List.drop_eq_nil_of_le (by omega)
    have ht : t.take (i + 1) = t := List.take_of_length_le (by omega)
    rw [hd, hte]
    rw [ht] at hnl
    simp [hnl]

theorem linesSpec_noNL (t : Text) (tr : Bool) (h : t.idxOf? NL = none) (hne : t ≠ []) : linesSpec t tr = [t] := by
  unfold linesSpec
  rw [show splitLines t = splitLinesAux [] t from rfl, splitAux_noNL t [] h]
  have hte : t.isEmpty = false := by cases t <;> simp_all
  have hnl : endsWithNL t = false := by
    unfold endsWithNL
    cases hl : t.getLast? with
    | none => rfl
    | some c =>
      have := idxOf_none_not_mem t h c (List.mem_of_getLast? hl)
      simpa using this
  simp [hte, hnl]

/-! ## Light ropes -/
theorem linesLight_spec (s : Text) (tr : Bool) : ∀ (fuel byteIdx : Nat), byteIdx ≤ s.length → s.length - byteIdx + 2 ≤ fuel →
    (linesCollectLight s tr fuel byteIdx false).map render = linesSpec (s.drop byteIdx) tr := by
  intro fuel
  induction fuel with
  | zero => intro b _ h; omega
  | succ fuel ih =>
    intro b hb hf
    unfold linesCollectLight
    simp only [Bool.false_eq_true, if_false]
    by_cases he : b = s.length
    · subst he
      simp only [if_true, List.drop_length, linesSpec_nil]
      cases tr <;> rfl
    · simp only [he, if_false]
      have hlt : b < s.length := by omega
      unfold findNL
      cases hf2 : (s.drop b).idxOf? NL with
      | none =>
        simp only [List.map_cons, List.map_nil, render]
        rw [linesSpec_noNL _ tr hf2 (by intro e; have := congrArg List.length e; simp at this; omega)]
      | some idx =>
        obtain ⟨hi, _⟩ := take_succ_endsNL _ idx hf2
        simp only [List.length_drop] at hi
        simp only [List.map_cons, render]
        rw [linesSpec_NL _ tr idx hf2, ih (b + idx + 1) (by omega) (by omega), List.drop_drop]
        congr 1
        · unfold bsub; congr 1; omega

end Rope
end Rs

namespace Rs
namespace Rope

/-! ## Full ropes -/

theorem idxOf_append_none (x y : Text) (hx : x.idxOf? NL = none) : (x ++ y).idxOf? NL = (y.idxOf? NL).map (· + x.length) := by
  induction x with
  | nil => simp
  | cons b bs ih =>
    rw [List.idxOf?_cons] at hx
    split at hx
    · cases hx
    · rename_i hb
      have hbs : bs.idxOf? NL = none := by simpa using hx
      rw [List.cons_append, List.idxOf?_cons]
      simp only [hb, Bool.false_eq_true, if_false, ih hbs, Option.map_map]
      congr 1 <;> (funext k; simp only [Function.comp, List.length_cons]; omega)

theorem idxOf_append_some (x y : Text) (i : Nat) (hx : x.idxOf? NL = some i) : (x ++ y).idxOf? NL = some i := by
  induction x generalizing i with
  | nil => simp at hx
  | cons b bs ih =>
    rw [List.idxOf?_cons] at hx
    rw [List.cons_append, List.idxOf?_cons]
    split at hx
    · rename_i hb; simp [hb]; cases hx; rfl
    · rename_i hb
      cases hbs : bs.idxOf? NL with
      | none => simp [hbs] at hx
      | some j =>
        simp only [hbs, Option.map_some, Option.some.injEq] at hx
        simp [hb, ih j hbs, hx]

/-- text from position `(ci, ic)` on -/
def remFrom (chunks : List (Text × Nat)) (ci ic : Nat) : Text := (flat (chunks.drop ci)).drop ic

theorem flat_drop_cons (chunks : List (Text × Nat)) (ci : Nat) (h : ci < chunks.length) :
    flat (chunks.drop ci) = (chunks.getD ci default).1 ++ flat (chunks.drop (ci + 1)) := by
  rw [List.drop_eq_getElem_cons h]
  simp only [flat, List.map_cons, List.flatten_cons, List.getD_eq_getElem?_getD, List.getElem?_eq_getElem h, Option.getD_some]

theorem remFrom_cons (chunks : List (Text × Nat)) (ci ic : Nat) (h : ci < chunks.length) (hic : ic ≤ (chunks.getD ci default).1.length) :
    remFrom chunks ci ic = (chunks.getD ci default).1.drop ic ++ remFrom chunks (ci + 1) 0 := by
  unfold remFrom
  rw [flat_drop_cons chunks ci h, List.drop_append_of_le_length hic, List.drop_zero]

theorem remFrom_end (chunks : List (Text × Nat)) (ci ic : Nat) (h : chunks.length ≤ ci) : remFrom chunks ci ic = [] := by
  unfold remFrom; rw [List.drop_eq_nil_of_le h]; simp [flat]

/-- `scanNL` finds the first line break of the remaining text: `(ei, ein)` is the position just after it -/
theorem scanNL_spec (chunks : List (Text × Nat)) : ∀ (fuel ci ic : Nat), chunks.length - ci + 1 ≤ fuel →
    (ci < chunks.length → ic ≤ (chunks.getD ci default).1.length) →
    match scanNL chunks fuel ci ic with
    | none => (remFrom chunks ci ic).idxOf? NL = none
    | some (ei, ein) => ci ≤ ei ∧ ei < chunks.length ∧ ein ≤ (chunks.getD ei default).1.length ∧ (ei = ci → ic < ein)
        ∧ ∃ k, (remFrom chunks ci ic).idxOf? NL = some k
          ∧ total (chunks.take ci) + ic + k + 1 = total (chunks.take ei) + ein := by
  intro fuel
  induction fuel with
  | zero => intro ci ic h; omega
  | succ fuel ih =>
    intro ci ic hf hic
    unfold scanNL
    by_cases hci : ci < chunks.length
    · rw [getElem?_getD chunks ci hci]
      have hic' := hic hci
      simp only
      unfold findNL
      cases hn : ((chunks.getD ci default).1.drop ic).idxOf? NL with
      | some idx =>
        simp only
        obtain ⟨hi, _⟩ := take_succ_endsNL _ idx hn
        simp only [List.length_drop] at hi
        refine ⟨Nat.le_refl _, hci, by omega, fun _ => by omega, idx, ?_, by omega⟩
        rw [remFrom_cons chunks ci ic hci hic']
        exact idxOf_append_some _ _ idx hn
      | none =>
        simp only
        have := ih (ci + 1) 0 (by omega) (fun _ => Nat.zero_le _)
        cases hs : scanNL chunks fuel (ci + 1) 0 with
        | none =>
          rw [hs] at this
          simp only at this ⊢
          rw [remFrom_cons chunks ci ic hci hic', idxOf_append_none _ _ hn, this]; rfl
        | some p =>
          obtain ⟨ei, ein⟩ := p
          rw [hs] at this
          simp only at this ⊢
          obtain ⟨a, b, c, _, k, hk, hsum⟩ := this
          refine ⟨by omega, b, c, fun h => by omega, k + ((chunks.getD ci default).1.drop ic).length, ?_, ?_⟩
          · rw [remFrom_cons chunks ci ic hci hic', idxOf_append_none _ _ hn, hk]; rfl
          · rw [total_take_succ chunks ci hci] at hsum
            simp only [List.length_drop]; omega
    · have : chunks[ci]? = none := by simp; omega
      rw [this]
      simp only
      rw [remFrom_end chunks ci ic (by omega)]; rfl

end Rope
end Rs

namespace Rs
namespace Rope

theorem flat_cons' (c : Text) (l : Nat) (out : List (Text × Nat)) : flat ((c, l) :: out) = c ++ flat out := by simp [flat]

theorem bsub_piece_whole (ps : List (Text × Nat)) (i : Nat) (hi : i < ps.length) :
    bsub (flat ps) (total (ps.take i)) (total (ps.take (i + 1))) = (ps.getD i default).1 := by
  rw [bsub_in_piece ps i _ _ hi (Nat.le_refl _) (total_take_le ps _ _ (by omega)) (by rw [total_take_succ ps i hi]; omega),
    Nat.sub_self, total_take_succ ps i hi, Nat.add_sub_cancel_left, bsub_whole]

/-- pieces after the first one, up to the cut `e` in piece `k1` -/
theorem linePieces_tailA (ps : List (Text × Nat)) (k0 start k1 e : Nat) (hk1 : k1 < ps.length) (he : e ≤ (ps.getD k1 default).1.length) :
    ∀ (n i l : Nat), k0 < i → i ≤ k1 → n = k1 + 1 - i →
      flat (linePieces ps k0 start k1 (some e) n i l) = bsub (flat ps) (total (ps.take i)) (total (ps.take k1) + e) := by
  intro n
  induction n with
  | zero => intro i l _ h2 h3; omega
  | succ n ih =>
    intro i l h1 h2 h3
    have hi : i < ps.length := by omega
    unfold linePieces
    rw [getElem?_getD ps i hi]
    have hne : ¬ i = k0 := by omega
    simp only [hne, if_false]
    by_cases hik : i = k1
    · subst hik
      have hn0 : n = 0 := by omega
      subst hn0
      simp only [if_true, linePieces]
      rw [flat_cons', show flat ([] : List (Text × Nat)) = [] from rfl, List.append_nil,
        bsub_in_piece ps i _ _ hi (Nat.le_refl _) (by omega) (by omega), Nat.sub_self, Nat.add_sub_cancel_left]
      simp [bsub]
    · simp only [hik, if_false, flat_cons']
      rw [ih (i + 1) _ (by omega) (by omega) (by omega)]
      have hT : total (ps.take (i + 1)) ≤ total (ps.take k1) + e := by
        have := total_take_le ps (i + 1) k1 (by omega); omega
      rw [bsub_split (flat ps) (total (ps.take i)) (total (ps.take (i + 1))) _ (total_take_le ps _ _ (by omega)) hT, bsub_piece_whole ps i hi]

/-- pieces after the first one, to the end of the rope -/
theorem linePieces_tailB (ps : List (Text × Nat)) (k0 start : Nat) :
    ∀ (n i l : Nat), k0 < i → i ≤ ps.length → n = ps.length - i →
      flat (linePieces ps k0 start ps.length none n i l) = (flat ps).drop (total (ps.take i)) := by
  intro n
  induction n with
  | zero =>
    intro i l _ h2 h3
    have : i = ps.length := by omega
    subst this
    simp only [linePieces, flat, List.map_nil, List.flatten_nil]
    rw [List.drop_eq_nil_of_le]
    rw [List.take_length]
    exact Nat.le_of_eq (render_length_full ps)
  | succ n ih =>
    intro i l h1 h2 h3
    have hi : i < ps.length := by omega
    unfold linePieces
    rw [getElem?_getD ps i hi]
    have hne : ¬ i = k0 := by omega
    have hne2 : ¬ i = ps.length := by omega
    simp only [hne, hne2, if_false, flat_cons']
    rw [ih (i + 1) _ (by omega) (by omega) (by omega)]
    have hsplit : (flat ps).drop (total (ps.take i)) = bsub (flat ps) (total (ps.take i)) (total (ps.take (i + 1))) ++ (flat ps).drop (total (ps.take (i + 1))) := by
      unfold bsub
      have hle := total_take_le ps i (i + 1) (by omega)
      have : (flat ps).drop (total (ps.take (i + 1))) = ((flat ps).drop (total (ps.take i))).drop (total (ps.take (i + 1)) - total (ps.take i)) := by
        rw [List.drop_drop]; congr 1; omega
      rw [this]; exact (List.take_append_drop _ _).symm
    rw [hsplit, bsub_piece_whole ps i hi]

end Rope
end Rs

namespace Rs
namespace Rope

theorem drop_eq_remFrom (chunks : List (Text × Nat)) (ci ic : Nat) :
    (flat chunks).drop (total (chunks.take ci) + ic) = remFrom chunks ci ic := by
  unfold remFrom
  have hsplit : flat chunks = flat (chunks.take ci) ++ flat (chunks.drop ci) := by rw [← flat_append, List.take_append_drop]
  rw [hsplit, List.drop_append, List.drop_eq_nil_of_le (by rw [flat_length]; omega), List.nil_append, flat_length]
  congr 1; omega

/-- the iterator stands at a real position of the rope -/
structure SInv (chunks : List (Text × Nat)) (s : LSt) : Prop where
  idx : s.chunkIdx < chunks.length
  inb : s.inChunk ≤ (chunks.getD s.chunkIdx default).1.length
  off : s.byteIdx = total (chunks.take s.chunkIdx) + s.inChunk

theorem take_take_prefix (x y : Text) (n : Nat) (h : n ≤ x.length) : (x ++ y).take n = x.take n :=
  List.take_append_of_le_length h

theorem total_eq_flat_length (ps : List (Text × Nat)) : total ps = (flat ps).length := (flat_length ps).symm

/-- one call of `Lines::next` on a multi-piece rope -/
theorem linesNext_spec (chunks : List (Text × Nat)) (hne : chunks ≠ []) (tr : Bool) :
    ∀ (fuel : Nat) (bi ci ic : Nat), chunks.length - ci + 1 ≤ fuel → SInv chunks ⟨bi, ci, ic, false⟩ →
      ((flat chunks).drop bi = [] →
          linesNextFull chunks (total chunks) tr fuel ⟨bi, ci, ic, false⟩ = if tr then some (.light [], ⟨bi, ci, ic, true⟩) else none)
      ∧ (∀ k, ((flat chunks).drop bi).idxOf? NL = some k → ∃ r bi' ci' ic', linesNextFull chunks (total chunks) tr fuel ⟨bi, ci, ic, false⟩ = some (r, ⟨bi', ci', ic', false⟩)
          ∧ r.render = ((flat chunks).drop bi).take (k + 1) ∧ SInv chunks ⟨bi', ci', ic', false⟩ ∧ bi' = bi + k + 1)
      ∧ ((flat chunks).drop bi ≠ [] → ((flat chunks).drop bi).idxOf? NL = none →
          ∃ r s', linesNextFull chunks (total chunks) tr fuel ⟨bi, ci, ic, false⟩ = some (r, s') ∧ r.render = (flat chunks).drop bi ∧ s'.ended = true) := by
  intro fuel
  induction fuel with
  | zero => intro bi ci ic h; omega
  | succ fuel ih =>
    intro bi ci ic hf hs
    obtain ⟨h1, h2, h3⟩ := hs
    simp only at h1 h2 h3
    have hlenF : (flat chunks).length = total chunks := flat_length chunks
    have hTle : total (chunks.take ci) + (chunks.getD ci default).1.length ≤ total chunks := by
      have := total_take_le chunks (ci + 1) chunks.length (by omega)
      rw [total_take_succ chunks _ h1, total_take_all chunks _ (Nat.le_refl _)] at this; exact this
    have hR : (flat chunks).drop bi = remFrom chunks ci ic := by rw [h3]; exact drop_eq_remFrom chunks _ _
    have hie : chunks.isEmpty = false := by cases chunks <;> simp_all
    unfold linesNextFull
    simp only [Bool.false_eq_true, if_false, hie]
    by_cases hend : bi = total chunks
    · -- nothing left
      simp only [hend, if_true]
      have hnil : (flat chunks).drop (total chunks) = [] := List.drop_eq_nil_of_le (by omega)
      refine ⟨?_, ?_, ?_⟩
      · intro _; cases tr <;> simp
      · intro k hk; rw [hnil] at hk; simp at hk
      · intro hne'; exact absurd hnil hne'
    · simp only [hend, if_false]
      have hlt : bi < total chunks := by omega
      have hRne : (flat chunks).drop bi ≠ [] := by
        intro e; have := congrArg List.length e; simp at this; omega
      have hc : (chunks.getD ci ([], 0)).1 = (chunks.getD ci default).1 := rfl
      simp only [hc]
      by_cases hadv : ic = (chunks.getD ci default).1.length ∧ ci < chunks.length - 1
      · -- at the end of a piece that is not the last: move on
        rw [if_pos hadv]
        have hs' : SInv chunks ⟨bi, ci + 1, 0, false⟩ :=
          ⟨by simp only; omega, Nat.zero_le _, by simp only; rw [h3, total_take_succ chunks _ h1, hadv.1]; omega⟩
        obtain ⟨_, i2, i3⟩ := ih bi (ci + 1) 0 (by omega) hs'
        exact ⟨fun e => absurd e hRne, i2, i3⟩
      · rw [if_neg hadv]
        have hsc := scanNL_spec chunks (chunks.length + 1) ci ic (by omega) (fun _ => h2)
        cases hscan : scanNL chunks (chunks.length + 1) ci ic with
        | some p =>
          obtain ⟨ei, ein⟩ := p
          rw [hscan] at hsc
          simp only at hsc ⊢
          obtain ⟨a1, a2, a3, a4, k, hk, hsum⟩ := hsc
          rw [← hR] at hk
          refine ⟨fun e => absurd e hRne, ?_, fun _ hn => by rw [hk] at hn; cases hn⟩
          intro k' hk'
          rw [hk] at hk'; cases hk'
          by_cases hsame : ci = ei
          · subst hsame
            simp only [if_true]
            have hicl := a4 rfl
            refine ⟨_, _, _, _, rfl, ?_, ⟨h1, a3, by simp only; omega⟩, by omega⟩
            simp only [render]
            rw [hR, remFrom_cons chunks _ _ h1 h2, take_take_prefix _ _ _ (by simp only [List.length_drop]; omega)]
            unfold bsub; congr 1; omega
          · simp only [hsame, if_false]
            have hlt2 : ci < ei := by omega
            have hn : ei + 1 - ci = (ei - ci) + 1 := by omega
            -- the pieces render to the window
            have hflat : flat (linePieces chunks ci ic ei (some ein) (ei + 1 - ci) ci 0)
                = ((flat chunks).drop bi).take (k + 1) := by
              rw [hn]
              unfold linePieces
              rw [getElem?_getD chunks _ h1]
              simp only [if_true, flat_cons']
              rw [linePieces_tailA chunks ci ic ei ein a2 a3 (ei - ci) (ci + 1) _ (by omega) (by omega) (by omega)]
              have hb : ((flat chunks).drop bi).take (k + 1) = bsub (flat chunks) bi (total (chunks.take ei) + ein) := by
                unfold bsub; congr 1; omega
              rw [hb, bsub_split (flat chunks) bi (total (chunks.take (ci + 1))) _ (by rw [total_take_succ chunks _ h1]; omega)
                (by have := total_take_le chunks (ci + 1) ei (by omega); omega)]
              congr 1
              rw [h3, bsub_in_piece chunks ci _ _ h1 (by omega) (by rw [total_take_succ chunks _ h1]; omega) (by rw [total_take_succ chunks _ h1]; omega),
                total_take_succ chunks _ h1]
              unfold bsub
              rw [Nat.add_sub_cancel_left, Nat.add_sub_cancel_left, List.take_of_length_le (by simp)]
            have hlen : ((linePieces chunks ci ic ei (some ein) (ei + 1 - ci) ci 0).map (·.1.length)).sum = k + 1 := by
              have := congrArg List.length hflat
              rw [flat_length] at this
              simp only [total] at this
              rw [this, List.length_take, List.length_drop]
              have hkl : k < ((flat chunks).drop bi).length := (take_succ_endsNL _ k hk).1
              simp only [List.length_drop] at hkl
              omega
            refine ⟨_, _, _, _, rfl, by simp only [render]; exact hflat, ⟨a2, a3, by simp only; rw [hlen]; omega⟩, by rw [hlen]; omega⟩
        | none =>
          rw [hscan] at hsc
          simp only at hsc ⊢
          rw [← hR] at hsc
          refine ⟨fun e => absurd e hRne, ?_, fun _ _ => ?_⟩
          · intro k hk; rw [hsc] at hk; cases hk
          by_cases hlast : chunks.length - ci = 1
          · simp only [hlast, if_true]
            refine ⟨_, _, rfl, ?_, rfl⟩
            simp only [render]
            rw [hR, remFrom_cons chunks _ _ h1 h2, remFrom_end chunks _ _ (by omega), List.append_nil]
          · simp only [hlast, if_false]
            refine ⟨_, _, rfl, ?_, rfl⟩
            simp only [render]
            show flat _ = _
            have hn : chunks.length - ci = (chunks.length - ci - 1) + 1 := by omega
            rw [hn]
            unfold linePieces
            rw [getElem?_getD chunks _ h1]
            simp only [if_true, flat_cons']
            rw [linePieces_tailB chunks ci ic _ (ci + 1) _ (by omega) (by omega) (by omega)]
            rw [hR, remFrom_cons chunks _ _ h1 h2]
            congr 1
            rw [← drop_eq_remFrom chunks (ci + 1) 0]; simp

end Rope
end Rs

namespace Rs
namespace Rope

theorem collect_ended (chunks : List (Text × Nat)) (tot : Nat) (tr : Bool) (fuel : Nat) (s : LSt) (h : s.ended = true) :
    linesCollectFull chunks tot tr fuel s = [] := by
  cases fuel with
  | zero => rfl
  | succ f =>
    unfold linesCollectFull
    have : linesNextFull chunks tot tr (chunks.length + 2) s = none := by
      unfold linesNextFull; simp [h]
    rw [this]

theorem linesCollect_spec (chunks : List (Text × Nat)) (hne : chunks ≠ []) (tr : Bool) :
    ∀ (fuel bi ci ic : Nat), SInv chunks ⟨bi, ci, ic, false⟩ → (flat chunks).length - bi + 2 ≤ fuel →
      (linesCollectFull chunks (total chunks) tr fuel ⟨bi, ci, ic, false⟩).map render = linesSpec ((flat chunks).drop bi) tr := by
  intro fuel
  induction fuel with
  | zero => intro bi ci ic _ h; omega
  | succ fuel ih =>
    intro bi ci ic hs hf
    obtain ⟨n1, n2, n3⟩ := linesNext_spec chunks hne tr (chunks.length + 2) bi ci ic (by omega) hs
    unfold linesCollectFull
    by_cases hR : (flat chunks).drop bi = []
    · rw [n1 hR, hR, linesSpec_nil]
      cases tr with
      | false => rfl
      | true =>
        simp only [if_true, List.map_cons, render]
        rw [collect_ended chunks (total chunks) true fuel ⟨bi, ci, ic, true⟩ rfl]
        rfl
    · cases hk : ((flat chunks).drop bi).idxOf? NL with
      | some k =>
        obtain ⟨r, bi', ci', ic', e1, e2, e3, e4⟩ := n2 k hk
        rw [e1]
        simp only [List.map_cons]
        have hkl : k < ((flat chunks).drop bi).length := (take_succ_endsNL _ k hk).1
        simp only [List.length_drop] at hkl
        rw [ih bi' ci' ic' e3 (by omega), linesSpec_NL _ tr k hk, e2, e4, List.drop_drop]
        first | rfl | (congr 3; omega)
      | none =>
        obtain ⟨r, s', e1, e2, e3⟩ := n3 hR hk
        rw [e1]
        simp only [List.map_cons, collect_ended _ _ _ _ _ e3, List.map_nil, e2]
        rw [linesSpec_noNL _ tr hk hR]

/-- **`lines_impl(trailing)`**: the items yielded on any rope render to the lines of the flat string
(`split_inclusive('\\n')`, plus a final empty item when `trailing` and the text is empty or ends with a line break) -/
theorem linesR_spec (r : Rope) (h : r.Inv) (tr : Bool) : (r.linesR tr).map render = r.lines tr := by
  rw [lines_eq_spec]
  cases r with
  | light s =>
    simp only [linesR, render]
    have := linesLight_spec s tr (s.length + 2) 0 (Nat.zero_le _) (by omega)
    simpa using this
  | full ps =>
    simp only [Inv] at h
    simp only [linesR, render_full]
    by_cases hne : ps = []
    · subst hne
      cases tr <;> simp [linesCollectFull, linesNextFull, endOf, flat, linesSpec_nil, render, collect_ended]
    · rw [endOf_total ps h]
      have hpos : 0 < ps.length := List.length_pos_iff.mpr hne
      have := linesCollect_spec ps hne tr (total ps + ps.length + 2) 0 0 0 ⟨hpos, Nat.zero_le _, by simp [total]⟩
        (by rw [flat_length]; omega)
      simpa using this

end Rope
end Rs
