import RsModel.Lemmas.PosSM
import RsModel.Lemmas.TextComposite
/-! # C02 for a SourceMapSource with inner map: chunk positions are passed through unchanged -/
namespace Rs

/-- what `posOKT` looks at -/
def Ev.key : Ev → Option (Option Text × Nat × Nat)
  | .chunk t m => some (t, m.gl, m.gc)
  | _ => none

def evsKeys (evs : List Ev) : List (Option Text × Nat × Nat) := evs.filterMap Ev.key

theorem evsKeys_append (a b : List Ev) : evsKeys (a ++ b) = evsKeys a ++ evsKeys b := by simp [evsKeys]
theorem evsKeys_nil : evsKeys [] = [] := rfl
theorem evsKeys_chunk (t : Option Text) (m : Mapping) : evsKeys [Ev.chunk t m] = [(t, m.gl, m.gc)] := rfl

theorem posOKT_keys : ∀ (a b : List Ev) (pre : Text), evsKeys a = evsKeys b → (posOKT pre a ↔ posOKT pre b) := by
  -- both are determined by the key list
  have key : ∀ (a : List Ev) (pre : Text), posOKT pre a ↔
      (evsKeys a).foldr (fun k acc => fun (p : Text) => (match k.1 with | some t => (⟨k.2.1, k.2.2⟩ : Pos) = adv startPos p ∧ acc (p ++ t) | none => acc p)) (fun _ => True) pre := by
    intro a
    induction a with
    | nil => intro pre; simp [posOKT, evsKeys]
    | cons e es ih =>
      intro pre
      cases e with
      | chunk t m =>
        cases t with
        | none => simp only [posOKT, evsKeys, List.filterMap_cons, Ev.key, List.foldr_cons]; exact ih pre
        | some t => simp only [posOKT, evsKeys, List.filterMap_cons, Ev.key, List.foldr_cons]; rw [ih (pre ++ t)]; rfl
      | source i s c => simp only [posOKT, evsKeys, List.filterMap_cons, Ev.key]; exact ih pre
      | name i n => simp only [posOKT, evsKeys, List.filterMap_cons, Ev.key]; exact ih pre
  intro a b pre h
  rw [key a pre, key b pre, h]

theorem globalSource_keys (sm : Assoc) (s : Text) (c : Option Text) : evsKeys (globalSource sm s c).2.1 = [] := by
  unfold globalSource; split <;> rfl

theorem globalName_keys (nm : Assoc) (n : Text) : evsKeys (globalName nm n).2.1 = [] := by
  unfold globalName; split <;> rfl

theorem combPass_keys (st : CombSt) (chunk : Option Text) (m : Mapping) (a b c d : Int) :
    evsKeys (combPass st chunk m a b c d).2 = [(chunk, m.gl, m.gc)] := by
  unfold combPass
  by_cases h1 : (if a < 0 then (-1 : Int) else (st.sourceIndexMapping[a.toNat]?).getD (-1)) < 0
  · simp only [h1, if_true]; rfl
  · simp only [h1, if_false]
    by_cases h2 : ((if d ≥ 0 then (st.nameIndexMapping[d.toNat]?).getD (-1) else (-1 : Int)) == -2) = true
    · simp only [h2, if_true, evsKeys_append, globalName_keys, List.nil_append]; rfl
    · simp only [h2, Bool.false_eq_true, if_false]; rfl

theorem combNoInner_keys (cfg : CombCfg) (st : CombSt) (chunk : Option Text) (m : Mapping) (a b c d : Int) :
    evsKeys (combNoInner cfg st chunk m a b c d).2 = [(chunk, m.gl, m.gc)] := by
  unfold combNoInner
  by_cases h1 : cfg.remove = true
  · simp only [h1, if_true]; rfl
  · simp only [h1, Bool.false_eq_true, if_false]
    by_cases h2 : (st.sourceIndexMapping[a.toNat]? == some (-2)) = true
    · simp only [h2, if_true]
      cases st.sourceMapping.get? cfg.innerName with
      | some g => exact combPass_keys _ _ _ _ _ _ _
      | none =>
        simp only
        have : ∀ (e : Ev) (es : List Ev), e.key = none → evsKeys (e :: es) = evsKeys es := by
          intro e es h; simp [evsKeys, h]
        rw [this _ _ rfl]; exact combPass_keys _ _ _ _ _ _ _
    · simp only [h2, Bool.false_eq_true, if_false]; exact combPass_keys _ _ _ _ _ _ _

theorem combSrcResolve_keys (st : CombSt) (isi : Nat) : evsKeys (combSrcResolve st isi).2.1 = [] := by
  unfold combSrcResolve
  simp only
  split
  · exact globalSource_keys _ _ _
  · rfl

theorem combNameResolve_keys (st : CombSt) (isi : Nat) (seg : InnerSeg) (a b c : Int) :
    evsKeys (combNameResolve st isi seg a b c).2.1 = [] := by
  unfold combNameResolve
  simp only
  repeat' split
  all_goals first | exact globalName_keys _ _ | rfl

theorem combFound_keys (st : CombSt) (chunk : Option Text) (m : Mapping) (seg : InnerSeg) (ic : Text) (a b : Int) :
    evsKeys (combFound st chunk m seg ic a b).2 = [(chunk, m.gl, m.gc)] := by
  unfold combFound
  simp only [evsKeys_append, combSrcResolve_keys, combNameResolve_keys, List.nil_append]
  rfl

theorem combOnChunk_keys (cfg : CombCfg) (st : CombSt) (chunk : Option Text) (m : Mapping) :
    evsKeys (combOnChunk cfg st chunk m).2 = [(chunk, m.gl, m.gc)] := by
  unfold combOnChunk
  simp only
  repeat' split
  all_goals first | exact combNoInner_keys _ _ _ _ _ _ _ _ | exact combFound_keys _ _ _ _ _ _ _ | exact combPass_keys _ _ _ _ _ _ _

theorem combStep_keys (cfg : CombCfg) (st : CombSt) (e : Ev) : evsKeys (combStep cfg st e).2 = evsKeys [e] := by
  cases e with
  | chunk t m => exact combOnChunk_keys cfg st t m
  | source i s c =>
    simp only [combStep, combOnSource]
    split
    · rfl
    · exact globalSource_keys _ _ _
  | name i n => rfl

theorem combFold_keys (cfg : CombCfg) : ∀ (evs : List Ev) (st : CombSt), evsKeys (combFold cfg st evs) = evsKeys evs := by
  intro evs
  induction evs with
  | nil => intro st; rfl
  | cons e es ih =>
    intro st
    simp only [combFold, evsKeys_append, combStep_keys, ih]
    rw [← evsKeys_append]; rfl

/-- **SourceMapSource with an inner map**: same chunk texts at the same positions as the outer map-driven stream -/
theorem streamCombined_posOK (t : Text) (sm : SMap) (n : Text) (os : Option Text) (im : SMap) (rm : Bool) (c : Bool)
    (h : PosOK (streamSM t sm ⟨c, false⟩)) : PosOK (streamCombined t sm n os im rm ⟨c, false⟩) := by
  obtain ⟨h1, h2⟩ := h
  refine ⟨?_, ?_⟩
  · simp only [streamCombined]
    exact (posOKT_keys _ _ [] (combFold_keys _ _ _)).2 h1
  · rw [streamCombined_text]
    simpa [streamCombined] using h2

end Rs
