import RsModel.Lemmas.LinesConcat
/-! # columns = false: the leaves attribute every generated line alike in both modes -/
namespace Rs

/-! ## Raw -/
theorem rawChunks_lines_ge : ∀ (ls : List Text) (l : Nat), ∀ m ∈ chunkMs (rawChunks l ls), l ≤ m.gl := by
  intro ls
  induction ls with
  | nil => intro l m hm; simp [rawChunks, chunkMs] at hm
  | cons t ts ih =>
    intro l m hm
    simp only [rawChunks, chunkMs, List.mem_cons] at hm
    rcases hm with rfl | hm
    · exact Nat.le_refl _
    · have := ih (l + 1) m hm; omega

theorem streamRaw_linesEq (t : Text) (c : Bool) (L : Nat) :
    lookupLines (chunkMs (streamRaw t ⟨c, true⟩).evs) L = lookupLines (chunkMs (streamRaw t ⟨c, false⟩).evs) L := by
  simp only [streamRaw, if_true, Bool.false_eq_true, if_false, chunkMs, lookupLines_nil]
  exact (lookupLines_none L _ (fun m hm => by intro ⟨_, h⟩; rw [chunkMs_rawChunks _ _ m hm] at h; cases h)).symm

theorem streamRaw_info (t : Text) (c : Bool) : (streamRaw t ⟨c, true⟩).info = (streamRaw t ⟨c, false⟩).info := by
  simp only [streamRaw, if_true, Bool.false_eq_true, if_false]
  exact genInfo_eq t

/-! ## OriginalSource, columns = false -/

theorem origLineChunks_look : ∀ (ls : List Text) (l L : Nat),
    lookupLines (chunkMs (origLineChunks l ls)) L = if l ≤ L ∧ L < l + ls.length then some (0, L) else none := by
  intro ls
  induction ls with
  | nil => intro l L; simp [origLineChunks, chunkMs, lookupLines_nil]
  | cons t ts ih =>
    intro l L
    simp only [origLineChunks, chunkMs]
    rw [lookupLines_cons, ih (l + 1) L]
    by_cases hl : l = L
    · subst hl; simp
    · have h1 : ¬ (l = L ∧ (some (⟨0, l, 0, none⟩ : Orig)).isSome = true) := fun h => hl h.1
      rw [if_neg h1]
      simp only [List.length_cons]
      by_cases h2 : l + 1 ≤ L ∧ L < l + 1 + ts.length
      · rw [if_pos h2, if_pos ⟨by omega, by omega⟩]
      · rw [if_neg h2, if_neg (by intro h; apply h2; omega)]

theorem origFinalLines_look (a n L : Nat) :
    lookupLines (chunkMs (origFinalLines a n)) L = if a ≤ L ∧ L < n then some (0, L) else none := by
  unfold origFinalLines
  generalize hk : n - a = k
  induction k generalizing a with
  | zero =>
    simp [chunkMs, lookupLines_nil]
    intro h; omega
  | succ k ih =>
    rw [List.range_succ_eq_map, List.map_cons, List.map_map]
    simp only [chunkMs, Nat.add_zero]
    rw [lookupLines_cons]
    have hrest : (List.map ((fun k => Ev.chunk none ⟨a + k, 0, some ⟨0, a + k, 0, none⟩⟩) ∘ Nat.succ) (List.range k))
        = (List.range k).map fun j => Ev.chunk none ⟨a + 1 + j, 0, some ⟨0, a + 1 + j, 0, none⟩⟩ := by
      apply List.map_congr_left
      intro j _
      simp only [Function.comp]
      have : a + (j + 1) = a + 1 + j := by omega
      rw [this]
    rw [hrest]
    have := ih (a + 1) (by omega)
    rw [this]
    by_cases hl : a = L
    · subst hl
      have : a < n := by omega
      simp [this]
    · have h1 : ¬ (a = L ∧ (some (⟨0, a, 0, none⟩ : Orig)).isSome = true) := fun h => hl h.1
      rw [if_neg h1]
      by_cases h2 : a + 1 ≤ L ∧ L < n
      · rw [if_pos h2, if_pos ⟨by omega, h2.2⟩]
      · rw [if_neg h2, if_neg (by intro h; apply h2; omega)]

theorem genInfo_nil : genInfo [] = ⟨1, 0⟩ := by decide

theorem streamOriginal_linesEq (t name : Text) (L : Nat) :
    lookupLines (chunkMs (streamOriginal t name ⟨false, true⟩).evs) L = lookupLines (chunkMs (streamOriginal t name ⟨false, false⟩).evs) L := by
  simp only [streamOriginal, Bool.false_eq_true, if_false, if_true, chunkMs]
  rw [origLineChunks_look]
  by_cases ht : t = []
  · subst ht
    have e : splitLines ([] : Text) = [] := rfl
    rw [genInfo_nil, e]
    simp only [beq_self_eq_true, if_true, chunkMs, origFinalLines_look, List.length_nil]
  · have hfl := finalLine_eq t ht
    split
    · rename_i h0
      simp only [chunkMs, origFinalLines_look]
      rw [h0] at hfl
      simp only [if_true] at hfl
      have hgl : 1 ≤ (genInfo t).line := by rw [genInfo_adv]; exact isPos_line_ge t _ (isPos_end t)
      by_cases h : 1 ≤ L ∧ L < (genInfo t).line
      · rw [if_pos h, if_pos ⟨h.1, by omega⟩]
      · rw [if_neg h, if_neg (by intro h'; apply h; omega)]
    · rename_i h0
      simp only [chunkMs, origFinalLines_look]
      have h0' : ((genInfo t).col == 0) = false := by simpa using h0
      rw [h0'] at hfl
      simp only [Bool.false_eq_true, if_false] at hfl
      by_cases h : 1 ≤ L ∧ L < (genInfo t).line + 1
      · rw [if_pos h, if_pos ⟨h.1, by omega⟩]
      · rw [if_neg h, if_neg (by intro h'; apply h; omega)]

theorem streamOriginal_linesInfo (t name : Text) : (streamOriginal t name ⟨false, true⟩).info = (streamOriginal t name ⟨false, false⟩).info := by
  simp only [streamOriginal, Bool.false_eq_true, if_false, if_true]
  split <;> exact genInfo_eq t

theorem streamOriginal_linesDecls (t name : Text) :
    declsOf (streamOriginal t name ⟨false, true⟩).evs = declsOf (streamOriginal t name ⟨false, false⟩).evs := by
  simp only [streamOriginal, Bool.false_eq_true, if_false, if_true]
  split
  · simp only [declsOf]
    rw [declsOf_chunks _ _ (origFinalLines_origs _ _), declsOf_chunks _ _ (origLineChunks_origs _ _)]
  · simp only [declsOf]
    rw [declsOf_chunks _ _ (origFinalLines_origs _ _), declsOf_chunks _ _ (origLineChunks_origs _ _)]

theorem origFinalLines_sorted (a n : Nat) (l c : Nat) (h : l < a ∨ (l = a ∧ c = 0)) : sortedFrom l c (chunkMs (origFinalLines a n)) := by
  unfold origFinalLines
  generalize hk : n - a = k
  induction k generalizing a l c with
  | zero => trivial
  | succ k ih =>
    rw [List.range_succ_eq_map, List.map_cons, List.map_map]
    simp only [chunkMs, Nat.add_zero, sortedFrom]
    refine ⟨by rcases h with h | h <;> omega, ?_⟩
    have hrest : (List.map ((fun k => Ev.chunk none ⟨a + k, 0, some ⟨0, a + k, 0, none⟩⟩) ∘ Nat.succ) (List.range k))
        = (List.range k).map fun j => Ev.chunk none ⟨a + 1 + j, 0, some ⟨0, a + 1 + j, 0, none⟩⟩ := by
      apply List.map_congr_left
      intro j _
      simp only [Function.comp]
      have : a + (j + 1) = a + 1 + j := by omega
      rw [this]
    rw [hrest]
    exact ih (a + 1) a 0 (Or.inl (by omega)) (by omega)

theorem streamOriginal_linesSorted (t name : Text) : sortedFrom 1 0 (chunkMs (streamOriginal t name ⟨false, true⟩).evs) := by
  simp only [streamOriginal, Bool.false_eq_true, if_false, if_true]
  split <;> exact origFinalLines_sorted 1 _ 1 0 (Or.inr ⟨rfl, rfl⟩)

theorem smLinesFinalGo_origs' (fl : Nat) : ∀ (ms : List Mapping) (cur : Nat), ChunkOrigs (fun _ => True) (smLinesFinalGo fl cur ms) := by
  intro ms
  induction ms with
  | nil => intro cur; exact chunkOrigs_nil _
  | cons y ys ih =>
    intro cur
    simp only [smLinesFinalGo]
    split
    · split
      · exact chunkOrigs_cons _ _ _ _ (fun _ _ => trivial) (ih _)
      · exact ih _
    · exact ih _

theorem smLinesFullGo_origs' (lines : List Text) : ∀ (ms : List Mapping) (cur : Nat), ChunkOrigs (fun _ => True) (smLinesFullGo lines cur ms).1 := by
  intro ms
  induction ms with
  | nil => intro cur; exact chunkOrigs_nil _
  | cons y ys ih =>
    intro cur
    simp only [smLinesFullGo]
    split
    · exact ih cur
    · split
      · exact ih cur
      · dsimp only
        exact chunkOrigs_append _ _ _ (smWholeLines_origs _ _ _ _) (chunkOrigs_cons _ _ _ _ (fun _ _ => trivial) (ih _))

/-! ## SourceMapSource, columns = false -/

theorem wholeLines_range (lines : List Text) (a b : Nat) : ∀ m ∈ chunkMs (smWholeLines lines a b), a ≤ m.gl ∧ m.gl ≤ lines.length := by
  intro m hm
  have : ∀ (ks : List Nat), (∀ k ∈ ks, True) → ∀ m ∈ chunkMs ((ks.map fun k => if a + k ≤ lines.length then [Ev.chunk (some (lines.getD (a + k - 1) [])) ⟨a + k, 0, none⟩] else []).flatten),
      a ≤ m.gl ∧ m.gl ≤ lines.length := by
    intro ks
    induction ks with
    | nil => intro _ m hm; simp [chunkMs] at hm
    | cons k ks ih =>
      intro _ m hm
      simp only [List.map_cons, List.flatten_cons, chunkMs_app, List.mem_append] at hm
      rcases hm with hm | hm
      · split at hm
        · simp only [chunkMs, List.mem_singleton] at hm; subst hm; exact ⟨by simp only; omega, by assumption⟩
        · simp [chunkMs] at hm
      · exact ih (fun _ _ => trivial) m hm
  exact this _ (fun _ _ => trivial) m hm

theorem smLinesFullGo_range (lines : List Text) : ∀ (ms : List Mapping) (cur : Nat), ∀ m ∈ chunkMs (smLinesFullGo lines cur ms).1, cur ≤ m.gl ∧ m.gl ≤ lines.length := by
  intro ms
  induction ms with
  | nil => intro cur m hm; simp [smLinesFullGo, chunkMs] at hm
  | cons y ys ih =>
    intro cur m hm
    simp only [smLinesFullGo] at hm
    split at hm
    · exact ih cur m hm
    · split at hm
      · exact ih cur m hm
      · rename_i hns
        simp only [Bool.or_eq_true, decide_eq_true_eq, not_or, Nat.not_lt] at hns
        simp only [chunkMs_app, chunkMs, List.mem_append, List.mem_cons] at hm
        rcases hm with hm | rfl | hm
        · exact wholeLines_range _ _ _ m hm
        · exact ⟨hns.1, hns.2⟩
        · have := ih _ m hm
          have h2 := Nat.le_max_left cur y.gl
          exact ⟨by omega, this.2⟩

theorem smLinesFinalGo_range (fl : Nat) : ∀ (ms : List Mapping) (cur : Nat), ∀ m ∈ chunkMs (smLinesFinalGo fl cur ms), cur ≤ m.gl ∧ m.gl ≤ fl ∧ m.gc = 0 := by
  intro ms
  induction ms with
  | nil => intro cur m hm; simp [smLinesFinalGo, chunkMs] at hm
  | cons y ys ih =>
    intro cur m hm
    simp only [smLinesFinalGo] at hm
    split at hm
    · split at hm
      · rename_i hns
        simp only [Bool.and_eq_true, decide_eq_true_eq] at hns
        simp only [chunkMs, List.mem_cons] at hm
        rcases hm with rfl | hm
        · exact ⟨hns.1, hns.2, rfl⟩
        · have := ih _ m hm; exact ⟨by omega, this.2⟩
      · exact ih cur m hm
    · exact ih cur m hm

/-- **SourceMapSource, columns = false**: both modes attribute every generated line alike -/
theorem streamSM_linesEq (t : Text) (sm : SMap) (hs : sortedFrom 1 0 (decode sm.mappings)) (L : Nat) :
    lookupLines (chunkMs (streamSM t sm ⟨false, true⟩).evs) L = lookupLines (chunkMs (streamSM t sm ⟨false, false⟩).evs) L := by
  by_cases hr : 1 ≤ L ∧ L ≤ (splitLines t).length
  · have h1 := streamSMLinesFinal_lines t sm hs L hr.1 hr.2
    have h2 := streamSMLinesFull_lines t sm hs L hr.1 hr.2
    simp only [streamSM]
    rw [h1, h2]
  · -- outside the lines of the text neither stream has a chunk
    have hF : lookupLines (chunkMs (streamSM t sm ⟨false, true⟩).evs) L = none := by
      apply lookupLines_none
      intro m hm ⟨hl, _⟩
      simp only [streamSM] at hm
      unfold streamSMLinesFinal at hm
      dsimp only at hm
      split at hm
      · simp [chunkMs] at hm
      · simp only [chunkMs_app, chunkMs_smSourceEvs, List.nil_append] at hm
        have := smLinesFinalGo_range _ _ 1 m hm
        have hle := finalLine_le t
        apply hr; omega
    have hN : lookupLines (chunkMs (streamSM t sm ⟨false, false⟩).evs) L = none := by
      apply lookupLines_none
      intro m hm ⟨hl, _⟩
      simp only [streamSM] at hm
      unfold streamSMLinesFull at hm
      dsimp only at hm
      split at hm
      · simp [chunkMs] at hm
      · simp only [chunkMs_app, chunkMs_smSourceEvs, List.nil_append, List.mem_append] at hm
        rcases hm with hm | hm
        · have := smLinesFullGo_range _ _ 1 m hm; apply hr; omega
        · have := wholeLines_range _ _ _ m hm
          have h1 : 1 ≤ m.gl := by
            -- the remaining whole lines start at the line after the last mapped one
            have hcur : ∀ (ms : List Mapping) (cur : Nat), 1 ≤ cur → 1 ≤ (smLinesFullGo (splitLines t) cur ms).2 := by
              intro ms
              induction ms with
              | nil => intro cur h; exact h
              | cons y ys ihy =>
                intro cur h
                simp only [smLinesFullGo]
                split
                · exact ihy cur h
                · split
                  · exact ihy cur h
                  · exact ihy _ (by omega)
            have := hcur (decode sm.mappings) 1 (Nat.le_refl _)
            omega
          apply hr; omega
    rw [hF, hN]

theorem streamSM_linesInfo (t : Text) (sm : SMap) : (streamSM t sm ⟨false, true⟩).info = (streamSM t sm ⟨false, false⟩).info := by
  simp only [streamSM]
  unfold streamSMLinesFinal streamSMLinesFull
  dsimp only
  by_cases ht : t = []
  · subst ht; rfl
  · have h1 : ¬ ((genInfo t).line == 1 && (genInfo t).col == 0) = true := by
      intro h
      simp only [Bool.and_eq_true, beq_iff_eq] at h
      apply ht
      apply (adv_eq_start t).1
      rw [← genInfo_adv]
      cases hg : genInfo t with
      | mk l c => rw [hg] at h; simp only at h; rw [h.1, h.2]
    have h2 : ¬ (splitLines t).isEmpty = true := fun h => ht ((splitLines_nil_iff t).1 (List.isEmpty_iff.1 h))
    simp only [h1, h2, Bool.false_eq_true, if_false]
    exact genInfo_eq t

theorem streamSM_linesDecls (t : Text) (sm : SMap) : declsOf (streamSM t sm ⟨false, true⟩).evs = declsOf (streamSM t sm ⟨false, false⟩).evs := by
  simp only [streamSM]
  unfold streamSMLinesFinal streamSMLinesFull
  dsimp only
  have hsrc : declsOf (smSourceEvs sm) = smSourceEvs sm :=
    declsOf_noChunk _ (by intro e he; simp only [smSourceEvs, List.mem_map] at he; obtain ⟨i, _, rfl⟩ := he; rfl)
  by_cases ht : t = []
  · subst ht; rfl
  · have h1 : ¬ ((genInfo t).line == 1 && (genInfo t).col == 0) = true := by
      intro h
      simp only [Bool.and_eq_true, beq_iff_eq] at h
      apply ht
      apply (adv_eq_start t).1
      rw [← genInfo_adv]
      cases hg : genInfo t with
      | mk l c => rw [hg] at h; simp only at h; rw [h.1, h.2]
    have h2 : ¬ (splitLines t).isEmpty = true := fun h => ht ((splitLines_nil_iff t).1 (List.isEmpty_iff.1 h))
    simp only [h1, h2, Bool.false_eq_true, if_false, declsOf_append, hsrc]
    rw [declsOf_chunks (fun _ => True) _ (smLinesFinalGo_origs' _ _ _), declsOf_chunks (fun _ => True) _ (smLinesFullGo_origs' _ _ _),
      declsOf_chunks (fun _ => True) _ (smWholeLines_origs _ _ _ _)]
    simp

theorem smLinesFinalGo_sorted (fl : Nat) : ∀ (ms : List Mapping) (cur l c : Nat), l < cur → sortedFrom l c (chunkMs (smLinesFinalGo fl cur ms)) := by
  intro ms
  induction ms with
  | nil => intro cur l c _; trivial
  | cons y ys ih =>
    intro cur l c hl
    simp only [smLinesFinalGo]
    split
    · split
      · rename_i hns
        simp only [Bool.and_eq_true, decide_eq_true_eq] at hns
        simp only [chunkMs, sortedFrom]
        exact ⟨Or.inl (by omega), ih _ _ _ (by omega)⟩
      · exact ih cur l c hl
    · exact ih cur l c hl

theorem streamSM_linesSorted (t : Text) (sm : SMap) : sortedFrom 1 0 (chunkMs (streamSM t sm ⟨false, true⟩).evs) := by
  simp only [streamSM]
  unfold streamSMLinesFinal
  dsimp only
  split
  · trivial
  · simp only [chunkMs_app, chunkMs_smSourceEvs, List.nil_append]
    -- the first delivered mapping is on line ≥ 1; use the (0, 0) bound and weaken
    have h := smLinesFinalGo_sorted (if ((genInfo t).col == 0) = true then (genInfo t).line - 1 else (genInfo t).line) (decode sm.mappings) 1 0 0 (by omega)
    have hr := smLinesFinalGo_range (if ((genInfo t).col == 0) = true then (genInfo t).line - 1 else (genInfo t).line) (decode sm.mappings) 1
    rw [sortedFrom_iff] at h ⊢
    exact ⟨fun x hx => by have := hr x hx; rcases Nat.lt_or_ge 1 x.gl with g | g; exact Or.inl g; exact Or.inr ⟨by omega, Nat.zero_le _⟩, h.2⟩

end Rs
