import RsModel.Lemmas.AttrStream
import RsModel.Lemmas.Replay
/-!
# C09: the recorded inner line data and the search in it

`combInnerEv` records, per generated line of the inner stream, the chunk mappings of that line in stream order.
`find_inner_mapping` then answers exactly the lookup "last chunk mapping on that line at or before the column".
-/
namespace Rs

/-- the recorded form of a chunk mapping -/
def toSeg (m : Mapping) : InnerSeg :=
  { gc := m.gc
    src := match m.orig with | some o => o.src | none => -1
    line := match m.orig with | some o => o.line | none => -1
    col := match m.orig with | some o => o.col | none => -1
    name := match m.orig with | some o => (match o.name with | some n => (n : Int) | none => -1) | none => -1 }

/-- the segments recorded for generated line `L` (1-based) -/
def segsAt (ld : List LineData) (L : Nat) : List InnerSeg := (ld.getD (L - 1) {}).segs

theorem getD_set_self {α} (l : List α) (i : Nat) (v d : α) (h : i < l.length) : (l.set i v).getD i d = v := by
  rw [List.getD_eq_getElem?_getD, List.getElem?_set_self h]; rfl

theorem getD_set_other {α} (l : List α) (i j : Nat) (v d : α) (h : i ≠ j) : (l.set i v).getD j d = l.getD j d := by
  rw [List.getD_eq_getElem?_getD, List.getD_eq_getElem?_getD, List.getElem?_set_ne h]

theorem getD_append_replicate (l : List LineData) (k j : Nat) : (l ++ List.replicate k ({} : LineData)).getD j ({} : LineData) = l.getD j ({} : LineData) := by
  rw [List.getD_eq_getElem?_getD, List.getD_eq_getElem?_getD]
  rcases Nat.lt_or_ge j l.length with h | h
  · rw [List.getElem?_append_left h]
  · rw [List.getElem?_append_right h, List.getElem?_eq_none h]
    rcases Nat.lt_or_ge (j - l.length) k with h2 | h2
    · rw [List.getElem?_replicate_of_lt h2]; rfl
    · rw [List.getElem?_eq_none (by simpa using h2)]

/-- one recorded chunk: the line of the chunk gains its segment at the end, the other lines are untouched -/
theorem combInnerEv_segs (st : CombSt) (text : Option Text) (m : Mapping) (hm : 1 ≤ m.gl) (L : Nat) (hL : 1 ≤ L) :
    segsAt (combInnerEv st (.chunk text m)).lineData L = if m.gl = L then segsAt st.lineData L ++ [toSeg m] else segsAt st.lineData L := by
  simp only [combInnerEv, segsAt]
  by_cases hlen : st.lineData.length ≤ m.gl
  · simp only [hlen, if_true]
    have hl2 : m.gl - 1 < (st.lineData ++ List.replicate (m.gl + 1 - st.lineData.length) ({} : LineData)).length := by simp; omega
    by_cases hmL : m.gl = L
    · subst hmL
      rw [if_pos rfl, getD_set_self _ _ _ _ hl2, getD_append_replicate]
      rfl
    · rw [if_neg hmL, getD_set_other _ _ _ _ _ (by omega), getD_append_replicate]
  · have hlen' : ¬ st.lineData.length ≤ m.gl := hlen
    simp only [hlen', if_false]
    by_cases hmL : m.gl = L
    · subst hmL
      rw [if_pos rfl, getD_set_self _ _ _ _ (by omega)]
      rfl
    · rw [if_neg hmL, getD_set_other _ _ _ _ _ (by omega)]

theorem combInnerEv_decl_ld (st : CombSt) (e : Ev) (h : e.isChunk = false) : (combInnerEv st e).lineData = st.lineData := by
  cases e with
  | chunk t m => simp [Ev.isChunk] at h
  | source i s c => rfl
  | name i n => rfl

/-- **what is recorded**: after the inner stream, line `L` holds the chunk mappings of line `L` in stream order -/
theorem fold_segs : ∀ (evs : List Ev) (st : CombSt) (L : Nat), 1 ≤ L → (∀ m ∈ chunkMs evs, 1 ≤ m.gl) →
    segsAt (evs.foldl combInnerEv st).lineData L = segsAt st.lineData L ++ ((chunkMs evs).filter fun m => m.gl == L).map toSeg := by
  intro evs
  induction evs with
  | nil => intro st L _ _; simp [chunkMs]
  | cons e es ih =>
    intro st L hL h1
    rw [List.foldl_cons]
    cases e with
    | chunk t m =>
      have hm1 := h1 m (by simp [chunkMs])
      rw [ih _ L hL (fun x hx => h1 x (by simp [chunkMs, hx])), combInnerEv_segs st t m hm1 L hL]
      simp only [chunkMs, List.filter_cons]
      by_cases hmL : m.gl = L
      · simp [hmL]
      · simp [hmL]
    | source i s c =>
      rw [ih _ L hL (fun x hx => h1 x (by simpa [chunkMs] using hx)), combInnerEv_decl_ld st _ rfl]
      rfl
    | name i n =>
      rw [ih _ L hL (fun x hx => h1 x (by simpa [chunkMs] using hx)), combInnerEv_decl_ld st _ rfl]
      rfl

/-! ## the lookup among the mappings of one line -/

/-- a lookup only looks at the mappings of its line -/
theorem lookupGo_filter (L C : Nat) : ∀ (ms : List Mapping) (acc : Option (Option Orig)),
    lookupGo L C acc ms = lookupGo L C acc (ms.filter fun m => m.gl == L) := by
  intro ms
  induction ms with
  | nil => intro acc; rfl
  | cons m ms ih =>
    intro acc
    simp only [lookupGo, List.filter_cons]
    by_cases h : m.gl = L
    · simp only [h, beq_self_eq_true, if_true, lookupGo, true_and]
      exact ih _
    · have h1 : (m.gl == L) = false := by simpa using h
      have h2 : ¬ (m.gl = L ∧ m.gc ≤ C) := fun x => h x.1
      simp only [h1, Bool.false_eq_true, if_false, h2]
      exact ih acc

/-- on a line whose mappings are sorted by column: the mappings before index `k` are at or before `C`, those from `k` on after it
⇒ the lookup answers with mapping `k - 1` (nothing if `k = 0`) -/
theorem lookupGo_split (L C : Nat) : ∀ (ms : List Mapping) (k : Nat) (acc : Option (Option Orig)), (∀ m ∈ ms, m.gl = L) → k ≤ ms.length →
    (∀ i, i < k → (ms.getD i default).gc ≤ C) → (∀ i, k ≤ i → i < ms.length → C < (ms.getD i default).gc) →
    lookupGo L C acc ms = if k = 0 then acc else some (ms.getD (k - 1) default).orig := by
  intro ms
  induction ms with
  | nil => intro k acc _ hk _ _; simp at hk; subst hk; rfl
  | cons m ms ih =>
    intro k acc hl hk hlo hhi
    have hmL := hl m (by simp)
    simp only [lookupGo]
    cases k with
    | zero =>
      have : ¬ (m.gl = L ∧ m.gc ≤ C) := by
        intro h
        have := hhi 0 (Nat.le_refl _) (by simp)
        simp at this
        omega
      rw [if_neg this]
      have := ih 0 acc (fun x hx => hl x (by simp [hx])) (Nat.zero_le _) (fun i hi => by omega)
        (fun i _ hi => by have := hhi (i + 1) (by omega) (by simpa using hi); simpa using this)
      simpa using this
    | succ k =>
      have hm : m.gl = L ∧ m.gc ≤ C := ⟨hmL, by have := hlo 0 (by omega); simpa using this⟩
      rw [if_pos hm]
      have := ih k (some m.orig) (fun x hx => hl x (by simp [hx])) (by simpa using hk)
        (fun i hi => by have := hlo (i + 1) (by omega); simpa using this)
        (fun i h1 hi => by have := hhi (i + 1) (by omega) (by simpa using hi); simpa using this)
      rw [this]
      cases k with
      | zero => simp
      | succ k => simp

/-! ## the bisection -/

/-- the segments of one inner line are sorted by generated column -/
def SegsSorted (segs : List InnerSeg) : Prop := ∀ i j, i ≤ j → j < segs.length → (segs.getD i default).gc ≤ (segs.getD j default).gc

theorem bisect_le (segs : List InnerSeg) (col : Int) : ∀ (fuel l r : Nat), l ≤ r → r ≤ segs.length → bisect segs col fuel l r ≤ segs.length := by
  intro fuel
  induction fuel with
  | zero => intro l r h1 h2; simp [bisect]; omega
  | succ n ih =>
    intro l r h1 h2
    simp only [bisect]
    split
    · split
      · exact ih _ _ (by omega) h2
      · exact ih _ _ (by omega) (by omega)
    · omega

theorem bisect_spec (segs : List InnerSeg) (col : Int) (hs : SegsSorted segs) : ∀ (fuel l r : Nat), l ≤ r → r ≤ segs.length → r - l < fuel →
    (∀ i, i < l → (segs.getD i default).gc ≤ col) → (∀ i, r ≤ i → i < segs.length → col < (segs.getD i default).gc) →
    (∀ i, i < bisect segs col fuel l r → (segs.getD i default).gc ≤ col)
    ∧ (∀ i, bisect segs col fuel l r ≤ i → i < segs.length → col < (segs.getD i default).gc) := by
  intro fuel
  induction fuel with
  | zero => intro l r _ _ h; omega
  | succ n ih =>
    intro l r h1 h2 h3 hlo hhi
    simp only [bisect]
    split
    · rename_i hlr
      split
      · rename_i hm
        apply ih _ _ (by omega) h2 (by omega)
        · intro i hi
          exact Int.le_trans (hs i ((l + r) / 2) (by omega) (by omega)) hm
        · exact hhi
      · rename_i hm
        apply ih _ _ (by omega) (by omega) (by omega) hlo
        intro i hi hlen
        have := hs ((l + r) / 2) i hi hlen
        omega
    · have : l = r := by omega
      subst this
      exact ⟨hlo, hhi⟩

/-! ## `find_inner_mapping` = the lookup in the inner stream's chunk mappings -/

theorem filter_sorted (ms : List Mapping) (L : Nat) (h : ms.Pairwise mle) :
    SegsSorted ((ms.filter fun m => m.gl == L).map toSeg) := by
  have hp : (ms.filter fun m => m.gl == L).Pairwise mle := h.sublist List.filter_sublist
  have hall : ∀ m ∈ ms.filter (fun m => m.gl == L), m.gl = L := fun m hm => by simpa using (List.mem_filter.1 hm).2
  intro i j hij hj
  simp only [List.length_map] at hj
  have hi : i < (ms.filter fun m => m.gl == L).length := by omega
  rw [List.getD_eq_getElem?_getD, List.getD_eq_getElem?_getD, List.getElem?_map, List.getElem?_map,
    List.getElem?_eq_getElem hi, List.getElem?_eq_getElem hj]
  simp only [Option.map_some, Option.getD_some, toSeg]
  rcases Nat.lt_or_ge i j with hlt | hge
  · have := List.pairwise_iff_getElem.1 hp i j hi hj hlt
    have h1 := hall _ (List.getElem_mem hi)
    have h2 := hall _ (List.getElem_mem hj)
    rcases this with g | g
    · omega
    · exact Int.ofNat_le.2 g.2
  · have : i = j := by omega
    subst this
    exact Int.le_refl _

/-- **the search answers the lookup**: when line `L` of the recorded data holds the chunk mappings `ms` of that line in stream
order and `ms` is sorted, `find_inner_mapping (L, C)` finds the segment recorded for the very mapping the lookup "last mapping on
line `L` at or before column `C`" finds — and nothing exactly when the lookup finds nothing -/
theorem findInner_lookup (st : CombSt) (ms : List Mapping) (hsort : ms.Pairwise mle) (L C : Nat) (hL : 1 ≤ L)
    (hseg : segsAt st.lineData L = (ms.filter fun m => m.gl == L).map toSeg)
    (hlen : st.lineData.length < L → (ms.filter fun m => m.gl == L) = []) :
    match findInner st L C with
    | some idx => idx < (ms.filter fun m => m.gl == L).length
        ∧ (st.lineData.getD (L - 1) default).segs.getD idx default = toSeg ((ms.filter fun m => m.gl == L).getD idx default)
        ∧ lookupGo L C none ms = some ((ms.filter fun m => m.gl == L).getD idx default).orig
    | none => lookupGo L C none ms = none := by
  have hdef : (default : LineData) = {} := rfl
  rw [lookupGo_filter]
  have hall : ∀ m ∈ ms.filter (fun m => m.gl == L), m.gl = L := fun m hm => by simpa using (List.mem_filter.1 hm).2
  unfold findInner
  by_cases hbig : ((L : Int) ≤ 0 ∨ (L : Int).toNat > st.lineData.length)
  · rw [if_pos hbig]
    have : st.lineData.length < L := by
      rcases hbig with h | h
      · omega
      · simpa using h
    rw [hlen this]
    rfl
  · rw [if_neg hbig]
    have e1 : (L : Int).toNat - 1 = L - 1 := by simp
    simp only [e1]
    have hsegs : (st.lineData.getD (L - 1) default).segs = (ms.filter fun m => m.gl == L).map toSeg := by
      rw [hdef]; exact hseg
    rw [hsegs]
    have hs := filter_sorted ms L hsort
    have hsp := bisect_spec _ (C : Int) hs (((ms.filter fun m => m.gl == L).map toSeg).length + 1) 0 ((ms.filter fun m => m.gl == L).map toSeg).length
      (Nat.zero_le _) (Nat.le_refl _) (by omega) (fun i hi => by omega) (fun i hi hl => by omega)
    have hle := bisect_le ((ms.filter fun m => m.gl == L).map toSeg) (C : Int) (((ms.filter fun m => m.gl == L).map toSeg).length + 1) 0
      ((ms.filter fun m => m.gl == L).map toSeg).length (Nat.zero_le _) (Nat.le_refl _)
    generalize hk : bisect ((ms.filter fun m => m.gl == L).map toSeg) (C : Int) (((ms.filter fun m => m.gl == L).map toSeg).length + 1) 0
      ((ms.filter fun m => m.gl == L).map toSeg).length = k at *
    simp only [List.length_map] at hle hsp
    have hgc : ∀ i, i < (ms.filter fun m => m.gl == L).length →
        (((ms.filter fun m => m.gl == L).map toSeg).getD i default).gc = (((ms.filter fun m => m.gl == L).getD i default).gc : Int) := by
      intro i hi
      rw [List.getD_eq_getElem?_getD, List.getD_eq_getElem?_getD, List.getElem?_map, List.getElem?_eq_getElem hi]
      rfl
    have hsplit := lookupGo_split L C (ms.filter fun m => m.gl == L) k none hall hle
      (fun i hi => by have := hsp.1 i hi; rw [hgc i (by omega)] at this; exact Int.ofNat_le.1 this)
      (fun i h1 h2 => by have := hsp.2 i h1 h2; rw [hgc i h2] at this; exact Int.ofNat_lt.1 this)
    by_cases hk0 : k = 0
    · rw [if_pos hk0]
      rw [hsplit, if_pos hk0]
    · rw [if_neg hk0]
      simp only
      refine ⟨by omega, ?_, by rw [hsplit, if_neg hk0]⟩
      rw [List.getD_eq_getElem?_getD, List.getD_eq_getElem?_getD, List.getElem?_map, List.getElem?_eq_getElem (by omega)]
      rfl

end Rs
