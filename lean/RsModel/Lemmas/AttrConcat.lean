import RsModel.Lemmas.TextComposite
import RsModel.Lemmas.HasText
/-!
# C06 — a ConcatSource attributes every byte as the child it came from does (file name, content, line, column, name)

Name-level attribution: a consumer of the callbacks learns the tables (`on_source`, `on_name`) as they are announced and resolves
the indices of each chunk with the tables known at that moment.
-/
namespace Rs

abbrev SrcTbl := Nat → Option (Text × Option Text)
abbrev NameTbl := Nat → Option Text

def upd {α} (f : Nat → Option α) (i : Nat) (v : α) : Nat → Option α := fun j => if j = i then some v else f j

/-- a resolved original location: file (name, content), line, column, name -/
structure RLoc where
  file : Option (Text × Option Text)
  line : Nat
  col : Nat
  name : Option (Option Text)

def resolveO (S : SrcTbl) (N : NameTbl) (o : Orig) : RLoc := ⟨S o.src, o.line, o.col, o.name.map N⟩

/-- per byte: the resolved location of the chunk covering it, tables as announced so far -/
def attrN : SrcTbl → NameTbl → List Ev → List (Option RLoc)
  | _, _, [] => []
  | S, N, .chunk (some t) m :: es => List.replicate t.length (m.orig.map (resolveO S N)) ++ attrN S N es
  | S, N, .chunk none _ :: es => attrN S N es
  | S, N, .source i s c :: es => attrN (upd S i (s, c)) N es
  | S, N, .name i n :: es => attrN S (upd N i n) es

def tblS : SrcTbl → List Ev → SrcTbl
  | S, [] => S
  | S, .source i s c :: es => tblS (upd S i (s, c)) es
  | S, _ :: es => tblS S es

def tblN : NameTbl → List Ev → NameTbl
  | N, [] => N
  | N, .name i n :: es => tblN (upd N i n) es
  | N, _ :: es => tblN N es

theorem attrN_append : ∀ (a b : List Ev) (S : SrcTbl) (N : NameTbl), attrN S N (a ++ b) = attrN S N a ++ attrN (tblS S a) (tblN N a) b := by
  intro a
  induction a with
  | nil => intro b S N; rfl
  | cons e es ih =>
    intro b S N
    cases e with
    | chunk t m => cases t <;> simp [attrN, tblS, tblN, ih]
    | source i s c => simp [attrN, tblS, tblN, ih]
    | name i n => simp [attrN, tblS, tblN, ih]

/-! ## association lists -/
theorem assoc_get_insert_self (m : Assoc) (k : Text) (v : Nat) (h : m.get? k = none) : (m.insert k v).get? k = some v := by
  unfold Assoc.get? at h ⊢
  have hf : m.find? (fun e => e.1 == k) = none := by simpa using h
  have hany : m.any (fun e => e.1 == k) = false := by
    rw [List.any_eq_false]; intro e he; have := List.find?_eq_none.1 hf e he; simpa using this
  unfold Assoc.insert
  simp only [hany, Bool.false_eq_true, if_false]
  rw [List.find?_append, hf]; simp

theorem assoc_get_insert_other (m : Assoc) (k k' : Text) (v : Nat) (h : m.get? k = none) (hne : k' ≠ k) : (m.insert k v).get? k' = m.get? k' := by
  unfold Assoc.get? at h ⊢
  have hf : m.find? (fun e => e.1 == k) = none := by simpa using h
  have hany : m.any (fun e => e.1 == k) = false := by
    rw [List.any_eq_false]; intro e he; have := List.find?_eq_none.1 hf e he; simpa using this
  unfold Assoc.insert
  simp only [hany, Bool.false_eq_true, if_false]
  rw [List.find?_append]
  cases m.find? (fun e => e.1 == k') with
  | some x => rfl
  | none =>
    have : (k == k') = false := by simpa using fun e : k = k' => hne e.symm
    simp [List.find?, this]

theorem assoc_length_insert (m : Assoc) (k : Text) (v : Nat) (h : m.get? k = none) : (m.insert k v).length = m.length + 1 := by
  unfold Assoc.get? at h
  have hf : m.find? (fun e => e.1 == k) = none := by simpa using h
  have hany : m.any (fun e => e.1 == k) = false := by
    rw [List.any_eq_false]; intro e he; have := List.find?_eq_none.1 hf e he; simpa using this
  unfold Assoc.insert
  simp [hany]

theorem lm_get_insert {α} (d : α) (m : List α) (k : Nat) (v : α) : (lmInsert d m k v)[k]? = some v := by
  unfold lmInsert
  split
  · rename_i h; simp [h]
  · rename_i h
    have : (m ++ List.replicate (k - m.length) d).length = k := by simp; omega
    rw [List.getElem?_append_right (by omega)]
    simp [this]

theorem lm_get_other {α} (d : α) (m : List α) (k j : Nat) (v : α) (hj : j < m.length) (hne : j ≠ k) : (lmInsert d m k v)[j]? = m[j]? := by
  unfold lmInsert
  split
  · simp [List.getElem?_set, hne.symm]
  · rw [List.append_assoc, List.getElem?_append_left hj]

end Rs

namespace Rs

def emptyS : SrcTbl := fun _ => none
def emptyN : NameTbl := fun _ => none

/-- the child announces every index before using it; every announcement of a file carries the content `cons` assigns to that file
name ("a shared name carries the same content everywhere") -/
def WellDecl (cons : Text → Option Text) : SrcTbl → NameTbl → List Ev → Prop
  | _, _, [] => True
  | Sc, Nc, .chunk _ m :: es =>
    (∀ o, m.orig = some o → (Sc o.src).isSome = true ∧ ∀ k, o.name = some k → (Nc k).isSome = true) ∧ WellDecl cons Sc Nc es
  | Sc, Nc, .source i s c :: es => c = cons s ∧ WellDecl cons (upd Sc i (s, c)) Nc es
  | Sc, Nc, .name i n :: es => WellDecl cons Sc (upd Nc i n) es

structure GInv (cons : Text → Option Text) (st : CSt) (S : SrcTbl) (N : NameTbl) : Prop where
  srcs : ∀ s g, st.sourceMapping.get? s = some g → S g = some (s, cons s) ∧ g < st.sourceMapping.length
  names : ∀ n g, st.nameMapping.get? n = some g → N g = some n ∧ g < st.nameMapping.length
  nc : st.needClose = false

structure CInv (st : CSt) (Sc : SrcTbl) (Nc : NameTbl) (S : SrcTbl) (N : NameTbl) : Prop where
  src : ∀ i s c, Sc i = some (s, c) → ∃ g, st.sim[i]? = some g ∧ S g = some (s, c) ∧ g < st.sourceMapping.length
  name : ∀ i n, Nc i = some n → ∃ g, st.nim[i]? = some g ∧ N g = some n ∧ g < st.nameMapping.length

theorem getElem?_lt {α} (l : List α) (i : Nat) (v : α) (h : l[i]? = some v) : i < l.length := by
  rcases Nat.lt_or_ge i l.length with h' | h'
  · exact h'
  · rw [List.getElem?_eq_none h'] at h; cases h

/-- one callback of the child, seen from outside the ConcatSource -/
theorem concatEv_attrN (cons : Text → Option Text) (st : CSt) (S Sc : SrcTbl) (N Nc : NameTbl) (e : Ev) (rest : List Ev)
    (hg : GInv cons st S N) (hc : CInv st Sc Nc S N) (hd : WellDecl cons Sc Nc (e :: rest)) (hTL : e.textless = false) :
    attrN S N (concatEv false st e).2 = attrN Sc Nc [e]
    ∧ GInv cons (concatEv false st e).1 (tblS S (concatEv false st e).2) (tblN N (concatEv false st e).2)
    ∧ CInv (concatEv false st e).1 (tblS Sc [e]) (tblN Nc [e]) (tblS S (concatEv false st e).2) (tblN N (concatEv false st e).2)
    ∧ WellDecl cons (tblS Sc [e]) (tblN Nc [e]) rest := by
  cases e with
  | chunk text m =>
    cases text with
    | none => simp [Ev.textless] at hTL
    | some t =>
      obtain ⟨hdm, hdr⟩ := hd
      cases ho : m.orig with
      | none =>
        simp only [concatEv, hg.nc, ho, Bool.false_and, Bool.false_eq_true, if_false, List.nil_append, Option.bind_none]
        exact ⟨by simp [attrN, ho], ⟨hg.srcs, hg.names, rfl⟩, ⟨hc.src, hc.name⟩, hdr⟩
      | some o =>
        obtain ⟨hs, hn⟩ := hdm o ho
        cases hsc : Sc o.src with
        | none => rw [hsc] at hs; cases hs
        | some sc =>
          obtain ⟨s, c⟩ := sc
          obtain ⟨g, g1, g2, _⟩ := hc.src o.src s c hsc
          simp only [concatEv, hg.nc, ho, Bool.false_and, Bool.false_eq_true, if_false, List.nil_append, Option.bind_some, g1]
          refine ⟨?_, ⟨hg.srcs, hg.names, rfl⟩, ⟨hc.src, hc.name⟩, hdr⟩
          simp only [attrN, List.append_nil, Option.map_some, ho]
          congr 2
          simp only [resolveO, hsc, g2]
          congr 1
          cases hk : o.name with
          | none => rfl
          | some k =>
            have := hn k hk
            cases hnk : Nc k with
            | none => rw [hnk] at this; cases this
            | some n =>
              obtain ⟨g', n1, n2, _⟩ := hc.name k n hnk
              simp [n1, n2, hnk]
  | source i s c =>
    obtain ⟨hcons, hdr⟩ := hd
    simp only [concatEv, globalSource]
    cases hget : st.sourceMapping.get? s with
    | some g =>
      simp only [attrN, tblS, tblN]
      obtain ⟨gs, gl⟩ := hg.srcs s g hget
      refine ⟨trivial, ⟨hg.srcs, hg.names, hg.nc⟩, ⟨?_, hc.name⟩, hdr⟩
      intro j s' c' hj
      simp only [upd] at hj
      by_cases hji : j = i
      · subst hji
        simp only [if_true, Option.some.injEq, Prod.mk.injEq] at hj
        obtain ⟨rfl, rfl⟩ := hj
        exact ⟨g, lm_get_insert 0 st.sim j g, by rw [gs, hcons], gl⟩
      · simp only [hji, if_false] at hj
        obtain ⟨g', a, b, c''⟩ := hc.src j s' c' hj
        exact ⟨g', by rw [lm_get_other 0 st.sim i j g (getElem?_lt _ _ _ a) hji]; exact a, b, c''⟩
    | none =>
      simp only [attrN, tblS, tblN]
      have hlen := assoc_length_insert st.sourceMapping s st.sourceMapping.length hget
      refine ⟨trivial, ⟨?_, hg.names, hg.nc⟩, ⟨?_, hc.name⟩, hdr⟩
      · intro s' g' hs'
        by_cases hss : s' = s
        · subst hss
          rw [assoc_get_insert_self _ _ _ hget] at hs'
          cases hs'
          exact ⟨by simp [upd, hcons], by simp only; omega⟩
        · rw [assoc_get_insert_other _ _ _ _ hget hss] at hs'
          obtain ⟨a, b⟩ := hg.srcs s' g' hs'
          refine ⟨?_, by simp only; omega⟩
          simp only [upd]
          have : ¬ g' = st.sourceMapping.length := by omega
          simp [this, a]
      · intro j s' c' hj
        simp only [upd] at hj
        by_cases hji : j = i
        · subst hji
          simp only [if_true, Option.some.injEq, Prod.mk.injEq] at hj
          obtain ⟨rfl, rfl⟩ := hj
          exact ⟨st.sourceMapping.length, lm_get_insert 0 st.sim j _, by simp [upd], by simp only; omega⟩
        · simp only [hji, if_false] at hj
          obtain ⟨g', a, b, c''⟩ := hc.src j s' c' hj
          refine ⟨g', by rw [lm_get_other 0 st.sim i j _ (getElem?_lt _ _ _ a) hji]; exact a, ?_, by simp only; omega⟩
          simp only [upd]
          have : ¬ g' = st.sourceMapping.length := by omega
          simp [this, b]
  | name i n =>
    simp only [concatEv, globalName]
    cases hget : st.nameMapping.get? n with
    | some g =>
      simp only [attrN, tblS, tblN]
      obtain ⟨gs, gl⟩ := hg.names n g hget
      refine ⟨trivial, ⟨hg.srcs, hg.names, hg.nc⟩, ⟨hc.src, ?_⟩, hd⟩
      intro j n' hj
      simp only [upd] at hj
      by_cases hji : j = i
      · subst hji
        simp only [if_true, Option.some.injEq] at hj
        subst hj
        exact ⟨g, lm_get_insert 0 st.nim j g, gs, gl⟩
      · simp only [hji, if_false] at hj
        obtain ⟨g', a, b, c''⟩ := hc.name j n' hj
        exact ⟨g', by rw [lm_get_other 0 st.nim i j g (getElem?_lt _ _ _ a) hji]; exact a, b, c''⟩
    | none =>
      simp only [attrN, tblS, tblN]
      have hlen := assoc_length_insert st.nameMapping n st.nameMapping.length hget
      refine ⟨trivial, ⟨hg.srcs, ?_, hg.nc⟩, ⟨hc.src, ?_⟩, hd⟩
      · intro n' g' hn'
        by_cases hnn : n' = n
        · subst hnn
          rw [assoc_get_insert_self _ _ _ hget] at hn'
          cases hn'
          exact ⟨by simp [upd], by simp only; omega⟩
        · rw [assoc_get_insert_other _ _ _ _ hget hnn] at hn'
          obtain ⟨a, b⟩ := hg.names n' g' hn'
          refine ⟨?_, by simp only; omega⟩
          simp only [upd]
          have : ¬ g' = st.nameMapping.length := by omega
          simp [this, a]
      · intro j n' hj
        simp only [upd] at hj
        by_cases hji : j = i
        · subst hji
          simp only [if_true, Option.some.injEq] at hj
          subst hj
          exact ⟨st.nameMapping.length, lm_get_insert 0 st.nim j _, by simp [upd], by simp only; omega⟩
        · simp only [hji, if_false] at hj
          obtain ⟨g', a, b, c''⟩ := hc.name j n' hj
          refine ⟨g', by rw [lm_get_other 0 st.nim i j _ (getElem?_lt _ _ _ a) hji]; exact a, ?_, by simp only; omega⟩
          simp only [upd]
          have : ¬ g' = st.nameMapping.length := by omega
          simp [this, b]

end Rs

namespace Rs

theorem tblS_append (a b : List Ev) (S : SrcTbl) : tblS S (a ++ b) = tblS (tblS S a) b := by
  induction a generalizing S with
  | nil => rfl
  | cons e es ih => cases e <;> simp [tblS, ih]

theorem tblN_append (a b : List Ev) (N : NameTbl) : tblN N (a ++ b) = tblN (tblN N a) b := by
  induction a generalizing N with
  | nil => rfl
  | cons e es ih => cases e <;> simp [tblN, ih]

theorem attrN_cons (e : Ev) (es : List Ev) (S : SrcTbl) (N : NameTbl) : attrN S N (e :: es) = attrN S N [e] ++ attrN (tblS S [e]) (tblN N [e]) es := by
  have := attrN_append [e] es S N
  simpa using this

theorem concatEvs_attrN (cons : Text → Option Text) : ∀ (evs : List Ev) (st : CSt) (S Sc : SrcTbl) (N Nc : NameTbl),
    GInv cons st S N → CInv st Sc Nc S N → WellDecl cons Sc Nc evs → evsTL evs = false →
    attrN S N (concatEvs false st evs).2 = attrN Sc Nc evs
    ∧ GInv cons (concatEvs false st evs).1 (tblS S (concatEvs false st evs).2) (tblN N (concatEvs false st evs).2) := by
  intro evs
  induction evs with
  | nil => intro st S Sc N Nc hg _ _ _; exact ⟨rfl, hg⟩
  | cons e es ih =>
    intro st S Sc N Nc hg hc hd hTL
    simp only [evsTL_cons, Bool.or_eq_false_iff] at hTL
    obtain ⟨a1, a2, a3, a4⟩ := concatEv_attrN cons st S Sc N Nc e es hg hc hd hTL.1
    obtain ⟨i1, i2⟩ := ih _ _ _ _ _ a2 a3 a4 hTL.2
    simp only [concatEvs]
    rw [attrN_append, a1, i1, attrN_cons e es, tblS_append, tblN_append]
    exact ⟨rfl, i2⟩

theorem cinv_fresh (st : CSt) (S : SrcTbl) (N : NameTbl) : CInv { st with sim := [], nim := [], lastMappingLine := 0 } emptyS emptyN S N :=
  ⟨fun i s c h => by simp [emptyS] at h, fun i n h => by simp [emptyN] at h⟩

theorem concatGo_attrN (cons : Text → Option Text) : ∀ (children : List SResult) (st : CSt) (S : SrcTbl) (N : NameTbl),
    GInv cons st S N → (∀ c ∈ children, WellDecl cons emptyS emptyN c.evs ∧ evsTL c.evs = false) →
    attrN S N (concatGo false st children).2 = (children.map fun c => attrN emptyS emptyN c.evs).flatten := by
  intro children
  induction children with
  | nil => intro st S N _ _; rfl
  | cons c cs ih =>
    intro st S N hg hc
    obtain ⟨hd, hTL⟩ := hc c (by simp)
    have hg0 : GInv cons { st with sim := [], nim := [], lastMappingLine := 0 } S N := ⟨hg.srcs, hg.names, hg.nc⟩
    obtain ⟨a1, a2⟩ := concatEvs_attrN cons c.evs _ S emptyS N emptyN hg0 (cinv_fresh st S N) hd hTL
    simp only [concatGo, concatChild, a2.nc, Bool.false_and, Bool.false_eq_true, if_false, List.append_nil, Bool.or_self,
      List.map_cons, List.flatten_cons]
    rw [attrN_append, a1]
    congr 1
    apply ih
    · exact ⟨a2.srcs, a2.names, rfl⟩
    · exact fun x hx => hc x (by simp [hx])

/-- **C06 for ConcatSource** (columns = true, normal mode): every byte contributed by child `k` is attributed — file name, content,
line, column and name — exactly as child `k` attributes it on its own, whatever indices the children use for their sources and
names and however those collide or are shared across children -/
theorem concatStream_attrN (cons : Text → Option Text) (children : List SResult)
    (h : ∀ c ∈ children, WellDecl cons emptyS emptyN c.evs ∧ evsTL c.evs = false) :
    attrN emptyS emptyN (concatStream false children).evs = (children.map fun c => attrN emptyS emptyN c.evs).flatten := by
  simp only [concatStream]
  exact concatGo_attrN cons children {} emptyS emptyN
    ⟨fun s g h => by simp [Assoc.get?] at h, fun n g h => by simp [Assoc.get?] at h, rfl⟩ h

end Rs

namespace Rs

theorem wellDecl_append (cons : Text → Option Text) : ∀ (a b : List Ev) (S : SrcTbl) (N : NameTbl),
    WellDecl cons S N (a ++ b) ↔ WellDecl cons S N a ∧ WellDecl cons (tblS S a) (tblN N a) b := by
  intro a
  induction a with
  | nil => intro b S N; simp [WellDecl, tblS, tblN]
  | cons e es ih =>
    intro b S N
    cases e with
    | chunk t m => simp only [List.cons_append, WellDecl, ih, tblS, tblN]; exact and_assoc.symm
    | source i s c => simp only [List.cons_append, WellDecl, ih, tblS, tblN]; exact and_assoc.symm
    | name i n => simp only [List.cons_append, WellDecl, ih, tblS, tblN]

/-- what the ConcatSource delivers is itself well declared (global indices are announced before they are used) -/
theorem concatEv_wellDecl (cons : Text → Option Text) (st : CSt) (S Sc : SrcTbl) (N Nc : NameTbl) (e : Ev) (rest : List Ev)
    (hg : GInv cons st S N) (hc : CInv st Sc Nc S N) (hd : WellDecl cons Sc Nc (e :: rest)) (hTL : e.textless = false) :
    WellDecl cons S N (concatEv false st e).2 := by
  cases e with
  | chunk text m =>
    cases text with
    | none => simp [Ev.textless] at hTL
    | some t =>
      obtain ⟨hdm, _⟩ := hd
      cases ho : m.orig with
      | none =>
        simp only [concatEv, hg.nc, ho, Bool.false_and, Bool.false_eq_true, if_false, List.nil_append, Option.bind_none]
        exact ⟨fun o h => (by cases h), trivial⟩
      | some o =>
        obtain ⟨hs, hn⟩ := hdm o ho
        cases hsc : Sc o.src with
        | none => rw [hsc] at hs; cases hs
        | some sc =>
          obtain ⟨s, c⟩ := sc
          obtain ⟨g, g1, g2, _⟩ := hc.src o.src s c hsc
          simp only [concatEv, hg.nc, ho, Bool.false_and, Bool.false_eq_true, if_false, List.nil_append, Option.bind_some, g1]
          refine ⟨fun o' ho' => ?_, trivial⟩
          simp only [Option.some.injEq] at ho'
          subst ho'
          refine ⟨by simp [g2], fun k hk => ?_⟩
          simp only at hk
          cases hon : o.name with
          | none => rw [hon] at hk; simp at hk
          | some k0 =>
            have := hn k0 hon
            cases hnk : Nc k0 with
            | none => rw [hnk] at this; cases this
            | some n =>
              obtain ⟨g', n1, n2, _⟩ := hc.name k0 n hnk
              rw [hon] at hk
              simp only [Option.bind_some, n1, Option.some.injEq] at hk
              subst hk
              simp [n2]
  | source i s c =>
    obtain ⟨hcons, _⟩ := hd
    simp only [concatEv, globalSource]
    cases hget : st.sourceMapping.get? s with
    | some g => trivial
    | none => exact ⟨hcons, trivial⟩
  | name i n =>
    simp only [concatEv, globalName]
    cases hget : st.nameMapping.get? n with
    | some g => trivial
    | none => trivial

theorem concatEvs_wellDecl (cons : Text → Option Text) : ∀ (evs : List Ev) (st : CSt) (S Sc : SrcTbl) (N Nc : NameTbl),
    GInv cons st S N → CInv st Sc Nc S N → WellDecl cons Sc Nc evs → evsTL evs = false → WellDecl cons S N (concatEvs false st evs).2 := by
  intro evs
  induction evs with
  | nil => intro st S Sc N Nc _ _ _ _; trivial
  | cons e es ih =>
    intro st S Sc N Nc hg hc hd hTL
    simp only [evsTL_cons, Bool.or_eq_false_iff] at hTL
    obtain ⟨_, a2, a3, a4⟩ := concatEv_attrN cons st S Sc N Nc e es hg hc hd hTL.1
    simp only [concatEvs]
    rw [wellDecl_append]
    exact ⟨concatEv_wellDecl cons st S Sc N Nc e es hg hc hd hTL.1, ih _ _ _ _ _ a2 a3 a4 hTL.2⟩

theorem concatGo_wellDecl (cons : Text → Option Text) : ∀ (children : List SResult) (st : CSt) (S : SrcTbl) (N : NameTbl),
    GInv cons st S N → (∀ c ∈ children, WellDecl cons emptyS emptyN c.evs ∧ evsTL c.evs = false) →
    WellDecl cons S N (concatGo false st children).2 := by
  intro children
  induction children with
  | nil => intro st S N _ _; trivial
  | cons c cs ih =>
    intro st S N hg hc
    obtain ⟨hd, hTL⟩ := hc c (by simp)
    have hg0 : GInv cons { st with sim := [], nim := [], lastMappingLine := 0 } S N := ⟨hg.srcs, hg.names, hg.nc⟩
    obtain ⟨_, a2⟩ := concatEvs_attrN cons c.evs _ S emptyS N emptyN hg0 (cinv_fresh st S N) hd hTL
    have w := concatEvs_wellDecl cons c.evs _ S emptyS N emptyN hg0 (cinv_fresh st S N) hd hTL
    simp only [concatGo, concatChild, a2.nc, Bool.false_and, Bool.false_eq_true, if_false, List.append_nil, Bool.or_self]
    rw [wellDecl_append]
    exact ⟨w, ih _ _ _ ⟨a2.srcs, a2.names, rfl⟩ (fun x hx => hc x (by simp [hx]))⟩

theorem concatStream_wellDecl (cons : Text → Option Text) (children : List SResult)
    (h : ∀ c ∈ children, WellDecl cons emptyS emptyN c.evs ∧ evsTL c.evs = false) :
    WellDecl cons emptyS emptyN (concatStream false children).evs := by
  simp only [concatStream]
  exact concatGo_wellDecl cons children {} emptyS emptyN
    ⟨fun s g h => by simp [Assoc.get?] at h, fun n g h => by simp [Assoc.get?] at h, rfl⟩ h

end Rs
