import RsModel.Lemmas.ReplaceAdvance
import RsModel.Lemmas.LinePos
import RsModel.Lemmas.ProvOrig
import RsModel.Lemmas.MappedNE
import RsModel.Lemmas.ProvTree3
/-!
# C04/C06: a ReplaceSource over an OriginalSource reports true original positions

The inner stream of an (ASCII) `OriginalSource` announces its text as the content of source 0 and then delivers one chunk per
potential token, mapped to the token's own position.  The recorded content therefore always spells out the chunk (`FM`), so the
advance rule (`rOnChunk_adv`) applies to every inner chunk: whatever the ReplaceSource delivers with a mapping — a piece of a
token, or replacement content spliced into it — is reported at `(0, l, c + p)`, and that is exactly the position, in the original
text, of byte `k + p`, where the token starts at byte `k` and `p` is the offset inside the token at which the piece was cut.
-/
namespace Rs

/-- where a chunk of a position-correct stream sits: the text before it -/
theorem posOKT_mem : ∀ (evs : List Ev) (pre : Text), posOKT pre evs → ∀ t m, Ev.chunk (some t) m ∈ evs →
    ∃ pre' rest, pre ++ evsText evs = pre' ++ t ++ rest ∧ (⟨m.gl, m.gc⟩ : Pos) = adv startPos pre' := by
  intro evs
  induction evs with
  | nil => intro pre _ t m h; simp at h
  | cons e es ih =>
    intro pre hp t m h
    cases e with
    | chunk t0 m0 =>
      cases t0 with
      | none =>
        simp only [posOKT] at hp
        simp only [List.mem_cons, Ev.chunk.injEq, reduceCtorEq, false_and, false_or] at h
        obtain ⟨pre', rest, h1, h2⟩ := ih pre hp t m h
        exact ⟨pre', rest, by rw [evsText_cons]; simpa [Ev.text] using h1, h2⟩
      | some t0 =>
        simp only [posOKT] at hp
        rcases List.mem_cons.1 h with h | h
        · cases h
          exact ⟨pre, evsText es, by rw [evsText_cons]; simp [Ev.text], hp.1⟩
        · obtain ⟨pre', rest, h1, h2⟩ := ih (pre ++ t0) hp.2 t m h
          exact ⟨pre', rest, by rw [evsText_cons]; simpa [Ev.text, List.append_assoc] using h1, h2⟩
    | source i s c =>
      simp only [posOKT] at hp
      simp only [List.mem_cons, reduceCtorEq, false_or] at h
      obtain ⟨pre', rest, h1, h2⟩ := ih pre hp t m h
      exact ⟨pre', rest, by rw [evsText_cons]; simpa [Ev.text] using h1, h2⟩
    | name i n =>
      simp only [posOKT] at hp
      simp only [List.mem_cons, reduceCtorEq, false_or] at h
      obtain ⟨pre', rest, h1, h2⟩ := ih pre hp t m h
      exact ⟨pre', rest, by rw [evsText_cons]; simpa [Ev.text] using h1, h2⟩

/-- the chunk `tok`, mapped to `a`, is a potential token of `T` starting at byte `k`, and `a` is its true position -/
structure TokAt (T : Text) (tok : Text) (a : Orig) (k : Nat) : Prop where
  lt : k < T.length
  pre : tok <+: T.drop k
  ok : TokOK tok
  ne : tok ≠ []
  src : a.src = 0
  pos : adv startPos (T.take k) = ⟨a.line, a.col⟩

/-- every chunk of an OriginalSource stream (columns = true) is unmapped, or a token at its true position -/
theorem original_tokAt (T name : Text) : ∀ t m, Ev.chunk t m ∈ (streamOriginal T name ⟨true, false⟩).evs →
    m.orig = none ∨ ∃ tok a k, t = some tok ∧ m.orig = some a ∧ TokAt T tok a k := by
  intro t m hm
  have hp := (streamOriginal_posOK T name true).1
  have hT := streamOriginal_tok T name true
  have hx := streamOriginal_text T name true
  have hne := streamOriginal_mappedNE T name true
  have hS : OrigShape (streamOriginal T name ⟨true, false⟩).evs := by
    intro tt m hm
    simp only [streamOriginal, if_true, List.mem_cons] at hm
    rcases hm with hm | hm
    · cases hm
    · exact origTok_shape (tokens T) 1 0 true (tokens_nlstart T) (fun _ => rfl) tt m hm
  have htl := streamOriginal_tl T name true
  cases t with
  | none =>
    exfalso
    have : evsTL (streamOriginal T name ⟨true, false⟩).evs = true := by
      simp only [evsTL, List.any_eq_true]
      exact ⟨_, hm, rfl⟩
    rw [htl] at this; cases this
  | some tok =>
    rcases hS tok m hm with h | h
    · obtain ⟨pre', rest, h1, h2⟩ := posOKT_mem _ [] hp tok m hm
      refine Or.inr ⟨tok, _, pre'.length, rfl, h, ?_⟩
      rw [hx, List.nil_append] at h1
      have hnet : tok ≠ [] := hne tok m hm (by rw [h]; rfl)
      have hdrop : T.drop pre'.length = tok ++ rest := by rw [h1, List.append_assoc, List.drop_left']; rfl
      have htake : T.take pre'.length = pre' := by rw [h1, List.append_assoc, List.take_left']; rfl
      refine ⟨?_, ?_, hT tok m hm, hnet, rfl, ?_⟩
      · have : 0 < tok.length := List.length_pos_iff.2 hnet
        rw [h1]; simp only [List.length_append]; omega
      · rw [hdrop]; exact List.prefix_append _ _
      · rw [htake]; exact h2.symm
    · exact Or.inl h.1

/-- a token that lies in its line spells out the recorded content from its position on: `FM` -/
theorem fm_of_tokAt (T : Text) (ha : IsAscii T) (hl : T.length < USIZE_MAX) (tok : Text) (a : Orig) (k : Nat) (h : TokAt T tok a k)
    (contents : List (Option Text)) (hc : contents[0]? = some (some T)) : FM contents a tok := by
  obtain ⟨h1, h2, h3⟩ := token_in_line T ha (Nat.le_of_lt hl) k h.lt a.line a.col h.pos tok h.ok h.pre
  have hget : (splitLines T)[a.line - 1]? = some (lineAt (splitLines T) a.line) := by
    unfold lineAt
    rw [List.getD_eq_getElem?_getD, List.getElem?_eq_getElem (by omega)]; rfl
  have hsub : ∀ x ∈ lineAt (splitLines T) a.line, x ∈ T := by
    intro x hx
    have : lineAt (splitLines T) a.line ∈ splitLines T := List.mem_of_getElem? hget
    have hj := splitLines_join T
    rw [← hj]
    exact List.mem_flatten.2 ⟨_, this, hx⟩
  have hla : IsAscii (lineAt (splitLines T) a.line) := fun b hb => ha b (hsub b hb)
  have hlen : (lineAt (splitLines T) a.line).length ≤ T.length := by
    have : (lineAt (splitLines T) a.line) <:+: (splitLines T).flatten := List.infix_of_mem_flatten (List.mem_of_getElem? hget)
    rw [splitLines_join] at this
    exact this.length_le
  have htl : a.col + tok.length ≤ (lineAt (splitLines T) a.line).length := by
    have := h3.length_le
    simp only [List.length_drop] at this
    have : 0 < tok.length := List.length_pos_iff.2 h.ne
    omega
  refine fm_of_prefix contents a tok T (lineAt (splitLines T) a.line) (by rw [h.src]; exact hc) (by omega) hget hla ?_
  intro p q hpq hq
  rw [csub_eq _ _ _ (by omega), cpos_ascii _ hla _ (by omega), cpos_big _ _ (by omega), List.take_length]
  · rw [List.isPrefixOf_iff_prefix]
    have e1 : bsub tok p q <+: tok.drop p := by unfold bsub; exact List.take_prefix _ _
    have e2 : tok.drop p <+: ((lineAt (splitLines T) a.line).drop a.col).drop p := by
      obtain ⟨r, hr⟩ := h3
      rw [← hr, List.drop_append_of_le_length (by omega)]
      exact List.prefix_append _ _
    rw [List.drop_drop] at e2
    exact e1.trans e2

/-- every mapped inner chunk is non-empty and spelled out by what is recorded for source 0 -/
def InnerFM (T : Text) (evs : List Ev) : Prop :=
  ∀ t m a, Ev.chunk t m ∈ evs → m.orig = some a → t.getD [] ≠ [] ∧ ∀ contents : List (Option Text), contents[0]? = some (some T) → FM contents a (t.getD [])

/-- the advance rule along a whole inner stream (after the source announcement) -/
theorem rEvs_orig (RS : List Repl) (T : Text) : ∀ (evs : List Ev) (st : RSt), st.contents[0]? = some (some T) → NoSrc evs → InnerFM T evs →
    (∀ r ∈ st.rest, r ∈ RS) →
    ∀ t' mm, Ev.chunk t' mm ∈ (rEvs st evs).2 →
      mm.orig = none ∨ ∃ t m a, Ev.chunk t m ∈ evs ∧ m.orig = some a ∧ AtOffset RS a (t.getD []) t' mm := by
  intro evs
  induction evs with
  | nil => intro st _ _ _ _ t' mm h; simp [rEvs] at h
  | cons e es ih =>
    intro st hc hns hfm hrest t' mm h
    have hns' : NoSrc es := fun i s c hm => hns i s c (List.mem_cons_of_mem _ hm)
    have hfm' : InnerFM T es := fun t m a hm => hfm t m a (List.mem_cons_of_mem _ hm)
    simp only [rEvs, List.mem_append] at h
    rcases h with h | h
    · cases e with
      | chunk t m =>
        simp only [rEv] at h
        cases hmo : m.orig with
        | none =>
          have := ((rOnChunk_keeps st (t.getD []) m).1 t' mm h).1
          exact Or.inl (this hmo)
        | some a =>
          obtain ⟨hne, hf⟩ := hfm t m a (by simp) hmo
          exact Or.inr ⟨t, m, a, by simp, hmo, (rOnChunk_adv RS st (t.getD []) hne m a hmo (hf _ hc) hrest).1 t' mm h⟩
      | source i s c => exact absurd (List.mem_cons_self) (hns i s c)
      | name i n =>
        simp only [rEv] at h
        exact absurd h (globalName_noChunkMem _ _ t' mm)
    · have hc' : (rEv st e).1.contents[0]? = some (some T) := by
        cases e with
        | chunk t m => simp only [rEv]; rw [(rOnChunk_keeps st (t.getD []) m).2.1]; exact hc
        | source i s c => exact absurd (List.mem_cons_self) (hns i s c)
        | name i n => exact hc
      have hrest' : ∀ r ∈ (rEv st e).1.rest, r ∈ RS := by
        cases e with
        | chunk t m => simp only [rEv]; exact fun r hr => hrest r (rOnChunk_restSub st (t.getD []) m r hr)
        | source i s c => exact absurd (List.mem_cons_self) (hns i s c)
        | name i n => exact hrest
      rcases ih _ hc' hns' hfm' hrest' t' mm h with h | ⟨t, m, a, hm, h1, h2⟩
      · exact Or.inl h
      · exact Or.inr ⟨t, m, a, List.mem_cons_of_mem _ hm, h1, h2⟩

theorem tok_take_noNL (tok : Text) (h : TokOK tok) (p : Nat) (hp : p < tok.length) : ∀ b ∈ tok.take p, b ≠ NL := by
  obtain ⟨s, hs, hc⟩ := h
  intro b hb
  rcases hc with rfl | rfl
  · exact hs b (List.mem_of_mem_take hb)
  · simp only [List.length_append, List.length_singleton] at hp
    rw [List.take_append_of_le_length (by omega)] at hb
    exact hs b (List.mem_of_mem_take hb)

/-- **ReplaceSource over an (ASCII) OriginalSource, columns = true**: every chunk the ReplaceSource delivers is unmapped, or reports
source 0 at the *true* line and column, in the original text `T`, of byte `k + p` — where `k` is the start of a potential token of `T`
and `p` the offset inside that token at which the delivered piece was cut (or the replacement content spliced in) -/
theorem replace_original_true (T name : Text) (ha : IsAscii T) (hl : T.length < USIZE_MAX) (sorted : List Repl) :
    ∀ t' mm, Ev.chunk t' mm ∈ (replaceStream sorted (streamOriginal T name ⟨true, false⟩)).evs →
      mm.orig = none ∨ ∃ tok k p y, k + p < T.length ∧ p < tok.length ∧ tok <+: T.drop k ∧ TokOK tok ∧ mm.orig = some y ∧ y.src = 0
        ∧ adv startPos (T.take (k + p)) = ⟨y.line, y.col⟩
        ∧ ((∃ q, p < q ∧ q ≤ tok.length ∧ t' = some (bsub tok p q)) ∨ (∃ r ∈ sorted, ∃ cl ∈ splitLines r.content, t' = some cl)) := by
  intro t' mm h
  have hall := original_tokAt T name
  simp only [replaceStream] at h
  rcases List.mem_append.1 h with h | h
  · simp only [streamOriginal, if_true, rEvs, rEv, List.mem_append, List.mem_singleton, reduceCtorEq, false_or] at h
    have hns : NoSrc (origTokChunks false 1 0 (tokens T)).1 := by
      intro i s c hm
      obtain ⟨t, m, he, _⟩ := origTokChunks_ref0 (tokens T) 1 0 _ hm
      cases he
    have hfm : InnerFM T (origTokChunks false 1 0 (tokens T)).1 := by
      intro t m a hm hmo
      rcases hall t m (by simp only [streamOriginal, if_true]; exact List.mem_cons_of_mem _ hm) with h0 | ⟨tok, a', k, rfl, h1, h2⟩
      · rw [h0] at hmo; cases hmo
      · rw [h1] at hmo; cases hmo
        exact ⟨h2.ne, fun contents hc => fm_of_tokAt T ha hl tok _ k h2 contents hc⟩
    rcases rEvs_orig sorted T _ _ (by rfl) hns hfm (fun r hr => hr) t' mm h with h | ⟨t, m, a, hm, h1, p, hp, ⟨y, hy1, hy2, hy3, hy4⟩, hpiece⟩
    · exact Or.inl h
    · rcases hall t m (by simp only [streamOriginal, if_true]; exact List.mem_cons_of_mem _ hm) with h0 | ⟨tok, a', k, rfl, h1', h2⟩
      · rw [h0] at h1; cases h1
      · rw [h1'] at h1; cases h1
        simp only [Option.getD_some] at hp hpiece
        obtain ⟨r, hr⟩ := h2.pre
        have hlen : k + tok.length ≤ T.length := by
          have := congrArg List.length hr
          simp only [List.length_append, List.length_drop] at this
          omega
        refine Or.inr ⟨tok, k, p, y, by omega, hp, h2.pre, h2.ok, hy1, by rw [hy2, h2.src], ?_, hpiece⟩
        rw [List.take_add, adv_append, h2.pos, ← hr, List.take_append_of_le_length (Nat.le_of_lt hp),
          adv_noNL _ _ (tok_take_noNL tok h2.ok p hp)]
        simp only [List.length_take, Nat.min_eq_left (Nat.le_of_lt hp)]
        rw [hy3, hy4]
  · exact Or.inl ((rRemainder_unmapped _ _ _ _).1 t' mm h)

theorem chunkMs_mem_ev : ∀ (evs : List Ev), ∀ m ∈ chunkMs evs, ∃ t, Ev.chunk t m ∈ evs := by
  intro evs
  induction evs with
  | nil => intro m h; simp [chunkMs] at h
  | cons e es ih =>
    intro m h
    cases e with
    | chunk t m0 =>
      simp only [chunkMs, List.mem_cons] at h
      rcases h with rfl | h
      · exact ⟨t, by simp⟩
      · obtain ⟨t', ht'⟩ := ih m h; exact ⟨t', List.mem_cons_of_mem _ ht'⟩
    | source i s c => simp only [chunkMs] at h; obtain ⟨t', ht'⟩ := ih m h; exact ⟨t', List.mem_cons_of_mem _ ht'⟩
    | name i n => simp only [chunkMs] at h; obtain ⟨t', ht'⟩ := ih m h; exact ⟨t', List.mem_cons_of_mem _ ht'⟩

/-- a position of the original text -/
def TruePos (T : Text) (o : Orig) : Prop := o.src = 0 ∧ ∃ q, q < T.length ∧ adv startPos (T.take q) = ⟨o.line, o.col⟩

/-- **through `map()`**: whatever the SourceMap of a ReplaceSource over an (ASCII) OriginalSource resolves a byte of `source()` to
is a real position of the original text -/
theorem replace_original_map (T name : Text) (ha : IsAscii T) (hl : T.length < USIZE_MAX) (rs : List Repl)
    (hr : ∀ r ∈ rs, r.start ≤ r.stop) (hlen : (replaceSource T rs).length + 1 < 2 ^ 32) (final : Bool)
    (hsmall : ∀ m ∈ chunkMs ((Src.replace (.orig T name) rs).stream ⟨true, true⟩ []).1.evs, m.small)
    (sm : SMap) (hm : (getMap (.replace (.orig T name) rs) ⟨true, final⟩ []).1 = some sm) :
    ∀ o, some o ∈ attrFrom (decode sm.mappings) startPos (replaceSource T rs) → TruePos T o := by
  intro o ho
  have hmode : (Src.replace (.orig T name) rs).ModeHyp := by
    simp only [Src.ModeHyp]
    exact ⟨trivial, hr, hlen⟩
  have := (getMap_attr (.replace (.orig T name) rs) hmode final hsmall).1 sm hm
  have hsrc : (Src.replace (.orig T name) rs).src = replaceSource T rs := rfl
  rw [hsrc] at this
  rw [this] at ho
  obtain ⟨m, hm1, hm2⟩ := attrOf_mem _ _ ho
  obtain ⟨t, ht⟩ := chunkMs_mem_ev _ m hm1
  have hst : ((Src.replace (.orig T name) rs).stream ⟨true, false⟩ []).1 = replaceStream (sortRepls rs) (streamOriginal T name ⟨true, false⟩) := rfl
  rw [hst] at ht
  rcases replace_original_true T name ha hl (sortRepls rs) t m ht with h | ⟨tok, k, p, y, h1, _, _, _, h5, h6, h7, _⟩
  · rw [h] at hm2; cases hm2
  · rw [h5] at hm2; cases hm2
    exact ⟨h6, k + p, h1, h7⟩

end Rs
