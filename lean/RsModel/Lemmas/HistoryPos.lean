import RsModel.Lemmas.HistoryAnswers
import RsModel.Lemmas.PosFinalTree
/-!
# C02 over every call history

Every call of every history returns the stream of the cache-free tree or of the replay tree (`runCalls_results`); both are
cache-free trees in the domain of C02 — the replay tree because the map a CachedSource stored lies inside the text it is replayed on
(`stored_inside_normal` for a fill by a normal-mode stream, `stored_map_ok` for a text-less fill; with columns = false the
map-driven splitter needs nothing of the map).
-/
namespace Rs

/-- the map `get_map` builds from a normal-mode stream of a text lies inside that text -/
theorem stored_inside_normal (r : SResult) (hp : PosOK r) (hTL : evsTL r.evs = false) (hMN : MappedNE r.evs)
    (hsmall : ∀ m ∈ chunkMs r.evs, m.small) (sm : SMap) (hm : mapOfEvs true r.evs = some sm) : MapInside (evsText r.evs) sm := by
  have hsorted : sortedFrom 1 0 (chunkMs r.evs) := chunkMs_sorted r.evs [] hp.1 hTL
  have hdec : decode sm.mappings = keptFrom {} (chunkMs r.evs) := by
    rw [mapOfEvs_mappings _ sm hm]; exact decode_encode _ hsmall (linesOK_of_sorted _ 1 0 hsorted)
  have hsub := keptFrom_sublist (chunkMs r.evs) {}
  intro m hmem
  rw [hdec] at hmem
  obtain ⟨pre', rest', e1, e2, _⟩ := chunkMs_where r.evs [] hp.1 hTL hMN m (hsub.subset hmem)
  rw [List.nil_append] at e1
  have hpre : pre' <+: (splitLines (evsText r.evs)).flatten := by rw [splitLines_join, e1]; exact List.prefix_append _ _
  obtain ⟨i1, i2⟩ := prefix_pos_inside (splitLines (evsText r.evs)) (lines_of_splitLines _) pre' 1 hpre
  have e2' : adv ⟨1, 0⟩ pre' = ⟨m.gl, m.gc⟩ := e2.symm
  rw [e2'] at i1 i2
  simp only at i1 i2
  refine ⟨i1, fun hle => ?_⟩
  have := i2 (by omega)
  simpa [lineAt] using this

mutual
theorem Src.strip_wf : ∀ (s : Src), s.WF → s.strip.WF
  | .raw .., _ | .rawStr .., _ | .rawBuf .., _ | .orig .., _ => trivial
  | .sms .., h => h
  | .concat cs, h => by simp only [Src.WF] at h; simp only [Src.strip, Src.WF]; exact SrcList.stripL_wfs cs h
  | .replace inner rs, h => by simp only [Src.WF] at h; simp only [Src.strip, Src.WF]; exact ⟨Src.strip_wf inner h.1, h.2⟩
  | .cached _ inner, h => by simp only [Src.WF] at h; simp only [Src.strip]; exact Src.strip_wf inner h.1
theorem SrcList.stripL_wfs : ∀ (l : SrcList), l.WFs → l.stripL.WFs
  | .nil, _ => trivial
  | .cons s r, h => ⟨Src.strip_wf s h.1, SrcList.stripL_wfs r h.2⟩
end

mutual
theorem Src.strip_posHyp (c : Bool) : ∀ (s : Src), s.PosHyp c → s.strip.PosHyp c
  | .raw .., _ | .rawStr .., _ | .rawBuf .., _ | .orig .., _ => trivial
  | .sms .., h => h
  | .concat cs, h => by simp only [Src.PosHyp] at h; simp only [Src.strip, Src.PosHyp]; exact SrcList.stripL_posHyps c cs h
  | .replace inner rs, h => by
    simp only [Src.PosHyp] at h; simp only [Src.strip, Src.PosHyp]
    exact ⟨Src.strip_posHyp c inner h.1, by rw [Src.strip_src]; exact h.2⟩
  | .cached _ inner, h => by simp only [Src.PosHyp] at h; simp only [Src.strip]; exact Src.strip_posHyp c inner h.1
theorem SrcList.stripL_posHyps (c : Bool) : ∀ (l : SrcList), l.PosHyps c → l.stripL.PosHyps c
  | .nil, _ => trivial
  | .cons s r, h => ⟨Src.strip_posHyp c s h.1, SrcList.stripL_posHyps c r h.2⟩
end

mutual
theorem Src.warm_wf (o : Opts) : ∀ (s : Src), s.WF → (s.warm o).WF
  | .raw .., _ | .rawStr .., _ | .rawBuf .., _ | .orig .., _ => trivial
  | .sms .., h => h
  | .concat cs, h => by simp only [Src.WF] at h; simp only [Src.warm, Src.WF]; exact SrcList.warmL_wfs o cs h
  | .replace inner rs, h => h
  | .cached _ inner, h => by
    simp only [Src.WF] at h
    simp only [Src.warm]
    split
    · exact h.2
    · trivial
theorem SrcList.warmL_wfs (o : Opts) : ∀ (l : SrcList), l.WFs → (l.warmL o).WFs
  | .nil, _ => trivial
  | .cons s r, h => ⟨Src.warm_wf o s h.1, SrcList.warmL_wfs o r h.2⟩
end

mutual
/-- columns = false: the map-driven splitter asks nothing of the stored map -/
theorem Src.warm_posHyp_lines (f : Bool) : ∀ (s : Src), s.PosHyp false → (s.warm ⟨false, f⟩).PosHyp false
  | .raw .., _ | .rawStr .., _ | .rawBuf .., _ | .orig .., _ => trivial
  | .sms .., h => h
  | .concat cs, h => by simp only [Src.PosHyp] at h; simp only [Src.warm, Src.PosHyp]; exact SrcList.warmL_posHyps_lines f cs h
  | .replace inner rs, h => h
  | .cached _ inner, h => by
    simp only [Src.PosHyp] at h
    simp only [Src.warm]
    split
    · exact ⟨h.2.1, h.2.2, fun hc => by cases hc⟩
    · trivial
theorem SrcList.warmL_posHyps_lines (f : Bool) : ∀ (l : SrcList), l.PosHyps false → (l.warmL ⟨false, f⟩).PosHyps false
  | .nil, _ => trivial
  | .cons s r, h => ⟨Src.warm_posHyp_lines f s h.1, SrcList.warmL_posHyps_lines f r h.2⟩
end

mutual
/-- columns = true, cache filled by a normal-mode stream: the stored map lies inside the replayed text -/
theorem Src.warm_posHyp_normal : ∀ (s : Src), s.PosHyp true → s.WarmHyp → (s.warm ⟨true, false⟩).PosHyp true
  | .raw .., _, _ | .rawStr .., _, _ | .rawBuf .., _, _ | .orig .., _, _ => trivial
  | .sms .., h, _ => h
  | .concat cs, h, hw => by
    simp only [Src.PosHyp] at h; simp only [Src.WarmHyp] at hw
    simp only [Src.warm, Src.PosHyp]; exact SrcList.warmL_posHyps_normal cs h hw
  | .replace inner rs, h, _ => h
  | .cached _ inner, h, hw => by
    simp only [Src.PosHyp] at h
    simp only [Src.WarmHyp] at hw
    obtain ⟨w1, w2, _, w4, w5, w6⟩ := hw
    simp only [Src.warm]
    cases hm : mapOfEvs true (inner.strip.stream ⟨true, false⟩ []).1.evs with
    | none => trivial
    | some sm =>
      simp only [Src.PosHyp]
      refine ⟨w4, w5, fun _ => ?_⟩
      have hnc := Src.strip_nc inner
      obtain ⟨hn, _, hnodes⟩ := nc_facts inner.strip hnc
      have hpos := Src.stream_posOK inner.strip true [] w1 w2 hn (fun p hp' => by rw [hnodes] at hp'; cases hp')
      have htext := Src.stream_text inner.strip true [] w1
      rw [Src.strip_src] at htext
      have := stored_inside_normal _ hpos (Src.stream_tl inner.strip true []) (Src.stream_mappedNE' inner.strip true []) w6 sm hm
      rw [htext] at this
      exact this
theorem SrcList.warmL_posHyps_normal : ∀ (l : SrcList), l.PosHyps true → l.WarmHyps → (l.warmL ⟨true, false⟩).PosHyps true
  | .nil, _, _ => trivial
  | .cons s r, h, hw => ⟨Src.warm_posHyp_normal s h.1 hw.1, SrcList.warmL_posHyps_normal r h.2 hw.2⟩
end

theorem posOK_nc (s : Src) (c : Bool) (hnc : s.NoCached) (hw : s.WF) (hp : s.PosHyp c) :
    PosOK (s.stream ⟨c, false⟩ []).1 ∧ (s.stream ⟨c, false⟩ []).1.info = adv startPos s.src
    ∧ FinOK s.src (s.stream ⟨c, true⟩ []).1 := by
  obtain ⟨hn, _, hnodes⟩ := nc_facts s hnc
  have h0 : StoreHypB c [] s.cachedNodes := fun p hp' => by rw [hnodes] at hp'; cases hp'
  have h1 := Src.stream_posOK s c [] hw hp hn (storeHypB_normal c [] _ h0)
  exact ⟨h1, by rw [h1.2, Src.stream_text s c [] hw], Src.stream_finOK s c [] hw hp hn h0⟩

/-- **C02 for every call of every history**: positions reported by any call — any options — of any history are true -/
theorem history_positions (s : Src) (hk : s.NoCR) (hn : s.ids.Nodup) (σ : Store) (hc : Cold σ s.ids) (hw : s.WF)
    (calls : List Opts) (k : Nat) (o : Opts) (hcall : calls[k]? = some o) :
    ∃ r, (runCalls s calls σ).1[k]? = some r
      ∧ (o.columns = false → s.PosHyp false →
          (o.final = false → PosOK r ∧ r.info = adv startPos s.src) ∧ (o.final = true → FinOK s.src r))
      ∧ (o = ⟨true, false⟩ → s.PosHyp true → s.WarmHyp → PosOK r ∧ r.info = adv startPos s.src)
      ∧ (o = ⟨true, true⟩ → s.ModeHypC → s.SmallF → FinOK s.src r) := by
  refine ⟨_, runCalls_results s hk hn σ hc calls k o hcall, ?_, ?_, ?_⟩
  · intro hcol hp
    obtain ⟨c, f⟩ := o
    simp only at hcol
    subst hcol
    have hck := Src.noCR_cachedOK s hk
    unfold answerOf
    split
    · obtain ⟨a1, a2, a3⟩ := posOK_nc (s.warm ⟨false, f⟩) false (Src.warm_nc s _ hck) (Src.warm_wf _ s hw) (Src.warm_posHyp_lines f s hp)
      rw [Src.warm_src] at a2 a3
      constructor
      · intro hf; simp only at hf; subst hf; exact ⟨a1, a2⟩
      · intro hf; simp only at hf; subst hf; exact a3
    · obtain ⟨a1, a2, a3⟩ := posOK_nc s.strip false (Src.strip_nc s) (Src.strip_wf s hw) (Src.strip_posHyp false s hp)
      rw [Src.strip_src] at a2 a3
      constructor
      · intro hf; simp only at hf; subst hf; exact ⟨a1, a2⟩
      · intro hf; simp only at hf; subst hf; exact a3
  · intro ho hp hwm
    subst ho
    have hck := Src.noCR_cachedOK s hk
    unfold answerOf
    split
    · obtain ⟨a1, a2, _⟩ := posOK_nc (s.warm ⟨true, false⟩) true (Src.warm_nc s _ hck) (Src.warm_wf _ s hw) (Src.warm_posHyp_normal s hp hwm)
      rw [Src.warm_src] at a2
      exact ⟨a1, a2⟩
    · obtain ⟨a1, a2, _⟩ := posOK_nc s.strip true (Src.strip_nc s) (Src.strip_wf s hw) (Src.strip_posHyp true s hp)
      rw [Src.strip_src] at a2
      exact ⟨a1, a2⟩
  · intro ho hm hs
    subst ho
    have hck := Src.noCR_cachedOK s hk
    unfold answerOf
    split
    · obtain ⟨_, a2⟩ := Src.warmF_NA s hm hck hs
      obtain ⟨b1, b2, _⟩ := Src.modeHypC_base _ a2
      obtain ⟨_, _, a3⟩ := posOK_nc (s.warm ⟨true, true⟩) true (Src.warm_nc s _ hck) b1 b2
      rw [Src.warm_src] at a3
      exact a3
    · obtain ⟨b1, b2, _⟩ := Src.modeHypC_base _ (Src.strip_modeHypC s hm)
      obtain ⟨_, _, a3⟩ := posOK_nc s.strip true (Src.strip_nc s) b1 b2
      rw [Src.strip_src] at a3
      exact a3

end Rs
