import RsModel.Lemmas.ModeTree
import RsModel.Lemmas.EqViews
import RsModel.Lemmas.CombModes
/-! # final_source mode attributes like normal mode: the tree induction -/
namespace Rs

/-! ## a tree without CachedSource streams independently of the cache store -/
mutual
theorem Src.stream_nc : ∀ (s : Src) (o : Opts) (σ : Store), s.NoCached → (s.stream o σ).2 = σ ∧ (s.stream o σ).1 = (s.stream o []).1
  | .raw .., o, σ, _ | .rawStr .., o, σ, _ | .rawBuf .., o, σ, _ | .orig .., o, σ, _ => ⟨rfl, rfl⟩
  | .sms t name map origSrc inner remove, o, σ, _ => by simp only [Src.stream]; cases inner <;> exact ⟨rfl, rfl⟩
  | .concat .nil, o, σ, _ => ⟨rfl, rfl⟩
  | .concat (.cons s rest), o, σ, h => by
    simp only [Src.NoCached, SrcList.NoCachedL] at h
    obtain ⟨a1, a2⟩ := Src.stream_nc s o σ h.1
    obtain ⟨b1, _⟩ := Src.stream_nc s o [] h.1
    cases hr : rest with
    | nil => simp only [Src.stream]; exact ⟨a1, a2⟩
    | cons s2 rest2 =>
      simp only [Src.stream]
      obtain ⟨c1, c2⟩ := SrcList.streams_nc (.cons s2 rest2) o (s.stream o σ).2 (hr ▸ h.2)
      obtain ⟨d1, d2⟩ := SrcList.streams_nc (.cons s2 rest2) o (s.stream o []).2 (hr ▸ h.2)
      refine ⟨by rw [c1, a1], ?_⟩
      rw [a2, c2, d2]
  | .replace inner rs, o, σ, h => by
    simp only [Src.NoCached] at h
    obtain ⟨a1, a2⟩ := Src.stream_nc inner ⟨o.columns, false⟩ σ h
    simp only [Src.stream]
    exact ⟨a1, by rw [a2]⟩
  | .cached _ _, _, _, h => by simp [Src.NoCached] at h
theorem SrcList.streams_nc : ∀ (l : SrcList) (o : Opts) (σ : Store), l.NoCachedL → (l.streams o σ).2 = σ ∧ (l.streams o σ).1 = (l.streams o []).1
  | .nil, o, σ, _ => ⟨rfl, rfl⟩
  | .cons s rest, o, σ, h => by
    simp only [SrcList.NoCachedL] at h
    obtain ⟨a1, a2⟩ := Src.stream_nc s o σ h.1
    obtain ⟨b1, _⟩ := Src.stream_nc s o [] h.1
    obtain ⟨c1, c2⟩ := SrcList.streams_nc rest o (s.stream o σ).2 h.2
    obtain ⟨d1, d2⟩ := SrcList.streams_nc rest o (s.stream o []).2 h.2
    simp only [SrcList.streams]
    refine ⟨by rw [c1, a1], ?_⟩
    rw [a2, c2, d2]
end

mutual
theorem Src.nc_nodes : ∀ (s : Src), s.NoCached → s.cachedNodes = []
  | .raw .., _ | .rawStr .., _ | .rawBuf .., _ | .orig .., _ | .sms .., _ => rfl
  | .concat cs, h => by simp only [Src.NoCached] at h; simp only [Src.cachedNodes]; exact SrcList.nc_nodesL cs h
  | .replace inner _, h => by simp only [Src.NoCached] at h; simp only [Src.cachedNodes]; exact Src.nc_nodes inner h
  | .cached _ _, h => by simp [Src.NoCached] at h
theorem SrcList.nc_nodesL : ∀ (l : SrcList), l.NoCachedL → l.cachedNodesL = []
  | .nil, _ => rfl
  | .cons s r, h => by
    simp only [SrcList.NoCachedL] at h
    simp only [SrcList.cachedNodesL, Src.nc_nodes s h.1, SrcList.nc_nodesL r h.2, List.append_nil]
end

/-! ## the domain -/
mutual
/-- what a SourceMapSource *with an inner map* (the combinator) needs in addition: an outer map whose generated positions
strictly increase, and an inner map referencing existing entries of its own tables -/
def InnerHyp (map : SMap) : Option SMap → Prop
  | none => True
  | some im => (decode map.mappings).Pairwise mlt ∧ MapIdxOK im

/-- the trees covered: Raw / Original / SourceMapSource (ASCII text, sorted map inside the text referencing existing entries; with
or without an inner map) leaves under ConcatSource and ReplaceSource, no CachedSource -/
def Src.ModeHyp : Src → Prop
  | .sms t _ map _ inner _ => InnerHyp map inner ∧ IsAscii t ∧ t.length ≤ USIZE_MAX ∧ sortedFrom 1 0 (decode map.mappings)
      ∧ (∀ m ∈ decode map.mappings, SegOK (splitLines t) (adv startPos t).line (adv startPos t).col m) ∧ MapIdxOK map
  | .concat cs => cs.ModeHyps
  | .replace inner rs => inner.ModeHyp ∧ (∀ r ∈ rs, r.start ≤ r.stop) ∧ (replaceSource inner.src rs).length + 1 < 2 ^ 32
  | .cached _ _ => False
  | _ => True
def SrcList.ModeHyps : SrcList → Prop
  | .nil => True
  | .cons s r => s.ModeHyp ∧ r.ModeHyps
end

mutual
theorem Src.modeHyp_base : ∀ (s : Src), s.ModeHyp → s.NoCached ∧ s.WF ∧ s.PosHyp true ∧ s.IdxHyp
  | .raw .., _ | .rawStr .., _ | .rawBuf .., _ | .orig .., _ => ⟨trivial, trivial, trivial, trivial⟩
  | .sms t name map origSrc inner remove, h => by
    simp only [Src.ModeHyp] at h
    obtain ⟨hinner, ha, hl, _, hseg, hidx⟩ := h
    refine ⟨trivial, textOK_of_ascii t ha hl, ⟨ha, hl, fun _ m hm => (hseg m hm).1⟩, ?_⟩
    cases inner with
    | none => exact hidx
    | some im => exact ⟨hidx, hinner.2⟩
  | .concat cs, h => by
    simp only [Src.ModeHyp] at h
    simpa [Src.NoCached, Src.WF, Src.PosHyp, Src.IdxHyp] using SrcList.modeHyps_base cs h
  | .replace inner rs, h => by
    simp only [Src.ModeHyp] at h
    obtain ⟨a, b, c, d⟩ := Src.modeHyp_base inner h.1
    exact ⟨a, ⟨b, h.2.1⟩, ⟨c, h.2.2⟩, d⟩
  | .cached _ _, h => by simp [Src.ModeHyp] at h
theorem SrcList.modeHyps_base : ∀ (l : SrcList), l.ModeHyps → l.NoCachedL ∧ l.WFs ∧ l.PosHyps true ∧ l.IdxHyps
  | .nil, _ => ⟨trivial, trivial, trivial, trivial⟩
  | .cons s r, h => by
    simp only [SrcList.ModeHyps] at h
    obtain ⟨a, b, c, d⟩ := Src.modeHyp_base s h.1
    obtain ⟨a', b', c', d'⟩ := SrcList.modeHyps_base r h.2
    exact ⟨⟨a, a'⟩, ⟨b, b'⟩, ⟨c, c'⟩, ⟨d, d'⟩⟩
end

/-- what the normal- and text-less-mode theorems of C01 / C02 / C11 give for such a tree -/
theorem Src.base_facts (s : Src) (h : s.ModeHyp) :
    PosOK (s.stream ⟨true, false⟩ []).1 ∧ ChunksTok (s.stream ⟨true, false⟩ []).1.evs ∧ evsTL (s.stream ⟨true, false⟩ []).1.evs = false
    ∧ evsText (s.stream ⟨true, false⟩ []).1.evs = s.src ∧ DeclOK 0 0 (s.stream ⟨true, false⟩ []).1.evs
    ∧ DeclOK 0 0 (s.stream ⟨true, true⟩ []).1.evs ∧ FinOK s.src (s.stream ⟨true, true⟩ []).1 := by
  obtain ⟨hnc, hw, hp, hi⟩ := Src.modeHyp_base s h
  have hnodes := Src.nc_nodes s hnc
  have hnd : s.ids.Nodup := by simp [Src.ids, hnodes]
  have hs : StoreHypB true [] s.cachedNodes := fun p hp => by rw [hnodes] at hp; simp at hp
  have hsi : StoreIdx [] s.cachedNodes := fun p hp => by rw [hnodes] at hp; simp at hp
  exact ⟨Src.stream_posOK s true [] hw hp hnd (storeHypB_normal true [] _ hs), Src.stream_tok s true [], Src.stream_tl s true [],
    Src.stream_text s true [] hw, Src.stream_declOK s _ [] hi hnd hsi, Src.stream_declOK s _ [] hi hnd hsi,
    Src.stream_finOK s true [] hw hp hnd hs⟩

/-- the three facts the induction carries -/
structure M3 (F N : SResult) (T : Text) : Prop where
  sorted : sortedFrom 1 0 (chunkMs F.evs)
  decls : declsOf F.evs = declsOf N.evs
  look : LookEq T (chunkMs F.evs) (chunkMs N.evs)

theorem childOK_of (s : Src) (h : s.ModeHyp) (m : M3 (s.stream ⟨true, true⟩ []).1 (s.stream ⟨true, false⟩ []).1 s.src) :
    ChildOK (s.stream ⟨true, true⟩ []).1 (s.stream ⟨true, false⟩ []).1 s.src := by
  obtain ⟨b1, b2, b3, b4, b5, b6, b7⟩ := Src.base_facts s h
  have hfN := finOK_of_posOK _ b1 b3
  rw [b4] at hfN
  have ht := tiles_of_posOK _ b1 b2 b3
  rw [b4] at ht
  exact ⟨b7, hfN, linesOK_of_sorted _ 1 0 m.sorted, ht, b6, b5, m.decls, m.look⟩

mutual
/-- **T3, columns = true**: for every such tree the text-less stream is sorted, announces what the normal stream announces,
and answers every lookup at a character position of `source()` like the normal stream -/
theorem Src.m3 : ∀ (s : Src), s.ModeHyp → M3 (s.stream ⟨true, true⟩ []).1 (s.stream ⟨true, false⟩ []).1 s.src
  | .raw _ _ lossy, _ => by
    simp only [Src.stream, Src.src]
    exact ⟨by simp [streamRaw, chunkMs, sortedFrom], by rw [streamRaw_decls, streamRaw_decls], streamRaw_lookEq lossy true⟩
  | .rawStr t, _ => by
    simp only [Src.stream, Src.src]
    exact ⟨by simp [streamRaw, chunkMs, sortedFrom], by rw [streamRaw_decls, streamRaw_decls], streamRaw_lookEq t true⟩
  | .rawBuf _ lossy, _ => by
    simp only [Src.stream, Src.src]
    exact ⟨by simp [streamRaw, chunkMs, sortedFrom], by rw [streamRaw_decls, streamRaw_decls], streamRaw_lookEq lossy true⟩
  | .orig t name, _ => by
    simp only [Src.stream, Src.src]
    exact ⟨streamOriginal_final_sorted t name, streamOriginal_decls t name, streamOriginal_lookEq t name⟩
  | .sms t name map origSrc inner remove, h => by
    simp only [Src.ModeHyp] at h
    obtain ⟨hinner, ha, hl, hs, hseg, _⟩ := h
    simp only [Src.stream, Src.src]
    cases inner with
    | none => exact ⟨streamSM_final_sorted t map hs, streamSM_decls t map, streamSM_lookEq t map ha hl hs hseg⟩
    | some im =>
      obtain ⟨c1, c2, c3⟩ := streamCombined_m3 t map name origSrc im remove ha hl hs hinner.1 hseg
      exact ⟨c1, c2, c3⟩
  | .concat .nil, _ => by
    simp only [Src.stream, Src.src, SrcList.srcs]
    exact ⟨by simp [concatStream, concatGo, chunkMs, sortedFrom], rfl, fun j hj => by simp at hj⟩
  | .concat (.cons s rest), h => by
    simp only [Src.ModeHyp, SrcList.ModeHyps] at h
    have hs := Src.m3 s h.1
    cases hr : rest with
    | nil => simp only [Src.stream, Src.src, SrcList.srcs, List.append_nil]; exact hs
    | cons s2 rest2 =>
      obtain ⟨hncS, _, _, _⟩ := Src.modeHyp_base s h.1
      obtain ⟨hncR, _, _, _⟩ := SrcList.modeHyps_base (.cons s2 rest2) (hr ▸ h.2)
      obtain ⟨r1, r2⟩ := SrcList.m3s (.cons s2 rest2) (hr ▸ h.2)
      simp only [Src.stream, Src.src]
      rw [(Src.stream_nc s ⟨true, true⟩ [] hncS).1, (Src.stream_nc s ⟨true, false⟩ [] hncS).1]
      have hall : ChildrenOK ((s.stream ⟨true, true⟩ []).1 :: ((SrcList.cons s2 rest2).streams ⟨true, true⟩ []).1)
          ((s.stream ⟨true, false⟩ []).1 :: ((SrcList.cons s2 rest2).streams ⟨true, false⟩ []).1) (s.src :: (SrcList.cons s2 rest2).srcList) :=
        ChildrenOK.cons _ _ _ _ _ _ (childOK_of s h.1 hs) r1
      have hsrc : (SrcList.cons s (SrcList.cons s2 rest2)).srcs = (s.src :: (SrcList.cons s2 rest2).srcList).flatten := by
        rw [List.flatten_cons, SrcList.srcList_flatten]; rfl
      rw [hsrc]
      have hrel : FRel ({} : CSt) (adv startPos []) := ⟨rfl, rfl⟩
      refine ⟨?_, ?_, ?_⟩
      · apply concatStream_sorted true _ _ hall.allF
        intro c hc
        simp only [List.mem_cons] at hc
        rcases hc with rfl | hc
        · exact hs.sorted
        · exact r2 c hc
      · simp only [concatStream]
        exact concatGo_decls _ _ _ hall {} {} rfl rfl
      · intro j hj
        have := concatGo_modes _ _ _ hall {} {} [] [] [] hrel hrel rfl rfl (fun m hm => by simp at hm) (fun m hm => by simp at hm)
          (fun _ C _ => rfl) rfl j hj
        simpa [concatStream, lookupCols] using this
  | .replace inner rs, h => by
    -- a ReplaceSource streams its inner source with text in either mode: one stream serves both
    have hb := Src.base_facts (.replace inner rs) h
    obtain ⟨b1, b2, b3, b4, _, _, _⟩ := hb
    have e : ((Src.replace inner rs).stream ⟨true, true⟩ []).1 = ((Src.replace inner rs).stream ⟨true, false⟩ []).1 := by
      simp only [Src.stream]
    rw [e]
    exact ⟨chunkMs_sorted _ [] b1.1 b3, rfl, lookEq_refl _ _⟩
  | .cached _ _, h => by simp [Src.ModeHyp] at h
theorem SrcList.m3s : ∀ (l : SrcList), l.ModeHyps →
    ChildrenOK (l.streams ⟨true, true⟩ []).1 (l.streams ⟨true, false⟩ []).1 l.srcList
    ∧ ∀ c ∈ (l.streams ⟨true, true⟩ []).1, sortedFrom 1 0 (chunkMs c.evs)
  | .nil, _ => ⟨ChildrenOK.nil, fun c hc => by simp [SrcList.streams] at hc⟩
  | .cons s rest, h => by
    simp only [SrcList.ModeHyps] at h
    have hs := Src.m3 s h.1
    obtain ⟨r1, r2⟩ := SrcList.m3s rest h.2
    obtain ⟨hncS, _, _, _⟩ := Src.modeHyp_base s h.1
    simp only [SrcList.streams, SrcList.srcList]
    rw [(Src.stream_nc s ⟨true, true⟩ [] hncS).1, (Src.stream_nc s ⟨true, false⟩ [] hncS).1]
    refine ⟨ChildrenOK.cons _ _ _ _ _ _ (childOK_of s h.1 hs) r1, fun c hc => ?_⟩
    simp only [List.mem_cons] at hc
    rcases hc with rfl | hc
    · exact hs.sorted
    · exact r2 c hc
end

end Rs
