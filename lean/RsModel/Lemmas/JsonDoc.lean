import RsModel.Lemmas.JsonStr
/-! # The written document parses back to the value `toDoc m` (whole-document `parse ∘ write`) -/
namespace Rs.Json

/-- "this rendering `w` parses to `v`" for every continuation that starts with `,`, `]` or `}` and every fuel ≥ `need` -/
def Parses (w : Text) (v : JVal) (need : Nat) : Prop :=
  ∀ (fuel : Nat) (c : UInt8) (rest : Text), need ≤ fuel → (c = 44 ∨ c = 93 ∨ c = 125) →
    parseVal fuel (w ++ c :: rest) = some (v, c :: rest)

theorem escaped_length (t : Text) : t.length ≤ ((t.map escByte).flatten).length := by
  induction t with
  | nil => simp
  | cons b t ih =>
    have : 1 ≤ (escByte b).length := by unfold escByte; repeat (first | split | simp)
    simp only [List.map_cons, List.flatten_cons, List.length_append, List.length_cons]; omega

theorem parses_str (t : Text) : Parses (writeStr t) (.str t) 1 := by
  intro fuel c rest hf _
  obtain ⟨f, rfl⟩ : ∃ f, fuel = f + 1 := ⟨fuel - 1, by omega⟩
  have hlen := escaped_length t
  simp only [writeStr, List.append_assoc, List.cons_append, List.nil_append, parseVal, skipWs,
    show isWs 34 = false by decide, Bool.false_eq_true, if_false]
  rw [parse_escaped t [] (c :: rest) _ (by simp only [List.length_append, List.length_cons]; omega)]
  simp

theorem parses_three : Parses [51] (.num [51]) 1 := by
  intro fuel c rest hf hc
  obtain ⟨f, rfl⟩ : ∃ f, fuel = f + 1 := ⟨fuel - 1, by omega⟩
  rcases hc with rfl | rfl | rfl <;> simp [parseVal, skipWs, isWs, isNumChar, takeNum]

theorem skipWs_nonws (b : UInt8) (bs : Text) (h : isWs b = false) : skipWs (b :: bs) = b :: bs := by
  simp [skipWs, h]

/-- the elements of a string array, after the opening bracket -/
theorem parseElems_strs : ∀ (l : List Text) (x : Text) (fuel : Nat) (c : UInt8) (rest : Text), l.length + 2 ≤ fuel →
    parseElems fuel (sepBy [44] ((x :: l).map writeStr) ++ 93 :: c :: rest) = some ((x :: l).map .str, c :: rest) := by
  intro l
  induction l with
  | nil =>
    intro x fuel c rest hf
    obtain ⟨f, rfl⟩ : ∃ f, fuel = f + 1 := ⟨fuel - 1, by omega⟩
    simp only [List.map_cons, List.map_nil, sepBy, parseElems]
    rw [parses_str x f 93 (c :: rest) (by simp at hf; omega) (Or.inr (Or.inl rfl))]
    simp [skipWs, isWs]
  | cons y l ih =>
    intro x fuel c rest hf
    obtain ⟨f, rfl⟩ : ∃ f, fuel = f + 1 := ⟨fuel - 1, by omega⟩
    have hs : sepBy [44] ((x :: y :: l).map writeStr) = writeStr x ++ [44] ++ sepBy [44] ((y :: l).map writeStr) := by
      simp [sepBy]
    rw [hs]
    simp only [parseElems, List.append_assoc, List.singleton_append, List.cons_append]
    rw [parses_str x f 44 _ (by simp at hf; omega) (Or.inl rfl)]
    simp only [skipWs, show isWs 44 = false by decide, Bool.false_eq_true, if_false, List.nil_append]
    rw [ih y f c rest (by simp at hf ⊢; omega)]
    simp

theorem writeStr_head (t : Text) : ∃ tl, writeStr t = 34 :: tl := ⟨_, rfl⟩

theorem parses_strArr (l : List Text) : Parses (writeStrArr l) (.arr (l.map .str)) (l.length + 3) := by
  intro fuel c rest hf _
  obtain ⟨f, rfl⟩ : ∃ f, fuel = f + 1 := ⟨fuel - 1, by omega⟩
  cases l with
  | nil => simp [writeStrArr, sepBy, parseVal, skipWs, isWs]
  | cons x l =>
    simp only [writeStrArr, List.append_assoc, List.cons_append, List.nil_append, parseVal, skipWs,
      show isWs 91 = false by decide, Bool.false_eq_true, if_false]
    -- the first element starts with a quote, so the array is not empty
    have hhead : ∃ tl, sepBy [44] ((x :: l).map writeStr) ++ 93 :: c :: rest = 34 :: tl := by
      cases l with
      | nil => exact ⟨_, rfl⟩
      | cons y l => exact ⟨_, rfl⟩
    obtain ⟨tl, htl⟩ := hhead
    have hsk : skipWs (sepBy [44] ((x :: l).map writeStr) ++ 93 :: c :: rest) = 34 :: tl := by
      rw [htl]; exact skipWs_nonws _ _ (by decide)
    rw [hsk]
    split
    · rename_i r h; simp at h
    · rw [parseElems_strs l x f c rest (by simp at hf; omega)]
      rfl

/-- a member `"key":value` -/
structure Member where
  k : Text
  w : Text
  v : JVal
  need : Nat

def Member.bytes (m : Member) : Text := key m.k ++ m.w

theorem parseMembers_go : ∀ (ms : List Member) (m : Member) (fuel : Nat) (rest : Text),
    (∀ x ∈ m :: ms, Parses x.w x.v x.need ∧ x.need < fuel - ms.length) → ms.length + 1 < fuel →
    parseMembers fuel (sepBy [44] ((m :: ms).map Member.bytes) ++ 125 :: rest) = some ((m :: ms).map (fun x => (x.k, x.v)), rest) := by
  intro ms
  induction ms with
  | nil =>
    intro m fuel rest hp hf
    obtain ⟨f, rfl⟩ : ∃ f, fuel = f + 1 := ⟨fuel - 1, by omega⟩
    obtain ⟨hP, hn⟩ := hp m (by simp)
    simp only [List.map_cons, List.map_nil, sepBy, Member.bytes, key, List.append_assoc, parseMembers]
    obtain ⟨tl, htl⟩ := writeStr_head m.k
    have hlen := escaped_length m.k
    simp only [writeStr, List.append_assoc, List.cons_append, List.nil_append, skipWs, show isWs 34 = false by decide,
      Bool.false_eq_true, if_false]
    rw [parse_escaped m.k [] _ _ (by simp only [List.length_append, List.length_cons]; omega)]
    simp only [List.reverse_nil, List.nil_append, skipWs, show isWs 58 = false by decide, Bool.false_eq_true, if_false]
    rw [hP f 125 rest (by simp at hn; omega) (Or.inr (Or.inr rfl))]
    simp [skipWs, isWs]
  | cons m2 ms ih =>
    intro m fuel rest hp hf
    obtain ⟨f, rfl⟩ : ∃ f, fuel = f + 1 := ⟨fuel - 1, by omega⟩
    obtain ⟨hP, hn⟩ := hp m (by simp)
    have hs : sepBy [44] ((m :: m2 :: ms).map Member.bytes) = m.bytes ++ [44] ++ sepBy [44] ((m2 :: ms).map Member.bytes) := by
      simp [sepBy]
    rw [hs]
    simp only [Member.bytes, key, List.append_assoc, parseMembers]
    have hlen := escaped_length m.k
    simp only [writeStr, List.append_assoc, List.cons_append, List.nil_append, skipWs, show isWs 34 = false by decide,
      Bool.false_eq_true, if_false]
    rw [parse_escaped m.k [] _ _ (by simp only [List.length_append, List.length_cons]; omega)]
    simp only [List.reverse_nil, List.nil_append, skipWs, show isWs 58 = false by decide, Bool.false_eq_true, if_false]
    rw [hP f 44 _ (by simp at hn; omega) (Or.inl rfl)]
    simp only [skipWs, show isWs 44 = false by decide, Bool.false_eq_true, if_false]
    have := ih m2 f rest (fun x hx => by
      obtain ⟨a, b⟩ := hp x (by simp at hx ⊢; right; exact hx)
      exact ⟨a, by simp at b ⊢; omega⟩) (by simp at hf ⊢; omega)
    rw [this]
    rfl

/-- the members `to_json` writes -/
def members (m : SMap) : List Member :=
  [⟨k_version, [51], .num [51], 1⟩] ++
  (match m.file with | some f => [⟨k_file, writeStr f, .str f, 1⟩] | none => []) ++
  [⟨k_sources, writeStrArr m.sources, .arr (m.sources.map .str), m.sources.length + 3⟩] ++
  (if allEmpty m.sourcesContent then [] else [⟨k_sourcesContent, writeStrArr m.sourcesContent, .arr (m.sourcesContent.map .str), m.sourcesContent.length + 3⟩]) ++
  [⟨k_names, writeStrArr m.names, .arr (m.names.map .str), m.names.length + 3⟩, ⟨k_mappings, writeStr m.mappings, .str m.mappings, 1⟩] ++
  (match m.sourceRoot with | some f => [⟨k_sourceRoot, writeStr f, .str f, 1⟩] | none => []) ++
  (match m.debugId with | some f => [⟨k_debugId, writeStr f, .str f, 1⟩] | none => [])

theorem members_bytes (m : SMap) : writeSMap m = [123] ++ sepBy [44] ((members m).map Member.bytes) ++ [125] := by
  obtain ⟨mappings, sources, sc, names, file, root, dbg⟩ := m
  cases file <;> cases root <;> cases dbg <;> by_cases hc : allEmpty sc = true <;>
    simp [writeSMap, members, Member.bytes, hc]

theorem members_doc (m : SMap) : toDoc m = .obj ((members m).map fun x => (x.k, x.v)) := by
  obtain ⟨mappings, sources, sc, names, file, root, dbg⟩ := m
  cases file <;> cases root <;> cases dbg <;> by_cases hc : allEmpty sc = true <;>
    simp [toDoc, members, hc]

/-- fuel bound: the longest array that is written -/
def bound (m : SMap) : Nat := m.sources.length + (if allEmpty m.sourcesContent then 0 else m.sourcesContent.length) + m.names.length + 3

theorem members_parse (m : SMap) : ∀ x ∈ members m, Parses x.w x.v x.need ∧ x.need ≤ bound m := by
  obtain ⟨mappings, sources, sc, names, file, root, dbg⟩ := m
  intro x hx
  simp only [members, List.mem_append, List.mem_cons, List.not_mem_nil, or_false] at hx
  rcases hx with ((((((rfl | hx) | rfl) | hx) | rfl | rfl) | hx) | hx)
  · exact ⟨parses_three, by simp only [bound]; omega⟩
  · cases file with
    | none => simp at hx
    | some f => simp at hx; subst hx; exact ⟨parses_str f, by simp only [bound]; omega⟩
  · exact ⟨parses_strArr _, by simp only [bound]; omega⟩
  · by_cases hc : allEmpty sc = true
    · simp [hc] at hx
    · simp [hc] at hx; subst hx; exact ⟨parses_strArr _, by simp [bound, hc] <;> omega⟩
  · exact ⟨parses_strArr _, by simp only [bound]; omega⟩
  · exact ⟨parses_str _, by simp only [bound]; omega⟩
  · cases root with
    | none => simp at hx
    | some f => simp at hx; subst hx; exact ⟨parses_str f, by simp only [bound]; omega⟩
  · cases dbg with
    | none => simp at hx
    | some f => simp at hx; subst hx; exact ⟨parses_str f, by simp only [bound]; omega⟩

theorem members_length (m : SMap) : (members m).length ≤ 8 ∧ (members m) ≠ [] := by
  obtain ⟨mappings, sources, sc, names, file, root, dbg⟩ := m
  cases file <;> cases root <;> cases dbg <;> by_cases hc : allEmpty sc = true <;> simp [members, hc]

theorem writeStrArr_length (l : List Text) : l.length ≤ (writeStrArr l).length := by
  unfold writeStrArr
  induction l with
  | nil => simp
  | cons x l ih =>
    cases l with
    | nil => simp [sepBy]
    | cons y l =>
      simp only [List.map_cons, sepBy, List.length_append, List.length_cons, List.length_nil] at ih ⊢
      omega


theorem sepBy_length (sep : Text) : ∀ (xs : List Text), (xs.map List.length).sum ≤ (sepBy sep xs).length := by
  intro xs
  induction xs with
  | nil => simp [sepBy]
  | cons x xs ih =>
    cases xs with
    | nil => simp [sepBy]
    | cons y ys =>
      simp only [sepBy, List.map_cons, List.sum_cons, List.length_append] at ih ⊢
      omega

theorem writeSMap_length (m : SMap) : bound m + 12 ≤ (writeSMap m).length := by
  have h1 := writeStrArr_length m.sources
  have h2 := writeStrArr_length m.sourcesContent
  have h3 := writeStrArr_length m.names
  rw [members_bytes]
  have hs := sepBy_length [44] ((members m).map Member.bytes)
  simp only [List.length_append, List.length_cons, List.length_nil]
  suffices h : bound m + 10 ≤ (((members m).map Member.bytes).map List.length).sum by omega
  obtain ⟨mappings, sources, sc, names, file, root, dbg⟩ := m
  simp only at h1 h2 h3
  cases file <;> cases root <;> cases dbg <;> by_cases hc : allEmpty sc = true <;>
    simp [bound, members, Member.bytes, key, writeStr, hc, k_version, k_file, k_sources, k_sourcesContent, k_names, k_mappings,
      k_sourceRoot, k_debugId] <;> omega

/-- **`parse ∘ write`: the document `to_json` writes is parsed, by an RFC 8259 parser, to exactly the value `toDoc m`** -/
theorem parse_write (m : SMap) : parse (writeSMap m) = some (toDoc m) := by
  have hlen := writeSMap_length m
  obtain ⟨hl8, hne⟩ := members_length m
  obtain ⟨x, xs, hx⟩ : ∃ x xs, members m = x :: xs := by
    cases h : members m with
    | nil => exact absurd h hne
    | cons x xs => exact ⟨x, xs, rfl⟩
  have hb := members_bytes m
  rw [hx] at hb
  unfold parse
  generalize hN : (writeSMap m).length = N at *
  -- the opening brace, then the first member's key: a quote, so the object is not empty
  have hopen : ∃ tl, sepBy [44] ((x :: xs).map Member.bytes) ++ [125] = 34 :: tl := by
    cases xs with
    | nil => exact ⟨_, rfl⟩
    | cons y ys => exact ⟨_, rfl⟩
  obtain ⟨tl, htl⟩ := hopen
  have hxs : xs.length ≤ 7 := by rw [hx] at hl8; simp at hl8; omega
  have hgo := parseMembers_go xs x (N + 1) []
    (fun y hy => by
      obtain ⟨a, b⟩ := members_parse m y (by rw [hx]; exact hy)
      exact ⟨a, by omega⟩)
    (by omega)
  have hsk : skipWs (sepBy [44] ((x :: xs).map Member.bytes) ++ [125]) = 34 :: tl := by
    rw [htl]; exact skipWs_nonws _ _ (by decide)
  have hval : parseVal (N + 2) (writeSMap m) = some (toDoc m, []) := by
    rw [hb]
    simp only [List.append_assoc, List.cons_append, List.nil_append, parseVal, skipWs, show isWs 123 = false by decide,
      Bool.false_eq_true, if_false]
    rw [hsk]
    split
    · rename_i r h; simp at h
    · rw [hgo, members_doc, hx]; rfl
  rw [hval]
  rfl

/-- **the whole round trip at the byte level**: `from_json(to_json(m))` is `m`, with `sourcesContent` emptied exactly when all
its entries are empty -/
theorem fromJson_writeSMap (m : SMap) :
    fromJson (writeSMap m) = some { m with sourcesContent := if allEmpty m.sourcesContent then [] else m.sourcesContent } := by
  unfold fromJson
  rw [parse_write]
  exact doc_roundtrip m

end Rs.Json

namespace Rs.Json

/-! ## documents with reordered keys -/

theorem find?_eq_filter_head {α} (p : α → Bool) (l : List α) : l.find? p = (l.filter p).head? := by
  induction l with
  | nil => rfl
  | cons a l ih =>
    by_cases h : p a = true
    · rw [List.find?_cons_of_pos h, List.filter_cons_of_pos h]; rfl
    · rw [List.find?_cons_of_neg h, List.filter_cons_of_neg h]; exact ih

theorem perm_short_eq {α} (a b : List α) (h : a.Perm b) (hl : a.length ≤ 1) : a = b := by
  have hb : b.length = a.length := h.length_eq.symm
  match a, b, h, hl, hb with
  | [], [], _, _, _ => rfl
  | [], _ :: _, _, _, hb => simp at hb
  | [x], [y], h, _, _ => have := h.mem_iff (a := x); simp at this; rw [this]
  | [_], [], _, _, hb => simp at hb
  | [_], _ :: _ :: _, _, _, hb => simp at hb
  | _ :: _ :: _, _, _, hl, _ => simp at hl

theorem field_perm (kvs kvs' : List (Text × JVal)) (h : kvs.Perm kvs') (k : Text) (hk : (kvs.filter (·.1 == k)).length ≤ 1) :
    field kvs k = field kvs' k := by
  unfold field
  rw [find?_eq_filter_head, find?_eq_filter_head, perm_short_eq _ _ (h.filter _) hk]

theorem dupKnown_perm (kvs kvs' : List (Text × JVal)) (h : kvs.Perm kvs') : dupKnown kvs = dupKnown kvs' := by
  unfold dupKnown
  congr 1; funext k
  rw [(h.filter _).length_eq]

theorem dupKnown_false_le (kvs : List (Text × JVal)) (h : dupKnown kvs = false) (k : Text) (hk : k ∈ knownKeys) :
    (kvs.filter (·.1 == k)).length ≤ 1 := by
  unfold dupKnown at h
  rw [List.any_eq_false] at h
  have := h k hk
  simpa using this

/-- `from_json` as a function of what it looks at: the duplicate check and the seven field lookups -/
def smapOfFields (dup : Bool) (fm ff fr fd fs fc fn : Option JVal) : Option SMap :=
  if dup then none else
  match fm with
  | some (.str mappings) => do
    let file ← match ff with | some v => optStr v | none => some none
    let sourceRoot ← match fr with | some v => optStr v | none => some none
    let debugId ← match fd with | some v => optStr v | none => some none
    let sources ← match fs with | some v => optStrArr v | none => some []
    let sourcesContent ← match fc with | some v => optStrArr v | none => some []
    let names ← match fn with | some v => optStrArr v | none => some []
    pure { mappings, sources, sourcesContent, names, file, sourceRoot, debugId }
  | _ => none

theorem smapOfJson_fields (kvs : List (Text × JVal)) :
    smapOfJson (.obj kvs) = smapOfFields (dupKnown kvs) (field kvs k_mappings) (field kvs k_file) (field kvs k_sourceRoot)
      (field kvs k_debugId) (field kvs k_sources) (field kvs k_sourcesContent) (field kvs k_names) := rfl

/-- **reordered keys**: `from_json` does not depend on the order of the members of the document -/
theorem smapOfJson_perm (kvs kvs' : List (Text × JVal)) (h : kvs.Perm kvs') : smapOfJson (.obj kvs) = smapOfJson (.obj kvs') := by
  rw [smapOfJson_fields, smapOfJson_fields, dupKnown_perm kvs kvs' h]
  by_cases hd : dupKnown kvs' = true
  · simp [smapOfFields, hd]
  · have hd' : dupKnown kvs' = false := by simpa using hd
    have hdk : dupKnown kvs = false := by rw [dupKnown_perm kvs kvs' h]; exact hd'
    have hf : ∀ k ∈ knownKeys, field kvs k = field kvs' k := fun k hk => field_perm kvs kvs' h k (dupKnown_false_le kvs hdk k hk)
    rw [hf k_mappings (by simp [knownKeys]), hf k_file (by simp [knownKeys]), hf k_sourceRoot (by simp [knownKeys]),
      hf k_debugId (by simp [knownKeys]), hf k_sources (by simp [knownKeys]), hf k_sourcesContent (by simp [knownKeys]),
      hf k_names (by simp [knownKeys])]

end Rs.Json
