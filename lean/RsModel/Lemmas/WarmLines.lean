import RsModel.Lemmas.LineFirst
import RsModel.Lemmas.ReplayLines
import RsModel.Lemmas.WarmTree
import RsModel.Lemmas.HistoryPos
/-!
# Warm caches inside a tree, columns = false (C10 at file-and-line granularity)

With columns = false a CachedSource stores the lines-only map of its subtree's stream and later replays its text line by line
through it.  The replay does not attribute every byte like the subtree did (a whole line goes to its first mapped segment), but for
every generated line the *first mapped chunk* resolves to the same file name and original line (`replayL_leaf`).  That statement is
carried through ConcatSource by way of the byte-level name attribution: `LFirst T A L` — the (file, line) of the first mapped byte
on line `L` — is what `lookupLines` finds (`lfirst_eq_lname`), and composes over concatenation (`fsl_append`).
-/
namespace Rs

/-- file name and original line -/
def fl (n : NLoc) : Option Text × Nat := (n.file, n.line)

/-- what a consumer of a columns = false stream sees for generated line `L`: the file name (through the stream's own announcements)
and original line of the first mapped chunk on that line -/
def LNameOf (evs : List Ev) (L : Nat) : Option (Option Text × Nat) :=
  (lookupLines (chunkMs evs) L).map fun p => ((tblS emptyS evs p.1).map (·.1), p.2)

/-- **bridge**: for a normal-mode stream at true positions, `LNameOf` is the (file, line) of the first mapped byte on the line -/
theorem lfirst_eq_lname (r : SResult) (hp : PosOK r) (hTL : evsTL r.evs = false) (hMN : MappedNE r.evs) (hT : ChunksTok r.evs)
    (hd : DeclOK 0 0 r.evs) (L : Nat) :
    (fsl L 1 (evsText r.evs) (NA r.evs)).map fl = LNameOf r.evs L := by
  unfold NA
  rw [attrN_end_tables _ 0 0 emptyS emptyN hd, List.map_map]
  have e : (Option.map RLoc.toN ∘ Option.map (resolveO (tblS emptyS r.evs) (tblN emptyN r.evs)))
      = Option.map (fun o => RLoc.toN (resolveO (tblS emptyS r.evs) (tblN emptyN r.evs) o)) := by
    funext a; cases a <;> rfl
  rw [e, fsl_map]
  have hf := fsl_find L r.evs [] hp.1 hTL hMN hT
  have h1 : (adv startPos ([] : Text)).line = 1 := rfl
  rw [h1] at hf
  rw [hf]
  unfold LNameOf lookupLines
  cases hq : (chunkMs r.evs).find? (fun m => m.gl == L && m.orig.isSome) with
  | none => rfl
  | some m =>
    cases ho : m.orig with
    | none => simp [ho]
    | some o => simp [ho, fl, RLoc.toN, resolveO]

theorem oe_map {α β : Type} (f : α → β) (x y : Option α) :
    (match x with | some v => some v | none => y).map f = (match x.map f with | some v => some v | none => y.map f) := by
  cases x <;> rfl

/-- a statement about all lines from line 1 is a statement about all lines from any line -/
theorem fsl_any_cur {α β : Type} (g : α → β) (T : Text) (A B : List (Option α))
    (h : ∀ L, (fsl L 1 T A).map g = (fsl L 1 T B).map g) : ∀ L cur, (fsl L cur T A).map g = (fsl L cur T B).map g := by
  intro L cur
  cases cur with
  | zero =>
    have := h (L + 1)
    rw [fsl_shift 1 L T 0 A, fsl_shift 1 L T 0 B] at this
    exact this
  | succ c =>
    by_cases hlt : L < c + 1
    · rw [fsl_lt L T (c + 1) A hlt, fsl_lt L T (c + 1) B hlt]
    · have := h (L - c)
      have e : L = (L - c) + c := by omega
      rw [← fsl_shift c (L - c) T 1 A, ← fsl_shift c (L - c) T 1 B, ← e, Nat.add_comm 1 c] at this
      exact this

theorem keptLines_mem : ∀ (ms : List Mapping) (e : LEncSt) (x : Mapping), x ∈ keptLines e ms →
    ∃ m ∈ ms, ∃ o, m.orig = some o ∧ x = ⟨m.gl, 0, some ⟨o.src, o.line, 0, none⟩⟩ := by
  intro ms
  induction ms with
  | nil => intro e x h; simp [keptLines] at h
  | cons m ms ih =>
    intro e x h
    simp only [keptLines] at h
    split at h
    · obtain ⟨m', h1, h2⟩ := ih e x h
      exact ⟨m', List.mem_cons_of_mem _ h1, h2⟩
    · rename_i o ho
      split at h
      · obtain ⟨m', h1, h2⟩ := ih e x h
        exact ⟨m', List.mem_cons_of_mem _ h1, h2⟩
      · simp only [List.mem_cons] at h
        rcases h with rfl | h
        · exact ⟨m, by simp, o, ho, rfl⟩
        · obtain ⟨m', h1, h2⟩ := ih _ x h
          exact ⟨m', List.mem_cons_of_mem _ h1, h2⟩

/-- indices of the stored lines-only map lie inside its tables -/
theorem mapOfEvs_idxOK_lines (evs : List Ev) (hd : DeclOK 0 0 evs)
    (hs : ∀ m ∈ chunkMs evs, ∀ o, m.orig = some o → o.src < U31 ∧ o.line < U31) (hl : linesOK 1 (chunkMs evs))
    (sm : SMap) (h : mapOfEvs false evs = some sm) : MapIdxOK sm := by
  have hm := mapOfEvs_mappings_lines evs sm h
  obtain ⟨t1, t2⟩ := mapAcc_tables evs 0 0 {} hd rfl rfl
  have hsrc : sm.sources.length = cntS evs ∧ sm.names.length = cntN evs := by
    unfold mapOfEvs at h
    dsimp only at h
    split at h
    · cases h
    · simp only [Option.some.injEq] at h
      rw [← h]
      exact ⟨by simpa using t1, by simpa using t2⟩
  intro x hmem o ho
  rw [hm, decode_lencode _ hs hl] at hmem
  obtain ⟨m, hm1, o', ho', rfl⟩ := keptLines_mem _ _ x hmem
  simp only [Option.some.injEq] at ho
  subst ho
  have := declOK_chunkMs evs 0 0 hd m hm1 o' ho'
  rw [hsrc.1, hsrc.2]
  exact ⟨by simpa using this.1, fun k hk => by cases hk⟩

/-- the tables the line-granular splitter (normal mode) ends with are the map's own sources -/
theorem streamSMLinesFull_tables (t : Text) (sm : SMap) (hne : (splitLines t).isEmpty = false) :
    ∀ i, i < sm.sources.length → (tblS emptyS (streamSMLinesFull t sm).evs i).map (·.1) = some (applyRoot sm.sourceRoot (sm.sources.getD i [])) := by
  unfold streamSMLinesFull
  simp only [hne, Bool.false_eq_true, if_false]
  have hco := smLinesFullGo_origs' (splitLines t) (decode sm.mappings) 1
  obtain ⟨c1, _⟩ := chunkOrigs_cnt _ _ hco
  have hco2 := smWholeLines_origs (fun _ => True) (splitLines t) (smLinesFullGo (splitLines t) 1 (decode sm.mappings)).2 ((splitLines t).length + 1)
  obtain ⟨c2, _⟩ := chunkOrigs_cnt _ _ hco2
  intro i hi
  rw [tblS_append, tblS_append, tblS_noSource _ _ c2, tblS_noSource _ _ c1]
  unfold smSourceEvs
  rw [List.range_eq_range', tblS_sourceEvs]
  simp [hi]

/-- **the replay of a lines-only map filled by a normal-mode stream**: for every generated line, the first mapped chunk of the replay
resolves to the same file name and original line as the first mapped chunk of the cached subtree's own stream -/
theorem replayL_leaf (id : Nat) (inner : Src) (hw : inner.strip.WF) (hp : inner.strip.PosHyp false) (hi : inner.strip.IdxHyp)
    (ha : IsAscii inner.src) (hl : inner.src.length ≤ USIZE_MAX)
    (hsmall : ∀ m ∈ chunkMs (inner.strip.stream ⟨false, false⟩ []).1.evs, ∀ o, m.orig = some o → o.src < U31 ∧ o.line < U31) :
    (∀ L cur, (fsl L cur inner.src (NA (((Src.cached id inner).warm ⟨false, false⟩).stream ⟨false, false⟩ []).1.evs)).map fl
      = (fsl L cur inner.src (NA (inner.strip.stream ⟨false, false⟩ []).1.evs)).map fl)
    ∧ ((Src.cached id inner).warm ⟨false, false⟩).IdxHyp := by
  have hnc := Src.strip_nc inner
  obtain ⟨hn, _, hnodes⟩ := nc_facts inner.strip hnc
  have hpos := Src.stream_posOK inner.strip false [] hw hp hn (fun p hp' => by rw [hnodes] at hp'; cases hp')
  have htok := Src.stream_tok inner.strip false []
  have htl := Src.stream_tl inner.strip false []
  have hMN := Src.stream_mappedNE' inner.strip false []
  have htext := Src.stream_text inner.strip false [] hw
  rw [Src.strip_src] at htext
  have hd := stream_declOK_nc inner.strip ⟨false, false⟩ hnc hi
  have hsorted := chunkMs_sorted _ [] hpos.1 htl
  have hlo := linesOK_of_sorted _ 1 0 hsorted
  simp only [Src.warm]
  cases hm : mapOfEvs false (inner.strip.stream ⟨false, false⟩ []).1.evs with
  | some sm =>
    have hidx := mapOfEvs_idxOK_lines _ hd hsmall hlo sm hm
    refine ⟨?_, hidx⟩
    apply fsl_any_cur
    intro L
    -- the replay leaf as a tree of its own
    have hwR : (Src.sms inner.src [] sm none none false).WF := textOK_of_ascii inner.src ha hl
    have hpR : (Src.sms inner.src [] sm none none false).PosHyp false := ⟨ha, hl, fun h => by cases h⟩
    have hnR : (Src.sms inner.src [] sm none none false).ids.Nodup := by simp [Src.ids, Src.cachedNodes]
    have hposR := Src.stream_posOK (Src.sms inner.src [] sm none none false) false [] hwR hpR hnR (fun p hp' => by simp [Src.cachedNodes] at hp')
    have htextR := Src.stream_text (Src.sms inner.src [] sm none none false) false [] hwR
    have hdR := stream_declOK_nc (Src.sms inner.src [] sm none none false) ⟨false, false⟩ trivial hidx
    have b1 := lfirst_eq_lname _ hposR (Src.stream_tl _ false []) (Src.stream_mappedNE' _ false []) (Src.stream_tok _ false []) hdR L
    have b2 := lfirst_eq_lname _ hpos htl hMN htok hd L
    rw [htextR] at b1
    rw [htext] at b2
    simp only [Src.src] at b1
    rw [b1, b2]
    -- lines of the text
    by_cases hL : 1 ≤ L ∧ L ≤ (splitLines inner.src).length
    · have hrl := replay_lines (inner.strip.stream ⟨false, false⟩ []).1 hpos htl hsmall sm hm L hL.1 (by rw [htext]; exact hL.2)
      rw [htext] at hrl
      have hstream : ((Src.sms inner.src [] sm none none false).stream ⟨false, false⟩ []).1 = streamSMLinesFull inner.src sm := by
        simp [Src.stream, streamSM]
      rw [hstream]
      unfold LNameOf
      rw [hrl]
      cases hq : lookupLines (chunkMs (inner.strip.stream ⟨false, false⟩ []).1.evs) L with
      | none => rfl
      | some p =>
        obtain ⟨si, ol⟩ := p
        simp only [Option.map_some, Option.some.injEq, Prod.mk.injEq, and_true]
        -- `si` is an announced source of the subtree's stream
        have hsi : si < cntS (inner.strip.stream ⟨false, false⟩ []).1.evs := by
          unfold lookupLines at hq
          cases hf : (chunkMs (inner.strip.stream ⟨false, false⟩ []).1.evs).find? (fun m => m.gl == L && m.orig.isSome) with
          | none => rw [hf] at hq; cases hq
          | some m =>
            rw [hf] at hq
            dsimp only at hq
            cases ho : m.orig with
            | none => rw [ho] at hq; cases hq
            | some o =>
              rw [ho] at hq
              simp only [Option.map_some, Option.some.injEq, Prod.mk.injEq] at hq
              have := declOK_chunkMs _ 0 0 hd m (List.mem_of_find?_eq_some hf) o ho
              rw [← hq.1]
              simpa using this.1
        have hrel := mapAcc_tblRelF (inner.strip.stream ⟨false, false⟩ []).1.evs 0 0 {} emptyS emptyN hd ⟨rfl, rfl, fun i hi => by omega, fun i hi => by omega⟩
        obtain ⟨r1, _, r4, _⟩ := hrel
        simp only [Nat.zero_add] at r1 r4
        have hsm : sm.sources = ((inner.strip.stream ⟨false, false⟩ []).1.evs.foldl mapAccEv {}).sources ∧ sm.sourceRoot = none := by
          unfold mapOfEvs at hm
          dsimp only at hm
          split at hm
          · cases hm
          · simp only [Option.some.injEq] at hm
            rw [← hm]
            exact ⟨rfl, rfl⟩
        have hne : (splitLines inner.src).isEmpty = false := by
          cases hx : (splitLines inner.src).isEmpty with
          | false => rfl
          | true =>
            have : (splitLines inner.src).length = 0 := by simpa using hx
            omega
        have hs1 : si < sm.sources.length := by rw [hsm.1, r1]; exact hsi
        rw [streamSMLinesFull_tables inner.src sm hne si hs1, r4 si hsi, hsm.2, ← hsm.1]
        simp only [applyRoot]
        rw [List.getD_eq_getElem?_getD, List.getElem?_eq_getElem hs1]
        rfl
    · -- no byte of the text lies on line `L`: go back to the bytes
      rw [← b1, ← b2]
      by_cases h0 : L < 1
      · rw [fsl_lt L _ 1 _ h0, fsl_lt L _ 1 _ h0]
      · have hbig : 1 + (splitLines inner.src).length ≤ L := by omega
        have hj := splitLines_join inner.src
        have e1 := fsl_lines_none (α := NLoc) L (splitLines inner.src) (lines_of_splitLines _) 1
        rw [hj] at e1
        rw [e1 _ hbig, e1 _ hbig]
  | none =>
    refine ⟨?_, trivial⟩
    apply fsl_any_cur
    intro L
    -- nothing is mapped in the subtree's stream: both sides find nothing
    have hwR : (Src.rawStr inner.src).WF := trivial
    have hnone : ∀ m ∈ chunkMs (inner.strip.stream ⟨false, false⟩ []).1.evs, m.orig = none := by
      intro m hmem
      cases ho : m.orig with
      | none => rfl
      | some o =>
        exfalso
        -- a mapped chunk would be kept by the lines-only encoder
        have henc : encodeLines (chunkMs (inner.strip.stream ⟨false, false⟩ []).1.evs) = [] := by
          unfold mapOfEvs at hm
          simp only [encodeWith, Bool.false_eq_true, if_false] at hm
          split at hm
          · rename_i he
            rw [mapAcc_ms] at he
            simpa using he
          · cases hm
        have hdec := decode_lencode _ hsmall hlo
        rw [henc] at hdec
        have hk : lookupLines (keptLines {} (chunkMs (inner.strip.stream ⟨false, false⟩ []).1.evs)) m.gl
            = lookupLines (chunkMs (inner.strip.stream ⟨false, false⟩ []).1.evs) m.gl := by
          apply keptLines_lookup
          have hge : 1 ≤ m.gl := linesOK_ge _ 1 hlo m hmem
          show m.gl ≠ 0
          omega
        rw [← hdec] at hk
        have hdn : decode ([] : List UInt8) = [] := by decide
        rw [hdn] at hk
        have : (lookupLines (chunkMs (inner.strip.stream ⟨false, false⟩ []).1.evs) m.gl).isSome = true := by
          unfold lookupLines
          cases hf : (chunkMs (inner.strip.stream ⟨false, false⟩ []).1.evs).find? (fun x => x.gl == m.gl && x.orig.isSome) with
          | none =>
            have := List.find?_eq_none.1 hf m hmem
            simp [ho] at this
          | some x =>
            have hx := List.find?_some hf
            simp only [Bool.and_eq_true] at hx
            cases hxo : x.orig with
            | none => rw [hxo] at hx; simp at hx
            | some y => simp [hxo]
        rw [← hk] at this
        simp [lookupLines] at this
    have b2 := lfirst_eq_lname _ hpos htl hMN htok hd L
    rw [htext] at b2
    rw [b2]
    have hposR := Src.stream_posOK (Src.rawStr inner.src) false [] trivial trivial (by simp [Src.ids, Src.cachedNodes]) (fun p hp' => by simp [Src.cachedNodes] at hp')
    have b1 := lfirst_eq_lname _ hposR (Src.stream_tl _ false []) (Src.stream_mappedNE' _ false []) (Src.stream_tok _ false [])
      (stream_declOK_nc (Src.rawStr inner.src) ⟨false, false⟩ trivial trivial) L
    rw [Src.stream_text (Src.rawStr inner.src) false [] trivial] at b1
    simp only [Src.src] at b1
    rw [b1]
    unfold LNameOf lookupLines
    have e1 : (chunkMs (inner.strip.stream ⟨false, false⟩ []).1.evs).find? (fun m => m.gl == L && m.orig.isSome) = none := by
      apply List.find?_eq_none.2
      intro m hmem
      rw [hnone m hmem]; simp
    have e2 : (chunkMs ((Src.rawStr inner.src).stream ⟨false, false⟩ []).1.evs).find? (fun m => m.gl == L && m.orig.isSome) = none := by
      apply List.find?_eq_none.2
      intro m hmem
      obtain ⟨t, ht⟩ := chunkMs_mem_ev _ m hmem
      simp only [Src.stream, streamRaw, Bool.false_eq_true, if_false] at ht
      rw [rawChunks_unmapped _ _ t m ht]; simp
    rw [e1, e2]
    rfl

/-! ## the tree -/

theorem attrN_length : ∀ (evs : List Ev) (S : SrcTbl) (N : NameTbl), (attrN S N evs).length = (evsText evs).length := by
  intro evs
  induction evs with
  | nil => intro S N; rfl
  | cons e es ih =>
    intro S N
    cases e with
    | chunk t m =>
      cases t with
      | none => simp only [attrN, evsText_cons, Ev.text, List.nil_append]; exact ih S N
      | some t => simp only [attrN, evsText_cons, Ev.text, List.length_append, List.length_replicate, ih S N]
    | source i s c => simp only [attrN, evsText_cons, Ev.text, List.nil_append]; exact ih _ N
    | name i n => simp only [attrN, evsText_cons, Ev.text, List.nil_append]; exact ih S _

theorem NA_length (evs : List Ev) : (NA evs).length = (evsText evs).length := by
  unfold NA; rw [List.length_map, attrN_length]

/-- the stream of a ConcatSource over cache-free children, at name level, either column setting -/
theorem concat_NA_nc' (c : Bool) (s : Src) (rest : SrcList) (hn : (SrcList.cons s rest).NoCachedL) (hi : (SrcList.cons s rest).IdxHyps) :
    NA ((Src.concat (.cons s rest)).stream ⟨c, false⟩ []).1.evs
      = ((SrcList.cons s rest).toList.map fun x => NA (x.stream ⟨c, false⟩ []).1.evs).flatten := by
  cases hr : rest with
  | nil => simp only [Src.stream, SrcList.toList, List.map_cons, List.map_nil, List.flatten_cons, List.flatten_nil, List.append_nil]
  | cons s2 rest2 =>
    have hlist : ((SrcList.cons s (SrcList.cons s2 rest2)).streams ⟨c, false⟩ []).1
        = (SrcList.cons s (SrcList.cons s2 rest2)).toList.map fun x => (x.stream ⟨c, false⟩ []).1 :=
      SrcList.streams_nc_map _ _ _ (hr ▸ hn)
    simp only [Src.stream]
    have e : (s.stream ⟨c, false⟩ []).1 :: ((SrcList.cons s2 rest2).streams ⟨c, false⟩ (s.stream ⟨c, false⟩ []).2).1
        = ((SrcList.cons s (SrcList.cons s2 rest2)).streams ⟨c, false⟩ []).1 := rfl
    rw [e, hlist]
    rw [concatStream_NA _ (by
      intro x hx
      obtain ⟨y, hy, rfl⟩ := List.mem_map.1 hx
      exact ⟨stream_declOK_nc y _ (noCachedL_mem _ (hr ▸ hn) y hy) (idxHyps_mem _ (hr ▸ hi) y hy), Src.stream_tl y c []⟩)]
    rw [List.map_map]
    rfl

mutual
/-- what the columns = false warm-cache theorem asks of the tree: no CachedSource beneath a ReplaceSource; every cached subtree in
the domain of C02 (columns = false) with ASCII text, source indices and original lines below 2³¹; map indices inside their tables -/
def Src.WarmHypL : Src → Prop
  | .sms t n map os inner rm => (Src.sms t n map os inner rm).IdxHyp
  | .concat cs => cs.WarmHypsL
  | .replace inner _ => inner.NoCached ∧ inner.IdxHyp
  | .cached _ inner => inner.strip.WF ∧ inner.strip.PosHyp false ∧ inner.strip.IdxHyp ∧ IsAscii inner.src ∧ inner.src.length ≤ USIZE_MAX
      ∧ (∀ m ∈ chunkMs (inner.strip.stream ⟨false, false⟩ []).1.evs, ∀ o, m.orig = some o → o.src < U31 ∧ o.line < U31)
  | _ => True
def SrcList.WarmHypsL : SrcList → Prop
  | .nil => True
  | .cons s r => s.WarmHypL ∧ r.WarmHypsL
end

mutual
/-- what the composition needs of the leaves, for caches filled by a call with `final_source = f`: each cached subtree's replay
agrees with the subtree's own stream on the first mapped byte of every line -/
def Src.LeafOK (f : Bool) : Src → Prop
  | .sms t n map os inner rm => (Src.sms t n map os inner rm).IdxHyp
  | .concat cs => cs.LeafOKs f
  | .replace inner _ => inner.NoCached ∧ inner.IdxHyp
  | .cached id inner =>
    (∀ L cur, (fsl L cur inner.src (NA (((Src.cached id inner).warm ⟨false, f⟩).stream ⟨false, false⟩ []).1.evs)).map fl
      = (fsl L cur inner.src (NA (inner.strip.stream ⟨false, false⟩ []).1.evs)).map fl)
    ∧ ((Src.cached id inner).warm ⟨false, f⟩).IdxHyp ∧ inner.strip.IdxHyp
  | _ => True
def SrcList.LeafOKs (f : Bool) : SrcList → Prop
  | .nil => True
  | .cons s r => s.LeafOK f ∧ r.LeafOKs f
end

mutual
theorem Src.warmG_LN (f : Bool) : ∀ (s : Src), s.WF → s.LeafOK f → s.CachedOK →
    (∀ L cur, (fsl L cur s.src (NA ((s.warm ⟨false, f⟩).stream ⟨false, false⟩ []).1.evs)).map fl
      = (fsl L cur s.src (NA (s.strip.stream ⟨false, false⟩ []).1.evs)).map fl)
    ∧ (s.warm ⟨false, f⟩).IdxHyp ∧ s.strip.IdxHyp
  | .raw .., _, _, _ | .rawStr .., _, _, _ | .rawBuf .., _, _, _ | .orig .., _, _, _ => ⟨fun _ _ => rfl, trivial, trivial⟩
  | .sms t n map os inner rm, _, h, _ => ⟨fun _ _ => rfl, h, h⟩
  | .concat .nil, _, _, _ => ⟨fun _ _ => rfl, trivial, trivial⟩
  | .concat (.cons s rest), hw, h, hk => by
    simp only [Src.WF] at hw
    simp only [Src.LeafOK] at h
    simp only [Src.CachedOK] at hk
    obtain ⟨b1, b2, b3⟩ := SrcList.warmG_LNs f (.cons s rest) hw h hk
    have hwn := SrcList.warmL_nc (.cons s rest) ⟨false, f⟩ hk
    have hsn := SrcList.stripL_nc (.cons s rest)
    simp only [Src.warm, Src.strip, Src.IdxHyp]
    refine ⟨?_, b2, b3⟩
    simp only [SrcList.warmL, SrcList.stripL] at b1 b2 b3 hwn hsn ⊢
    intro L cur
    rw [concat_NA_nc' false _ _ hwn b2, concat_NA_nc' false _ _ hsn b3]
    exact b1 L cur
  | .replace inner rs, _, h, _ => by
    simp only [Src.LeafOK] at h
    simp only [Src.warm, Src.strip]
    rw [Src.strip_of_nc inner h.1]
    exact ⟨fun _ _ => rfl, h.2, h.2⟩
  | .cached id inner, _, h, _ => by
    simp only [Src.LeafOK] at h
    simp only [Src.strip, Src.src]
    exact h
theorem SrcList.warmG_LNs (f : Bool) : ∀ (l : SrcList), l.WFs → l.LeafOKs f → l.CachedOKs →
    (∀ L cur, (fsl L cur l.srcs (((l.warmL ⟨false, f⟩).toList.map fun x => NA (x.stream ⟨false, false⟩ []).1.evs).flatten)).map fl
      = (fsl L cur l.srcs ((l.stripL.toList.map fun x => NA (x.stream ⟨false, false⟩ []).1.evs).flatten)).map fl)
    ∧ (l.warmL ⟨false, f⟩).IdxHyps ∧ l.stripL.IdxHyps
  | .nil, _, _, _ => ⟨fun _ _ => rfl, trivial, trivial⟩
  | .cons s r, hw, h, hk => by
    obtain ⟨a1, a2, a3⟩ := Src.warmG_LN f s hw.1 h.1 hk.1
    obtain ⟨b1, b2, b3⟩ := SrcList.warmG_LNs f r hw.2 h.2 hk.2
    refine ⟨?_, ⟨a2, b2⟩, ⟨a3, b3⟩⟩
    intro L cur
    simp only [SrcList.warmL, SrcList.stripL, SrcList.toList, List.map_cons, List.flatten_cons, SrcList.srcs]
    have l1 : (NA ((s.warm ⟨false, f⟩).stream ⟨false, false⟩ []).1.evs).length = s.src.length := by
      rw [NA_length, Src.stream_text _ false [] (Src.warm_wf _ s hw.1), Src.warm_src]
    have l2 : (NA (s.strip.stream ⟨false, false⟩ []).1.evs).length = s.src.length := by
      rw [NA_length, Src.stream_text _ false [] (Src.strip_wf s hw.1), Src.strip_src]
    rw [fsl_append L s.src cur r.srcs _ _ l1, fsl_append L s.src cur r.srcs _ _ l2]
    have ha := a1 L cur
    have hb := b1 L (lineAfter cur s.src)
    revert ha
    generalize fsl L cur s.src (NA ((s.warm ⟨false, f⟩).stream ⟨false, false⟩ []).1.evs) = x
    generalize fsl L cur s.src (NA (s.strip.stream ⟨false, false⟩ []).1.evs) = y
    intro ha
    cases x with
    | none =>
      cases y with
      | none => exact hb
      | some w => cases ha
    | some v =>
      cases y with
      | none => cases ha
      | some w => exact ha
end

mutual
theorem Src.warmHypL_leafOK : ∀ (s : Src), s.WarmHypL → s.LeafOK false
  | .raw .., _ | .rawStr .., _ | .rawBuf .., _ | .orig .., _ => trivial
  | .sms .., h => h
  | .concat cs, h => by simp only [Src.WarmHypL] at h; simp only [Src.LeafOK]; exact SrcList.warmHypsL_leafOKs cs h
  | .replace inner rs, h => h
  | .cached id inner, h => by
    simp only [Src.WarmHypL] at h
    obtain ⟨w1, w2, w3, w4, w5, w6⟩ := h
    obtain ⟨a, b⟩ := replayL_leaf id inner w1 w2 w3 w4 w5 w6
    exact ⟨a, b, w3⟩
theorem SrcList.warmHypsL_leafOKs : ∀ (l : SrcList), l.WarmHypsL → l.LeafOKs false
  | .nil, _ => trivial
  | .cons s r, h => ⟨Src.warmHypL_leafOK s h.1, SrcList.warmHypsL_leafOKs r h.2⟩
end

/-- the first mapped chunk of every line of the replay tree's normal-mode stream resolves like the cache-free tree's -/
theorem warmG_lname (f : Bool) (s : Src) (hw : s.WF) (hp : s.PosHyp false) (h : s.LeafOK f) (hk : s.CachedOK) (L : Nat) :
    LNameOf ((s.warm ⟨false, f⟩).stream ⟨false, false⟩ []).1.evs L = LNameOf (s.strip.stream ⟨false, false⟩ []).1.evs L := by
  obtain ⟨a1, a2, a3⟩ := Src.warmG_LN f s hw h hk
  have hwn := Src.warm_nc s ⟨false, f⟩ hk
  have hsn := Src.strip_nc s
  obtain ⟨p1, _, _⟩ := posOK_nc (s.warm ⟨false, f⟩) false hwn (Src.warm_wf _ s hw) (Src.warm_posHyp_lines f s hp)
  obtain ⟨q1, _, _⟩ := posOK_nc s.strip false hsn (Src.strip_wf s hw) (Src.strip_posHyp false s hp)
  have b1 := lfirst_eq_lname _ p1 (Src.stream_tl _ false []) (Src.stream_mappedNE' _ false []) (Src.stream_tok _ false [])
    (stream_declOK_nc _ ⟨false, false⟩ hwn a2) L
  have b2 := lfirst_eq_lname _ q1 (Src.stream_tl _ false []) (Src.stream_mappedNE' _ false []) (Src.stream_tok _ false [])
    (stream_declOK_nc _ ⟨false, false⟩ hsn a3) L
  rw [Src.stream_text _ false [] (Src.warm_wf _ s hw), Src.warm_src] at b1
  rw [Src.stream_text _ false [] (Src.strip_wf s hw), Src.strip_src] at b2
  rw [← b1, ← b2]
  exact a1 L 1

/-- **the second stream of a tree with CachedSource nodes, columns = false**: for every generated line, the first mapped chunk of the
replay tree's stream resolves — through the stream's own announcements — to the same file name and original line as the first
mapped chunk of the cache-free tree's stream -/
theorem warmL_lname (s : Src) (hw : s.WF) (hp : s.PosHyp false) (h : s.WarmHypL) (hk : s.CachedOK) (L : Nat) :
    LNameOf ((s.warm ⟨false, false⟩).stream ⟨false, false⟩ []).1.evs L = LNameOf (s.strip.stream ⟨false, false⟩ []).1.evs L :=
  warmG_lname false s hw hp (Src.warmHypL_leafOK s h) hk L

end Rs
