import RsModel.Lemmas.ModeConcat5
/-!
# ConcatSource: the text-less stream attributes every character as the normal stream does

Given children whose two streams agree (`ChildOK`), the two concatenated streams agree at every character position.
-/
namespace Rs

/-- what is known about one child: its text-less stream `cf`, its normal stream `cn` and its text `T` -/
structure ChildOK (cf cn : SResult) (T : Text) : Prop where
  finF : FinOK T cf
  finN : FinOK T cn
  lines : linesOK 1 (chunkMs cf.evs)
  tiles : ∀ j, j < T.length → lookupGo (adv startPos (T.take j)).line (adv startPos (T.take j)).col none (chunkMs cn.evs) ≠ none
  declF : DeclOK 0 0 cf.evs
  declN : DeclOK 0 0 cn.evs
  decls : declsOf cf.evs = declsOf cn.evs
  look : LookEq T (chunkMs cf.evs) (chunkMs cn.evs)

inductive ChildrenOK : List SResult → List SResult → List Text → Prop where
  | nil : ChildrenOK [] [] []
  | cons (cf cn : SResult) (T : Text) (cfs cns : List SResult) (Ts : List Text) :
      ChildOK cf cn T → ChildrenOK cfs cns Ts → ChildrenOK (cf :: cfs) (cn :: cns) (T :: Ts)

theorem ChildrenOK.allF {cfs cns : List SResult} {Ts : List Text} (h : ChildrenOK cfs cns Ts) : FinAll cfs Ts := by
  induction h with
  | nil => exact FinAll.nil
  | cons cf cn T cfs cns Ts hc _ ih => exact FinAll.cons _ _ _ _ hc.finF ih

theorem ChildrenOK.allN {cfs cns : List SResult} {Ts : List Text} (h : ChildrenOK cfs cns Ts) : FinAll cns Ts := by
  induction h with
  | nil => exact FinAll.nil
  | cons cf cn T cfs cns Ts hc _ ih => exact FinAll.cons _ _ _ _ hc.finN ih

theorem tb_child (stF stN : CSt) (h1 : stF.sourceMapping = stN.sourceMapping) (h2 : stF.nameMapping = stN.nameMapping) :
    tbOf (childStart stF) = tbOf (childStart stN) := by
  simp only [tbOf, childStart, h1, h2]

/-- the answer inside one child, text-less mode: it is the child's own (translated) answer -/
theorem child_lookF (stF : CSt) (gpre T : Text) (hrel : FRel stF (adv startPos gpre)) (prevF : List Mapping)
    (hb : Bound prevF (adv startPos gpre)) (hinv : NCInv stF prevF) (cf : SResult) (hf : FinOK T cf) (j : Nat) (hj : j < T.length) :
    (lookupGo (adv startPos (gpre ++ T.take j)).line (adv startPos (gpre ++ T.take j)).col (lookupGo (adv startPos (gpre ++ T.take j)).line (adv startPos (gpre ++ T.take j)).col none prevF)
        (chunkMs (concatChild true stF cf).2)).join
      = (lookupGo (adv startPos (T.take j)).line (adv startPos (T.take j)).col none (trMs true (childStart stF) cf.evs)).join := by
  rw [shift_pos stF gpre hrel (T.take j)]
  simp only
  rw [concatChild_look]
  cases hr : lookupGo (adv startPos (T.take j)).line (adv startPos (T.take j)).col none (trMs true (childStart stF) cf.evs) with
  | some x => rfl
  | none =>
    simp only
    have hl : 1 ≤ (adv startPos (T.take j)).line := by
      have e1 : startPos.line = 1 := rfl
      rcases adv_ge (T.take j) startPos with g | g <;> omega
    have hinfo : (cf.info.line != 1 || cf.info.col != 0) = true := by
      rw [hf.2]
      have := charPos_lt_end' startPos T 0 (by omega)
      simp only [List.take_zero, adv] at this
      have e1 : startPos.line = 1 := rfl
      have e2 : startPos.col = 0 := rfl
      rcases this with g | g
      · have : (adv startPos T).line ≠ 1 := by omega
        simp [this]
      · have : (adv startPos T).col ≠ 0 := by omega
        simp [this]
    exact inside_none stF _ hrel prevF hb hinv cf _ _ hl hinfo hr

/-- … and in normal mode, for a child whose chunks cover its text -/
theorem child_lookN (stN : CSt) (gpre T : Text) (hrel : FRel stN (adv startPos gpre)) (acc : Option (Option Orig)) (cn : SResult) (j : Nat)
    (hr : lookupGo (adv startPos (T.take j)).line (adv startPos (T.take j)).col none (trMs false (childStart stN) cn.evs) ≠ none) :
    (lookupGo (adv startPos (gpre ++ T.take j)).line (adv startPos (gpre ++ T.take j)).col acc (chunkMs (concatChild false stN cn).2)).join
      = (lookupGo (adv startPos (T.take j)).line (adv startPos (T.take j)).col none (trMs false (childStart stN) cn.evs)).join := by
  rw [shift_pos stN gpre hrel (T.take j)]
  simp only
  rw [concatChild_look]
  cases h : lookupGo (adv startPos (T.take j)).line (adv startPos (T.take j)).col none (trMs false (childStart stN) cn.evs) with
  | some x => rfl
  | none => exact absurd h hr

theorem flatten_take_in (T : Text) (Ts : List Text) (j : Nat) (hj : j < T.length) : ((T :: Ts).flatten).take j = T.take j := by
  simp only [List.flatten_cons]
  exact List.take_append_of_le_length (by omega)

theorem flatten_take_after (T : Text) (Ts : List Text) (j : Nat) (hj : T.length ≤ j) : ((T :: Ts).flatten).take j = T ++ (Ts.flatten).take (j - T.length) := by
  simp only [List.flatten_cons]
  have : j = T.length + (j - T.length) := by omega
  conv => lhs; rw [this]
  exact List.take_length_add_append _

/-- **ConcatSource, columns = true**: at every character position the text-less stream answers a lookup as the normal stream does -/
theorem concatGo_modes : ∀ (cfs cns : List SResult) (Ts : List Text), ChildrenOK cfs cns Ts →
    ∀ (stF stN : CSt) (gpre : Text) (prevF prevN : List Mapping),
    FRel stF (adv startPos gpre) → FRel stN (adv startPos gpre) → stF.sourceMapping = stN.sourceMapping → stF.nameMapping = stN.nameMapping →
    Bound prevF (adv startPos gpre) → Bound prevN (adv startPos gpre) → NCInv stF prevF → stN.needClose = false →
    ∀ j, j < Ts.flatten.length →
      (lookupGo (adv startPos (gpre ++ Ts.flatten.take j)).line (adv startPos (gpre ++ Ts.flatten.take j)).col none (prevF ++ chunkMs (concatGo true stF cfs).2)).join
      = (lookupGo (adv startPos (gpre ++ Ts.flatten.take j)).line (adv startPos (gpre ++ Ts.flatten.take j)).col none (prevN ++ chunkMs (concatGo false stN cns).2)).join := by
  intro cfs cns Ts h
  induction h with
  | nil => intro _ _ _ _ _ _ _ _ _ _ _ _ _ j hj; simp at hj
  | cons cf cn T cfs cns Ts hc hrest ih =>
    intro stF stN gpre prevF prevN hrF hrN hsm hnm hbF hbN hinv hncN j hj
    obtain ⟨_, frF⟩ := concatChild_fin true stF _ gpre T cf hrF rfl hc.finF
    obtain ⟨_, frN⟩ := concatChild_fin false stN _ gpre T cn hrN rfl hc.finN
    have htb := concatEvs_tb_modes cf.evs cn.evs (childStart stF) (childStart stN) (tb_child stF stN hsm hnm) hc.decls
    by_cases hin : j < T.length
    · -- the position lies in this child
      rw [flatten_take_in T Ts j hin]
      simp only [concatGo, chunkMs_app, lookupGo_append]
      have hq := charPos_lt_end' (adv startPos gpre) T j hin
      rw [← adv_append, ← adv_append] at hq
      rw [later_skip true cfs Ts hrest.allF _ (gpre ++ T) frF _ hq, later_skip false cns Ts hrest.allN _ (gpre ++ T) frN _ hq]
      rw [child_lookF stF gpre T hrF prevF hbF hinv cf hc.finF j hin]
      have hNne : lookupGo (adv startPos (T.take j)).line (adv startPos (T.take j)).col none (trMs false (childStart stN) cn.evs) ≠ none := by
        obtain ⟨_, hmap⟩ := trMs_final_tables false cn.evs (childStart stN) 0 0 hc.declN rfl rfl
        rw [hmap]
        have := lookupGo_map (adv startPos (T.take j)).line (adv startPos (T.take j)).col
          (trans (concatEvs false (childStart stN) cn.evs).1.sim (concatEvs false (childStart stN) cn.evs).1.nim) (chunkMs cn.evs) none
        simp only [Option.map_none] at this
        rw [this]
        intro hnone
        apply hc.tiles j hin
        cases hx : lookupGo (adv startPos (T.take j)).line (adv startPos (T.take j)).col none (chunkMs cn.evs) with
        | none => rfl
        | some v => rw [hx] at hnone; simp at hnone
      rw [child_lookN stN gpre T hrN _ cn j hNne]
      rw [trMs_look true cf.evs stF hc.declF, trMs_look false cn.evs stN hc.declN]
      have hs : (concatEvs true (childStart stF) cf.evs).1.sim = (concatEvs false (childStart stN) cn.evs).1.sim := congrArg Tb.sim htb.1
      have hn : (concatEvs true (childStart stF) cf.evs).1.nim = (concatEvs false (childStart stN) cn.evs).1.nim := congrArg Tb.nim htb.1
      rw [hs, hn, hc.look j hin]
    · -- the position lies in a later child
      have hge : T.length ≤ j := by omega
      rw [flatten_take_after T Ts j hge, ← List.append_assoc]
      simp only [concatGo, chunkMs_app]
      rw [← List.append_assoc, ← List.append_assoc]
      obtain ⟨_, _, t3N, t4N⟩ := concatChild_state false stN cn
      obtain ⟨_, _, _, t4F⟩ := concatChild_state true stF cf
      apply ih (concatChild true stF cf).1 (concatChild false stN cn).1 (gpre ++ T) _ _ frF frN
      · have := congrArg Tb.sm (t4F.trans (htb.1.trans t4N.symm)); exact this
      · have := congrArg Tb.nm (t4F.trans (htb.1.trans t4N.symm)); exact this
      · intro m hm
        rcases List.mem_append.1 hm with hm | hm
        · rw [adv_append]; exact posLe_trans (hbF m hm) (adv_ge T _)
        · exact concatChild_ms_le true stF gpre T cf hrF hc.finF m hm
      · intro m hm
        rcases List.mem_append.1 hm with hm | hm
        · rw [adv_append]; exact posLe_trans (hbN m hm) (adv_ge T _)
        · exact concatChild_ms_le false stN gpre T cn hrN hc.finN m hm
      · exact ncinv_step stF gpre T hrF prevF hbF hinv cf hc.finF hc.lines
      · rw [t3N, hncN]; simp
      · simp only [List.flatten_cons, List.length_append] at hj; omega

end Rs
