import RsModel.Lemmas.ProvNest
import RsModel.Lemmas.WarmMap
import RsModel.Lemmas.HistoryAnswers
import RsModel.Lemmas.WarmStrict
/-!
# C04 on warm caches: the second `map()` of a tree with CachedSource nodes

`getMap_twice` (the second map resolves every byte like the first) ∘ `getMap_strip` (the first map is the map of the cache-free tree)
∘ `nestTree_map_bytes` (C04 for the cache-free tree).
-/
namespace Rs

/-- **C04 for the second `map()`** (columns = true): `s` has CachedSource nodes at any depth (none beneath a ReplaceSource), its
cache-free form `s.strip` is a tree of raw / OriginalSource leaves under ConcatSource and ReplaceSource nodes; the first `get_map`
ran on cold caches.  Every byte `i` of `source()` that the *second* map — computed from the stored maps — resolves to `o2` is
resolved by the first map to some `o1` with the same file name (each through its own `sources`), the same line and the same column;
and that file (with the content the first map lists) holds the byte as a surviving original byte at exactly that line and that
column plus `d`, or the byte is generated text. -/
theorem nestTree_second_map_bytes (cons : Text → Option Text) (s : Src) (σ : Store) (h : s.ModeHypC) (hk : s.CachedOK) (hs : s.SmallF)
    (hn : s.ids.Nodup) (hc : Cold σ s.ids) (hW : s.strip.NestWD cons) (hz : s.strip.NestSized)
    (hasc : ∀ n T, cons n = some T → IsAscii T ∧ T.length < USIZE_MAX) (f1 f2 : Bool)
    (hsmall1 : ∀ m ∈ chunkMs (s.stream ⟨true, true⟩ σ).1.evs, m.small)
    (hsmall2 : ∀ m ∈ chunkMs ((s.warm ⟨true, true⟩).stream ⟨true, true⟩ []).1.evs, m.small)
    (sm1 sm2 : SMap) (h1 : (getMap s ⟨true, f1⟩ σ).1 = some sm1) (h2 : (getMap s ⟨true, f2⟩ (getMap s ⟨true, f1⟩ σ).2).1 = some sm2) :
    ∀ (i : Nat) (o2 : Orig), (attrFrom (decode sm2.mappings) startPos s.src)[i]? = some (some o2) →
      ∃ (o1 : Orig) (name T : Text), (attrFrom (decode sm1.mappings) startPos s.src)[i]? = some (some o1)
        ∧ sm2.sources[o2.src]? = some name ∧ sm1.sources[o1.src]? = some name ∧ o2.line = o1.line ∧ o2.col = o1.col
        ∧ sm1.sourcesContent[o1.src]? = some T
        ∧ ((∃ q d, q + d < T.length ∧ adv startPos (T.take q) = ⟨o2.line, o2.col⟩ ∧ s.src[i]? = T[q + d]?
              ∧ adv startPos (T.take (q + d)) = ⟨o2.line, o2.col + d⟩
              ∧ ∃ tok k0 l0 c0, TokPos T tok l0 c0 k0 ∧ k0 ≤ q ∧ q + d < k0 + tok.length)
            ∨ (∃ r ∈ s.strip.allReplsN, ∃ cl ∈ splitLines r.content, ∃ e, e < cl.length ∧ s.src[i]? = cl[e]?)) := by
  intro i o2 hget
  have htw := getMap_twice s σ h hk hs hn hc f1 f2 hsmall1 hsmall2 sm1 sm2 h1 h2
  have hi := congrArg (fun l => l[i]?) htw
  simp only [List.getElem?_map, hget, Option.map_some] at hi
  cases h1i : (attrFrom (decode sm1.mappings) startPos s.src)[i]? with
  | none => rw [h1i] at hi; simp at hi
  | some x =>
    rw [h1i] at hi
    simp only [Option.map_some, Option.some.injEq] at hi
    cases x with
    | none => simp at hi
    | some o1 =>
      simp only [Option.map_some, Option.some.injEq, resolveMF, NLoc.mk.injEq] at hi
      obtain ⟨e1, e2, e3, _⟩ := hi
      have h1' : (getMap s.strip ⟨true, f1⟩ []).1 = some sm1 := by rw [← getMap_strip s ⟨true, f1⟩ σ hn hc]; exact h1
      have hsm : ∀ m ∈ chunkMs (s.strip.stream ⟨true, true⟩ []).1.evs, m.small := by
        rw [← Src.stream_strip s ⟨true, true⟩ σ hn hc]; exact hsmall1
      have hb := nestTree_map_bytes cons s.strip hW hz hasc f1 hsm sm1 h1' i o1 (by rw [Src.strip_src]; exact h1i)
      obtain ⟨name, T, b1, b2, b3⟩ := hb
      rw [Src.strip_src] at b3
      refine ⟨o1, name, T, rfl, by rw [e1]; exact b1, b1, e2, e3, b2, ?_⟩
      rw [e2, e3]
      exact b3

/-- a map that resolves every byte like the map of a cache-free tree of the nested shape inherits its provenance statement -/
theorem nest_bytes_of_same_resolution (cons : Text → Option Text) (s0 : Src) (hW : s0.NestWD cons) (hz : s0.NestSized)
    (hasc : ∀ n T, cons n = some T → IsAscii T ∧ T.length < USIZE_MAX) (f1 : Bool)
    (hsm : ∀ m ∈ chunkMs (s0.stream ⟨true, true⟩ []).1.evs, m.small)
    (sm1 sm2 : SMap) (h1 : (getMap s0 ⟨true, f1⟩ []).1 = some sm1)
    (htw : (attrFrom (decode sm2.mappings) startPos s0.src).map (Option.map (resolveMF sm2))
      = (attrFrom (decode sm1.mappings) startPos s0.src).map (Option.map (resolveMF sm1))) :
    ∀ (i : Nat) (o2 : Orig), (attrFrom (decode sm2.mappings) startPos s0.src)[i]? = some (some o2) →
      ∃ (o1 : Orig) (name T : Text), (attrFrom (decode sm1.mappings) startPos s0.src)[i]? = some (some o1)
        ∧ sm2.sources[o2.src]? = some name ∧ sm1.sources[o1.src]? = some name ∧ o2.line = o1.line ∧ o2.col = o1.col
        ∧ sm1.sourcesContent[o1.src]? = some T
        ∧ ((∃ q d, q + d < T.length ∧ adv startPos (T.take q) = ⟨o2.line, o2.col⟩ ∧ s0.src[i]? = T[q + d]?
              ∧ adv startPos (T.take (q + d)) = ⟨o2.line, o2.col + d⟩
              ∧ ∃ tok k0 l0 c0, TokPos T tok l0 c0 k0 ∧ k0 ≤ q ∧ q + d < k0 + tok.length)
            ∨ (∃ r ∈ s0.allReplsN, ∃ cl ∈ splitLines r.content, ∃ e, e < cl.length ∧ s0.src[i]? = cl[e]?)) := by
  intro i o2 hget
  have hi := congrArg (fun l => l[i]?) htw
  simp only [List.getElem?_map, hget, Option.map_some] at hi
  cases h1i : (attrFrom (decode sm1.mappings) startPos s0.src)[i]? with
  | none => rw [h1i] at hi; simp at hi
  | some x =>
    rw [h1i] at hi
    simp only [Option.map_some, Option.some.injEq] at hi
    cases x with
    | none => simp at hi
    | some o1 =>
      simp only [Option.map_some, Option.some.injEq, resolveMF, NLoc.mk.injEq] at hi
      obtain ⟨e1, e2, e3, _⟩ := hi
      obtain ⟨name, T, b1, b2, b3⟩ := nestTree_map_bytes cons s0 hW hz hasc f1 hsm sm1 h1 i o1 h1i
      refine ⟨o1, name, T, rfl, by rw [e1]; exact b1, b1, e2, e3, b2, ?_⟩
      rw [e2, e3]
      exact b3

/-- **C04 for every `get_map` of every history** (columns = true): whatever map a `get_map` of the history returns, it resolves
every byte like the map `sm1` of the cache-free tree, hence to the byte's true origin -/
theorem history_map_bytes (cons : Text → Option Text) (s : Src) (hk : s.NoCR) (hn : s.ids.Nodup) (σ : Store) (hc : Cold σ s.ids)
    (h : s.ModeHypC) (hs : s.SmallF) (hW : s.strip.NestWD cons) (hz : s.strip.NestSized)
    (hasc : ∀ n T, cons n = some T → IsAscii T ∧ T.length < USIZE_MAX)
    (hsmall1 : ∀ m ∈ chunkMs (s.strip.stream ⟨true, true⟩ []).1.evs, m.small)
    (hsmall2 : ∀ m ∈ chunkMs ((s.warm ⟨true, true⟩).stream ⟨true, true⟩ []).1.evs, m.small)
    (sm1 : SMap) (h1 : (getMap s.strip ⟨true, true⟩ []).1 = some sm1)
    (calls : List Opts) (k : Nat) (hcall : calls[k]? = some ⟨true, true⟩) :
    ∃ r, (runCalls s calls σ).1[k]? = some r ∧ ∀ sm2, mapOfEvs true r.evs = some sm2 →
      ∀ (i : Nat) (o2 : Orig), (attrFrom (decode sm2.mappings) startPos s.src)[i]? = some (some o2) →
      ∃ (o1 : Orig) (name T : Text), (attrFrom (decode sm1.mappings) startPos s.src)[i]? = some (some o1)
        ∧ sm2.sources[o2.src]? = some name ∧ sm1.sources[o1.src]? = some name ∧ o2.line = o1.line ∧ o2.col = o1.col
        ∧ sm1.sourcesContent[o1.src]? = some T
        ∧ ((∃ q d, q + d < T.length ∧ adv startPos (T.take q) = ⟨o2.line, o2.col⟩ ∧ s.src[i]? = T[q + d]?
              ∧ adv startPos (T.take (q + d)) = ⟨o2.line, o2.col + d⟩
              ∧ ∃ tok k0 l0 c0, TokPos T tok l0 c0 k0 ∧ k0 ≤ q ∧ q + d < k0 + tok.length)
            ∨ (∃ r ∈ s.strip.allReplsN, ∃ cl ∈ splitLines r.content, ∃ e, e < cl.length ∧ s.src[i]? = cl[e]?)) := by
  obtain ⟨r, a1, a2⟩ := history_map_NA s hk hn σ hc h hs hsmall1 hsmall2 calls k hcall
  refine ⟨r, a1, fun sm2 hsm2 => ?_⟩
  have hsn := Src.strip_nc s
  obtain ⟨hn', _, _⟩ := nc_facts _ hsn
  have e1 := getMap_names s.strip (Src.strip_modeHypC s h) hn' [] [] (cold_nil _) (cold_nil _) true hsmall1 sm1 h1
  have e2 := a2 sm2 hsm2
  have := nest_bytes_of_same_resolution cons s.strip hW hz hasc true hsmall1 sm1 sm2 h1 (by rw [Src.strip_src, e2]; rw [Src.strip_src] at e1; rw [e1]; rfl)
  rw [Src.strip_src] at this
  exact this

/-- **C11 for every `get_map` of every history** (columns = true): segments at strictly increasing characters of `source()` -/
theorem history_map_strict (s : Src) (hk : s.NoCR) (hn : s.ids.Nodup) (σ : Store) (hc : Cold σ s.ids)
    (h : s.ModeHypC) (hst : s.StrictMaps) (hs : s.SmallF)
    (hsmall1 : ∀ m ∈ chunkMs (s.strip.stream ⟨true, true⟩ []).1.evs, m.small)
    (hsmall2 : ∀ m ∈ chunkMs ((s.warm ⟨true, true⟩).stream ⟨true, true⟩ []).1.evs, m.small)
    (calls : List Opts) (k : Nat) (hcall : calls[k]? = some ⟨true, true⟩) :
    ∃ r, (runCalls s calls σ).1[k]? = some r ∧ ∀ sm, mapOfEvs true r.evs = some sm →
      (decode sm.mappings).Pairwise mlt
      ∧ ∀ m ∈ decode sm.mappings, ∃ j, j < s.src.length ∧ adv startPos (s.src.take j) = ⟨m.gl, m.gc⟩ := by
  refine ⟨_, runCalls_results s hk hn σ hc calls k _ hcall, ?_⟩
  intro sm hsm
  unfold answerOf at hsm
  have hck := Src.noCR_cachedOK s hk
  split at hsm
  · obtain ⟨_, a2⟩ := Src.warmF_NA s h hck hs
    have hwnc := Src.warm_nc s ⟨true, true⟩ hck
    obtain ⟨hwn, _, _⟩ := nc_facts _ hwnc
    have := getMap_strict (s.warm ⟨true, true⟩) a2 (Src.warm_strict s h hst hs) hwn [] (cold_nil _) true hsmall2 sm (by simp only [getMap]; exact hsm)
    rw [Src.warm_src] at this
    exact this
  · have hsn := Src.strip_nc s
    obtain ⟨hn', _, _⟩ := nc_facts _ hsn
    have := getMap_strict s.strip (Src.strip_modeHypC s h) (Src.strip_strict s hst) hn' [] (cold_nil _) true hsmall1 sm (by simp only [getMap]; exact hsm)
    rw [Src.strip_src] at this
    exact this

end Rs
