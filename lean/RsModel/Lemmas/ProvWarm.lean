import RsModel.Lemmas.ProvNest
import RsModel.Lemmas.WarmMap
/-!
# C04 on warm caches: the second `map()` of a tree with CachedSource nodes

`getMap_twice` (the second map resolves every byte like the first) ∘ `getMap_strip` (the first map is the map of the cache-free tree)
∘ `nestTree_map_bytes` (C04 for the cache-free tree).
-/
namespace Rs

/-- **C04 for the second `map()`** (columns = true): `s` has CachedSource nodes at any depth (none beneath a ReplaceSource), its
cache-free form `s.strip` is a tree of raw / OriginalSource leaves under ConcatSource and ReplaceSource nodes; the first `get_map`
ran on cold caches.  Every byte `i` of `source()` that the *second* map — computed from the stored maps — resolves to `o2` is
resolved by the first map to some `o1` with the same file name (each through its own `sources`), the same line and the same column;
and that file (with the content the first map lists) holds the byte as a surviving original byte at exactly that line and that
column plus `d`, or the byte is generated text. -/
theorem nestTree_second_map_bytes (cons : Text → Option Text) (s : Src) (σ : Store) (h : s.ModeHypC) (hk : s.CachedOK) (hs : s.SmallF)
    (hn : s.ids.Nodup) (hc : Cold σ s.ids) (hW : s.strip.NestWD cons) (hz : s.strip.NestSized)
    (hasc : ∀ n T, cons n = some T → IsAscii T ∧ T.length < USIZE_MAX) (f1 f2 : Bool)
    (hsmall1 : ∀ m ∈ chunkMs (s.stream ⟨true, true⟩ σ).1.evs, m.small)
    (hsmall2 : ∀ m ∈ chunkMs ((s.warm ⟨true, true⟩).stream ⟨true, true⟩ []).1.evs, m.small)
    (sm1 sm2 : SMap) (h1 : (getMap s ⟨true, f1⟩ σ).1 = some sm1) (h2 : (getMap s ⟨true, f2⟩ (getMap s ⟨true, f1⟩ σ).2).1 = some sm2) :
    ∀ (i : Nat) (o2 : Orig), (attrFrom (decode sm2.mappings) startPos s.src)[i]? = some (some o2) →
      ∃ (o1 : Orig) (name T : Text), (attrFrom (decode sm1.mappings) startPos s.src)[i]? = some (some o1)
        ∧ sm2.sources[o2.src]? = some name ∧ sm1.sources[o1.src]? = some name ∧ o2.line = o1.line ∧ o2.col = o1.col
        ∧ sm1.sourcesContent[o1.src]? = some T
        ∧ ((∃ q d, q + d < T.length ∧ adv startPos (T.take q) = ⟨o2.line, o2.col⟩ ∧ s.src[i]? = T[q + d]?
              ∧ adv startPos (T.take (q + d)) = ⟨o2.line, o2.col + d⟩
              ∧ ∃ tok k0 l0 c0, TokPos T tok l0 c0 k0 ∧ k0 ≤ q ∧ q + d < k0 + tok.length)
            ∨ (∃ r ∈ s.strip.allReplsN, ∃ cl ∈ splitLines r.content, ∃ e, e < cl.length ∧ s.src[i]? = cl[e]?)) := by
  intro i o2 hget
  have htw := getMap_twice s σ h hk hs hn hc f1 f2 hsmall1 hsmall2 sm1 sm2 h1 h2
  have hi := congrArg (fun l => l[i]?) htw
  simp only [List.getElem?_map, hget, Option.map_some] at hi
  cases h1i : (attrFrom (decode sm1.mappings) startPos s.src)[i]? with
  | none => rw [h1i] at hi; simp at hi
  | some x =>
    rw [h1i] at hi
    simp only [Option.map_some, Option.some.injEq] at hi
    cases x with
    | none => simp at hi
    | some o1 =>
      simp only [Option.map_some, Option.some.injEq, resolveMF, NLoc.mk.injEq] at hi
      obtain ⟨e1, e2, e3, _⟩ := hi
      have h1' : (getMap s.strip ⟨true, f1⟩ []).1 = some sm1 := by rw [← getMap_strip s ⟨true, f1⟩ σ hn hc]; exact h1
      have hsm : ∀ m ∈ chunkMs (s.strip.stream ⟨true, true⟩ []).1.evs, m.small := by
        rw [← Src.stream_strip s ⟨true, true⟩ σ hn hc]; exact hsmall1
      have hb := nestTree_map_bytes cons s.strip hW hz hasc f1 hsm sm1 h1' i o1 (by rw [Src.strip_src]; exact h1i)
      obtain ⟨name, T, b1, b2, b3⟩ := hb
      rw [Src.strip_src] at b3
      refine ⟨o1, name, T, rfl, by rw [e1]; exact b1, b1, e2, e3, b2, ?_⟩
      rw [e2, e3]
      exact b3

end Rs
