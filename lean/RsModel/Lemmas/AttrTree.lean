import RsModel.Lemmas.AttrConcat
import RsModel.Lemmas.HasText
import RsModel.Lemmas.EqViews
/-!
# Name-level attribution of whole trees (C06 / C13)

`Src.WD cons c s`: a structural condition under which the stream of `s` announces every source / name index before
using it, with one content per file name (`cons`).  Leaves: Raw (nothing to announce), Original (announces itself),
SourceMapSource (a closed hypothesis about its own stream).  Composite: ConcatSource.  (ReplaceSource and
CachedSource are not covered by this predicate.)
-/
namespace Rs

theorem wellDecl_chunks0 (cons : Text → Option Text) (S : SrcTbl) (N : NameTbl) (hS : (S 0).isSome = true) :
    ∀ (evs : List Ev), (∀ e ∈ evs, ∃ t m, e = Ev.chunk t m ∧ ∀ o, m.orig = some o → o.src = 0 ∧ o.name = none) →
    WellDecl cons S N evs := by
  intro evs
  induction evs with
  | nil => intro _; trivial
  | cons e es ih =>
    intro h
    obtain ⟨t, m, rfl, hm⟩ := h e (by simp)
    refine ⟨fun o ho => ?_, ih (fun x hx => h x (by simp [hx]))⟩
    obtain ⟨h1, h2⟩ := hm o ho
    rw [h1, h2]
    exact ⟨hS, fun k hk => by cases hk⟩

theorem rawChunks_ref0 : ∀ (ls : List Text) (l : Nat), ∀ e ∈ rawChunks l ls, ∃ t m, e = Ev.chunk t m ∧ ∀ o, m.orig = some o → o.src = 0 ∧ o.name = none := by
  intro ls
  induction ls with
  | nil => intro l e he; simp [rawChunks] at he
  | cons t ts ih =>
    intro l e he
    simp only [rawChunks, List.mem_cons] at he
    rcases he with rfl | he
    · exact ⟨_, _, rfl, fun o ho => by cases ho⟩
    · exact ih _ e he

theorem streamRaw_wd (cons : Text → Option Text) (t : Text) (c : Bool) (S : SrcTbl) (N : NameTbl) :
    WellDecl cons S N (streamRaw t ⟨c, false⟩).evs := by
  have : ∀ (evs : List Ev), (∀ e ∈ evs, ∃ t m, e = Ev.chunk t m ∧ m.orig = none) → WellDecl cons S N evs := by
    intro evs
    induction evs with
    | nil => intro _; trivial
    | cons e es ih =>
      intro h
      obtain ⟨t, m, rfl, hm⟩ := h e (by simp)
      exact ⟨fun o ho => (by rw [hm] at ho; cases ho), ih (fun x hx => h x (by simp [hx]))⟩
  apply this
  intro e he
  simp only [streamRaw, Bool.false_eq_true, if_false] at he
  have : ∀ (ls : List Text) (l : Nat), ∀ e ∈ rawChunks l ls, ∃ t m, e = Ev.chunk t m ∧ m.orig = none := by
    intro ls
    induction ls with
    | nil => intro l e he; simp [rawChunks] at he
    | cons t ts ih =>
      intro l e he
      simp only [rawChunks, List.mem_cons] at he
      rcases he with rfl | he
      · exact ⟨_, _, rfl, rfl⟩
      · exact ih _ e he
  exact this _ _ e he

theorem origLineChunks_ref0 : ∀ (ls : List Text) (l : Nat), ∀ e ∈ origLineChunks l ls, ∃ t m, e = Ev.chunk t m ∧ ∀ o, m.orig = some o → o.src = 0 ∧ o.name = none := by
  intro ls
  induction ls with
  | nil => intro l e he; simp [origLineChunks] at he
  | cons t ts ih =>
    intro l e he
    simp only [origLineChunks, List.mem_cons] at he
    rcases he with rfl | he
    · exact ⟨_, _, rfl, fun o ho => by simp only [Option.some.injEq] at ho; subst ho; exact ⟨rfl, rfl⟩⟩
    · exact ih _ e he

theorem origTokChunks_ref0 : ∀ (toks : List Text) (l c : Nat), ∀ e ∈ (origTokChunks false l c toks).1, ∃ t m, e = Ev.chunk t m ∧ ∀ o, m.orig = some o → o.src = 0 ∧ o.name = none := by
  intro toks
  induction toks with
  | nil => intro l c e he; simp [origTokChunks] at he
  | cons tok toks ih =>
    intro l c e he
    simp only [origTokChunks, Bool.false_eq_true, if_false, List.mem_append] at he
    rcases he with he | he
    · split at he
      · simp only [List.mem_singleton] at he; subst he
        exact ⟨_, _, rfl, fun o ho => by cases ho⟩
      · simp only [List.mem_singleton] at he; subst he
        exact ⟨_, _, rfl, fun o ho => by simp only [Option.some.injEq] at ho; subst ho; exact ⟨rfl, rfl⟩⟩
    · split at he
      · exact ih _ _ e he
      · exact ih _ _ e he

theorem streamOriginal_wd (cons : Text → Option Text) (t name : Text) (c : Bool) (h : cons name = some t) :
    WellDecl cons emptyS emptyN (streamOriginal t name ⟨c, false⟩).evs := by
  simp only [streamOriginal, Bool.false_eq_true, if_false]
  cases c
  · simp only [Bool.false_eq_true, if_false]
    refine ⟨h.symm, wellDecl_chunks0 cons _ _ (by simp [upd]) _ (origLineChunks_ref0 _ _)⟩
  · simp only [if_true]
    refine ⟨h.symm, wellDecl_chunks0 cons _ _ (by simp [upd]) _ (origTokChunks_ref0 _ _ _)⟩

mutual
def Src.WD (cons : Text → Option Text) (c : Bool) : Src → Prop
  | .raw _ _ _ => True
  | .rawStr _ => True
  | .rawBuf _ _ => True
  | .orig t name => cons name = some t
  | .sms t name map origSrc inner remove =>
    ∀ σ, WellDecl cons emptyS emptyN ((Src.sms t name map origSrc inner remove).stream ⟨c, false⟩ σ).1.evs
  | .concat cs => SrcList.WD cons c cs
  | .replace inner rs =>
    inner.NoCached ∧ ∀ σ, WellDecl cons emptyS emptyN ((Src.replace inner rs).stream ⟨c, false⟩ σ).1.evs
  | .cached _ _ => False
def SrcList.WD (cons : Text → Option Text) (c : Bool) : SrcList → Prop
  | .nil => True
  | .cons s rest => Src.WD cons c s ∧ SrcList.WD cons c rest
end

theorem SrcList.streams_mem_tl : ∀ (l : SrcList) (c : Bool) (σ : Store), ∀ r ∈ (l.streams ⟨c, false⟩ σ).1, evsTL r.evs = false
  | .nil, c, σ => by intro r hr; simp [SrcList.streams] at hr
  | .cons s rest, c, σ => by
    intro r hr
    simp only [SrcList.streams, List.mem_cons] at hr
    rcases hr with rfl | hr
    · exact Src.stream_tl s c σ
    · exact SrcList.streams_mem_tl rest c _ r hr

mutual
theorem Src.stream_wd (cons : Text → Option Text) (c : Bool) : ∀ (s : Src), Src.WD cons c s → ∀ σ,
    WellDecl cons emptyS emptyN (s.stream ⟨c, false⟩ σ).1.evs
  | .raw _ _ lossy, _, σ => by simp only [Src.stream]; exact streamRaw_wd cons lossy c _ _
  | .rawStr t, _, σ => by simp only [Src.stream]; exact streamRaw_wd cons t c _ _
  | .rawBuf _ lossy, _, σ => by simp only [Src.stream]; exact streamRaw_wd cons lossy c _ _
  | .orig t name, h, σ => by simp only [Src.stream]; exact streamOriginal_wd cons t name c h
  | .sms t name map origSrc inner remove, h, σ => h σ
  | .concat .nil, _, σ => by
    simp only [Src.stream]; exact concatStream_wellDecl cons [] (by simp)
  | .concat (.cons s rest), h, σ => by
    cases hr : rest with
    | nil =>
      simp only [Src.stream]
      rw [hr] at h
      exact Src.stream_wd cons c s h.1 σ
    | cons s2 rest2 =>
      simp only [Src.stream]
      rw [hr] at h
      apply concatStream_wellDecl
      intro x hx
      simp only [List.mem_cons] at hx
      rcases hx with rfl | hx
      · exact ⟨Src.stream_wd cons c s h.1 σ, Src.stream_tl s c σ⟩
      · exact ⟨SrcList.streams_wd cons c (.cons s2 rest2) h.2 _ x hx, SrcList.streams_mem_tl _ c _ x hx⟩
  | .replace _ _, h, σ => h.2 σ
  | .cached _ _, h, _ => h.elim
theorem SrcList.streams_wd (cons : Text → Option Text) (c : Bool) : ∀ (l : SrcList), SrcList.WD cons c l → ∀ σ,
    ∀ r ∈ (l.streams ⟨c, false⟩ σ).1, WellDecl cons emptyS emptyN r.evs
  | .nil, _, σ => by intro r hr; simp [SrcList.streams] at hr
  | .cons s rest, h, σ => by
    intro r hr
    simp only [SrcList.streams, List.mem_cons] at hr
    rcases hr with rfl | hr
    · exact Src.stream_wd cons c s h.1 σ
    · exact SrcList.streams_wd cons c rest h.2 _ r hr
end

/-- the per-byte resolved attribution of a source's stream (normal mode) -/
def Src.attr (s : Src) (c : Bool) (σ : Store) : List (Option RLoc) := attrN emptyS emptyN (s.stream ⟨c, false⟩ σ).1.evs

/-- **ConcatSource, tree level**: what a `ConcatSource` attributes is the concatenation of what its children
attribute (each child streamed in order, the store threaded as the implementation does). -/
theorem Src.attr_concat (cons : Text → Option Text) (c : Bool) (cs : SrcList) (h : SrcList.WD cons c cs) (σ : Store) :
    (Src.concat cs).attr c σ = ((cs.streams ⟨c, false⟩ σ).1.map fun r => attrN emptyS emptyN r.evs).flatten := by
  unfold Src.attr
  cases cs with
  | nil => simp only [Src.stream, SrcList.streams]; exact concatStream_attrN cons [] (by simp)
  | cons s rest =>
    cases hr : rest with
    | nil => simp [Src.stream, SrcList.streams]
    | cons s2 rest2 =>
      simp only [Src.stream]
      rw [hr] at h
      have := concatStream_attrN cons ((s.stream ⟨c, false⟩ σ).1 :: ((SrcList.cons s2 rest2).streams ⟨c, false⟩ (s.stream ⟨c, false⟩ σ).2).1) (by
        intro x hx
        simp only [List.mem_cons] at hx
        rcases hx with rfl | hx
        · exact ⟨Src.stream_wd cons c s h.1 σ, Src.stream_tl s c σ⟩
        · exact ⟨SrcList.streams_wd cons c (.cons s2 rest2) h.2 _ x hx, SrcList.streams_mem_tl _ c _ x hx⟩)
      rw [this]
      simp only [SrcList.streams, List.map_cons]

end Rs
