import RsModel.Model.Conc
/-! # invariants of the shared-state protocol, for every interleaving -/
namespace Rs.Conc

/-- what thread `i` in local state `t` may rely on, given the shared state -/
structure TInv (sh : Shared) (i : Nat) (t : Thread) : Prop where
  ok : t.ok = true
  sorted2 : t.ops.head? = some .sorted → t.pc ≥ 2 → sh.idxSorted = true
  clone1 : t.ops.head? = some .clone → t.pc ≥ 1 → t.sawFlag = true → sh.idxSorted = true
  clone2 : t.ops.head? = some .clone → t.pc ≥ 2 → t.sawFlag = true → t.gotIdx = true
  holder : sh.lock = some i ↔ (t.ops.head? = some .cstream ∧ t.pc ≥ 1)

structure Inv (s : Sys) : Prop where
  flagIdx : s.sh.flag = true → s.sh.idxSorted = true
  lockVacant : s.sh.lock.isSome → s.sh.entry = none
  lockValid : ∀ i, s.sh.lock = some i → i < s.ths.length
  threads : ∀ i (h : i < s.ths.length), TInv s.sh i s.ths[i]

/-- shared cells only move forward -/
structure Mono (a b : Shared) : Prop where
  flag : a.flag = true → b.flag = true
  idx : a.idxSorted = true → b.idxSorted = true
  entry : ∀ v, a.entry = some v → b.entry = some v
  once : a.once = true → b.once = true

theorem stepThread_spec (sh : Shared) (i : Nat) (t : Thread) (sh' : Shared) (t' : Thread)
    (hflag : sh.flag = true → sh.idxSorted = true) (hlv : sh.lock.isSome → sh.entry = none)
    (ht : TInv sh i t) (hs : stepThread sh i t = some (sh', t')) :
    Mono sh sh' ∧ (sh'.flag = true → sh'.idxSorted = true) ∧ (sh'.lock.isSome → sh'.entry = none) ∧ TInv sh' i t'
    ∧ (sh'.lock = sh.lock ∨ (sh.lock = none ∧ sh'.lock = some i) ∨ (sh.lock = some i ∧ sh'.lock = none)) := by
  obtain ⟨hok, hs2, hc1, hc2, hh⟩ := ht
  unfold stepThread at hs
  cases hops : t.ops with
  | nil => simp [hops] at hs
  | cons op rest =>
    simp only [hops] at hs hs2 hc1 hc2 hh
    cases op with
    | sorted =>
      simp only [List.head?_cons, Option.some.injEq, forall_const, reduceCtorEq, false_and, iff_false, false_implies] at hs2 hc1 hc2 hh
      match hpc : t.pc with
      | 0 =>
        simp only [hpc, Option.some.injEq, Prod.mk.injEq] at hs
        obtain ⟨rfl, rfl⟩ := hs
        refine ⟨⟨id, id, fun _ => id, id⟩, hflag, hlv, ⟨hok, ?_, by simp [hops], by simp [hops], by simpa [hops] using hh⟩, Or.inl rfl⟩
        intro _ hge
        simp only at hge
        by_cases hf : sh.flag = true
        · exact hflag hf
        · simp [hf] at hge
      | 1 =>
        simp only [hpc, Option.some.injEq, Prod.mk.injEq] at hs
        obtain ⟨rfl, rfl⟩ := hs
        exact ⟨⟨id, fun _ => rfl, fun _ => id, id⟩, fun _ => rfl, hlv, ⟨hok, fun _ _ => rfl, by simp [hops], by simp [hops], by simpa [hops] using hh⟩, Or.inl rfl⟩
      | 2 =>
        simp only [hpc, Option.some.injEq, Prod.mk.injEq] at hs
        obtain ⟨rfl, rfl⟩ := hs
        have := hs2 (by omega)
        exact ⟨⟨fun _ => rfl, id, fun _ => id, id⟩, fun _ => this, hlv, ⟨hok, fun _ _ => this, by simp [hops], by simp [hops], by simpa [hops] using hh⟩, Or.inl rfl⟩
      | n + 3 =>
        simp only [hpc, Option.some.injEq, Prod.mk.injEq] at hs
        obtain ⟨rfl, rfl⟩ := hs
        have := hs2 (by omega)
        refine ⟨⟨id, id, fun _ => id, id⟩, hflag, hlv, ?_, Or.inl rfl⟩
        refine ⟨by simp [Thread.finish, hok, this], ?_, ?_, ?_, ?_⟩
        · intro _ h; simp [Thread.finish] at h
        · intro _ h; simp [Thread.finish] at h
        · intro _ h; simp [Thread.finish] at h
        · simp only [Thread.finish]; constructor
          · intro h; exact absurd h hh
          · intro h; simp at h
    | clone =>
      simp only [List.head?_cons, Option.some.injEq, forall_const, reduceCtorEq, false_and, iff_false, false_implies] at hs2 hc1 hc2 hh
      match hpc : t.pc with
      | 0 =>
        simp only [hpc, Option.some.injEq, Prod.mk.injEq] at hs
        obtain ⟨rfl, rfl⟩ := hs
        exact ⟨⟨id, id, fun _ => id, id⟩, hflag, hlv, ⟨hok, by simp [hops], fun _ _ h => hflag h, by simp [hops], by simpa [hops] using hh⟩, Or.inl rfl⟩
      | 1 =>
        simp only [hpc, Option.some.injEq, Prod.mk.injEq] at hs
        obtain ⟨rfl, rfl⟩ := hs
        have := hc1 (by omega)
        exact ⟨⟨id, id, fun _ => id, id⟩, hflag, hlv, ⟨hok, by simp [hops], fun _ _ h => this h, fun _ _ h => this h, by simpa [hops] using hh⟩, Or.inl rfl⟩
      | n + 2 =>
        simp only [hpc, Option.some.injEq, Prod.mk.injEq] at hs
        obtain ⟨rfl, rfl⟩ := hs
        have := hc2 (by omega)
        refine ⟨⟨id, id, fun _ => id, id⟩, hflag, hlv, ?_, Or.inl rfl⟩
        refine ⟨?_, ?_, ?_, ?_, ?_⟩
        · simp only [Thread.finish, hok, Bool.true_and]
          cases hsf : t.sawFlag <;> simp [hsf] at this ⊢; exact this
        · intro _ h; simp [Thread.finish] at h
        · intro _ h; simp [Thread.finish] at h
        · intro _ h; simp [Thread.finish] at h
        · simp only [Thread.finish]; constructor
          · intro h; exact absurd h hh
          · intro h; simp at h
    | cmap =>
      simp only [List.head?_cons, Option.some.injEq, forall_const, reduceCtorEq, false_and, iff_false, false_implies] at hs2 hc1 hc2 hh
      by_cases hl : sh.lock.isSome ∧ sh.lock ≠ some i
      · simp [hl] at hs
      · simp only [hl, if_false] at hs
        have hnone : sh.lock = none := by
          cases hlk : sh.lock with
          | none => rfl
          | some j => simp [hlk] at hl; exact absurd (hl ▸ hlk) hh
        match hpc : t.pc with
        | 0 =>
          simp only [hpc] at hs
          cases he : sh.entry with
          | some v =>
            simp only [he, Option.some.injEq, Prod.mk.injEq] at hs
            obtain ⟨rfl, rfl⟩ := hs
            refine ⟨⟨id, id, fun _ => id, id⟩, hflag, hlv, ?_, Or.inl rfl⟩
            refine ⟨by simp [Thread.finish, hok], ?_, ?_, ?_, ?_⟩ <;> try (intro _ h; simp [Thread.finish] at h)
            simp only [Thread.finish]; constructor
            · intro h; exact absurd h hh
            · intro h; simp at h
          | none =>
            simp only [he, Option.some.injEq, Prod.mk.injEq] at hs
            obtain ⟨rfl, rfl⟩ := hs
            exact ⟨⟨id, id, fun _ => id, id⟩, hflag, hlv, ⟨hok, by simp [hops], by simp [hops], by simp [hops], by simpa [hops] using hh⟩, Or.inl rfl⟩
        | 1 =>
          simp only [hpc, Option.some.injEq, Prod.mk.injEq] at hs
          obtain ⟨rfl, rfl⟩ := hs
          exact ⟨⟨id, id, fun _ => id, id⟩, hflag, hlv, ⟨hok, by simp [hops], by simp [hops], by simp [hops], by simpa [hops] using hh⟩, Or.inl rfl⟩
        | n + 2 =>
          simp only [hpc, Option.some.injEq, Prod.mk.injEq] at hs
          obtain ⟨rfl, rfl⟩ := hs
          refine ⟨⟨id, id, ?_, id⟩, hflag, by simp [hnone], ?_, Or.inl rfl⟩
          · intro v hv; simp [hv]
          · refine ⟨by simp [Thread.finish, hok], ?_, ?_, ?_, ?_⟩ <;> try (intro _ h; simp [Thread.finish] at h)
            simp only [Thread.finish]; constructor
            · intro h; exact absurd h hh
            · intro h; simp at h
    | cstream =>
      simp only [List.head?_cons, Option.some.injEq, forall_const, reduceCtorEq, false_and, iff_false, false_implies, true_and] at hs2 hc1 hc2 hh
      by_cases hl : sh.lock.isSome ∧ sh.lock ≠ some i
      · simp [hl] at hs
      · simp only [hl, if_false] at hs
        match hpc : t.pc with
        | 0 =>
          have hnone : sh.lock = none := by
            cases hlk : sh.lock with
            | none => rfl
            | some j =>
              simp [hlk] at hl
              have := hh.mp (hl ▸ hlk); omega
          simp only [hpc] at hs
          cases he : sh.entry with
          | some v =>
            simp only [he, Option.some.injEq, Prod.mk.injEq] at hs
            obtain ⟨rfl, rfl⟩ := hs
            refine ⟨⟨id, id, fun _ => id, id⟩, hflag, hlv, ?_, Or.inl rfl⟩
            refine ⟨by simp [Thread.finish, hok], ?_, ?_, ?_, ?_⟩ <;> try (intro _ h; simp [Thread.finish] at h)
            simp only [Thread.finish, hnone]; constructor
            · intro h; simp at h
            · intro h; simp at h
          | none =>
            simp only [he, Option.some.injEq, Prod.mk.injEq] at hs
            obtain ⟨rfl, rfl⟩ := hs
            refine ⟨⟨id, id, fun v hv => by simp [he] at hv, id⟩, hflag, fun _ => rfl, ⟨hok, by simp [hops], by simp [hops], by simp [hops], by simp [hops]⟩, Or.inr (Or.inl ⟨hnone, rfl⟩)⟩
        | 1 =>
          have hmine : sh.lock = some i := hh.mpr (by omega)
          simp only [hpc, Option.some.injEq, Prod.mk.injEq] at hs
          obtain ⟨rfl, rfl⟩ := hs
          exact ⟨⟨id, id, fun _ => id, id⟩, hflag, hlv, ⟨hok, by simp [hops], by simp [hops], by simp [hops], by simp [hops, hmine]⟩, Or.inl rfl⟩
        | n + 2 =>
          have hmine : sh.lock = some i := hh.mpr (by omega)
          have hvac := hlv (by simp [hmine])
          simp only [hpc, Option.some.injEq, Prod.mk.injEq] at hs
          obtain ⟨rfl, rfl⟩ := hs
          refine ⟨⟨id, id, ?_, id⟩, hflag, by simp, ?_, Or.inr (Or.inr ⟨hmine, rfl⟩)⟩
          · intro v hv; simp [hvac] at hv
          · refine ⟨by simp [Thread.finish, hok], ?_, ?_, ?_, ?_⟩ <;> try (intro _ h; simp [Thread.finish] at h)
            simp only [Thread.finish]; constructor
            · intro h; simp at h
            · intro h; simp at h
    | once =>
      simp only [List.head?_cons, Option.some.injEq, forall_const, reduceCtorEq, false_and, iff_false, false_implies] at hs2 hc1 hc2 hh
      match hpc : t.pc with
      | 0 =>
        simp only [hpc] at hs
        by_cases ho : sh.once = true
        · simp only [ho, if_true, Option.some.injEq, Prod.mk.injEq] at hs
          obtain ⟨rfl, rfl⟩ := hs
          refine ⟨⟨id, id, fun _ => id, id⟩, hflag, hlv, ?_, Or.inl rfl⟩
          refine ⟨by simp [Thread.finish, hok], ?_, ?_, ?_, ?_⟩ <;> try (intro _ h; simp [Thread.finish] at h)
          simp only [Thread.finish]; constructor
          · intro h; exact absurd h hh
          · intro h; simp at h
        · simp only [ho, Bool.false_eq_true, if_false, Option.some.injEq, Prod.mk.injEq] at hs
          obtain ⟨rfl, rfl⟩ := hs
          exact ⟨⟨id, id, fun _ => id, id⟩, hflag, hlv, ⟨hok, by simp [hops], by simp [hops], by simp [hops], by simpa [hops] using hh⟩, Or.inl rfl⟩
      | n + 1 =>
        simp only [hpc, Option.some.injEq, Prod.mk.injEq] at hs
        obtain ⟨rfl, rfl⟩ := hs
        refine ⟨⟨id, id, fun _ => id, fun _ => rfl⟩, hflag, hlv, ?_, Or.inl rfl⟩
        refine ⟨by simp [Thread.finish, hok], ?_, ?_, ?_, ?_⟩ <;> try (intro _ h; simp [Thread.finish] at h)
        simp only [Thread.finish]; constructor
        · intro h; exact absurd h hh
        · intro h; simp at h

end Rs.Conc

namespace Rs.Conc

/-- facts of *other* threads survive a step of thread `i` -/
theorem tinv_other (sh sh' : Shared) (i j : Nat) (hne : j ≠ i) (t : Thread) (hm : Mono sh sh')
    (hl : sh'.lock = sh.lock ∨ (sh.lock = none ∧ sh'.lock = some i) ∨ (sh.lock = some i ∧ sh'.lock = none))
    (h : TInv sh j t) : TInv sh' j t := by
  obtain ⟨hok, hs2, hc1, hc2, hh⟩ := h
  refine ⟨hok, fun a b => hm.idx (hs2 a b), fun a b c => hm.idx (hc1 a b c), hc2, ?_⟩
  rcases hl with hl | ⟨h1, h2⟩ | ⟨h1, h2⟩
  · rw [hl]; exact hh
  · rw [h2]; constructor
    · intro h; injection h with h; exact absurd h.symm hne
    · intro h; have := hh.mpr h; rw [h1] at this; cases this
  · rw [h2]; constructor
    · intro h; cases h
    · intro h; have := hh.mpr h; rw [h1] at this; injection this with this; exact absurd this.symm hne

theorem inv_step (s s' : Sys) (i : Nat) (h : Inv s) (hs : step s i = some s') : Inv s' := by
  unfold step at hs
  cases hti : s.ths[i]? with
  | none => simp [hti] at hs
  | some t =>
    simp only [hti, Option.map_eq_some_iff] at hs
    obtain ⟨⟨sh', t'⟩, hst, rfl⟩ := hs
    have hi : i < s.ths.length := by
      rcases Nat.lt_or_ge i s.ths.length with h | h
      · exact h
      · rw [List.getElem?_eq_none h] at hti; cases hti
    have hget : s.ths[i] = t := by rw [List.getElem?_eq_getElem hi] at hti; injection hti
    obtain ⟨hm, hf, hlv, hti', hlk⟩ := stepThread_spec s.sh i t sh' t' h.flagIdx h.lockVacant (hget ▸ h.threads i hi) hst
    refine ⟨hf, hlv, ?_, ?_⟩
    · intro j hj
      simp only [List.length_set]
      rcases hlk with hl | ⟨_, h2⟩ | ⟨_, h2⟩
      · exact h.lockValid j (hl ▸ hj)
      · rw [h2] at hj; injection hj with hj; subst hj; exact hi
      · rw [h2] at hj; cases hj
    · intro j hj
      simp only [List.length_set] at hj
      by_cases hji : j = i
      · subst hji; simp only [List.getElem_set_self]; exact hti'
      · simp only [List.getElem_set_ne (Ne.symm hji)]
        exact tinv_other s.sh sh' i j hji _ hm hlk (h.threads j hj)

theorem inv_run (sched : List Nat) : ∀ s : Sys, Inv s → Inv (run s sched) := by
  induction sched with
  | nil => intro s h; exact h
  | cons i is ih =>
    intro s h
    simp only [run]
    cases hs : step s i with
    | none => simpa using ih s h
    | some s' => simpa using ih s' (inv_step s s' i h hs)

theorem inv_init (progs : List (List Op)) : Inv (initSys progs) := by
  refine ⟨by simp [initSys], by simp [initSys], by simp [initSys], ?_⟩
  intro i hi
  simp only [initSys, List.getElem_map]
  exact ⟨rfl, by intro _ h; simp at h, by intro _ h; simp at h, by intro _ h; simp at h, by simp⟩

end Rs.Conc
