import RsModel.Lemmas.TrapsDomain
import RsModel.Lemmas.TrapsConcat
import RsModel.Lemmas.EqViews
import RsModel.Lemmas.ModeTree2
import RsModel.Lemmas.TrapsOrig
/-!
# No trap in `source()` and in the checked parts of `stream_chunks`, for whole trees
-/
namespace Rs

/-! ## `source()` -/
mutual
/-- the documented domain of C17 for `source()`: every replacement position is on a char boundary of the text it edits or beyond
its end, and that text is below 4 GiB -/
def Src.ReplDom : Src → Prop
  | .concat cs => cs.ReplDoms
  | .replace inner rs => inner.ReplDom ∧ inner.src.length < 2 ^ 32 ∧ ∀ r ∈ rs, Chk.PosOKB inner.src r.start ∧ Chk.PosOKB inner.src r.stop
  | .cached _ inner => inner.ReplDom
  | _ => True
def SrcList.ReplDoms : SrcList → Prop
  | .nil => True
  | .cons s r => s.ReplDom ∧ r.ReplDoms
end

mutual
theorem Src.srcC_eq : ∀ (s : Src), s.ReplDom → s.srcC = some s.src
  | .raw .., _ | .rawStr .., _ | .rawBuf .., _ | .orig .., _ | .sms .., _ => rfl
  | .concat cs, h => by simp only [Src.ReplDom] at h; simp only [Src.srcC, Src.src]; exact SrcList.srcsC_eq cs h
  | .replace inner rs, h => by
    simp only [Src.ReplDom] at h
    simp only [Src.srcC, Src.src]
    rw [Src.srcC_eq inner h.1]
    exact Chk.replaceSourceC_eq inner.src h.2.1 rs h.2.2
  | .cached _ inner, h => by simp only [Src.ReplDom] at h; simp only [Src.srcC, Src.src]; exact Src.srcC_eq inner h
theorem SrcList.srcsC_eq : ∀ (l : SrcList), l.ReplDoms → l.srcsC = some l.srcs
  | .nil, _ => rfl
  | .cons s r, h => by
    simp only [SrcList.ReplDoms] at h
    simp only [SrcList.srcsC, SrcList.srcs]
    rw [Src.srcC_eq s h.1, SrcList.srcsC_eq r h.2]
end

/-! ## `stream_chunks` -/
mutual
/-- texts of the raw and map-driven leaves below 4 GiB − 2, `mappings` strings below 4 GiB -/
def Src.SizeOK : Src → Prop
  | .raw _ _ lossy => lossy.length + 2 < 2 ^ 32
  | .rawStr t => t.length + 2 < 2 ^ 32
  | .rawBuf _ lossy => lossy.length + 2 < 2 ^ 32
  | .orig t _ => t.length + 1 < 2 ^ 32
  | .sms t _ map _ _ _ => t.length + 2 < 2 ^ 32 ∧ map.mappings.length + 1 < 2 ^ 32
  | .concat cs => cs.SizesOK
  | .replace inner _ => inner.SizeOK
  | .cached _ inner => inner.SizeOK
def SrcList.SizesOK : SrcList → Prop
  | .nil => True
  | .cons s r => s.SizeOK ∧ r.SizesOK
end

mutual
/-- no ConcatSource node of the tree overflows or saturates: at each one the checked stream (every `u32` addition of the
bookkeeping as a partial operation, the column sum saturating: fix F16) succeeds and is the model's unbounded stream
(`Src.noSat_normal` discharges this for trees honouring C02 below 2 GiB) -/
def Src.NoSat (o : Opts) : Src → Prop
  | .concat cs => cs.NoSats o ∧ Chk.concatStreamC o.final (cs.streams o []).1 = some (concatStream o.final (cs.streams o []).1)
      ∧ Chk.concatStreamS o.final (cs.streams o []).1 = concatStream o.final (cs.streams o []).1
  | .replace inner _ => inner.NoSat ⟨o.columns, false⟩
  | .cached _ inner => inner.NoSat o
  | _ => True
def SrcList.NoSats (o : Opts) : SrcList → Prop
  | .nil => True
  | .cons s r => s.NoSat o ∧ r.NoSats o
end

mutual
theorem Src.streamC_eq (ovf : Bool) : ∀ (s : Src) (o : Opts) (σ : Store), s.NoCached → s.SizeOK → s.NoSat o → s.streamC ovf o σ = some (s.stream o σ)
  | .raw _ _ lossy, o, σ, _, h, _ => by
    simp only [Src.SizeOK] at h
    simp only [Src.streamC, Src.stream, Chk.streamRawC_total lossy o (by omega)]; rfl
  | .rawStr t, o, σ, _, h, _ => by
    simp only [Src.SizeOK] at h
    simp only [Src.streamC, Src.stream, Chk.streamRawC_total t o (by omega)]; rfl
  | .rawBuf _ lossy, o, σ, _, h, _ => by
    simp only [Src.SizeOK] at h
    simp only [Src.streamC, Src.stream, Chk.streamRawC_total lossy o (by omega)]; rfl
  | .orig t name, o, σ, _, h, _ => by
    simp only [Src.SizeOK] at h
    simp only [Src.streamC, Src.stream, Chk.streamOriginalC_total t name o h]; rfl
  | .sms t name map origSrc inner remove, o, σ, _, h, _ => by
    simp only [Src.SizeOK] at h
    simp only [Src.streamC, Src.stream]
    cases inner with
    | some im => rfl
    | none => simp only [Chk.streamSMC_total t map o h.1 h.2]; rfl
  | .concat .nil, o, σ, _, _, _ => by cases ovf <;> rfl
  | .concat (.cons s rest), o, σ, hn, h, hs => by
    simp only [Src.NoCached, SrcList.NoCachedL] at hn
    simp only [Src.SizeOK, SrcList.SizesOK] at h
    simp only [Src.NoSat, SrcList.NoSats] at hs
    cases hr : rest with
    | nil => simp only [Src.streamC, Src.stream]; exact Src.streamC_eq ovf s o σ hn.1 h.1 hs.1.1
    | cons s2 rest2 =>
      simp only [Src.streamC, Src.stream]
      rw [Src.streamC_eq ovf s o σ hn.1 h.1 hs.1.1]
      simp only []
      rw [SrcList.streamsC_eq ovf (.cons s2 rest2) o _ (hr ▸ hn.2) (hr ▸ h.2) (hr ▸ hs.1.2)]
      simp only []
      -- the children's results do not depend on the store (no CachedSource), so the hypothesis about `[]` applies
      have e1 := (Src.stream_nc s o σ hn.1).2
      have e2 := (Src.stream_nc s o σ hn.1).1
      have e3 := (SrcList.streams_nc (.cons s2 rest2) o (s.stream o σ).2 (hr ▸ hn.2)).2
      have e4 := (Src.stream_nc s o [] hn.1).1
      have e5 := (SrcList.streams_nc (.cons s2 rest2) o (s.stream o []).2 (hr ▸ hn.2)).2
      have hsat := hs.2
      rw [hr] at hsat
      simp only [SrcList.streams] at hsat e3 e5 ⊢
      rw [e1, e3]
      rw [e5] at hsat
      cases ovf
      · simp only [Bool.false_eq_true, if_false]; rw [hsat.2]; rfl
      · simp only [if_true]; rw [hsat.1]; rfl
  | .replace inner rs, o, σ, hn, h, hs => by
    simp only [Src.NoCached] at hn
    simp only [Src.SizeOK] at h
    simp only [Src.NoSat] at hs
    simp only [Src.streamC, Src.stream]
    rw [Src.streamC_eq ovf inner ⟨o.columns, false⟩ σ hn h hs]
  | .cached _ _, _, _, hn, _, _ => by simp [Src.NoCached] at hn
theorem SrcList.streamsC_eq (ovf : Bool) : ∀ (l : SrcList) (o : Opts) (σ : Store), l.NoCachedL → l.SizesOK → l.NoSats o → l.streamsC ovf o σ = some (l.streams o σ)
  | .nil, o, σ, _, _, _ => rfl
  | .cons s rest, o, σ, hn, h, hs => by
    simp only [SrcList.NoCachedL] at hn
    simp only [SrcList.SizesOK] at h
    simp only [SrcList.NoSats] at hs
    simp only [SrcList.streamsC, SrcList.streams]
    rw [Src.streamC_eq ovf s o σ hn.1 h.1 hs.1]
    simp only []
    rw [SrcList.streamsC_eq ovf rest o _ hn.2 h.2 hs.2]
end


/-! ## trees honouring C02 never saturate -/

mutual
/-- every ConcatSource node's text is below 2 GiB -/
def Src.HalfOK : Src → Prop
  | .concat cs => cs.HalfOKs ∧ 2 * cs.srcs.length + 2 < 2 ^ 32
  | .replace inner _ => inner.HalfOK
  | .cached _ inner => inner.HalfOK
  | _ => True
def SrcList.HalfOKs : SrcList → Prop
  | .nil => True
  | .cons s r => s.HalfOK ∧ r.HalfOKs
end

theorem Chk.sumText_eq : ∀ (rs : List SResult), Chk.sumText rs = ((rs.map fun r => evsText r.evs).flatten).length := by
  intro rs
  induction rs with
  | nil => rfl
  | cons r rs ih => simp only [Chk.sumText, List.map_cons, List.flatten_cons, List.length_append, ih]

mutual
/-- **normal mode, trees in the domain of C02** (no CachedSource, ASCII map-driven leaves with maps inside their text, each
ConcatSource below 2 GiB): no ConcatSource node saturates, so the repaired crate and the model stream alike -/
theorem Src.noSat_normal : ∀ (s : Src) (c : Bool), s.NoCached → s.WF → s.PosHyp c → s.HalfOK → s.NoSat ⟨c, false⟩
  | .raw .., _, _, _, _, _ | .rawStr .., _, _, _, _, _ | .rawBuf .., _, _, _, _, _ | .orig .., _, _, _, _, _ | .sms .., _, _, _, _, _ => trivial
  | .concat cs, c, hn, hw, hp, hh => by
    simp only [Src.NoCached] at hn
    simp only [Src.WF] at hw
    simp only [Src.PosHyp] at hp
    simp only [Src.HalfOK] at hh
    simp only [Src.NoSat]
    refine ⟨SrcList.noSats_normal cs c hn hw hp hh.1, ?_⟩
    have hnodes := SrcList.nc_nodesL cs hn
    have hpos := SrcList.streams_posOK cs c [] hw hp (by simp [SrcList.idsL, hnodes]) (fun p hp => by rw [hnodes] at hp; cases hp)
    have htl := SrcList.streams_tl cs c []
    have hlen : 2 * Chk.sumText (cs.streams ⟨c, false⟩ []).1 + 2 < 2 ^ 32 := by
      rw [Chk.sumText_eq, SrcList.streams_text cs c [] hw]; exact hh.2
    exact ⟨Chk.concatStreamC_eq_of_posOK false _ (fun r hr => ⟨hpos r hr, htl r hr⟩) hlen,
      Chk.concatStreamS_eq_of_posOK false _ (fun r hr => ⟨hpos r hr, htl r hr⟩) (by omega)⟩
  | .replace inner rs, c, hn, hw, hp, hh => by
    simp only [Src.NoCached] at hn
    simp only [Src.WF] at hw
    simp only [Src.PosHyp] at hp
    simp only [Src.HalfOK] at hh
    simp only [Src.NoSat]
    exact Src.noSat_normal inner c hn hw.1 hp.1 hh
  | .cached _ _, _, hn, _, _, _ => by simp [Src.NoCached] at hn
theorem SrcList.noSats_normal : ∀ (l : SrcList) (c : Bool), l.NoCachedL → l.WFs → l.PosHyps c → l.HalfOKs → l.NoSats ⟨c, false⟩
  | .nil, _, _, _, _, _ => trivial
  | .cons s r, c, hn, hw, hp, hh => by
    simp only [SrcList.NoCachedL] at hn
    simp only [SrcList.WFs] at hw
    simp only [SrcList.PosHyps] at hp
    simp only [SrcList.HalfOKs] at hh
    exact ⟨Src.noSat_normal s c hn.1 hw.1 hp.1 hh.1, SrcList.noSats_normal r c hn.2 hw.2 hp.2 hh.2⟩
end

/-- a CachedSource answering from its cache replays the stored map through the same splitters: no trap either, whatever map an
earlier call stored (its `mappings` string below 4 GiB) -/
theorem Src.cached_replayC_eq (ovf : Bool) (id : Nat) (inner : Src) (o : Opts) (σ : Store) (x : Option SMap) (hx : σ.get? (id, o) = some x)
    (hlen : inner.src.length + 2 < 2 ^ 32) (hm : ∀ m, x = some m → m.mappings.length + 1 < 2 ^ 32) :
    (Src.cached id inner).streamC ovf o σ = some ((Src.cached id inner).stream o σ) := by
  simp only [Src.streamC, Src.stream, hx]
  cases x with
  | none => simp only [Chk.streamRawC_total inner.src o (by omega)]; rfl
  | some m => simp only [Chk.streamSMC_total inner.src m o hlen (hm m rfl)]; rfl

end Rs
