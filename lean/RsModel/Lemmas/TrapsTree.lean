import RsModel.Lemmas.TrapsDomain
import RsModel.Lemmas.EqViews
/-!
# No trap in `source()` and in the checked parts of `stream_chunks`, for whole trees
-/
namespace Rs

/-! ## `source()` -/
mutual
/-- the documented domain of C17 for `source()`: every replacement position is on a char boundary of the text it edits or beyond
its end, and that text is below 4 GiB -/
def Src.ReplDom : Src → Prop
  | .concat cs => cs.ReplDoms
  | .replace inner rs => inner.ReplDom ∧ inner.src.length < 2 ^ 32 ∧ ∀ r ∈ rs, Chk.PosOKB inner.src r.start ∧ Chk.PosOKB inner.src r.stop
  | .cached _ inner => inner.ReplDom
  | _ => True
def SrcList.ReplDoms : SrcList → Prop
  | .nil => True
  | .cons s r => s.ReplDom ∧ r.ReplDoms
end

mutual
theorem Src.srcC_eq : ∀ (s : Src), s.ReplDom → s.srcC = some s.src
  | .raw .., _ | .rawStr .., _ | .rawBuf .., _ | .orig .., _ | .sms .., _ => rfl
  | .concat cs, h => by simp only [Src.ReplDom] at h; simp only [Src.srcC, Src.src]; exact SrcList.srcsC_eq cs h
  | .replace inner rs, h => by
    simp only [Src.ReplDom] at h
    simp only [Src.srcC, Src.src]
    rw [Src.srcC_eq inner h.1]
    exact Chk.replaceSourceC_eq inner.src h.2.1 rs h.2.2
  | .cached _ inner, h => by simp only [Src.ReplDom] at h; simp only [Src.srcC, Src.src]; exact Src.srcC_eq inner h
theorem SrcList.srcsC_eq : ∀ (l : SrcList), l.ReplDoms → l.srcsC = some l.srcs
  | .nil, _ => rfl
  | .cons s r, h => by
    simp only [SrcList.ReplDoms] at h
    simp only [SrcList.srcsC, SrcList.srcs]
    rw [Src.srcC_eq s h.1, SrcList.srcsC_eq r h.2]
end

/-! ## `stream_chunks` -/
mutual
/-- texts of the raw and map-driven leaves below 4 GiB − 2, `mappings` strings below 4 GiB -/
def Src.SizeOK : Src → Prop
  | .raw _ _ lossy => lossy.length + 2 < 2 ^ 32
  | .rawStr t => t.length + 2 < 2 ^ 32
  | .rawBuf _ lossy => lossy.length + 2 < 2 ^ 32
  | .orig .. => True
  | .sms t _ map _ _ _ => t.length + 2 < 2 ^ 32 ∧ map.mappings.length + 1 < 2 ^ 32
  | .concat cs => cs.SizesOK
  | .replace inner _ => inner.SizeOK
  | .cached _ inner => inner.SizeOK
def SrcList.SizesOK : SrcList → Prop
  | .nil => True
  | .cons s r => s.SizeOK ∧ r.SizesOK
end

mutual
theorem Src.streamC_eq : ∀ (s : Src) (o : Opts) (σ : Store), s.NoCached → s.SizeOK → s.streamC o σ = some (s.stream o σ)
  | .raw _ _ lossy, o, σ, _, h => by
    simp only [Src.SizeOK] at h
    simp only [Src.streamC, Src.stream, Chk.streamRawC_total lossy o (by omega)]; rfl
  | .rawStr t, o, σ, _, h => by
    simp only [Src.SizeOK] at h
    simp only [Src.streamC, Src.stream, Chk.streamRawC_total t o (by omega)]; rfl
  | .rawBuf _ lossy, o, σ, _, h => by
    simp only [Src.SizeOK] at h
    simp only [Src.streamC, Src.stream, Chk.streamRawC_total lossy o (by omega)]; rfl
  | .orig .., o, σ, _, _ => rfl
  | .sms t name map origSrc inner remove, o, σ, _, h => by
    simp only [Src.SizeOK] at h
    simp only [Src.streamC, Src.stream]
    cases inner with
    | some im => rfl
    | none => simp only [Chk.streamSMC_total t map o h.1 h.2]; rfl
  | .concat .nil, o, σ, _, _ => rfl
  | .concat (.cons s rest), o, σ, hn, h => by
    simp only [Src.NoCached, SrcList.NoCachedL] at hn
    simp only [Src.SizeOK, SrcList.SizesOK] at h
    cases hr : rest with
    | nil => simp only [Src.streamC, Src.stream]; exact Src.streamC_eq s o σ hn.1 h.1
    | cons s2 rest2 =>
      simp only [Src.streamC, Src.stream]
      rw [Src.streamC_eq s o σ hn.1 h.1]
      simp only []
      rw [SrcList.streamsC_eq (.cons s2 rest2) o _ (hr ▸ hn.2) (hr ▸ h.2)]
  | .replace inner rs, o, σ, hn, h => by
    simp only [Src.NoCached] at hn
    simp only [Src.SizeOK] at h
    simp only [Src.streamC, Src.stream]
    rw [Src.streamC_eq inner ⟨o.columns, false⟩ σ hn h]
  | .cached _ _, _, _, hn, _ => by simp [Src.NoCached] at hn
theorem SrcList.streamsC_eq : ∀ (l : SrcList) (o : Opts) (σ : Store), l.NoCachedL → l.SizesOK → l.streamsC o σ = some (l.streams o σ)
  | .nil, o, σ, _, _ => rfl
  | .cons s rest, o, σ, hn, h => by
    simp only [SrcList.NoCachedL] at hn
    simp only [SrcList.SizesOK] at h
    simp only [SrcList.streamsC, SrcList.streams]
    rw [Src.streamC_eq s o σ hn.1 h.1]
    simp only []
    rw [SrcList.streamsC_eq rest o _ hn.2 h.2]
end

/-- a CachedSource answering from its cache replays the stored map through the same splitters: no trap either, whatever map an
earlier call stored (its `mappings` string below 4 GiB) -/
theorem Src.cached_replayC_eq (id : Nat) (inner : Src) (o : Opts) (σ : Store) (x : Option SMap) (hx : σ.get? (id, o) = some x)
    (hlen : inner.src.length + 2 < 2 ^ 32) (hm : ∀ m, x = some m → m.mappings.length + 1 < 2 ^ 32) :
    (Src.cached id inner).streamC o σ = some ((Src.cached id inner).stream o σ) := by
  simp only [Src.streamC, Src.stream, hx]
  cases x with
  | none => simp only [Chk.streamRawC_total inner.src o (by omega)]; rfl
  | some m => simp only [Chk.streamSMC_total inner.src m o hlen (hm m rfl)]; rfl

end Rs
