import RsModel.Lemmas.RopeLines
import RsModel.Lemmas.Lines
/-!
# C02 — reported positions are true positions: vocabulary and the leaf streams

`posOKT pre evs`: every chunk of `evs` that carries text is reported at the position reached after writing `pre` and the
texts of the chunks before it.
-/
namespace Rs

def startPos : Pos := ⟨1, 0⟩

def posOKT : Text → List Ev → Prop
  | _, [] => True
  | pre, .chunk (some t) m :: es => (⟨m.gl, m.gc⟩ : Pos) = adv startPos pre ∧ posOKT (pre ++ t) es
  | pre, _ :: es => posOKT pre es

/-- the whole contract of C02 in normal mode: every chunk at its true position, and the returned info is the end position -/
def PosOK (r : SResult) : Prop := posOKT [] r.evs ∧ r.info = adv startPos (evsText r.evs)

theorem posOKT_append : ∀ (a b : List Ev) (pre : Text), posOKT pre (a ++ b) ↔ posOKT pre a ∧ posOKT (pre ++ evsText a) b := by
  intro a
  induction a with
  | nil => intro b pre; simp [posOKT, evsText]
  | cons e es ih =>
    intro b pre
    cases e with
    | chunk t m =>
      cases t with
      | none => simp only [List.cons_append, posOKT, ih, evsText_cons, Ev.text, List.nil_append]
      | some t =>
        simp only [List.cons_append, posOKT, ih, evsText_cons, Ev.text, List.append_assoc]
        exact and_assoc.symm
    | source i s c => simp only [List.cons_append, posOKT, ih, evsText_cons, Ev.text, List.nil_append]
    | name i n => simp only [List.cons_append, posOKT, ih, evsText_cons, Ev.text, List.nil_append]

/-! ## lines -/

/-- no line break except possibly as the last byte -/
def LineLike (t : Text) : Prop := ∀ i, i + 1 < t.length → t.getD i 0 ≠ NL

theorem adv_noNL : ∀ (t : Text) (p : Pos), (∀ c ∈ t, c ≠ NL) → adv p t = ⟨p.line, p.col + t.length⟩ := by
  intro t
  induction t with
  | nil => intro p _; rfl
  | cons c cs ih =>
    intro p h
    have hc : c ≠ NL := h c (by simp)
    simp only [adv, hc, if_false]
    rw [ih _ (fun x hx => h x (by simp [hx]))]
    simp; omega

theorem adv_line (t : Text) (p : Pos) (h : ∀ c ∈ t, c ≠ NL) : adv p (t ++ [NL]) = ⟨p.line + 1, 0⟩ := by
  rw [adv_append, adv_noNL t p h]; simp [adv]

/-- the pieces `splitLines` yields: each is non-empty, free of line breaks except that every piece but the last ends with one -/
inductive Lines : List Text → Prop where
  | nil : Lines []
  | last (t : Text) : t ≠ [] → (∀ c ∈ t, c ≠ NL) → Lines [t]
  | lastNL (t : Text) : (∀ c ∈ t, c ≠ NL) → Lines [t ++ [NL]]
  | cons (t : Text) (rest : List Text) : (∀ c ∈ t, c ≠ NL) → rest ≠ [] → Lines rest → Lines ((t ++ [NL]) :: rest)

theorem take_idx_noNL : ∀ (t : Text) (i : Nat), t.idxOf? NL = some i → t.take (i + 1) = t.take i ++ [NL] ∧ ∀ c ∈ t.take i, c ≠ NL := by
  intro t
  induction t with
  | nil => intro i h; simp at h
  | cons b bs ih =>
    intro i h
    rw [List.idxOf?_cons] at h
    split at h
    · rename_i hb
      have hbe : b = NL := by simpa using hb
      cases h; simp [hbe]
    · rename_i hb
      have hne : ¬ b = NL := by simpa using hb
      cases hbs : bs.idxOf? NL with
      | none => simp [hbs] at h
      | some j =>
        simp only [hbs, Option.map_some, Option.some.injEq] at h
        subst h
        obtain ⟨a1, a2⟩ := ih j hbs
        refine ⟨by simp [List.take_succ_cons, a1], ?_⟩
        intro c hc
        simp only [List.take_succ_cons, List.mem_cons] at hc
        rcases hc with rfl | hc
        · exact hne
        · exact a2 c hc

theorem splitLines_lines : ∀ (n : Nat) (t : Text), t.length ≤ n → Lines (splitLines t) := by
  intro n
  induction n with
  | zero =>
    intro t h
    have : t = [] := List.eq_nil_of_length_eq_zero (by omega)
    subst this; exact Lines.nil
  | succ n ih =>
    intro t h
    by_cases ht : t = []
    · subst ht; exact Lines.nil
    · cases hk : t.idxOf? NL with
      | none =>
        have := Rope.splitAux_noNL t [] hk
        have hte : t.isEmpty = false := by cases t <;> simp_all
        simp only [List.reverse_nil, List.nil_append, hte, Bool.false_eq_true, if_false] at this
        show Lines (splitLinesAux [] t)
        rw [this]
        exact Lines.last t ht (Rope.idxOf_none_not_mem t hk)
      | some i =>
        have := Rope.splitAux_NL t [] i hk
        simp only [List.reverse_nil, List.nil_append] at this
        show Lines (splitLinesAux [] t)
        rw [this]
        obtain ⟨a1, a2⟩ := take_idx_noNL t i hk
        rw [a1]
        have hil := (Rope.take_succ_endsNL t i hk).1
        have hrec := ih (t.drop (i + 1)) (by simp; omega)
        by_cases hr : t.drop (i + 1) = []
        · rw [hr]
          have : splitLines [] = [] := rfl
          rw [this]
          exact Lines.lastNL _ a2
        · have hne : splitLines (t.drop (i + 1)) ≠ [] := by
            intro e
            have := splitLines_join (t.drop (i + 1))
            rw [e] at this; exact hr this.symm
          exact Lines.cons _ _ a2 hne hrec

theorem lines_of_splitLines (t : Text) : Lines (splitLines t) := splitLines_lines t.length t (Nat.le_refl _)

end Rs

namespace Rs

/-- one chunk per line at column 0 -/
def lineEvs (g : Nat → Option Orig) : Nat → List Text → List Ev
  | _, [] => []
  | l, t :: ts => .chunk (some t) ⟨l, 0, g l⟩ :: lineEvs g (l + 1) ts

theorem rawChunks_eq (l : Nat) (ls : List Text) : rawChunks l ls = lineEvs (fun _ => none) l ls := by
  induction ls generalizing l with
  | nil => rfl
  | cons t ts ih => simp [rawChunks, lineEvs, ih]

theorem origLineChunks_eq (l : Nat) (ls : List Text) : origLineChunks l ls = lineEvs (fun l => some ⟨0, l, 0, none⟩) l ls := by
  induction ls generalizing l with
  | nil => rfl
  | cons t ts ih => simp [origLineChunks, lineEvs, ih]

/-- position after the lines `ls` when the first of them starts line `l` -/
def endAfter (l : Nat) (ls : List Text) : Pos :=
  match ls.getLast? with
  | some last => if endsWithNL last then ⟨l + ls.length, 0⟩ else ⟨l + ls.length - 1, last.length⟩
  | none => ⟨l, 0⟩

theorem endsWithNL_snoc (t : Text) : endsWithNL (t ++ [NL]) = true := by simp [endsWithNL]

theorem endsWithNL_noNL (t : Text) (h : ∀ c ∈ t, c ≠ NL) : endsWithNL t = false := by
  unfold endsWithNL
  cases hl : t.getLast? with
  | none => rfl
  | some c => simpa using h c (List.mem_of_getLast? hl)

theorem lineEvs_pos (g : Nat → Option Orig) (ls : List Text) (h : Lines ls) : ∀ (pre : Text) (l : Nat), adv startPos pre = ⟨l, 0⟩ →
    posOKT pre (lineEvs g l ls) ∧ adv startPos (pre ++ ls.flatten) = endAfter l ls := by
  induction h with
  | nil => intro pre l hp; simp [lineEvs, posOKT, endAfter, hp]
  | last t hne hno =>
    intro pre l hp
    refine ⟨⟨hp.symm, trivial⟩, ?_⟩
    simp only [List.flatten_cons, List.flatten_nil, List.append_nil, endAfter, List.getLast?_singleton, endsWithNL_noNL t hno,
      Bool.false_eq_true, if_false, List.length_singleton]
    rw [adv_append, hp, adv_noNL t _ hno]; simp
  | lastNL t hno =>
    intro pre l hp
    refine ⟨⟨hp.symm, trivial⟩, ?_⟩
    simp only [List.flatten_cons, List.flatten_nil, List.append_nil, endAfter, List.getLast?_singleton, endsWithNL_snoc, if_true,
      List.length_singleton]
    rw [adv_append, hp, adv_line t _ hno]
  | cons t rest hno hne hr ih =>
    intro pre l hp
    have hnext : adv startPos (pre ++ (t ++ [NL])) = ⟨l + 1, 0⟩ := by rw [adv_append, hp, adv_line t _ hno]
    obtain ⟨i1, i2⟩ := ih (pre ++ (t ++ [NL])) (l + 1) hnext
    refine ⟨⟨hp.symm, i1⟩, ?_⟩
    simp only [List.flatten_cons]
    rw [← List.append_assoc, i2]
    unfold endAfter
    cases rest with
    | nil => exact absurd rfl hne
    | cons r rs =>
      rw [List.getLast?_cons_cons]
      cases hl : (r :: rs).getLast? with
      | none => simp at hl
      | some last =>
        simp only [List.length_cons]
        by_cases hb : endsWithNL last = true
        · simp only [hb, if_true, Pos.mk.injEq, and_true]; omega
        · simp only [hb, Bool.false_eq_true, if_false, Pos.mk.injEq, and_true]; omega

theorem endAfter_one (ls : List Text) : endAfter 1 ls = lineLoopInfo ls := by
  unfold endAfter lineLoopInfo
  cases ls.getLast? with
  | none => rfl
  | some last =>
    by_cases hb : endsWithNL last = true
    · simp only [hb, if_true, Pos.mk.injEq, and_true]; omega
    · simp only [hb, Bool.false_eq_true, if_false, Pos.mk.injEq, and_true]; omega

/-- **raw leaves** (RawSource / RawStringSource / RawBufferSource): every line chunk at its true position, end info exact -/
theorem streamRaw_posOK (t : Text) (c : Bool) : PosOK (streamRaw t ⟨c, false⟩) := by
  have h := lineEvs_pos (fun _ => none) (splitLines t) (lines_of_splitLines t) [] 1 rfl
  simp only [streamRaw, Bool.false_eq_true, if_false, PosOK, rawChunks_eq]
  refine ⟨h.1, ?_⟩
  rw [← rawChunks_eq, rawChunks_text, ← endAfter_one]
  simpa using h.2.symm

end Rs

namespace Rs

/-! ## OriginalSource -/

/-- a token: free of line breaks except possibly as its last byte -/
def TokOK (t : Text) : Prop := ∃ s, (∀ x ∈ s, x ≠ NL) ∧ (t = s ∨ t = s ++ [NL])

theorem tail_ne_nl : ∀ c : UInt8, isTail c = true → c ≠ NL := by
  apply forall_u8; decide +kernel

theorem nonstop_ne_nl : ∀ c : UInt8, isStop c = false → c ≠ NL := by
  apply forall_u8; decide +kernel

theorem stop_nontail_nl (c : UInt8) (h1 : isStop c = true) (h2 : isTail c = false) : c = NL := by
  rcases stop_tail_or_nl c h1 with h | h
  · simp [isTail] at h2; simp [h2] at h
  · exact h

theorem tokAux_ok : ∀ (cs : Text) (b : Bool) (acc : Text), (∀ x ∈ acc, x ≠ NL) → ∀ t ∈ tokAux b acc cs, TokOK t := by
  intro cs
  induction cs with
  | nil =>
    intro b acc ha t ht
    have hgen : t ∈ (if acc.isEmpty then [] else [acc.reverse]) → TokOK t := by
      intro h
      split at h
      · simp at h
      · simp only [List.mem_singleton] at h; subst h; exact ⟨acc.reverse, by simpa using ha, Or.inl rfl⟩
    cases b <;> exact hgen (by simpa [tokAux] using ht)
  | cons c cs ih =>
    intro b acc ha t ht
    cases b with
    | false =>
      simp only [tokAux] at ht
      by_cases hs : isStop c = true
      · simp only [hs, Bool.not_true, Bool.false_eq_true, if_false] at ht
        by_cases htl : isTail c = true
        · simp only [htl, if_true] at ht
          exact ih true (c :: acc) (by intro x hx; simp only [List.mem_cons] at hx; rcases hx with rfl | hx; exact tail_ne_nl _ htl; exact ha x hx) t ht
        · simp only [htl, Bool.false_eq_true, if_false, List.mem_cons] at ht
          have hc : c = NL := stop_nontail_nl c hs (by simpa using htl)
          rcases ht with rfl | ht
          · exact ⟨acc.reverse, by simpa using ha, Or.inr (by simp [hc])⟩
          · exact ih false [] (by simp) t ht
      · have hs' : isStop c = false := by simpa using hs
        simp only [hs', Bool.not_false, if_true] at ht
        exact ih false (c :: acc) (by intro x hx; simp only [List.mem_cons] at hx; rcases hx with rfl | hx; exact nonstop_ne_nl _ hs'; exact ha x hx) t ht
    | true =>
      simp only [tokAux] at ht
      by_cases htl : isTail c = true
      · simp only [htl, if_true] at ht
        exact ih true (c :: acc) (by intro x hx; simp only [List.mem_cons] at hx; rcases hx with rfl | hx; exact tail_ne_nl _ htl; exact ha x hx) t ht
      · simp only [htl, Bool.false_eq_true, if_false] at ht
        by_cases hc : c = NL
        · simp only [hc, if_true, List.mem_cons] at ht
          rcases ht with rfl | ht
          · exact ⟨acc.reverse, by simpa using ha, Or.inr (by simp)⟩
          · exact ih false [] (by simp) t ht
        · simp only [hc, if_false, List.mem_cons] at ht
          rcases ht with rfl | ht
          · exact ⟨acc.reverse, by simpa using ha, Or.inl rfl⟩
          · exact ih false [c] (by simp [hc]) t ht

theorem tokens_ok (t : Text) : ∀ x ∈ tokens t, TokOK x := tokAux_ok t false [] (by simp)

theorem origTokChunks_pos : ∀ (toks : List Text), (∀ x ∈ toks, TokOK x) → ∀ (pre : Text) (l c : Nat), adv startPos pre = ⟨l, c⟩ →
    posOKT pre (origTokChunks false l c toks).1 ∧ (origTokChunks false l c toks).2 = adv startPos (pre ++ toks.flatten) := by
  intro toks
  induction toks with
  | nil => intro _ pre l c hp; simp [origTokChunks, posOKT, hp]
  | cons tok toks ih =>
    intro hok pre l c hp
    obtain ⟨s, hs, hcase⟩ := hok tok (by simp)
    have hrest : ∀ x ∈ toks, TokOK x := fun x hx => hok x (by simp [hx])
    simp only [origTokChunks, Bool.false_eq_true, if_false, List.flatten_cons]
    rw [posOKT_append, ← List.append_assoc]
    have hev : ∀ (q : Bool), posOKT pre (if q = true then [Ev.chunk (some tok) ⟨l, c, none⟩] else [Ev.chunk (some tok) ⟨l, c, some ⟨0, l, c, none⟩⟩])
        ∧ evsText (if q = true then [Ev.chunk (some tok) ⟨l, c, none⟩] else [Ev.chunk (some tok) ⟨l, c, some ⟨0, l, c, none⟩⟩]) = tok := by
      intro q; cases q <;> exact ⟨⟨hp.symm, trivial⟩, by simp [evsText, Ev.text]⟩
    obtain ⟨e1, e2⟩ := hev (endsWithNL tok && tok.length == 1)
    rw [e2]
    rcases hcase with rfl | rfl
    · -- no line break: same line, column advanced
      have hnl := endsWithNL_noNL tok hs
      simp only [hnl, Bool.false_eq_true, if_false]
      have hnext : adv startPos (pre ++ tok) = ⟨l, c + tok.length⟩ := by rw [adv_append, hp, adv_noNL tok _ hs]
      obtain ⟨i1, i2⟩ := ih hrest (pre ++ tok) l (c + tok.length) hnext
      exact ⟨⟨(hev _).1, i1⟩, i2⟩
    · simp only [endsWithNL_snoc, if_true]
      have hnext : adv startPos (pre ++ (s ++ [NL])) = ⟨l + 1, 0⟩ := by rw [adv_append, hp, adv_line s _ hs]
      obtain ⟨i1, i2⟩ := ih hrest (pre ++ (s ++ [NL])) (l + 1) 0 hnext
      exact ⟨⟨(hev _).1, i1⟩, i2⟩

/-- **OriginalSource**, both column settings -/
theorem streamOriginal_posOK (t name : Text) (c : Bool) : PosOK (streamOriginal t name ⟨c, false⟩) := by
  cases c with
  | false =>
    have h := lineEvs_pos (fun l => some ⟨0, l, 0, none⟩) (splitLines t) (lines_of_splitLines t) [] 1 rfl
    simp only [streamOriginal, Bool.false_eq_true, if_false, PosOK, origLineChunks_eq, posOKT]
    refine ⟨h.1, ?_⟩
    rw [evsText_cons, ← origLineChunks_eq, origLineChunks_text, ← endAfter_one]
    simpa [Ev.text] using h.2.symm
  | true =>
    obtain ⟨h1, h2⟩ := origTokChunks_pos (tokens t) (tokens_ok t) [] 1 0 rfl
    simp only [streamOriginal, if_true, PosOK, posOKT]
    refine ⟨h1, ?_⟩
    rw [h2, evsText_cons, origTokChunks_text]
    simp [Ev.text]

end Rs
