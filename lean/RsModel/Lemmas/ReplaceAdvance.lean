import RsModel.Lemmas.ReplaceKeeps
import RsModel.Lemmas.PosReplace
/-!
# C06, ReplaceSource: the column is advanced by exactly the preceding text where the recorded content matches

`FM contents a chunk`: the recorded original content, read from the inner chunk's original location `a`, spells out the inner
chunk's text (every piece of it, from the correspondingly advanced column) — `check_original_content` succeeds wherever it is asked.
Then every delivered chunk that is cut from / spliced into that inner chunk at byte offset `p` reports original column `a.col + p`.
-/
namespace Rs

def FM (contents : List (Option Text)) (a : Orig) (chunk : Text) : Prop :=
  ∀ p q, p ≤ q → q ≤ chunk.length → checkContent contents { a with col := a.col + p } (bsub chunk p q) = true

/-- the walker stands at byte offset `chunkPos` of the inner chunk and carries the location advanced by exactly that much -/
structure LAdv (a : Orig) (cs : Nat) (chunk : Text) (st : RSt) (l : LSt) : Prop where
  pos : st.pos = cs + l.chunkPos
  inb : l.chunkPos < chunk.length
  orig : ∃ n, l.orig = some { a with col := a.col + l.chunkPos, name := n }

/-- a delivered chunk reports `a`'s source and line and the column `a.col + p` for an offset `p` inside the inner chunk -/
def AtOffset (a : Orig) (chunk : Text) (mm : Mapping) : Prop :=
  ∃ p, p < chunk.length ∧ ∃ y, mm.orig = some y ∧ y.src = a.src ∧ y.line = a.line ∧ y.col = a.col + p

def AllAt (a : Orig) (chunk : Text) (evs : List Ev) : Prop := ∀ t mm, Ev.chunk t mm ∈ evs → AtOffset a chunk mm

theorem allAt_nil (a : Orig) (chunk : Text) : AllAt a chunk [] := fun t mm h => by simp at h
theorem allAt_append (a : Orig) (chunk : Text) (x y : List Ev) (hx : AllAt a chunk x) (hy : AllAt a chunk y) : AllAt a chunk (x ++ y) := by
  intro t mm h
  rcases List.mem_append.1 h with h | h
  · exact hx t mm h
  · exact hy t mm h

theorem advOrig_fm (contents : List (Option Text)) (a : Orig) (chunk : Text) (hfm : FM contents a chunk) (p q : Nat) (h1 : p ≤ q) (h2 : q ≤ chunk.length)
    (n : Option Nat) (by_ : Nat) :
    advOrig contents (some { a with col := a.col + p, name := n }) (bsub chunk p q) by_ = some { a with col := a.col + p + by_, name := n } := by
  unfold advOrig
  have hc : checkContent contents { a with col := a.col + p, name := n } (bsub chunk p q) = true := by
    have := hfm p q h1 h2
    unfold checkContent at this ⊢
    exact this
  simp only [hc, if_true]

theorem emitContent_at (a : Orig) (chunk : Text) (gc : Nat) (orig : Option Orig) (p : Nat) (hp : p < chunk.length)
    (ho : ∃ n, orig = some { a with col := a.col + p, name := n }) :
    ∀ (cls : List Text) (nameIdx : Option Nat) (st : RSt) (line : Int),
    AllAt a chunk (emitContent gc orig cls nameIdx st line).2.1 ∧ (emitContent gc orig cls nameIdx st line).1.pos = st.pos
    ∧ (emitContent gc orig cls nameIdx st line).1.contents = st.contents := by
  intro cls
  induction cls with
  | nil => intro nameIdx st line; exact ⟨allAt_nil _ _, rfl, rfl⟩
  | cons cl cls ih =>
    intro nameIdx st line
    obtain ⟨n, hn⟩ := ho
    have hev : AtOffset a chunk ⟨u32 line, gcolOf st line gc, orig.map fun o => { o with name := nameIdx }⟩ :=
      ⟨p, hp, { a with col := a.col + p, name := nameIdx }, by rw [hn]; rfl, rfl, rfl, rfl⟩
    simp only [emitContent]
    split
    · obtain ⟨i1, i2, i3⟩ := ih none (if st.colOffLine == line then { st with colOff := st.colOff + cl.length } else { st with colOff := cl.length, colOffLine := line }) line
      refine ⟨?_, by rw [i2]; split <;> rfl, by rw [i3]; split <;> rfl⟩
      intro t mm h
      simp only [List.mem_cons] at h
      rcases h with h | h
      · cases h; exact hev
      · exact i1 t mm h
    · obtain ⟨i1, i2, i3⟩ := ih none { st with lineOff := st.lineOff + 1, colOff := -(gc : Int), colOffLine := line + 1 } (line + 1)
      refine ⟨?_, i2, i3⟩
      intro t mm h
      simp only [List.mem_cons] at h
      rcases h with h | h
      · cases h; exact hev
      · exact i1 t mm h

theorem mapName_at (a : Orig) (chunk : Text) (nim : List Nat) (p : Nat) (hp : p < chunk.length) (orig : Option Orig)
    (ho : ∃ n, orig = some { a with col := a.col + p, name := n }) (gl gc : Nat) : AtOffset a chunk ⟨gl, gc, mapName nim orig⟩ := by
  obtain ⟨n, hn⟩ := ho
  exact ⟨p, hp, { a with col := a.col + p, name := n.bind fun k => nim[k]? }, by rw [hn]; rfl, rfl, rfl, rfl⟩

theorem rIter_adv (a : Orig) (chunk : Text) (gl cs : Nat) (r : Repl) (rs : List Repl) (st : RSt) (l : LSt)
    (hfm : FM st.contents a chunk) (hl : LAdv a cs chunk st l) (hr : r.start < cs + chunk.length) :
    AllAt a chunk (rIter chunk gl (cs + chunk.length) r rs st l).1
    ∧ (match (rIter chunk gl (cs + chunk.length) r rs st l).2 with
       | .done _ => True
       | .cont st' l' => LAdv a cs chunk st' l' ∧ st'.contents = st.contents) := by
  obtain ⟨p1, p2, n0, p3⟩ := hl
  -- rBefore
  have hb : AllAt a chunk (rBefore chunk ((gl : Int) + st.lineOff) r st l).2.2
      ∧ LAdv a cs chunk (rBefore chunk ((gl : Int) + st.lineOff) r st l).1 (rBefore chunk ((gl : Int) + st.lineOff) r st l).2.1
      ∧ (rBefore chunk ((gl : Int) + st.lineOff) r st l).1.contents = st.contents := by
    unfold rBefore
    by_cases hgt : r.start > st.pos
    · simp only [hgt, if_true]
      have hend : l.chunkPos + (r.start - st.pos) < chunk.length := by omega
      refine ⟨?_, ⟨by simp only; omega, hend, ?_⟩, by first | rfl | trivial⟩
      · intro t mm h
        simp only [List.mem_singleton] at h
        cases h
        exact mapName_at a chunk st.nim l.chunkPos p2 l.orig ⟨n0, p3⟩ _ _
      · refine ⟨n0, ?_⟩
        simp only
        rw [p3, advOrig_fm st.contents a chunk hfm l.chunkPos (l.chunkPos + (r.start - st.pos)) (by omega) (Nat.le_of_lt hend),
          bsub_length chunk _ _ (by omega) (Nat.le_of_lt hend)]
        congr 2
        omega
    · simp only [hgt, if_false]
      exact ⟨allAt_nil _ _, ⟨p1, p2, n0, p3⟩, by first | rfl | trivial⟩
  obtain ⟨b1, b2, b3⟩ := hb
  obtain ⟨q1, q2, nb, q3⟩ := b2
  obtain ⟨_, _, _, _, nf5⟩ := rName_facts r (rBefore chunk ((gl : Int) + st.lineOff) r st l).1 (rBefore chunk ((gl : Int) + st.lineOff) r st l).2.1
  obtain ⟨nk1, nsc⟩ := rName_keeps st.contents none r (rBefore chunk ((gl : Int) + st.lineOff) r st l).1 (rBefore chunk ((gl : Int) + st.lineOff) r st l).2.1
  have hname : AllAt a chunk (rName r (rBefore chunk ((gl : Int) + st.lineOff) r st l).1 (rBefore chunk ((gl : Int) + st.lineOff) r st l).2.1).2.1 := by
    intro t mm h
    unfold rName at h
    split at h
    · exact absurd h (globalName_noChunkMem _ _ t mm)
    · simp at h
  obtain ⟨c1, c2, c3⟩ := emitContent_at a chunk (rBefore chunk ((gl : Int) + st.lineOff) r st l).2.1.gc (rBefore chunk ((gl : Int) + st.lineOff) r st l).2.1.orig
    (rBefore chunk ((gl : Int) + st.lineOff) r st l).2.1.chunkPos q2 ⟨nb, q3⟩ (splitLines r.content)
    (rName r (rBefore chunk ((gl : Int) + st.lineOff) r st l).1 (rBefore chunk ((gl : Int) + st.lineOff) r st l).2.1).2.2
    (rName r (rBefore chunk ((gl : Int) + st.lineOff) r st l).1 (rBefore chunk ((gl : Int) + st.lineOff) r st l).2.1).1 ((gl : Int) + st.lineOff)
  have hall := allAt_append _ _ _ _ (allAt_append _ _ _ _ b1 hname) c1
  have hpos4 : (emitContent (rBefore chunk ((gl : Int) + st.lineOff) r st l).2.1.gc (rBefore chunk ((gl : Int) + st.lineOff) r st l).2.1.orig (splitLines r.content)
      (rName r (rBefore chunk ((gl : Int) + st.lineOff) r st l).1 (rBefore chunk ((gl : Int) + st.lineOff) r st l).2.1).2.2
      (rName r (rBefore chunk ((gl : Int) + st.lineOff) r st l).1 (rBefore chunk ((gl : Int) + st.lineOff) r st l).2.1).1 ((gl : Int) + st.lineOff)).1.pos
      = cs + (rBefore chunk ((gl : Int) + st.lineOff) r st l).2.1.chunkPos := by rw [c2, nf5, q1]
  have hcont4 : (emitContent (rBefore chunk ((gl : Int) + st.lineOff) r st l).2.1.gc (rBefore chunk ((gl : Int) + st.lineOff) r st l).2.1.orig (splitLines r.content)
      (rName r (rBefore chunk ((gl : Int) + st.lineOff) r st l).1 (rBefore chunk ((gl : Int) + st.lineOff) r st l).2.1).2.2
      (rName r (rBefore chunk ((gl : Int) + st.lineOff) r st l).1 (rBefore chunk ((gl : Int) + st.lineOff) r st l).2.1).1 ((gl : Int) + st.lineOff)).1.contents
      = st.contents := by rw [c3, nsc.1, b3]
  simp only [rIter]
  generalize hbe : rBefore chunk ((gl : Int) + st.lineOff) r st l = b at *
  generalize hne : rName r b.1 b.2.1 = n at *
  generalize hce : emitContent b.2.1.gc b.2.1.orig (splitLines r.content) n.2.2 n.1 ((gl : Int) + st.lineOff) = c at *
  split
  · rename_i hoff
    split
    · exact ⟨hall, trivial⟩
    · rename_i hre
      have hend : b.2.1.chunkPos + ((chunk.length : Int) - ((cs + chunk.length : Nat) : Int) + ((max (reOf c.1) r.stop : Nat) : Int) - (b.2.1.chunkPos : Int)).toNat < chunk.length := by
        omega
      refine ⟨hall, ⟨?_, hend, ?_⟩, ?_⟩
      · unfold colShift
        split <;> simp only <;> rw [hpos4] <;> omega
      · refine ⟨nb, ?_⟩
        simp only
        rw [hcont4, q3, advOrig_fm st.contents a chunk hfm _ _ (by omega) (Nat.le_of_lt hend)]
        congr 2
        omega
      · unfold colShift
        split <;> simp only <;> exact hcont4
  · exact ⟨hall, ⟨⟨hpos4, q2, nb, q3⟩, hcont4⟩⟩

theorem rLoop_adv (a : Orig) (chunk : Text) (gl cs : Nat) : ∀ (rs : List Repl) (st : RSt) (l : LSt), FM st.contents a chunk → LAdv a cs chunk st l →
    AllAt a chunk (rLoop chunk gl (cs + chunk.length) rs st l).2.1
    ∧ ∀ l2, (rLoop chunk gl (cs + chunk.length) rs st l).2.2 = some l2 → l2.chunkPos < chunk.length ∧ ∃ n, l2.orig = some { a with col := a.col + l2.chunkPos, name := n } := by
  intro rs
  induction rs with
  | nil =>
    intro st l _ hl
    simp only [rLoop]
    exact ⟨allAt_nil _ _, fun l2 h2 => by simp only [Option.some.injEq] at h2; subst h2; exact ⟨hl.inb, hl.orig⟩⟩
  | cons r rs ih =>
    intro st l hfm hl
    simp only [rLoop]
    split
    · rename_i hr
      obtain ⟨a1, a2⟩ := rIter_adv a chunk gl cs r rs st l hfm hl hr
      split
      · rename_i evs st' heq
        rw [heq] at a1
        exact ⟨a1, fun l2 h2 => by cases h2⟩
      · rename_i evs st' l' heq
        rw [heq] at a1 a2
        simp only at a2
        obtain ⟨i1, i2⟩ := ih st' l' (by rw [a2.2]; exact hfm) a2.1
        exact ⟨allAt_append _ _ _ _ a1 i1, i2⟩
    · exact ⟨allAt_nil _ _, fun l2 h2 => by simp only [Option.some.injEq] at h2; subst h2; exact ⟨hl.inb, hl.orig⟩⟩

/-- **the advance rule**: while the inner chunk `(chunk, m)` with original location `a` is processed and the recorded content
spells out the chunk (`FM`), every delivered chunk — a piece of the inner text or replacement content spliced into it — reports
`a`'s source and original line and the column `a.col + p`, where `p < |chunk|` is the byte offset in the inner chunk at which the
piece was cut / the content was spliced -/
theorem rOnChunk_adv (st : RSt) (chunk : Text) (hne : chunk ≠ []) (m : Mapping) (a : Orig) (hm : m.orig = some a) (hfm : FM st.contents a chunk) :
    AllAt a chunk (rOnChunk st chunk m).2 := by
  have ha0 : some a = some ({ a with col := a.col + 0, name := a.name } : Orig) := by cases a; rfl
  unfold rOnChunk
  dsimp only
  split
  · exact allAt_nil _ _
  · rename_i st1 l1 hstart
    have h1 : LAdv a st.pos chunk st1 l1 ∧ st1.contents = st.contents := by
      split at hstart
      · rename_i e hskip
        split at hstart
        · cases hstart
        · rename_i hlt
          simp only [Option.some.injEq, Prod.mk.injEq] at hstart
          obtain ⟨e1, e2⟩ := hstart
          subst e1 e2
          have hpos : e > st.pos := by
            split at hskip
            · rename_i e' _
              split at hskip
              · simp only [Option.some.injEq] at hskip; subst hskip; assumption
              · cases hskip
            · cases hskip
          have hcp : e - st.pos < chunk.length := by omega
          refine ⟨⟨?_, hcp, ⟨a.name, ?_⟩⟩, ?_⟩
          · unfold colShift; split <;> simp only
          · simp only
            rw [hm, ha0, advOrig_fm st.contents a chunk hfm 0 (e - st.pos) (Nat.zero_le _) (Nat.le_of_lt hcp)]
            simp
          · unfold colShift; split <;> rfl
      · simp only [Option.some.injEq, Prod.mk.injEq] at hstart
        obtain ⟨e1, e2⟩ := hstart
        subst e1 e2
        exact ⟨⟨by simp, List.length_pos_iff.2 hne, ⟨a.name, by simp only; rw [hm, ha0]⟩⟩, rfl⟩
    obtain ⟨a1, a2⟩ := rLoop_adv a chunk m.gl st.pos st1.rest st1 l1 (by rw [h1.2]; exact hfm) h1.1
    split
    · rename_i st2 evs heq
      rw [heq] at a1
      exact a1
    · rename_i st2 evs l2 heq
      rw [heq] at a1 a2
      obtain ⟨hle, hn⟩ := a2 l2 rfl
      refine allAt_append _ _ _ _ a1 ?_
      rw [if_pos hle]
      intro t mm h
      simp only [List.mem_singleton] at h
      cases h
      exact mapName_at a chunk st2.nim l2.chunkPos hle l2.orig hn _ _

/-- when is `FM` true: the recorded content line, read from `a`, starts with the (ASCII) chunk text -/
theorem fm_of_prefix (contents : List (Option Text)) (a : Orig) (chunk c : Text) (ln : Text) (hc : contents[a.src]? = some (some c))
    (hl0 : a.line ≠ 0) (hln : (splitLines c)[a.line - 1]? = some ln) (hascii : IsAscii ln)
    (hpre : ∀ p q, p ≤ q → q ≤ chunk.length → (bsub chunk p q).isPrefixOf (csub ln (a.col + p) USIZE_MAX) = true) : FM contents a chunk := by
  intro p q h1 h2
  unfold checkContent
  simp only [hc, hl0, if_false, hln]
  exact hpre p q h1 h2

end Rs
