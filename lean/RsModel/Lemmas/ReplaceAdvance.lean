import RsModel.Lemmas.ReplaceKeeps
import RsModel.Lemmas.PosReplace
/-!
# C06, ReplaceSource: the column is advanced by exactly the preceding text where the recorded content matches

`FM contents a chunk`: the recorded original content, read from the inner chunk's original location `a`, spells out the inner
chunk's text (every piece of it, from the correspondingly advanced column) — `check_original_content` succeeds wherever it is asked.
Then every delivered chunk that is cut from / spliced into that inner chunk at byte offset `p` reports original column `a.col + p`.
-/
namespace Rs

def FM (contents : List (Option Text)) (a : Orig) (chunk : Text) : Prop :=
  ∀ p q, p ≤ q → q ≤ chunk.length → checkContent contents { a with col := a.col + p } (bsub chunk p q) = true

/-- the walker stands at byte offset `chunkPos` of the inner chunk and carries the location advanced by exactly that much -/
structure LAdv (a : Orig) (cs : Nat) (chunk : Text) (st : RSt) (l : LSt) : Prop where
  pos : st.pos = cs + l.chunkPos
  inb : l.chunkPos < chunk.length
  orig : ∃ n, l.orig = some { a with col := a.col + l.chunkPos, name := n }

/-- a delivered chunk reports `a`'s source and line and the column `a.col + p` for an offset `p` inside the inner chunk, and it is
either the piece `chunk[p..q)` of the inner text or a line of the content of one of the replacements `RS` -/
def AtOffset (RS : List Repl) (a : Orig) (chunk : Text) (t : Option Text) (mm : Mapping) : Prop :=
  ∃ p, p < chunk.length ∧ (∃ y, mm.orig = some y ∧ y.src = a.src ∧ y.line = a.line ∧ y.col = a.col + p)
    ∧ ((∃ q, p < q ∧ q ≤ chunk.length ∧ t = some (bsub chunk p q)) ∨ (∃ r ∈ RS, ∃ cl ∈ splitLines r.content, t = some cl))

def AllAt (RS : List Repl) (a : Orig) (chunk : Text) (evs : List Ev) : Prop := ∀ t mm, Ev.chunk t mm ∈ evs → AtOffset RS a chunk t mm

theorem allAt_nil (RS : List Repl) (a : Orig) (chunk : Text) : AllAt RS a chunk [] := fun t mm h => by simp at h
theorem allAt_append (RS : List Repl) (a : Orig) (chunk : Text) (x y : List Ev) (hx : AllAt RS a chunk x) (hy : AllAt RS a chunk y) : AllAt RS a chunk (x ++ y) := by
  intro t mm h
  rcases List.mem_append.1 h with h | h
  · exact hx t mm h
  · exact hy t mm h

theorem advOrig_fm (contents : List (Option Text)) (a : Orig) (chunk : Text) (hfm : FM contents a chunk) (p q : Nat) (h1 : p ≤ q) (h2 : q ≤ chunk.length)
    (n : Option Nat) (by_ : Nat) :
    advOrig contents (some { a with col := a.col + p, name := n }) (bsub chunk p q) by_ = some { a with col := a.col + p + by_, name := n } := by
  unfold advOrig
  have hc : checkContent contents { a with col := a.col + p, name := n } (bsub chunk p q) = true := by
    have := hfm p q h1 h2
    unfold checkContent at this ⊢
    exact this
  simp only [hc, if_true]

theorem emitContent_at (RS : List Repl) (a : Orig) (chunk : Text) (gc : Nat) (orig : Option Orig) (p : Nat) (hp : p < chunk.length)
    (ho : ∃ n, orig = some { a with col := a.col + p, name := n }) :
    ∀ (cls : List Text) (nameIdx : Option Nat) (st : RSt) (line : Int), (∀ cl ∈ cls, ∃ r ∈ RS, cl ∈ splitLines r.content) →
    AllAt RS a chunk (emitContent gc orig cls nameIdx st line).2.1 ∧ (emitContent gc orig cls nameIdx st line).1.pos = st.pos
    ∧ (emitContent gc orig cls nameIdx st line).1.contents = st.contents ∧ (emitContent gc orig cls nameIdx st line).1.rest = st.rest := by
  intro cls
  induction cls with
  | nil => intro nameIdx st line _; exact ⟨allAt_nil _ _ _, rfl, rfl, rfl⟩
  | cons cl cls ih =>
    intro nameIdx st line hcls
    have hcls' : ∀ x ∈ cls, ∃ r ∈ RS, x ∈ splitLines r.content := fun x hx => hcls x (List.mem_cons_of_mem _ hx)
    obtain ⟨n, hn⟩ := ho
    obtain ⟨r0, hr0, hcl0⟩ := hcls cl (by simp)
    have hev : AtOffset RS a chunk (some cl) ⟨u32 line, gcolOf st line gc, orig.map fun o => { o with name := nameIdx }⟩ :=
      ⟨p, hp, ⟨{ a with col := a.col + p, name := nameIdx }, by rw [hn]; rfl, rfl, rfl, rfl⟩, Or.inr ⟨r0, hr0, cl, hcl0, rfl⟩⟩
    simp only [emitContent]
    split
    · obtain ⟨i1, i2, i3, i4⟩ := ih none (if st.colOffLine == line then { st with colOff := st.colOff + cl.length } else { st with colOff := cl.length, colOffLine := line }) line hcls'
      refine ⟨?_, by rw [i2]; split <;> rfl, by rw [i3]; split <;> rfl, by rw [i4]; split <;> rfl⟩
      intro t mm h
      simp only [List.mem_cons] at h
      rcases h with h | h
      · cases h; exact hev
      · exact i1 t mm h
    · obtain ⟨i1, i2, i3, i4⟩ := ih none { st with lineOff := st.lineOff + 1, colOff := -(gc : Int), colOffLine := line + 1 } (line + 1) hcls'
      refine ⟨?_, i2, i3, i4⟩
      intro t mm h
      simp only [List.mem_cons] at h
      rcases h with h | h
      · cases h; exact hev
      · exact i1 t mm h

theorem mapName_at (RS : List Repl) (a : Orig) (chunk : Text) (nim : List Nat) (p : Nat) (hp : p < chunk.length) (orig : Option Orig)
    (ho : ∃ n, orig = some { a with col := a.col + p, name := n }) (gl gc : Nat) (q : Nat) (hq : p < q ∧ q ≤ chunk.length) :
    AtOffset RS a chunk (some (bsub chunk p q)) ⟨gl, gc, mapName nim orig⟩ := by
  obtain ⟨n, hn⟩ := ho
  exact ⟨p, hp, ⟨{ a with col := a.col + p, name := n.bind fun k => nim[k]? }, by rw [hn]; rfl, rfl, rfl, rfl⟩, Or.inl ⟨q, hq.1, hq.2, rfl⟩⟩

theorem bsub_to_end (t : Text) (p : Nat) : bsub t p t.length = t.drop p := by
  unfold bsub
  rw [List.take_of_length_le (by simp)]

theorem colShift_rest' (st : RSt) (line by_ : Int) : (colShift st line by_).rest = st.rest := by
  unfold colShift
  split <;> rfl

theorem skipWhole_rest' (st : RSt) (chunk : Text) (gl gc remain endPos : Nat) : (skipWhole st chunk gl gc remain endPos).rest = st.rest := by
  unfold skipWhole
  dsimp only
  split
  · split <;> rfl
  · split <;> rfl

theorem rIter_adv (RS : List Repl) (a : Orig) (chunk : Text) (gl cs : Nat) (r : Repl) (rs : List Repl) (st : RSt) (l : LSt)
    (hfm : FM st.contents a chunk) (hl : LAdv a cs chunk st l) (hr : r.start < cs + chunk.length) (hrm : r ∈ RS) :
    AllAt RS a chunk (rIter chunk gl (cs + chunk.length) r rs st l).1
    ∧ (match (rIter chunk gl (cs + chunk.length) r rs st l).2 with
       | .done st' => st'.rest = rs
       | .cont st' l' => LAdv a cs chunk st' l' ∧ st'.contents = st.contents ∧ st'.rest = rs) := by
  obtain ⟨p1, p2, n0, p3⟩ := hl
  -- rBefore
  have hb : AllAt RS a chunk (rBefore chunk ((gl : Int) + st.lineOff) r st l).2.2
      ∧ LAdv a cs chunk (rBefore chunk ((gl : Int) + st.lineOff) r st l).1 (rBefore chunk ((gl : Int) + st.lineOff) r st l).2.1
      ∧ (rBefore chunk ((gl : Int) + st.lineOff) r st l).1.contents = st.contents := by
    unfold rBefore
    by_cases hgt : r.start > st.pos
    · simp only [hgt, if_true]
      have hend : l.chunkPos + (r.start - st.pos) < chunk.length := by omega
      refine ⟨?_, ⟨by simp only; omega, hend, ?_⟩, by first | rfl | trivial⟩
      · intro t mm h
        simp only [List.mem_singleton, Ev.chunk.injEq] at h
        obtain ⟨rfl, rfl⟩ := h
        exact mapName_at RS a chunk st.nim l.chunkPos p2 l.orig ⟨n0, p3⟩ _ _ (l.chunkPos + (r.start - st.pos)) ⟨by omega, Nat.le_of_lt hend⟩
      · refine ⟨n0, ?_⟩
        simp only
        rw [p3, advOrig_fm st.contents a chunk hfm l.chunkPos (l.chunkPos + (r.start - st.pos)) (by omega) (Nat.le_of_lt hend),
          bsub_length chunk _ _ (by omega) (Nat.le_of_lt hend)]
        congr 2
        omega
    · simp only [hgt, if_false]
      exact ⟨allAt_nil _ _ _, ⟨p1, p2, n0, p3⟩, by first | rfl | trivial⟩
  obtain ⟨b1, b2, b3⟩ := hb
  obtain ⟨q1, q2, nb, q3⟩ := b2
  obtain ⟨_, _, _, _, nf5⟩ := rName_facts r (rBefore chunk ((gl : Int) + st.lineOff) r st l).1 (rBefore chunk ((gl : Int) + st.lineOff) r st l).2.1
  obtain ⟨nk1, nsc⟩ := rName_keeps st.contents none r (rBefore chunk ((gl : Int) + st.lineOff) r st l).1 (rBefore chunk ((gl : Int) + st.lineOff) r st l).2.1
  have hname : AllAt RS a chunk (rName r (rBefore chunk ((gl : Int) + st.lineOff) r st l).1 (rBefore chunk ((gl : Int) + st.lineOff) r st l).2.1).2.1 := by
    intro t mm h
    unfold rName at h
    split at h
    · exact absurd h (globalName_noChunkMem _ _ t mm)
    · simp at h
  obtain ⟨c1, c2, c3, _⟩ := emitContent_at RS a chunk (rBefore chunk ((gl : Int) + st.lineOff) r st l).2.1.gc (rBefore chunk ((gl : Int) + st.lineOff) r st l).2.1.orig
    (rBefore chunk ((gl : Int) + st.lineOff) r st l).2.1.chunkPos q2 ⟨nb, q3⟩ (splitLines r.content)
    (rName r (rBefore chunk ((gl : Int) + st.lineOff) r st l).1 (rBefore chunk ((gl : Int) + st.lineOff) r st l).2.1).2.2
    (rName r (rBefore chunk ((gl : Int) + st.lineOff) r st l).1 (rBefore chunk ((gl : Int) + st.lineOff) r st l).2.1).1 ((gl : Int) + st.lineOff)
    (fun cl hcl => ⟨r, hrm, hcl⟩)
  have hall := allAt_append _ _ _ _ _ (allAt_append _ _ _ _ _ b1 hname) c1
  have hpos4 : (emitContent (rBefore chunk ((gl : Int) + st.lineOff) r st l).2.1.gc (rBefore chunk ((gl : Int) + st.lineOff) r st l).2.1.orig (splitLines r.content)
      (rName r (rBefore chunk ((gl : Int) + st.lineOff) r st l).1 (rBefore chunk ((gl : Int) + st.lineOff) r st l).2.1).2.2
      (rName r (rBefore chunk ((gl : Int) + st.lineOff) r st l).1 (rBefore chunk ((gl : Int) + st.lineOff) r st l).2.1).1 ((gl : Int) + st.lineOff)).1.pos
      = cs + (rBefore chunk ((gl : Int) + st.lineOff) r st l).2.1.chunkPos := by rw [c2, nf5, q1]
  have hcont4 : (emitContent (rBefore chunk ((gl : Int) + st.lineOff) r st l).2.1.gc (rBefore chunk ((gl : Int) + st.lineOff) r st l).2.1.orig (splitLines r.content)
      (rName r (rBefore chunk ((gl : Int) + st.lineOff) r st l).1 (rBefore chunk ((gl : Int) + st.lineOff) r st l).2.1).2.2
      (rName r (rBefore chunk ((gl : Int) + st.lineOff) r st l).1 (rBefore chunk ((gl : Int) + st.lineOff) r st l).2.1).1 ((gl : Int) + st.lineOff)).1.contents
      = st.contents := by rw [c3, nsc.1, b3]
  simp only [rIter]
  generalize hbe : rBefore chunk ((gl : Int) + st.lineOff) r st l = b at *
  generalize hne : rName r b.1 b.2.1 = n at *
  generalize hce : emitContent b.2.1.gc b.2.1.orig (splitLines r.content) n.2.2 n.1 ((gl : Int) + st.lineOff) = c at *
  split
  · rename_i hoff
    split
    · exact ⟨hall, by simp only; rw [skipWhole_rest']⟩
    · rename_i hre
      have hend : b.2.1.chunkPos + ((chunk.length : Int) - ((cs + chunk.length : Nat) : Int) + ((max (reOf c.1) r.stop : Nat) : Int) - (b.2.1.chunkPos : Int)).toNat < chunk.length := by
        omega
      refine ⟨hall, ⟨?_, hend, ?_⟩, ?_, by rw [colShift_rest']⟩
      · unfold colShift
        split <;> simp only <;> rw [hpos4] <;> omega
      · refine ⟨nb, ?_⟩
        simp only
        rw [hcont4, q3, advOrig_fm st.contents a chunk hfm _ _ (by omega) (Nat.le_of_lt hend)]
        congr 2
        omega
      · unfold colShift
        split <;> simp only <;> exact hcont4
  · exact ⟨hall, ⟨⟨hpos4, q2, nb, q3⟩, hcont4, by first | rfl | trivial⟩⟩

theorem rLoop_adv (RS : List Repl) (a : Orig) (chunk : Text) (gl cs : Nat) : ∀ (rs : List Repl) (st : RSt) (l : LSt), FM st.contents a chunk → LAdv a cs chunk st l →
    (∀ r ∈ rs, r ∈ RS) →
    AllAt RS a chunk (rLoop chunk gl (cs + chunk.length) rs st l).2.1
    ∧ (∀ r ∈ (rLoop chunk gl (cs + chunk.length) rs st l).1.rest, r ∈ RS)
    ∧ ∀ l2, (rLoop chunk gl (cs + chunk.length) rs st l).2.2 = some l2 → l2.chunkPos < chunk.length ∧ ∃ n, l2.orig = some { a with col := a.col + l2.chunkPos, name := n } := by
  intro rs
  induction rs with
  | nil =>
    intro st l _ hl _
    simp only [rLoop]
    exact ⟨allAt_nil _ _ _, fun r hr => (by simp at hr), fun l2 h2 => by simp only [Option.some.injEq] at h2; subst h2; exact ⟨hl.inb, hl.orig⟩⟩
  | cons r rs ih =>
    intro st l hfm hl hrs
    have hrs' : ∀ x ∈ rs, x ∈ RS := fun x hx => hrs x (List.mem_cons_of_mem _ hx)
    simp only [rLoop]
    split
    · rename_i hr
      obtain ⟨a1, a2⟩ := rIter_adv RS a chunk gl cs r rs st l hfm hl hr (hrs r (by simp))
      split
      · rename_i evs st' heq
        rw [heq] at a1 a2
        simp only at a2
        exact ⟨a1, by rw [a2]; exact hrs', fun l2 h2 => by cases h2⟩
      · rename_i evs st' l' heq
        rw [heq] at a1 a2
        simp only at a2
        obtain ⟨i1, i2, i3⟩ := ih st' l' (by rw [a2.2.1]; exact hfm) a2.1 hrs'
        exact ⟨allAt_append _ _ _ _ _ a1 i1, i2, i3⟩
    · exact ⟨allAt_nil _ _ _, hrs, fun l2 h2 => by simp only [Option.some.injEq] at h2; subst h2; exact ⟨hl.inb, hl.orig⟩⟩

/-- **the advance rule**: while the inner chunk `(chunk, m)` with original location `a` is processed and the recorded content
spells out the chunk (`FM`), every delivered chunk is either the piece `chunk[p..q)` of the inner text or a line of replacement
content spliced in at offset `p`, and reports `a`'s source and original line and the column `a.col + p` (`p < |chunk|`) -/
theorem rOnChunk_adv (RS : List Repl) (st : RSt) (chunk : Text) (hne : chunk ≠ []) (m : Mapping) (a : Orig) (hm : m.orig = some a) (hfm : FM st.contents a chunk)
    (hrest : ∀ r ∈ st.rest, r ∈ RS) :
    AllAt RS a chunk (rOnChunk st chunk m).2 ∧ ∀ r ∈ (rOnChunk st chunk m).1.rest, r ∈ RS := by
  have ha0 : some a = some ({ a with col := a.col + 0, name := a.name } : Orig) := by cases a; rfl
  unfold rOnChunk
  dsimp only
  split
  · exact ⟨allAt_nil _ _ _, by rw [skipWhole_rest']; exact hrest⟩
  · rename_i st1 l1 hstart
    have h1 : LAdv a st.pos chunk st1 l1 ∧ st1.contents = st.contents ∧ st1.rest = st.rest := by
      split at hstart
      · rename_i e hskip
        split at hstart
        · cases hstart
        · rename_i hlt
          simp only [Option.some.injEq, Prod.mk.injEq] at hstart
          obtain ⟨e1, e2⟩ := hstart
          subst e1 e2
          have hpos : e > st.pos := by
            split at hskip
            · rename_i e' _
              split at hskip
              · simp only [Option.some.injEq] at hskip; subst hskip; assumption
              · cases hskip
            · cases hskip
          have hcp : e - st.pos < chunk.length := by omega
          refine ⟨⟨?_, hcp, ⟨a.name, ?_⟩⟩, ?_, by rw [colShift_rest']⟩
          · unfold colShift; split <;> simp only
          · simp only
            rw [hm, ha0, advOrig_fm st.contents a chunk hfm 0 (e - st.pos) (Nat.zero_le _) (Nat.le_of_lt hcp)]
            simp
          · unfold colShift; split <;> rfl
      · simp only [Option.some.injEq, Prod.mk.injEq] at hstart
        obtain ⟨e1, e2⟩ := hstart
        subst e1 e2
        exact ⟨⟨by simp, List.length_pos_iff.2 hne, ⟨a.name, by simp only; rw [hm, ha0]⟩⟩, rfl, rfl⟩
    obtain ⟨a1, a2, a3⟩ := rLoop_adv RS a chunk m.gl st.pos st1.rest st1 l1 (by rw [h1.2.1]; exact hfm) h1.1 (by rw [h1.2.2]; exact hrest)
    split
    · rename_i st2 evs heq
      rw [heq] at a1 a2
      exact ⟨a1, a2⟩
    · rename_i st2 evs l2 heq
      rw [heq] at a1 a2 a3
      obtain ⟨hle, hn⟩ := a3 l2 rfl
      refine ⟨allAt_append _ _ _ _ _ a1 ?_, a2⟩
      rw [if_pos hle]
      intro t mm h
      simp only [List.mem_singleton, Ev.chunk.injEq] at h
      obtain ⟨rfl, rfl⟩ := h
      rw [← bsub_to_end chunk l2.chunkPos]
      exact mapName_at RS a chunk st2.nim l2.chunkPos hle l2.orig hn _ _ chunk.length ⟨hle, Nat.le_refl _⟩

/-! ### the pending replacements only shrink -/

theorem emitContent_rest (gc : Nat) (orig : Option Orig) : ∀ (cls : List Text) (n : Option Nat) (st : RSt) (line : Int),
    (emitContent gc orig cls n st line).1.rest = st.rest := by
  intro cls
  induction cls with
  | nil => intro n st line; rfl
  | cons cl cls ih =>
    intro n st line
    simp only [emitContent]
    split
    · rw [ih]; split <;> rfl
    · rw [ih]

def RNext.st : RNext → RSt
  | .done st => st
  | .cont st _ => st

theorem rIter_rest (chunk : Text) (gl endPos : Nat) (r : Repl) (rs : List Repl) (st : RSt) (l : LSt) :
    (rIter chunk gl endPos r rs st l).2.st.rest = rs := by
  simp only [rIter]
  split
  · split
    · simp only [RNext.st]; rw [skipWhole_rest']
    · simp only [RNext.st]; rw [colShift_rest']
  · rfl

theorem rLoop_restSub (chunk : Text) (gl endPos : Nat) : ∀ (rs : List Repl) (st : RSt) (l : LSt),
    ∀ r ∈ (rLoop chunk gl endPos rs st l).1.rest, r ∈ rs := by
  intro rs
  induction rs with
  | nil => intro st l r hr; simp [rLoop] at hr
  | cons x rs ih =>
    intro st l r hr
    simp only [rLoop] at hr
    split at hr
    · have h := rIter_rest chunk gl endPos x rs st l
      split at hr
      · rename_i evs st' heq
        rw [heq] at h
        simp only [RNext.st] at h
        simp only at hr
        rw [h] at hr
        exact List.mem_cons_of_mem _ hr
      · rename_i evs st' l' heq
        simp only at hr
        exact List.mem_cons_of_mem _ (ih st' l' r hr)
    · exact hr

theorem rOnChunk_restSub (st : RSt) (chunk : Text) (m : Mapping) : ∀ r ∈ (rOnChunk st chunk m).1.rest, r ∈ st.rest := by
  intro r hr
  unfold rOnChunk at hr
  dsimp only at hr
  split at hr
  · rw [skipWhole_rest'] at hr; exact hr
  · rename_i st1 l1 hstart
    have h1 : st1.rest = st.rest := by
      split at hstart
      · split at hstart
        · cases hstart
        · simp only [Option.some.injEq, Prod.mk.injEq] at hstart
          obtain ⟨e1, _⟩ := hstart
          subst e1
          rw [colShift_rest']
      · simp only [Option.some.injEq, Prod.mk.injEq] at hstart
        obtain ⟨e1, _⟩ := hstart
        subst e1; rfl
    have h2 := rLoop_restSub chunk m.gl (st.pos + chunk.length) st1.rest st1 l1
    split at hr
    · rename_i st2 evs heq
      rw [heq] at h2
      rw [← h1]; exact h2 r hr
    · rename_i st2 evs l2 heq
      rw [heq] at h2
      rw [← h1]; exact h2 r hr

/-- when is `FM` true: the recorded content line, read from `a`, starts with the (ASCII) chunk text -/
theorem fm_of_prefix (contents : List (Option Text)) (a : Orig) (chunk c : Text) (ln : Text) (hc : contents[a.src]? = some (some c))
    (hl0 : a.line ≠ 0) (hln : (splitLines c)[a.line - 1]? = some ln) (hascii : IsAscii ln)
    (hpre : ∀ p q, p ≤ q → q ≤ chunk.length → (bsub chunk p q).isPrefixOf (csub ln (a.col + p) USIZE_MAX) = true) : FM contents a chunk := by
  intro p q h1 h2
  unfold checkContent
  simp only [hc, hl0, if_false, hln]
  exact hpre p q h1 h2

end Rs
