import RsModel.Lemmas.EqHash
/-!
# `a == b` ⇒ the two values are the same tree up to cache identities

`from_utf8_lossy` is a function of the bytes (`LossyFun f`): the model carries the lossy text of a buffer leaf as a field, the
hypothesis says that field is what the function gives.
-/
namespace Rs

mutual
def Src.LossyFun (f : Text → Text) : Src → Prop
  | .raw isBuf bytes lossy => lossy = if isBuf then f bytes else bytes
  | .rawStr _ => True
  | .rawBuf bytes lossy => lossy = f bytes
  | .orig _ _ => True
  | .sms _ _ _ _ _ _ => True
  | .concat cs => cs.LossyFuns f
  | .replace inner _ => inner.LossyFun f
  | .cached _ inner => inner.LossyFun f
def SrcList.LossyFuns (f : Text → Text) : SrcList → Prop
  | .nil => True
  | .cons s r => s.LossyFun f ∧ r.LossyFuns f
end

mutual
/-- forget which cache a `CachedSource` node owns -/
def Src.eraseIds : Src → Src
  | .concat cs => .concat cs.eraseIdsL
  | .replace inner rs => .replace inner.eraseIds rs
  | .cached _ inner => .cached 0 inner.eraseIds
  | s => s
def SrcList.eraseIdsL : SrcList → SrcList
  | .nil => .nil
  | .cons s r => .cons s.eraseIds r.eraseIdsL
end

mutual
theorem Src.eqv_erase (f : Text → Text) : (a b : Src) → a.eqv b = true → a.LossyFun f → b.LossyFun f → a.eraseIds = b.eraseIds
  | .raw b1 x1 l1, .raw b2 x2 l2, h, ha, hb => by
    simp [Src.eqv] at h
    simp only [Src.LossyFun] at ha hb
    obtain ⟨rfl, rfl⟩ := h
    rw [ha, hb]
  | .rawStr t1, .rawStr t2, h, _, _ => by simp [Src.eqv] at h; simp [Src.eraseIds, h]
  | .rawBuf x1 l1, .rawBuf x2 l2, h, ha, hb => by
    simp [Src.eqv] at h
    simp only [Src.LossyFun] at ha hb
    subst h; rw [ha, hb]
  | .orig t1 n1, .orig t2 n2, h, _, _ => by simp [Src.eqv] at h; simp [Src.eraseIds, h.1, h.2]
  | .sms t1 n1 m1 o1 i1 r1, .sms t2 n2 m2 o2 i2 r2, h, _, _ => by
    simp [Src.eqv] at h
    obtain ⟨⟨⟨⟨⟨h1, h2⟩, h3⟩, h4⟩, h5⟩, h6⟩ := h
    simp [Src.eraseIds, h1, h2, h3, h4, h5, h6]
  | .concat c1, .concat c2, h, ha, hb => by
    simp [Src.eqv] at h
    simp only [Src.LossyFun] at ha hb
    simp [Src.eraseIds, SrcList.eqvL_erase f c1 c2 h ha hb]
  | .replace i1 r1, .replace i2 r2, h, ha, hb => by
    simp [Src.eqv] at h
    simp only [Src.LossyFun] at ha hb
    simp [Src.eraseIds, h.2, Src.eqv_erase f i1 i2 h.1 ha hb]
  | .cached _ i1, .cached _ i2, h, ha, hb => by
    simp [Src.eqv] at h
    simp only [Src.LossyFun] at ha hb
    simp [Src.eraseIds, Src.eqv_erase f i1 i2 h ha hb]
  | .raw .., .rawStr .., h, _, _ | .raw .., .rawBuf .., h, _, _ | .raw .., .orig .., h, _, _ | .raw .., .sms .., h, _, _ | .raw .., .concat .., h, _, _
  | .raw .., .replace .., h, _, _ | .raw .., .cached .., h, _, _ => by simp [Src.eqv] at h
  | .rawStr .., .raw .., h, _, _ | .rawStr .., .rawBuf .., h, _, _ | .rawStr .., .orig .., h, _, _ | .rawStr .., .sms .., h, _, _ | .rawStr .., .concat .., h, _, _
  | .rawStr .., .replace .., h, _, _ | .rawStr .., .cached .., h, _, _ => by simp [Src.eqv] at h
  | .rawBuf .., .raw .., h, _, _ | .rawBuf .., .rawStr .., h, _, _ | .rawBuf .., .orig .., h, _, _ | .rawBuf .., .sms .., h, _, _ | .rawBuf .., .concat .., h, _, _
  | .rawBuf .., .replace .., h, _, _ | .rawBuf .., .cached .., h, _, _ => by simp [Src.eqv] at h
  | .orig .., .raw .., h, _, _ | .orig .., .rawStr .., h, _, _ | .orig .., .rawBuf .., h, _, _ | .orig .., .sms .., h, _, _ | .orig .., .concat .., h, _, _
  | .orig .., .replace .., h, _, _ | .orig .., .cached .., h, _, _ => by simp [Src.eqv] at h
  | .sms .., .raw .., h, _, _ | .sms .., .rawStr .., h, _, _ | .sms .., .rawBuf .., h, _, _ | .sms .., .orig .., h, _, _ | .sms .., .concat .., h, _, _
  | .sms .., .replace .., h, _, _ | .sms .., .cached .., h, _, _ => by simp [Src.eqv] at h
  | .concat .., .raw .., h, _, _ | .concat .., .rawStr .., h, _, _ | .concat .., .rawBuf .., h, _, _ | .concat .., .orig .., h, _, _ | .concat .., .sms .., h, _, _
  | .concat .., .replace .., h, _, _ | .concat .., .cached .., h, _, _ => by simp [Src.eqv] at h
  | .replace .., .raw .., h, _, _ | .replace .., .rawStr .., h, _, _ | .replace .., .rawBuf .., h, _, _ | .replace .., .orig .., h, _, _ | .replace .., .sms .., h, _, _
  | .replace .., .concat .., h, _, _ | .replace .., .cached .., h, _, _ => by simp [Src.eqv] at h
  | .cached .., .raw .., h, _, _ | .cached .., .rawStr .., h, _, _ | .cached .., .rawBuf .., h, _, _ | .cached .., .orig .., h, _, _ | .cached .., .sms .., h, _, _
  | .cached .., .concat .., h, _, _ | .cached .., .replace .., h, _, _ => by simp [Src.eqv] at h
theorem SrcList.eqvL_erase (f : Text → Text) : (a b : SrcList) → a.eqvL b = true → a.LossyFuns f → b.LossyFuns f → a.eraseIdsL = b.eraseIdsL
  | .nil, .nil, _, _, _ => rfl
  | .cons a r, .cons b s, h, ha, hb => by
    simp [SrcList.eqvL] at h
    simp only [SrcList.LossyFuns] at ha hb
    simp [SrcList.eraseIdsL, Src.eqv_erase f a b h.1 ha.1 hb.1, SrcList.eqvL_erase f r s h.2 ha.2 hb.2]
  | .nil, .cons .., h, _, _ | .cons .., .nil, h, _, _ => by simp [SrcList.eqvL] at h
end

/-! the views that never look at a cache are functions of the erased tree -/
mutual
theorem Src.erase_views : (s : Src) → s.eraseIds.src = s.src ∧ s.eraseIds.buffer = s.buffer ∧ s.eraseIds.size = s.size ∧ s.eraseIds.rope = s.rope
  | .raw .. | .rawStr .. | .rawBuf .. | .orig .. | .sms .. => ⟨rfl, rfl, rfl, rfl⟩
  | .concat .nil => ⟨rfl, rfl, rfl, rfl⟩
  | .concat (.cons s .nil) => by
    obtain ⟨a, b, c, d⟩ := Src.erase_views s
    exact ⟨by simp [Src.eraseIds, SrcList.eraseIdsL, Src.src, SrcList.srcs, a], by simp [Src.eraseIds, SrcList.eraseIdsL, Src.buffer, SrcList.buffers, b],
      by simp [Src.eraseIds, SrcList.eraseIdsL, Src.size, SrcList.sizes, c], by simp [Src.eraseIds, SrcList.eraseIdsL, Src.rope, d]⟩
  | .concat (.cons s (.cons s2 rest2)) => by
    obtain ⟨a, b, c, d⟩ := Src.erase_views s
    obtain ⟨a', b', c', d'⟩ := SrcList.erase_viewsL (.cons s2 rest2)
    refine ⟨?_, ?_, ?_, ?_⟩
    · simp only [Src.eraseIds, SrcList.eraseIdsL, Src.src, SrcList.srcs] at a' ⊢; rw [a, a']
    · simp only [Src.eraseIds, SrcList.eraseIdsL, Src.buffer, SrcList.buffers] at b' ⊢; rw [b, b']
    · simp only [Src.eraseIds, SrcList.eraseIdsL, Src.size, SrcList.sizes] at c' ⊢; rw [c, c']
    · simp only [Src.eraseIds, SrcList.eraseIdsL, Src.rope, d]
      congr 1; funext x
      exact d' _
  | .replace inner rs => by
    obtain ⟨a, b, c, d⟩ := Src.erase_views inner
    exact ⟨by simp [Src.eraseIds, Src.src, a], by simp [Src.eraseIds, Src.buffer, a], by simp [Src.eraseIds, Src.size, a],
      by simp [Src.eraseIds, Src.rope, d]⟩
  | .cached _ inner => by
    obtain ⟨a, b, c, d⟩ := Src.erase_views inner
    exact ⟨by simp [Src.eraseIds, Src.src, a], by simp [Src.eraseIds, Src.buffer, b], by simp [Src.eraseIds, Src.size, c],
      by simp [Src.eraseIds, Src.rope, d]⟩
theorem SrcList.erase_viewsL : (l : SrcList) → l.eraseIdsL.srcs = l.srcs ∧ l.eraseIdsL.buffers = l.buffers ∧ l.eraseIdsL.sizes = l.sizes
    ∧ ∀ acc, l.eraseIdsL.ropes acc = l.ropes acc
  | .nil => ⟨rfl, rfl, rfl, fun _ => rfl⟩
  | .cons s r => by
    obtain ⟨a, b, c, d⟩ := Src.erase_views s
    obtain ⟨a', b', c', d'⟩ := SrcList.erase_viewsL r
    refine ⟨by simp [SrcList.eraseIdsL, SrcList.srcs, a, a'], by simp [SrcList.eraseIdsL, SrcList.buffers, b, b'],
      by simp [SrcList.eraseIdsL, SrcList.sizes, c, c'], ?_⟩
    intro acc
    simp only [SrcList.eraseIdsL, SrcList.ropes, d]
    congr 1; funext x; exact d' _
end

mutual
def Src.NoCached : Src → Prop
  | .concat cs => cs.NoCachedL
  | .replace inner _ => inner.NoCached
  | .cached _ _ => False
  | _ => True
def SrcList.NoCachedL : SrcList → Prop
  | .nil => True
  | .cons s r => s.NoCached ∧ r.NoCachedL
end

mutual
theorem Src.erase_noCached : (s : Src) → s.NoCached → s.eraseIds = s
  | .raw .., _ | .rawStr .., _ | .rawBuf .., _ | .orig .., _ | .sms .., _ => rfl
  | .concat cs, h => by simp only [Src.NoCached] at h; simp [Src.eraseIds, SrcList.erase_noCachedL cs h]
  | .replace inner rs, h => by simp only [Src.NoCached] at h; simp [Src.eraseIds, Src.erase_noCached inner h]
  | .cached _ _, h => by simp [Src.NoCached] at h
theorem SrcList.erase_noCachedL : (l : SrcList) → l.NoCachedL → l.eraseIdsL = l
  | .nil, _ => rfl
  | .cons s r, h => by simp only [SrcList.NoCachedL] at h; simp [SrcList.eraseIdsL, Src.erase_noCached s h.1, SrcList.erase_noCachedL r h.2]
end

end Rs
