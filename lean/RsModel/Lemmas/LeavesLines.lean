import RsModel.Lemmas.HistoryLines
/-!
# Regrouping with columns = false: only the sequence of leaves matters
-/
namespace Rs

mutual
theorem Src.NA_leaves' (c : Bool) : ∀ (s : Src), s.NoCached → s.IdxHyp →
    NA (s.stream ⟨c, false⟩ []).1.evs = (s.leaves.map fun x => NA (x.stream ⟨c, false⟩ []).1.evs).flatten
  | .raw .., _, _ | .rawStr .., _, _ | .rawBuf .., _, _ | .orig .., _, _ | .sms .., _, _ | .replace .., _, _ | .cached .., _, _ => by
    simp [Src.leaves]
  | .concat .nil, _, _ => by simp [Src.leaves, SrcList.leavesL, Src.stream, concatStream, concatGo, NA, attrN]
  | .concat (.cons s rest), hn, hi => by
    simp only [Src.NoCached] at hn
    simp only [Src.IdxHyp] at hi
    rw [concat_NA_nc' c s rest hn hi]
    simp only [Src.leaves]
    exact SrcList.NA_leavesL' c (.cons s rest) hn hi
theorem SrcList.NA_leavesL' (c : Bool) : ∀ (l : SrcList), l.NoCachedL → l.IdxHyps →
    (l.toList.map fun x => NA (x.stream ⟨c, false⟩ []).1.evs).flatten = (l.leavesL.map fun x => NA (x.stream ⟨c, false⟩ []).1.evs).flatten
  | .nil, _, _ => rfl
  | .cons s r, hn, hi => by
    simp only [SrcList.toList, List.map_cons, List.flatten_cons, SrcList.leavesL, List.map_append, List.flatten_append]
    rw [Src.NA_leaves' c s hn.1 hi.1, SrcList.NA_leavesL' c r hn.2 hi.2]
end

mutual
theorem Src.src_leaves : ∀ (s : Src), s.src = (s.leaves.map Src.src).flatten
  | .raw .. | .rawStr .. | .rawBuf .. | .orig .. | .sms .. | .replace .. | .cached .. => by simp [Src.leaves]
  | .concat cs => by simp only [Src.src, Src.leaves]; exact SrcList.srcs_leavesL cs
theorem SrcList.srcs_leavesL : ∀ (l : SrcList), l.srcs = (l.leavesL.map Src.src).flatten
  | .nil => rfl
  | .cons s r => by
    simp only [SrcList.srcs, SrcList.leavesL, List.map_append, List.flatten_append]
    rw [Src.src_leaves s, SrcList.srcs_leavesL r]
end

/-- two cache-free trees with the same sequence of leaves attribute every byte alike at name level, either column setting -/
theorem NA_same_leaves' (c : Bool) (a b : Src) (ha : a.NoCached) (hb : b.NoCached) (ia : a.IdxHyp) (ib : b.IdxHyp) (h : a.leaves = b.leaves) :
    NA (a.stream ⟨c, false⟩ []).1.evs = NA (b.stream ⟨c, false⟩ []).1.evs := by
  rw [Src.NA_leaves' c a ha ia, Src.NA_leaves' c b hb ib, h]

/-- … hence, with columns = false, resolve the first mapped chunk of every generated line to the same file name and original line -/
theorem lname_same_leaves (a b : Src) (ha : a.NoCached) (hb : b.NoCached) (ia : a.IdxHyp) (ib : b.IdxHyp)
    (wa : a.WF) (wb : b.WF) (pa : a.PosHyp false) (pb : b.PosHyp false) (h : a.leaves = b.leaves) (L : Nat) :
    LNameOf (a.stream ⟨false, false⟩ []).1.evs L = LNameOf (b.stream ⟨false, false⟩ []).1.evs L := by
  obtain ⟨p1, _, _⟩ := posOK_nc a false ha wa pa
  obtain ⟨q1, _, _⟩ := posOK_nc b false hb wb pb
  have b1 := lfirst_eq_lname _ p1 (Src.stream_tl _ false []) (Src.stream_mappedNE' _ false []) (Src.stream_tok _ false [])
    (stream_declOK_nc _ ⟨false, false⟩ ha ia) L
  have b2 := lfirst_eq_lname _ q1 (Src.stream_tl _ false []) (Src.stream_mappedNE' _ false []) (Src.stream_tok _ false [])
    (stream_declOK_nc _ ⟨false, false⟩ hb ib) L
  rw [Src.stream_text _ false [] wa] at b1
  rw [Src.stream_text _ false [] wb] at b2
  rw [← b1, ← b2, NA_same_leaves' false a b ha hb ia ib h, Src.src_leaves a, Src.src_leaves b, h]

end Rs
