import RsModel.Lemmas.ModeConcat4
/-! # ConcatSource lookups, part 5: the pending-close invariant of the text-less mode -/
namespace Rs

/-- when no close is pending, nothing delivered so far attributes the rest of the current line -/
def NCInv (st : CSt) (prev : List Mapping) : Prop :=
  st.needClose = false → ∀ C, st.colOff ≤ C → (lookupGo (st.lineOff + 1) C none prev).join = none

theorem trMs_linesOK (final : Bool) : ∀ (evs : List Ev) (st : CSt) (l : Nat), linesOK l (chunkMs evs) → linesOK l (trMs final st evs) := by
  intro evs
  induction evs with
  | nil => intro st l _; trivial
  | cons e es ih =>
    intro st l h
    cases e with
    | chunk t m => exact ⟨h.1, ih _ _ h.2⟩
    | source i s c => exact ih _ _ h
    | name i n => exact ih _ _ h

theorem trMs_all (final : Bool) (P : Nat → Nat → Prop) : ∀ (evs : List Ev) (st : CSt), (∀ m ∈ chunkMs evs, P m.gl m.gc) →
    ∀ m ∈ trMs final st evs, P m.gl m.gc := by
  intro evs
  induction evs with
  | nil => intro st _ m hm; simp [trMs] at hm
  | cons e es ih =>
    intro st h m hm
    cases e with
    | chunk t m0 =>
      simp only [trMs, List.mem_cons] at hm
      rcases hm with rfl | hm
      · exact h m0 (by simp [chunkMs])
      · exact ih _ (fun x hx => h x (by simp [chunkMs, hx])) m hm
    | source i s c => exact ih _ (fun x hx => h x (by simpa [chunkMs] using hx)) m (by simpa [trMs] using hm)
    | name i n => exact ih _ (fun x hx => h x (by simpa [chunkMs] using hx)) m (by simpa [trMs] using hm)

/-- a stream whose first chunk stands at its origin answers every lookup on its first line -/
theorem trMs_first (final : Bool) (c' : Nat) : ∀ (evs : List Ev) (st : CSt), hasChunk evs = true → firstOff evs = false →
    lookupGo 1 c' none (trMs final st evs) ≠ none := by
  intro evs
  induction evs with
  | nil => intro st h; simp [hasChunk] at h
  | cons e es ih =>
    intro st h1 h2
    cases e with
    | chunk t m =>
      simp only [firstOff, Bool.or_eq_false_iff, bne_eq_false_iff_eq] at h2
      simp only [trMs, lookupGo, h2.1, h2.2, Nat.zero_le, and_self, if_true]
      rw [lookupGo_acc]
      cases lookupGo 1 c' none (trMs final (concatEv final st (.chunk t m)).1 es) <;> simp
    | source i s c => exact ih _ (by simpa [hasChunk] using h1) (by simpa [firstOff] using h2)
    | name i n => exact ih _ (by simpa [hasChunk] using h1) (by simpa [firstOff] using h2)

theorem trMs_ne_nil (final : Bool) : ∀ (evs : List Ev) (st : CSt), hasChunk evs = true → trMs final st evs ≠ [] := by
  intro evs
  induction evs with
  | nil => intro st h; simp [hasChunk] at h
  | cons e es ih =>
    intro st h
    cases e with
    | chunk t m => simp [trMs]
    | source i s c => exact ih _ (by simpa [hasChunk] using h)
    | name i n => exact ih _ (by simpa [hasChunk] using h)

theorem concatChild_state (final : Bool) (st : CSt) (c : SResult) :
    (concatChild final st c).1.lineOff = st.lineOff + (c.info.line - 1)
    ∧ (concatChild final st c).1.colOff = (if c.info.line > 1 then c.info.col else st.colOff + c.info.col)
    ∧ (concatChild final st c).1.needClose =
        ((if ((if hasChunk c.evs then false else st.needClose) && (c.info.line != 1 || c.info.col != 0)) = true then false
          else (if hasChunk c.evs then false else st.needClose))
         || (final && lastML 0 (trMs final (childStart st) c.evs) == c.info.line))
    ∧ tbOf (concatChild final st c).1 = tbOf (concatEvs final (childStart st) c.evs).1 := by
  obtain ⟨s1, s2, s3, s4, _⟩ := concatEvs_state final c.evs (childStart st)
  have h3 : (childStart st).needClose = st.needClose := rfl
  have h4 : (childStart st).lastMappingLine = 0 := rfl
  rw [h3] at s3
  rw [h4] at s4
  simp only [concatChild]
  refine ⟨?_, ?_, ?_, rfl⟩
  · change (concatEvs final (childStart st) c.evs).1.lineOff + _ = _
    rw [s1]; rfl
  · change (if c.info.line > 1 then c.info.col else (concatEvs final (childStart st) c.evs).1.colOff + c.info.col) = _
    rw [s2]; rfl
  · change ((if ((concatEvs final (childStart st) c.evs).1.needClose && (c.info.line != 1 || c.info.col != 0)) = true then false
        else (concatEvs final (childStart st) c.evs).1.needClose) || (final && (concatEvs final (childStart st) c.evs).1.lastMappingLine == c.info.line)) = _
    rw [s3, s4]

/-- a position inside a child that the child's own (text-less) mappings do not answer is unmapped -/
theorem inside_none (st : CSt) (P : Pos) (hrel : FRel st P) (prev : List Mapping) (hb : Bound prev P) (hinv : NCInv st prev)
    (c : SResult) (l' c' : Nat) (hl : 1 ≤ l') (hinfo : (c.info.line != 1 || c.info.col != 0) = true)
    (hr : lookupGo l' c' none (trMs true (childStart st) c.evs) = none) :
    (if closes st c ∧ l' = 1 then some none else lookupGo (shiftL st l') (shiftC st l' c') none prev).join = none := by
  by_cases h1 : l' = 1
  · subst h1
    by_cases hnc : st.needClose = true
    · -- a close is pending: it is delivered, because the child's first chunk (if any) is not at its origin
      have hcl : closes st c := by
        refine ⟨hnc, ?_⟩
        by_cases hch : hasChunk c.evs = true
        · by_cases hfo : firstOff c.evs = true
          · exact Or.inl hfo
          · exact absurd hr (trMs_first true c' c.evs _ hch (by simpa using hfo))
        · exact Or.inr ⟨by simpa using hch, hinfo⟩
      simp [hcl]
    · have hnc' : st.needClose = false := by simpa using hnc
      have : ¬ (closes st c ∧ 1 = 1) := fun h => hnc h.1.1
      rw [if_neg this]
      have := hinv hnc' (shiftC st 1 c') (by unfold shiftC; simp)
      unfold shiftL
      rw [Nat.add_comm]
      exact this
  · have : ¬ (closes st c ∧ l' = 1) := fun h => h1 h.2
    rw [if_neg this, bound_none_above prev P hb _ _ (by unfold shiftL; rw [← hrel.1]; omega)]
    rfl

/-- **the invariant is kept by every child** (text-less mode) -/
theorem ncinv_step (st : CSt) (gpre T : Text) (hrel : FRel st (adv startPos gpre)) (prev : List Mapping)
    (hb : Bound prev (adv startPos gpre)) (hinv : NCInv st prev) (c : SResult) (hf : FinOK T c) (hlines : linesOK 1 (chunkMs c.evs)) :
    NCInv (concatChild true st c).1 (prev ++ chunkMs (concatChild true st c).2) := by
  obtain ⟨t1, t2, t3, _⟩ := concatChild_state true st c
  have hgi : c.info = adv startPos T := hf.2
  have hgl : 1 ≤ c.info.line := by
    have := isPos_line_ge T c.info (by rw [hgi]; exact isPos_end T)
    exact this
  intro hnc C hC
  rw [t1]
  rw [t2] at hC
  rw [t3] at hnc
  -- the local position the lookup corresponds to: on the child's last line, at or after its last column
  have hex : ∃ c', shiftC st c.info.line c' = C ∧ c.info.col ≤ c' := by
    unfold shiftC
    by_cases h1 : c.info.line = 1
    · have : ¬ c.info.line > 1 := by omega
      simp only [this, if_false] at hC
      exact ⟨C - st.colOff, by simp [h1]; omega, by omega⟩
    · have : c.info.line > 1 := by omega
      simp only [this, if_true] at hC
      exact ⟨C, by simp [h1], hC⟩
  obtain ⟨c', hc1, hc2⟩ := hex
  have hL : st.lineOff + (c.info.line - 1) + 1 = shiftL st c.info.line := by unfold shiftL; omega
  rw [hL, ← hc1, lookupGo_append, concatChild_look]
  -- the child's own answer there is its very last chunk, if that chunk is on the last line
  have hbnd : ∀ m ∈ trMs true (childStart st) c.evs, m.gl < c.info.line ∨ (m.gl = c.info.line ∧ m.gc ≤ c.info.col) := by
    apply trMs_all true (fun gl gc => gl < c.info.line ∨ (gl = c.info.line ∧ gc ≤ c.info.col))
    intro m hm
    have := (isPos_bounds T _ (finOK_ms T c hf m hm)).2
    rw [← hgi] at this
    exact this
  have hlast := lookup_lastLine c.info.line c' c.info.col hc2 _ 1 (trMs_linesOK true c.evs _ 1 hlines) hbnd
  rw [hlast]
  have hP : (adv startPos gpre).line = st.lineOff + 1 := hrel.1.symm
  cases hz : (trMs true (childStart st) c.evs).getLast? with
  | some z =>
    simp only
    have hzmem : z ∈ trMs true (childStart st) c.evs := List.mem_of_getLast? hz
    have hz1 : 1 ≤ z.gl := linesOK_ge _ _ (trMs_linesOK true c.evs _ 1 hlines) z hzmem
    by_cases hzl : z.gl = c.info.line
    · simp only [hzl, if_true]
      -- mapped ⇒ `last_mapping_line` = the last line ⇒ a close is pending
      cases hzo : z.orig with
      | none => rfl
      | some o =>
        exfalso
        have : lastML 0 (trMs true (childStart st) c.evs) = c.info.line := by
          unfold lastML; rw [hz]; simp [hzo, hzl]
        rw [this] at hnc
        simp at hnc
    · simp only [hzl, if_false]
      have hlt : z.gl < c.info.line := by rcases hbnd z hzmem with g | g <;> omega
      have : ¬ (closes st c ∧ c.info.line = 1) := fun h => by omega
      rw [if_neg this, bound_none_above prev _ hb _ _ (by rw [hP]; unfold shiftL; omega)]
      rfl
  | none =>
    simp only
    have hnil : trMs true (childStart st) c.evs = [] := List.getLast?_eq_none_iff.1 hz
    have hch : hasChunk c.evs = false := by
      cases h : hasChunk c.evs with
      | false => rfl
      | true => exact absurd hnil (trMs_ne_nil true c.evs _ h)
    rw [hch] at hnc
    simp only [Bool.false_eq_true, if_false, hnil, lastML, List.getLast?_nil, Bool.true_and] at hnc
    by_cases hcl : closes st c ∧ c.info.line = 1
    · rw [if_pos hcl]; rfl
    · rw [if_neg hcl]
      by_cases h1 : c.info.line = 1
      · -- same line: no close was delivered, so none was pending
        have hncl : ¬ closes st c := fun h => hcl ⟨h, h1⟩
        have hst : st.needClose = false := by
          cases hn : st.needClose with
          | false => rfl
          | true =>
            exfalso
            rw [hn] at hnc
            by_cases hi : (c.info.line != 1 || c.info.col != 0) = true
            · exact hncl ⟨hn, Or.inr ⟨hch, hi⟩⟩
            · have hi' : (c.info.line != 1 || c.info.col != 0) = false := by simpa using hi
              simp [hi'] at hnc
        have := hinv hst (shiftC st c.info.line c') (by unfold shiftC; simp [h1])
        have e : shiftL st c.info.line = st.lineOff + 1 := by unfold shiftL; omega
        rw [e]
        exact this
      · rw [bound_none_above prev _ hb _ _ (by rw [hP]; unfold shiftL; omega)]
        rfl

end Rs
