import RsModel.Lemmas.TrapsSM
import RsModel.Lemmas.Lines
/-!
# The size side-conditions of the no-trap theorems, from byte lengths

`text below 4 GiB` and `mappings string below 4 GiB` imply the line-count, line-length and `generated_line` bounds the theorems of
`TrapsSM.lean` use.
-/
namespace Rs
namespace Chk

theorem splitLinesAux_count : ∀ (t acc : Text), (splitLinesAux acc t).length ≤ t.length + 1 ∧ (acc = [] → (splitLinesAux acc t).length ≤ t.length) := by
  intro t
  induction t with
  | nil =>
    intro acc
    simp only [splitLinesAux]
    constructor
    · split <;> simp
    · intro h; rw [h]; simp
  | cons c cs ih =>
    intro acc
    simp only [splitLinesAux]
    by_cases hc : c = NL
    · simp only [hc, if_true, List.length_cons]
      have := (ih []).2 rfl
      exact ⟨by omega, fun _ => by omega⟩
    · simp only [hc, if_false, List.length_cons]
      have := (ih (c :: acc)).1
      exact ⟨by omega, fun _ => by omega⟩

theorem splitLines_count (t : Text) : (splitLines t).length ≤ t.length := (splitLinesAux_count t []).2 rfl

theorem length_le_flatten {α : Type} : ∀ (L : List (List α)) (l : List α), l ∈ L → l.length ≤ L.flatten.length := by
  intro L
  induction L with
  | nil => intro l h; cases h
  | cons x xs ih =>
    intro l h
    simp only [List.flatten_cons, List.length_append]
    rcases List.mem_cons.1 h with rfl | h
    · omega
    · have := ih l h; omega

theorem splitLines_line_le (t : Text) : ∀ l ∈ splitLines t, l.length ≤ t.length := by
  intro l h
  have := length_le_flatten (splitLines t) l h
  rw [splitLines_join] at this
  exact this

theorem pending_gl (s : DecSt) : ∀ m ∈ s.pending, m.gl = s.genLine := by
  intro m h
  unfold DecSt.pending at h
  split at h
  · simp only [List.mem_singleton] at h; rw [h]
  · split at h
    · simp only [List.mem_singleton] at h; rw [h]
    · split at h
      · simp only [List.mem_singleton] at h; rw [h]
      · cases h

theorem decByte_gl (s : DecSt) (c : UInt8) : (∀ m ∈ (decByte s c).2, m.gl = s.genLine) ∧ (decByte s c).1.genLine ≤ s.genLine + 1 := by
  unfold decByte
  simp only []
  split
  · exact ⟨fun m h => (by cases h), by simp only []; omega⟩
  · split
    · split
      · exact ⟨pending_gl s, by simp only []; omega⟩
      · exact ⟨pending_gl s, by simp only []; omega⟩
    · split
      · exact ⟨fun m h => (by cases h), by simp only [DecSt.setField]; omega⟩
      · exact ⟨fun m h => (by cases h), by simp only []; omega⟩

theorem decBytes_gl : ∀ (bs : Text) (s : DecSt), (∀ m ∈ (decBytes s bs).2, m.gl ≤ s.genLine + bs.length) ∧ (decBytes s bs).1.genLine ≤ s.genLine + bs.length := by
  intro bs
  induction bs with
  | nil => intro s; exact ⟨fun m h => by simp [decBytes] at h, by simp [decBytes]⟩
  | cons c cs ih =>
    intro s
    simp only [decBytes, List.length_cons]
    obtain ⟨a1, a2⟩ := decByte_gl s c
    obtain ⟨b1, b2⟩ := ih (decByte s c).1
    constructor
    · intro m h
      rcases List.mem_append.1 h with h | h
      · have := a1 m h; omega
      · have := b1 m h; omega
    · omega

/-- a decoded segment's generated line is at most one more than the number of bytes of the mappings string -/
theorem decode_gl (bs : Text) : ∀ m ∈ decode bs, m.gl ≤ bs.length + 1 := by
  intro m h
  unfold decode at h
  simp only [] at h
  obtain ⟨a1, a2⟩ := decBytes_gl bs decInitSt
  have h0 : decInitSt.genLine = 1 := rfl
  rcases List.mem_append.1 h with h | h
  · have := a1 m h; omega
  · have := pending_gl _ m h; omega

/-- **the four map-driven splitters cannot panic** — stated on byte lengths: text and `mappings` string below 4 GiB − 2, any map -/
theorem streamSMC_total (t : Text) (sm : SMap) (o : Opts) (ht : t.length + 2 < 2 ^ 32) (hm : sm.mappings.length + 1 < 2 ^ 32) :
    streamSMC t sm o = some (streamSM t sm o) :=
  streamSMC_eq t sm o (by have := splitLines_count t; omega)
    (fun l hl => by have := splitLines_line_le t l hl; omega)
    (fun m h => by have := decode_gl sm.mappings m h; omega)

theorem streamRawC_total (t : Text) (o : Opts) (ht : t.length + 1 < 2 ^ 32) : streamRawC t o = some (streamRaw t o) :=
  streamRawC_eq t o (by have := splitLines_count t; omega) (fun l hl => by have := splitLines_line_le t l hl; omega)

end Chk
end Rs
