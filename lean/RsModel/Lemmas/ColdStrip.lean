import RsModel.Lemmas.ModeCold
import RsModel.Lemmas.ModeTree2
/-!
# Cold caches are transparent at any depth

`s.strip` removes every CachedSource wrapper.  On a store in which every cache of the tree is cold (and distinct CachedSource
nodes own distinct caches) the tree streams exactly what the stripped tree streams — in every mode — so `get_map` returns the same
map and every theorem about cache-free trees applies to the first call on a tree with caches.
-/
namespace Rs

mutual
def Src.strip : Src → Src
  | .concat cs => .concat cs.stripL
  | .replace inner rs => .replace inner.strip rs
  | .cached _ inner => inner.strip
  | s => s
def SrcList.stripL : SrcList → SrcList
  | .nil => .nil
  | .cons s r => .cons s.strip r.stripL
end

mutual
theorem Src.strip_nc : ∀ (s : Src), s.strip.NoCached
  | .raw .. | .rawStr .. | .rawBuf .. | .orig .. | .sms .. => trivial
  | .concat cs => by simp only [Src.strip, Src.NoCached]; exact SrcList.stripL_nc cs
  | .replace inner rs => by simp only [Src.strip, Src.NoCached]; exact Src.strip_nc inner
  | .cached _ inner => by simp only [Src.strip]; exact Src.strip_nc inner
theorem SrcList.stripL_nc : ∀ (l : SrcList), l.stripL.NoCachedL
  | .nil => trivial
  | .cons s r => ⟨Src.strip_nc s, SrcList.stripL_nc r⟩
end

mutual
theorem Src.strip_src : ∀ (s : Src), s.strip.src = s.src
  | .raw .. | .rawStr .. | .rawBuf .. | .orig .. | .sms .. => rfl
  | .concat cs => by simp only [Src.strip, Src.src]; exact SrcList.stripL_srcs cs
  | .replace inner rs => by simp only [Src.strip, Src.src]; rw [Src.strip_src inner]
  | .cached _ inner => by simp only [Src.strip, Src.src]; exact Src.strip_src inner
theorem SrcList.stripL_srcs : ∀ (l : SrcList), l.stripL.srcs = l.srcs
  | .nil => rfl
  | .cons s r => by simp only [SrcList.stripL, SrcList.srcs]; rw [Src.strip_src s, SrcList.stripL_srcs r]
end

mutual
theorem Src.stream_strip : ∀ (s : Src) (o : Opts) (σ : Store), s.ids.Nodup → Cold σ s.ids →
    (s.stream o σ).1 = (s.strip.stream o []).1
  | .raw .., _, _, _, _ | .rawStr .., _, _, _, _ | .rawBuf .., _, _, _, _ | .orig .., _, _, _, _ => rfl
  | .sms t name map origSrc inner remove, o, σ, _, _ => by simp only [Src.strip, Src.stream]; cases inner <;> rfl
  | .concat .nil, o, σ, _, _ => rfl
  | .concat (.cons s rest), o, σ, hn, hc => by
    simp only [Src.ids, Src.cachedNodes, SrcList.cachedNodesL, List.map_append] at hn hc
    have hn1 := (List.nodup_append.1 hn).1
    have hn2 := (List.nodup_append.1 hn).2.1
    have hdisj := (List.nodup_append.1 hn).2.2
    have hc1 := (cold_sub _ _ _ hc).1
    have h1 := Src.stream_strip s o σ hn1 hc1
    cases hr : rest with
    | nil => simp only [Src.strip, SrcList.stripL, Src.stream]; exact h1
    | cons s2 rest2 =>
      have hc2 : Cold (s.stream o σ).2 (SrcList.cons s2 rest2).idsL := by
        rw [← hr]; exact cold_after s _ σ _ (cold_sub _ _ _ hc).2 (fun i hi hmem => hdisj i hmem i hi rfl)
      have h2 := SrcList.streams_strip (.cons s2 rest2) o (s.stream o σ).2 (hr ▸ hn2) hc2
      simp only [Src.strip, SrcList.stripL, Src.stream]
      -- the stripped children do not touch the store
      have e := (SrcList.streams_nc (SrcList.cons s2.strip rest2.stripL) o (s.strip.stream o []).2 (SrcList.stripL_nc (.cons s2 rest2))).2
      simp only [SrcList.stripL] at h2
      rw [h1, h2, e]
  | .replace inner rs, o, σ, hn, hc => by
    simp only [Src.strip, Src.stream]
    rw [Src.stream_strip inner ⟨o.columns, false⟩ σ hn hc]
  | .cached id inner, o, σ, hn, hc => by
    simp only [Src.ids, Src.cachedNodes, List.map_cons, List.nodup_cons] at hn hc
    simp only [Src.strip, Src.stream]
    rw [hc id (by simp) _]
    simp only
    exact Src.stream_strip inner o σ hn.2 (fun i hi => hc i (List.mem_cons_of_mem _ hi))
theorem SrcList.streams_strip : ∀ (l : SrcList) (o : Opts) (σ : Store), l.idsL.Nodup → Cold σ l.idsL →
    (l.streams o σ).1 = (l.stripL.streams o []).1
  | .nil, _, _, _, _ => rfl
  | .cons s rest, o, σ, hn, hc => by
    simp only [SrcList.idsL, SrcList.cachedNodesL, List.map_append] at hn hc
    have hn1 := (List.nodup_append.1 hn).1
    have hn2 := (List.nodup_append.1 hn).2.1
    have hdisj := (List.nodup_append.1 hn).2.2
    have hc1 := (cold_sub _ _ _ hc).1
    have hc2 : Cold (s.stream o σ).2 rest.idsL :=
      cold_after s _ σ _ (cold_sub _ _ _ hc).2 (fun i hi hmem => hdisj i hmem i hi rfl)
    simp only [SrcList.stripL, SrcList.streams]
    rw [Src.stream_strip s o σ hn1 hc1, SrcList.streams_strip rest o _ hn2 hc2]
    have e := (SrcList.streams_nc rest.stripL o (s.strip.stream o []).2 (SrcList.stripL_nc rest)).2
    rw [e]
end

/-- **`get_map` on cold caches = `get_map` of the cache-free tree** -/
theorem getMap_strip (s : Src) (o : Opts) (σ : Store) (hn : s.ids.Nodup) (hc : Cold σ s.ids) :
    (getMap s o σ).1 = (getMap s.strip o []).1 := by
  simp only [getMap]
  rw [Src.stream_strip s ⟨o.columns, true⟩ σ hn hc]

end Rs
