import RsModel.Lemmas.MappedNE
import RsModel.Lemmas.ReplaceAdvance
/-!
# ReplaceSource: what the delivered texts are, whatever the inner chunk's mapping says

No hypothesis on the recorded contents (`FM`) here: for every inner chunk, every chunk the ReplaceSource delivers carries a
non-empty slice `chunk[p..q)` of the inner text or a line of the content of one of the pending replacements.  This is what is
needed for an inner chunk that is itself generated text (a ReplaceSource inside a ReplaceSource): its pieces stay generated text.
-/
namespace Rs

def TextOf (RS : List Repl) (chunk : Text) (t : Option Text) : Prop :=
  (∃ p q, p < q ∧ q ≤ chunk.length ∧ t = some (bsub chunk p q)) ∨ (∃ r ∈ RS, ∃ cl ∈ splitLines r.content, t = some cl)

def AllText (RS : List Repl) (chunk : Text) (evs : List Ev) : Prop := ∀ t mm, Ev.chunk t mm ∈ evs → TextOf RS chunk t

theorem allText_nil (RS : List Repl) (chunk : Text) : AllText RS chunk [] := fun t mm h => by simp at h
theorem allText_append (RS : List Repl) (chunk : Text) (x y : List Ev) (hx : AllText RS chunk x) (hy : AllText RS chunk y) : AllText RS chunk (x ++ y) := by
  intro t mm h
  rcases List.mem_append.1 h with h | h
  · exact hx t mm h
  · exact hy t mm h

theorem emitContent_text (RS : List Repl) (chunk : Text) (gc : Nat) (orig : Option Orig) :
    ∀ (cls : List Text) (nameIdx : Option Nat) (st : RSt) (line : Int), (∀ cl ∈ cls, ∃ r ∈ RS, cl ∈ splitLines r.content) →
    AllText RS chunk (emitContent gc orig cls nameIdx st line).2.1 := by
  intro cls
  induction cls with
  | nil => intro nameIdx st line _; exact allText_nil _ _
  | cons cl cls ih =>
    intro nameIdx st line hcls
    have hcls' : ∀ x ∈ cls, ∃ r ∈ RS, x ∈ splitLines r.content := fun x hx => hcls x (List.mem_cons_of_mem _ hx)
    obtain ⟨r0, hr0, hcl0⟩ := hcls cl (by simp)
    simp only [emitContent]
    split
    · intro t mm h
      simp only [List.mem_cons] at h
      rcases h with h | h
      · cases h; exact Or.inr ⟨r0, hr0, cl, hcl0, rfl⟩
      · exact ih none _ line hcls' t mm h
    · intro t mm h
      simp only [List.mem_cons] at h
      rcases h with h | h
      · cases h; exact Or.inr ⟨r0, hr0, cl, hcl0, rfl⟩
      · exact ih none _ (line + 1) hcls' t mm h

theorem rIter_text (RS : List Repl) (chunk : Text) (gl cs : Nat) (r : Repl) (rs : List Repl) (st : RSt) (l : LSt)
    (hl : LPos cs chunk st l) (hr : r.start < cs + chunk.length) (hrm : r ∈ RS) :
    AllText RS chunk (rIter chunk gl (cs + chunk.length) r rs st l).1 := by
  obtain ⟨p1, p2⟩ := hl
  have hb : AllText RS chunk (rBefore chunk ((gl : Int) + st.lineOff) r st l).2.2 := by
    unfold rBefore
    by_cases hgt : r.start > st.pos
    · simp only [hgt, if_true]
      have hend : l.chunkPos + (r.start - st.pos) ≤ chunk.length := by omega
      intro t mm h
      simp only [List.mem_singleton, Ev.chunk.injEq] at h
      obtain ⟨rfl, _⟩ := h
      exact Or.inl ⟨l.chunkPos, l.chunkPos + (r.start - st.pos), by omega, hend, rfl⟩
    · simp only [hgt, if_false]
      exact allText_nil _ _
  have hname : AllText RS chunk (rName r (rBefore chunk ((gl : Int) + st.lineOff) r st l).1 (rBefore chunk ((gl : Int) + st.lineOff) r st l).2.1).2.1 := by
    intro t mm h
    unfold rName at h
    split at h
    · exact absurd h (globalName_noChunkMem _ _ t mm)
    · simp at h
  have hc := emitContent_text RS chunk (rBefore chunk ((gl : Int) + st.lineOff) r st l).2.1.gc (rBefore chunk ((gl : Int) + st.lineOff) r st l).2.1.orig
    (splitLines r.content)
    (rName r (rBefore chunk ((gl : Int) + st.lineOff) r st l).1 (rBefore chunk ((gl : Int) + st.lineOff) r st l).2.1).2.2
    (rName r (rBefore chunk ((gl : Int) + st.lineOff) r st l).1 (rBefore chunk ((gl : Int) + st.lineOff) r st l).2.1).1 ((gl : Int) + st.lineOff)
    (fun cl hcl => ⟨r, hrm, hcl⟩)
  have hall := allText_append _ _ _ _ (allText_append _ _ _ _ hb hname) hc
  simp only [rIter]
  split
  · split
    · exact hall
    · exact hall
  · exact hall

theorem rLoop_text (RS : List Repl) (chunk : Text) (gl cs : Nat) : ∀ (rs : List Repl) (st : RSt) (l : LSt), LPos cs chunk st l →
    (∀ r ∈ rs, r ∈ RS) →
    AllText RS chunk (rLoop chunk gl (cs + chunk.length) rs st l).2.1 := by
  intro rs
  induction rs with
  | nil => intro st l _ _; exact allText_nil _ _
  | cons r rs ih =>
    intro st l hl hrs
    have hrs' : ∀ x ∈ rs, x ∈ RS := fun x hx => hrs x (List.mem_cons_of_mem _ hx)
    simp only [rLoop]
    split
    · rename_i hr
      have a1 := rIter_text RS chunk gl cs r rs st l hl hr (hrs r (by simp))
      obtain ⟨_, a2⟩ := rIter_ne chunk gl cs r rs st l hl hr
      split
      · rename_i evs st' heq
        rw [heq] at a1; exact a1
      · rename_i evs st' l' heq
        rw [heq] at a1 a2
        exact allText_append _ _ _ _ a1 (ih st' l' a2 hrs')
    · exact allText_nil _ _

/-- every chunk delivered while an inner chunk is processed carries a non-empty slice of the inner text or a line of the content
of a pending replacement -/
theorem rOnChunk_text (RS : List Repl) (st : RSt) (chunk : Text) (m : Mapping) (hrest : ∀ r ∈ st.rest, r ∈ RS) :
    AllText RS chunk (rOnChunk st chunk m).2 := by
  unfold rOnChunk
  dsimp only
  split
  · exact allText_nil _ _
  · rename_i st1 l1 hstart
    have h1 : LPos st.pos chunk st1 l1 ∧ st1.rest = st.rest := by
      split at hstart
      · rename_i e hskip
        split at hstart
        · cases hstart
        · rename_i hlt
          simp only [Option.some.injEq, Prod.mk.injEq] at hstart
          obtain ⟨e1, e2⟩ := hstart
          subst e1 e2
          have hpos : e > st.pos := by
            split at hskip
            · split at hskip
              · simp only [Option.some.injEq] at hskip; subst hskip; assumption
              · cases hskip
            · cases hskip
          refine ⟨⟨?_, by simp only; omega⟩, by rw [colShift_rest']⟩
          unfold colShift; split <;> simp only <;> omega
      · simp only [Option.some.injEq, Prod.mk.injEq] at hstart
        obtain ⟨e1, e2⟩ := hstart
        subst e1 e2
        exact ⟨⟨by simp, Nat.zero_le _⟩, rfl⟩
    have a1 := rLoop_text RS chunk m.gl st.pos st1.rest st1 l1 h1.1 (by rw [h1.2]; exact hrest)
    split
    · rename_i st2 evs heq
      rw [heq] at a1; exact a1
    · rename_i st2 evs l2 heq
      rw [heq] at a1
      refine allText_append _ _ _ _ a1 ?_
      split
      · rename_i hlt
        intro t mm h
        simp only [List.mem_singleton, Ev.chunk.injEq] at h
        obtain ⟨rfl, _⟩ := h
        rw [← bsub_to_end chunk l2.chunkPos]
        exact Or.inl ⟨l2.chunkPos, chunk.length, hlt, Nat.le_refl _, rfl⟩
      · exact allText_nil _ _

end Rs
