import RsModel.Lemmas.AttrConcat
/-!
# C11, stream clause: indices are announced before they are used, densely from zero

`DeclOK ns nn evs`: with `ns` sources and `nn` names announced so far, every source (name) event of `evs` announces exactly the
next index, and every chunk uses only indices announced earlier in the stream.
-/
namespace Rs

def DeclOK : Nat → Nat → List Ev → Prop
  | _, _, [] => True
  | ns, nn, .chunk _ m :: es => (∀ o, m.orig = some o → o.src < ns ∧ ∀ k, o.name = some k → k < nn) ∧ DeclOK ns nn es
  | ns, nn, .source i _ _ :: es => i = ns ∧ DeclOK (ns + 1) nn es
  | ns, nn, .name i _ :: es => i = nn ∧ DeclOK ns (nn + 1) es

def cntS : List Ev → Nat
  | [] => 0
  | .source _ _ _ :: es => cntS es + 1
  | _ :: es => cntS es

def cntN : List Ev → Nat
  | [] => 0
  | .name _ _ :: es => cntN es + 1
  | _ :: es => cntN es

theorem cntS_append (a b : List Ev) : cntS (a ++ b) = cntS a + cntS b := by
  induction a with
  | nil => simp [cntS]
  | cons e es ih => cases e <;> simp only [List.cons_append, cntS, ih] <;> omega

theorem cntN_append (a b : List Ev) : cntN (a ++ b) = cntN a + cntN b := by
  induction a with
  | nil => simp [cntN]
  | cons e es ih => cases e <;> simp only [List.cons_append, cntN, ih] <;> omega

theorem declOK_append : ∀ (a b : List Ev) (ns nn : Nat),
    DeclOK ns nn (a ++ b) ↔ DeclOK ns nn a ∧ DeclOK (ns + cntS a) (nn + cntN a) b := by
  intro a
  induction a with
  | nil => intro b ns nn; simp [DeclOK, cntS, cntN]
  | cons e es ih =>
    intro b ns nn
    cases e with
    | chunk t m => simp only [List.cons_append, DeclOK, ih, cntS, cntN]; exact and_assoc.symm
    | source i s c =>
      simp only [List.cons_append, DeclOK, ih, cntS, cntN]
      have e1 : ns + 1 + cntS es = ns + (cntS es + 1) := by omega
      rw [e1]; exact and_assoc.symm
    | name i n =>
      simp only [List.cons_append, DeclOK, ih, cntS, cntN]
      have e1 : nn + 1 + cntN es = nn + (cntN es + 1) := by omega
      rw [e1]; exact and_assoc.symm

/-- the usable indices only grow -/
theorem declOK_mono : ∀ (evs : List Ev) (ns nn ns' nn' : Nat), cntS evs = 0 → cntN evs = 0 → ns ≤ ns' → nn ≤ nn' →
    DeclOK ns nn evs → DeclOK ns' nn' evs := by
  intro evs
  induction evs with
  | nil => intros; trivial
  | cons e es ih =>
    intro ns nn ns' nn' h1 h2 hs hn h
    cases e with
    | chunk t m =>
      simp only [cntS, cntN] at h1 h2
      exact ⟨fun o ho => ⟨by have := (h.1 o ho).1; omega, fun k hk => by have := (h.1 o ho).2 k hk; omega⟩, ih _ _ _ _ h1 h2 hs hn h.2⟩
    | source i s c => simp [cntS] at h1
    | name i n => simp [cntN] at h2

/-- a list of chunks whose original locations all satisfy `P` -/
def ChunkOrigs (P : Orig → Prop) (evs : List Ev) : Prop := ∀ e ∈ evs, ∃ t m, e = Ev.chunk t m ∧ ∀ o, m.orig = some o → P o

def IdxLt (ns nn : Nat) (o : Orig) : Prop := o.src < ns ∧ ∀ k, o.name = some k → k < nn

theorem chunkOrigs_nil (P : Orig → Prop) : ChunkOrigs P [] := fun e he => by simp at he

theorem chunkOrigs_append (P : Orig → Prop) (a b : List Ev) (ha : ChunkOrigs P a) (hb : ChunkOrigs P b) : ChunkOrigs P (a ++ b) := by
  intro e he
  rcases List.mem_append.1 he with h | h
  · exact ha e h
  · exact hb e h

theorem chunkOrigs_single (P : Orig → Prop) (t : Option Text) (m : Mapping) (h : ∀ o, m.orig = some o → P o) : ChunkOrigs P [Ev.chunk t m] := by
  intro e he
  simp only [List.mem_singleton] at he
  exact ⟨t, m, he, h⟩

theorem chunkOrigs_cons (P : Orig → Prop) (t : Option Text) (m : Mapping) (es : List Ev) (h : ∀ o, m.orig = some o → P o) (hs : ChunkOrigs P es) :
    ChunkOrigs P (Ev.chunk t m :: es) := chunkOrigs_append P [_] es (chunkOrigs_single P t m h) hs

theorem chunkOrigs_cnt (P : Orig → Prop) : ∀ (evs : List Ev), ChunkOrigs P evs → cntS evs = 0 ∧ cntN evs = 0 := by
  intro evs
  induction evs with
  | nil => intro _; exact ⟨rfl, rfl⟩
  | cons e es ih =>
    intro h
    obtain ⟨t, m, rfl, _⟩ := h e (by simp)
    simp only [cntS, cntN]
    exact ih (fun x hx => h x (by simp [hx]))

theorem declOK_chunks (ns nn : Nat) : ∀ (evs : List Ev), ChunkOrigs (IdxLt ns nn) evs → DeclOK ns nn evs := by
  intro evs
  induction evs with
  | nil => intro _; trivial
  | cons e es ih =>
    intro h
    obtain ⟨t, m, rfl, hm⟩ := h e (by simp)
    exact ⟨hm, ih (fun x hx => h x (by simp [hx]))⟩

/-! ## leaves -/

theorem rawChunks_origs (P : Orig → Prop) : ∀ (ls : List Text) (l : Nat), ChunkOrigs P (rawChunks l ls) := by
  intro ls
  induction ls with
  | nil => intro l; exact chunkOrigs_nil P
  | cons t ts ih => intro l; exact chunkOrigs_cons P _ _ _ (fun o ho => by cases ho) (ih _)

theorem streamRaw_declOK (t : Text) (o : Opts) (ns nn : Nat) : DeclOK ns nn (streamRaw t o).evs := by
  unfold streamRaw
  split
  · trivial
  · exact declOK_chunks ns nn _ (rawChunks_origs _ _ _)

theorem origTokChunks_origs (final : Bool) : ∀ (toks : List Text) (l c : Nat), ChunkOrigs (IdxLt 1 0) (origTokChunks final l c toks).1 := by
  intro toks
  induction toks with
  | nil => intro l c; exact chunkOrigs_nil _
  | cons tok toks ih =>
    intro l c
    simp only [origTokChunks]
    apply chunkOrigs_append
    · split
      · split
        · exact chunkOrigs_nil _
        · exact chunkOrigs_single _ _ _ (fun o ho => by cases ho)
      · exact chunkOrigs_single _ _ _ (fun o ho => by
          simp only [Option.some.injEq] at ho; subst ho; exact ⟨Nat.zero_lt_one, fun k hk => by cases hk⟩)
    · split
      · exact ih _ _
      · exact ih _ _

theorem origLineChunks_origs : ∀ (ls : List Text) (l : Nat), ChunkOrigs (IdxLt 1 0) (origLineChunks l ls) := by
  intro ls
  induction ls with
  | nil => intro l; exact chunkOrigs_nil _
  | cons t ts ih =>
    intro l
    exact chunkOrigs_cons _ _ _ _ (fun o ho => by
      simp only [Option.some.injEq] at ho; subst ho; exact ⟨Nat.zero_lt_one, fun k hk => by cases hk⟩) (ih _)

theorem origFinalLines_origs (a b : Nat) : ChunkOrigs (IdxLt 1 0) (origFinalLines a b) := by
  intro e he
  simp only [origFinalLines, List.mem_map, List.mem_range] at he
  obtain ⟨k, _, rfl⟩ := he
  exact ⟨_, _, rfl, fun o ho => by
    simp only [Option.some.injEq] at ho; subst ho; exact ⟨Nat.zero_lt_one, fun k hk => by cases hk⟩⟩

theorem streamOriginal_declOK (t name : Text) (o : Opts) : DeclOK 0 0 (streamOriginal t name o).evs := by
  unfold streamOriginal
  dsimp only
  split
  · exact ⟨rfl, declOK_chunks 1 0 _ (origTokChunks_origs _ _ _ _)⟩
  · split
    · split
      · exact ⟨rfl, declOK_chunks 1 0 _ (origFinalLines_origs _ _)⟩
      · exact ⟨rfl, declOK_chunks 1 0 _ (origFinalLines_origs _ _)⟩
    · exact ⟨rfl, declOK_chunks 1 0 _ (origLineChunks_origs _ _)⟩

end Rs
