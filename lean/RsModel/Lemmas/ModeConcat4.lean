import RsModel.Lemmas.ModeConcat3
import RsModel.Lemmas.PosFinalTree
/-! # ConcatSource lookups, part 4: bounds on the delivered positions and the pending-close invariant -/
namespace Rs

theorem chunkMs_keys : ∀ (evs : List Ev), ∀ m ∈ chunkMs evs, ∃ k ∈ evsKeys evs, k.2 = (m.gl, m.gc) := by
  intro evs
  induction evs with
  | nil => intro m hm; simp [chunkMs] at hm
  | cons e es ih =>
    intro m hm
    cases e with
    | chunk t m0 =>
      simp only [chunkMs, List.mem_cons] at hm
      rcases hm with rfl | hm
      · exact ⟨(t, m.gl, m.gc), by simp [evsKeys, Ev.key], rfl⟩
      · obtain ⟨k, hk, e⟩ := ih m hm
        exact ⟨k, by simp only [evsKeys, List.filterMap_cons, Ev.key, List.mem_cons]; exact Or.inr hk, e⟩
    | source i s c =>
      obtain ⟨k, hk, e⟩ := ih m (by simpa [chunkMs] using hm)
      exact ⟨k, by simpa [evsKeys, Ev.key] using hk, e⟩
    | name i n =>
      obtain ⟨k, hk, e⟩ := ih m (by simpa [chunkMs] using hm)
      exact ⟨k, by simpa [evsKeys, Ev.key] using hk, e⟩

/-- every position of the text lies between the start and the end -/
theorem isPos_bounds (T : Text) (p : Pos) (h : IsPos T p) : posLe startPos p ∧ posLe p (adv startPos T) := by
  obtain ⟨k, hk, rfl⟩ := h
  refine ⟨adv_ge _ _, ?_⟩
  have : adv startPos T = adv (adv startPos (T.take k)) (T.drop k) := by rw [← adv_append, List.take_append_drop]
  rw [this]
  exact adv_ge _ _

def Bound (prev : List Mapping) (P : Pos) : Prop := ∀ m ∈ prev, posLe ⟨m.gl, m.gc⟩ P

/-- nothing delivered so far can answer a lookup on a later line -/
theorem bound_none_above (prev : List Mapping) (P : Pos) (hb : Bound prev P) (L C : Nat) (h : P.line < L) : lookupGo L C none prev = none := by
  apply lookupGo_skip
  intro m hm hmatch
  rcases hb m hm with g | g <;> simp only at g <;> omega

/-! ### positions delivered for one child and for the children after it -/

theorem finOK_ms (T : Text) (c : SResult) (h : FinOK T c) : ∀ m ∈ chunkMs c.evs, IsPos T ⟨m.gl, m.gc⟩ := by
  intro m hm
  obtain ⟨k, hk, e⟩ := chunkMs_keys c.evs m hm
  have := h.1 k hk
  rw [e] at this
  exact this

theorem concatEvs_ge (final : Bool) : ∀ (evs : List Ev) (st : CSt), (∀ m ∈ chunkMs evs, 1 ≤ m.gl) →
    ∀ x ∈ chunkMs (concatEvs final st evs).2, posLe ⟨st.lineOff + 1, st.colOff⟩ ⟨x.gl, x.gc⟩ := by
  intro evs
  induction evs with
  | nil => intro st _ x hx; simp [concatEvs, chunkMs] at hx
  | cons e es ih =>
    intro st h1 x hx
    simp only [concatEvs, chunkMs_app, List.mem_append] at hx
    cases e with
    | chunk t m =>
      have hm1 := h1 m (by simp [chunkMs])
      rcases hx with hx | hx
      · rw [concatEv_chunk_ms] at hx
        simp only [List.mem_append, List.mem_singleton] at hx
        rcases hx with hx | rfl
        · split at hx
          · simp only [List.mem_singleton] at hx; subst hx; exact Or.inr ⟨rfl, Nat.le_refl _⟩
          · simp at hx
        · by_cases hl : m.gl = 1
          · exact Or.inr ⟨by simp only; omega, by simp [hl]⟩
          · exact Or.inl (by simp only; omega)
      · have := ih (concatEv final st (.chunk t m)).1 (fun y hy => h1 y (by simp [chunkMs, hy])) x hx
        rw [concatEv_chunk_st] at this
        exact this
    | source i s c =>
      obtain ⟨d1, _, d3, d4, _⟩ := concatEv_decl_ms final st (.source i s c) rfl
      rcases hx with hx | hx
      · rw [d1] at hx; simp at hx
      · have := ih (concatEv final st (.source i s c)).1 (fun y hy => h1 y (by simpa [chunkMs] using hy)) x hx
        rw [d3, d4] at this; exact this
    | name i n =>
      obtain ⟨d1, _, d3, d4, _⟩ := concatEv_decl_ms final st (.name i n) rfl
      rcases hx with hx | hx
      · rw [d1] at hx; simp at hx
      · have := ih (concatEv final st (.name i n)).1 (fun y hy => h1 y (by simpa [chunkMs] using hy)) x hx
        rw [d3, d4] at this; exact this

theorem isPos_line_ge (T : Text) (p : Pos) (h : IsPos T p) : 1 ≤ p.line := by
  have e1 : startPos.line = 1 := rfl
  rcases (isPos_bounds T p h).1 with g | g <;> omega

theorem concatChild_ms_ge (final : Bool) (st : CSt) (T : Text) (c : SResult) (h : FinOK T c) :
    ∀ x ∈ chunkMs (concatChild final st c).2, posLe ⟨st.lineOff + 1, st.colOff⟩ ⟨x.gl, x.gc⟩ := by
  intro x hx
  obtain ⟨s1, s2, _, _, _⟩ := concatEvs_state final c.evs (childStart st)
  simp only [concatChild, chunkMs_app, List.mem_append] at hx
  rcases hx with hx | hx
  · exact concatEvs_ge final c.evs (childStart st) (fun m hm => isPos_line_ge T _ (finOK_ms T c h m hm)) x hx
  · split at hx
    · simp only [chunkMs, List.mem_singleton] at hx
      subst hx
      change posLe _ ⟨(concatEvs final (childStart st) c.evs).1.lineOff + 1, (concatEvs final (childStart st) c.evs).1.colOff⟩
      rw [s1, s2]
      exact Or.inr ⟨rfl, Nat.le_refl _⟩
    · simp [chunkMs] at hx

theorem posLe_refl (p : Pos) : posLe p p := Or.inr ⟨rfl, Nat.le_refl _⟩

theorem concatGo_ms_ge (final : Bool) : ∀ (cs : List SResult) (Ts : List Text), FinAll cs Ts → ∀ (st : CSt) (gpre : Text),
    FRel st (adv startPos gpre) → ∀ x ∈ chunkMs (concatGo final st cs).2, posLe (adv startPos gpre) ⟨x.gl, x.gc⟩ := by
  intro cs Ts h
  induction h with
  | nil => intro st gpre _ x hx; simp [concatGo, chunkMs] at hx
  | cons r T rs Ts hr _ ih =>
    intro st gpre hrel x hx
    simp only [concatGo, chunkMs_app, List.mem_append] at hx
    rcases hx with hx | hx
    · have := concatChild_ms_ge final st T r hr x hx
      rw [hrel.1, hrel.2] at this
      exact this
    · obtain ⟨_, b⟩ := concatChild_fin final st _ gpre T r hrel rfl hr
      have := ih _ (gpre ++ T) b x hx
      rw [adv_append] at this
      exact posLe_trans (adv_ge T _) this

theorem concatChild_ms_le (final : Bool) (st : CSt) (gpre T : Text) (c : SResult) (hrel : FRel st (adv startPos gpre)) (h : FinOK T c) :
    ∀ x ∈ chunkMs (concatChild final st c).2, posLe ⟨x.gl, x.gc⟩ (adv startPos (gpre ++ T)) := by
  intro x hx
  obtain ⟨a, _⟩ := concatChild_fin final st _ gpre T c hrel rfl h
  obtain ⟨k, hk, e⟩ := chunkMs_keys _ x hx
  have := a k hk
  rw [e] at this
  exact (isPos_bounds _ _ this).2

theorem charPos_lt_end' (p : Pos) (t : Text) (j : Nat) (hj : j < t.length) : posLt (adv p (t.take j)) (adv p t) := by
  have hsplit : t = t.take j ++ t.drop j := (List.take_append_drop j t).symm
  have hd : t.drop j = t[j] :: t.drop (j + 1) := List.drop_eq_getElem_cons hj
  conv => rhs; rw [hsplit, adv_append, hd]
  exact adv_gt _ _ _

/-- the children after the one the position lies in cannot answer the lookup -/
theorem later_skip (final : Bool) (cs : List SResult) (Ts : List Text) (h : FinAll cs Ts) (st : CSt) (gpre : Text)
    (hrel : FRel st (adv startPos gpre)) (q : Pos) (hq : posLt q (adv startPos gpre)) (acc : Option (Option Orig)) :
    lookupGo q.line q.col acc (chunkMs (concatGo final st cs).2) = acc := by
  apply lookupGo_skip
  intro m hm hmatch
  have := concatGo_ms_ge final cs Ts h st gpre hrel m hm
  rcases hq with g | g <;> rcases this with g' | g' <;> simp only at g' <;> omega

/-- the generated position of a child-local position -/
theorem shift_pos (st : CSt) (gpre : Text) (hrel : FRel st (adv startPos gpre)) (x : Text) :
    adv startPos (gpre ++ x) = ⟨shiftL st (adv startPos x).line, shiftC st (adv startPos x).line (adv startPos x).col⟩ := by
  rw [adv_append, adv_shift x (adv startPos gpre)]
  unfold shiftL shiftC
  obtain ⟨r1, r2⟩ := hrel
  have h1 : 1 ≤ (adv startPos x).line := by
    have e1 : startPos.line = 1 := rfl
    rcases adv_ge x startPos with g | g <;> omega
  simp only [Pos.mk.injEq]
  refine ⟨by omega, ?_⟩
  by_cases h : (adv startPos x).line = 1 <;> simp [h, r2]

end Rs
