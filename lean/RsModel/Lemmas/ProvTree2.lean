import RsModel.Lemmas.ProvTree
/-!
# C04 for trees of OriginalSource and raw leaves under ConcatSource (columns = true)

`prov s`: for every byte of `source()`, the file it was copied from, that file's text and the byte's offset in it — computed from
the tree alone.  `GoodN r p`: the resolved attribution `r` is right for a byte of provenance `p`.
-/
namespace Rs

mutual
def Src.OrigTree : Src → Prop
  | .raw _ _ _ => True
  | .rawStr _ => True
  | .rawBuf _ _ => True
  | .orig _ _ => True
  | .concat cs => cs.OrigTrees
  | _ => False
def SrcList.OrigTrees : SrcList → Prop
  | .nil => True
  | .cons s r => s.OrigTree ∧ r.OrigTrees
end

/-- file name, file text, byte offset in it; `none` = raw text -/
abbrev Prov := Option (Text × Text × Nat)

mutual
def Src.prov : Src → List Prov
  | .orig t name => (List.range t.length).map fun k => some (name, t, k)
  | .concat cs => cs.provs
  | .raw _ _ lossy => List.replicate lossy.length none
  | .rawStr t => List.replicate t.length none
  | .rawBuf _ lossy => List.replicate lossy.length none
  | _ => []
def SrcList.provs : SrcList → List Prov
  | .nil => []
  | .cons s r => s.prov ++ r.provs
end

/-- the attribution `r` of a byte is right for its provenance: raw text is unmapped; a byte copied from offset `k` of file
`name` with text `t` resolves to that file with that content, to the byte's own line, and to the column at which the potential
token containing the byte starts (so never after the byte's own column, and exactly its column when it starts a token), without
name — or it is the line break of an empty line, which is unmapped -/
def GoodN (r : Option RLoc) : Prov → Prop
  | none => r = none
  | some (name, t, k) =>
    (r = none ∧ t[k]? = some NL ∧ (adv startPos (t.take k)).col = 0)
    ∨ ∃ k' len, k' ≤ k ∧ k < k' + len ∧ (k', len) ∈ tokOffs 0 (tokens t) ∧ k - k' ≤ (adv startPos (t.take k)).col
        ∧ r = some ⟨some (name, some t), (adv startPos (t.take k)).line, (adv startPos (t.take k)).col - (k - k'), none⟩

def AllGood : List (Option RLoc) → List Prov → Prop
  | [], [] => True
  | r :: rs, p :: ps => GoodN r p ∧ AllGood rs ps
  | _, _ => False

theorem allGood_append : ∀ (a : List (Option RLoc)) (b : List Prov) (c : List (Option RLoc)) (d : List Prov),
    AllGood a b → AllGood c d → AllGood (a ++ c) (b ++ d) := by
  intro a
  induction a with
  | nil => intro b c d h1 h2; cases b with | nil => simpa using h2 | cons _ _ => simp [AllGood] at h1
  | cons x xs ih =>
    intro b c d h1 h2
    cases b with
    | nil => simp [AllGood] at h1
    | cons y ys => exact ⟨h1.1, ih ys c d h1.2 h2⟩

theorem allGood_of_index : ∀ (a : List (Option RLoc)) (b : List Prov), a.length = b.length →
    (∀ (j : Nat) r p, a[j]? = some r → b[j]? = some p → GoodN r p) → AllGood a b := by
  intro a
  induction a with
  | nil => intro b hl _; cases b with | nil => trivial | cons _ _ => simp at hl
  | cons x xs ih =>
    intro b hl h
    cases b with
    | nil => simp at hl
    | cons y ys =>
      refine ⟨h 0 x y rfl rfl, ih ys (by simpa using hl) (fun j r p hr hp => h (j + 1) r p (by simpa using hr) (by simpa using hp))⟩

theorem allGood_index : ∀ (a : List (Option RLoc)) (b : List Prov), AllGood a b →
    a.length = b.length ∧ ∀ (j : Nat) r p, a[j]? = some r → b[j]? = some p → GoodN r p := by
  intro a
  induction a with
  | nil => intro b h; cases b with | nil => exact ⟨rfl, fun j r p hr => by simp at hr⟩ | cons _ _ => simp [AllGood] at h
  | cons x xs ih =>
    intro b h
    cases b with
    | nil => simp [AllGood] at h
    | cons y ys =>
      obtain ⟨i1, i2⟩ := ih ys h.2
      refine ⟨by simp [i1], fun j r p hr hp => ?_⟩
      cases j with
      | zero => simp at hr hp; subst hr hp; exact h.1
      | succ j => exact i2 j r p (by simpa using hr) (by simpa using hp)

/-! ## leaves -/

theorem attrN_chunkonly (P : Orig → Prop) (S : SrcTbl) (N : NameTbl) : ∀ (evs : List Ev), ChunkOrigs P evs →
    attrN S N evs = (attrOf evs).map (Option.map (resolveO S N)) := by
  intro evs
  induction evs with
  | nil => intro _; rfl
  | cons e es ih =>
    intro h
    obtain ⟨t, m, rfl, _⟩ := h e (by simp)
    have := ih (fun x hx => h x (by simp [hx]))
    cases t with
    | none => simp only [attrN, attrOf]; exact this
    | some t => simp only [attrN, attrOf, List.map_append, List.map_replicate, this]

theorem attrOf_length : ∀ (evs : List Ev), (attrOf evs).length = (evsText evs).length := by
  intro evs
  induction evs with
  | nil => rfl
  | cons e es ih =>
    rw [evsText_cons]
    cases e with
    | chunk t m => cases t <;> simp [attrOf, Ev.text, ih]
    | source i s c => simp [attrOf, Ev.text, ih]
    | name i n => simp [attrOf, Ev.text, ih]

theorem raw_attrN (t : Text) : attrN emptyS emptyN (streamRaw t ⟨true, false⟩).evs = List.replicate t.length none := by
  rw [attrN_chunkonly (fun _ => True) emptyS emptyN _ (by simp only [streamRaw, Bool.false_eq_true, if_false]; exact rawChunks_origs _ _ _)]
  simp only [streamRaw, Bool.false_eq_true, if_false, rawChunks_eq, attrOf_lineEvs_none, splitLines_join, List.map_replicate, Option.map_none]

theorem allGood_none (n : Nat) : AllGood (List.replicate n none) (List.replicate n none) := by
  induction n with
  | zero => trivial
  | succ n ih => exact ⟨rfl, ih⟩

theorem orig_good (t name : Text) : AllGood (attrN emptyS emptyN (streamOriginal t name ⟨true, false⟩).evs) ((List.range t.length).map fun k => some (name, t, k)) := by
  have hA : attrN emptyS emptyN (streamOriginal t name ⟨true, false⟩).evs
      = (attrOf (streamOriginal t name ⟨true, false⟩).evs).map (Option.map (resolveO (upd emptyS 0 (name, some t)) emptyN)) := by
    simp only [streamOriginal, if_true, attrN, attrOf]
    exact attrN_chunkonly _ _ _ _ (origTokChunks_origs false _ _ _)
  rw [hA]
  have hlen : (attrOf (streamOriginal t name ⟨true, false⟩).evs).length = t.length := by
    rw [attrOf_length, streamOriginal_text]
  apply allGood_of_index
  · simp [hlen]
  · intro j r p hr hp
    simp only [List.getElem?_map, List.getElem?_range, Option.map_eq_some_iff] at hr hp
    obtain ⟨a, ha, rfl⟩ := hr
    obtain ⟨k, hk, rfl⟩ := hp
    have hjlt : j < t.length := by
      rcases Nat.lt_or_ge j t.length with h | h
      · exact h
      · simp [h] at hk
    have hkj : k = j := by simp [hjlt] at hk; exact hk.symm
    subst hkj
    rcases original_attr t name k hjlt with ⟨h1, h2, h3⟩ | ⟨k', len, h1, h1', h2, h3, h4⟩
    · rw [ha] at h1; cases h1
      exact Or.inl ⟨rfl, h2, h3⟩
    · rw [ha] at h4; cases h4
      refine Or.inr ⟨k', len, h1, h1', h2, h3, ?_⟩
      simp [resolveO, upd]

/-! ## trees -/

mutual
theorem Src.origTree_nc : ∀ (s : Src), s.OrigTree → s.NoCached
  | .raw .., _ | .rawStr .., _ | .rawBuf .., _ | .orig .., _ => trivial
  | .concat cs, h => by simp only [Src.OrigTree] at h; exact SrcList.origTrees_nc cs h
  | .sms .., h | .replace .., h | .cached .., h => by simp [Src.OrigTree] at h
theorem SrcList.origTrees_nc : ∀ (l : SrcList), l.OrigTrees → l.NoCachedL
  | .nil, _ => trivial
  | .cons s r, h => by simp only [SrcList.OrigTrees] at h; exact ⟨Src.origTree_nc s h.1, SrcList.origTrees_nc r h.2⟩
end

mutual
/-- **the normal stream of such a tree attributes every byte rightly** -/
theorem Src.prov_stream (cons : Text → Option Text) : ∀ (s : Src), s.OrigTree → Src.WD cons true s → ∀ σ, AllGood (s.attr true σ) s.prov
  | .raw _ _ lossy, _, _, σ => by simp only [Src.attr, Src.stream, Src.prov, raw_attrN]; exact allGood_none _
  | .rawStr t, _, _, σ => by simp only [Src.attr, Src.stream, Src.prov, raw_attrN]; exact allGood_none _
  | .rawBuf _ lossy, _, _, σ => by simp only [Src.attr, Src.stream, Src.prov, raw_attrN]; exact allGood_none _
  | .orig t name, _, _, σ => by simp only [Src.attr, Src.stream, Src.prov]; exact orig_good t name
  | .concat cs, h, hw, σ => by
    simp only [Src.OrigTree] at h
    simp only [Src.WD] at hw
    rw [Src.attr_concat cons true cs hw σ]
    simp only [Src.prov]
    exact SrcList.prov_streams cons cs h hw σ
  | .sms .., h, _, _ | .replace .., h, _, _ | .cached .., h, _, _ => by simp [Src.OrigTree] at h
theorem SrcList.prov_streams (cons : Text → Option Text) : ∀ (l : SrcList), l.OrigTrees → SrcList.WD cons true l → ∀ σ,
    AllGood ((l.streams ⟨true, false⟩ σ).1.map fun r => attrN emptyS emptyN r.evs).flatten l.provs
  | .nil, _, _, σ => by simp [SrcList.streams, SrcList.provs, AllGood]
  | .cons s r, h, hw, σ => by
    simp only [SrcList.OrigTrees] at h
    simp only [SrcList.WD] at hw
    simp only [SrcList.streams, SrcList.provs, List.map_cons, List.flatten_cons]
    rw [(Src.stream_nc s ⟨true, false⟩ σ (Src.origTree_nc s h.1)).1]
    exact allGood_append _ _ _ _ (Src.prov_stream cons s h.1 hw.1 σ) (SrcList.prov_streams cons r h.2 hw.2 σ)
end

end Rs
