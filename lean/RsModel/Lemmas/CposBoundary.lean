import RsModel.Lemmas.SMText
import RsModel.Lemmas.RopeSlice
/-! # `WithIndices`: the byte offsets it computes are char boundaries (precondition of the unchecked slicing) -/
namespace Rs

theorem charStartsFrom_noncont : ∀ (t : Text) (i : Nat), ∀ x ∈ charStartsFrom i t, ∃ b, t[x - i]? = some b ∧ isCont b = false := by
  intro t
  induction t with
  | nil => intro i x hx; simp [charStartsFrom] at hx
  | cons b bs ih =>
    intro i x hx
    simp only [charStartsFrom] at hx
    split at hx
    · obtain ⟨c, hc1, hc2⟩ := ih (i + 1) x hx
      have hge := (charStartsFrom_bounds bs (i + 1) x hx).1
      refine ⟨c, ?_, hc2⟩
      have : x - i = (x - (i + 1)) + 1 := by omega
      rw [this, List.getElem?_cons_succ]; exact hc1
    · rename_i hb
      simp only [List.mem_cons] at hx
      rcases hx with rfl | hx
      · exact ⟨b, by simp, by simpa using hb⟩
      · obtain ⟨c, hc1, hc2⟩ := ih (i + 1) x hx
        have hge := (charStartsFrom_bounds bs (i + 1) x hx).1
        refine ⟨c, ?_, hc2⟩
        have : x - i = (x - (i + 1)) + 1 := by omega
        rw [this, List.getElem?_cons_succ]; exact hc1

/-- the offset of every char index (clamped to the end) is a char boundary -/
theorem cpos_boundary (t : Text) (k : Nat) : isBoundary t (cpos t k) = true := by
  unfold cpos charStarts
  by_cases hk : k < (charStartsFrom 0 t).length
  · simp only [List.getD_eq_getElem?_getD, List.getElem?_eq_getElem hk, Option.getD_some]
    obtain ⟨b, hb1, hb2⟩ := charStartsFrom_noncont t 0 _ (List.getElem_mem hk)
    unfold isBoundary
    split
    · rfl
    · rw [Nat.sub_zero] at hb1; rw [hb1]; simp [hb2]
  · have : (charStartsFrom 0 t)[k]? = none := by simp; omega
    simp only [List.getD_eq_getElem?_getD, this, Option.getD_none]
    exact Rope.isBoundary_len t

end Rs
