import RsModel.Lemmas.WarmTree
import RsModel.Lemmas.SMNames
import RsModel.Lemmas.ReplayMap
/-!
# `map()` twice on a tree with CachedSource nodes (C03 / C10)

The first `map()` streams the tree in text-less mode on cold caches: every CachedSource stores the map built from its subtree's
text-less stream.  The second `map()` finds those entries: every outermost CachedSource replays its text through the stored map with
the text-less splitter.  Both maps resolve every position of `source()` — through their own `sources` / `names` tables — to the same
file name, original line, original column and name.
-/
namespace Rs

mutual
theorem Src.strip_modeHypC : ∀ (s : Src), s.ModeHypC → s.strip.ModeHypC
  | .raw .., _ | .rawStr .., _ | .rawBuf .., _ | .orig .., _ => trivial
  | .sms .., h => h
  | .concat cs, h => by simp only [Src.ModeHypC] at h; simp only [Src.strip, Src.ModeHypC]; exact SrcList.stripL_modeHypsC cs h
  | .replace inner rs, h => by
    simp only [Src.ModeHypC] at h
    simp only [Src.strip, Src.ModeHypC]
    exact ⟨Src.strip_modeHypC inner h.1, h.2.1, by rw [Src.strip_src]; exact h.2.2⟩
  | .cached _ inner, h => by simp only [Src.ModeHypC] at h; simp only [Src.strip]; exact Src.strip_modeHypC inner h.1
theorem SrcList.stripL_modeHypsC : ∀ (l : SrcList), l.ModeHypsC → l.stripL.ModeHypsC
  | .nil, _ => trivial
  | .cons s r, h => ⟨Src.strip_modeHypC s h.1, SrcList.stripL_modeHypsC r h.2⟩
end

mutual
/-- mapping values of the text-less stream of every cached subtree are below 2³¹ (the codec's domain) -/
def Src.SmallF : Src → Prop
  | .concat cs => cs.SmallFs
  | .cached _ inner => ∀ m ∈ chunkMs (inner.strip.stream ⟨true, true⟩ []).1.evs, m.small
  | _ => True
def SrcList.SmallFs : SrcList → Prop
  | .nil => True
  | .cons s r => s.SmallF ∧ r.SmallFs
end

theorem cold_nil (ids : List Nat) : Cold [] ids := fun _ _ _ => rfl

/-- the replay of the map stored by a text-less fill, streamed in normal mode, resolves every byte like the subtree's own stream;
and the replay leaf is in the domain of C03 -/
theorem replayF_leaf (id : Nat) (inner : Src) (h : inner.strip.ModeHypC) (ha : IsAscii inner.src) (hl : inner.src.length ≤ USIZE_MAX)
    (hsmall : ∀ m ∈ chunkMs (inner.strip.stream ⟨true, true⟩ []).1.evs, m.small) :
    NA (((Src.cached id inner).warm ⟨true, true⟩).stream ⟨true, false⟩ []).1.evs = NA (inner.strip.stream ⟨true, false⟩ []).1.evs
    ∧ ((Src.cached id inner).warm ⟨true, true⟩).ModeHypC := by
  have hnc := Src.strip_nc inner
  obtain ⟨hn, _, hnodes⟩ := nc_facts inner.strip hnc
  have hcold : Cold [] inner.strip.ids := cold_nil _
  obtain ⟨b1, b2, b3, b4, b5, b6, b7⟩ := Src.base_factsC inner.strip h hn [] [] hcold hcold
  have hm3 := Src.m3c inner.strip h hn [] [] hcold hcold
  have hst := Src.strictC inner.strip h hn [] hcold
  rw [Src.strip_src] at b4 b7 hst
  simp only [Src.warm]
  cases hm : mapOfEvs true (inner.strip.stream ⟨true, true⟩ []).1.evs with
  | some sm =>
    obtain ⟨s1, s2, s3⟩ := stored_map_ok inner.src _ b7 hm3.sorted hst b6 hsmall sm hm
    refine ⟨?_, ⟨trivial, ha, hl, s1, s2, s3⟩⟩
    simp only [Src.stream]
    unfold NA
    rw [streamSM_attrN inner.src sm ha hl s1 s2 s3, List.map_map]
    have hnames := getMap_names inner.strip h hn [] [] hcold hcold false hsmall sm (by simp only [getMap]; exact hm)
    rw [Src.strip_src] at hnames
    rw [← hnames]
    apply List.map_congr_left
    intro a _
    cases a with
    | none => rfl
    | some o =>
      -- the stored map has no sourceRoot
      have hroot : sm.sourceRoot = none := by
        simp only [mapOfEvs] at hm
        split at hm
        · cases hm
        · simp only [Option.some.injEq] at hm; rw [← hm]
      simp only [Function.comp, Option.map_some, resolveSM, resolveMF, RLoc.toN, hroot, applyRoot, Option.some.injEq, NLoc.mk.injEq, and_true, true_and]
      cases sm.sources[o.src]? <;> rfl
  | none =>
    refine ⟨?_, trivial⟩
    simp only [Src.stream]
    have hnone := (getMap_attrC inner.strip h hn [] [] hcold hcold false hsmall).2 (by simp only [getMap]; exact hm)
    unfold NA
    rw [attrN_end_tables _ 0 0 emptyS emptyN b5, attrN_end_tables _ 0 0 emptyS emptyN (streamRaw_declOK inner.src ⟨true, false⟩ 0 0), hnone]
    have hraw : ∀ a ∈ attrOf (streamRaw inner.src ⟨true, false⟩).evs, a = none := by
      intro a ha'
      obtain ⟨m, hm1, rfl⟩ := attrOf_mem _ a ha'
      obtain ⟨t, ht⟩ := chunkMs_mem_ev _ m hm1
      simp only [streamRaw, Bool.false_eq_true, if_false] at ht
      exact rawChunks_unmapped _ _ t m ht
    have hlen : (attrOf (streamRaw inner.src ⟨true, false⟩).evs).length = inner.src.length := by
      have := attrOf_length (streamRaw inner.src ⟨true, false⟩).evs
      rw [this, streamRaw_text]
    have hrawAll : attrOf (streamRaw inner.src ⟨true, false⟩).evs = List.replicate inner.src.length none := by
      rw [← hlen]; exact List.eq_replicate_iff.2 ⟨rfl, hraw⟩
    rw [hrawAll, Src.strip_src]
    simp


mutual
theorem Src.warm_src : ∀ (s : Src) (o : Opts), (s.warm o).src = s.src
  | .raw .., _ | .rawStr .., _ | .rawBuf .., _ | .orig .., _ | .sms .., _ | .replace .., _ => rfl
  | .concat cs, o => by simp only [Src.warm, Src.src]; exact SrcList.warmL_srcs cs o
  | .cached _ inner, o => by simp only [Src.warm, Src.src]; split <;> rfl
theorem SrcList.warmL_srcs : ∀ (l : SrcList) (o : Opts), (l.warmL o).srcs = l.srcs
  | .nil, _ => rfl
  | .cons s r, o => by simp only [SrcList.warmL, SrcList.srcs]; rw [Src.warm_src s o, SrcList.warmL_srcs r o]
end

mutual
theorem Src.warmF_NA : ∀ (s : Src), s.ModeHypC → s.CachedOK → s.SmallF →
    NA ((s.warm ⟨true, true⟩).stream ⟨true, false⟩ []).1.evs = NA (s.strip.stream ⟨true, false⟩ []).1.evs
    ∧ (s.warm ⟨true, true⟩).ModeHypC
  | .raw .., _, _, _ | .rawStr .., _, _, _ | .rawBuf .., _, _, _ | .orig .., _, _, _ => ⟨rfl, trivial⟩
  | .sms t n map os inner rm, h, _, _ => ⟨rfl, h⟩
  | .concat .nil, _, _, _ => ⟨rfl, trivial⟩
  | .concat (.cons s rest), h, hk, hs => by
    simp only [Src.ModeHypC] at h
    simp only [Src.CachedOK] at hk
    simp only [Src.SmallF] at hs
    obtain ⟨b1, b2⟩ := SrcList.warmF_NAs (.cons s rest) h hk hs
    have hw := SrcList.warmL_nc (.cons s rest) ⟨true, true⟩ hk
    have hsn := SrcList.stripL_nc (.cons s rest)
    have hstrip := SrcList.stripL_modeHypsC (.cons s rest) h
    have i1 : (Src.concat ((SrcList.cons s rest).warmL ⟨true, true⟩)).IdxHyp := (Src.modeHypC_base (.concat _) (by simp only [Src.ModeHypC]; exact b2)).2.2
    have i2 : (Src.concat (SrcList.cons s rest).stripL).IdxHyp := (Src.modeHypC_base (.concat _) (by simp only [Src.ModeHypC]; exact hstrip)).2.2
    simp only [Src.IdxHyp] at i1 i2
    simp only [Src.warm, Src.strip, Src.ModeHypC]
    refine ⟨?_, b2⟩
    simp only [SrcList.warmL, SrcList.stripL] at b1 hw hsn i1 i2 ⊢
    rw [concat_NA_nc _ _ hw i1, concat_NA_nc _ _ hsn i2, b1]
  | .replace inner rs, h, hk, _ => by
    simp only [Src.CachedOK] at hk
    simp only [Src.warm, Src.strip]
    rw [Src.strip_of_nc inner hk]
    exact ⟨rfl, h⟩
  | .cached id inner, h, _, hs => by
    simp only [Src.ModeHypC] at h
    simp only [Src.SmallF] at hs
    obtain ⟨a, b⟩ := replayF_leaf id inner (Src.strip_modeHypC inner h.1) h.2.1 h.2.2 hs
    simp only [Src.strip]
    exact ⟨a, b⟩
theorem SrcList.warmF_NAs : ∀ (l : SrcList), l.ModeHypsC → l.CachedOKs → l.SmallFs →
    ((l.warmL ⟨true, true⟩).toList.map fun x => NA (x.stream ⟨true, false⟩ []).1.evs)
      = (l.stripL.toList.map fun x => NA (x.stream ⟨true, false⟩ []).1.evs)
    ∧ (l.warmL ⟨true, true⟩).ModeHypsC
  | .nil, _, _, _ => ⟨rfl, trivial⟩
  | .cons s r, h, hk, hs => by
    obtain ⟨a1, a2⟩ := Src.warmF_NA s h.1 hk.1 hs.1
    obtain ⟨b1, b2⟩ := SrcList.warmF_NAs r h.2 hk.2 hs.2
    simp only [SrcList.warmL, SrcList.stripL, SrcList.toList, List.map_cons, SrcList.ModeHypsC]
    exact ⟨by rw [a1, b1], ⟨a2, b2⟩⟩
end

/-- **`map()` twice** (columns = true): on a tree of the domain of C03 with CachedSource nodes at any depth (none beneath a
ReplaceSource), cold caches, the map returned by the second `get_map` — computed with every outermost CachedSource answering from
the entry the first call stored — resolves every position of `source()`, through its own `sources` / `names` tables, to the same
file name, original line, original column and name as the map returned by the first -/
theorem getMap_twice (s : Src) (σ : Store) (h : s.ModeHypC) (hk : s.CachedOK) (hs : s.SmallF) (hn : s.ids.Nodup) (hc : Cold σ s.ids)
    (f1 f2 : Bool)
    (hsmall1 : ∀ m ∈ chunkMs (s.stream ⟨true, true⟩ σ).1.evs, m.small)
    (hsmall2 : ∀ m ∈ chunkMs ((s.warm ⟨true, true⟩).stream ⟨true, true⟩ []).1.evs, m.small)
    (sm1 sm2 : SMap) (h1 : (getMap s ⟨true, f1⟩ σ).1 = some sm1) (h2 : (getMap s ⟨true, f2⟩ (getMap s ⟨true, f1⟩ σ).2).1 = some sm2) :
    (attrFrom (decode sm2.mappings) startPos s.src).map (Option.map (resolveMF sm2))
      = (attrFrom (decode sm1.mappings) startPos s.src).map (Option.map (resolveMF sm1)) := by
  -- first call: C03 at name level on cold caches
  have e1 := getMap_names s h hn σ [] hc (cold_nil _) f1 hsmall1 sm1 h1
  rw [Src.stream_strip s ⟨true, false⟩ [] hn (cold_nil _)] at e1
  -- second call: the stream of the replay tree
  have hfill := Src.stream_fills s ⟨true, true⟩ σ hk hn hc
  have h2' : (getMap (s.warm ⟨true, true⟩) ⟨true, f2⟩ []).1 = some sm2 := by
    simp only [getMap] at h2 ⊢
    rw [Src.stream_warm s ⟨true, true⟩ _ hfill] at h2
    exact h2
  obtain ⟨a1, a2⟩ := Src.warmF_NA s h hk hs
  have hwnc := Src.warm_nc s ⟨true, true⟩ hk
  obtain ⟨hwn, _, _⟩ := nc_facts _ hwnc
  have e2 := getMap_names (s.warm ⟨true, true⟩) a2 hwn [] [] (cold_nil _) (cold_nil _) f2 hsmall2 sm2 h2'
  rw [Src.warm_src] at e2
  rw [e2, e1]
  exact a1


mutual
theorem Src.strip_eraseIds : ∀ (s : Src), s.eraseIds.strip = s.strip
  | .raw .. | .rawStr .. | .rawBuf .. | .orig .. | .sms .. => rfl
  | .concat cs => by simp only [Src.eraseIds, Src.strip]; rw [SrcList.stripL_eraseIdsL cs]
  | .replace inner rs => by simp only [Src.eraseIds, Src.strip]; rw [Src.strip_eraseIds inner]
  | .cached _ inner => by simp only [Src.eraseIds, Src.strip]; exact Src.strip_eraseIds inner
theorem SrcList.stripL_eraseIdsL : ∀ (l : SrcList), l.eraseIdsL.stripL = l.stripL
  | .nil => rfl
  | .cons s r => by simp only [SrcList.eraseIdsL, SrcList.stripL]; rw [Src.strip_eraseIds s, SrcList.stripL_eraseIdsL r]
end

end Rs
