import RsModel.Model.Codec
/-! # VLQ digit lemmas and table facts (over the *extracted* tables) -/
namespace Rs

theorem vlqDigits_lt (n : Nat) : ∀ d ∈ vlqDigits n, d < 64 := by
  induction n using Nat.strongRecOn with
  | _ n ih =>
    unfold vlqDigits
    split
    · intro d hd; simp at hd; omega
    · intro d hd
      simp at hd
      rcases hd with rfl | hd
      · omega
      · exact ih (n / 32) (by omega) d hd

/-- decode digits: accumulate `value |= (d & 31) << pos` -/
def undigits : List Nat → Nat
  | [] => 0
  | d :: ds => d % 32 + 32 * undigits ds

theorem undigits_vlqDigits (n : Nat) : undigits (vlqDigits n) = n := by
  induction n using Nat.strongRecOn with
  | _ n ih =>
    unfold vlqDigits
    split
    · simp [undigits]; omega
    · simp only [undigits]
      rw [ih (n / 32) (by omega)]
      omega

/-- every digit but the last has the continuation bit, the last one does not -/
theorem vlqDigits_shape (n : Nat) :
    ∃ init last, vlqDigits n = init ++ [last] ∧ last < 32 ∧ ∀ d ∈ init, 32 ≤ d ∧ d < 64 := by
  induction n using Nat.strongRecOn with
  | _ n ih =>
    unfold vlqDigits
    split
    · exact ⟨[], n, by simp, by assumption, by simp⟩
    · obtain ⟨init, last, he, hl, hi⟩ := ih (n / 32) (by omega)
      refine ⟨(n % 32 + 32) :: init, last, by simp [he], hl, ?_⟩
      intro d hd
      simp at hd
      rcases hd with rfl | hd
      · omega
      · exact hi d hd

/-! ## facts about the extracted tables, each over the *whole* table by kernel evaluation -/

/-- the decode table inverts the alphabet: `B64[B64_CHARS[i]] = i` -/
theorem b64Val_b64At : ∀ i, i < 64 → (b64Val (b64At i)).toNat = i := by decide +kernel

theorem b64Val_b64At_class : ∀ i, i < 64 →
    b64Val (b64At i) ≠ Generated.ERR ∧ (b64Val (b64At i) &&& Generated.COM) = 0
    ∧ ((b64Val (b64At i) &&& Generated.CONTINUATION_BIT) = 0 ↔ i < 32)
    ∧ (b64Val (b64At i) &&& Generated.DATA_MASK).toNat = i % 32 := by decide +kernel

theorem b64Val_comma : b64Val COMMA = Generated.COM := by decide +kernel
theorem b64Val_semi : b64Val SEMI = Generated.SEM := by decide +kernel
theorem sem_ne_err : Generated.SEM ≠ Generated.ERR ∧ Generated.COM ≠ Generated.ERR
    ∧ (Generated.SEM &&& Generated.COM) ≠ 0 ∧ (Generated.COM &&& Generated.COM) ≠ 0 ∧ Generated.COM ≠ Generated.SEM := by
  decide +kernel

/-- every byte is a base64 digit (< 64), `,`, `;` or ignored -/
theorem forall_u8 {P : UInt8 → Prop} (h : ∀ n, n < 256 → P (UInt8.ofNat n)) (c : UInt8) : P c := by
  have := h c.toNat c.toNat_lt
  simpa using this

theorem b64Val_total : ∀ c : UInt8, b64Val c = Generated.ERR ∨ (c = COMMA ∧ b64Val c = Generated.COM)
    ∨ (c = SEMI ∧ b64Val c = Generated.SEM) ∨ ((b64Val c).toNat < 64 ∧ b64At (b64Val c).toNat = c) := by
  apply forall_u8; decide +kernel

/-- the alphabet is made of base64 characters only, none of them a separator -/
theorem b64At_ne_sep : ∀ i, i < 64 → b64At i ≠ COMMA ∧ b64At i ≠ SEMI := by decide +kernel

theorem b64At_zero : b64At 0 = CH_A := by decide +kernel
theorem decInit_eq : decInitSt = {} := by decide +kernel

/-- token classes: a stop byte is a tail byte or the line break -/
theorem stop_tail_or_nl : ∀ c : UInt8, Generated.tokenStop.contains c = true →
    Generated.tokenTail.contains c = true ∨ c = NL := by apply forall_u8; decide +kernel

end Rs
