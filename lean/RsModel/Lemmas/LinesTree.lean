import RsModel.Lemmas.LinesLeaves
import RsModel.Lemmas.CodecLines
import RsModel.Lemmas.CombModesL
/-! # columns = false: `map()` attributes every generated line as the stream does — whole trees, cold caches -/
namespace Rs

mutual
def Src.ModeHypL : Src → Prop
  | .sms t _ map _ inner _ => (∀ im, inner = some im → MapIdxOK im) ∧ IsAscii t ∧ t.length ≤ USIZE_MAX ∧ sortedFrom 1 0 (decode map.mappings) ∧ MapIdxOK map
  | .concat cs => cs.ModeHypsL
  | .replace inner rs => inner.ModeHypL ∧ (∀ r ∈ rs, r.start ≤ r.stop) ∧ (replaceSource inner.src rs).length + 1 < 2 ^ 32
  | .cached _ inner => inner.ModeHypL ∧ IsAscii inner.src ∧ inner.src.length ≤ USIZE_MAX
  | _ => True
def SrcList.ModeHypsL : SrcList → Prop
  | .nil => True
  | .cons s r => s.ModeHypL ∧ r.ModeHypsL
end

mutual
theorem Src.modeHypL_base : ∀ (s : Src), s.ModeHypL → s.WF ∧ s.PosHyp false ∧ s.IdxHyp
  | .raw .., _ | .rawStr .., _ | .rawBuf .., _ | .orig .., _ => ⟨trivial, trivial, trivial⟩
  | .sms t name map origSrc inner remove, h => by
    simp only [Src.ModeHypL] at h
    obtain ⟨hinner, ha, hl, _, hidx⟩ := h
    refine ⟨textOK_of_ascii t ha hl, ⟨ha, hl, fun h => by cases h⟩, ?_⟩
    cases inner with
    | none => exact hidx
    | some im => exact ⟨hidx, hinner im rfl⟩
  | .concat cs, h => by
    simp only [Src.ModeHypL] at h
    simpa [Src.WF, Src.PosHyp, Src.IdxHyp] using SrcList.modeHypsL_base cs h
  | .replace inner rs, h => by
    simp only [Src.ModeHypL] at h
    obtain ⟨b, c, d⟩ := Src.modeHypL_base inner h.1
    exact ⟨⟨b, h.2.1⟩, ⟨c, h.2.2⟩, d⟩
  | .cached _ inner, h => by
    simp only [Src.ModeHypL] at h
    obtain ⟨b, c, d⟩ := Src.modeHypL_base inner h.1
    exact ⟨⟨b, textOK_of_ascii _ h.2.1 h.2.2⟩, ⟨c, h.2.1, h.2.2⟩, d⟩
theorem SrcList.modeHypsL_base : ∀ (l : SrcList), l.ModeHypsL → l.WFs ∧ l.PosHyps false ∧ l.IdxHyps
  | .nil, _ => ⟨trivial, trivial, trivial⟩
  | .cons s r, h => by
    simp only [SrcList.ModeHypsL] at h
    obtain ⟨b, c, d⟩ := Src.modeHypL_base s h.1
    obtain ⟨b', c', d'⟩ := SrcList.modeHypsL_base r h.2
    exact ⟨⟨b, b'⟩, ⟨c, c'⟩, ⟨d, d'⟩⟩
end

theorem Src.base_factsL (s : Src) (h : s.ModeHypL) (hn : s.ids.Nodup) (σF σN : Store) (hcF : Cold σF s.ids) (hcN : Cold σN s.ids) :
    PosOK (s.stream ⟨false, false⟩ σN).1 ∧ ChunksTok (s.stream ⟨false, false⟩ σN).1.evs ∧ evsTL (s.stream ⟨false, false⟩ σN).1.evs = false
    ∧ evsText (s.stream ⟨false, false⟩ σN).1.evs = s.src ∧ DeclOK 0 0 (s.stream ⟨false, false⟩ σN).1.evs
    ∧ DeclOK 0 0 (s.stream ⟨false, true⟩ σF).1.evs ∧ FinOK s.src (s.stream ⟨false, true⟩ σF).1 := by
  obtain ⟨hw, hp, hi⟩ := Src.modeHypL_base s h
  exact ⟨Src.stream_posOK s false σN hw hp hn (storeHypB_normal false σN _ (cold_storeHypB false σN s hcN)), Src.stream_tok s false σN, Src.stream_tl s false σN,
    Src.stream_text s false σN hw, Src.stream_declOK s _ σN hi hn (cold_storeIdx σN s hcN), Src.stream_declOK s _ σF hi hn (cold_storeIdx σF s hcF),
    Src.stream_finOK s false σF hw hp hn (cold_storeHypB false σF s hcF)⟩

structure M3L (F N : SResult) : Prop where
  sorted : sortedFrom 1 0 (chunkMs F.evs)
  decls : declsOf F.evs = declsOf N.evs
  look : ∀ L, lookupLines (chunkMs F.evs) L = lookupLines (chunkMs N.evs) L

theorem childOKL_of (s : Src) (h : s.ModeHypL) (hn : s.ids.Nodup) (σF σN : Store) (hcF : Cold σF s.ids) (hcN : Cold σN s.ids)
    (m : M3L (s.stream ⟨false, true⟩ σF).1 (s.stream ⟨false, false⟩ σN).1) :
    ChildOKL (s.stream ⟨false, true⟩ σF).1 (s.stream ⟨false, false⟩ σN).1 := by
  obtain ⟨b1, b2, b3, b4, b5, b6, b7⟩ := Src.base_factsL s h hn σF σN hcF hcN
  have hfN := finOK_of_posOK _ b1 b3
  rw [b4] at hfN
  exact ⟨by rw [b7.2, hfN.2], fun m hm => isPos_line_ge _ _ (finOK_ms _ _ b7 m hm), fun m hm => isPos_line_ge _ _ (finOK_ms _ _ hfN m hm),
    b6, b5, m.decls, m.look⟩

mutual
theorem Src.m3l : ∀ (s : Src), s.ModeHypL → s.ids.Nodup → ∀ (σF σN : Store), Cold σF s.ids → Cold σN s.ids →
    M3L (s.stream ⟨false, true⟩ σF).1 (s.stream ⟨false, false⟩ σN).1
  | .raw _ _ lossy, _, _, σF, σN, _, _ => by
    simp only [Src.stream]
    exact ⟨by simp [streamRaw, chunkMs, sortedFrom], by rw [streamRaw_decls, streamRaw_decls], streamRaw_linesEq lossy false⟩
  | .rawStr t, _, _, σF, σN, _, _ => by
    simp only [Src.stream]
    exact ⟨by simp [streamRaw, chunkMs, sortedFrom], by rw [streamRaw_decls, streamRaw_decls], streamRaw_linesEq t false⟩
  | .rawBuf _ lossy, _, _, σF, σN, _, _ => by
    simp only [Src.stream]
    exact ⟨by simp [streamRaw, chunkMs, sortedFrom], by rw [streamRaw_decls, streamRaw_decls], streamRaw_linesEq lossy false⟩
  | .orig t name, _, _, σF, σN, _, _ => by
    simp only [Src.stream]
    exact ⟨streamOriginal_linesSorted t name, streamOriginal_linesDecls t name, streamOriginal_linesEq t name⟩
  | .sms t name map origSrc inner remove, h, _, σF, σN, _, _ => by
    simp only [Src.ModeHypL] at h
    obtain ⟨_, ha, hl, hs, _⟩ := h
    simp only [Src.stream]
    cases inner with
    | none => exact ⟨streamSM_linesSorted t map, streamSM_linesDecls t map, streamSM_linesEq t map hs⟩
    | some im =>
      obtain ⟨c1, c2, c3⟩ := streamCombined_m3l t map name origSrc im remove
      exact ⟨c1, c2, c3⟩
  | .concat .nil, _, _, σF, σN, _, _ => by
    simp only [Src.stream]
    exact ⟨by simp [concatStream, concatGo, chunkMs, sortedFrom], rfl, fun _ => rfl⟩
  | .concat (.cons s rest), h, hn, σF, σN, hcF, hcN => by
    simp only [Src.ModeHypL, SrcList.ModeHypsL] at h
    simp only [Src.ids, Src.cachedNodes, SrcList.cachedNodesL, List.map_append] at hn hcF hcN
    have hn1 := (List.nodup_append.1 hn).1
    have hn2 := (List.nodup_append.1 hn).2.1
    have hdisj := (List.nodup_append.1 hn).2.2
    have hcF1 := (cold_sub _ _ _ hcF).1
    have hcN1 := (cold_sub _ _ _ hcN).1
    have hs := Src.m3l s h.1 hn1 σF σN hcF1 hcN1
    cases hr : rest with
    | nil => simp only [Src.stream]; exact hs
    | cons s2 rest2 =>
      have hcF2 : Cold (s.stream ⟨false, true⟩ σF).2 (SrcList.cons s2 rest2).idsL := by
        rw [← hr]; exact cold_after s _ σF _ (cold_sub _ _ _ hcF).2 (fun i hi hmem => hdisj i hmem i hi rfl)
      have hcN2 : Cold (s.stream ⟨false, false⟩ σN).2 (SrcList.cons s2 rest2).idsL := by
        rw [← hr]; exact cold_after s _ σN _ (cold_sub _ _ _ hcN).2 (fun i hi hmem => hdisj i hmem i hi rfl)
      obtain ⟨r1, r2, r3⟩ := SrcList.m3sl (.cons s2 rest2) (hr ▸ h.2) (hr ▸ hn2) _ _ hcF2 hcN2
      obtain ⟨_, _, _, _, _, _, b7⟩ := Src.base_factsL s h.1 hn1 σF σN hcF1 hcN1
      simp only [Src.stream]
      have hall : ChildrenOKL ((s.stream ⟨false, true⟩ σF).1 :: ((SrcList.cons s2 rest2).streams ⟨false, true⟩ (s.stream ⟨false, true⟩ σF).2).1)
          ((s.stream ⟨false, false⟩ σN).1 :: ((SrcList.cons s2 rest2).streams ⟨false, false⟩ (s.stream ⟨false, false⟩ σN).2).1) :=
        ChildrenOKL.cons _ _ _ _ (childOKL_of s h.1 hn1 σF σN hcF1 hcN1 hs) r1
      have hfin : FinAll ((s.stream ⟨false, true⟩ σF).1 :: ((SrcList.cons s2 rest2).streams ⟨false, true⟩ (s.stream ⟨false, true⟩ σF).2).1)
          (s.src :: (SrcList.cons s2 rest2).srcList) := FinAll.cons _ _ _ _ b7 r3
      obtain ⟨g1, g2⟩ := concatGo_linesModes _ _ hall {} {} rfl rfl rfl
      refine ⟨?_, ?_, ?_⟩
      · apply concatStream_sorted true _ _ hfin
        intro c hc
        simp only [List.mem_cons] at hc
        rcases hc with rfl | hc
        · exact hs.sorted
        · exact r2 c hc
      · simpa [concatStream] using g2
      · intro L; simpa [concatStream] using g1 L
  | .replace inner rs, h, hn, σF, σN, hcF, hcN => by
    have hb := Src.base_factsL (.replace inner rs) h hn σF σN hcF hcN
    obtain ⟨b1, b2, b3, b4, _, _, _⟩ := hb
    have e : ((Src.replace inner rs).stream ⟨false, true⟩ σF).1 = ((Src.replace inner rs).stream ⟨false, false⟩ σN).1 := by
      simp only [Src.stream]
      rw [Src.stream_cold inner _ σF σN hn hcF hcN]
    rw [e]
    exact ⟨chunkMs_sorted _ [] b1.1 b3, rfl, fun _ => rfl⟩
  | .cached id inner, h, hn, σF, σN, hcF, hcN => by
    simp only [Src.ModeHypL] at h
    simp only [Src.ids, Src.cachedNodes, List.map_cons, List.nodup_cons] at hn hcF hcN
    simp only [Src.stream]
    rw [hcF id (by simp) _, hcN id (by simp) _]
    simp only
    exact Src.m3l inner h.1 hn.2 σF σN (fun i hi => hcF i (List.mem_cons_of_mem _ hi)) (fun i hi => hcN i (List.mem_cons_of_mem _ hi))
theorem SrcList.m3sl : ∀ (l : SrcList), l.ModeHypsL → l.idsL.Nodup → ∀ (σF σN : Store), Cold σF l.idsL → Cold σN l.idsL →
    ChildrenOKL (l.streams ⟨false, true⟩ σF).1 (l.streams ⟨false, false⟩ σN).1
    ∧ (∀ c ∈ (l.streams ⟨false, true⟩ σF).1, sortedFrom 1 0 (chunkMs c.evs))
    ∧ FinAll (l.streams ⟨false, true⟩ σF).1 l.srcList
  | .nil, _, _, σF, σN, _, _ => ⟨ChildrenOKL.nil, fun c hc => by simp [SrcList.streams] at hc, FinAll.nil⟩
  | .cons s rest, h, hn, σF, σN, hcF, hcN => by
    simp only [SrcList.ModeHypsL] at h
    simp only [SrcList.idsL, SrcList.cachedNodesL, List.map_append] at hn hcF hcN
    have hn1 := (List.nodup_append.1 hn).1
    have hn2 := (List.nodup_append.1 hn).2.1
    have hdisj := (List.nodup_append.1 hn).2.2
    have hcF1 := (cold_sub _ _ _ hcF).1
    have hcN1 := (cold_sub _ _ _ hcN).1
    have hs := Src.m3l s h.1 hn1 σF σN hcF1 hcN1
    have hcF2 : Cold (s.stream ⟨false, true⟩ σF).2 rest.idsL :=
      cold_after s _ σF _ (cold_sub _ _ _ hcF).2 (fun i hi hmem => hdisj i hmem i hi rfl)
    have hcN2 : Cold (s.stream ⟨false, false⟩ σN).2 rest.idsL :=
      cold_after s _ σN _ (cold_sub _ _ _ hcN).2 (fun i hi hmem => hdisj i hmem i hi rfl)
    obtain ⟨r1, r2, r3⟩ := SrcList.m3sl rest h.2 hn2 _ _ hcF2 hcN2
    obtain ⟨_, _, _, _, _, _, b7⟩ := Src.base_factsL s h.1 hn1 σF σN hcF1 hcN1
    simp only [SrcList.streams, SrcList.srcList]
    refine ⟨ChildrenOKL.cons _ _ _ _ (childOKL_of s h.1 hn1 σF σN hcF1 hcN1 hs) r1, fun c hc => ?_, FinAll.cons _ _ _ _ b7 r3⟩
    simp only [List.mem_cons] at hc
    rcases hc with rfl | hc
    · exact hs.sorted
    · exact r2 c hc
end

theorem mapOfEvs_mappings_lines (evs : List Ev) (sm : SMap) (h : mapOfEvs false evs = some sm) : sm.mappings = encodeLines (chunkMs evs) := by
  unfold mapOfEvs at h
  simp only [encodeWith, Bool.false_eq_true, if_false] at h
  split at h
  · cases h
  · simp only [Option.some.injEq] at h
    rw [← h]
    simp only
    rw [mapAcc_ms]
    rfl

/-- **C03, columns = false**: for every generated line of every tree in the domain (cold caches), the first mapped segment of
the map `get_map` returns points to the same source index and original line as the first mapped chunk of the normal stream on
that line, and the map announces what the stream announces -/
theorem getMap_lines (s : Src) (h : s.ModeHypL) (hn : s.ids.Nodup) (σF σN : Store) (hcF : Cold σF s.ids) (hcN : Cold σN s.ids) (final : Bool)
    (hsmall : ∀ m ∈ chunkMs (s.stream ⟨false, true⟩ σF).1.evs, ∀ o, m.orig = some o → o.src < U31 ∧ o.line < U31)
    (sm : SMap) (hm : (getMap s ⟨false, final⟩ σF).1 = some sm) (L : Nat) (hL : 0 < L) :
    lookupLines (decode sm.mappings) L = lookupLines (chunkMs (s.stream ⟨false, false⟩ σN).1.evs) L := by
  have hm3 := Src.m3l s h hn σF σN hcF hcN
  simp only [getMap] at hm
  rw [mapOfEvs_mappings_lines _ sm hm, decode_lencode _ hsmall (linesOK_of_sorted _ 1 0 hm3.sorted), keptLines_lookup L _ {} (by simp; omega)]
  exact hm3.look L

end Rs
