import RsModel.Lemmas.ReplaceAdvance
import RsModel.Lemmas.Replay
import RsModel.Lemmas.CombTables
import RsModel.Lemmas.PosComb
/-!
# Mapped chunks carry text

`MappedNE evs`: every chunk of the (normal-mode) stream that is mapped has a non-empty text.  True of every stream the crate
produces; it is what makes "the segment governs at least one character" meaningful in the replay theorems of C10.
-/
namespace Rs

theorem mappedNE_nil : MappedNE [] := fun t m h => by simp at h
theorem mappedNE_append (a b : List Ev) (ha : MappedNE a) (hb : MappedNE b) : MappedNE (a ++ b) := by
  intro t m h
  rcases List.mem_append.1 h with h | h
  · exact ha t m h
  · exact hb t m h
theorem mappedNE_unmapped (evs : List Ev) (h : ∀ t m, Ev.chunk t m ∈ evs → m.orig = none) : MappedNE evs := by
  intro t m hm ho
  rw [h _ m hm] at ho; cases ho
theorem mappedNE_single (t : Text) (m : Mapping) (h : t ≠ []) : MappedNE [Ev.chunk (some t) m] := by
  intro t' m' hm _
  simp only [List.mem_singleton, Ev.chunk.injEq, Option.some.injEq] at hm
  rw [hm.1]; exact h
theorem mappedNE_noChunk (evs : List Ev) (h : ∀ e ∈ evs, e.isChunk = false) : MappedNE evs := by
  intro t m hm
  have := h _ hm
  simp [Ev.isChunk] at this

/-! ## leaves -/

theorem rawChunks_unmapped : ∀ (ls : List Text) (l : Nat), ∀ t m, Ev.chunk t m ∈ rawChunks l ls → m.orig = none := by
  intro ls
  induction ls with
  | nil => intro l t m h; simp [rawChunks] at h
  | cons x xs ih =>
    intro l t m h
    simp only [rawChunks, List.mem_cons] at h
    rcases h with h | h
    · cases h; rfl
    · exact ih _ t m h

theorem streamRaw_mappedNE (t : Text) (c : Bool) : MappedNE (streamRaw t ⟨c, false⟩).evs := by
  simp only [streamRaw, Bool.false_eq_true, if_false]
  exact mappedNE_unmapped _ (rawChunks_unmapped _ _)

theorem tokAux_ne : ∀ (cs : Text) (b : Bool) (acc : Text), (b = true → acc ≠ []) → ∀ x ∈ tokAux b acc cs, x ≠ [] := by
  intro cs
  induction cs with
  | nil =>
    intro b acc _ x hx
    have : x ∈ (if acc.isEmpty then [] else [acc.reverse]) := by cases b <;> simpa [tokAux] using hx
    split at this
    · simp at this
    · rename_i hne
      simp only [List.mem_singleton] at this
      subst this
      intro h
      apply hne
      simpa using h
  | cons c cs ih =>
    intro b acc hb x hx
    cases b with
    | false =>
      simp only [tokAux] at hx
      split at hx
      · exact ih false (c :: acc) (fun h => by cases h) x hx
      · split at hx
        · exact ih true (c :: acc) (fun _ => by simp) x hx
        · simp only [List.mem_cons] at hx
          rcases hx with rfl | hx
          · simp
          · exact ih false [] (fun h => by cases h) x hx
    | true =>
      have hne := hb rfl
      simp only [tokAux] at hx
      split at hx
      · exact ih true (c :: acc) (fun _ => by simp) x hx
      · split at hx
        · simp only [List.mem_cons] at hx
          rcases hx with rfl | hx
          · simp
          · exact ih false [] (fun h => by cases h) x hx
        · simp only [List.mem_cons] at hx
          rcases hx with rfl | hx
          · intro h; apply hne; simpa using h
          · exact ih false [c] (fun h => by cases h) x hx

theorem tokens_ne (t : Text) : ∀ x ∈ tokens t, x ≠ [] := tokAux_ne t false [] (fun h => by cases h)

theorem origTokChunks_mappedNE : ∀ (toks : List Text) (l c : Nat), (∀ x ∈ toks, x ≠ []) → MappedNE (origTokChunks false l c toks).1 := by
  intro toks
  induction toks with
  | nil => intro l c _; exact mappedNE_nil
  | cons tok toks ih =>
    intro l c h
    simp only [origTokChunks, Bool.false_eq_true, if_false]
    apply mappedNE_append
    · split <;> exact mappedNE_single _ _ (h tok (by simp))
    · split <;> exact ih _ _ (fun x hx => h x (by simp [hx]))

theorem lines_ne (ls : List Text) (h : Lines ls) : ∀ ln ∈ ls, ln ≠ [] := by
  induction h with
  | nil => intro ln hln; simp at hln
  | last t ht _ => intro ln hln; simp only [List.mem_singleton] at hln; subst hln; exact ht
  | lastNL t _ => intro ln hln; simp only [List.mem_singleton] at hln; subst hln; simp
  | cons t rest _ _ _ ih =>
    intro ln hln
    simp only [List.mem_cons] at hln
    rcases hln with rfl | hln
    · simp
    · exact ih ln hln

theorem origLineChunks_mappedNE : ∀ (ls : List Text) (l : Nat), (∀ ln ∈ ls, ln ≠ []) → MappedNE (origLineChunks l ls) := by
  intro ls
  induction ls with
  | nil => intro l _; exact mappedNE_nil
  | cons t ts ih =>
    intro l h
    simp only [origLineChunks]
    exact mappedNE_append [_] _ (mappedNE_single _ _ (h t (by simp))) (ih _ (fun x hx => h x (by simp [hx])))

theorem streamOriginal_mappedNE (t name : Text) (c : Bool) : MappedNE (streamOriginal t name ⟨c, false⟩).evs := by
  cases c
  · simp only [streamOriginal, Bool.false_eq_true, if_false]
    exact mappedNE_append [_] _ (mappedNE_noChunk _ (by simp [Ev.isChunk])) (origLineChunks_mappedNE _ _ (lines_ne _ (lines_of_splitLines t)))
  · simp only [streamOriginal, if_true]
    exact mappedNE_append [_] _ (mappedNE_noChunk _ (by simp [Ev.isChunk])) (origTokChunks_mappedNE _ _ _ (tokens_ne t))

/-! ### SourceMapSource -/

theorem optChunk_mappedNE (ch : Text) (m : Mapping) : MappedNE (if ch.isEmpty then [] else [Ev.chunk (some ch) m]) := by
  split
  · exact mappedNE_nil
  · rename_i h
    exact mappedNE_single _ _ (fun e => h (by simp [e]))

theorem wholeLines_unmapped (lines : List Text) (a b : Nat) : ∀ t m, Ev.chunk t m ∈ smWholeLines lines a b → m.orig = none := by
  intro t m h
  have := smWholeLines_origs (fun _ => False) lines a b _ h
  obtain ⟨t', m', e, h0⟩ := this
  cases e
  cases ho : m.orig with
  | none => rfl
  | some o => exact (h0 o ho).elim

theorem smFullStep_mappedNE (lines : List Text) (fl fc : Nat) (s : FullSt) (m : Mapping) : MappedNE (smFullStep lines fl fc s m).2 := by
  unfold smFullStep
  split
  · exact mappedNE_nil
  · dsimp only
    refine mappedNE_append _ _ (mappedNE_append _ _ (mappedNE_append _ _ ?_ ?_) (mappedNE_unmapped _ (wholeLines_unmapped _ _ _))) ?_
    · unfold smStep1
      split
      · split <;> exact optChunk_mappedNE _ _
      · exact mappedNE_nil
    · unfold smStep2
      split
      · split
        · exact mappedNE_unmapped _ (fun t m h => by simp only [List.mem_singleton] at h; cases h; rfl)
        · exact mappedNE_nil
      · exact mappedNE_nil
    · unfold smStep4
      split
      · split
        · exact mappedNE_unmapped _ (fun t m h => by simp only [List.mem_singleton] at h; cases h; rfl)
        · exact mappedNE_nil
      · exact mappedNE_nil

theorem smFullGo_mappedNE (lines : List Text) (fl fc : Nat) : ∀ (ms : List Mapping) (s : FullSt), MappedNE (smFullGo lines fl fc s ms) := by
  intro ms
  induction ms with
  | nil => intro s; exact mappedNE_nil
  | cons m ms ih => intro s; simp only [smFullGo]; exact mappedNE_append _ _ (smFullStep_mappedNE _ _ _ _ _) (ih _)

theorem smLinesFullGo_mappedNE (lines : List Text) (hne : ∀ ln ∈ lines, ln ≠ []) : ∀ (ms : List Mapping) (cur : Nat), 1 ≤ cur → MappedNE (smLinesFullGo lines cur ms).1 := by
  intro ms
  induction ms with
  | nil => intro cur _; exact mappedNE_nil
  | cons m ms ih =>
    intro cur hc
    simp only [smLinesFullGo]
    split
    · exact ih cur hc
    · split
      · exact ih cur hc
      · rename_i hns
        simp only [Bool.or_eq_true, decide_eq_true_eq, not_or, Nat.not_lt] at hns
        dsimp only
        refine mappedNE_append _ _ (mappedNE_unmapped _ (wholeLines_unmapped _ _ _)) (mappedNE_append [_] _ (mappedNE_single _ _ ?_) (ih _ (by omega)))
        have hmax : max cur m.gl = m.gl := Nat.max_eq_right hns.1
        rw [hmax]
        have hlt : m.gl - 1 < lines.length := by omega
        rw [List.getD_eq_getElem?_getD, List.getElem?_eq_getElem hlt]
        exact hne _ (List.getElem_mem _)

theorem sourceEvs_noChunk (sm : SMap) : ∀ e ∈ smSourceEvs sm, e.isChunk = false := by
  intro e he; simp only [smSourceEvs, List.mem_map] at he; obtain ⟨i, _, rfl⟩ := he; rfl
theorem nameEvs_noChunk (sm : SMap) : ∀ e ∈ smNameEvs sm, e.isChunk = false := by
  intro e he; simp only [smNameEvs, List.mem_map] at he; obtain ⟨i, _, rfl⟩ := he; rfl

theorem streamSM_mappedNE (t : Text) (sm : SMap) (c : Bool) : MappedNE (streamSM t sm ⟨c, false⟩).evs := by
  cases c
  · simp only [streamSM]
    unfold streamSMLinesFull
    dsimp only
    split
    · exact mappedNE_nil
    · exact mappedNE_append _ _ (mappedNE_append _ _ (mappedNE_noChunk _ (sourceEvs_noChunk sm))
        (smLinesFullGo_mappedNE _ (lines_ne _ (lines_of_splitLines t)) _ 1 (Nat.le_refl _))) (mappedNE_unmapped _ (wholeLines_unmapped _ _ _))
  · simp only [streamSM]
    unfold streamSMFull
    dsimp only
    split
    · exact mappedNE_nil
    · exact mappedNE_append _ _ (mappedNE_append _ _ (mappedNE_noChunk _ (sourceEvs_noChunk sm)) (mappedNE_noChunk _ (nameEvs_noChunk sm)))
        (smFullGo_mappedNE _ _ _ _ _)

/-! ### ConcatSource -/

theorem concatEv_mappedNE (st : CSt) (e : Ev) (h : MappedNE [e]) : MappedNE (concatEv false st e).2 := by
  cases e with
  | chunk text m =>
    simp only [concatEv, Bool.false_eq_true, if_false]
    apply mappedNE_append
    · split
      · exact mappedNE_unmapped _ (fun t m' hm => by simp only [List.mem_singleton] at hm; cases hm; rfl)
      · exact mappedNE_nil
    · intro t m' hm ho
      simp only [List.mem_singleton] at hm
      split at hm
      · rename_i si o hsi hoo
        simp only [Ev.chunk.injEq] at hm
        obtain ⟨ht, _⟩ := hm
        exact h t m (by rw [ht]; simp) (by rw [hoo]; rfl)
      · simp only [Ev.chunk.injEq] at hm
        obtain ⟨_, hmm⟩ := hm
        rw [hmm] at ho
        cases ho
  | source i s c =>
    simp only [concatEv, globalSource]
    split <;> exact mappedNE_noChunk _ (by simp [Ev.isChunk])
  | name i n =>
    simp only [concatEv, globalName]
    split <;> exact mappedNE_noChunk _ (by simp [Ev.isChunk])

theorem mappedNE_cons (e : Ev) (es : List Ev) (h : MappedNE (e :: es)) : MappedNE [e] ∧ MappedNE es :=
  ⟨fun t m hm => h t m (by simp only [List.mem_singleton] at hm; simp [hm]), fun t m hm => h t m (by simp [hm])⟩

theorem concatEvs_mappedNE : ∀ (evs : List Ev) (st : CSt), MappedNE evs → MappedNE (concatEvs false st evs).2 := by
  intro evs
  induction evs with
  | nil => intro st _; exact mappedNE_nil
  | cons e es ih =>
    intro st h
    obtain ⟨h1, h2⟩ := mappedNE_cons e es h
    simp only [concatEvs]
    exact mappedNE_append _ _ (concatEv_mappedNE st e h1) (ih _ h2)

theorem concatGo_mappedNE : ∀ (cs : List SResult) (st : CSt), (∀ c ∈ cs, MappedNE c.evs) → MappedNE (concatGo false st cs).2 := by
  intro cs
  induction cs with
  | nil => intro st _; exact mappedNE_nil
  | cons c cs ih =>
    intro st h
    simp only [concatGo]
    refine mappedNE_append _ _ ?_ (ih _ (fun x hx => h x (by simp [hx])))
    simp only [concatChild]
    refine mappedNE_append _ _ (concatEvs_mappedNE c.evs _ (h c (by simp))) ?_
    split
    · exact mappedNE_unmapped _ (fun t m' hm => by simp only [List.mem_singleton] at hm; cases hm; rfl)
    · exact mappedNE_nil

theorem concatStream_mappedNE (cs : List SResult) (h : ∀ c ∈ cs, MappedNE c.evs) : MappedNE (concatStream false cs).evs := by
  simp only [concatStream]; exact concatGo_mappedNE cs {} h

/-! ### ReplaceSource: every delivered chunk carries text -/

def AllNEc (evs : List Ev) : Prop := ∀ t m, Ev.chunk (some t) m ∈ evs → t ≠ []

theorem allNEc_nil : AllNEc [] := fun t m h => by simp at h
theorem allNEc_append (a b : List Ev) (ha : AllNEc a) (hb : AllNEc b) : AllNEc (a ++ b) := by
  intro t m h
  rcases List.mem_append.1 h with h | h
  · exact ha t m h
  · exact hb t m h
theorem AllNEc.mapped {evs : List Ev} (h : AllNEc evs) : MappedNE evs := fun t m hm _ => h t m hm

structure LPos (cs : Nat) (chunk : Text) (st : RSt) (l : LSt) : Prop where
  pos : st.pos = cs + l.chunkPos
  inb : l.chunkPos ≤ chunk.length

theorem emitContent_ne (gc : Nat) (orig : Option Orig) : ∀ (cls : List Text), (∀ cl ∈ cls, cl ≠ []) → ∀ (n : Option Nat) (st : RSt) (line : Int),
    AllNEc (emitContent gc orig cls n st line).2.1 ∧ (emitContent gc orig cls n st line).1.pos = st.pos := by
  intro cls
  induction cls with
  | nil => intro _ n st line; exact ⟨allNEc_nil, rfl⟩
  | cons cl cls ih =>
    intro h n st line
    have hcl := h cl (by simp)
    have hrest : ∀ x ∈ cls, x ≠ [] := fun x hx => h x (by simp [hx])
    simp only [emitContent]
    split
    · obtain ⟨i1, i2⟩ := ih hrest none (if st.colOffLine == line then { st with colOff := st.colOff + cl.length } else { st with colOff := cl.length, colOffLine := line }) line
      refine ⟨?_, by rw [i2]; split <;> rfl⟩
      intro t m hm
      simp only [List.mem_cons] at hm
      rcases hm with hm | hm
      · cases hm; exact hcl
      · exact i1 t m hm
    · obtain ⟨i1, i2⟩ := ih hrest none { st with lineOff := st.lineOff + 1, colOff := -(gc : Int), colOffLine := line + 1 } (line + 1)
      refine ⟨?_, i2⟩
      intro t m hm
      simp only [List.mem_cons] at hm
      rcases hm with hm | hm
      · cases hm; exact hcl
      · exact i1 t m hm

theorem rIter_ne (chunk : Text) (gl cs : Nat) (r : Repl) (rs : List Repl) (st : RSt) (l : LSt) (hl : LPos cs chunk st l) (hr : r.start < cs + chunk.length) :
    AllNEc (rIter chunk gl (cs + chunk.length) r rs st l).1
    ∧ (match (rIter chunk gl (cs + chunk.length) r rs st l).2 with
       | .done _ => True
       | .cont st' l' => LPos cs chunk st' l') := by
  obtain ⟨p1, p2⟩ := hl
  have hb : AllNEc (rBefore chunk ((gl : Int) + st.lineOff) r st l).2.2
      ∧ LPos cs chunk (rBefore chunk ((gl : Int) + st.lineOff) r st l).1 (rBefore chunk ((gl : Int) + st.lineOff) r st l).2.1 := by
    unfold rBefore
    by_cases hgt : r.start > st.pos
    · simp only [hgt, if_true]
      have hend : l.chunkPos + (r.start - st.pos) ≤ chunk.length := by omega
      refine ⟨?_, ⟨by simp only; omega, hend⟩⟩
      intro t m hm
      simp only [List.mem_singleton, Ev.chunk.injEq, Option.some.injEq] at hm
      rw [hm.1]
      intro he
      have := bsub_length chunk l.chunkPos (l.chunkPos + (r.start - st.pos)) (by omega) hend
      rw [he] at this
      simp at this
      omega
    · simp only [hgt, if_false]
      exact ⟨allNEc_nil, ⟨p1, p2⟩⟩
  obtain ⟨b1, q1, q2⟩ := hb
  obtain ⟨nf0, _, _, _, nf5⟩ := rName_facts r (rBefore chunk ((gl : Int) + st.lineOff) r st l).1 (rBefore chunk ((gl : Int) + st.lineOff) r st l).2.1
  have hname : AllNEc (rName r (rBefore chunk ((gl : Int) + st.lineOff) r st l).1 (rBefore chunk ((gl : Int) + st.lineOff) r st l).2.1).2.1 := by
    intro t m hm
    have := nf0 _ hm
    simp [Ev.isChunk] at this
  obtain ⟨c1, c2⟩ := emitContent_ne (rBefore chunk ((gl : Int) + st.lineOff) r st l).2.1.gc (rBefore chunk ((gl : Int) + st.lineOff) r st l).2.1.orig
    (splitLines r.content) (lines_ne _ (lines_of_splitLines _))
    (rName r (rBefore chunk ((gl : Int) + st.lineOff) r st l).1 (rBefore chunk ((gl : Int) + st.lineOff) r st l).2.1).2.2
    (rName r (rBefore chunk ((gl : Int) + st.lineOff) r st l).1 (rBefore chunk ((gl : Int) + st.lineOff) r st l).2.1).1 ((gl : Int) + st.lineOff)
  have hall := allNEc_append _ _ (allNEc_append _ _ b1 hname) c1
  simp only [rIter]
  generalize hbe : rBefore chunk ((gl : Int) + st.lineOff) r st l = b at *
  generalize hne : rName r b.1 b.2.1 = n at *
  generalize hce : emitContent b.2.1.gc b.2.1.orig (splitLines r.content) n.2.2 n.1 ((gl : Int) + st.lineOff) = c at *
  have hpos4 : c.1.pos = cs + b.2.1.chunkPos := by rw [c2, nf5, q1]
  split
  · rename_i hoff
    split
    · exact ⟨hall, trivial⟩
    · rename_i hre
      refine ⟨hall, ⟨?_, ?_⟩⟩
      · unfold colShift
        split <;> simp only <;> rw [hpos4] <;> omega
      · simp only; omega
  · exact ⟨hall, ⟨hpos4, q2⟩⟩

theorem rLoop_ne (chunk : Text) (gl cs : Nat) : ∀ (rs : List Repl) (st : RSt) (l : LSt), LPos cs chunk st l →
    AllNEc (rLoop chunk gl (cs + chunk.length) rs st l).2.1 := by
  intro rs
  induction rs with
  | nil => intro st l _; exact allNEc_nil
  | cons r rs ih =>
    intro st l hl
    simp only [rLoop]
    split
    · rename_i hr
      obtain ⟨a1, a2⟩ := rIter_ne chunk gl cs r rs st l hl hr
      split
      · rename_i evs st' heq
        rw [heq] at a1; exact a1
      · rename_i evs st' l' heq
        rw [heq] at a1 a2
        exact allNEc_append _ _ a1 (ih st' l' a2)
    · exact allNEc_nil

theorem rOnChunk_ne (st : RSt) (chunk : Text) (m : Mapping) : AllNEc (rOnChunk st chunk m).2 := by
  unfold rOnChunk
  dsimp only
  split
  · exact allNEc_nil
  · rename_i st1 l1 hstart
    have h1 : LPos st.pos chunk st1 l1 := by
      split at hstart
      · rename_i e hskip
        split at hstart
        · cases hstart
        · rename_i hlt
          simp only [Option.some.injEq, Prod.mk.injEq] at hstart
          obtain ⟨e1, e2⟩ := hstart
          subst e1 e2
          have hpos : e > st.pos := by
            split at hskip
            · split at hskip
              · simp only [Option.some.injEq] at hskip; subst hskip; assumption
              · cases hskip
            · cases hskip
          refine ⟨?_, by simp only; omega⟩
          unfold colShift; split <;> simp only <;> omega
      · simp only [Option.some.injEq, Prod.mk.injEq] at hstart
        obtain ⟨e1, e2⟩ := hstart
        subst e1 e2
        exact ⟨by simp, Nat.zero_le _⟩
    have a1 := rLoop_ne chunk m.gl st.pos st1.rest st1 l1 h1
    split
    · rename_i st2 evs heq
      rw [heq] at a1; exact a1
    · rename_i st2 evs l2 heq
      rw [heq] at a1
      refine allNEc_append _ _ a1 ?_
      split
      · rename_i hlt
        intro t m' hm
        simp only [List.mem_singleton, Ev.chunk.injEq, Option.some.injEq] at hm
        rw [hm.1]
        intro he
        have : (chunk.drop l2.chunkPos).length = 0 := by rw [he]; rfl
        simp at this
        omega
      · exact allNEc_nil

theorem rEvs_ne : ∀ (evs : List Ev) (st : RSt), AllNEc (rEvs st evs).2 := by
  intro evs
  induction evs with
  | nil => intro st; exact allNEc_nil
  | cons e es ih =>
    intro st
    simp only [rEvs]
    refine allNEc_append _ _ ?_ (ih _)
    cases e with
    | chunk t m => simp only [rEv]; exact rOnChunk_ne _ _ _
    | source i s c => simp only [rEv]; intro t m hm; simp at hm
    | name i n =>
      simp only [rEv]
      intro t m hm
      exact absurd hm (globalName_noChunkMem _ _ _ _)

theorem rRemainder_ne (gcInfo : Nat) : ∀ (cls : List Text), (∀ cl ∈ cls, cl ≠ []) → ∀ (st : RSt) (line : Int), AllNEc (rRemainder gcInfo cls st line).2.1 := by
  intro cls
  induction cls with
  | nil => intro _ st line; exact allNEc_nil
  | cons cl cls ih =>
    intro h st line
    simp only [rRemainder]
    split
    · intro t m hm
      simp only [List.mem_cons] at hm
      rcases hm with hm | hm
      · cases hm; exact h cl (by simp)
      · exact ih (fun x hx => h x (by simp [hx])) _ _ t m hm
    · intro t m hm
      simp only [List.mem_cons] at hm
      rcases hm with hm | hm
      · cases hm; exact h cl (by simp)
      · exact ih (fun x hx => h x (by simp [hx])) _ _ t m hm

/-- **ReplaceSource**: every chunk it delivers carries text, whatever the inner stream and the replacements -/
theorem replaceStream_mappedNE (sorted : List Repl) (inner : SResult) : MappedNE (replaceStream sorted inner).evs := by
  simp only [replaceStream]
  exact (allNEc_append _ _ (rEvs_ne _ _) (rRemainder_ne _ _ (lines_ne _ (lines_of_splitLines _)) _ _)).mapped

/-! ### the combinator: a delivered chunk has the outer chunk's text, and is mapped only if the outer chunk is -/

/-- the index of the inner source among the outer sources is the sentinel `-2` or a real index (never the "unmapped" `-1`) -/
def ISI (st : CombSt) : Prop := st.innerSourceIndex = -2 ∨ 0 ≤ st.innerSourceIndex

theorem combPass_keep (st : CombSt) (chunk : Option Text) (m : Mapping) (a b c d : Int) :
    (combPass st chunk m a b c d).1.innerSourceIndex = st.innerSourceIndex
    ∧ ∀ t' mm, Ev.chunk t' mm ∈ (combPass st chunk m a b c d).2 → t' = chunk ∧ (mm.orig.isSome = true → 0 ≤ a) := by
  unfold combPass
  dsimp only
  generalize hfs : (if a < 0 then (-1 : Int) else (st.sourceIndexMapping[a.toNat]?).getD (-1)) = v
  by_cases hneg : v < 0
  · simp only [hneg, if_true]
    refine ⟨trivial, fun t' mm h => ?_⟩
    simp only [List.mem_singleton, Ev.chunk.injEq] at h
    obtain ⟨rfl, rfl⟩ := h
    exact ⟨rfl, fun hc => (by cases hc)⟩
  · simp only [hneg, if_false]
    have ha : 0 ≤ a := by
      rcases Int.lt_or_le a 0 with h0 | h0
      · simp only [h0, if_true] at hfs; omega
      · exact h0
    generalize (if d ≥ 0 then (st.nameIndexMapping[d.toNat]?).getD (-1) else (-1 : Int)) = f0
    by_cases hf : f0 = -2
    · subst hf
      simp only [beq_self_eq_true, if_true]
      refine ⟨trivial, fun t' mm h => ?_⟩
      rcases List.mem_append.1 h with h | h
      · exact absurd h (globalName_noChunkMem _ _ t' mm)
      · simp only [List.mem_singleton, Ev.chunk.injEq] at h
        exact ⟨h.1, fun _ => ha⟩
    · have hfb : (f0 == -2) = false := by simpa using hf
      simp only [hfb, Bool.false_eq_true, if_false]
      refine ⟨trivial, fun t' mm h => ?_⟩
      simp only [List.mem_singleton, Ev.chunk.injEq] at h
      exact ⟨h.1, fun _ => ha⟩

theorem combNoInner_keep (cfg : CombCfg) (st : CombSt) (chunk : Option Text) (m : Mapping) (a b c d : Int) (ha : 0 ≤ a) :
    (combNoInner cfg st chunk m a b c d).1.innerSourceIndex = st.innerSourceIndex
    ∧ ∀ t' mm, Ev.chunk t' mm ∈ (combNoInner cfg st chunk m a b c d).2 → t' = chunk ∧ (mm.orig.isSome = true → 0 ≤ a) := by
  unfold combNoInner
  split
  · refine ⟨rfl, fun t' mm h => ?_⟩
    simp only [List.mem_singleton, Ev.chunk.injEq] at h
    exact ⟨h.1, fun _ => ha⟩
  · split
    · split
      · exact ⟨(combPass_keep _ chunk m a b c d).1, fun t' mm h => ⟨((combPass_keep _ chunk m a b c d).2 t' mm h).1, fun _ => ha⟩⟩
      · refine ⟨(combPass_keep _ chunk m a b c d).1, fun t' mm h => ?_⟩
        simp only [List.mem_cons, reduceCtorEq, false_or] at h
        exact ⟨((combPass_keep _ chunk m a b c d).2 t' mm h).1, fun _ => ha⟩
    · exact ⟨(combPass_keep _ chunk m a b c d).1, fun t' mm h => ⟨((combPass_keep _ chunk m a b c d).2 t' mm h).1, fun _ => ha⟩⟩

theorem combSrcResolve_keep (st : CombSt) (isi : Nat) : (combSrcResolve st isi).1.innerSourceIndex = st.innerSourceIndex := by
  unfold combSrcResolve; dsimp only; split <;> rfl

theorem combNameResolve_keep (st : CombSt) (isi : Nat) (seg : InnerSeg) (a b c : Int) :
    (combNameResolve st isi seg a b c).1.innerSourceIndex = st.innerSourceIndex := by
  unfold combNameResolve
  simp only
  repeat' split
  all_goals rfl

theorem combFound_keep (st : CombSt) (chunk : Option Text) (m : Mapping) (seg : InnerSeg) (ic : Text) (a b : Int) :
    (combFound st chunk m seg ic a b).1.innerSourceIndex = st.innerSourceIndex := by
  unfold combFound
  dsimp only
  rw [combNameResolve_keep, combSrcResolve_keep]

theorem mem_keys (evs : List Ev) (t : Option Text) (m : Mapping) (h : Ev.chunk t m ∈ evs) : (t, m.gl, m.gc) ∈ evsKeys evs := by
  unfold evsKeys
  exact List.mem_filterMap.2 ⟨_, h, rfl⟩

theorem combOnChunk_keep (cfg : CombCfg) (st : CombSt) (h : ISI st) (chunk : Option Text) (m : Mapping) :
    (combOnChunk cfg st chunk m).1.innerSourceIndex = st.innerSourceIndex
    ∧ ∀ t' mm, Ev.chunk t' mm ∈ (combOnChunk cfg st chunk m).2 → t' = chunk ∧ (mm.orig.isSome = true → m.orig.isSome = true) := by
  rw [combOnChunk_eq]
  have hsi : 0 ≤ m.si → m.orig.isSome = true := by
    unfold Mapping.si
    cases m.orig with
    | none => intro h0; simp only at h0; omega
    | some a => intro _; rfl
  have hsi2 : m.orig.isSome = true ∨ m.si = -1 := by
    unfold Mapping.si
    cases m.orig with
    | none => exact Or.inr rfl
    | some a => exact Or.inl rfl
  unfold combOnChunkI
  split
  · rename_i heq
    have heq' : m.si = st.innerSourceIndex := by simpa using heq
    have h0 : 0 ≤ m.si := by
      rcases h with h | h
      · rcases hsi2 with h2 | h2
        · unfold Mapping.si at heq' ⊢
          cases hm : m.orig with
          | none => rw [hm] at h2; cases h2
          | some a => simp only; omega
        · omega
      · omega
    split
    · obtain ⟨k1, k2⟩ := combNoInner_keep cfg st chunk m m.si m.ol m.oc m.ni h0
      exact ⟨k1, fun t' mm hm => ⟨(k2 t' mm hm).1, fun _ => hsi h0⟩⟩
    · split
      · refine ⟨combFound_keep st chunk m _ _ m.oc m.ni, fun t' mm hm => ⟨?_, fun _ => hsi h0⟩⟩
        have := mem_keys _ t' mm hm
        rw [combFound_keys] at this
        simp only [List.mem_singleton, Prod.mk.injEq] at this
        exact this.1
      · obtain ⟨k1, k2⟩ := combNoInner_keep cfg st chunk m m.si m.ol m.oc m.ni h0
        exact ⟨k1, fun t' mm hm => ⟨(k2 t' mm hm).1, fun _ => hsi h0⟩⟩
  · obtain ⟨k1, k2⟩ := combPass_keep st chunk m m.si m.ol m.oc m.ni
    exact ⟨k1, fun t' mm hm => ⟨(k2 t' mm hm).1, fun hc => hsi ((k2 t' mm hm).2 hc)⟩⟩

theorem combInnerFold_keep : ∀ (evs : List Ev) (st : CombSt), (evs.foldl combInnerEv st).innerSourceIndex = st.innerSourceIndex := by
  intro evs
  induction evs with
  | nil => intro st; rfl
  | cons e es ih =>
    intro st
    simp only [List.foldl_cons]
    rw [ih]
    cases e <;> rfl

theorem combFold_mappedNE (cfg : CombCfg) : ∀ (evs : List Ev) (st : CombSt), ISI st → MappedNE evs → MappedNE (combFold cfg st evs) := by
  intro evs
  induction evs with
  | nil => intro st _ _; exact mappedNE_nil
  | cons e es ih =>
    intro st h hne
    have hne' : MappedNE es := fun t m hm => hne t m (List.mem_cons_of_mem _ hm)
    simp only [combFold]
    cases e with
    | chunk text m =>
      simp only [combStep]
      obtain ⟨k1, k2⟩ := combOnChunk_keep cfg st h text m
      refine mappedNE_append _ _ ?_ (ih _ (by unfold ISI; rw [k1]; exact h) hne')
      intro t mm hm ho
      obtain ⟨e1, e2⟩ := k2 (some t) mm hm
      exact hne t m (by rw [e1]; simp) (e2 ho)
    | source i s c =>
      simp only [combStep]
      refine mappedNE_append _ _ ?_ (ih _ ?_ hne')
      · unfold combOnSource
        split
        · exact mappedNE_nil
        · exact mappedNE_noChunk _ (fun e he => by
            unfold globalSource at he
            split at he
            · simp at he
            · simp only [List.mem_singleton] at he; subst he; rfl)
      · unfold combOnSource ISI
        split
        · rw [combInnerFold_keep]; exact Or.inr (by simp only; omega)
        · exact h
    | name i n =>
      simp only [combStep, List.nil_append]
      exact ih _ h hne'

/-- the combinator keeps "mapped chunks carry text" of the outer map's stream -/
theorem streamCombined_mappedNE (t : Text) (sm : SMap) (n : Text) (os : Option Text) (im : SMap) (rm : Bool) (c : Bool) :
    MappedNE (streamCombined t sm n os im rm ⟨c, false⟩).evs := by
  simp only [streamCombined]
  exact combFold_mappedNE _ _ _ (Or.inl rfl) (streamSM_mappedNE t sm c)

/-! ### whole trees -/
mutual
/-- (no hypothesis is needed any more; kept as a predicate so that the statements of C10 stay stable) -/
def Src.NEHyp (c : Bool) : Src → Prop
  | .concat cs => cs.NEHyps c
  | .replace inner _ => inner.NEHyp c
  | .cached _ inner => inner.NEHyp c
  | _ => True
def SrcList.NEHyps (c : Bool) : SrcList → Prop
  | .nil => True
  | .cons s r => s.NEHyp c ∧ r.NEHyps c
end

mutual
/-- **every mapped chunk of every normal-mode stream carries text** -/
theorem Src.stream_mappedNE : ∀ (s : Src) (c : Bool) (σ : Store), s.NEHyp c → MappedNE (s.stream ⟨c, false⟩ σ).1.evs
  | .raw _ _ lossy, c, σ, _ => by simp only [Src.stream]; exact streamRaw_mappedNE lossy c
  | .rawStr t, c, σ, _ => by simp only [Src.stream]; exact streamRaw_mappedNE t c
  | .rawBuf _ lossy, c, σ, _ => by simp only [Src.stream]; exact streamRaw_mappedNE lossy c
  | .orig t name, c, σ, _ => by simp only [Src.stream]; exact streamOriginal_mappedNE t name c
  | .sms t name map origSrc inner remove, c, σ, h => by
    simp only [Src.stream]
    cases inner with
    | none => exact streamSM_mappedNE t map c
    | some im => exact streamCombined_mappedNE t map name origSrc im remove c
  | .concat .nil, c, σ, _ => by simp only [Src.stream]; exact concatStream_mappedNE [] (by simp)
  | .concat (.cons s rest), c, σ, h => by
    simp only [Src.NEHyp, SrcList.NEHyps] at h
    cases hr : rest with
    | nil => simp only [Src.stream]; exact Src.stream_mappedNE s c σ h.1
    | cons s2 rest2 =>
      simp only [Src.stream]
      apply concatStream_mappedNE
      intro x hx
      simp only [List.mem_cons] at hx
      rcases hx with rfl | hx
      · exact Src.stream_mappedNE s c σ h.1
      · exact SrcList.streams_mappedNE (.cons s2 rest2) c _ (hr ▸ h.2) x hx
  | .replace inner rs, c, σ, _ => by simp only [Src.stream]; exact replaceStream_mappedNE _ _
  | .cached id inner, c, σ, h => by
    simp only [Src.NEHyp] at h
    simp only [Src.stream]
    cases hg : Store.get? σ (id, ⟨c, false⟩) with
    | none => simp only; exact Src.stream_mappedNE inner c σ h
    | some v =>
      cases v with
      | none => simp only; exact streamRaw_mappedNE inner.src c
      | some m => simp only; exact streamSM_mappedNE inner.src m c
theorem SrcList.streams_mappedNE : ∀ (l : SrcList) (c : Bool) (σ : Store), l.NEHyps c → ∀ r ∈ (l.streams ⟨c, false⟩ σ).1, MappedNE r.evs
  | .nil, c, σ, _ => by intro r hr; simp [SrcList.streams] at hr
  | .cons s rest, c, σ, h => by
    simp only [SrcList.NEHyps] at h
    intro r hr
    simp only [SrcList.streams, List.mem_cons] at hr
    rcases hr with rfl | hr
    · exact Src.stream_mappedNE s c σ h.1
    · exact SrcList.streams_mappedNE rest c _ h.2 r hr
end

mutual
theorem Src.neHyp_all : ∀ (s : Src) (c : Bool), s.NEHyp c
  | .raw .., _ | .rawStr .., _ | .rawBuf .., _ | .orig .., _ | .sms .., _ => trivial
  | .concat cs, c => by simp only [Src.NEHyp]; exact SrcList.neHyps_all cs c
  | .replace inner _, c => by simp only [Src.NEHyp]; exact Src.neHyp_all inner c
  | .cached _ inner, c => by simp only [Src.NEHyp]; exact Src.neHyp_all inner c
theorem SrcList.neHyps_all : ∀ (l : SrcList) (c : Bool), l.NEHyps c
  | .nil, _ => trivial
  | .cons s r, c => ⟨Src.neHyp_all s c, SrcList.neHyps_all r c⟩
end

/-- **every mapped chunk of every normal-mode stream of every tree carries text** (no hypothesis) -/
theorem Src.stream_mappedNE' (s : Src) (c : Bool) (σ : Store) : MappedNE (s.stream ⟨c, false⟩ σ).1.evs :=
  Src.stream_mappedNE s c σ (Src.neHyp_all s c)

end Rs
