import RsModel.Lemmas.Codec
import RsModel.Spec.Attr
/-! # what the encoder drops changes no lookup; re-encoding is idempotent -/
namespace Rs

theorem encodeFrom_kept (ms : List Mapping) : ∀ e, encodeFrom e (keptFrom e ms) = encodeFrom e ms := by
  induction ms with
  | nil => intro e; rfl
  | cons m ms ih =>
    intro e
    simp only [keptFrom, encodeFrom]
    by_cases hs : encSkip e m = true
    · simp only [hs, if_true]; exact ih e
    · simp only [hs, Bool.false_eq_true, if_false, encodeFrom, ih]

/-- the original location the encoder considers active -/
def EncSt.activeOrig (e : EncSt) : Option Orig :=
  if e.activeMapping then some ⟨e.curSrc, e.curOL, e.curOC, if e.activeName then some e.curName else none⟩ else none

theorem activeOrig_next (e : EncSt) (m : Mapping) : (encNext e m).activeOrig = m.orig := by
  obtain ⟨gl, gc, orig⟩ := m
  cases orig with
  | none => simp [encNext, EncSt.activeOrig]
  | some o =>
    obtain ⟨s, l, c, n⟩ := o
    cases n <;> simp [encNext, EncSt.activeOrig]

/-- relation between the lookup accumulators over the kept list (`aK`) and over the full list (`aF`) -/
structure LRel (l c : Nat) (e : EncSt) (aK aF : Option (Option Orig)) : Prop where
  same : aK.join = aF.join
  init : e.initial = true → aK = none
  inact : e.initial = true → e.activeMapping = false
  before : e.curLine < l → aK = none
  at_ : e.initial = false → e.curLine = l → e.curCol ≤ c → aK = some e.activeOrig

theorem kept_lookupGo (l c : Nat) : ∀ (ms : List Mapping) (e : EncSt) (aK aF : Option (Option Orig)),
    sortedFrom e.curLine e.curCol ms → LRel l c e aK aF →
    (lookupGo l c aK (keptFrom e ms)).join = (lookupGo l c aF ms).join := by
  intro ms
  induction ms with
  | nil => intro e aK aF _ hr; simpa [keptFrom, lookupGo] using hr.same
  | cons m ms ih =>
    intro e aK aF hs hr
    obtain ⟨hle, hrest⟩ := hs
    simp only [keptFrom, lookupGo]
    by_cases hskip : encSkip e m = true
    · -- dropped: the kept accumulator is unchanged, the full one may move to the same resolved value
      simp only [hskip, if_true]
      have hrest' : sortedFrom e.curLine e.curCol ms := by
        cases ms with
        | nil => trivial
        | cons m2 ms2 =>
          obtain ⟨h2, h3⟩ := hrest
          exact ⟨by omega, h3⟩
      apply ih e aK _ hrest'
      by_cases hmatch : m.gl = l ∧ m.gc ≤ c
      · simp only [hmatch, and_self, if_true]
        refine ⟨?_, hr.init, hr.inact, hr.before, hr.at_⟩
        -- the dropped mapping resolves like what is active
        unfold encSkip at hskip
        by_cases hact : (e.activeMapping && e.curLine == m.gl) = true
        · simp only [hact, if_true] at hskip
          simp only [Bool.and_eq_true, beq_iff_eq] at hact
          cases ho : m.orig with
          | none => simp [ho] at hskip
          | some o =>
            simp only [ho, Bool.and_eq_true, beq_iff_eq, Bool.not_eq_true', Option.isNone_iff_eq_none] at hskip
            obtain ⟨⟨⟨⟨h1, h2⟩, h3⟩, h4⟩, h5⟩ := hskip
            have hinit : e.initial = false := by
              cases hi : e.initial with
              | false => rfl
              | true => have := hr.inact hi; simp [this] at hact
            have := hr.at_ hinit (by omega) (by omega)
            rw [this]
            simp [EncSt.activeOrig, hact.1, h4, ← h1, ← h2, ← h3]
            obtain ⟨s, ln, cl, n⟩ := o
            simp_all
        · simp only [hact, Bool.false_eq_true, if_false, Option.isNone_iff_eq_none] at hskip
          simp only [hskip, Option.join_some]
          -- nothing active on this line: the kept accumulator resolves to none
          by_cases hi : e.initial = true
          · rw [hr.init hi]; rfl
          · have hi' : e.initial = false := by simpa using hi
            rcases Nat.lt_or_ge e.curLine l with hlt | hge
            · rw [hr.before hlt]; rfl
            · have hl : e.curLine = l := by omega
              have := hr.at_ hi' hl (by omega)
              rw [this]
              have hna : e.activeMapping = false := by
                cases ha : e.activeMapping with
                | false => rfl
                | true => simp [ha, hl, hmatch.1] at hact
              simp [EncSt.activeOrig, hna]
      · simp only [hmatch, if_false]
        exact hr
    · simp only [hskip, Bool.false_eq_true, if_false, lookupGo]
      have hline := encNext_line e m (by omega : e.curLine ≤ m.gl)
      have hcol : (encNext e m).curCol = m.gc := by unfold encNext; cases m.orig <;> rfl
      have hinit : (encNext e m).initial = false := by unfold encNext; cases m.orig <;> rfl
      apply ih (encNext e m) _ _ (by rw [hline, hcol]; exact hrest)
      by_cases hmatch : m.gl = l ∧ m.gc ≤ c
      · simp only [hmatch, and_self, if_true]
        refine ⟨rfl, by simp [hinit], by simp [hinit], by omega, ?_⟩
        intro _ _ _; rw [activeOrig_next]
      · simp only [hmatch, if_false]
        refine ⟨hr.same, by simp [hinit], by simp [hinit], ?_, ?_⟩
        · intro hlt
          by_cases hi : e.initial = true
          · exact hr.init hi
          · exact hr.before (by omega)
        · intro _ h1 h2; exact absurd ⟨by omega, by omega⟩ hmatch

end Rs
