import RsModel.Lemmas.NameLevel
/-!
# C10 at name level: the replay announces what the first stream announced

A cache filled by streaming stores the map `get_map` builds from that stream; the replay streams the text through the map-driven
splitter, which announces the map's `sources` / `names`.  Those tables are the first stream's announcements, so the replay resolves
every byte to the same file name, line, column and name.
-/
namespace Rs

theorem tblS_sourceEvs (f : Nat → Text) (g : Nat → Option Text) : ∀ (n s : Nat) (S : SrcTbl) (i : Nat),
    tblS S ((List.range' s n).map fun k => Ev.source k (f k) (g k)) i = if s ≤ i ∧ i < s + n then some (f i, g i) else S i := by
  intro n
  induction n with
  | zero => intro s S i; simp [tblS]; intro h1 h2; omega
  | succ n ih =>
    intro s S i
    simp only [List.range'_succ, List.map_cons, tblS]
    rw [ih (s + 1) _ i]
    by_cases h1 : s + 1 ≤ i ∧ i < s + 1 + n
    · rw [if_pos h1, if_pos ⟨by omega, by omega⟩]
    · rw [if_neg h1]
      simp only [upd]
      by_cases h2 : i = s
      · subst h2; rw [if_pos rfl, if_pos ⟨Nat.le_refl _, by omega⟩]
      · rw [if_neg h2, if_neg (by intro h; apply h1; omega)]

theorem tblN_nameEvs (f : Nat → Text) : ∀ (n s : Nat) (N : NameTbl) (i : Nat),
    tblN N ((List.range' s n).map fun k => Ev.name k (f k)) i = if s ≤ i ∧ i < s + n then some (f i) else N i := by
  intro n
  induction n with
  | zero => intro s N i; simp [tblN]; intro h1 h2; omega
  | succ n ih =>
    intro s N i
    simp only [List.range'_succ, List.map_cons, tblN]
    rw [ih (s + 1) _ i]
    by_cases h1 : s + 1 ≤ i ∧ i < s + 1 + n
    · rw [if_pos h1, if_pos ⟨by omega, by omega⟩]
    · rw [if_neg h1]
      simp only [upd]
      by_cases h2 : i = s
      · subst h2; rw [if_pos rfl, if_pos ⟨Nat.le_refl _, by omega⟩]
      · rw [if_neg h2, if_neg (by intro h; apply h1; omega)]

theorem tblS_noSource : ∀ (evs : List Ev) (S : SrcTbl), cntS evs = 0 → tblS S evs = S := by
  intro evs
  induction evs with
  | nil => intro S _; rfl
  | cons e es ih =>
    intro S h
    cases e with
    | chunk t m => simp only [cntS] at h; simp only [tblS]; exact ih S h
    | source i s c => simp [cntS] at h
    | name i n => simp only [cntS] at h; simp only [tblS]; exact ih S h

theorem tblN_noName : ∀ (evs : List Ev) (N : NameTbl), cntN evs = 0 → tblN N evs = N := by
  intro evs
  induction evs with
  | nil => intro N _; rfl
  | cons e es ih =>
    intro N h
    cases e with
    | chunk t m => simp only [cntN] at h; simp only [tblN]; exact ih N h
    | source i s c => simp only [cntN] at h; simp only [tblN]; exact ih N h
    | name i n => simp [cntN] at h

/-- the tables the map-driven splitter (columns = true, normal mode) ends with are the map's own tables -/
theorem streamSMFull_tables (t : Text) (sm : SMap) (hne : (splitLines t).isEmpty = false) :
    (∀ i, i < sm.sources.length → (tblS emptyS (streamSMFull t sm).evs i).map (·.1) = some (applyRoot sm.sourceRoot (sm.sources.getD i [])))
    ∧ (∀ i, i < sm.names.length → tblN emptyN (streamSMFull t sm).evs i = some (sm.names.getD i [])) := by
  unfold streamSMFull
  simp only [hne, Bool.false_eq_true, if_false]
  obtain ⟨_, s2, s3⟩ := smSourceEvs_decl sm 0
  obtain ⟨_, n2, n3⟩ := smNameEvs_decl sm 0
  have hco := smFullGo_origs (fun _ => True) (splitLines t)
    (if endsWithNL ((splitLines t).getLast?.getD []) then (splitLines t).length + 1 else (splitLines t).length)
    (if endsWithNL ((splitLines t).getLast?.getD []) then 0 else ((splitLines t).getLast?.getD []).length)
    (decode sm.mappings ++ [⟨if endsWithNL ((splitLines t).getLast?.getD []) then (splitLines t).length + 1 else (splitLines t).length,
      if endsWithNL ((splitLines t).getLast?.getD []) then 0 else ((splitLines t).getLast?.getD []).length, none⟩]) {} (fun _ _ => trivial) (fun _ _ _ _ => trivial)
  obtain ⟨c1, c2⟩ := chunkOrigs_cnt _ _ hco
  constructor
  · intro i hi
    rw [tblS_append, tblS_append, tblS_noSource _ _ c1, tblS_noSource _ _ n2]
    unfold smSourceEvs
    rw [List.range_eq_range', tblS_sourceEvs]
    simp [hi]
  · intro i hi
    rw [tblN_append, tblN_append, tblN_noName _ _ c2]
    have : tblN emptyN (smSourceEvs sm) = emptyN := tblN_noName _ _ s3
    rw [this]
    unfold smNameEvs
    rw [List.range_eq_range', tblN_nameEvs]
    simp [hi]

theorem attrOf_nil_of_text : ∀ (evs : List Ev), evsTL evs = false → evsText evs = [] → attrOf evs = [] := by
  intro evs hTL ht
  have := attrOf_length evs
  rw [ht] at this
  exact List.eq_nil_of_length_eq_zero this

/-- **the replay resolves every byte to the same file name, line, column and name** -/
theorem replay_names (r : SResult) (hp : PosOK r) (hT : ChunksTok r.evs) (hTL : evsTL r.evs = false) (hMN : MappedNE r.evs)
    (ha : IsAscii (evsText r.evs)) (hl : (evsText r.evs).length ≤ USIZE_MAX) (hsmall : ∀ m ∈ chunkMs r.evs, m.small)
    (hd : DeclOK 0 0 r.evs) (sm : SMap) (hm : mapOfEvs true r.evs = some sm) :
    (attrN emptyS emptyN (streamSMFull (evsText r.evs) sm).evs).map (Option.map RLoc.toN)
      = (attrN emptyS emptyN r.evs).map (Option.map RLoc.toN) := by
  have hsorted : sortedFrom 1 0 (chunkMs r.evs) := chunkMs_sorted r.evs [] hp.1 hTL
  have hidx := mapOfEvs_idxOK r.evs hd hsmall (linesOK_of_sorted _ 1 0 hsorted) sm hm
  have hattr := replay_attr r hp hT hTL hMN ha hl hsmall sm (mapOfEvs_mappings _ sm hm)
  have hdr : DeclOK 0 0 (streamSMFull (evsText r.evs) sm).evs := by
    have := streamSM_declOK (evsText r.evs) sm ⟨true, false⟩ hidx
    simpa [streamSM] using this
  rw [attrN_end_tables _ 0 0 emptyS emptyN hdr, attrN_end_tables _ 0 0 emptyS emptyN hd, hattr, List.map_map, List.map_map]
  apply List.map_congr_left
  intro a ha'
  obtain ⟨m, hmm, rfl⟩ := attrOf_mem _ a ha'
  cases ho : m.orig with
  | none => rfl
  | some o =>
    have hio := declOK_chunkMs _ 0 0 hd m hmm o ho
    simp only [Nat.zero_add] at hio
    -- the map's tables
    have hrel := mapAcc_tblRelF r.evs 0 0 {} emptyS emptyN hd ⟨rfl, rfl, fun i hi => by omega, fun i hi => by omega⟩
    obtain ⟨r1, r3, r4, r5⟩ := hrel
    simp only [Nat.zero_add] at r1 r3 r4 r5
    have hsm : sm.sources = (r.evs.foldl mapAccEv {}).sources ∧ sm.names = (r.evs.foldl mapAccEv {}).names ∧ sm.sourceRoot = none := by
      unfold mapOfEvs at hm
      dsimp only at hm
      split at hm
      · cases hm
      · simp only [Option.some.injEq] at hm
        rw [← hm]
        exact ⟨rfl, rfl, rfl⟩
    -- the text is not empty (a mapped chunk carries text)
    have hne : (splitLines (evsText r.evs)).isEmpty = false := by
      cases hx : (splitLines (evsText r.evs)).isEmpty with
      | false => rfl
      | true =>
        exfalso
        have ht : evsText r.evs = [] := (splitLines_nil_iff _).1 (List.isEmpty_iff.1 hx)
        have := attrOf_nil_of_text r.evs hTL ht
        rw [this] at ha'
        simp at ha'
    obtain ⟨t1, t2⟩ := streamSMFull_tables (evsText r.evs) sm hne
    have hs1 : o.src < sm.sources.length := by rw [hsm.1, r1]; exact hio.1
    simp only [Function.comp, Option.map_some, resolveO, RLoc.toN, Option.some.injEq, NLoc.mk.injEq, true_and]
    refine ⟨?_, ?_⟩
    · rw [t1 o.src hs1, r4 o.src hio.1, hsm.2.2, ← hsm.1]
      simp only [applyRoot]
      rw [List.getD_eq_getElem?_getD, List.getElem?_eq_getElem hs1]
      rfl
    · cases hn : o.name with
      | none => rfl
      | some k =>
        have hk := hio.2 k hn
        have hk2 : k < sm.names.length := by rw [hsm.2.1, r3]; exact hk
        simp only [Option.map_some]
        rw [t2 k hk2, r5 k hk, ← hsm.2.1, List.getD_eq_getElem?_getD, List.getElem?_eq_getElem hk2]
        rfl

end Rs
