import RsModel.Model.Stream
import RsModel.Lemmas.Vlq
/-! # line splitting, token splitting, position calculus -/
namespace Rs

theorem splitLinesAux_join (acc t : Text) : (splitLinesAux acc t).flatten = acc.reverse ++ t := by
  induction t generalizing acc with
  | nil => simp only [splitLinesAux]; split <;> simp_all
  | cons c cs ih =>
    simp only [splitLinesAux]; split
    · simp [ih]
    · rw [ih]; simp

theorem splitLines_join (t : Text) : (splitLines t).flatten = t := by
  simp [splitLines, splitLinesAux_join]

theorem tokAux_join (b : Bool) (acc t : Text) : (tokAux b acc t).flatten = acc.reverse ++ t := by
  induction t generalizing b acc with
  | nil => cases b <;> (simp only [tokAux]; split <;> simp_all)
  | cons c cs ih =>
    cases b
    · simp only [tokAux]
      split
      · rw [ih]; simp
      · split
        · rw [ih]; simp
        · simp [ih]
    · simp only [tokAux]
      split
      · rw [ih]; simp
      · split
        · simp [ih]
        · simp [ih]

theorem tokens_join (t : Text) : (tokens t).flatten = t := by
  simp [tokens, tokAux_join]

theorem adv_append (p : Pos) (a b : Text) : adv p (a ++ b) = adv (adv p a) b := by
  induction a generalizing p with
  | nil => rfl
  | cons c cs ih => simp only [List.cons_append, adv]; split <;> exact ih _

theorem evsText_append (a b : List Ev) : evsText (a ++ b) = evsText a ++ evsText b := by
  simp [evsText]

theorem evsText_nil : evsText [] = [] := rfl

theorem evsText_singleton (e : Ev) : evsText [e] = e.text := by simp [evsText]

theorem evsText_cons (e : Ev) (es : List Ev) : evsText (e :: es) = e.text ++ evsText es := by
  simp [evsText]

theorem rawChunks_text (l : Nat) (ls : List Text) : evsText (rawChunks l ls) = ls.flatten := by
  induction ls generalizing l with
  | nil => rfl
  | cons t ts ih => simp [rawChunks, evsText_cons, Ev.text, ih]

theorem rawChunks_hasText (l : Nat) (ls : List Text) : ∀ e ∈ rawChunks l ls, e.textless = false := by
  induction ls generalizing l with
  | nil => simp [rawChunks]
  | cons t ts ih =>
    intro e he
    simp only [rawChunks, List.mem_cons] at he
    rcases he with rfl | he
    · rfl
    · exact ih _ e he

/-- C01 for the raw leaf -/
theorem streamRaw_text (t : Text) (c : Bool) : evsText (streamRaw t ⟨c, false⟩).evs = t := by
  simp [streamRaw, rawChunks_text, splitLines_join]

theorem origLineChunks_text (l : Nat) (ls : List Text) : evsText (origLineChunks l ls) = ls.flatten := by
  induction ls generalizing l with
  | nil => rfl
  | cons t ts ih => simp [origLineChunks, evsText_cons, Ev.text, ih]

theorem origTokChunks_text (l c : Nat) (toks : List Text) :
    evsText (origTokChunks false l c toks).1 = toks.flatten := by
  induction toks generalizing l c with
  | nil => rfl
  | cons t ts ih =>
    simp only [origTokChunks, evsText_append, List.flatten_cons]
    have h1 : evsText (if (endsWithNL t && t.length == 1) = true then
          (if false = true then [] else [Ev.chunk (some t) ⟨l, c, none⟩])
        else [Ev.chunk (if false = true then none else some t) ⟨l, c, some ⟨0, l, c, none⟩⟩]) = t := by
      split <;> simp [evsText, Ev.text]
    rw [h1]
    split <;> rw [ih]

/-- C01 for the OriginalSource leaf, both column settings -/
theorem streamOriginal_text (t name : Text) (c : Bool) : evsText (streamOriginal t name ⟨c, false⟩).evs = t := by
  cases c
  · simp [streamOriginal, evsText_cons, Ev.text, origLineChunks_text, splitLines_join]
  · simp [streamOriginal, evsText_cons, Ev.text, origTokChunks_text, tokens_join]

end Rs
