import RsModel.Lemmas.ChunksTok
import RsModel.Lemmas.TreeText
import RsModel.Lemmas.HasText
/-! # C02 for whole source trees -/
namespace Rs

mutual
/-- the `CachedSource` nodes of a tree, with the source each one wraps -/
def Src.cachedNodes : Src → List (Nat × Src)
  | .concat cs => cs.cachedNodesL
  | .replace inner _ => inner.cachedNodes
  | .cached id inner => (id, inner) :: inner.cachedNodes
  | _ => []
def SrcList.cachedNodesL : SrcList → List (Nat × Src)
  | .nil => []
  | .cons s r => s.cachedNodes ++ r.cachedNodesL
end

def Src.ids (s : Src) : List Nat := s.cachedNodes.map (·.1)
def SrcList.idsL (l : SrcList) : List Nat := l.cachedNodesL.map (·.1)

mutual
/-- what the property's quantifier provides: SourceMapSource texts (and texts replayed by a CachedSource) are ASCII and carry maps
whose segments lie inside them; the output of a ReplaceSource is shorter than `2^32` bytes -/
def Src.PosHyp (c : Bool) : Src → Prop
  | .sms t _ map _ _ _ => IsAscii t ∧ t.length ≤ USIZE_MAX ∧ (c = true → MapInside t map)
  | .concat cs => cs.PosHyps c
  | .replace inner rs => inner.PosHyp c ∧ (replaceSource inner.src rs).length + 1 < 2 ^ 32
  | .cached _ inner => inner.PosHyp c ∧ IsAscii inner.src ∧ inner.src.length ≤ USIZE_MAX
  | _ => True
def SrcList.PosHyps (c : Bool) : SrcList → Prop
  | .nil => True
  | .cons s r => s.PosHyp c ∧ r.PosHyps c
end

/-- whatever earlier calls cached for the nodes of this tree are maps inside the texts they are replayed on -/
def StoreHyp (c : Bool) (σ : Store) (nodes : List (Nat × Src)) : Prop :=
  ∀ p ∈ nodes, ∀ m, σ.get? (p.1, ⟨c, false⟩) = some (some m) → c = true → MapInside p.2.src m

theorem get_insertNew_other (σ : Store) (k k' : Nat × Opts) (v : Option SMap) (h : k ≠ k') :
    (σ.insertNew k v).get? k' = σ.get? k' := by
  unfold Store.insertNew
  split
  · rfl
  · unfold Store.get?
    rw [List.find?_append]
    have : (k == k') = false := by simpa using h
    cases σ.find? (fun e => e.1 == k') <;> simp [List.find?, this]

mutual
/-- streaming a tree only touches the cache entries of its own `CachedSource` nodes -/
theorem Src.stream_store_other : ∀ (s : Src) (o : Opts) (σ : Store) (k : Nat × Opts), k.1 ∉ s.ids → (s.stream o σ).2.get? k = σ.get? k
  | .raw .., o, σ, k, _ | .rawStr .., o, σ, k, _ | .rawBuf .., o, σ, k, _ | .orig .., o, σ, k, _ => rfl
  | .sms t name map origSrc inner remove, o, σ, k, _ => by simp only [Src.stream]; split <;> rfl
  | .concat .nil, o, σ, k, _ => rfl
  | .concat (.cons s rest), o, σ, k, h => by
    simp only [Src.ids, Src.cachedNodes, SrcList.cachedNodesL, List.map_append, List.mem_append, not_or] at h
    cases hr : rest with
    | nil => simp only [Src.stream]; exact Src.stream_store_other s o σ k h.1
    | cons s2 rest2 =>
      simp only [Src.stream]
      rw [SrcList.streams_store_other (.cons s2 rest2) o _ k (by rw [← hr]; exact h.2)]
      exact Src.stream_store_other s o σ k h.1
  | .replace inner rs, o, σ, k, h => by
    simp only [Src.stream]
    exact Src.stream_store_other inner _ σ k h
  | .cached id inner, o, σ, k, h => by
    simp only [Src.ids, Src.cachedNodes, List.map_cons, List.mem_cons, not_or] at h
    simp only [Src.stream]
    cases hg : Store.get? σ (id, o) with
    | some v => cases v <;> rfl
    | none =>
      simp only
      rw [get_insertNew_other _ _ _ _ (by intro e; exact h.1 (by rw [← e]))]
      exact Src.stream_store_other inner o σ k h.2
theorem SrcList.streams_store_other : ∀ (l : SrcList) (o : Opts) (σ : Store) (k : Nat × Opts), k.1 ∉ l.idsL → (l.streams o σ).2.get? k = σ.get? k
  | .nil, o, σ, k, _ => rfl
  | .cons s rest, o, σ, k, h => by
    simp only [SrcList.idsL, SrcList.cachedNodesL, List.map_append, List.mem_append, not_or] at h
    simp only [SrcList.streams]
    rw [SrcList.streams_store_other rest o _ k h.2]
    exact Src.stream_store_other s o σ k h.1
end

theorem storeHyp_sub (c : Bool) (σ : Store) (a b : List (Nat × Src)) (h : StoreHyp c σ (a ++ b)) : StoreHyp c σ a ∧ StoreHyp c σ b :=
  ⟨fun p hp => h p (List.mem_append_left _ hp), fun p hp => h p (List.mem_append_right _ hp)⟩

theorem storeHyp_transfer (c : Bool) (σ σ' : Store) (nodes : List (Nat × Src)) (h : StoreHyp c σ nodes)
    (hsame : ∀ p ∈ nodes, σ'.get? (p.1, ⟨c, false⟩) = σ.get? (p.1, ⟨c, false⟩)) : StoreHyp c σ' nodes := by
  intro p hp m hm hc
  rw [hsame p hp] at hm
  exact h p hp m hm hc

mutual
/-- **C02 for every tree** (normal mode): all chunks at their true positions, end information exact -/
theorem Src.stream_posOK : ∀ (s : Src) (c : Bool) (σ : Store), s.WF → s.PosHyp c → s.ids.Nodup → StoreHyp c σ s.cachedNodes →
    PosOK (s.stream ⟨c, false⟩ σ).1
  | .raw _ _ lossy, c, σ, _, _, _, _ => by simp only [Src.stream]; exact streamRaw_posOK lossy c
  | .rawStr t, c, σ, _, _, _, _ => by simp only [Src.stream]; exact streamRaw_posOK t c
  | .rawBuf _ lossy, c, σ, _, _, _, _ => by simp only [Src.stream]; exact streamRaw_posOK lossy c
  | .orig t name, c, σ, _, _, _, _ => by simp only [Src.stream]; exact streamOriginal_posOK t name c
  | .sms t name map origSrc inner remove, c, σ, _, hp, _, _ => by
    simp only [Src.PosHyp] at hp
    have hsm := streamSM_posOK t map c hp.1 hp.2.1 hp.2.2
    simp only [Src.stream]
    cases inner with
    | none => exact hsm
    | some im => exact streamCombined_posOK t map name origSrc im remove c hsm
  | .concat .nil, c, σ, _, _, _, _ => by simp only [Src.stream]; exact concatStream_posOK [] (by simp)
  | .concat (.cons s rest), c, σ, hw, hp, hn, hs => by
    simp only [Src.WF, SrcList.WFs] at hw
    simp only [Src.PosHyp, SrcList.PosHyps] at hp
    simp only [Src.ids, Src.cachedNodes, SrcList.cachedNodesL, List.map_append] at hn hs
    obtain ⟨hs1, hs2⟩ := storeHyp_sub c σ _ _ hs
    have hn1 := (List.nodup_append.1 hn).1
    have hn2 := (List.nodup_append.1 hn).2.1
    have hdisj := (List.nodup_append.1 hn).2.2
    have h1 := Src.stream_posOK s c σ hw.1 hp.1 hn1 hs1
    cases hr : rest with
    | nil => simp only [Src.stream]; exact h1
    | cons s2 rest2 =>
      simp only [Src.stream]
      apply concatStream_posOK
      intro x hx
      simp only [List.mem_cons] at hx
      rcases hx with rfl | hx
      · exact h1
      · refine SrcList.streams_posOK (.cons s2 rest2) c _ (hr ▸ hw.2) (hr ▸ hp.2) (hr ▸ hn2) ?_ x hx
        rw [← hr]
        apply storeHyp_transfer c σ _ _ hs2
        intro p hpm
        apply Src.stream_store_other s _ σ
        intro hmem
        exact hdisj p.1 hmem p.1 (List.mem_map_of_mem hpm) rfl
  | .replace inner rs, c, σ, hw, hp, hn, hs => by
    simp only [Src.WF] at hw
    simp only [Src.PosHyp] at hp
    have hi := Src.stream_posOK inner c σ hw.1 hp.1 hn hs
    simp only [Src.stream]
    apply replaceStream_posOK _ _ hi (Src.stream_tok inner c σ) (Src.stream_tl inner c σ)
    rw [replaceStream_text _ _ (fun r hr => hw.2 r ((mem_sortRepls rs r).1 hr)), Src.stream_text inner c σ hw.1, ← replaceSource_eq]
    exact hp.2
  | .cached id inner, c, σ, hw, hp, hn, hs => by
    simp only [Src.WF] at hw
    simp only [Src.PosHyp] at hp
    simp only [Src.ids, Src.cachedNodes, List.map_cons, List.nodup_cons] at hn
    simp only [Src.stream]
    cases hg : Store.get? σ (id, ⟨c, false⟩) with
    | none =>
      simp only
      exact Src.stream_posOK inner c σ hw.1 hp.1 hn.2 (fun p hpm => hs p (by simp [Src.cachedNodes, hpm]))
    | some v =>
      cases v with
      | none => simp only; exact streamRaw_posOK inner.src c
      | some m =>
        simp only
        exact streamSM_posOK inner.src m c hp.2.1 hp.2.2 (fun hc => hs (id, inner) (by simp [Src.cachedNodes]) m hg hc)
theorem SrcList.streams_posOK : ∀ (l : SrcList) (c : Bool) (σ : Store), l.WFs → l.PosHyps c → l.idsL.Nodup → StoreHyp c σ l.cachedNodesL →
    ∀ r ∈ (l.streams ⟨c, false⟩ σ).1, PosOK r
  | .nil, c, σ, _, _, _, _ => by simp [SrcList.streams]
  | .cons s rest, c, σ, hw, hp, hn, hs => by
    simp only [SrcList.WFs] at hw
    simp only [SrcList.PosHyps] at hp
    simp only [SrcList.idsL, SrcList.cachedNodesL, List.map_append] at hn hs
    obtain ⟨hs1, hs2⟩ := storeHyp_sub c σ _ _ hs
    have hn1 := (List.nodup_append.1 hn).1
    have hn2 := (List.nodup_append.1 hn).2.1
    have hdisj := (List.nodup_append.1 hn).2.2
    intro r hr
    simp only [SrcList.streams, List.mem_cons] at hr
    rcases hr with rfl | hr
    · exact Src.stream_posOK s c σ hw.1 hp.1 hn1 hs1
    · refine SrcList.streams_posOK rest c _ hw.2 hp.2 hn2 ?_ r hr
      apply storeHyp_transfer c σ _ _ hs2
      intro p hpm
      apply Src.stream_store_other s _ σ
      intro hmem
      exact hdisj p.1 hmem p.1 (List.mem_map_of_mem hpm) rfl
end

end Rs
