import RsModel.Lemmas.RopeObs
/-! # `Rope::starts_with` is `isPrefixOf` on the flat strings (all four representation pairs) -/
namespace Rs
namespace Rope

theorem isPrefixOf_append (x y r : Text) : (x ++ y).isPrefixOf r = (x.isPrefixOf r && y.isPrefixOf (r.drop x.length)) := by
  induction x generalizing r with
  | nil => simp
  | cons a x ih =>
    cases r with
    | nil => simp [List.isPrefixOf]
    | cons b r => simp [List.isPrefixOf, ih, Bool.and_assoc]

theorem isPrefixOf_nil_right (x : Text) : x.isPrefixOf [] = x.isEmpty := by cases x <;> rfl

theorem swLightFull_spec : ∀ (os : List (Text × Nat)) (rem : Text), swLightFull rem os = (flat os).isPrefixOf rem := by
  intro os
  induction os with
  | nil => intro rem; simp [swLightFull, flat]
  | cons p rest ih =>
    intro rem
    obtain ⟨c, o⟩ := p
    have hf : flat ((c, o) :: rest) = c ++ flat rest := by simp [flat]
    rw [hf, isPrefixOf_append]
    unfold swLightFull
    by_cases h : c.isPrefixOf rem = true
    · simp [h, ih]
    · simp [h]

theorem prefix_cases (ro c rest : Text) :
    ro.isPrefixOf (c ++ rest) = (ro.isPrefixOf c || (c.isPrefixOf ro && (ro.drop c.length).isPrefixOf rest)) := by
  induction c generalizing ro with
  | nil => cases ro <;> simp [List.isPrefixOf]
  | cons a c ih =>
    cases ro with
    | nil => simp [List.isPrefixOf]
    | cons b ro =>
      simp only [List.cons_append, List.isPrefixOf, List.length_cons, List.drop_succ_cons, ih]
      by_cases hab : b = a
      · subst hab; simp
      · have h1 : (b == a) = false := by simpa using hab
        have h2 : (a == b) = false := by simpa using fun e : a = b => hab e.symm
        simp [h1, h2]

theorem swFullLight_spec : ∀ (ps : List (Text × Nat)) (ro : Text), swFullLight ps ro = ro.isPrefixOf (flat ps) := by
  intro ps
  induction ps with
  | nil => intro ro; simp [swFullLight, flat, isPrefixOf_nil_right]
  | cons p rest ih =>
    intro ro
    obtain ⟨c, o⟩ := p
    have hf : flat ((c, o) :: rest) = c ++ flat rest := by simp [flat]
    rw [hf, prefix_cases]
    unfold swFullLight
    by_cases h0 : ro.isEmpty = true
    · have : ro = [] := by simpa using h0
      subst this; simp
    · simp only [h0, Bool.false_eq_true, if_false]
      by_cases h1 : ro.isPrefixOf c = true
      · simp [h1]
      · simp only [h1, Bool.false_eq_true, if_false, Bool.false_or]
        by_cases h2 : c.isPrefixOf ro = true
        · simp [h2, ih]
        · simp [h2]

/-! ## Full × Full -/

theorem nextNonEmpty_none (os : List (Text × Nat)) (h : nextNonEmpty os = none) : flat os = [] := by
  induction os with
  | nil => rfl
  | cons p rest ih =>
    obtain ⟨c, o⟩ := p
    unfold nextNonEmpty at h
    split at h
    · rename_i hc
      have : c = [] := by simpa using hc
      subst this; simpa [flat] using ih h
    · cases h

theorem nextNonEmpty_some (os : List (Text × Nat)) (c : Text) (os' : List (Text × Nat)) (h : nextNonEmpty os = some (c, os')) :
    c ≠ [] ∧ flat os = c ++ flat os' ∧ os'.length < os.length := by
  induction os with
  | nil => cases h
  | cons p rest ih =>
    obtain ⟨d, o⟩ := p
    unfold nextNonEmpty at h
    split at h
    · rename_i hd
      have : d = [] := by simpa using hd
      subst this
      obtain ⟨a, b, e⟩ := ih h
      exact ⟨a, by simpa [flat] using b, by simp; omega⟩
    · rename_i hd
      cases h
      exact ⟨by simpa using hd, by simp [flat], by simp⟩

theorem isPrefixOf_take_drop (ro rs O S : Text) (n : Nat) (hn : n = min rs.length ro.length) :
    (ro ++ O).isPrefixOf (rs ++ S) = (rs.take n == ro.take n && (ro.drop n ++ O).isPrefixOf (rs.drop n ++ S)) := by
  subst hn
  induction ro generalizing rs with
  | nil => simp
  | cons b ro ih =>
    cases rs with
    | nil => simp
    | cons a rs =>
      have : min (a :: rs).length (b :: ro).length = min rs.length ro.length + 1 := by simp only [List.length_cons]; omega
      rw [this]
      simp only [List.cons_append, List.isPrefixOf, List.take_succ_cons, List.drop_succ_cons, ih rs]
      by_cases hab : b = a
      · subst hab; simp
      · have h1 : (b == a) = false := by simpa using hab
        have h2 : ¬ (a = b) := fun e => hab e.symm
        simp [h1, h2]

def bytesOf (ps : List (Text × Nat)) : Nat := total ps

theorem swFullFull_spec : ∀ (fuel : Nat) (rs ro : Text) (ss os : List (Text × Nat)),
    ss.length + os.length + rs.length + ro.length + total ss + total os < fuel →
    swFullFull fuel rs ro ss os = (ro ++ flat os).isPrefixOf (rs ++ flat ss) := by
  intro fuel
  induction fuel with
  | zero => intro rs ro ss os h; omega
  | succ fuel ih =>
    intro rs ro ss os hf
    unfold swFullFull
    -- refill of the argument side
    have hother : ∀ (ro' : Text) (os' : List (Text × Nat)),
        (if ro.isEmpty then nextNonEmpty os else some (ro, os)) = some (ro', os') →
        ro' ≠ [] ∧ ro ++ flat os = ro' ++ flat os' ∧ os'.length + ro'.length + total os' ≤ os.length + ro.length + total os
        ∧ (ro.isEmpty = true → os'.length + ro'.length + total os' < os.length + ro.length + total os) := by
      intro ro' os' h
      by_cases he : ro.isEmpty = true
      · simp only [he, if_true] at h
        have : ro = [] := by simpa using he
        subst this
        obtain ⟨a, b, c⟩ := nextNonEmpty_some os ro' os' h
        have : total os = ro'.length + total os' := by
          have := congrArg List.length b
          rw [flat_length, List.length_append, flat_length] at this; exact this
        refine ⟨a, by simpa using b, by simp only [List.length_nil]; omega, fun _ => by simp only [List.length_nil]; omega⟩
      · simp only [he, Bool.false_eq_true, if_false] at h
        cases h
        exact ⟨by simpa using he, rfl, Nat.le_refl _, fun h => absurd h he⟩
    cases hO : (if ro.isEmpty then nextNonEmpty os else some (ro, os)) with
    | none =>
      simp only
      by_cases he : ro.isEmpty = true
      · simp only [he, if_true] at hO
        have : ro = [] := by simpa using he
        subst this
        rw [nextNonEmpty_none os hO]; simp
      · simp [he] at hO
    | some pr =>
      obtain ⟨ro', os'⟩ := pr
      obtain ⟨o1, o2, o3, o4⟩ := hother ro' os' hO
      simp only
      rw [o2]
      split
      · rename_i hS
        by_cases he : rs.isEmpty = true
        · have hrs : rs = [] := by simpa using he
          subst hrs
          simp only [List.isEmpty_nil, if_true] at hS
          cases ss with
          | nil =>
            cases ro' with
            | nil => exact absurd rfl o1
            | cons b t => simp [flat, List.isPrefixOf]
          | cons p ss' => obtain ⟨c, o⟩ := p; cases hS
        · simp [he] at hS
      · rename_i rs' ss' hS
        have hself : rs ++ flat ss = rs' ++ flat ss' ∧ ss'.length + rs'.length + total ss' ≤ ss.length + rs.length + total ss
            ∧ (rs.isEmpty = true → ss'.length + rs'.length + total ss' < ss.length + rs.length + total ss) := by
          by_cases he : rs.isEmpty = true
          · have hrs : rs = [] := by simpa using he
            subst hrs
            simp only [List.isEmpty_nil, if_true] at hS
            cases ss with
            | nil => cases hS
            | cons p ss'' =>
              obtain ⟨c, o⟩ := p
              cases hS
              refine ⟨by simp [flat], by simp [total]; omega, fun _ => by simp [total]; omega⟩
          · simp only [he, Bool.false_eq_true, if_false] at hS
            cases hS
            exact ⟨rfl, Nat.le_refl _, fun h => absurd h he⟩
        obtain ⟨s1, s2, s3⟩ := hself
        rw [s1, isPrefixOf_take_drop ro' rs' (flat os') (flat ss') _ rfl]
        by_cases hcmp : rs'.take (min rs'.length ro'.length) = ro'.take (min rs'.length ro'.length)
        · have hne : (rs'.take (min rs'.length ro'.length) != ro'.take (min rs'.length ro'.length)) = false := by simpa using hcmp
          simp only [hne, Bool.false_eq_true, if_false]
          rw [ih _ _ _ _ ?_]
          · simp [hcmp]
          · -- the measure decreases
            simp only [List.length_drop]
            have hro : 0 < ro'.length := List.length_pos_iff.mpr o1
            by_cases he : rs.isEmpty = true
            · have := s3 he; omega
            · by_cases he2 : ro.isEmpty = true
              · have := o4 he2; omega
              · -- no refill: both remainders are non-empty, so at least one byte is consumed
                have hrs : 0 < rs.length := List.length_pos_iff.mpr (by intro e; subst e; exact he rfl)
                have e1 : rs' = rs ∧ ss' = ss := by
                  simp only [he, Bool.false_eq_true, if_false] at hS; cases hS; exact ⟨rfl, rfl⟩
                have e2 : ro' = ro ∧ os' = os := by
                  simp only [he2, Bool.false_eq_true, if_false] at hO; cases hO; exact ⟨rfl, rfl⟩
                obtain ⟨rfl, rfl⟩ := e1
                obtain ⟨rfl, rfl⟩ := e2
                omega
        · have hne : (rs'.take (min rs'.length ro'.length) != ro'.take (min rs'.length ro'.length)) = true := by simpa using hcmp
          simp only [hne, if_true]
          have : (rs'.take (min rs'.length ro'.length) == ro'.take (min rs'.length ro'.length)) = false := by
            rw [beq_eq_false_iff_ne]; exact hcmp
          rw [this, Bool.false_and]

/-- **`starts_with`** is `isPrefixOf` on the flat strings, for all four combinations of representations -/
theorem startsWith_spec (r v : Rope) : r.startsWith v = v.render.isPrefixOf r.render := by
  cases r with
  | light s =>
    cases v with
    | light o => rfl
    | full os => exact swLightFull_spec os s
  | full ps =>
    cases v with
    | light o => exact swFullLight_spec ps o
    | full os =>
      simp only [startsWith, render_full]
      rw [swFullFull_spec _ [] [] ps os (by simp only [List.length_nil, total]; omega)]
      simp

end Rope
end Rs
