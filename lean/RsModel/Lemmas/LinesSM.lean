import RsModel.Lemmas.ModeLeaves
import RsModel.Lemmas.DeclSM
import RsModel.Lemmas.ModeConcat2
import RsModel.Lemmas.ModeTree
/-!
# C08, columns = false: the line-granular splitters reproduce the map per generated line

`lookupLines segs l` = (source, original line) of the first mapped segment on generated line `l`.
-/
namespace Rs

theorem lookupLines_cons (m : Mapping) (ms : List Mapping) (L : Nat) :
    lookupLines (m :: ms) L = if m.gl = L ∧ m.orig.isSome = true then m.orig.map (fun o => (o.src, o.line)) else lookupLines ms L := by
  unfold lookupLines
  simp only [List.find?_cons]
  by_cases h : m.gl = L ∧ m.orig.isSome = true
  · simp [h]
  · rw [if_neg h]
    have : (m.gl == L && m.orig.isSome) = false := by
      by_cases h1 : m.gl = L
      · have : m.orig.isSome = false := by
          cases ho : m.orig.isSome with
          | false => rfl
          | true => exact absurd ⟨h1, ho⟩ h
        simp [this]
      · simp [h1]
    simp [this]

theorem lookupLines_nil (L : Nat) : lookupLines [] L = none := rfl

theorem lookupLines_skip (L : Nat) : ∀ (a b : List Mapping), (∀ m ∈ a, ¬ (m.gl = L ∧ m.orig.isSome = true)) → lookupLines (a ++ b) L = lookupLines b L := by
  intro a
  induction a with
  | nil => intro b _; rfl
  | cons x xs ih =>
    intro b h
    rw [List.cons_append, lookupLines_cons, if_neg (h x (by simp))]
    exact ih b (fun m hm => h m (by simp [hm]))

theorem lookupLines_none (L : Nat) (a : List Mapping) (h : ∀ m ∈ a, ¬ (m.gl = L ∧ m.orig.isSome = true)) : lookupLines a L = none := by
  have := lookupLines_skip L a [] h
  rw [List.append_nil] at this
  exact this

theorem chunkMs_wholeLines (lines : List Text) (a b : Nat) : ∀ m ∈ chunkMs (smWholeLines lines a b), m.orig = none := by
  intro m hm
  have hco := smWholeLines_origs (fun _ => False) lines a b
  -- every chunk of `smWholeLines` is unmapped
  have : ∀ (evs : List Ev), ChunkOrigs (fun _ => False) evs → ∀ m ∈ chunkMs evs, m.orig = none := by
    intro evs
    induction evs with
    | nil => intro _ m hm; simp [chunkMs] at hm
    | cons e es ih =>
      intro h m hm
      obtain ⟨t, m0, rfl, h0⟩ := h e (by simp)
      simp only [chunkMs, List.mem_cons] at hm
      rcases hm with rfl | hm
      · cases ho : m.orig with
        | none => rfl
        | some o => exact (h0 o ho).elim
      · exact ih (fun x hx => h x (by simp [hx])) m hm
  exact this _ hco m hm

/-- **`stream_chunks_of_source_map_lines_full`** attributes every line from `cur` on as the map does -/
theorem smLinesFullGo_lines (lines : List Text) : ∀ (ms : List Mapping) (cur L : Nat), linesOK (cur - 1) ms → cur ≤ L → L ≤ lines.length →
    lookupLines (chunkMs (smLinesFullGo lines cur ms).1) L = lookupLines ms L := by
  intro ms
  induction ms with
  | nil => intro cur L _ _ _; rfl
  | cons m ms ih =>
    intro cur L hl hc hL
    obtain ⟨hl1, hl2⟩ := hl
    have hrest : linesOK (cur - 1) ms := linesOK_mono hl1 ms hl2
    simp only [smLinesFullGo]
    cases ho : m.orig with
    | none =>
      simp only
      rw [lookupLines_cons, if_neg (by simp [ho])]
      exact ih cur L hrest hc hL
    | some o =>
      simp only
      by_cases hskip : (m.gl < cur || m.gl > lines.length) = true
      · rw [if_pos hskip, lookupLines_cons, if_neg (by
          intro ⟨h1, _⟩
          simp only [Bool.or_eq_true, decide_eq_true_eq] at hskip
          omega)]
        exact ih cur L hrest hc hL
      · rw [if_neg hskip]
        simp only [Bool.or_eq_true, decide_eq_true_eq, not_or, Nat.not_lt] at hskip
        have hmax : max cur m.gl = m.gl := Nat.max_eq_right hskip.1
        simp only [chunkMs_app, chunkMs, hmax]
        rw [lookupLines_skip L _ _ (fun x hx => by
          intro ⟨_, h2⟩
          rw [chunkMs_wholeLines lines cur m.gl x hx] at h2; cases h2)]
        rw [lookupLines_cons, lookupLines_cons]
        by_cases hmL : m.gl = L
        · simp [hmL, ho]
        · have h1 : ¬ (m.gl = L ∧ (some ({ o with name := none } : Orig)).isSome = true) := fun h => hmL h.1
          have h2 : ¬ (m.gl = L ∧ m.orig.isSome = true) := fun h => hmL h.1
          rw [if_neg h1, if_neg h2]
          by_cases hlt : L < m.gl
          · -- nothing on line L in what follows
            have hge := linesOK_ge ms m.gl hl2
            rw [lookupLines_none L ms (fun x hx => by intro ⟨h, _⟩; have := hge x hx; omega)]
            -- and the rest of the stream is beyond line m.gl
            have : ∀ (ms' : List Mapping) (c : Nat), L < c → ∀ x ∈ chunkMs (smLinesFullGo lines c ms').1, ¬ (x.gl = L ∧ x.orig.isSome = true) := by
              intro ms'
              induction ms' with
              | nil => intro c _ x hx; simp [smLinesFullGo, chunkMs] at hx
              | cons y ys ihy =>
                intro c hcL x hx
                simp only [smLinesFullGo] at hx
                split at hx
                · exact ihy c hcL x hx
                · split at hx
                  · exact ihy c hcL x hx
                  · rename_i hns
                    simp only [Bool.or_eq_true, decide_eq_true_eq, not_or, Nat.not_lt] at hns
                    simp only [chunkMs_app, chunkMs, List.mem_append, List.mem_cons] at hx
                    rcases hx with hx | rfl | hx
                    · intro ⟨_, h2⟩; rw [chunkMs_wholeLines _ _ _ x hx] at h2; cases h2
                    · intro ⟨h, _⟩; simp only at h; omega
                    · exact ihy _ (by have := Nat.le_max_left c y.gl; omega) x hx
            exact lookupLines_none L _ (this ms (m.gl + 1) (by omega))
          · exact ih (m.gl + 1) L (by simpa using hl2) (by omega) hL

/-- **`stream_chunks_of_source_map_lines_final`** likewise, up to the last line with text -/
theorem smLinesFinalGo_lines (fl : Nat) : ∀ (ms : List Mapping) (cur L : Nat), linesOK (cur - 1) ms → cur ≤ L → L ≤ fl →
    lookupLines (chunkMs (smLinesFinalGo fl cur ms)) L = lookupLines ms L := by
  intro ms
  induction ms with
  | nil => intro cur L _ _ _; rfl
  | cons m ms ih =>
    intro cur L hl hc hL
    obtain ⟨hl1, hl2⟩ := hl
    have hrest : linesOK (cur - 1) ms := linesOK_mono hl1 ms hl2
    simp only [smLinesFinalGo]
    cases ho : m.orig with
    | none =>
      simp only
      rw [lookupLines_cons, if_neg (by simp [ho])]
      exact ih cur L hrest hc hL
    | some o =>
      simp only
      by_cases hemit : (decide (cur ≤ m.gl) && decide (m.gl ≤ fl)) = true
      · rw [if_pos hemit]
        simp only [Bool.and_eq_true, decide_eq_true_eq] at hemit
        simp only [chunkMs]
        rw [lookupLines_cons, lookupLines_cons]
        by_cases hmL : m.gl = L
        · simp [hmL, ho]
        · have h1 : ¬ (m.gl = L ∧ (some ({ o with name := none } : Orig)).isSome = true) := fun h => hmL h.1
          have h2 : ¬ (m.gl = L ∧ m.orig.isSome = true) := fun h => hmL h.1
          rw [if_neg h1, if_neg h2]
          by_cases hlt : L < m.gl
          · have hge := linesOK_ge ms m.gl hl2
            rw [lookupLines_none L ms (fun x hx => by intro ⟨h, _⟩; have := hge x hx; omega)]
            have : ∀ (ms' : List Mapping) (c : Nat), L < c → ∀ x ∈ chunkMs (smLinesFinalGo fl c ms'), ¬ (x.gl = L ∧ x.orig.isSome = true) := by
              intro ms'
              induction ms' with
              | nil => intro c _ x hx; simp [smLinesFinalGo, chunkMs] at hx
              | cons y ys ihy =>
                intro c hcL x hx
                simp only [smLinesFinalGo] at hx
                split at hx
                · split at hx
                  · rename_i hns
                    simp only [Bool.and_eq_true, decide_eq_true_eq] at hns
                    simp only [chunkMs, List.mem_cons] at hx
                    rcases hx with rfl | hx
                    · intro ⟨h, _⟩; simp only at h; omega
                    · exact ihy _ (by omega) x hx
                  · exact ihy c hcL x hx
                · exact ihy c hcL x hx
            exact lookupLines_none L _ (this ms (m.gl + 1) (by omega))
          · exact ih (m.gl + 1) L (by simpa using hl2) (by omega) hL
      · rw [if_neg hemit, lookupLines_cons, if_neg (by
          intro ⟨h1, _⟩
          simp only [Bool.and_eq_true, decide_eq_true_eq, not_and, Nat.not_le] at hemit
          by_cases hcm : cur ≤ m.gl
          · have := hemit hcm; omega
          · omega)]
        exact ih cur L hrest hc hL

theorem lookupLines_append_none (L : Nat) : ∀ (a b : List Mapping), (∀ m ∈ b, ¬ (m.gl = L ∧ m.orig.isSome = true)) → lookupLines (a ++ b) L = lookupLines a L := by
  intro a
  induction a with
  | nil => intro b h; rw [List.nil_append, lookupLines_none L b h]; rfl
  | cons x xs ih =>
    intro b h
    rw [List.cons_append, lookupLines_cons, lookupLines_cons, ih b h]

/-- the last line that carries text -/
theorem finalLine_eq (t : Text) (ht : t ≠ []) :
    (if (genInfo t).col == 0 then (genInfo t).line - 1 else (genInfo t).line) = (splitLines t).length := by
  rw [genInfo_eq]
  unfold lineLoopInfo
  cases hl : (splitLines t).getLast? with
  | none =>
    exfalso
    have : splitLines t = [] := List.getLast?_eq_none_iff.1 hl
    have hj := splitLines_join t
    rw [this] at hj
    exact ht (by simpa using hj.symm)
  | some last =>
    simp only
    split
    · simp
    · have hne := lines_last_ne _ (lines_of_splitLines t) last hl
      have : last.length ≠ 0 := fun h => hne (List.eq_nil_of_length_eq_zero h)
      simp [this]

/-- **C08, columns = false, normal mode**: for every generated line that carries text, the first mapped chunk the splitter
delivers on that line points to the source and original line of the first mapped segment of `M` on that line (and there is
none if `M` has none); names are dropped -/
theorem streamSMLinesFull_lines (t : Text) (sm : SMap) (hs : sortedFrom 1 0 (decode sm.mappings)) (L : Nat) (h1 : 1 ≤ L) (hL : L ≤ (splitLines t).length) :
    lookupLines (chunkMs (streamSMLinesFull t sm).evs) L = lookupLines (decode sm.mappings) L := by
  unfold streamSMLinesFull
  dsimp only
  split
  · rename_i he
    have : (splitLines t).length = 0 := by simpa using he
    omega
  · simp only [chunkMs_app, chunkMs_smSourceEvs, List.nil_append]
    rw [lookupLines_append_none L _ _ (fun x hx => by
      intro ⟨_, h2⟩
      rw [chunkMs_wholeLines _ _ _ x hx] at h2; cases h2)]
    exact smLinesFullGo_lines (splitLines t) _ 1 L (linesOK_mono (Nat.zero_le _) _ (linesOK_of_sorted' _ _ _ hs)) h1 hL

/-- **C08, columns = false, text-less mode** -/
theorem streamSMLinesFinal_lines (t : Text) (sm : SMap) (hs : sortedFrom 1 0 (decode sm.mappings)) (L : Nat) (h1 : 1 ≤ L) (hL : L ≤ (splitLines t).length) :
    lookupLines (chunkMs (streamSMLinesFinal t sm).evs) L = lookupLines (decode sm.mappings) L := by
  have hne : t ≠ [] := by
    intro h; subst h
    simp [splitLines, splitLinesAux] at hL
    omega
  unfold streamSMLinesFinal
  dsimp only
  split
  · rename_i h0
    exfalso
    simp only [Bool.and_eq_true, beq_iff_eq] at h0
    apply hne
    apply (adv_eq_start t).1
    rw [← genInfo_adv]
    cases hg : genInfo t with
    | mk l c => rw [hg] at h0; simp only at h0; rw [h0.1, h0.2]
  · simp only [chunkMs_app, chunkMs_smSourceEvs, List.nil_append]
    exact smLinesFinalGo_lines _ _ 1 L (linesOK_mono (Nat.zero_le _) _ (linesOK_of_sorted' _ _ _ hs)) h1 (by rw [finalLine_eq t hne]; exact hL)

/-- no chunk of the line-granular splitters carries a name -/
theorem smLines_noNames (t : Text) (sm : SMap) (final : Bool) :
    ∀ m ∈ chunkMs (streamSM t sm ⟨false, final⟩).evs, ∀ o, m.orig = some o → o.name = none := by
  intro m hm o ho
  have key : ∀ (evs : List Ev), ChunkOrigs (fun o => o.name = none) evs → ∀ m ∈ chunkMs evs, ∀ o, m.orig = some o → o.name = none := by
    intro evs
    induction evs with
    | nil => intro _ m hm; simp [chunkMs] at hm
    | cons e es ih =>
      intro h m hm o ho
      obtain ⟨tt, m0, rfl, h0⟩ := h e (by simp)
      simp only [chunkMs, List.mem_cons] at hm
      rcases hm with rfl | hm
      · exact h0 o ho
      · exact ih (fun x hx => h x (by simp [hx])) m hm o ho
  have hfull : ∀ (lines : List Text) (ms : List Mapping) (cur : Nat), ChunkOrigs (fun o => o.name = none) (smLinesFullGo lines cur ms).1 := by
    intro lines ms
    induction ms with
    | nil => intro cur; exact chunkOrigs_nil _
    | cons y ys ihy =>
      intro cur
      simp only [smLinesFullGo]
      split
      · exact ihy cur
      · split
        · exact ihy cur
        · dsimp only
          apply chunkOrigs_append _ _ _ (smWholeLines_origs _ _ _ _)
          exact chunkOrigs_cons _ _ _ _ (fun o' ho' => by simp only [Option.some.injEq] at ho'; subst ho'; rfl) (ihy _)
  have hfin : ∀ (fl : Nat) (ms : List Mapping) (cur : Nat), ChunkOrigs (fun o => o.name = none) (smLinesFinalGo fl cur ms) := by
    intro fl ms
    induction ms with
    | nil => intro cur; exact chunkOrigs_nil _
    | cons y ys ihy =>
      intro cur
      simp only [smLinesFinalGo]
      split
      · split
        · exact chunkOrigs_cons _ _ _ _ (fun o' ho' => by simp only [Option.some.injEq] at ho'; subst ho'; rfl) (ihy _)
        · exact ihy _
      · exact ihy _
  cases final
  · simp only [streamSM] at hm
    unfold streamSMLinesFull at hm
    dsimp only at hm
    split at hm
    · simp [chunkMs] at hm
    · simp only [chunkMs_app, chunkMs_smSourceEvs, List.nil_append, List.mem_append] at hm
      rcases hm with hm | hm
      · exact key _ (hfull _ _ _) m hm o ho
      · rw [chunkMs_wholeLines _ _ _ m hm] at ho; cases ho
  · simp only [streamSM] at hm
    unfold streamSMLinesFinal at hm
    dsimp only at hm
    split at hm
    · simp [chunkMs] at hm
    · simp only [chunkMs_app, chunkMs_smSourceEvs, List.nil_append] at hm
      exact key _ (hfin _ _ _) m hm o ho

end Rs
