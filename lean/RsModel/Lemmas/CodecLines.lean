import RsModel.Lemmas.Codec
import RsModel.Spec.Attr
/-! # The lines-only encoder (`columns: false`) round-trips through the decoder -/
namespace Rs

/-- the segments `LinesOnlyMappingsEncoder` writes: per generated line the first mapped segment, at column 0, original column 0, no name -/
def keptLines : LEncSt → List Mapping → List Mapping
  | _, [] => []
  | s, m :: ms =>
    match m.orig with
    | none => keptLines s ms
    | some o =>
      if s.lastWritten == m.gl then keptLines s ms
      else ⟨m.gl, 0, some ⟨o.src, o.line, 0, none⟩⟩ :: keptLines (lencStep s m).1 ms

theorem lits : Generated.linesLitNext = [CH_A, CH_A, b64At 2, CH_A] ∧ Generated.linesLitSame = [CH_A, CH_A] ∧ Generated.linesLitCol = [CH_A] := by
  decide +kernel

theorem dec_small_digit (s : DecSt) (d : Nat) (hd : d < 32) (h0 : s.value = 0) (h1 : s.valuePos = 0) :
    decBytes s [b64At d] = (s.setField d, []) := by
  simp only [decBytes, decByte_digit s d (by omega), hd, if_true, List.append_nil, h0, h1]
  simp

theorem dec_A (s : DecSt) (h0 : s.value = 0) (h1 : s.valuePos = 0) : decBytes s [CH_A] = (s.setField 0, []) := by
  rw [← b64At_zero]; exact dec_small_digit s 0 (by omega) h0 h1

theorem dec_A_lit (d0 d1 d2 d3 d4 dp g : Nat) :
    decBytes ⟨d0, d1, d2, d3, d4, dp, 0, 0, g⟩ [CH_A] = (DecSt.setField ⟨d0, d1, d2, d3, d4, dp, 0, 0, g⟩ 0, []) := dec_A _ rfl rfl

theorem dec_two_lit (d0 d1 d2 d3 d4 dp g : Nat) :
    decBytes ⟨d0, d1, d2, d3, d4, dp, 0, 0, g⟩ [b64At 2] = (DecSt.setField ⟨d0, d1, d2, d3, d4, dp, 0, 0, g⟩ 2, []) :=
  dec_small_digit _ 2 (by omega) rfl rfl

theorem addField_zero (c : Nat) (h : c < 2 ^ 32) : addField c 0 = c := by
  unfold addField finalValue; simp; omega

theorem addField_two (c : Nat) (h : c + 1 < 2 ^ 32) : addField c 2 = c + 1 := by
  unfold addField finalValue; simp; omega

structure LnRel (e : LEncSt) (d : DecSt) : Prop where
  v0 : d.value = 0
  p0 : d.valuePos = 0
  line : d.genLine = e.curLine
  c0 : d.d0 = 0
  c1 : d.d1 = e.curSrc
  c2 : d.d2 = e.curOL
  c3 : d.d3 = 0
  dp : d.dataPos = 0 ∨ d.dataPos = 4
  fresh : e.lastWritten = 0 → d.dataPos = 0
  written : e.lastWritten ≠ 0 → e.lastWritten = e.curLine

def LEncSt.small (e : LEncSt) : Prop := e.curSrc < U31 ∧ e.curOL < U31

/-- flushing with at least one `;` (or none at the very beginning) -/
theorem dec_lsemis (e : LEncSt) (d : DecSt) (gl : Nat) (hr : LnRel e d) (hl : e.curLine ≤ gl) (hne : e.lastWritten ≠ gl) (hpos : 0 < gl) :
    ∃ d1, decBytes d (List.replicate (gl - e.curLine) SEMI) = (d1, d.pending) ∧ d1.dataPos = 0 ∧ d1.value = 0 ∧ d1.valuePos = 0
      ∧ d1.genLine = gl ∧ d1.d0 = 0 ∧ d1.d1 = e.curSrc ∧ d1.d2 = e.curOL ∧ d1.d3 = 0 ∧ d1.d4 = d.d4 := by
  by_cases hlt : e.curLine < gl
  · obtain ⟨k, hk⟩ : ∃ k, gl - e.curLine = k + 1 := ⟨gl - e.curLine - 1, by omega⟩
    rw [hk, List.replicate_succ]
    simp only [decBytes, decByte_semi]
    rw [dec_semis k _ rfl rfl]
    refine ⟨{ d with dataPos := 0, genLine := d.genLine + 1 + k, d0 := 0 }, by simp, rfl, hr.v0, hr.p0, ?_, rfl, hr.c1, hr.c2, hr.c3, rfl⟩
    simp [hr.line]; omega
  · have hle : gl = e.curLine := by omega
    have hfresh : e.lastWritten = 0 := by
      rcases Nat.eq_zero_or_pos e.lastWritten with h | h
      · exact h
      · exact absurd (by rw [hr.written (by omega), hle]) hne
    have hp := hr.fresh hfresh
    have hpend : d.pending = [] := by simp [DecSt.pending, hp]
    have : gl - e.curLine = 0 := by omega
    rw [this]
    exact ⟨d, by simp [decBytes, hpend], hp, hr.v0, hr.p0, by rw [hr.line, hle], hr.c0, hr.c1, hr.c2, hr.c3, rfl⟩

theorem dec_lbody (e : LEncSt) (d1 : DecSt) (gl : Nat) (o : Orig) (hes : e.small) (hos : o.src < U31 ∧ o.line < U31)
    (hp : d1.dataPos = 0) (hv : d1.value = 0) (hvp : d1.valuePos = 0) (h0 : d1.d0 = 0)
    (h1 : d1.d1 = e.curSrc) (h2 : d1.d2 = e.curOL) (h3 : d1.d3 = 0) (hl : d1.genLine = gl) (hgl : gl ≠ 0) :
    let body := if o.src == e.curSrc then
          if o.line == e.curOL + 1 then Generated.linesLitNext
          else Generated.linesLitSame ++ vlqChars o.line e.curOL ++ Generated.linesLitCol
        else Generated.linesLitCol ++ vlqChars o.src e.curSrc ++ vlqChars o.line e.curOL ++ Generated.linesLitCol
    (decBytes d1 body).2 = [] ∧ (decBytes d1 body).1.pending = [⟨gl, 0, some ⟨o.src, o.line, 0, none⟩⟩]
      ∧ LnRel { lastWritten := gl, curLine := gl, curSrc := o.src, curOL := o.line } (decBytes d1 body).1 := by
  obtain ⟨a0, a1, a2, a3, a4, dp, v, vp, g⟩ := d1
  obtain ⟨e1, e2⟩ := hes
  obtain ⟨s1, s2⟩ := hos
  simp only at hp hv hvp h0 h1 h2 h3 hl
  subst hp hv hvp h0 h1 h2 h3 hl
  obtain ⟨l1, l2, l3⟩ := lits
  have f1 := addField_vlq o.src _ s1 e1
  have f2 := addField_vlq o.line _ s2 e2
  have z0 : addField 0 0 = 0 := by decide
  simp only [U31] at e1 e2 s1 s2
  intro body
  by_cases hsrc : o.src = e.curSrc
  · by_cases hline : o.line = e.curOL + 1
    · have hb : body = [CH_A] ++ ([CH_A] ++ ([b64At 2] ++ [CH_A])) := by
        simp only [body, hsrc, hline, beq_self_eq_true, if_true, l1]; rfl
      rw [hb]
      simp only [decBytes_append, dec_A_lit, dec_two_lit, DecSt.setField]
      have za : addField e.curSrc 0 = e.curSrc := addField_zero _ (by omega)
      have zb : addField e.curOL 2 = e.curOL + 1 := addField_two _ (by omega)
      refine ⟨by simp, by simp [DecSt.pending, z0, za, zb, hsrc, hline], ?_⟩
      constructor <;> simp [z0, za, zb, hsrc, hline, hgl]
    · have hb : body = [CH_A] ++ ([CH_A] ++ (vlqChars o.line e.curOL ++ [CH_A])) := by
        have : (o.line == e.curOL + 1) = false := by simpa using hline
        simp only [body, hsrc, beq_self_eq_true, if_true, this, Bool.false_eq_true, if_false, l2, l3]; rfl
      rw [hb]
      simp only [decBytes_append, dec_A_lit, dec_field_lit, DecSt.setField]
      have za : addField e.curSrc 0 = e.curSrc := addField_zero _ (by omega)
      refine ⟨by simp, by simp [DecSt.pending, z0, za, f2, hsrc], ?_⟩
      constructor <;> simp [z0, za, f2, hsrc, hgl]
  · have hb : body = [CH_A] ++ (vlqChars o.src e.curSrc ++ (vlqChars o.line e.curOL ++ [CH_A])) := by
      have : (o.src == e.curSrc) = false := by simpa using hsrc
      simp only [body, this, Bool.false_eq_true, if_false, l3, List.append_assoc]
    rw [hb]
    simp only [decBytes_append, dec_A_lit, dec_field_lit, DecSt.setField]
    refine ⟨by simp, by simp [DecSt.pending, z0, f1, f2], ?_⟩
    constructor <;> simp [z0, f1, f2, hgl]

theorem decode_lencode_from : ∀ (ms : List Mapping) (e : LEncSt) (d : DecSt), LnRel e d → e.small →
    (∀ m ∈ ms, ∀ o, m.orig = some o → o.src < U31 ∧ o.line < U31) → linesOK e.curLine ms → (∀ m ∈ ms, 0 < m.gl) →
    (decBytes d (lencodeFrom e ms)).2 ++ (decBytes d (lencodeFrom e ms)).1.pending = d.pending ++ keptLines e ms := by
  intro ms
  induction ms with
  | nil => intro e d _ _ _ _ _; simp [lencodeFrom, keptLines, decBytes]
  | cons m ms ih =>
    intro e d hr hes hsm hl hpos
    obtain ⟨hle, hrest⟩ := hl
    have hms : ∀ x ∈ ms, ∀ o, x.orig = some o → o.src < U31 ∧ o.line < U31 := fun x hx => hsm x (by simp [hx])
    have hposs : ∀ x ∈ ms, 0 < x.gl := fun x hx => hpos x (by simp [hx])
    simp only [lencodeFrom, keptLines, lencStep]
    cases ho : m.orig with
    | none =>
      simp only [List.nil_append]
      exact ih e d hr hes hms (linesOK_mono hle ms hrest) hposs
    | some o =>
      by_cases hw : e.lastWritten = m.gl
      · simp only [hw, beq_self_eq_true, if_true, List.nil_append]
        have := ih e d hr hes hms (linesOK_mono hle ms hrest) hposs
        simpa [hw] using this
      · have hwb : (e.lastWritten == m.gl) = false := by simpa using hw
        simp only [hwb, Bool.false_eq_true, if_false]
        have hgl : 0 < m.gl := hpos m (by simp)
        obtain ⟨d1, hsep, hp, hv, hvp, hg, h0, h1, h2, h3, _⟩ := dec_lsemis e d m.gl hr hle hw hgl
        obtain ⟨f1, f2, f3⟩ := dec_lbody e d1 m.gl o hes (hsm m (by simp) o ho) hp hv hvp h0 h1 h2 h3 hg (by omega)
        have hsmall : LEncSt.small { lastWritten := m.gl, curLine := m.gl, curSrc := o.src, curOL := o.line } := hsm m (by simp) o ho
        have hnext := ih _ _ f3 hsmall hms hrest hposs
        rw [decBytes_append d (_ ++ _), decBytes_append d (List.replicate _ _), hsep]
        dsimp only
        rw [f1, List.append_nil, List.append_assoc, hnext, f2]
        simp

/-- **decoding what the lines-only encoder wrote yields, per generated line, the first mapped segment (column 0, original column 0, no name)** -/
theorem decode_lencode (ms : List Mapping) (hs : ∀ m ∈ ms, ∀ o, m.orig = some o → o.src < U31 ∧ o.line < U31)
    (h : linesOK 1 ms) : decode (encodeLines ms) = keptLines {} ms := by
  have hpos : ∀ (ms : List Mapping) (l : Nat), 0 < l → linesOK l ms → ∀ m ∈ ms, 0 < m.gl := by
    intro ms
    induction ms with
    | nil => intro l _ _ m hm; simp at hm
    | cons x xs ih =>
      intro l hl ⟨h1, h2⟩ m hm
      simp only [List.mem_cons] at hm
      rcases hm with rfl | hm
      · omega
      · exact ih x.gl (by omega) h2 m hm
  have hrel : LnRel {} {} := ⟨rfl, rfl, rfl, rfl, rfl, rfl, rfl, Or.inl rfl, fun _ => rfl, fun h => absurd rfl h⟩
  have := decode_lencode_from ms {} {} hrel (by simp [LEncSt.small, U31]) hs h (hpos ms 1 (by omega) h)
  simpa [decode, encodeLines, decInit_eq, DecSt.pending] using this

end Rs

namespace Rs

/-- the kept segments attribute every generated line (file and line) as the input does -/
theorem keptLines_lookup (l : Nat) : ∀ (ms : List Mapping) (e : LEncSt), l ≠ e.lastWritten →
    lookupLines (keptLines e ms) l = lookupLines ms l := by
  intro ms
  induction ms with
  | nil => intro e _; rfl
  | cons m ms ih =>
    intro e hne
    simp only [keptLines]
    cases ho : m.orig with
    | none =>
      simp only
      have : lookupLines (m :: ms) l = lookupLines ms l := by
        simp [lookupLines, List.find?_cons, ho]
      rw [this]; exact ih e hne
    | some o =>
      simp only
      by_cases hw : e.lastWritten = m.gl
      · simp only [hw, beq_self_eq_true, if_true]
        have hml : ¬ m.gl = l := fun h => hne (by rw [hw, h])
        have : lookupLines (m :: ms) l = lookupLines ms l := by
          simp [lookupLines, List.find?_cons, hml]
        rw [this]; exact ih e hne
      · have hwb : (e.lastWritten == m.gl) = false := by simpa using hw
        simp only [hwb, Bool.false_eq_true, if_false]
        by_cases hml : m.gl = l
        · simp [lookupLines, List.find?_cons, hml, ho]
        · have h1 : lookupLines (m :: ms) l = lookupLines ms l := by
            simp [lookupLines, List.find?_cons, hml]
          have h2 : lookupLines (⟨m.gl, 0, some ⟨o.src, o.line, 0, none⟩⟩ :: keptLines (lencStep e m).1 ms) l
              = lookupLines (keptLines (lencStep e m).1 ms) l := by
            simp [lookupLines, List.find?_cons, hml]
          rw [h1, h2]
          apply ih
          simp only [lencStep, ho, hwb, Bool.false_eq_true, if_false]
          exact fun h => hml h.symm

/-- what the lines-only encoder keeps: one segment per line, at column 0, on strictly increasing lines -/
theorem keptLines_facts : ∀ (ms : List Mapping) (e : LEncSt), linesOK e.lastWritten ms →
    (∀ x ∈ keptLines e ms, x.gc = 0 ∧ e.lastWritten < x.gl ∧ ∃ m ∈ ms, m.orig.isSome = true ∧ x.gl = m.gl)
    ∧ (keptLines e ms).Pairwise (fun a b => a.gl < b.gl) := by
  intro ms
  induction ms with
  | nil => intro e _; exact ⟨fun x hx => by simp [keptLines] at hx, by simp [keptLines]⟩
  | cons m ms ih =>
    intro e hl
    obtain ⟨h1, h2⟩ := hl
    have hrest : linesOK e.lastWritten ms := linesOK_mono h1 ms h2
    simp only [keptLines]
    cases ho : m.orig with
    | none =>
      simp only []
      obtain ⟨a, b⟩ := ih e hrest
      exact ⟨fun x hx => by obtain ⟨x1, x2, m', hm', x3⟩ := a x hx; exact ⟨x1, x2, m', List.mem_cons_of_mem _ hm', x3⟩, b⟩
    | some o =>
      simp only []
      by_cases heq : (e.lastWritten == m.gl) = true
      · simp only [heq, if_true]
        obtain ⟨a, b⟩ := ih e hrest
        exact ⟨fun x hx => by obtain ⟨x1, x2, m', hm', x3⟩ := a x hx; exact ⟨x1, x2, m', List.mem_cons_of_mem _ hm', x3⟩, b⟩
      · simp only [heq, Bool.false_eq_true, if_false]
        have hne : e.lastWritten ≠ m.gl := by simpa using heq
        have hlw : (lencStep e m).1.lastWritten = m.gl := by simp [lencStep, ho, heq]
        obtain ⟨a, b⟩ := ih (lencStep e m).1 (by rw [hlw]; exact h2)
        constructor
        · intro x hx
          rcases List.mem_cons.1 hx with rfl | hx
          · exact ⟨rfl, by simp only; omega, m, by simp, by rw [ho]; rfl, rfl⟩
          · obtain ⟨x1, x2, m', hm', x3⟩ := a x hx
            rw [hlw] at x2
            exact ⟨x1, by omega, m', List.mem_cons_of_mem _ hm', x3⟩
        · refine List.Pairwise.cons (fun x hx => ?_) b
          obtain ⟨_, x2, _⟩ := a x hx
          rw [hlw] at x2
          exact x2

end Rs
