import RsModel.Lemmas.CombInner
import RsModel.Lemmas.DeclSM
import RsModel.Lemmas.ReplaceKeeps
/-!
# C09/C11: the translation tables of the combinator

`stream_chunks_of_combined_source_map` keeps nine tables: two name-keyed de-duplication maps (`source_mapping`, `name_mapping`),
four local-index → global-index tables with the sentinel `-2` ("not announced yet") and their value tables.  `KInv` says what
they mean: the de-duplication maps list the announced files / names in announcement order, and every resolved entry of an index
table points to the announcement that carries the right name.  The invariant is kept by every callback, which gives the stream
clause of C11 for the combinator (dense, announced before use) and the name-level reading of C09 (pass-through and fall-back
chunks name the outer file, composed chunks name the inner map's file).
-/
namespace Rs

/-! ### name-keyed tables -/

theorem assoc_get_zipIdx (ks : List Text) (k : Text) (g : Nat) (h : Assoc.get? ks.zipIdx k = some g) : ks[g]? = some k := by
  unfold Assoc.get? at h
  obtain ⟨e, he, hg⟩ := Option.map_eq_some_iff.1 h
  have hp := List.find?_some he
  have hm := List.mem_of_find?_eq_some he
  obtain ⟨kk, i⟩ := e
  simp only at hg hp
  subst hg
  have hk : kk = k := by simpa using hp
  subst hk
  obtain ⟨_, h2, h3⟩ := List.mem_zipIdx hm
  simp only [Nat.zero_add, Nat.sub_zero] at h2 h3
  rw [List.getElem?_eq_getElem h2, h3]

theorem assoc_get_none (ks : List Text) (k : Text) (h : Assoc.get? ks.zipIdx k = none) : k ∉ ks := by
  unfold Assoc.get? at h
  simp only [Option.map_eq_none_iff] at h
  intro hk
  obtain ⟨i, hi, rfl⟩ := List.getElem_of_mem hk
  have := List.find?_eq_none.1 h (ks[i], i) (by
    rw [List.mem_iff_getElem?]
    exact ⟨i, by rw [List.getElem?_zipIdx, List.getElem?_eq_getElem hi]; simp⟩)
  simp at this

theorem assoc_insert_new (ks : List Text) (k : Text) (h : Assoc.get? ks.zipIdx k = none) :
    Assoc.insert ks.zipIdx k ks.length = (ks ++ [k]).zipIdx := by
  have hk := assoc_get_none ks k h
  unfold Assoc.insert
  have : (ks.zipIdx.any (·.1 == k)) = false := by
    rw [Bool.eq_false_iff]
    intro ha
    obtain ⟨e, he, hp⟩ := List.any_eq_true.1 ha
    obtain ⟨kk, i⟩ := e
    have hkk : kk = k := by simpa using hp
    subst hkk
    obtain ⟨_, h2, h3⟩ := List.mem_zipIdx he
    simp only [Nat.zero_add, Nat.sub_zero] at h2 h3
    exact hk (h3 ▸ List.getElem_mem h2)
  rw [this]
  simp [List.zipIdx_append]

/-! ### index tables -/

theorem lmInsert_length {α} (d : α) (m : List α) (k : Nat) (v : α) : (lmInsert d m k v).length = max m.length (k + 1) := by
  unfold lmInsert
  split
  · simp only [List.length_set]; omega
  · simp only [List.length_append, List.length_replicate, List.length_singleton]; omega

theorem lmInsert_get {α} (d : α) (m : List α) (k : Nat) (v : α) (hk : k ≤ m.length) (j : Nat) :
    (lmInsert d m k v)[j]? = if j = k then some v else m[j]? := by
  unfold lmInsert
  split
  · rename_i hlt
    rw [List.getElem?_set]
    by_cases hj : j = k
    · subst hj; simp [hlt]
    · have : ¬ k = j := fun h => hj h.symm
      simp [hj, this]
  · have hkl : k = m.length := by omega
    subst hkl
    simp only [Nat.sub_self, List.replicate_zero, List.append_nil]
    by_cases hj : j = m.length
    · subst hj; simp
    · simp only [hj, if_false]
      by_cases hlt : j < m.length
      · rw [List.getElem?_append_left hlt]
      · rw [List.getElem?_eq_none (by simp only [List.length_append, List.length_singleton]; omega), List.getElem?_eq_none (by omega)]

/-- `tbl` translates local indices (whose names are `loc`) into indices of the announced list `glob`:
unresolved (`-2`), none (`-1`), or the index of an announcement that carries the same name -/
def TblSem (tbl : List Int) (loc glob : List Text) : Prop :=
  tbl.length = loc.length ∧ ∀ (i : Nat) (v : Int), tbl[i]? = some v → v = -2 ∨ v = -1 ∨ (0 ≤ v ∧ glob[v.toNat]? = loc[i]?)

theorem tblSem_nil (glob : List Text) : TblSem [] [] glob := ⟨rfl, fun i v h => by simp at h⟩

theorem tblSem_mono (tbl : List Int) (loc glob x : List Text) (h : TblSem tbl loc glob) : TblSem tbl loc (glob ++ x) := by
  refine ⟨h.1, fun i v hv => ?_⟩
  rcases h.2 i v hv with h1 | h1 | ⟨h1, h2⟩
  · exact Or.inl h1
  · exact Or.inr (Or.inl h1)
  · refine Or.inr (Or.inr ⟨h1, ?_⟩)
    have hi : i < loc.length := by
      have := (List.getElem?_eq_some_iff.1 hv).1
      rw [h.1] at this; exact this
    rw [List.getElem?_eq_getElem hi] at h2 ⊢
    have hlt := (List.getElem?_eq_some_iff.1 h2).1
    rw [List.getElem?_append_left hlt]; exact h2

theorem tblSem_get (tbl : List Int) (loc glob : List Text) (h : TblSem tbl loc glob) (i : Nat) (v : Int) (hv : tbl[i]? = some v) (h0 : 0 ≤ v) :
    v.toNat < glob.length ∧ glob[v.toNat]? = loc[i]? ∧ i < loc.length := by
  have hi : i < loc.length := by
    have := (List.getElem?_eq_some_iff.1 hv).1
    rw [h.1] at this; exact this
  rcases h.2 i v hv with h1 | h1 | ⟨_, h2⟩
  · omega
  · omega
  · refine ⟨?_, h2, hi⟩
    rw [List.getElem?_eq_getElem hi] at h2
    exact (List.getElem?_eq_some_iff.1 h2).1

/-- announcing local index `k` (the next one, or one announced before): entry `v`, value `name` -/
theorem tblSem_insert (tbl : List Int) (loc glob : List Text) (h : TblSem tbl loc glob) (k : Nat) (hk : k ≤ tbl.length) (v : Int) (name d : Text)
    (hv : v = -2 ∨ v = -1 ∨ (0 ≤ v ∧ glob[v.toNat]? = some name)) : TblSem (lmInsert 0 tbl k v) (lmInsert d loc k name) glob := by
  refine ⟨by rw [lmInsert_length, lmInsert_length, h.1], fun i w hw => ?_⟩
  rw [lmInsert_get _ _ _ _ hk] at hw
  rw [lmInsert_get _ _ _ _ (by rw [← h.1]; exact hk)]
  split at hw
  · rename_i hik
    simp only [Option.some.injEq] at hw; subst hw
    simp only [hik, if_true]
    exact hv
  · rename_i hik
    simp only [hik, if_false]
    exact h.2 i w hw

/-- resolving local index `k` to `v` -/
theorem tblSem_set (tbl : List Int) (loc glob : List Text) (h : TblSem tbl loc glob) (k : Nat) (hk : k < tbl.length) (v : Int)
    (hv : v = -2 ∨ v = -1 ∨ (0 ≤ v ∧ glob[v.toNat]? = loc[k]?)) : TblSem (lmInsert 0 tbl k v) loc glob := by
  refine ⟨by rw [lmInsert_length, h.1]; rw [h.1] at hk; omega, fun i w hw => ?_⟩
  rw [lmInsert_get _ _ _ _ (Nat.le_of_lt hk)] at hw
  split at hw
  · rename_i hik
    simp only [Option.some.injEq] at hw; subst hw; subst hik
    exact hv
  · exact h.2 i w hw

theorem lmInsert_map {α β} (f : α → β) (d : α) (m : List α) (k : Nat) (v : α) : (lmInsert d m k v).map f = lmInsert (f d) (m.map f) k (f v) := by
  unfold lmInsert
  simp only [List.length_map]
  split
  · exact List.map_set
  · simp

/-! ### announcements -/

def annS : List Ev → List Text
  | [] => []
  | .source _ s _ :: es => s :: annS es
  | _ :: es => annS es

def annN : List Ev → List Text
  | [] => []
  | .name _ n :: es => n :: annN es
  | _ :: es => annN es

theorem annS_append (a b : List Ev) : annS (a ++ b) = annS a ++ annS b := by
  induction a with
  | nil => rfl
  | cons e es ih => cases e <;> simp [annS, ih]

theorem annN_append (a b : List Ev) : annN (a ++ b) = annN a ++ annN b := by
  induction a with
  | nil => rfl
  | cons e es ih => cases e <;> simp [annN, ih]

theorem annS_length (a : List Ev) : (annS a).length = cntS a := by
  induction a with
  | nil => rfl
  | cons e es ih => cases e <;> simp [annS, cntS, ih]

theorem annN_length (a : List Ev) : (annN a).length = cntN a := by
  induction a with
  | nil => rfl
  | cons e es ih => cases e <;> simp [annN, cntN, ih]

/-- de-duplicated announcement of a file: nothing or exactly the next index; the returned index carries the name -/
theorem globalSource_spec (S : List Text) (source : Text) (content : Option Text) (nn : Nat) :
    (globalSource S.zipIdx source content).1 = (S ++ annS (globalSource S.zipIdx source content).2.1).zipIdx
    ∧ DeclOK S.length nn (globalSource S.zipIdx source content).2.1
    ∧ annN (globalSource S.zipIdx source content).2.1 = []
    ∧ (S ++ annS (globalSource S.zipIdx source content).2.1)[(globalSource S.zipIdx source content).2.2]? = some source := by
  unfold globalSource
  split
  · rename_i g hg
    simp only [annS, List.append_nil]
    exact ⟨trivial, trivial, rfl, assoc_get_zipIdx S source g hg⟩
  · rename_i hg
    simp only [List.length_zipIdx, annS, annN]
    refine ⟨assoc_insert_new S source hg, ⟨rfl, trivial⟩, trivial, ?_⟩
    simp

theorem globalName_spec (N : List Text) (name : Text) (ns : Nat) :
    (globalName N.zipIdx name).1 = (N ++ annN (globalName N.zipIdx name).2.1).zipIdx
    ∧ DeclOK ns N.length (globalName N.zipIdx name).2.1
    ∧ annS (globalName N.zipIdx name).2.1 = []
    ∧ (N ++ annN (globalName N.zipIdx name).2.1)[(globalName N.zipIdx name).2.2]? = some name := by
  unfold globalName
  split
  · rename_i g hg
    simp only [annN, List.append_nil]
    exact ⟨trivial, trivial, rfl, assoc_get_zipIdx N name g hg⟩
  · rename_i hg
    simp only [List.length_zipIdx, annS, annN]
    refine ⟨assoc_insert_new N name hg, ⟨rfl, trivial⟩, trivial, ?_⟩
    simp

/-! ### the invariant -/

structure KInv (cfg : CombCfg) (st : CombSt) (S N OS : List Text) : Prop where
  sm : st.sourceMapping = S.zipIdx
  nm : st.nameMapping = N.zipIdx
  sim : TblSem st.sourceIndexMapping OS S
  nim : TblSem st.nameIndexMapping st.nameIndexValueMapping N
  isim : TblSem st.innerSourceIndexMapping (st.innerSourceIndexValueMapping.map (·.1)) S
  inim : TblSem st.innerNameIndexMapping st.innerNameIndexValueMapping N
  segs : ∀ ld ∈ st.lineData, ∀ seg ∈ ld.segs, seg.src < st.innerSourceIndexMapping.length ∧ seg.name < st.innerNameIndexMapping.length
  isi : st.innerSourceIndex = -2 ∨ (0 ≤ st.innerSourceIndex ∧ OS[st.innerSourceIndex.toNat]? = some cfg.innerName)

theorem declOK_snoc_chunk (ns nn : Nat) (a : List Ev) (t : Option Text) (m : Mapping) (ha : DeclOK ns nn a)
    (hm : ∀ o, m.orig = some o → o.src < ns + cntS a ∧ ∀ k, o.name = some k → k < nn + cntN a) : DeclOK ns nn (a ++ [Ev.chunk t m]) :=
  (declOK_append a _ ns nn).2 ⟨ha, hm, trivial⟩

/-- what a pass-through / fall-back chunk says: same text and position; when mapped, the announced file is the outer map's file
of that index, the location is the outer one, and the announced name is the outer map's name of that index -/
def PassSem (S N OS ON : List Text) (chunk : Option Text) (m : Mapping) (si ol oc ni : Int) (evs : List Ev) : Prop :=
  ∀ t mm, Ev.chunk t mm ∈ evs → t = chunk ∧ mm.gl = m.gl ∧ mm.gc = m.gc ∧ ∀ y, mm.orig = some y →
    0 ≤ si ∧ S[y.src]? = OS[si.toNat]? ∧ si.toNat < OS.length ∧ y.line = ol.toNat ∧ y.col = oc.toNat
      ∧ ∀ k, y.name = some k → 0 ≤ ni ∧ N[k]? = ON[ni.toNat]? ∧ ni.toNat < ON.length

theorem combPass_ok (cfg : CombCfg) (st : CombSt) (S N OS : List Text) (h : KInv cfg st S N OS) (chunk : Option Text) (m : Mapping) (si ol oc ni : Int) :
    DeclOK S.length N.length (combPass st chunk m si ol oc ni).2
    ∧ KInv cfg (combPass st chunk m si ol oc ni).1 (S ++ annS (combPass st chunk m si ol oc ni).2) (N ++ annN (combPass st chunk m si ol oc ni).2) OS
    ∧ (combPass st chunk m si ol oc ni).1.nameIndexValueMapping = st.nameIndexValueMapping
    ∧ PassSem (S ++ annS (combPass st chunk m si ol oc ni).2) (N ++ annN (combPass st chunk m si ol oc ni).2) OS st.nameIndexValueMapping
        chunk m si ol oc ni (combPass st chunk m si ol oc ni).2 := by
  unfold combPass
  dsimp only
  generalize hfs : (if si < 0 then (-1 : Int) else (st.sourceIndexMapping[si.toNat]?).getD (-1)) = v
  by_cases hneg : v < 0
  · -- unmapped
    simp only [hneg, if_true, annS, annN, List.append_nil]
    refine ⟨⟨fun o ho => (by cases ho), trivial⟩, h, (by first | rfl | trivial), ?_⟩
    intro t mm hm
    simp only [List.mem_singleton, Ev.chunk.injEq] at hm
    obtain ⟨rfl, rfl⟩ := hm
    exact ⟨rfl, rfl, rfl, fun y hy => (by cases hy)⟩
  · simp only [hneg, if_false]
    -- the source index is resolved
    have hsi : 0 ≤ si := by
      rcases Int.lt_or_le si 0 with h0 | h0
      · simp only [h0, if_true] at hfs; omega
      · exact h0
    have hnlt : ¬ si < 0 := by omega
    simp only [hnlt, if_false] at hfs
    have hv : st.sourceIndexMapping[si.toNat]? = some v := by
      cases hq : st.sourceIndexMapping[si.toNat]? with
      | none => rw [hq] at hfs; simp only [Option.getD_none] at hfs; omega
      | some w => rw [hq] at hfs; simp only [Option.getD_some] at hfs; rw [hfs]
    obtain ⟨g1, g2, g3⟩ := tblSem_get _ _ _ h.sim si.toNat v hv (by omega)
    generalize hf0 : (if ni ≥ 0 then (st.nameIndexMapping[ni.toNat]?).getD (-1) else (-1 : Int)) = f0
    by_cases hf : f0 = -2
    · -- the outer name is announced now
      subst hf
      simp only [beq_self_eq_true, if_true]
      have hni : 0 ≤ ni := by
        rcases Int.lt_or_le ni 0 with h0 | h0
        · have : ¬ ni ≥ 0 := by omega
          simp only [this, if_false] at hf0; omega
        · exact h0
      simp only [ge_iff_le, hni, if_true] at hf0
      have hw : st.nameIndexMapping[ni.toNat]? = some (-2) := by
        cases hq : st.nameIndexMapping[ni.toNat]? with
        | none => rw [hq] at hf0; simp only [Option.getD_none] at hf0; omega
        | some w => rw [hq] at hf0; simp only [Option.getD_some] at hf0; rw [hf0]
      have hlt : ni.toNat < st.nameIndexMapping.length := (List.getElem?_eq_some_iff.1 hw).1
      have hlt2 : ni.toNat < st.nameIndexValueMapping.length := by rw [← h.nim.1]; exact hlt
      have hname : st.nameIndexValueMapping.getD ni.toNat [] = st.nameIndexValueMapping[ni.toNat] := by
        rw [List.getD_eq_getElem?_getD, List.getElem?_eq_getElem hlt2]; rfl
      obtain ⟨n1, n2, n3, n4⟩ := globalName_spec N (st.nameIndexValueMapping.getD ni.toNat []) S.length
      have hnc := globalName_noChunkMem N.zipIdx (st.nameIndexValueMapping.getD ni.toNat [])
      rw [h.nm]
      generalize globalName N.zipIdx (st.nameIndexValueMapping.getD ni.toNat []) = r at n1 n2 n3 n4 hnc
      have eS : annS (r.2.1 ++ [Ev.chunk chunk ⟨m.gl, m.gc, some ⟨v.toNat, ol.toNat, oc.toNat, some r.2.2⟩⟩]) = [] := by
        rw [annS_append, n3]; rfl
      have eN : annN (r.2.1 ++ [Ev.chunk chunk ⟨m.gl, m.gc, some ⟨v.toNat, ol.toNat, oc.toNat, some r.2.2⟩⟩]) = annN r.2.1 := by
        rw [annN_append]; simp [annN]
      rw [eS, eN, List.append_nil]
      have hk : r.2.2 < (N ++ annN r.2.1).length := (List.getElem?_eq_some_iff.1 n4).1
      refine ⟨declOK_snoc_chunk _ _ _ _ _ n2 ?_, ?_, (by first | rfl | trivial), ?_⟩
      · intro o ho
        simp only [Option.some.injEq] at ho; subst ho
        refine ⟨by simp only; omega, fun k hk' => ?_⟩
        simp only [Option.some.injEq] at hk'; subst hk'
        rw [← annN_length, ← List.length_append]; exact hk
      · exact { sm := h.sm, nm := n1, sim := h.sim,
                nim := tblSem_set _ _ _ (tblSem_mono _ _ _ _ h.nim) ni.toNat hlt _ (Or.inr (Or.inr ⟨by omega, by
                  simp only [Int.toNat_natCast]; rw [n4, hname, List.getElem?_eq_getElem hlt2]⟩)),
                isim := h.isim, inim := tblSem_mono _ _ _ _ h.inim, segs := h.segs, isi := h.isi }
      · intro t mm hm
        rcases List.mem_append.1 hm with hm | hm
        · exact absurd hm (hnc t mm)
        · simp only [List.mem_singleton, Ev.chunk.injEq] at hm
          obtain ⟨rfl, rfl⟩ := hm
          refine ⟨rfl, rfl, rfl, fun y hy => ?_⟩
          simp only [Option.some.injEq] at hy; subst hy
          refine ⟨hsi, g2, g3, rfl, rfl, fun k hk' => ?_⟩
          simp only [Option.some.injEq] at hk'; subst hk'
          exact ⟨hni, by rw [n4, hname, List.getElem?_eq_getElem hlt2], hlt2⟩
    · have hfb : (f0 == -2) = false := by simpa using hf
      simp only [hfb, Bool.false_eq_true, if_false, annS, annN, List.append_nil]
      have hname : ∀ k, (if f0 ≥ 0 then some f0.toNat else none) = some k → 0 ≤ ni ∧ N[k]? = st.nameIndexValueMapping[ni.toNat]? ∧ ni.toNat < st.nameIndexValueMapping.length ∧ k < N.length := by
        intro k hk
        split at hk
        · rename_i hge
          simp only [Option.some.injEq] at hk; subst hk
          have hni : 0 ≤ ni := by
            rcases Int.lt_or_le ni 0 with h0 | h0
            · have : ¬ ni ≥ 0 := by omega
              simp only [this, if_false] at hf0; omega
            · exact h0
          simp only [ge_iff_le, hni, if_true] at hf0
          have hw : st.nameIndexMapping[ni.toNat]? = some f0 := by
            cases hq : st.nameIndexMapping[ni.toNat]? with
            | none => rw [hq] at hf0; simp only [Option.getD_none] at hf0; omega
            | some w => rw [hq] at hf0; simp only [Option.getD_some] at hf0; rw [hf0]
          obtain ⟨q1, q2, q3⟩ := tblSem_get _ _ _ h.nim ni.toNat f0 hw (by omega)
          exact ⟨hni, q2, q3, q1⟩
        · cases hk
      refine ⟨⟨?_, trivial⟩, h, (by first | rfl | trivial), ?_⟩
      · intro o ho
        simp only [Option.some.injEq] at ho; subst ho
        exact ⟨g1, fun k hk' => (hname k hk').2.2.2⟩
      · intro t mm hm
        simp only [List.mem_singleton, Ev.chunk.injEq] at hm
        obtain ⟨rfl, rfl⟩ := hm
        refine ⟨rfl, rfl, rfl, fun y hy => ?_⟩
        simp only [Option.some.injEq] at hy; subst hy
        exact ⟨hsi, g2, g3, rfl, rfl, fun k hk' => ⟨(hname k hk').1, (hname k hk').2.1, (hname k hk').2.2.1⟩⟩

theorem passSem_cons_source (S N OS ON : List Text) (chunk : Option Text) (m : Mapping) (si ol oc ni : Int) (evs : List Ev) (i : Nat) (s : Text) (c : Option Text)
    (h : PassSem S N OS ON chunk m si ol oc ni evs) : PassSem S N OS ON chunk m si ol oc ni (Ev.source i s c :: evs) := by
  intro t mm hm
  simp only [List.mem_cons, reduceCtorEq, false_or] at hm
  exact h t mm hm

theorem cons_source_ok (cfg : CombCfg) (r : CombSt × List Ev) (S N OS ON : List Text) (x : Text) (c : Option Text) (chunk : Option Text) (m : Mapping) (si ol oc ni : Int)
    (a1 : DeclOK (S ++ [x]).length N.length r.2) (a2 : KInv cfg r.1 ((S ++ [x]) ++ annS r.2) (N ++ annN r.2) OS)
    (a4 : PassSem ((S ++ [x]) ++ annS r.2) (N ++ annN r.2) OS ON chunk m si ol oc ni r.2) :
    DeclOK S.length N.length (Ev.source S.length x c :: r.2)
    ∧ KInv cfg r.1 (S ++ annS (Ev.source S.length x c :: r.2)) (N ++ annN (Ev.source S.length x c :: r.2)) OS
    ∧ PassSem (S ++ annS (Ev.source S.length x c :: r.2)) (N ++ annN (Ev.source S.length x c :: r.2)) OS ON chunk m si ol oc ni (Ev.source S.length x c :: r.2) := by
  simp only [annS, annN]
  have e : S ++ x :: annS r.2 = S ++ [x] ++ annS r.2 := by simp
  rw [e]
  exact ⟨⟨rfl, by simpa using a1⟩, a2, passSem_cons_source _ _ _ _ _ _ _ _ _ _ _ _ _ _ a4⟩

/-- "no inner mapping": the chunk is unmapped (removal requested) or names the outer map's file — which is the inner source -/
theorem combNoInner_ok (cfg : CombCfg) (st : CombSt) (S N OS : List Text) (h : KInv cfg st S N OS) (chunk : Option Text) (m : Mapping) (si ol oc ni : Int)
    (hsi : 0 ≤ si) (hin : OS[si.toNat]? = some cfg.innerName) :
    DeclOK S.length N.length (combNoInner cfg st chunk m si ol oc ni).2
    ∧ KInv cfg (combNoInner cfg st chunk m si ol oc ni).1 (S ++ annS (combNoInner cfg st chunk m si ol oc ni).2) (N ++ annN (combNoInner cfg st chunk m si ol oc ni).2) OS
    ∧ (combNoInner cfg st chunk m si ol oc ni).1.nameIndexValueMapping = st.nameIndexValueMapping
    ∧ PassSem (S ++ annS (combNoInner cfg st chunk m si ol oc ni).2) (N ++ annN (combNoInner cfg st chunk m si ol oc ni).2) OS st.nameIndexValueMapping
        chunk m si ol oc ni (combNoInner cfg st chunk m si ol oc ni).2
    ∧ (cfg.remove = true → ∀ t mm, Ev.chunk t mm ∈ (combNoInner cfg st chunk m si ol oc ni).2 → mm.orig = none) := by
  unfold combNoInner
  by_cases hrm : cfg.remove = true
  · simp only [hrm, if_true, annS, annN, List.append_nil]
    refine ⟨⟨fun o ho => (by cases ho), trivial⟩, h, (by first | rfl | trivial), ?_, ?_⟩
    · intro t mm hm
      simp only [List.mem_singleton, Ev.chunk.injEq] at hm
      obtain ⟨rfl, rfl⟩ := hm
      exact ⟨rfl, rfl, rfl, fun y hy => (by cases hy)⟩
    · intro _ t mm hm
      simp only [List.mem_singleton, Ev.chunk.injEq] at hm
      obtain ⟨rfl, rfl⟩ := hm
      rfl
  · simp only [hrm, Bool.false_eq_true, if_false]
    by_cases hun : st.sourceIndexMapping[si.toNat]? = some (-2)
    · have hb : (st.sourceIndexMapping[si.toNat]? == some (-2)) = true := by rw [hun]; rfl
      simp only [hb, if_true]
      have hlt : si.toNat < st.sourceIndexMapping.length := (List.getElem?_eq_some_iff.1 hun).1
      split
      · rename_i g hg
        -- the inner source was announced before under its own name
        rw [h.sm] at hg
        have hg' := assoc_get_zipIdx S cfg.innerName g hg
        have h1 : KInv cfg { st with sourceIndexMapping := lmInsert 0 st.sourceIndexMapping si.toNat g } S N OS :=
          { sm := h.sm, nm := h.nm, nim := h.nim, isim := h.isim, inim := h.inim, segs := h.segs, isi := h.isi,
            sim := tblSem_set _ _ _ h.sim si.toNat hlt _ (Or.inr (Or.inr ⟨by omega, by simp only [Int.toNat_natCast]; rw [hg', hin]⟩)) }
        obtain ⟨a1, a2, a3, a4⟩ := combPass_ok cfg _ S N OS h1 chunk m si ol oc ni
        exact ⟨a1, a2, a3, a4, fun hr => (by first | exact absurd hr hrm | exact hr.elim)⟩
      · rename_i hg
        -- first announcement of the inner source itself
        rw [h.sm] at hg
        have e2 : st.sourceMapping.length = S.length := by rw [h.sm]; simp
        have e1 : Assoc.insert st.sourceMapping cfg.innerName S.length = (S ++ [cfg.innerName]).zipIdx := by
          rw [h.sm]; exact assoc_insert_new S _ hg
        rw [e2, e1]
        have h1 : KInv cfg { st with sourceMapping := (S ++ [cfg.innerName]).zipIdx
                                     sourceIndexMapping := lmInsert 0 st.sourceIndexMapping si.toNat (S.length : Nat) } (S ++ [cfg.innerName]) N OS :=
          { sm := rfl, nm := h.nm, nim := h.nim, isim := tblSem_mono _ _ _ _ h.isim, inim := h.inim, segs := h.segs, isi := h.isi,
            sim := tblSem_set _ _ _ (tblSem_mono _ _ _ _ h.sim) si.toNat hlt _ (Or.inr (Or.inr ⟨by omega, by simp only [Int.toNat_natCast]; rw [hin]; simp⟩)) }
        obtain ⟨a1, a2, a3, a4⟩ := combPass_ok cfg _ (S ++ [cfg.innerName]) N OS h1 chunk m si ol oc ni
        obtain ⟨b1, b2, b4⟩ := cons_source_ok cfg _ S N OS _ cfg.innerName st.innerSource chunk m si ol oc ni a1 a2 a4
        exact ⟨b1, b2, a3, b4, fun hr => (by first | exact absurd hr hrm | exact hr.elim)⟩
    · have hb : (st.sourceIndexMapping[si.toNat]? == some (-2)) = false := by
        rw [Bool.eq_false_iff]; intro hc; exact hun (by simpa using hc)
      simp only [hb, Bool.false_eq_true, if_false]
      obtain ⟨a1, a2, a3, a4⟩ := combPass_ok cfg st S N OS h chunk m si ol oc ni
      exact ⟨a1, a2, a3, a4, fun hr => (by first | exact absurd hr hrm | exact hr.elim)⟩

/-! ### composed chunks -/

theorem globalSource_noChunkMem (sm : Assoc) (s : Text) (c : Option Text) : ∀ t mm, Ev.chunk t mm ∉ (globalSource sm s c).2.1 := by
  intro t mm h
  unfold globalSource at h
  split at h <;> simp at h

/-- "emit source when needed": nothing or the next index is announced, and a non-negative result is the index of an announcement that
carries the name the inner map gives to its source `isi` -/
theorem combSrcResolve_ok (cfg : CombCfg) (st : CombSt) (S N OS : List Text) (h : KInv cfg st S N OS) (isi : Nat) (hisi : isi < st.innerSourceIndexMapping.length) (nn : Nat) :
    DeclOK S.length nn (combSrcResolve st isi).2.1
    ∧ annN (combSrcResolve st isi).2.1 = []
    ∧ (∀ t mm, Ev.chunk t mm ∉ (combSrcResolve st isi).2.1)
    ∧ KInv cfg (combSrcResolve st isi).1 (S ++ annS (combSrcResolve st isi).2.1) N OS
    ∧ (combSrcResolve st isi).1.nameIndexValueMapping = st.nameIndexValueMapping
    ∧ (combSrcResolve st isi).1.innerNameIndexValueMapping = st.innerNameIndexValueMapping
    ∧ (combSrcResolve st isi).1.innerNameIndexMapping = st.innerNameIndexMapping
    ∧ (combSrcResolve st isi).1.innerSourceIndexValueMapping = st.innerSourceIndexValueMapping
    ∧ (0 ≤ (combSrcResolve st isi).2.2 → (S ++ annS (combSrcResolve st isi).2.1)[(combSrcResolve st isi).2.2.toNat]? = (st.innerSourceIndexValueMapping.map (·.1))[isi]?)
    ∧ (combSrcResolve st isi).1.innerSourceContents = st.innerSourceContents := by
  have hlen : isi < (st.innerSourceIndexValueMapping.map (·.1)).length := by rw [← h.isim.1]; exact hisi
  have hlen' : isi < st.innerSourceIndexValueMapping.length := by simpa using hlen
  obtain ⟨v, hv⟩ : ∃ v, st.innerSourceIndexMapping[isi]? = some v := ⟨_, List.getElem?_eq_getElem hisi⟩
  unfold combSrcResolve
  simp only [hv, Option.getD_some]
  by_cases hv2 : v = -2
  · subst hv2
    simp only [beq_self_eq_true, if_true]
    have hsc : (st.innerSourceIndexValueMapping[isi]?).getD ([], none) = st.innerSourceIndexValueMapping[isi] := by
      rw [List.getElem?_eq_getElem hlen']; rfl
    obtain ⟨n1, n2, n3, n4⟩ := globalSource_spec S ((st.innerSourceIndexValueMapping[isi]?).getD ([], none)).1 ((st.innerSourceIndexValueMapping[isi]?).getD ([], none)).2 nn
    have hnc := globalSource_noChunkMem S.zipIdx ((st.innerSourceIndexValueMapping[isi]?).getD ([], none)).1 ((st.innerSourceIndexValueMapping[isi]?).getD ([], none)).2
    rw [h.sm]
    generalize globalSource S.zipIdx ((st.innerSourceIndexValueMapping[isi]?).getD ([], none)).1 ((st.innerSourceIndexValueMapping[isi]?).getD ([], none)).2 = r at n1 n2 n3 n4 hnc
    have hval : (S ++ annS r.2.1)[r.2.2]? = (st.innerSourceIndexValueMapping.map (·.1))[isi]? := by
      rw [n4, hsc, List.getElem?_map, List.getElem?_eq_getElem hlen']; rfl
    refine ⟨n2, n3, hnc, ?_, (by first | rfl | trivial), (by first | rfl | trivial), (by first | rfl | trivial), (by first | rfl | trivial), ?_, (by first | rfl | trivial)⟩
    · exact { sm := n1, nm := h.nm, sim := tblSem_mono _ _ _ _ h.sim, nim := h.nim, inim := h.inim, isi := h.isi,
              isim := tblSem_set _ _ _ (tblSem_mono _ _ _ _ h.isim) isi hisi _ (Or.inr (Or.inr ⟨by omega, by simp only [Int.toNat_natCast]; exact hval⟩)),
              segs := fun ld hld seg hseg => by
                have := h.segs ld hld seg hseg
                refine ⟨?_, this.2⟩
                show seg.src < ((lmInsert 0 st.innerSourceIndexMapping isi (r.2.2 : Int)).length : Int)
                rw [lmInsert_length]
                have := this.1
                omega }
    · intro _
      simp only [Int.toNat_natCast]; exact hval
  · have hb : (v == -2) = false := by simpa using hv2
    simp only [hb, Bool.false_eq_true, if_false, annS, annN, List.append_nil]
    refine ⟨trivial, (by first | rfl | trivial), fun t mm hm => (by simp at hm), h, (by first | rfl | trivial), (by first | rfl | trivial), (by first | rfl | trivial), (by first | rfl | trivial), ?_, (by first | rfl | trivial)⟩
    intro h0
    exact (tblSem_get _ _ _ h.isim isi v hv h0).2.1

/-- the outer name equals the original text at the composed location: same length, in the content recorded for inner source `isi` -/
def OuterMatch (st : CombSt) (isi : Nat) (seg : InnerSeg) (nameIndex ioc : Int) : Prop :=
  ∃ lines, innerContentLines st isi = some lines
    ∧ st.nameIndexValueMapping.getD nameIndex.toNat [] = combOrigName lines seg ioc (st.nameIndexValueMapping.getD nameIndex.toNat []).length

/-- where a composed chunk's name index may come from -/
def NameFrom (st : CombSt) (N : List Text) (isi : Nat) (seg : InnerSeg) (ini nameIndex ioc : Int) (g : Int) : Prop :=
  (0 ≤ ini ∧ N[g.toNat]? = st.innerNameIndexValueMapping[ini.toNat]? ∧ ini.toNat < st.innerNameIndexValueMapping.length)
  ∨ (ini < 0 ∧ 0 ≤ nameIndex ∧ N[g.toNat]? = st.nameIndexValueMapping[nameIndex.toNat]? ∧ nameIndex.toNat < st.nameIndexValueMapping.length
      ∧ OuterMatch st isi seg nameIndex ioc)

/-- "emit name when needed": nothing or the next name index is announced; a non-negative result is the index of an announcement
carrying the inner map's name `ini`, or (when there is none) the outer map's name `nameIndex` -/
theorem combNameResolve_ok (cfg : CombCfg) (st : CombSt) (S N OS : List Text) (h : KInv cfg st S N OS) (isi : Nat) (seg : InnerSeg) (ini nameIndex ioc : Int)
    (hini : 0 ≤ ini → ini.toNat < st.innerNameIndexMapping.length)
    (hni : 0 ≤ nameIndex → nameIndex.toNat < st.nameIndexValueMapping.length) (ns : Nat) :
    DeclOK ns N.length (combNameResolve st isi seg ini nameIndex ioc).2.1
    ∧ annS (combNameResolve st isi seg ini nameIndex ioc).2.1 = []
    ∧ (∀ t mm, Ev.chunk t mm ∉ (combNameResolve st isi seg ini nameIndex ioc).2.1)
    ∧ KInv cfg (combNameResolve st isi seg ini nameIndex ioc).1 S (N ++ annN (combNameResolve st isi seg ini nameIndex ioc).2.1) OS
    ∧ (combNameResolve st isi seg ini nameIndex ioc).1.nameIndexValueMapping = st.nameIndexValueMapping
    ∧ (0 ≤ (combNameResolve st isi seg ini nameIndex ioc).2.2 →
        NameFrom st (N ++ annN (combNameResolve st isi seg ini nameIndex ioc).2.1) isi seg ini nameIndex ioc (combNameResolve st isi seg ini nameIndex ioc).2.2) := by
  have hstay : DeclOK ns N.length ([] : List Ev) ∧ annS ([] : List Ev) = [] ∧ (∀ t mm, Ev.chunk t mm ∉ ([] : List Ev))
      ∧ KInv cfg st S (N ++ annN []) OS ∧ st.nameIndexValueMapping = st.nameIndexValueMapping :=
    ⟨trivial, rfl, fun t mm hm => (by simp at hm), by simpa [annN] using h, rfl⟩
  unfold combNameResolve
  by_cases hi0 : ini ≥ 0
  · simp only [hi0, if_true]
    have hlt := hini hi0
    have hlt2 : ini.toNat < st.innerNameIndexValueMapping.length := by rw [← h.inim.1]; exact hlt
    obtain ⟨v, hv⟩ : ∃ v, st.innerNameIndexMapping[ini.toNat]? = some v := ⟨_, List.getElem?_eq_getElem hlt⟩
    simp only [hv, Option.getD_some]
    by_cases hv2 : v = -2
    · subst hv2
      simp only [beq_self_eq_true, if_true, List.getElem?_eq_getElem hlt2]
      obtain ⟨n1, n2, n3, n4⟩ := globalName_spec N st.innerNameIndexValueMapping[ini.toNat] ns
      have hnc := globalName_noChunkMem N.zipIdx st.innerNameIndexValueMapping[ini.toNat]
      rw [h.nm]
      generalize globalName N.zipIdx st.innerNameIndexValueMapping[ini.toNat] = r at n1 n2 n3 n4 hnc
      have hval : (N ++ annN r.2.1)[r.2.2]? = st.innerNameIndexValueMapping[ini.toNat]? := by
        rw [n4, List.getElem?_eq_getElem hlt2]
      refine ⟨n2, n3, hnc, ?_, (by first | rfl | trivial), fun _ => Or.inl ⟨hi0, by simp only [Int.toNat_natCast]; exact hval, hlt2⟩⟩
      exact { sm := h.sm, nm := n1, sim := h.sim, nim := tblSem_mono _ _ _ _ h.nim, isim := h.isim, isi := h.isi,
              inim := tblSem_set _ _ _ (tblSem_mono _ _ _ _ h.inim) ini.toNat hlt _ (Or.inr (Or.inr ⟨by omega, by simp only [Int.toNat_natCast]; exact hval⟩)),
              segs := fun ld hld seg' hseg => by
                have := h.segs ld hld seg' hseg
                refine ⟨this.1, ?_⟩
                show seg'.name < ((lmInsert 0 st.innerNameIndexMapping ini.toNat (r.2.2 : Int)).length : Int)
                rw [lmInsert_length]
                have := this.2
                omega }
    · have hb : (v == -2) = false := by simpa using hv2
      simp only [hb, Bool.false_eq_true, if_false]
      obtain ⟨s1, s2, s3, s4, s5⟩ := hstay
      refine ⟨s1, s2, s3, s4, (by first | exact s5 | trivial), fun h0 => Or.inl ⟨hi0, ?_, hlt2⟩⟩
      simp only [annN, List.append_nil]
      exact (tblSem_get _ _ _ h.inim ini.toNat v hv h0).2.1
  · simp only [hi0, if_false]
    have hineg : ini < 0 := by omega
    obtain ⟨s1, s2, s3, s4, s5⟩ := hstay
    by_cases hn0 : nameIndex ≥ 0
    · simp only [hn0, if_true]
      have hlt2 := hni hn0
      have hlt : nameIndex.toNat < st.nameIndexMapping.length := by rw [h.nim.1]; exact hlt2
      split
      · rename_i lines hlines
        split
        · rename_i hmatch
          have hom : OuterMatch st isi seg nameIndex ioc := ⟨lines, hlines, by simpa using hmatch⟩
          obtain ⟨v, hv⟩ : ∃ v, st.nameIndexMapping[nameIndex.toNat]? = some v := ⟨_, List.getElem?_eq_getElem hlt⟩
          simp only [hv, Option.getD_some]
          by_cases hv2 : v = -2
          · subst hv2
            simp only [beq_self_eq_true, if_true, List.getElem?_eq_getElem hlt2]
            obtain ⟨n1, n2, n3, n4⟩ := globalName_spec N st.nameIndexValueMapping[nameIndex.toNat] ns
            have hnc := globalName_noChunkMem N.zipIdx st.nameIndexValueMapping[nameIndex.toNat]
            rw [h.nm]
            generalize globalName N.zipIdx st.nameIndexValueMapping[nameIndex.toNat] = r at n1 n2 n3 n4 hnc
            have hval : (N ++ annN r.2.1)[r.2.2]? = st.nameIndexValueMapping[nameIndex.toNat]? := by
              rw [n4, List.getElem?_eq_getElem hlt2]
            refine ⟨n2, n3, hnc, ?_, (by first | rfl | trivial), fun _ => Or.inr ⟨hineg, hn0, by simp only [Int.toNat_natCast]; exact hval, hlt2, hom⟩⟩
            exact { sm := h.sm, nm := n1, sim := h.sim, inim := tblSem_mono _ _ _ _ h.inim, isim := h.isim, isi := h.isi, segs := h.segs,
                    nim := tblSem_set _ _ _ (tblSem_mono _ _ _ _ h.nim) nameIndex.toNat hlt _ (Or.inr (Or.inr ⟨by omega, by simp only [Int.toNat_natCast]; exact hval⟩)) }
          · have hb : (v == -2) = false := by simpa using hv2
            simp only [hb, Bool.false_eq_true, if_false]
            refine ⟨s1, s2, s3, s4, (by first | exact s5 | trivial), fun h0 => Or.inr ⟨hineg, hn0, ?_, hlt2, hom⟩⟩
            simp only [annN, List.append_nil]
            exact (tblSem_get _ _ _ h.nim nameIndex.toNat v hv h0).2.1
        · exact ⟨s1, s2, s3, s4, (by first | exact s5 | trivial), fun h0 => absurd h0 (by show ¬ (0 : Int) ≤ -1; decide)⟩
      · exact ⟨s1, s2, s3, s4, (by first | exact s5 | trivial), fun h0 => absurd h0 (by show ¬ (0 : Int) ≤ -1; decide)⟩
    · simp only [hn0, if_false]
      exact ⟨s1, s2, s3, s4, (by first | exact s5 | trivial), fun h0 => absurd h0 (by show ¬ (0 : Int) ≤ -1; decide)⟩

theorem combAdj_pos (st : CombSt) (seg : InnerSeg) (ic : Text) (loc : Int) (h : combAdj st seg ic loc = true) : 0 < loc := by
  unfold combAdj at h
  split at h
  · assumption
  · cases h

/-- what a composed chunk says: same text and position; the announced file is the inner map's file of the segment found, the line is
the segment's, the column the segment's (or advanced by the offset into it), and an announced name is the inner segment's name or —
only when the segment has none or the column was advanced — the outer mapping's name -/
def FoundSem (st : CombSt) (S N : List Text) (chunk : Option Text) (m : Mapping) (seg : InnerSeg) (origCol nameIndex : Int) (evs : List Ev) : Prop :=
  ∀ t mm, Ev.chunk t mm ∈ evs → t = chunk ∧ mm.gl = m.gl ∧ mm.gc = m.gc ∧ ∀ y, mm.orig = some y →
    S[y.src]? = (st.innerSourceIndexValueMapping.map (·.1))[seg.src.toNat]? ∧ seg.src.toNat < st.innerSourceIndexValueMapping.length
    ∧ y.line = seg.line.toNat
    ∧ (y.col = seg.col.toNat ∨ (0 < origCol - seg.gc ∧ y.col = (seg.col + (origCol - seg.gc)).toNat))
    ∧ ∀ k, y.name = some k →
        (0 ≤ seg.name ∧ y.col = seg.col.toNat ∧ N[k]? = st.innerNameIndexValueMapping[seg.name.toNat]? ∧ seg.name.toNat < st.innerNameIndexValueMapping.length)
        ∨ (0 ≤ nameIndex ∧ N[k]? = st.nameIndexValueMapping[nameIndex.toNat]? ∧ nameIndex.toNat < st.nameIndexValueMapping.length
            ∧ ∃ ioc : Int, y.col = ioc.toNat ∧ OuterMatch st seg.src.toNat seg nameIndex ioc)

theorem combFound_ok (cfg : CombCfg) (st : CombSt) (S N OS : List Text) (h : KInv cfg st S N OS) (chunk : Option Text) (m : Mapping) (seg : InnerSeg) (ic : Text)
    (origCol nameIndex : Int) (hs0 : 0 ≤ seg.src) (hs1 : seg.src < st.innerSourceIndexMapping.length) (hn1 : seg.name < st.innerNameIndexMapping.length)
    (hni : 0 ≤ nameIndex → nameIndex.toNat < st.nameIndexValueMapping.length) :
    DeclOK S.length N.length (combFound st chunk m seg ic origCol nameIndex).2
    ∧ KInv cfg (combFound st chunk m seg ic origCol nameIndex).1 (S ++ annS (combFound st chunk m seg ic origCol nameIndex).2) (N ++ annN (combFound st chunk m seg ic origCol nameIndex).2) OS
    ∧ (combFound st chunk m seg ic origCol nameIndex).1.nameIndexValueMapping = st.nameIndexValueMapping
    ∧ FoundSem st (S ++ annS (combFound st chunk m seg ic origCol nameIndex).2) (N ++ annN (combFound st chunk m seg ic origCol nameIndex).2)
        chunk m seg origCol nameIndex (combFound st chunk m seg ic origCol nameIndex).2 := by
  unfold combFound
  dsimp only
  have hisi : seg.src.toNat < st.innerSourceIndexMapping.length := by omega
  obtain ⟨a1, a2, a3, a4, a5, a6, a7, a8, a9, a10⟩ := combSrcResolve_ok cfg st S N OS h seg.src.toNat hisi N.length
  have hadj := combAdj_pos st seg ic (origCol - seg.gc)
  generalize combAdj st seg ic (origCol - seg.gc) = adj at hadj
  generalize combSrcResolve st seg.src.toNat = rS at a1 a2 a3 a4 a5 a6 a7 a8 a9 a10
  have hini : 0 ≤ (if adj = true then (-1 : Int) else seg.name) → (if adj = true then (-1 : Int) else seg.name).toNat < rS.1.innerNameIndexMapping.length := by
    intro h0
    rw [a7]
    split at h0
    · omega
    · rename_i hna; simp only [hna, if_false]; omega
  have hni' : 0 ≤ nameIndex → nameIndex.toNat < rS.1.nameIndexValueMapping.length := by rw [a5]; exact hni
  obtain ⟨b1, b2, b3, b4, b5, b6⟩ := combNameResolve_ok cfg rS.1 (S ++ annS rS.2.1) N OS a4 seg.src.toNat seg
    (if adj = true then (-1 : Int) else seg.name) nameIndex (if adj = true then seg.col + (origCol - seg.gc) else seg.col) hini hni' (S.length + cntS rS.2.1)
  generalize combNameResolve rS.1 seg.src.toNat seg (if adj = true then (-1 : Int) else seg.name) nameIndex (if adj = true then seg.col + (origCol - seg.gc) else seg.col) = rN at b1 b2 b3 b4 b5 b6
  have eS : ∀ x : Ev, (∀ i s c, x ≠ .source i s c) → annS (rS.2.1 ++ rN.2.1 ++ [x]) = annS rS.2.1 := by
    intro x hx
    rw [annS_append, annS_append, b2, List.append_nil]
    cases x with
    | chunk t mm => simp [annS]
    | source i s c => exact absurd rfl (hx i s c)
    | name i n => simp [annS]
  have eN : ∀ x : Ev, (∀ i n, x ≠ .name i n) → annN (rS.2.1 ++ rN.2.1 ++ [x]) = annN rN.2.1 := by
    intro x hx
    rw [annN_append, annN_append, a2, List.nil_append]
    cases x with
    | chunk t mm => simp [annN]
    | source i s c => simp [annN]
    | name i n => exact absurd rfl (hx i n)
  rw [eS _ (fun i s c => by simp), eN _ (fun i n => by simp)]
  have hcS : cntS (rS.2.1 ++ rN.2.1) = (annS rS.2.1).length := by rw [cntS_append, ← annS_length rN.2.1, b2, annS_length]; simp
  have hcN : cntN (rS.2.1 ++ rN.2.1) = (annN rN.2.1).length := by rw [cntN_append, ← annN_length rS.2.1, a2, annN_length]; simp
  have hdecl : DeclOK S.length N.length (rS.2.1 ++ rN.2.1) := by
    refine (declOK_append _ _ _ _).2 ⟨a1, ?_⟩
    have : cntN rS.2.1 = 0 := by rw [← annN_length, a2]; rfl
    rw [this, Nat.add_zero]
    exact b1
  refine ⟨declOK_snoc_chunk _ _ _ _ _ hdecl ?_, b4, by rw [b5, a5], ?_⟩
  · intro o ho
    split at ho
    · rename_i hge
      simp only [Option.some.injEq] at ho; subst ho
      have := a9 hge
      have hlt := (List.getElem?_eq_some_iff.1 (this.trans (List.getElem?_eq_getElem (by simpa using (h.isim.1 ▸ hisi : seg.src.toNat < (st.innerSourceIndexValueMapping.map (·.1)).length))))).1
      refine ⟨by rw [hcS, ← List.length_append]; exact hlt, fun k hk => ?_⟩
      by_cases hge2 : rN.2.2 ≥ 0
      · simp only [hge2, if_true, Option.some.injEq] at hk; subst hk
        rw [hcN, ← List.length_append]
        rcases b6 hge2 with ⟨_, q, q2⟩ | ⟨_, _, q, q2, _⟩
        · rw [List.getElem?_eq_getElem q2] at q; exact (List.getElem?_eq_some_iff.1 q).1
        · rw [List.getElem?_eq_getElem q2] at q; exact (List.getElem?_eq_some_iff.1 q).1
      · simp only [hge2, if_false] at hk; cases hk
    · cases ho
  · intro t mm hm
    rcases List.mem_append.1 hm with hm | hm
    · rcases List.mem_append.1 hm with hm | hm
      · exact absurd hm (a3 t mm)
      · exact absurd hm (b3 t mm)
    · simp only [List.mem_singleton, Ev.chunk.injEq] at hm
      obtain ⟨rfl, rfl⟩ := hm
      refine ⟨rfl, rfl, rfl, fun y hy => ?_⟩
      split at hy
      · rename_i hge
        simp only [Option.some.injEq] at hy; subst hy
        have hlen' : seg.src.toNat < st.innerSourceIndexValueMapping.length := by
          have := h.isim.1; simp only [List.length_map] at this; omega
        refine ⟨a9 hge, hlen', rfl, ?_, fun k hk => ?_⟩
        · cases adj with
          | true => exact Or.inr ⟨hadj rfl, by simp⟩
          | false => exact Or.inl (by simp)
        · by_cases hge2 : rN.2.2 ≥ 0
          · simp only [hge2, if_true, Option.some.injEq] at hk; subst hk
            rcases b6 hge2 with ⟨q0, q, q2⟩ | ⟨_, q0, q, q2, q3⟩
            · cases adj with
              | true => simp at q0
              | false =>
                simp only [Bool.false_eq_true, if_false] at q0 q q2 ⊢
                rw [a6] at q q2
                exact Or.inl ⟨q0, trivial, q, q2⟩
            · rw [a5] at q q2
              refine Or.inr ⟨q0, q, q2, _, rfl, ?_⟩
              obtain ⟨lines, l1, l2⟩ := q3
              refine ⟨lines, ?_, by rw [a5] at l2; exact l2⟩
              unfold innerContentLines at l1 ⊢
              rw [a10] at l1
              exact l1
          · simp only [hge2, if_false] at hk; cases hk
      · cases hy

/-! ### one outer chunk -/

theorem findInner_mem (st : CombSt) (line col : Int) (idx : Nat) (h : findInner st line col = some idx) :
    st.lineData.getD (line.toNat - 1) {} ∈ st.lineData
    ∧ (st.lineData.getD (line.toNat - 1) {}).segs.getD idx default ∈ (st.lineData.getD (line.toNat - 1) {}).segs := by
  unfold findInner at h
  split at h
  · cases h
  · rename_i hc
    have hlt : line.toNat - 1 < st.lineData.length := by omega
    have e1 : st.lineData.getD (line.toNat - 1) {} = st.lineData[line.toNat - 1] := by
      rw [List.getD_eq_getElem?_getD, List.getElem?_eq_getElem hlt]; rfl
    have e1' : st.lineData.getD (line.toNat - 1) default = st.lineData[line.toNat - 1] := by
      rw [List.getD_eq_getElem?_getD, List.getElem?_eq_getElem hlt]; rfl
    dsimp only at h
    rw [e1'] at h
    rw [e1]
    refine ⟨List.getElem_mem hlt, ?_⟩
    have hb := bisect_le st.lineData[line.toNat - 1].segs col (st.lineData[line.toNat - 1].segs.length + 1) 0 st.lineData[line.toNat - 1].segs.length (Nat.zero_le _) (Nat.le_refl _)
    split at h
    · cases h
    · rename_i hne
      simp only [Option.some.injEq] at h
      have hidx : idx < st.lineData[line.toNat - 1].segs.length := by omega
      rw [List.getD_eq_getElem?_getD, List.getElem?_eq_getElem hidx]
      exact List.getElem_mem hidx

def Mapping.si (m : Mapping) : Int := match m.orig with | some o => (o.src : Int) | none => -1
def Mapping.ol (m : Mapping) : Int := match m.orig with | some o => (o.line : Int) | none => -1
def Mapping.oc (m : Mapping) : Int := match m.orig with | some o => (o.col : Int) | none => -1
def Mapping.ni (m : Mapping) : Int := match m.orig with | some o => (match o.name with | some n => (n : Int) | none => -1) | none => -1

/-- `combOnChunk` with the four numbers read off the mapping as parameters -/
def combOnChunkI (cfg : CombCfg) (st : CombSt) (chunk : Option Text) (m : Mapping) (si ol oc ni : Int) : CombSt × List Ev :=
  if si == st.innerSourceIndex then
    match findInner st ol oc with
    | none => combNoInner cfg st chunk m si ol oc ni
    | some idx =>
      if ((st.lineData.getD (ol.toNat - 1) {}).segs.getD idx default).src ≥ 0 then
        combFound st chunk m ((st.lineData.getD (ol.toNat - 1) {}).segs.getD idx default) ((st.lineData.getD (ol.toNat - 1) {}).chunks.getD idx []) oc ni
      else combNoInner cfg st chunk m si ol oc ni
  else combPass st chunk m si ol oc ni

theorem combOnChunk_eq (cfg : CombCfg) (st : CombSt) (chunk : Option Text) (m : Mapping) :
    combOnChunk cfg st chunk m = combOnChunkI cfg st chunk m m.si m.ol m.oc m.ni := by
  unfold combOnChunk combOnChunkI Mapping.si Mapping.ol Mapping.oc Mapping.ni
  rcases m with ⟨gl, gc, _ | ⟨src, line, col, _ | n⟩⟩ <;> rfl

/-- what one outer chunk becomes: a pass-through / fall-back chunk, or a chunk composed with a segment recorded from the inner map -/
def ChunkSem (st : CombSt) (S N OS : List Text) (chunk : Option Text) (m : Mapping) (evs : List Ev) : Prop :=
  PassSem S N OS st.nameIndexValueMapping chunk m m.si m.ol m.oc m.ni evs
  ∨ ∃ seg idx, 0 ≤ seg.src ∧ m.si = st.innerSourceIndex ∧ findInner st m.ol m.oc = some idx
      ∧ seg = (st.lineData.getD (m.ol.toNat - 1) {}).segs.getD idx default ∧ FoundSem st S N chunk m seg m.oc m.ni evs

theorem combOnChunk_ok (cfg : CombCfg) (st : CombSt) (S N OS : List Text) (h : KInv cfg st S N OS) (chunk : Option Text) (m : Mapping)
    (hm : ∀ o, m.orig = some o → ∀ k, o.name = some k → k < st.nameIndexValueMapping.length) :
    DeclOK S.length N.length (combOnChunk cfg st chunk m).2
    ∧ KInv cfg (combOnChunk cfg st chunk m).1 (S ++ annS (combOnChunk cfg st chunk m).2) (N ++ annN (combOnChunk cfg st chunk m).2) OS
    ∧ (combOnChunk cfg st chunk m).1.nameIndexValueMapping = st.nameIndexValueMapping
    ∧ ChunkSem st (S ++ annS (combOnChunk cfg st chunk m).2) (N ++ annN (combOnChunk cfg st chunk m).2) OS chunk m (combOnChunk cfg st chunk m).2 := by
  rw [combOnChunk_eq]
  unfold ChunkSem
  have hni' : 0 ≤ m.ni → m.ni.toNat < st.nameIndexValueMapping.length := by
    intro h0
    unfold Mapping.ni at h0 ⊢
    cases hmo : m.orig with
    | none => rw [hmo] at h0; simp only at h0; omega
    | some o =>
      rw [hmo] at h0; simp only at h0 ⊢
      cases hon : o.name with
      | none => rw [hon] at h0; simp only at h0; omega
      | some n =>
        simp only [Int.toNat_natCast]
        exact hm o hmo n hon
  have hsi1 : -1 ≤ m.si := by
    unfold Mapping.si
    cases m.orig with
    | none => simp only; omega
    | some o => simp only; omega
  generalize m.si = si at hsi1 ⊢
  generalize m.ol = ol
  generalize m.oc = oc
  generalize m.ni = ni at hni' ⊢
  unfold combOnChunkI
  by_cases heq : si = st.innerSourceIndex
  · have hb : (si == st.innerSourceIndex) = true := by simpa using heq
    simp only [hb, if_true]
    have hin : 0 ≤ si ∧ OS[si.toNat]? = some cfg.innerName := by
      rcases h.isi with h2 | ⟨h2, h3⟩
      · omega
      · rw [heq]; exact ⟨h2, h3⟩
    have hno := combNoInner_ok cfg st S N OS h chunk m si ol oc ni hin.1 hin.2
    split
    · exact ⟨hno.1, hno.2.1, hno.2.2.1, Or.inl hno.2.2.2.1⟩
    · rename_i idx hfi
      obtain ⟨f1, f2⟩ := findInner_mem st ol oc idx hfi
      split
      · rename_i hge
        obtain ⟨g1, g2⟩ := h.segs _ f1 _ f2
        obtain ⟨c1, c2, c3, c4⟩ := combFound_ok cfg st S N OS h chunk m _ ((st.lineData.getD (ol.toNat - 1) {}).chunks.getD idx []) oc ni hge g1 g2 hni'
        exact ⟨c1, c2, c3, Or.inr ⟨_, idx, hge, heq, hfi, rfl, c4⟩⟩
      · exact ⟨hno.1, hno.2.1, hno.2.2.1, Or.inl hno.2.2.2.1⟩
  · have hb : (si == st.innerSourceIndex) = false := by simpa using heq
    simp only [hb, Bool.false_eq_true, if_false]
    obtain ⟨a1, a2, a3, a4⟩ := combPass_ok cfg st S N OS h chunk m si ol oc ni
    exact ⟨a1, a2, a3, Or.inl a4⟩

/-- the same, telling which alternative applies: composed exactly when the outer chunk points into the inner source and the search
finds a mapped segment; otherwise pass-through / fall-back (and unmapped when removal is requested for a chunk of the inner source) -/
theorem combOnChunk_sem (cfg : CombCfg) (st : CombSt) (S N OS : List Text) (h : KInv cfg st S N OS) (chunk : Option Text) (m : Mapping)
    (hm : ∀ o, m.orig = some o → ∀ k, o.name = some k → k < st.nameIndexValueMapping.length) :
    (∀ idx, m.si = st.innerSourceIndex → findInner st m.ol m.oc = some idx →
        0 ≤ ((st.lineData.getD (m.ol.toNat - 1) {}).segs.getD idx default).src →
        FoundSem st (S ++ annS (combOnChunk cfg st chunk m).2) (N ++ annN (combOnChunk cfg st chunk m).2) chunk m
          ((st.lineData.getD (m.ol.toNat - 1) {}).segs.getD idx default) m.oc m.ni (combOnChunk cfg st chunk m).2)
    ∧ ((m.si = st.innerSourceIndex → ∀ idx, findInner st m.ol m.oc = some idx → ((st.lineData.getD (m.ol.toNat - 1) {}).segs.getD idx default).src < 0) →
        PassSem (S ++ annS (combOnChunk cfg st chunk m).2) (N ++ annN (combOnChunk cfg st chunk m).2) OS st.nameIndexValueMapping chunk m m.si m.ol m.oc m.ni
          (combOnChunk cfg st chunk m).2
        ∧ (m.si = st.innerSourceIndex → cfg.remove = true → ∀ t mm, Ev.chunk t mm ∈ (combOnChunk cfg st chunk m).2 → mm.orig = none)) := by
  rw [combOnChunk_eq]
  have hni' : 0 ≤ m.ni → m.ni.toNat < st.nameIndexValueMapping.length := by
    intro h0
    unfold Mapping.ni at h0 ⊢
    cases hmo : m.orig with
    | none => rw [hmo] at h0; simp only at h0; omega
    | some o =>
      rw [hmo] at h0; simp only at h0 ⊢
      cases hon : o.name with
      | none => rw [hon] at h0; simp only at h0; omega
      | some n =>
        simp only [Int.toNat_natCast]
        exact hm o hmo n hon
  have hsi1 : -1 ≤ m.si := by
    unfold Mapping.si
    cases m.orig with
    | none => simp only; omega
    | some o => simp only; omega
  generalize m.si = si at hsi1 ⊢
  generalize m.ol = ol
  generalize m.oc = oc
  generalize m.ni = ni at hni' ⊢
  unfold combOnChunkI
  by_cases heq : si = st.innerSourceIndex
  · have hb : (si == st.innerSourceIndex) = true := by simpa using heq
    simp only [hb, if_true]
    have hin : 0 ≤ si ∧ OS[si.toNat]? = some cfg.innerName := by
      rcases h.isi with h2 | ⟨h2, h3⟩
      · omega
      · rw [heq]; exact ⟨h2, h3⟩
    have hno := combNoInner_ok cfg st S N OS h chunk m si ol oc ni hin.1 hin.2
    split
    · rename_i hfi
      exact ⟨fun idx _ hf => (by rw [hfi] at hf; cases hf), fun _ => ⟨hno.2.2.2.1, fun _ => hno.2.2.2.2⟩⟩
    · rename_i idx hfi
      obtain ⟨f1, f2⟩ := findInner_mem st ol oc idx hfi
      split
      · rename_i hge
        obtain ⟨g1, g2⟩ := h.segs _ f1 _ f2
        obtain ⟨c1, c2, c3, c4⟩ := combFound_ok cfg st S N OS h chunk m _ ((st.lineData.getD (ol.toNat - 1) {}).chunks.getD idx []) oc ni hge g1 g2 hni'
        refine ⟨fun idx' _ hf _ => ?_, fun hall => ?_⟩
        · rw [hfi] at hf; simp only [Option.some.injEq] at hf; subst hf; exact c4
        · have := hall heq idx hfi; omega
      · rename_i hlt
        refine ⟨fun idx' _ hf h0 => ?_, fun _ => ⟨hno.2.2.2.1, fun _ => hno.2.2.2.2⟩⟩
        rw [hfi] at hf; simp only [Option.some.injEq] at hf; subst hf; omega
  · have hb : (si == st.innerSourceIndex) = false := by simpa using heq
    simp only [hb, Bool.false_eq_true, if_false]
    obtain ⟨a1, a2, a3, a4⟩ := combPass_ok cfg st S N OS h chunk m si ol oc ni
    exact ⟨fun idx h1 => absurd h1 heq, fun _ => ⟨a4, fun h1 => absurd h1 heq⟩⟩

/-! ### recording the inner stream -/

theorem lmInsert_at_length {α} (d : α) (m : List α) (v : α) : lmInsert d m m.length v = m ++ [v] := by
  unfold lmInsert
  simp

theorem combInnerEv_inv (cfg : CombCfg) (st : CombSt) (S N OS : List Text) (h : KInv cfg st S N OS) (e : Ev) (ns nn : Nat) (es : List Ev)
    (hd : DeclOK ns nn (e :: es)) (hns : ns ≤ st.innerSourceIndexMapping.length) (hnn : nn ≤ st.innerNameIndexMapping.length) :
    KInv cfg (combInnerEv st e) S N OS
    ∧ (combInnerEv st e).nameIndexValueMapping = st.nameIndexValueMapping
    ∧ ∃ ns' nn', DeclOK ns' nn' es ∧ ns' ≤ (combInnerEv st e).innerSourceIndexMapping.length ∧ nn' ≤ (combInnerEv st e).innerNameIndexMapping.length := by
  cases e with
  | chunk text m =>
    refine ⟨?_, rfl, ns, nn, hd.2, hns, hnn⟩
    simp only [combInnerEv]
    refine { sm := h.sm, nm := h.nm, sim := h.sim, nim := h.nim, isim := h.isim, inim := h.inim, isi := h.isi, segs := ?_ }
    intro ld hld seg hseg
    simp only at hld
    -- the padded table
    have hpad : ∀ x ∈ (if st.lineData.length ≤ m.gl then st.lineData ++ List.replicate (m.gl + 1 - st.lineData.length) ({} : LineData) else st.lineData),
        x ∈ st.lineData ∨ x = {} := by
      intro x hx
      split at hx
      · rcases List.mem_append.1 hx with hx | hx
        · exact Or.inl hx
        · exact Or.inr (List.eq_of_mem_replicate hx)
      · exact Or.inl hx
    have hold : ∀ x, (x ∈ st.lineData ∨ x = ({} : LineData)) → ∀ sg ∈ x.segs, sg.src < st.innerSourceIndexMapping.length ∧ sg.name < st.innerNameIndexMapping.length := by
      intro x hx sg hsg
      rcases hx with hx | hx
      · exact h.segs x hx sg hsg
      · subst hx; simp at hsg
    rcases List.mem_or_eq_of_mem_set hld with hld | hld
    · exact hold ld (hpad ld hld) seg hseg
    · subst hld
      simp only at hseg
      rcases List.mem_append.1 hseg with hseg | hseg
      · refine hold _ ?_ seg hseg
        rw [List.getD_eq_getElem?_getD]
        cases hq : (if st.lineData.length ≤ m.gl then st.lineData ++ List.replicate (m.gl + 1 - st.lineData.length) ({} : LineData) else st.lineData)[m.gl - 1]? with
        | none => exact Or.inr rfl
        | some x => exact hpad x (List.mem_of_getElem? hq)
      · simp only [List.mem_singleton] at hseg
        subst hseg
        simp only
        cases hmo : m.orig with
        | none => simp only; constructor <;> omega
        | some o =>
          simp only
          have := hd.1 o hmo
          refine ⟨by omega, ?_⟩
          cases hon : o.name with
          | none => simp only; omega
          | some k => simp only; have := this.2 k hon; omega
  | source i source content =>
    obtain ⟨rfl, hd2⟩ := hd
    refine ⟨?_, rfl, i + 1, nn, hd2, ?_, hnn⟩
    · simp only [combInnerEv]
      refine { sm := h.sm, nm := h.nm, sim := h.sim, nim := h.nim, inim := h.inim, isi := h.isi, isim := ?_, segs := ?_ }
      · rw [lmInsert_map]
        exact tblSem_insert _ _ _ h.isim i hns (-2) source [] (Or.inl rfl)
      · intro ld hld seg hseg
        have := h.segs ld hld seg hseg
        refine ⟨?_, this.2⟩
        show seg.src < ((lmInsert 0 st.innerSourceIndexMapping i (-2)).length : Int)
        rw [lmInsert_length]; omega
    · show i + 1 ≤ (lmInsert 0 st.innerSourceIndexMapping i (-2)).length
      rw [lmInsert_length]; omega
  | name i name =>
    obtain ⟨rfl, hd2⟩ := hd
    refine ⟨?_, rfl, ns, i + 1, hd2, hns, ?_⟩
    · simp only [combInnerEv]
      refine { sm := h.sm, nm := h.nm, sim := h.sim, nim := h.nim, isim := h.isim, isi := h.isi, inim := ?_, segs := ?_ }
      · exact tblSem_insert _ _ _ h.inim i hnn (-2) name [] (Or.inl rfl)
      · intro ld hld seg hseg
        have := h.segs ld hld seg hseg
        refine ⟨this.1, ?_⟩
        show seg.name < ((lmInsert 0 st.innerNameIndexMapping i (-2)).length : Int)
        rw [lmInsert_length]; omega
    · show i + 1 ≤ (lmInsert 0 st.innerNameIndexMapping i (-2)).length
      rw [lmInsert_length]; omega

theorem innerFold_inv (cfg : CombCfg) (S N OS : List Text) : ∀ (evs : List Ev) (st : CombSt) (ns nn : Nat), KInv cfg st S N OS → DeclOK ns nn evs →
    ns ≤ st.innerSourceIndexMapping.length → nn ≤ st.innerNameIndexMapping.length →
    KInv cfg (evs.foldl combInnerEv st) S N OS ∧ (evs.foldl combInnerEv st).nameIndexValueMapping = st.nameIndexValueMapping := by
  intro evs
  induction evs with
  | nil => intro st ns nn h _ _ _; exact ⟨h, rfl⟩
  | cons e es ih =>
    intro st ns nn h hd hns hnn
    obtain ⟨a1, a2, ns', nn', a3, a4, a5⟩ := combInnerEv_inv cfg st S N OS h e ns nn es hd hns hnn
    obtain ⟨b1, b2⟩ := ih (combInnerEv st e) ns' nn' a1 a3 a4 a5
    exact ⟨b1, b2.trans a2⟩

/-! ### announcements of the outer stream -/

theorem combOnName_ok (cfg : CombCfg) (st : CombSt) (S N OS : List Text) (h : KInv cfg st S N OS) (n : Text) :
    KInv cfg (combOnName st st.nameIndexValueMapping.length n) S N OS
    ∧ (combOnName st st.nameIndexValueMapping.length n).nameIndexValueMapping = st.nameIndexValueMapping ++ [n] := by
  unfold combOnName
  refine ⟨{ sm := h.sm, nm := h.nm, sim := h.sim, isim := h.isim, inim := h.inim, isi := h.isi, segs := h.segs,
            nim := tblSem_insert _ _ _ h.nim _ (by rw [h.nim.1]; exact Nat.le_refl _) (-2) n [] (Or.inl rfl) }, ?_⟩
  exact lmInsert_at_length _ _ _

theorem combOnSource_ok (cfg : CombCfg) (hI : MapIdxOK cfg.innerMap) (st : CombSt) (S N OS : List Text) (h : KInv cfg st S N OS) (source : Text) (content : Option Text) :
    DeclOK S.length N.length (combOnSource cfg st OS.length source content).2
    ∧ annN (combOnSource cfg st OS.length source content).2 = []
    ∧ (∀ t mm, Ev.chunk t mm ∉ (combOnSource cfg st OS.length source content).2)
    ∧ KInv cfg (combOnSource cfg st OS.length source content).1 (S ++ annS (combOnSource cfg st OS.length source content).2) N (OS ++ [source])
    ∧ (combOnSource cfg st OS.length source content).1.nameIndexValueMapping = st.nameIndexValueMapping := by
  have hlen : OS.length = st.sourceIndexMapping.length := h.sim.1.symm
  have hisi' : st.innerSourceIndex = -2 ∨ (0 ≤ st.innerSourceIndex ∧ (OS ++ [source])[st.innerSourceIndex.toNat]? = some cfg.innerName) := by
    rcases h.isi with h1 | ⟨h1, h2⟩
    · exact Or.inl h1
    · exact Or.inr ⟨h1, by rw [List.getElem?_append_left (List.getElem?_eq_some_iff.1 h2).1]; exact h2⟩
  unfold combOnSource
  by_cases hs : (source == cfg.innerName) = true
  · simp only [hs, if_true, annS, annN, List.append_nil]
    have hsrc : source = cfg.innerName := by simpa using hs
    have h1 : KInv cfg { st with innerSourceIndex := (OS.length : Int)
                                 innerSource := st.innerSource.or content
                                 sourceIndexMapping := lmInsert 0 st.sourceIndexMapping OS.length (-2) } S N (OS ++ [source]) :=
      { sm := h.sm, nm := h.nm, nim := h.nim, isim := h.isim, inim := h.inim, segs := h.segs,
        sim := by
          have := tblSem_insert _ _ _ h.sim OS.length (by rw [hlen]; exact Nat.le_refl _) (-2) source [] (Or.inl rfl)
          rw [lmInsert_at_length [] OS source] at this
          exact this
        isi := Or.inr ⟨by simp only; omega, by simp only [Int.toNat_natCast]; rw [hsrc]; simp⟩ }
    have hd := streamSM_declOK ((st.innerSource.or content).getD []) cfg.innerMap ⟨cfg.columns, false⟩ hI
    obtain ⟨b1, b2⟩ := innerFold_inv cfg S N (OS ++ [source]) _ _ 0 0 h1 hd (Nat.zero_le _) (Nat.zero_le _)
    exact ⟨trivial, (by first | rfl | trivial), fun t mm hm => (by simp at hm), b1, b2⟩
  · simp only [hs, Bool.false_eq_true, if_false]
    obtain ⟨n1, n2, n3, n4⟩ := globalSource_spec S source content N.length
    have hnc := globalSource_noChunkMem S.zipIdx source content
    rw [h.sm] at *
    generalize globalSource S.zipIdx source content = r at n1 n2 n3 n4 hnc
    refine ⟨n2, n3, hnc, ?_, (by first | rfl | trivial)⟩
    exact { sm := n1, nm := h.nm, nim := h.nim, isim := tblSem_mono _ _ _ _ h.isim, inim := h.inim, segs := h.segs, isi := hisi',
            sim := by
              have := tblSem_insert _ _ _ (tblSem_mono _ _ _ (annS r.2.1) h.sim) OS.length (by rw [hlen]; exact Nat.le_refl _) (r.2.2 : Int) source []
                (Or.inr (Or.inr ⟨by omega, by simp only [Int.toNat_natCast]; exact n4⟩))
              rw [lmInsert_at_length [] OS source] at this
              exact this }

/-! ### the whole outer stream -/

/-- the record kept for every delivered chunk: the outer chunk it came from, and the state and tables at that moment -/
def ChunkAt (cfg : CombCfg) (evs : List Ev) (Sf Nf OSf ONf : List Text) (t' : Option Text) (mm : Mapping) : Prop :=
  ∃ t m st' S' N' OS' out, Ev.chunk t m ∈ evs ∧ Ev.chunk t' mm ∈ out ∧ (∃ S0 N0, KInv cfg st' S0 N0 OS')
    ∧ S' <+: Sf ∧ N' <+: Nf ∧ OS' <+: OSf ∧ st'.nameIndexValueMapping <+: ONf ∧ ChunkSem st' S' N' OS' t m out

theorem combFold_ok (cfg : CombCfg) (hI : MapIdxOK cfg.innerMap) : ∀ (evs : List Ev) (st : CombSt) (S N OS : List Text),
    KInv cfg st S N OS → DeclOK OS.length st.nameIndexValueMapping.length evs →
    DeclOK S.length N.length (combFold cfg st evs)
    ∧ ∀ t' mm, Ev.chunk t' mm ∈ combFold cfg st evs →
        ChunkAt cfg evs (S ++ annS (combFold cfg st evs)) (N ++ annN (combFold cfg st evs)) (OS ++ annS evs) (st.nameIndexValueMapping ++ annN evs) t' mm := by
  intro evs
  induction evs with
  | nil => intro st S N OS _ _; exact ⟨trivial, fun t' mm hm => (by simp [combFold] at hm)⟩
  | cons e es ih =>
    intro st S N OS h hd
    simp only [combFold]
    cases e with
    | chunk text m =>
      simp only [combStep]
      obtain ⟨a1, a2, a3, a4⟩ := combOnChunk_ok cfg st S N OS h text m (fun o ho k hk => (hd.1 o ho).2 k hk)
      generalize combOnChunk cfg st text m = r at a1 a2 a3 a4
      obtain ⟨i1, i2⟩ := ih r.1 (S ++ annS r.2) (N ++ annN r.2) OS a2 (by rw [a3]; exact hd.2)
      refine ⟨(declOK_append _ _ _ _).2 ⟨a1, by simpa [← annS_length, ← annN_length] using i1⟩, ?_⟩
      intro t' mm hm
      simp only [annS_append, annN_append, annS, annN, ← List.append_assoc]
      rcases List.mem_append.1 hm with hm | hm
      · exact ⟨text, m, st, S ++ annS r.2, N ++ annN r.2, OS, r.2, by simp, hm, ⟨S, N, h⟩, List.prefix_append _ _, List.prefix_append _ _,
          List.prefix_append _ _, List.prefix_append _ _, a4⟩
      · obtain ⟨t, m', st', S', N', OS', out, b1, b2, b3, b4, b5, b6, b7, b8⟩ := i2 t' mm hm
        rw [a3] at b7
        exact ⟨t, m', st', S', N', OS', out, List.mem_cons_of_mem _ b1, b2, b3, b4, b5, b6, b7, b8⟩
    | source i s c =>
      obtain ⟨rfl, hd2⟩ := hd
      simp only [combStep]
      obtain ⟨a1, a2, a3, a4, a5⟩ := combOnSource_ok cfg hI st S N OS h s c
      generalize combOnSource cfg st OS.length s c = r at a1 a2 a3 a4 a5
      obtain ⟨i1, i2⟩ := ih r.1 (S ++ annS r.2) N (OS ++ [s]) a4 (by rw [a5, List.length_append]; exact hd2)
      have hN : N.length + cntN r.2 = N.length := by rw [← annN_length, a2]; rfl
      refine ⟨(declOK_append _ _ _ _).2 ⟨a1, by rw [hN, ← annS_length, ← List.length_append]; exact i1⟩, ?_⟩
      intro t' mm hm
      simp only [annS_append, annN_append, annS, annN, a2, List.nil_append, ← List.append_assoc]
      rcases List.mem_append.1 hm with hm | hm
      · exact absurd hm (a3 t' mm)
      · obtain ⟨t, m', st', S', N', OS', out, b1, b2, b3, b4, b5, b6, b7, b8⟩ := i2 t' mm hm
        rw [a5] at b7
        refine ⟨t, m', st', S', N', OS', out, List.mem_cons_of_mem _ b1, b2, b3, b4, b5, ?_, b7, b8⟩
        simpa using b6
    | name i n =>
      obtain ⟨rfl, hd2⟩ := hd
      simp only [combStep, List.nil_append]
      obtain ⟨a1, a2⟩ := combOnName_ok cfg st S N OS h n
      obtain ⟨i1, i2⟩ := ih _ S N OS a1 (by rw [a2, List.length_append]; exact hd2)
      refine ⟨i1, ?_⟩
      intro t' mm hm
      simp only [annS, annN]
      obtain ⟨t, m', st', S', N', OS', out, b1, b2, b3, b4, b5, b6, b7, b8⟩ := i2 t' mm hm
      rw [a2] at b7
      refine ⟨t, m', st', S', N', OS', out, List.mem_cons_of_mem _ b1, b2, b3, b4, b5, b6, ?_, b8⟩
      simpa using b7

theorem kinv_init (cfg : CombCfg) (os : Option Text) : KInv cfg { innerSource := os } [] [] [] :=
  { sm := rfl, nm := rfl, sim := tblSem_nil _, nim := tblSem_nil _, isim := tblSem_nil _, inim := tblSem_nil _,
    segs := fun ld hld => (by simp at hld), isi := Or.inl rfl }

/-- **C11, stream clause for the combinator**: the stream of a SourceMapSource with an inner map announces sources and names densely
from zero, each once, and every chunk uses only indices announced before it — for all four modes, whenever the two attached maps
reference existing entries of their own tables -/
theorem streamCombined_declOK (t : Text) (sm : SMap) (n : Text) (os : Option Text) (im : SMap) (rm : Bool) (o : Opts)
    (h1 : MapIdxOK sm) (h2 : MapIdxOK im) : DeclOK 0 0 (streamCombined t sm n os im rm o).evs := by
  simp only [streamCombined]
  exact (combFold_ok ⟨t, n, im, rm, o.columns⟩ h2 _ _ [] [] [] (kinv_init _ os) (streamSM_declOK t sm o h1)).1

theorem prefix_get {α} (a b : List α) (h : a <+: b) (i : Nat) (x : α) (hx : a[i]? = some x) : b[i]? = some x := by
  obtain ⟨r, rfl⟩ := h
  rw [List.getElem?_append_left (List.getElem?_eq_some_iff.1 hx).1]; exact hx

/-- **C09, pass-through and fall-back at name level**: every chunk the combinator delivers comes from one chunk of the outer map's
stream, with the same text at the same generated position.  Unless it was composed with a segment of the inner map (second
alternative), a mapped chunk names — through the announcements of the combined stream — the *same file* as the outer chunk does
through the outer stream's announcements, at the same original line and column, and a name it carries is the outer chunk's name.
For an outer chunk that points into the inner source this is the "attributed to the inner source itself" clause. -/
theorem streamCombined_pass (t : Text) (sm : SMap) (n : Text) (os : Option Text) (im : SMap) (rm : Bool) (o : Opts)
    (h1 : MapIdxOK sm) (h2 : MapIdxOK im) :
    ∀ t' mm, Ev.chunk t' mm ∈ (streamCombined t sm n os im rm o).evs →
      ∃ m, Ev.chunk t' m ∈ (streamSM t sm o).evs ∧ mm.gl = m.gl ∧ mm.gc = m.gc ∧
        ((∀ y, mm.orig = some y → ∃ a, m.orig = some a
            ∧ (annS (streamCombined t sm n os im rm o).evs)[y.src]? = (annS (streamSM t sm o).evs)[a.src]? ∧ a.src < (annS (streamSM t sm o).evs).length
            ∧ y.line = a.line ∧ y.col = a.col
            ∧ ∀ k, y.name = some k → ∃ k', a.name = some k' ∧ (annN (streamCombined t sm n os im rm o).evs)[k]? = (annN (streamSM t sm o).evs)[k']?
                ∧ k' < (annN (streamSM t sm o).evs).length)
         ∨ (∃ (a : Orig) (seg : InnerSeg), m.orig = some a ∧ (annS (streamSM t sm o).evs)[a.src]? = some n ∧ 0 ≤ seg.src ∧ ∀ y, mm.orig = some y →
              y.line = seg.line.toNat ∧ (y.col = seg.col.toNat ∨ (seg.gc < a.col ∧ y.col = (seg.col + ((a.col : Int) - seg.gc)).toNat)))) := by
  intro t' mm hmem
  simp only [streamCombined] at hmem ⊢
  obtain ⟨tt, m, st', S', N', OS', out, b1, b2, ⟨S0, N0, b3⟩, b4, b5, b6, b7, b8⟩ :=
    (combFold_ok ⟨t, n, im, rm, o.columns⟩ h2 _ _ [] [] [] (kinv_init _ os) (streamSM_declOK t sm o h1)).2 t' mm hmem
  simp only [List.nil_append] at b4 b5 b6 b7
  rcases b8 with hp | ⟨seg, idx, hs0, hsi, _, _, hf⟩
  · obtain ⟨e1, e2, e3, e4⟩ := hp t' mm b2
    subst e1
    refine ⟨m, b1, e2, e3, Or.inl ?_⟩
    intro y hy
    obtain ⟨q1, q2, q3, q4, q5, q6⟩ := e4 y hy
    cases hmo : m.orig with
    | none => simp only [Mapping.si, hmo] at q1; omega
    | some a =>
      simp only [Mapping.si, Mapping.ol, Mapping.oc, Mapping.ni, hmo, Int.toNat_natCast] at q1 q2 q3 q4 q5 q6
      refine ⟨a, rfl, ?_, ?_, q4, q5, ?_⟩
      · rw [List.getElem?_eq_getElem q3] at q2
        rw [prefix_get _ _ b4 _ _ q2, prefix_get _ _ b6 _ _ (List.getElem?_eq_getElem q3)]
      · exact Nat.lt_of_lt_of_le q3 b6.length_le
      · intro k hk
        obtain ⟨r1, r2, r3⟩ := q6 k hk
        cases hon : a.name with
        | none => simp only [hon] at r1; omega
        | some k' =>
          simp only [hon, Int.toNat_natCast] at r2 r3
          refine ⟨k', rfl, ?_, Nat.lt_of_lt_of_le r3 b7.length_le⟩
          rw [List.getElem?_eq_getElem r3] at r2
          rw [prefix_get _ _ b5 _ _ r2, prefix_get _ _ b7 _ _ (List.getElem?_eq_getElem r3)]
  · obtain ⟨e1, e2, e3, e4⟩ := hf t' mm b2
    subst e1
    refine ⟨m, b1, e2, e3, Or.inr ?_⟩
    have hsi1 : -1 ≤ m.si := by
      unfold Mapping.si
      cases m.orig with
      | none => simp only; omega
      | some a => simp only; omega
    rcases b3.isi with h0 | ⟨h0, h0'⟩
    · omega
    · cases hmo : m.orig with
      | none => simp only [Mapping.si, hmo] at hsi; omega
      | some a =>
        simp only [Mapping.si, hmo] at hsi
        rw [← hsi] at h0'
        simp only [Int.toNat_natCast] at h0'
        refine ⟨a, seg, rfl, prefix_get _ _ b6 _ _ h0', hs0, fun y hy => ?_⟩
        obtain ⟨_, _, q3, q4, _⟩ := e4 y hy
        simp only [Mapping.oc, hmo] at q4
        refine ⟨q3, ?_⟩
        rcases q4 with q4 | ⟨q4, q5⟩
        · exact Or.inl q4
        · exact Or.inr ⟨by omega, q5⟩

end Rs
