import RsModel.Lemmas.CombCompose
import RsModel.Lemmas.CombModesL
/-!
# C09, columns = false: composition at (file, line) granularity

With `columns = false` both the outer and the inner map are streamed by the line-granular splitter: one chunk per generated line,
at column 0, mapped to the line's first mapped segment (names dropped).  The combinator then finds, for an outer chunk that points
into the inner source at inner line `L`, the one segment recorded for line `L`.
-/
namespace Rs

/-- one chunk per line: generated lines strictly increase, every chunk stands at column 0, from line `lo` on -/
def LineChunks (lo : Nat) (ms : List Mapping) : Prop :=
  ms.Pairwise (fun a b => a.gl < b.gl) ∧ ∀ m ∈ ms, lo ≤ m.gl ∧ m.gc = 0

theorem lineChunks_nil (lo : Nat) : LineChunks lo [] := ⟨List.Pairwise.nil, fun m h => (by simp at h)⟩

theorem lineChunks_mono (lo lo' : Nat) (ms : List Mapping) (h : LineChunks lo ms) (hl : lo' ≤ lo) : LineChunks lo' ms :=
  ⟨h.1, fun m hm => ⟨by have := (h.2 m hm).1; omega, (h.2 m hm).2⟩⟩

/-- `a` lies on lines `[lo, hi)`, `b` from `hi` on -/
theorem lineChunks_append (lo hi : Nat) (hlh : lo ≤ hi) (a b : List Mapping) (ha : LineChunks lo a) (hah : ∀ m ∈ a, m.gl < hi) (hb : LineChunks hi b) :
    LineChunks lo (a ++ b) := by
  refine ⟨List.pairwise_append.2 ⟨ha.1, hb.1, fun x hx y hy => ?_⟩, fun m hm => ?_⟩
  · have := hah x hx; have := (hb.2 y hy).1; omega
  · rcases List.mem_append.1 hm with h | h
    · exact ha.2 m h
    · exact ⟨by have := (hb.2 m h).1; omega, (hb.2 m h).2⟩

theorem wholeLines_lineChunks (lines : List Text) : ∀ (n a : Nat),
    LineChunks a (chunkMs (smWholeLines lines a (a + n))) ∧ ∀ m ∈ chunkMs (smWholeLines lines a (a + n)), m.gl < a + n := by
  intro n
  induction n with
  | zero => intro a; rw [smWholeLines_nil lines a (a + 0) (by omega)]; exact ⟨lineChunks_nil a, fun m h => (by simp [chunkMs] at h)⟩
  | succ n ih =>
    intro a
    rw [smWholeLines_step lines a (a + (n + 1)) (by omega)]
    have e : a + (n + 1) = a + 1 + n := by omega
    rw [e]
    obtain ⟨i1, i2⟩ := ih (a + 1)
    rw [chunkMs_app]
    have hhead : LineChunks a (chunkMs (if a ≤ lines.length then [Ev.chunk (some (lines.getD (a - 1) [])) ⟨a, 0, none⟩] else []))
        ∧ ∀ m ∈ chunkMs (if a ≤ lines.length then [Ev.chunk (some (lines.getD (a - 1) [])) ⟨a, 0, none⟩] else []), m.gl < a + 1 := by
      split
      · simp only [chunkMs]
        exact ⟨⟨List.pairwise_singleton _ _, fun m hm => by simp only [List.mem_singleton] at hm; subst hm; exact ⟨Nat.le_refl _, rfl⟩⟩,
          fun m hm => by simp only [List.mem_singleton] at hm; subst hm; simp only; omega⟩
      · simp only [chunkMs]
        exact ⟨lineChunks_nil a, fun m hm => (by simp at hm)⟩
    refine ⟨lineChunks_append a (a + 1) (by omega) _ _ hhead.1 hhead.2 i1, fun m hm => ?_⟩
    rcases List.mem_append.1 hm with h | h
    · have := hhead.2 m h; omega
    · exact i2 m h

theorem wholeLines_lineChunks' (lines : List Text) (a b : Nat) :
    LineChunks a (chunkMs (smWholeLines lines a b)) ∧ ∀ m ∈ chunkMs (smWholeLines lines a b), m.gl < b := by
  by_cases h : b ≤ a
  · rw [smWholeLines_nil lines a b h]; exact ⟨lineChunks_nil a, fun m hm => (by simp [chunkMs] at hm)⟩
  · have e : b = a + (b - a) := by omega
    rw [e]; exact wholeLines_lineChunks lines (b - a) a

theorem linesFullGo_lineChunks (lines : List Text) : ∀ (ms : List Mapping) (cur : Nat),
    LineChunks cur (chunkMs (smLinesFullGo lines cur ms).1) ∧ (∀ m ∈ chunkMs (smLinesFullGo lines cur ms).1, m.gl < (smLinesFullGo lines cur ms).2)
    ∧ cur ≤ (smLinesFullGo lines cur ms).2 := by
  intro ms
  induction ms with
  | nil => intro cur; simp only [smLinesFullGo, chunkMs]; exact ⟨lineChunks_nil cur, fun m hm => (by simp at hm), Nat.le_refl _⟩
  | cons y ys ih =>
    intro cur
    simp only [smLinesFullGo]
    split
    · exact ih cur
    · split
      · exact ih cur
      · rename_i o hyo hns
        simp only [Bool.or_eq_true, decide_eq_true_eq, not_or, Nat.not_lt] at hns
        have hmax : max cur y.gl = y.gl := by omega
        simp only [hmax]
        obtain ⟨i1, i2, i3⟩ := ih (y.gl + 1)
        obtain ⟨w1, w2⟩ := wholeLines_lineChunks' lines cur y.gl
        simp only [chunkMs_app, chunkMs]
        have htail : LineChunks y.gl (⟨y.gl, 0, some { o with name := none }⟩ :: chunkMs (smLinesFullGo lines (y.gl + 1) ys).1) := by
          have := lineChunks_append y.gl (y.gl + 1) (by omega) [⟨y.gl, 0, some { o with name := none }⟩] _
            ⟨List.pairwise_singleton _ _, fun m hm => by simp only [List.mem_singleton] at hm; subst hm; exact ⟨Nat.le_refl _, rfl⟩⟩
            (fun m hm => by simp only [List.mem_singleton] at hm; subst hm; simp only; omega) i1
          simpa using this
        refine ⟨lineChunks_append cur y.gl hns.1 _ _ w1 w2 htail, fun m hm => ?_, by omega⟩
        rcases List.mem_append.1 hm with h | h
        · have := w2 m h; omega
        · simp only [List.mem_cons] at h
          rcases h with rfl | h
          · simp only; omega
          · exact i2 m h

/-- the normal-mode line-granular stream of a SourceMapSource leaf: one chunk per line, at column 0 -/
theorem streamSMLinesFull_lineChunks (t : Text) (sm : SMap) : LineChunks 1 (chunkMs (streamSM t sm ⟨false, false⟩).evs) := by
  simp only [streamSM]
  unfold streamSMLinesFull
  dsimp only
  split
  · simp only [chunkMs]; exact lineChunks_nil 1
  · simp only [chunkMs_app, chunkMs_smSourceEvs, List.nil_append]
    obtain ⟨g1, g2, g3⟩ := linesFullGo_lineChunks (splitLines t) (decode sm.mappings) 1
    obtain ⟨w1, _⟩ := wholeLines_lineChunks' (splitLines t) (smLinesFullGo (splitLines t) 1 (decode sm.mappings)).2 ((splitLines t).length + 1)
    exact lineChunks_append 1 _ g3 _ _ g1 g2 w1

/-! ### lookups among one-chunk-per-line mappings -/

theorem lineChunks_tail (lo : Nat) (m : Mapping) (ms : List Mapping) (h : LineChunks lo (m :: ms)) : LineChunks (m.gl + 1) ms := by
  obtain ⟨p1, p2⟩ := h
  obtain ⟨q1, q2⟩ := List.pairwise_cons.1 p1
  exact ⟨q2, fun x hx => ⟨by have := q1 x hx; omega, (p2 x (List.mem_cons_of_mem _ hx)).2⟩⟩

theorem lineChunks_lookupGo (L C : Nat) : ∀ (ms : List Mapping) (lo : Nat), LineChunks lo ms →
    lookupGo L C none ms = (ms.find? (fun m => m.gl == L)).map (·.orig) := by
  intro ms
  induction ms with
  | nil => intro lo _; rfl
  | cons m ms ih =>
    intro lo h
    have ht := lineChunks_tail lo m ms h
    simp only [lookupGo, List.find?_cons]
    by_cases hm : m.gl = L
    · have hgc : m.gc = 0 := (h.2 m (by simp)).2
      have hc : m.gl = L ∧ m.gc ≤ C := ⟨hm, by omega⟩
      simp only [hc, and_self, if_true, hm, beq_self_eq_true, Option.map_some]
      exact lookupGo_skip L C ms _ (fun x hx hq => by have := (ht.2 x hx).1; omega)
    · have hc : ¬ (m.gl = L ∧ m.gc ≤ C) := fun q => hm q.1
      have hb : (m.gl == L) = false := by simpa using hm
      simp only [hc, if_false, hb]
      exact ih _ ht

theorem lineChunks_lookupLines (L : Nat) : ∀ (ms : List Mapping) (lo : Nat), LineChunks lo ms →
    lookupLines ms L = ((ms.find? (fun m => m.gl == L)).bind (·.orig)).map (fun o => (o.src, o.line)) := by
  intro ms
  induction ms with
  | nil => intro lo _; rfl
  | cons m ms ih =>
    intro lo h
    have ht := lineChunks_tail lo m ms h
    have ih' := ih _ ht
    unfold lookupLines at ih' ⊢
    simp only [List.find?_cons]
    by_cases hm : m.gl = L
    · simp only [hm, beq_self_eq_true, Bool.true_and, Option.bind_some]
      cases ho : m.orig with
      | some o => simp; exact ⟨o, ho, rfl, rfl⟩
      | none =>
        simp only [Option.isSome_none, Bool.false_eq_true, if_false, Option.map_none]
        have : ms.find? (fun m => m.gl == L && m.orig.isSome) = none := by
          rw [List.find?_eq_none]
          intro x hx hq
          have := (ht.2 x hx).1
          simp only [Bool.and_eq_true, beq_iff_eq] at hq
          omega
        rw [this]
    · have hb : (m.gl == L) = false := by simpa using hm
      simp only [hb, Bool.false_and, Bool.false_eq_true, if_false]
      exact ih'

/-! ### the search in terms of the inner map, line-granular -/

theorem lineChunks_mle (lo : Nat) (ms : List Mapping) (h : LineChunks lo ms) : ms.Pairwise mle :=
  h.1.imp (fun hab => Or.inl hab)

theorem findInner_innerLines (st : CombSt) (Tin : Text) (Min : SMap) (hs : sortedFrom 1 0 (decode Min.mappings))
    (hrec : ∀ L, 1 ≤ L → segsAt st.lineData L = ((chunkMs (streamSM Tin Min ⟨false, false⟩).evs).filter fun x => x.gl == L).map toSeg)
    (L C : Nat) (h1 : 1 ≤ L) (hL : L ≤ (splitLines Tin).length) :
    (∀ p, lookupLines (decode Min.mappings) L = some p →
      ∃ idx mm' o', findInner st L C = some idx ∧ (st.lineData.getD (L - 1) {}).segs.getD idx default = toSeg mm' ∧ mm'.orig = some o' ∧ (o'.src, o'.line) = p)
    ∧ (lookupLines (decode Min.mappings) L = none →
        ∀ idx, findInner st L C = some idx → ((st.lineData.getD (L - 1) {}).segs.getD idx default).src < 0) := by
  have hlc := streamSMLinesFull_lineChunks Tin Min
  have hpw := lineChunks_mle 1 _ hlc
  have hc08 : lookupLines (chunkMs (streamSM Tin Min ⟨false, false⟩).evs) L = lookupLines (decode Min.mappings) L := by
    simp only [streamSM]; exact streamSMLinesFull_lines Tin Min hs L h1 hL
  have hgo := lineChunks_lookupGo L C _ 1 hlc
  have hll := lineChunks_lookupLines L _ 1 hlc
  have hlen : st.lineData.length < L → ((chunkMs (streamSM Tin Min ⟨false, false⟩).evs).filter fun x => x.gl == L) = [] := by
    intro hlt
    have := hrec L h1
    unfold segsAt at this
    rw [List.getD_eq_getElem?_getD, List.getElem?_eq_none (by omega)] at this
    simp only [Option.getD_none] at this
    exact List.map_eq_nil_iff.1 this.symm
  have hfind := findInner_lookup st _ hpw L C h1 (hrec L h1) hlen
  rw [← hc08, hll]
  generalize (chunkMs (streamSM Tin Min ⟨false, false⟩).evs).find? (fun m => m.gl == L) = fo at hgo ⊢
  constructor
  · intro p hp
    cases hf : findInner st L C with
    | none =>
      rw [hf] at hfind
      simp only at hfind
      rw [hgo] at hfind
      cases fo with
      | none => simp at hp
      | some x => simp at hfind
    | some idx =>
      rw [hf] at hfind
      obtain ⟨_, hsegeq, hlook⟩ := hfind
      rw [hgo] at hlook
      cases fo with
      | none => simp at hp
      | some x =>
        simp only [Option.map_some, Option.some.injEq] at hlook
        simp only [Option.bind_some] at hp
        cases hxo : x.orig with
        | none => rw [hxo] at hp; simp at hp
        | some o' =>
          rw [hxo] at hp hlook
          simp only [Option.map_some, Option.some.injEq] at hp
          have hd : (default : LineData) = {} := rfl
          exact ⟨idx, _, o', rfl, by rw [← hd]; exact hsegeq, hlook.symm, hp⟩
  · intro hnone idx hf
    rw [hf] at hfind
    obtain ⟨_, hsegeq, hlook⟩ := hfind
    rw [hgo] at hlook
    have hd : (default : LineData) = {} := rfl
    rw [← hd, hsegeq]
    cases fo with
    | none => simp at hlook
    | some x =>
      simp only [Option.map_some, Option.some.injEq] at hlook
      simp only [Option.bind_some] at hnone
      cases hxo : x.orig with
      | some o' => rw [hxo] at hnone; simp at hnone
      | none =>
        rw [hxo] at hlook
        simp only [toSeg, ← hlook]
        omega

/-- **C09, composition, whole stream, columns = false** ((file, line) granularity).  Every chunk of the combined stream comes from one
chunk of the outer map's (line-granular) stream, with the same text at the same generated position.  When that outer chunk points
into the inner source at a line `L` of the inner text:
* if the inner map has a mapped segment on generated line `L` — the first one, `p` = (source index, original line) — a mapped
  delivered chunk names the file the inner map's own stream announces under `p.1`, at original line `p.2`;
* otherwise the chunk is unmapped when removal is requested, and else names the inner source itself at the outer location. -/
theorem streamCombined_composeL (t : Text) (sm : SMap) (n : Text) (os : Option Text) (im : SMap) (rm : Bool) (Tin : Text)
    (h1 : MapIdxOK sm) (h2 : MapIdxOK im) (honce : OnceInner n (smSourceEvs sm))
    (hTin : ∀ k c, Ev.source k n c ∈ smSourceEvs sm → (os.or c).getD [] = Tin)
    (hs : sortedFrom 1 0 (decode im.mappings)) :
    ∀ t' mm, Ev.chunk t' mm ∈ (streamCombined t sm n os im rm ⟨false, false⟩).evs →
      ∃ m, Ev.chunk t' m ∈ (streamSM t sm ⟨false, false⟩).evs ∧ mm.gl = m.gl ∧ mm.gc = m.gc ∧
        ∀ a, m.orig = some a → (annS (streamSM t sm ⟨false, false⟩).evs)[a.src]? = some n → 1 ≤ a.line → a.line ≤ (splitLines Tin).length →
          (∀ p, lookupLines (decode im.mappings) a.line = some p → ∀ y, mm.orig = some y →
              (annS (streamCombined t sm n os im rm ⟨false, false⟩).evs)[y.src]? = (annS (streamSM Tin im ⟨false, false⟩).evs)[p.1]?
              ∧ p.1 < (annS (streamSM Tin im ⟨false, false⟩).evs).length ∧ y.line = p.2)
          ∧ (lookupLines (decode im.mappings) a.line = none →
              (rm = true → mm.orig = none)
              ∧ ∀ y, mm.orig = some y → (annS (streamCombined t sm n os im rm ⟨false, false⟩).evs)[y.src]? = some n ∧ y.line = a.line ∧ y.col = a.col) := by
  intro t' mm hmem
  simp only [streamCombined] at hmem ⊢
  rcases streamSM_linesShape t sm with ⟨_, e0⟩ | ⟨CF, C, _, eN, _, cN, _⟩
  · rw [e0] at hmem; simp [combFold] at hmem
  · have hP : ∀ e ∈ smSourceEvs sm, e.isChunk = false := smSourceEvs_nochunk sm
    have hdecl := streamSM_declOK t sm ⟨false, false⟩ h1
    rw [eN] at hmem hdecl ⊢
    generalize hcfg : ({ genText := t, innerName := n, innerMap := im, remove := rm, columns := false } : CombCfg) = cfg at hmem ⊢
    have hcn : cfg.innerName = n := by rw [← hcfg]
    have hci : cfg.innerMap = im := by rw [← hcfg]
    have hcc : cfg.columns = false := by rw [← hcfg]
    have hcr : cfg.remove = rm := by rw [← hcfg]
    have hlc := streamSMLinesFull_lineChunks Tin im
    obtain ⟨m, st', S0, N0, k, c, b1, hgl', hgc', b2, hR', b4, hkn, b5, b6, b7, hmd⟩ :=
      comb_chunk_at cfg (by rw [hci]; exact h2) os (smSourceEvs sm) C Tin hP cN hdecl (by rw [hcn]; exact honce)
        (fun k c hk => hTin k c (by rw [hcn] at hk; exact hk))
        (by rw [hci, hcc]; exact fun m hm => (hlc.2 m hm).1) t' mm hmem
    rw [hci, hcc] at hR'
    rw [hcn] at hkn
    obtain ⟨sem1, sem2⟩ := combOnChunk_sem cfg st' S0 N0 (annS (smSourceEvs sm)) b2 t' m hmd
    refine ⟨m, List.mem_append_right _ b1, hgl', hgc', ?_⟩
    intro a hmo hOS hl1 hl2
    rw [annS_append, annS_chunks C cN, List.append_nil] at hOS
    have hisi : st'.innerSourceIndex = (k : Int) := hR'.isi
    have hak : a.src = k := onceInner_unique n _ honce a.src k hOS hkn
    have hsi : m.si = st'.innerSourceIndex := by rw [hisi]; simp [Mapping.si, hmo, hak]
    have hol : m.ol = (a.line : Int) := by simp [Mapping.ol, hmo]
    have hoc : m.oc = (a.col : Int) := by simp [Mapping.oc, hmo]
    have hsi' : m.si = (a.src : Int) := by simp [Mapping.si, hmo]
    obtain ⟨F1, F2⟩ := findInner_innerLines st' Tin im hs hR'.segs a.line a.col hl1 hl2
    have hol2 : m.ol.toNat - 1 = a.line - 1 := by rw [hol]; simp
    constructor
    · intro p hp y hy
      obtain ⟨idx, mm', o', hfi, hsegeq, hmm', hpe⟩ := F1 p hp
      have hfi' : findInner st' m.ol m.oc = some idx := by rw [hol, hoc]; exact hfi
      have hsrc : ((st'.lineData.getD (m.ol.toNat - 1) {}).segs.getD idx default) = toSeg mm' := by rw [hol2]; exact hsegeq
      have hge : 0 ≤ ((st'.lineData.getD (m.ol.toNat - 1) {}).segs.getD idx default).src := by
        rw [hsrc]; simp only [toSeg, hmm']; omega
      have hf := sem1 idx hsi hfi' hge
      rw [hsrc] at hf
      obtain ⟨_, _, _, q⟩ := hf _ mm b5
      obtain ⟨q1, q2, q3, _, _⟩ := q y hy
      simp only [toSeg, hmm', Int.toNat_natCast] at q1 q2 q3
      rw [hR'.srcs] at q1
      have hlen : o'.src < (annS (streamSM Tin im ⟨false, false⟩).evs).length := by
        have := hR'.srcs
        have hl3 : (st'.innerSourceIndexValueMapping.map (·.1)).length = st'.innerSourceIndexValueMapping.length := by simp
        rw [this] at hl3
        omega
      have hp1 : p.1 = o'.src := by rw [← hpe]
      have hp2 : p.2 = o'.line := by rw [← hpe]
      rw [hp1, hp2]
      refine ⟨?_, hlen, q3⟩
      rw [List.getElem?_eq_getElem hlen] at q1 ⊢
      exact prefix_get _ _ b6 _ _ q1
    · intro hnone
      have hno : m.si = st'.innerSourceIndex → ∀ idx, findInner st' m.ol m.oc = some idx →
          ((st'.lineData.getD (m.ol.toNat - 1) {}).segs.getD idx default).src < 0 := by
        intro _ idx hf
        rw [hol, hoc] at hf
        rw [hol2]
        exact F2 hnone idx hf
      obtain ⟨hpass, hrem⟩ := sem2 hno
      refine ⟨fun hr => hrem hsi (by rw [hcr]; exact hr) _ mm b5, fun y hy => ?_⟩
      obtain ⟨_, _, _, q⟩ := hpass _ mm b5
      obtain ⟨_, q2, _, q4, q5, _⟩ := q y hy
      rw [hsi'] at q2
      simp only [Int.toNat_natCast] at q2
      rw [hOS] at q2
      refine ⟨prefix_get _ _ b6 _ _ q2, ?_, ?_⟩
      · rw [hol] at q4; simpa using q4
      · rw [hoc] at q5; simpa using q5

/-- **C09, contents, columns = false**: as for `columns = true`, every reported file carries a matching content -/
theorem streamCombined_contentsL (t : Text) (sm : SMap) (n : Text) (os : Option Text) (im : SMap) (rm : Bool) (Tin : Text)
    (h1 : MapIdxOK sm) (h2 : MapIdxOK im) (honce : OnceInner n (smSourceEvs sm))
    (hTin : ∀ k c, Ev.source k n c ∈ smSourceEvs sm → (os.or c).getD [] = Tin) :
    ∀ i s cc, Ev.source i s cc ∈ (streamCombined t sm n os im rm ⟨false, false⟩).evs →
      (∃ j, Ev.source j s cc ∈ (streamSM t sm ⟨false, false⟩).evs ∧ s ≠ n)
      ∨ (s = n ∧ ∃ k c, Ev.source k n c ∈ (streamSM t sm ⟨false, false⟩).evs ∧ cc = os.or c)
      ∨ (∃ j, Ev.source j s cc ∈ (streamSM Tin im ⟨false, false⟩).evs) := by
  intro i s cc hmem
  simp only [streamCombined] at hmem
  rcases streamSM_linesShape t sm with ⟨_, e0⟩ | ⟨CF, C, _, eN, _, cN, _⟩
  · rw [e0] at hmem; simp [combFold] at hmem
  · have hP : ∀ e ∈ smSourceEvs sm, e.isChunk = false := smSourceEvs_nochunk sm
    have hdecl := streamSM_declOK t sm ⟨false, false⟩ h1
    rw [eN] at hmem hdecl ⊢
    generalize hcfg : ({ genText := t, innerName := n, innerMap := im, remove := rm, columns := false } : CombCfg) = cfg at hmem
    have hcn : cfg.innerName = n := by rw [← hcfg]
    have hci : cfg.innerMap = im := by rw [← hcfg]
    have hcc : cfg.columns = false := by rw [← hcfg]
    have hlc := streamSMLinesFull_lineChunks Tin im
    have := comb_sources_at cfg (by rw [hci]; exact h2) os (smSourceEvs sm) C Tin hP cN hdecl (by rw [hcn]; exact honce)
      (fun k c hk => hTin k c (by rw [hcn] at hk; exact hk))
      (by rw [hci, hcc]; exact fun m hm => (hlc.2 m hm).1) i s cc hmem
    rw [hcn, hci, hcc] at this
    rcases this with ⟨j, j1, j2⟩ | ⟨q1, k, c, q2, q3⟩ | ⟨j, hj⟩
    · exact Or.inl ⟨j, List.mem_append_left _ j1, j2⟩
    · exact Or.inr (Or.inl ⟨q1, k, c, List.mem_append_left _ q2, q3⟩)
    · exact Or.inr (Or.inr ⟨j, hj⟩)

theorem mem_chunkMs_of_mem : ∀ (evs : List Ev) (t : Option Text) (m : Mapping), Ev.chunk t m ∈ evs → m ∈ chunkMs evs := by
  intro evs
  induction evs with
  | nil => intro t m h; simp at h
  | cons e es ih =>
    intro t m h
    cases e with
    | chunk t0 m0 =>
      simp only [List.mem_cons, Ev.chunk.injEq] at h
      simp only [chunkMs, List.mem_cons]
      rcases h with ⟨_, rfl⟩ | h
      · exact Or.inl rfl
      · exact Or.inr (ih t m h)
    | source i s c => simp only [List.mem_cons, reduceCtorEq, false_or] at h; simp only [chunkMs]; exact ih t m h
    | name i nm => simp only [List.mem_cons, reduceCtorEq, false_or] at h; simp only [chunkMs]; exact ih t m h

/-- **C09, names, columns = false**: names are dropped — no chunk of the combined line-granular stream carries a name -/
theorem streamCombined_namesL (t : Text) (sm : SMap) (n : Text) (os : Option Text) (im : SMap) (rm : Bool) (Tin : Text)
    (h1 : MapIdxOK sm) (h2 : MapIdxOK im) (honce : OnceInner n (smSourceEvs sm))
    (hTin : ∀ k c, Ev.source k n c ∈ smSourceEvs sm → (os.or c).getD [] = Tin) :
    ∀ t' mm, Ev.chunk t' mm ∈ (streamCombined t sm n os im rm ⟨false, false⟩).evs → ∀ y, mm.orig = some y → y.name = none := by
  intro t' mm hmem y hy
  simp only [streamCombined] at hmem
  rcases streamSM_linesShape t sm with ⟨_, e0⟩ | ⟨CF, C, _, eN, _, cN, _⟩
  · rw [e0] at hmem; simp [combFold] at hmem
  · have hP : ∀ e ∈ smSourceEvs sm, e.isChunk = false := smSourceEvs_nochunk sm
    have hdecl := streamSM_declOK t sm ⟨false, false⟩ h1
    have hnoN := smLines_noNames t sm false
    rw [eN] at hmem hdecl hnoN
    generalize hcfg : ({ genText := t, innerName := n, innerMap := im, remove := rm, columns := false } : CombCfg) = cfg at hmem
    have hcn : cfg.innerName = n := by rw [← hcfg]
    have hci : cfg.innerMap = im := by rw [← hcfg]
    have hcc : cfg.columns = false := by rw [← hcfg]
    have hlc := streamSMLinesFull_lineChunks Tin im
    obtain ⟨m, st', S0, N0, k, c, b1, _, _, b2, hR', b4, _, b5, _, _, hmd⟩ :=
      comb_chunk_at cfg (by rw [hci]; exact h2) os (smSourceEvs sm) C Tin hP cN hdecl (by rw [hcn]; exact honce)
        (fun k c hk => hTin k c (by rw [hcn] at hk; exact hk))
        (by rw [hci, hcc]; exact fun m hm => (hlc.2 m hm).1) t' mm hmem
    rw [hci, hcc] at hR'
    -- the outer chunk has no name
    have hni : m.ni = -1 := by
      unfold Mapping.ni
      cases hmo : m.orig with
      | none => rfl
      | some a =>
        have hm' : m ∈ chunkMs (smSourceEvs sm ++ C) := mem_chunkMs_of_mem _ t' m (List.mem_append_right _ b1)
        have := hnoN m hm' a hmo
        simp [this]
    -- no recorded segment has a name
    have hsegn : ∀ ld ∈ st'.lineData, ∀ sg ∈ ld.segs, sg.name < 0 := by
      intro ld hld sg hsg
      obtain ⟨i, hi, rfl⟩ := List.getElem_of_mem hld
      have := hR'.segs (i + 1) (by omega)
      unfold segsAt at this
      have e : st'.lineData.getD (i + 1 - 1) {} = st'.lineData[i] := by
        simp only [Nat.add_sub_cancel, List.getD_eq_getElem?_getD, List.getElem?_eq_getElem hi, Option.getD_some]
      rw [e] at this
      rw [this] at hsg
      obtain ⟨x, hx, rfl⟩ := List.mem_map.1 hsg
      have hxm := (List.mem_filter.1 hx).1
      have hnn := smLines_noNames Tin im false x hxm
      simp only [toSeg]
      cases hxo : x.orig with
      | none => simp only; omega
      | some o' => simp only [hnn o' hxo]; omega
    obtain ⟨_, _, _, sem⟩ := combOnChunk_ok cfg st' S0 N0 _ b2 t' m hmd
    cases hyn : y.name with
    | none => rfl
    | some kk =>
      exfalso
      rcases sem with hp | ⟨seg, idx, _, _, hfi, hsegeq, hf⟩
      · obtain ⟨_, _, _, q⟩ := hp _ mm b5
        obtain ⟨_, _, _, _, _, q6⟩ := q y hy
        have := (q6 kk hyn).1
        omega
      · obtain ⟨_, _, _, q⟩ := hf _ mm b5
        obtain ⟨_, _, _, _, q5⟩ := q y hy
        rcases q5 kk hyn with ⟨r0, _⟩ | ⟨r0, _⟩
        · obtain ⟨f1, f2⟩ := findInner_mem st' m.ol m.oc idx hfi
          have := hsegn _ f1 _ f2
          rw [← hsegeq] at this
          omega
        · omega

end Rs
