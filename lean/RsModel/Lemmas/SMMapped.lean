import RsModel.Lemmas.LinesSM
/-!
# The mapped chunks of a map-driven stream are the mapped segments of the map, in order

For a strictly sorted map whose mapped segments start on characters of the text, both splitters — the text-less one
(`stream_chunks_of_source_map_final`) and the one that cuts the text (`…_full`) — deliver exactly one mapped chunk per mapped
segment, with the segment's own position and original location, in the order of the map.  (The unmapped chunks differ between the
two modes.)  This is what makes a stateful consumer of the stream — the combinator of C09 — go through the same states in both
modes.
-/
namespace Rs

def isMapped (m : Mapping) : Bool := m.orig.isSome

/-- the mappings of the mapped chunks, in stream order -/
def mappedMs (evs : List Ev) : List Mapping := (chunkMs evs).filter isMapped

theorem mappedMs_append (a b : List Ev) : mappedMs (a ++ b) = mappedMs a ++ mappedMs b := by
  simp [mappedMs, chunkMs_app]

theorem mappedMs_unmapped (evs : List Ev) (h : ∀ m ∈ chunkMs evs, m.orig = none) : mappedMs evs = [] := by
  unfold mappedMs
  rw [List.filter_eq_nil_iff]
  intro m hm
  simp [isMapped, h m hm]

theorem mappedMs_nil : mappedMs [] = [] := rfl

/-! ### text-less mode -/

theorem smFinalGo_mapped (r : Info) : ∀ (ms : List Mapping) (act : Nat),
    (∀ m ∈ ms, m.orig.isSome = true → m.gl < r.line ∨ (m.gl = r.line ∧ m.gc < r.col)) →
    mappedMs (smFinalGo r act ms) = ms.filter isMapped := by
  intro ms
  induction ms with
  | nil => intro act _; rfl
  | cons m rest ih =>
    intro act h
    have hrest : ∀ x ∈ rest, x.orig.isSome = true → x.gl < r.line ∨ (x.gl = r.line ∧ x.gc < r.col) := fun x hx => h x (by simp [hx])
    simp only [smFinalGo]
    split
    · rename_i hend
      -- at or beyond the end: such a segment is unmapped
      have hun : isMapped m = false := by
        cases hq : isMapped m with
        | false => rfl
        | true =>
          have := h m (by simp) hq
          simp only [ge_iff_le, Bool.and_eq_true, decide_eq_true_eq, Bool.or_eq_true, gt_iff_lt] at hend
          omega
      rw [List.filter_cons_of_neg (by simp [hun])]
      exact ih act hrest
    · cases hmo : m.orig with
      | some o =>
        simp only
        have hq : isMapped m = true := by simp [isMapped, hmo]
        rw [List.filter_cons_of_pos hq]
        have : mappedMs (Ev.chunk none m :: smFinalGo r m.gl rest) = m :: mappedMs (smFinalGo r m.gl rest) := by
          simp only [mappedMs, chunkMs]
          rw [List.filter_cons_of_pos hq]
        rw [this, ih m.gl hrest]
      | none =>
        simp only
        have hq : isMapped m = false := by simp [isMapped, hmo]
        rw [List.filter_cons_of_neg (by simp [hq])]
        split
        · have : mappedMs (Ev.chunk none ⟨m.gl, m.gc, none⟩ :: smFinalGo r act rest) = mappedMs (smFinalGo r act rest) := by
            simp only [mappedMs, chunkMs]
            rw [List.filter_cons_of_neg (by simp [isMapped])]
          rw [this, ih act hrest]
        · exact ih act hrest

/-! ### the mode that cuts the text -/

/-- the mapping whose chunk has not been delivered yet -/
def pendM (s : FullSt) : List Mapping := if s.active then [⟨s.line, s.col, s.orig⟩] else []

/-- an active walker stands on a character of a line of the text, with a location -/
structure PInv (lines : List Text) (s : FullSt) : Prop where
  act : s.active = true → s.orig.isSome = true ∧ s.line ≤ lines.length ∧ s.col < (lines.getD (s.line - 1) []).length

theorem csub_ne (ln : Text) (ha : IsAscii ln) (a b : Nat) (hab : a < b) (hal : a < ln.length) : (csub ln a b).isEmpty = false := by
  rw [csub_eq ln a b (Nat.le_of_lt hab), cpos_ascii ln ha a (Nat.le_of_lt hal)]
  have hb : a < cpos ln b := by
    by_cases hbl : b ≤ ln.length
    · rw [cpos_ascii ln ha b hbl]; exact hab
    · rw [cpos_big ln b (by omega)]; exact hal
  have hb2 := cpos_le ln b
  cases hq : (List.drop a (List.take (cpos ln b) ln)) with
  | nil =>
    have := congrArg List.length hq
    simp only [List.length_drop, List.length_take, List.length_nil] at this
    omega
  | cons x xs => rfl

theorem mappedMs_optChunk (ch : Text) (m : Mapping) (h : ch.isEmpty = false) (hm : isMapped m = true) :
    mappedMs (if ch.isEmpty then [] else [Ev.chunk (some ch) m]) = [m] := by
  simp only [h, Bool.false_eq_true, if_false, mappedMs, chunkMs]
  rw [List.filter_cons_of_pos hm]; rfl

theorem mappedMs_single_unmapped (t : Option Text) (gl gc : Nat) : mappedMs [Ev.chunk t ⟨gl, gc, none⟩] = [] := by
  simp [mappedMs, chunkMs, isMapped]

theorem step1_facts (lines : List Text) (hA : ∀ k, IsAscii (lines.getD k [])) (hL : ∀ k, (lines.getD k []).length ≤ USIZE_MAX) (s : FullSt) (m : Mapping)
    (hp : PInv lines s) (hstrict : s.active = true → s.line < m.gl ∨ (s.line = m.gl ∧ s.col < m.gc)) :
    mappedMs (smStep1 lines s m).2 = pendM s ∧ (smStep1 lines s m).1.active = false ∧ (smStep1 lines s m).1.orig = s.orig
    ∧ (s.line = m.gl → (smStep1 lines s m).1.line = s.line ∧ ((smStep1 lines s m).1.col = s.col ∨ (smStep1 lines s m).1.col = m.gc))
    ∧ (s.line < m.gl → ((smStep1 lines s m).1.line = s.line ∧ (smStep1 lines s m).1.col = s.col)
                        ∨ ((smStep1 lines s m).1.line = s.line + 1 ∧ (smStep1 lines s m).1.col = 0)) := by
  unfold smStep1
  cases hact : s.active with
  | false =>
    simp only [Bool.false_and, Bool.false_eq_true, if_false, pendM, hact]
    exact ⟨(by first | rfl | trivial), (by first | exact hact | trivial), (by first | rfl | trivial), fun _ => ⟨(by first | rfl | trivial), Or.inl (by first | rfl | trivial)⟩, fun _ => Or.inl ⟨(by first | rfl | trivial), (by first | rfl | trivial)⟩⟩
  | true =>
    obtain ⟨p1, p2, p3⟩ := hp.act hact
    have hs := hstrict hact
    have hmp : isMapped ⟨s.line, s.col, s.orig⟩ = true := p1
    simp only [Bool.true_and, decide_eq_true_eq, p2, if_true, pendM, hact]
    by_cases hne : m.gl = s.line
    · have hb : (m.gl != s.line) = false := by simp [hne]
      simp only [hb, Bool.false_eq_true, if_false]
      exact ⟨mappedMs_optChunk _ _ (csub_ne _ (hA _) _ _ (by omega) p3) hmp, (by first | rfl | trivial), (by first | rfl | trivial),
        fun _ => ⟨(by first | rfl | trivial), Or.inr (by first | rfl | trivial)⟩, fun hlt => by omega⟩
    · have hb : (m.gl != s.line) = true := by simp [hne]
      simp only [hb, if_true]
      have hl := hL (s.line - 1)
      exact ⟨mappedMs_optChunk _ _ (csub_ne _ (hA _) _ _ (by omega) p3) hmp, (by first | rfl | trivial), (by first | rfl | trivial),
        fun he => absurd he.symm hne, fun _ => Or.inr ⟨(by first | rfl | trivial), (by first | rfl | trivial)⟩⟩

theorem step2_facts (lines : List Text) (s : FullSt) (m : Mapping) :
    mappedMs (smStep2 lines s m).2 = [] ∧ (smStep2 lines s m).1.active = s.active ∧ (smStep2 lines s m).1.orig = s.orig
    ∧ ((m.gl > s.line ∧ s.col > 0) → (smStep2 lines s m).1.line = s.line + 1 ∧ (smStep2 lines s m).1.col = 0)
    ∧ (¬ (m.gl > s.line ∧ s.col > 0) → (smStep2 lines s m).1.line = s.line ∧ (smStep2 lines s m).1.col = s.col) := by
  unfold smStep2
  by_cases hc : m.gl > s.line ∧ s.col > 0
  · have hb : (decide (m.gl > s.line) && decide (s.col > 0)) = true := by simp [hc.1, hc.2]
    simp only [hb, if_true]
    refine ⟨?_, (by first | rfl | trivial), (by first | rfl | trivial), fun _ => ⟨(by first | rfl | trivial), (by first | rfl | trivial)⟩, fun hn => absurd hc hn⟩
    split
    · exact mappedMs_single_unmapped _ _ _
    · rfl
  · have hb : (decide (m.gl > s.line) && decide (s.col > 0)) = false := by
      rw [Bool.eq_false_iff]; intro h; simp only [Bool.and_eq_true, decide_eq_true_eq] at h; exact hc h
    simp only [hb, Bool.false_eq_true, if_false]
    exact ⟨(by first | rfl | trivial), (by first | rfl | trivial), (by first | rfl | trivial), fun h => absurd h hc, fun _ => ⟨(by first | rfl | trivial), (by first | rfl | trivial)⟩⟩

theorem step4_facts (lines : List Text) (s : FullSt) (m : Mapping) :
    mappedMs (smStep4 lines s m).2 = [] ∧ (smStep4 lines s m).1.active = s.active ∧ (smStep4 lines s m).1.orig = s.orig
    ∧ (smStep4 lines s m).1.line = s.line ∧ (smStep4 lines s m).1.col = max s.col m.gc := by
  unfold smStep4
  by_cases hc : m.gc > s.col
  · simp only [hc, if_true]
    refine ⟨?_, (by first | rfl | trivial), (by first | rfl | trivial), (by first | rfl | trivial), by first | (simp only; omega) | omega⟩
    split
    · exact mappedMs_single_unmapped _ _ _
    · rfl
  · simp only [hc, if_false]
    exact ⟨(by first | rfl | trivial), (by first | rfl | trivial), (by first | rfl | trivial), (by first | rfl | trivial), by omega⟩

/-- **one `on_mapping` call**: the only mapped chunk it can deliver is the pending one, it delivers it, and the mapping becomes
pending when it is mapped (and before the end of the text) -/
theorem smFullStep_mapped (lines : List Text) (hA : ∀ k, IsAscii (lines.getD k [])) (hL : ∀ k, (lines.getD k []).length ≤ USIZE_MAX) (fl fc : Nat) (s : FullSt) (m : Mapping)
    (hp : PInv lines s) (hnb : s.line < m.gl ∨ (s.line = m.gl ∧ s.col ≤ m.gc))
    (hstrict : s.active = true → s.line < m.gl ∨ (s.line = m.gl ∧ s.col < m.gc))
    (hbefore : isMapped m = true → m.gl < fl ∨ (m.gl = fl ∧ m.gc < fc))
    (hin : isMapped m = true → m.gl ≤ lines.length ∧ m.gc < (lines.getD (m.gl - 1) []).length) :
    mappedMs (smFullStep lines fl fc s m).2 = pendM s
    ∧ (smFullStep lines fl fc s m).1.line = m.gl ∧ (smFullStep lines fl fc s m).1.col = m.gc
    ∧ pendM (smFullStep lines fl fc s m).1 = (if isMapped m then [m] else [])
    ∧ PInv lines (smFullStep lines fl fc s m).1 := by
  unfold smFullStep
  have hback : (decide (m.gl < s.line) || (m.gl == s.line && decide (m.gc < s.col))) = false := by
    rw [Bool.eq_false_iff]
    intro hc
    simp only [Bool.or_eq_true, decide_eq_true_eq, Bool.and_eq_true, beq_iff_eq] at hc
    omega
  simp only [hback, Bool.false_eq_true, if_false]
  obtain ⟨a1, a2, a3, a4, a5⟩ := step1_facts lines hA hL s m hp hstrict
  generalize smStep1 lines s m = r1 at a1 a2 a3 a4 a5
  obtain ⟨b1, b2, b3, b4, b5⟩ := step2_facts lines r1.1 m
  generalize smStep2 lines r1.1 m = r2 at b1 b2 b3 b4 b5
  -- after the first two steps: not beyond the mapping's line, and at column 0 when before it
  have hpos : r2.1.line ≤ m.gl ∧ (r2.1.line = m.gl → r2.1.col ≤ m.gc) ∧ (r2.1.line < m.gl → r2.1.col = 0) := by
    rcases hnb with hlt | ⟨heq, hcol⟩
    · rcases a5 hlt with ⟨c1, c2⟩ | ⟨c1, c2⟩
      · by_cases hc : m.gl > r1.1.line ∧ r1.1.col > 0
        · obtain ⟨d1, d2⟩ := b4 hc
          exact ⟨by omega, fun _ => by omega, fun _ => d2⟩
        · obtain ⟨d1, d2⟩ := b5 hc
          have : r1.1.col = 0 := by
            rcases Nat.eq_zero_or_pos r1.1.col with h0 | h0
            · exact h0
            · exact absurd ⟨by omega, h0⟩ hc
          exact ⟨by omega, fun h => by omega, fun _ => by omega⟩
      · have hc : ¬ (m.gl > r1.1.line ∧ r1.1.col > 0) := by omega
        obtain ⟨d1, d2⟩ := b5 hc
        exact ⟨by omega, fun _ => by omega, fun _ => by omega⟩
    · obtain ⟨c1, c2⟩ := a4 heq
      have hc : ¬ (m.gl > r1.1.line ∧ r1.1.col > 0) := by omega
      obtain ⟨d1, d2⟩ := b5 hc
      exact ⟨by omega, fun _ => by rcases c2 with c2 | c2 <;> omega, fun h => by omega⟩
  have hmax : max r2.1.line m.gl = m.gl := by omega
  obtain ⟨e1, e2, e3, e4, e5⟩ := step4_facts lines { r2.1 with line := max r2.1.line m.gl } m
  generalize smStep4 lines { r2.1 with line := max r2.1.line m.gl } m = r4 at e1 e2 e3 e4 e5
  simp only [hmax] at e2 e3 e4 e5
  have hcol : r4.1.col = m.gc := by
    rw [e5]
    rcases Nat.lt_or_ge r2.1.line m.gl with h | h
    · rw [hpos.2.2 h]; omega
    · have := hpos.2.1 (by omega); omega
  have hout : mappedMs (r1.2 ++ r2.2 ++ smWholeLines lines r2.1.line m.gl ++ r4.2) = pendM s := by
    rw [mappedMs_append, mappedMs_append, mappedMs_append, a1, b1, e1, mappedMs_unmapped _ (chunkMs_wholeLines lines _ _)]
    simp
  refine ⟨hout, ?_⟩
  have hact4 : r4.1.active = false := by rw [e2, b2, a2]
  unfold smStep5
  cases hmo : m.orig with
  | none =>
    have hq : isMapped m = false := by simp [isMapped, hmo]
    simp only [hq, Bool.false_eq_true, if_false]
    exact ⟨e4, hcol, by simp [pendM, hact4], ⟨fun h => by rw [hact4] at h; cases h⟩⟩
  | some o =>
    have hq : isMapped m = true := by simp [isMapped, hmo]
    have hb := hbefore hq
    have hcond : (decide (m.gl < fl) || (m.gl == fl && decide (m.gc < fc))) = true := by
      simp only [Bool.or_eq_true, decide_eq_true_eq, Bool.and_eq_true, beq_iff_eq]; omega
    simp only [hcond, if_true, hq]
    refine ⟨e4, hcol, ?_, ⟨fun _ => ?_⟩⟩
    · simp only [pendM, if_true, e4, hcol]
      cases m; simp only at hmo; subst hmo; rfl
    · obtain ⟨i1, i2⟩ := hin hq
      simp only [e4, hcol]
      exact ⟨rfl, i1, i2⟩

/-- each mapping is not behind its predecessor, and strictly after it when the predecessor is mapped -/
def stepOK : Nat → Nat → Bool → List Mapping → Prop
  | _, _, _, [] => True
  | pl, pc, pa, m :: ms => (pl < m.gl ∨ (pl = m.gl ∧ pc ≤ m.gc)) ∧ (pa = true → pl < m.gl ∨ (pl = m.gl ∧ pc < m.gc)) ∧ stepOK m.gl m.gc (isMapped m) ms

def smFullEnd (lines : List Text) (fl fc : Nat) : FullSt → List Mapping → FullSt
  | s, [] => s
  | s, m :: ms => smFullEnd lines fl fc (smFullStep lines fl fc s m).1 ms

theorem smFullGo_mapped (lines : List Text) (hA : ∀ k, IsAscii (lines.getD k [])) (hL : ∀ k, (lines.getD k []).length ≤ USIZE_MAX) (fl fc : Nat) :
    ∀ (ms : List Mapping) (s : FullSt), PInv lines s → stepOK s.line s.col s.active ms →
      (∀ m ∈ ms, isMapped m = true → (m.gl < fl ∨ (m.gl = fl ∧ m.gc < fc)) ∧ m.gl ≤ lines.length ∧ m.gc < (lines.getD (m.gl - 1) []).length) →
      mappedMs (smFullGo lines fl fc s ms) ++ pendM (smFullEnd lines fl fc s ms) = pendM s ++ ms.filter isMapped := by
  intro ms
  induction ms with
  | nil => intro s _ _ _; simp [smFullGo, smFullEnd, mappedMs_nil]
  | cons m rest ih =>
    intro s hp hs hm
    obtain ⟨s1, s2, s3⟩ := hs
    have hmm := hm m (by simp)
    obtain ⟨a1, a2, a3, a4, a5⟩ := smFullStep_mapped lines hA hL fl fc s m hp s1 s2 (fun h => (hmm h).1) (fun h => (hmm h).2)
    simp only [smFullGo, smFullEnd]
    generalize smFullStep lines fl fc s m = r at a1 a2 a3 a4 a5
    have hact : r.1.active = isMapped m := by
      unfold pendM at a4
      cases hq : isMapped m <;> cases hr : r.1.active <;> simp [hq, hr] at a4 <;> rfl
    have := ih r.1 a5 (by rw [a2, a3, hact]; exact s3) (fun x hx => hm x (by simp [hx]))
    rw [mappedMs_append, List.append_assoc, this, a1, a4]
    cases hq : isMapped m with
    | true => rw [List.filter_cons_of_pos hq]; rfl
    | false => rw [List.filter_cons_of_neg (by simp [hq])]; rfl

theorem smFullEnd_pend (lines : List Text) (hA : ∀ k, IsAscii (lines.getD k [])) (hL : ∀ k, (lines.getD k []).length ≤ USIZE_MAX) (fl fc : Nat) :
    ∀ (ms : List Mapping) (s : FullSt) (z : Mapping), PInv lines s → stepOK s.line s.col s.active (ms ++ [z]) →
      (∀ m ∈ ms ++ [z], isMapped m = true → (m.gl < fl ∨ (m.gl = fl ∧ m.gc < fc)) ∧ m.gl ≤ lines.length ∧ m.gc < (lines.getD (m.gl - 1) []).length) →
      pendM (smFullEnd lines fl fc s (ms ++ [z])) = (if isMapped z then [z] else []) := by
  intro ms
  induction ms with
  | nil =>
    intro s z hp hs hm
    obtain ⟨s1, s2, _⟩ := hs
    have hmm := hm z (by simp)
    exact (smFullStep_mapped lines hA hL fl fc s z hp s1 s2 (fun h => (hmm h).1) (fun h => (hmm h).2)).2.2.2.1
  | cons m rest ih =>
    intro s z hp hs hm
    obtain ⟨s1, s2, s3⟩ := hs
    have hmm := hm m (by simp)
    obtain ⟨a1, a2, a3, a4, a5⟩ := smFullStep_mapped lines hA hL fl fc s m hp s1 s2 (fun h => (hmm h).1) (fun h => (hmm h).2)
    simp only [List.cons_append, smFullEnd]
    generalize smFullStep lines fl fc s m = r at a1 a2 a3 a4 a5
    have hact : r.1.active = isMapped m := by
      unfold pendM at a4
      cases hq : isMapped m <;> cases hr : r.1.active <;> simp [hq, hr] at a4 <;> rfl
    exact ih r.1 z a5 (by rw [a2, a3, hact]; exact s3) (fun x hx => hm x (by simp [hx]))

/-! ### whole streams -/

def mlt (a b : Mapping) : Prop := a.gl < b.gl ∨ (a.gl = b.gl ∧ a.gc < b.gc)

theorem stepOK_of (fl fc : Nat) : ∀ (ms : List Mapping) (l c : Nat) (a : Bool),
    (∀ x ∈ ms, (l < x.gl ∨ (l = x.gl ∧ c ≤ x.gc)) ∧ (a = true → l < x.gl ∨ (l = x.gl ∧ c < x.gc))) →
    ((l < fl ∨ (l = fl ∧ c ≤ fc)) ∧ (a = true → l < fl ∨ (l = fl ∧ c < fc))) →
    ms.Pairwise mlt →
    (∀ m ∈ ms, (isMapped m = true → m.gl < fl ∨ (m.gl = fl ∧ m.gc < fc)) ∧ (m.gl < fl ∨ (m.gl = fl ∧ m.gc ≤ fc))) →
    stepOK l c a (ms ++ [⟨fl, fc, none⟩]) := by
  intro ms
  induction ms with
  | nil => intro l c a _ h2 _ _; exact ⟨h2.1, h2.2, trivial⟩
  | cons m rest ih =>
    intro l c a h1 h2 hp hm
    obtain ⟨hp1, hp2⟩ := List.pairwise_cons.1 hp
    refine ⟨(h1 m (by simp)).1, (h1 m (by simp)).2, ?_⟩
    apply ih m.gl m.gc (isMapped m)
    · intro x hx
      have := hp1 x hx
      unfold mlt at this
      exact ⟨by omega, fun _ => this⟩
    · exact ⟨(hm m (by simp)).2, (hm m (by simp)).1⟩
    · exact hp2
    · intro x hx; exact hm x (by simp [hx])

/-- **both column modes of a SourceMapSource leaf deliver the mapped segments of the map, in order, as their mapped chunks** -/
theorem streamSM_mapped (t : Text) (sm : SMap) (ha : IsAscii t) (hl : t.length ≤ USIZE_MAX) (hsorted : sortedFrom 1 0 (decode sm.mappings))
    (hstrict : (decode sm.mappings).Pairwise mlt)
    (hseg : ∀ m ∈ decode sm.mappings, SegOK (splitLines t) (adv startPos t).line (adv startPos t).col m) :
    mappedMs (streamSM t sm ⟨true, false⟩).evs = (decode sm.mappings).filter isMapped
    ∧ mappedMs (streamSM t sm ⟨true, true⟩).evs = (decode sm.mappings).filter isMapped := by
  have E := env_of_ascii t ha hl
  have hend := adv_text_end t
  have hnoS : mappedMs (smSourceEvs sm) = [] := by simp [mappedMs, chunkMs_smSourceEvs]
  have hnoN : mappedMs (smNameEvs sm) = [] := by simp [mappedMs, chunkMs_smNameEvs]
  constructor
  · -- the mode that cuts the text
    simp only [streamSM]
    unfold streamSMFull
    by_cases he : (splitLines t).isEmpty = true
    · have hsl : splitLines t = [] := by simpa using he
      have ht : t = [] := by have hj := splitLines_join t; rw [hsl] at hj; simpa using hj.symm
      subst ht
      simp only [he, if_true, mappedMs_nil]
      symm
      rw [List.filter_eq_nil_iff]
      intro m hm hq
      have := (hseg m hm).2.1 hq
      have e1 : (adv startPos ([] : Text)).line = 1 := rfl
      have e2 : (adv startPos ([] : Text)).col = 0 := rfl
      have := (hseg m hm).1.1
      omega
    · simp only [he, Bool.false_eq_true, if_false]
      have hne : splitLines t ≠ [] := by simpa using he
      have hlen : 0 < (splitLines t).length := List.length_pos_iff.mpr hne
      have hfin : adv startPos t = ⟨if endsWithNL ((splitLines t).getLast?.getD []) then (splitLines t).length + 1 else (splitLines t).length,
          if endsWithNL ((splitLines t).getLast?.getD []) then 0 else ((splitLines t).getLast?.getD []).length⟩ := by
        rw [hend]; unfold lineLoopInfo
        cases hl' : (splitLines t).getLast? with
        | none => exact absurd (List.getLast?_eq_none_iff.1 hl') hne
        | some last => simp only [Option.getD_some]; split <;> rfl
      have hlastline : (splitLines t).getLast?.getD [] = (splitLines t).getD ((splitLines t).length - 1) [] := by
        rw [List.getLast?_eq_getElem?]; simp [List.getD_eq_getElem?_getD]
      have hflv : (if endsWithNL ((splitLines t).getLast?.getD []) then (splitLines t).length + 1 else (splitLines t).length) ≤ (splitLines t).length + 1 := by
        split <;> omega
      -- a mapped segment stands on a character of a line
      have hin : ∀ m ∈ decode sm.mappings, isMapped m = true →
          m.gl ≤ (splitLines t).length ∧ m.gc < ((splitLines t).getD (m.gl - 1) []).length := by
        intro m hm hq
        obtain ⟨⟨i1, i2⟩, i3, _⟩ := hseg m hm
        have hb := i3 hq
        rw [hfin] at hb
        simp only at hb
        by_cases hnl : endsWithNL ((splitLines t).getLast?.getD []) = true
        · simp only [hnl, if_true] at hb
          have hle : m.gl ≤ (splitLines t).length := by omega
          refine ⟨hle, ?_⟩
          have hw := i2 hle
          obtain ⟨⟨sfx, hs, hcase⟩, _⟩ := lines_get (splitLines t) E.ls (m.gl - 1) (by omega)
          unfold lineAt at hw
          rcases hcase with hc | ⟨hlast, hc⟩
          · rw [hc] at hw ⊢
            rw [(width_cases sfx hs).1] at hw
            simp only [List.length_append, List.length_singleton]; omega
          · -- the last line: it ends with a line break here
            have hidx : m.gl - 1 = (splitLines t).length - 1 := by omega
            rw [hidx, ← hlastline] at hc
            rw [hc] at hnl
            rw [endsWithNL_noNL sfx hs] at hnl
            cases hnl
        · simp only [hnl, Bool.false_eq_true, if_false] at hb
          have hle : m.gl ≤ (splitLines t).length := by omega
          refine ⟨hle, ?_⟩
          have hw := i2 hle
          obtain ⟨⟨sfx, hs, hcase⟩, _⟩ := lines_get (splitLines t) E.ls (m.gl - 1) (by omega)
          unfold lineAt at hw
          rcases hcase with hc | ⟨hlast, hc⟩
          · rw [hc] at hw ⊢
            rw [(width_cases sfx hs).1] at hw
            simp only [List.length_append, List.length_singleton]; omega
          · have hidx : m.gl - 1 = (splitLines t).length - 1 := by omega
            rw [hidx, ← hlastline]
            omega
      generalize hfl : (if endsWithNL ((splitLines t).getLast?.getD []) then (splitLines t).length + 1 else (splitLines t).length) = fl at *
      generalize hfc : (if endsWithNL ((splitLines t).getLast?.getD []) then 0 else ((splitLines t).getLast?.getD []).length) = fc at *
      rw [hfin] at hseg
      simp only at hseg
      rw [mappedMs_append, mappedMs_append, hnoS, hnoN, List.nil_append, List.nil_append]
      have hA : ∀ k, IsAscii ((splitLines t).getD k []) := ascii_lineAt _ E
      have hL : ∀ k, ((splitLines t).getD k []).length ≤ USIZE_MAX := fun k => by
        have := lineAt_small (splitLines t) E.wf (k + 1)
        simpa [lineAt] using this
      have hstep : stepOK 1 0 false (decode sm.mappings ++ [⟨fl, fc, none⟩]) := by
        apply stepOK_of fl fc _ 1 0 false
        · intro x hx
          exact ⟨sortedFrom_all _ 1 0 hsorted x hx, fun h => (by cases h)⟩
        · refine ⟨?_, fun h => (by cases h)⟩
          by_cases hnl : endsWithNL ((splitLines t).getLast?.getD []) = true
          · simp only [hnl, if_true] at hfl; exact Or.inl (by omega)
          · simp only [hnl, Bool.false_eq_true, if_false] at hfl
            rcases Nat.lt_or_ge 1 (splitLines t).length with h | h
            · exact Or.inl (by omega)
            · exact Or.inr ⟨by omega, Nat.zero_le _⟩
        · exact hstrict
        · intro m hm; exact ⟨(hseg m hm).2.1, (hseg m hm).2.2⟩
      have hall : ∀ m ∈ decode sm.mappings ++ [⟨fl, fc, none⟩], isMapped m = true →
          (m.gl < fl ∨ (m.gl = fl ∧ m.gc < fc)) ∧ m.gl ≤ (splitLines t).length ∧ m.gc < ((splitLines t).getD (m.gl - 1) []).length := by
        intro m hm hq
        rcases List.mem_append.1 hm with h | h
        · exact ⟨(hseg m h).2.1 hq, hin m h hq⟩
        · simp only [List.mem_singleton] at h; subst h; simp [isMapped] at hq
      have hp0 : PInv (splitLines t) ({} : FullSt) := ⟨fun h => (by cases h)⟩
      have hgo := smFullGo_mapped (splitLines t) hA hL fl fc _ {} hp0 hstep hall
      have hpe := smFullEnd_pend (splitLines t) hA hL fl fc (decode sm.mappings) {} ⟨fl, fc, none⟩ hp0 hstep hall
      rw [hpe] at hgo
      simp only [isMapped, Option.isSome_none, Bool.false_eq_true, if_false, List.append_nil, pendM, List.nil_append] at hgo
      rw [hgo, List.filter_append]
      simp [isMapped]
  · -- the text-less mode
    simp only [streamSM]
    unfold streamSMFinal
    have hgi : genInfo t = adv startPos t := genInfo_adv t
    dsimp only
    split
    · rename_i h1
      simp only [mappedMs_nil]
      symm
      rw [List.filter_eq_nil_iff]
      intro m hm hq
      have := (hseg m hm).2.1 hq
      have := (hseg m hm).1.1
      rw [hgi] at h1
      simp only [Bool.and_eq_true, beq_iff_eq] at h1
      omega
    · rw [mappedMs_append, mappedMs_append, hnoS, hnoN, List.nil_append, List.nil_append]
      apply smFinalGo_mapped
      intro m hm hq
      rw [hgi]
      exact (hseg m hm).2.1 hq

end Rs
