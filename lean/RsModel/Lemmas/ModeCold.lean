import RsModel.Lemmas.ModeMap
/-!
# T3 with CachedSource nodes, on cold caches

A CachedSource whose cache holds nothing for this option set streams its inner source (and then stores the map).  With distinct
caches for distinct CachedSource nodes (`Nodup`) every node of the tree sees its cache cold during one call, so the results of the
two modes are those of the cache-free tree.
-/
namespace Rs

/-- nothing is cached for these nodes -/
def Cold (σ : Store) (ids : List Nat) : Prop := ∀ i ∈ ids, ∀ o, σ.get? (i, o) = none

theorem cold_sub (σ : Store) (a b : List Nat) (h : Cold σ (a ++ b)) : Cold σ a ∧ Cold σ b :=
  ⟨fun i hi => h i (List.mem_append_left _ hi), fun i hi => h i (List.mem_append_right _ hi)⟩

theorem cold_after (s : Src) (o : Opts) (σ : Store) (ids : List Nat) (h : Cold σ ids) (hd : ∀ i ∈ ids, i ∉ s.ids) : Cold (s.stream o σ).2 ids := by
  intro i hi o'
  rw [Src.stream_store_other s o σ (i, o') (hd i hi)]
  exact h i hi o'

theorem cold_storeHypB (c : Bool) (σ : Store) (s : Src) (h : Cold σ s.ids) : StoreHypB c σ s.cachedNodes := by
  intro p hp f m hm
  rw [h p.1 (List.mem_map_of_mem hp)] at hm
  cases hm

theorem cold_storeIdx (σ : Store) (s : Src) (h : Cold σ s.ids) : StoreIdx σ s.cachedNodes := by
  intro p hp o m hm
  rw [h p.1 (List.mem_map_of_mem hp)] at hm
  cases hm

mutual
/-- on cold caches the delivered stream does not depend on what else the store holds -/
theorem Src.stream_cold : ∀ (s : Src) (o : Opts) (σ σ' : Store), s.ids.Nodup → Cold σ s.ids → Cold σ' s.ids → (s.stream o σ).1 = (s.stream o σ').1
  | .raw .., o, σ, σ', _, _, _ | .rawStr .., o, σ, σ', _, _, _ | .rawBuf .., o, σ, σ', _, _, _ | .orig .., o, σ, σ', _, _, _ => rfl
  | .sms t name map origSrc inner remove, o, σ, σ', _, _, _ => by simp only [Src.stream]; cases inner <;> rfl
  | .concat .nil, o, σ, σ', _, _, _ => rfl
  | .concat (.cons s rest), o, σ, σ', hn, hc, hc' => by
    simp only [Src.ids, Src.cachedNodes, SrcList.cachedNodesL, List.map_append] at hn hc hc'
    have hn1 := (List.nodup_append.1 hn).1
    have hn2 := (List.nodup_append.1 hn).2.1
    have hdisj := (List.nodup_append.1 hn).2.2
    have h1 := Src.stream_cold s o σ σ' hn1 (cold_sub _ _ _ hc).1 (cold_sub _ _ _ hc').1
    cases hr : rest with
    | nil => simp only [Src.stream]; exact h1
    | cons s2 rest2 =>
      simp only [Src.stream]
      rw [h1]
      congr 2
      apply SrcList.streams_cold (.cons s2 rest2) o _ _ (hr ▸ hn2)
      · rw [← hr]; exact cold_after s o σ _ (cold_sub _ _ _ hc).2 (fun i hi hmem => hdisj i hmem i hi rfl)
      · rw [← hr]; exact cold_after s o σ' _ (cold_sub _ _ _ hc').2 (fun i hi hmem => hdisj i hmem i hi rfl)
  | .replace inner rs, o, σ, σ', hn, hc, hc' => by
    simp only [Src.stream]
    rw [Src.stream_cold inner _ σ σ' hn hc hc']
  | .cached id inner, o, σ, σ', hn, hc, hc' => by
    simp only [Src.ids, Src.cachedNodes, List.map_cons, List.nodup_cons] at hn hc hc'
    simp only [Src.stream]
    rw [hc id (by simp) o, hc' id (by simp) o]
    simp only
    exact Src.stream_cold inner o σ σ' hn.2 (fun i hi => hc i (List.mem_cons_of_mem _ hi)) (fun i hi => hc' i (List.mem_cons_of_mem _ hi))
theorem SrcList.streams_cold : ∀ (l : SrcList) (o : Opts) (σ σ' : Store), l.idsL.Nodup → Cold σ l.idsL → Cold σ' l.idsL → (l.streams o σ).1 = (l.streams o σ').1
  | .nil, o, σ, σ', _, _, _ => rfl
  | .cons s rest, o, σ, σ', hn, hc, hc' => by
    simp only [SrcList.idsL, SrcList.cachedNodesL, List.map_append] at hn hc hc'
    have hn1 := (List.nodup_append.1 hn).1
    have hn2 := (List.nodup_append.1 hn).2.1
    have hdisj := (List.nodup_append.1 hn).2.2
    simp only [SrcList.streams]
    rw [Src.stream_cold s o σ σ' hn1 (cold_sub _ _ _ hc).1 (cold_sub _ _ _ hc').1]
    congr 1
    apply SrcList.streams_cold rest o _ _ hn2
    · exact cold_after s o σ _ (cold_sub _ _ _ hc).2 (fun i hi hmem => hdisj i hmem i hi rfl)
    · exact cold_after s o σ' _ (cold_sub _ _ _ hc').2 (fun i hi hmem => hdisj i hmem i hi rfl)
end

/-! ## the domain, now with CachedSource -/
mutual
def Src.ModeHypC : Src → Prop
  | .sms t _ map _ inner _ => InnerHyp map inner ∧ IsAscii t ∧ t.length ≤ USIZE_MAX ∧ sortedFrom 1 0 (decode map.mappings)
      ∧ (∀ m ∈ decode map.mappings, SegOK (splitLines t) (adv startPos t).line (adv startPos t).col m) ∧ MapIdxOK map
  | .concat cs => cs.ModeHypsC
  | .replace inner rs => inner.ModeHypC ∧ (∀ r ∈ rs, r.start ≤ r.stop) ∧ (replaceSource inner.src rs).length + 1 < 2 ^ 32
  | .cached _ inner => inner.ModeHypC ∧ IsAscii inner.src ∧ inner.src.length ≤ USIZE_MAX
  | _ => True
def SrcList.ModeHypsC : SrcList → Prop
  | .nil => True
  | .cons s r => s.ModeHypC ∧ r.ModeHypsC
end

mutual
theorem Src.modeHypC_base : ∀ (s : Src), s.ModeHypC → s.WF ∧ s.PosHyp true ∧ s.IdxHyp
  | .raw .., _ | .rawStr .., _ | .rawBuf .., _ | .orig .., _ => ⟨trivial, trivial, trivial⟩
  | .sms t name map origSrc inner remove, h => by
    simp only [Src.ModeHypC] at h
    obtain ⟨hinner, ha, hl, _, hseg, hidx⟩ := h
    refine ⟨textOK_of_ascii t ha hl, ⟨ha, hl, fun _ m hm => (hseg m hm).1⟩, ?_⟩
    cases inner with
    | none => exact hidx
    | some im => exact ⟨hidx, hinner.2⟩
  | .concat cs, h => by
    simp only [Src.ModeHypC] at h
    simpa [Src.WF, Src.PosHyp, Src.IdxHyp] using SrcList.modeHypsC_base cs h
  | .replace inner rs, h => by
    simp only [Src.ModeHypC] at h
    obtain ⟨b, c, d⟩ := Src.modeHypC_base inner h.1
    exact ⟨⟨b, h.2.1⟩, ⟨c, h.2.2⟩, d⟩
  | .cached _ inner, h => by
    simp only [Src.ModeHypC] at h
    obtain ⟨b, c, d⟩ := Src.modeHypC_base inner h.1
    exact ⟨⟨b, textOK_of_ascii _ h.2.1 h.2.2⟩, ⟨c, h.2.1, h.2.2⟩, d⟩
theorem SrcList.modeHypsC_base : ∀ (l : SrcList), l.ModeHypsC → l.WFs ∧ l.PosHyps true ∧ l.IdxHyps
  | .nil, _ => ⟨trivial, trivial, trivial⟩
  | .cons s r, h => by
    simp only [SrcList.ModeHypsC] at h
    obtain ⟨b, c, d⟩ := Src.modeHypC_base s h.1
    obtain ⟨b', c', d'⟩ := SrcList.modeHypsC_base r h.2
    exact ⟨⟨b, b'⟩, ⟨c, c'⟩, ⟨d, d'⟩⟩
end

theorem Src.base_factsC (s : Src) (h : s.ModeHypC) (hn : s.ids.Nodup) (σF σN : Store) (hcF : Cold σF s.ids) (hcN : Cold σN s.ids) :
    PosOK (s.stream ⟨true, false⟩ σN).1 ∧ ChunksTok (s.stream ⟨true, false⟩ σN).1.evs ∧ evsTL (s.stream ⟨true, false⟩ σN).1.evs = false
    ∧ evsText (s.stream ⟨true, false⟩ σN).1.evs = s.src ∧ DeclOK 0 0 (s.stream ⟨true, false⟩ σN).1.evs
    ∧ DeclOK 0 0 (s.stream ⟨true, true⟩ σF).1.evs ∧ FinOK s.src (s.stream ⟨true, true⟩ σF).1 := by
  obtain ⟨hw, hp, hi⟩ := Src.modeHypC_base s h
  exact ⟨Src.stream_posOK s true σN hw hp hn (storeHypB_normal true σN _ (cold_storeHypB true σN s hcN)), Src.stream_tok s true σN, Src.stream_tl s true σN,
    Src.stream_text s true σN hw, Src.stream_declOK s _ σN hi hn (cold_storeIdx σN s hcN), Src.stream_declOK s _ σF hi hn (cold_storeIdx σF s hcF),
    Src.stream_finOK s true σF hw hp hn (cold_storeHypB true σF s hcF)⟩

theorem childOK_ofC (s : Src) (h : s.ModeHypC) (hn : s.ids.Nodup) (σF σN : Store) (hcF : Cold σF s.ids) (hcN : Cold σN s.ids)
    (m : M3 (s.stream ⟨true, true⟩ σF).1 (s.stream ⟨true, false⟩ σN).1 s.src) :
    ChildOK (s.stream ⟨true, true⟩ σF).1 (s.stream ⟨true, false⟩ σN).1 s.src := by
  obtain ⟨b1, b2, b3, b4, b5, b6, b7⟩ := Src.base_factsC s h hn σF σN hcF hcN
  have hfN := finOK_of_posOK _ b1 b3
  rw [b4] at hfN
  have ht := tiles_of_posOK _ b1 b2 b3
  rw [b4] at ht
  exact ⟨b7, hfN, linesOK_of_sorted _ 1 0 m.sorted, ht, b6, b5, m.decls, m.look⟩

mutual
/-- **T3 with CachedSource, cold caches** -/
theorem Src.m3c : ∀ (s : Src), s.ModeHypC → s.ids.Nodup → ∀ (σF σN : Store), Cold σF s.ids → Cold σN s.ids →
    M3 (s.stream ⟨true, true⟩ σF).1 (s.stream ⟨true, false⟩ σN).1 s.src
  | .raw _ _ lossy, _, _, σF, σN, _, _ => by
    simp only [Src.stream, Src.src]
    exact ⟨by simp [streamRaw, chunkMs, sortedFrom], by rw [streamRaw_decls, streamRaw_decls], streamRaw_lookEq lossy true⟩
  | .rawStr t, _, _, σF, σN, _, _ => by
    simp only [Src.stream, Src.src]
    exact ⟨by simp [streamRaw, chunkMs, sortedFrom], by rw [streamRaw_decls, streamRaw_decls], streamRaw_lookEq t true⟩
  | .rawBuf _ lossy, _, _, σF, σN, _, _ => by
    simp only [Src.stream, Src.src]
    exact ⟨by simp [streamRaw, chunkMs, sortedFrom], by rw [streamRaw_decls, streamRaw_decls], streamRaw_lookEq lossy true⟩
  | .orig t name, _, _, σF, σN, _, _ => by
    simp only [Src.stream, Src.src]
    exact ⟨streamOriginal_final_sorted t name, streamOriginal_decls t name, streamOriginal_lookEq t name⟩
  | .sms t name map origSrc inner remove, h, _, σF, σN, _, _ => by
    simp only [Src.ModeHypC] at h
    obtain ⟨hinner, ha, hl, hs, hseg, _⟩ := h
    simp only [Src.stream, Src.src]
    cases inner with
    | none => exact ⟨streamSM_final_sorted t map hs, streamSM_decls t map, streamSM_lookEq t map ha hl hs hseg⟩
    | some im =>
      obtain ⟨c1, c2, c3⟩ := streamCombined_m3 t map name origSrc im remove ha hl hs hinner.1 hseg
      exact ⟨c1, c2, c3⟩
  | .concat .nil, _, _, σF, σN, _, _ => by
    simp only [Src.stream, Src.src, SrcList.srcs]
    exact ⟨by simp [concatStream, concatGo, chunkMs, sortedFrom], rfl, fun j hj => by simp at hj⟩
  | .concat (.cons s rest), h, hn, σF, σN, hcF, hcN => by
    simp only [Src.ModeHypC, SrcList.ModeHypsC] at h
    simp only [Src.ids, Src.cachedNodes, SrcList.cachedNodesL, List.map_append] at hn hcF hcN
    have hn1 := (List.nodup_append.1 hn).1
    have hn2 := (List.nodup_append.1 hn).2.1
    have hdisj := (List.nodup_append.1 hn).2.2
    have hcF1 := (cold_sub _ _ _ hcF).1
    have hcN1 := (cold_sub _ _ _ hcN).1
    have hs := Src.m3c s h.1 hn1 σF σN hcF1 hcN1
    cases hr : rest with
    | nil => simp only [Src.stream, Src.src, SrcList.srcs, List.append_nil]; exact hs
    | cons s2 rest2 =>
      have hcF2 : Cold (s.stream ⟨true, true⟩ σF).2 (SrcList.cons s2 rest2).idsL := by
        rw [← hr]; exact cold_after s _ σF _ (cold_sub _ _ _ hcF).2 (fun i hi hmem => hdisj i hmem i hi rfl)
      have hcN2 : Cold (s.stream ⟨true, false⟩ σN).2 (SrcList.cons s2 rest2).idsL := by
        rw [← hr]; exact cold_after s _ σN _ (cold_sub _ _ _ hcN).2 (fun i hi hmem => hdisj i hmem i hi rfl)
      obtain ⟨r1, r2⟩ := SrcList.m3sc (.cons s2 rest2) (hr ▸ h.2) (hr ▸ hn2) _ _ hcF2 hcN2
      simp only [Src.stream, Src.src]
      have hall : ChildrenOK ((s.stream ⟨true, true⟩ σF).1 :: ((SrcList.cons s2 rest2).streams ⟨true, true⟩ (s.stream ⟨true, true⟩ σF).2).1)
          ((s.stream ⟨true, false⟩ σN).1 :: ((SrcList.cons s2 rest2).streams ⟨true, false⟩ (s.stream ⟨true, false⟩ σN).2).1) (s.src :: (SrcList.cons s2 rest2).srcList) :=
        ChildrenOK.cons _ _ _ _ _ _ (childOK_ofC s h.1 hn1 σF σN hcF1 hcN1 hs) r1
      have hsrc : (SrcList.cons s (SrcList.cons s2 rest2)).srcs = (s.src :: (SrcList.cons s2 rest2).srcList).flatten := by
        rw [List.flatten_cons, SrcList.srcList_flatten]; rfl
      rw [hsrc]
      have hrel : FRel ({} : CSt) (adv startPos []) := ⟨rfl, rfl⟩
      refine ⟨?_, ?_, ?_⟩
      · apply concatStream_sorted true _ _ hall.allF
        intro c hc
        simp only [List.mem_cons] at hc
        rcases hc with rfl | hc
        · exact hs.sorted
        · exact r2 c hc
      · simp only [concatStream]
        exact concatGo_decls _ _ _ hall {} {} rfl rfl
      · intro j hj
        have := concatGo_modes _ _ _ hall {} {} [] [] [] hrel hrel rfl rfl (fun m hm => by simp at hm) (fun m hm => by simp at hm)
          (fun _ C _ => rfl) rfl j hj
        simpa [concatStream, lookupCols] using this
  | .replace inner rs, h, hn, σF, σN, hcF, hcN => by
    have hb := Src.base_factsC (.replace inner rs) h hn σF σN hcF hcN
    obtain ⟨b1, b2, b3, b4, _, _, _⟩ := hb
    have e : ((Src.replace inner rs).stream ⟨true, true⟩ σF).1 = ((Src.replace inner rs).stream ⟨true, false⟩ σN).1 := by
      simp only [Src.stream]
      rw [Src.stream_cold inner _ σF σN hn hcF hcN]
    rw [e]
    exact ⟨chunkMs_sorted _ [] b1.1 b3, rfl, lookEq_refl _ _⟩
  | .cached id inner, h, hn, σF, σN, hcF, hcN => by
    simp only [Src.ModeHypC] at h
    simp only [Src.ids, Src.cachedNodes, List.map_cons, List.nodup_cons] at hn hcF hcN
    simp only [Src.stream, Src.src]
    rw [hcF id (by simp) _, hcN id (by simp) _]
    simp only
    exact Src.m3c inner h.1 hn.2 σF σN (fun i hi => hcF i (List.mem_cons_of_mem _ hi)) (fun i hi => hcN i (List.mem_cons_of_mem _ hi))
theorem SrcList.m3sc : ∀ (l : SrcList), l.ModeHypsC → l.idsL.Nodup → ∀ (σF σN : Store), Cold σF l.idsL → Cold σN l.idsL →
    ChildrenOK (l.streams ⟨true, true⟩ σF).1 (l.streams ⟨true, false⟩ σN).1 l.srcList
    ∧ ∀ c ∈ (l.streams ⟨true, true⟩ σF).1, sortedFrom 1 0 (chunkMs c.evs)
  | .nil, _, _, σF, σN, _, _ => ⟨ChildrenOK.nil, fun c hc => by simp [SrcList.streams] at hc⟩
  | .cons s rest, h, hn, σF, σN, hcF, hcN => by
    simp only [SrcList.ModeHypsC] at h
    simp only [SrcList.idsL, SrcList.cachedNodesL, List.map_append] at hn hcF hcN
    have hn1 := (List.nodup_append.1 hn).1
    have hn2 := (List.nodup_append.1 hn).2.1
    have hdisj := (List.nodup_append.1 hn).2.2
    have hcF1 := (cold_sub _ _ _ hcF).1
    have hcN1 := (cold_sub _ _ _ hcN).1
    have hs := Src.m3c s h.1 hn1 σF σN hcF1 hcN1
    have hcF2 : Cold (s.stream ⟨true, true⟩ σF).2 rest.idsL :=
      cold_after s _ σF _ (cold_sub _ _ _ hcF).2 (fun i hi hmem => hdisj i hmem i hi rfl)
    have hcN2 : Cold (s.stream ⟨true, false⟩ σN).2 rest.idsL :=
      cold_after s _ σN _ (cold_sub _ _ _ hcN).2 (fun i hi hmem => hdisj i hmem i hi rfl)
    obtain ⟨r1, r2⟩ := SrcList.m3sc rest h.2 hn2 _ _ hcF2 hcN2
    simp only [SrcList.streams, SrcList.srcList]
    refine ⟨ChildrenOK.cons _ _ _ _ _ _ (childOK_ofC s h.1 hn1 σF σN hcF1 hcN1 hs) r1, fun c hc => ?_⟩
    simp only [List.mem_cons] at hc
    rcases hc with rfl | hc
    · exact hs.sorted
    · exact r2 c hc
end

/-- `get_map` of any such tree on cold caches attributes like the normal stream on cold caches -/
theorem getMap_attrC (s : Src) (h : s.ModeHypC) (hn : s.ids.Nodup) (σF σN : Store) (hcF : Cold σF s.ids) (hcN : Cold σN s.ids) (final : Bool)
    (hsmall : ∀ m ∈ chunkMs (s.stream ⟨true, true⟩ σF).1.evs, m.small) :
    (∀ sm, (getMap s ⟨true, final⟩ σF).1 = some sm → attrFrom (decode sm.mappings) startPos s.src = attrOf (s.stream ⟨true, false⟩ σN).1.evs)
    ∧ ((getMap s ⟨true, final⟩ σF).1 = none → attrOf (s.stream ⟨true, false⟩ σN).1.evs = List.replicate s.src.length none) := by
  obtain ⟨b1, b2, b3, b4, _, _, _⟩ := Src.base_factsC s h hn σF σN hcF hcN
  have hm := Src.m3c s h hn σF σN hcF hcN
  have hN : attrFrom (chunkMs (s.stream ⟨true, false⟩ σN).1.evs) startPos s.src = attrOf (s.stream ⟨true, false⟩ σN).1.evs := by
    have := attr_of_stream _ b1 b2 b3
    rw [b4] at this
    exact this
  have hFN := (lookEq_iff s.src _ _).1 hm.look
  constructor
  · intro sm hsm
    simp only [getMap] at hsm
    rw [mapOfEvs_mappings _ sm hsm, ← hN, ← hFN]
    apply attrFrom_congr
    intro q _ _
    exact codec_step _ hsmall hm.sorted q.line q.col
  · intro hnone
    simp only [getMap] at hnone
    have henc := mapOfEvs_none _ hnone
    rw [← hN, ← hFN, ← attrFrom_nil_ms s.src startPos]
    apply attrFrom_congr
    intro q _ _
    have := codec_step _ hsmall hm.sorted q.line q.col
    rw [henc] at this
    rw [← this]
    rfl

end Rs
