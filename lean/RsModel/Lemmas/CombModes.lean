import RsModel.Lemmas.SMMapped
import RsModel.Lemmas.MappedNE
import RsModel.Lemmas.ModeConcat3
import RsModel.Lemmas.ModeSorted
/-!
# C03 for the combinator: the text-less stream answers like the normal stream

The combinator is a stateful transducer over the outer map's stream.  Its state changes only at announcements and at *mapped*
chunks, and what it delivers for a chunk does not depend on the chunk's text.  Both modes of the outer stream deliver the same
announcements and the same mapped chunks in the same order (`streamSM_mapped`), so the combinator goes through the same states
and delivers the same announcements and the same original locations for them (`combRun`); the two outputs differ only in the
unmapped chunks woven in between (`weave`).
-/
namespace Rs

/-! ### a delivered chunk does not depend on the outer chunk's text -/

def retext (t : Option Text) : Ev → Ev
  | .chunk _ m => .chunk t m
  | e => e

theorem map_retext_noChunk (t : Option Text) (l : List Ev) (h : ∀ tt mm, Ev.chunk tt mm ∉ l) : l.map (retext t) = l := by
  induction l with
  | nil => rfl
  | cons e es ih =>
    simp only [List.map_cons]
    rw [ih (fun tt mm hm => h tt mm (List.mem_cons_of_mem _ hm))]
    cases e with
    | chunk tt mm => exact absurd (List.mem_cons_self) (h tt mm)
    | source i s c => rfl
    | name i n => rfl

theorem combPass_retext (st : CombSt) (t : Option Text) (m : Mapping) (a b c d : Int) :
    combPass st t m a b c d = ((combPass st none m a b c d).1, (combPass st none m a b c d).2.map (retext t)) := by
  unfold combPass
  dsimp only
  generalize (if a < 0 then (-1 : Int) else (st.sourceIndexMapping[a.toNat]?).getD (-1)) = v
  by_cases hneg : v < 0
  · simp only [hneg, if_true, List.map_cons, List.map_nil, retext]
  · simp only [hneg, if_false]
    generalize (if d ≥ 0 then (st.nameIndexMapping[d.toNat]?).getD (-1) else (-1 : Int)) = f0
    by_cases hf : f0 = -2
    · subst hf
      simp only [beq_self_eq_true, if_true, List.map_append, List.map_cons, List.map_nil, retext]
      rw [map_retext_noChunk _ _ (globalName_noChunkMem _ _)]
    · have hfb : (f0 == -2) = false := by simpa using hf
      simp only [hfb, Bool.false_eq_true, if_false, List.map_cons, List.map_nil, retext]

theorem combNoInner_retext (cfg : CombCfg) (st : CombSt) (t : Option Text) (m : Mapping) (a b c d : Int) :
    combNoInner cfg st t m a b c d = ((combNoInner cfg st none m a b c d).1, (combNoInner cfg st none m a b c d).2.map (retext t)) := by
  unfold combNoInner
  split
  · simp only [List.map_cons, List.map_nil, retext]
  · split
    · split
      · exact combPass_retext _ t m a b c d
      · simp only [List.map_cons, retext]
        rw [combPass_retext _ t m a b c d]
    · exact combPass_retext _ t m a b c d

theorem combFound_retext (st : CombSt) (t : Option Text) (m : Mapping) (seg : InnerSeg) (ic : Text) (a b : Int) :
    combFound st t m seg ic a b = ((combFound st none m seg ic a b).1, (combFound st none m seg ic a b).2.map (retext t)) := by
  unfold combFound
  dsimp only
  simp only [List.map_append, List.map_cons, List.map_nil, retext]
  have h1 : ∀ tt mm, Ev.chunk tt mm ∉ (combSrcResolve st seg.src.toNat).2.1 := by
    intro tt mm h
    have := mem_keys _ tt mm h
    rw [combSrcResolve_keys] at this
    simp at this
  have h2 : ∀ (s : CombSt) (x y z : Int) tt mm, Ev.chunk tt mm ∉ (combNameResolve s seg.src.toNat seg x y z).2.1 := by
    intro s x y z tt mm h
    have := mem_keys _ tt mm h
    rw [combNameResolve_keys] at this
    simp at this
  rw [map_retext_noChunk _ _ h1, map_retext_noChunk _ _ (h2 _ _ _ _)]

theorem combOnChunk_retext (cfg : CombCfg) (st : CombSt) (t : Option Text) (m : Mapping) :
    combOnChunk cfg st t m = ((combOnChunk cfg st none m).1, (combOnChunk cfg st none m).2.map (retext t)) := by
  rw [combOnChunk_eq, combOnChunk_eq]
  unfold combOnChunkI
  split
  · split
    · exact combNoInner_retext cfg st t m _ _ _ _
    · split
      · exact combFound_retext st t m _ _ _ _
      · exact combNoInner_retext cfg st t m _ _ _ _
  · exact combPass_retext st t m _ _ _ _

theorem chunkMs_retext (t : Option Text) : ∀ (l : List Ev), chunkMs (l.map (retext t)) = chunkMs l := by
  intro l
  induction l with
  | nil => rfl
  | cons e es ih => cases e <;> simp [retext, chunkMs, ih]

theorem declsOf_retext (t : Option Text) : ∀ (l : List Ev), declsOf (l.map (retext t)) = declsOf l := by
  intro l
  induction l with
  | nil => rfl
  | cons e es ih => cases e <;> simp [retext, declsOf, ih]

/-! ### one chunk in, one chunk out -/

theorem chunkMs_of_keys : ∀ (evs : List Ev) (t : Option Text) (gl gc : Nat), evsKeys evs = [(t, gl, gc)] → ∃ o, chunkMs evs = [⟨gl, gc, o⟩] := by
  intro evs
  induction evs with
  | nil => intro t gl gc h; simp [evsKeys] at h
  | cons e es ih =>
    intro t gl gc h
    cases e with
    | chunk tt mm =>
      simp only [evsKeys, List.filterMap_cons, Ev.key] at h
      have h1 : (tt, mm.gl, mm.gc) = (t, gl, gc) := (List.cons.inj h).1
      have h2 : List.filterMap Ev.key es = [] := (List.cons.inj h).2
      have hnc : chunkMs es = [] := by
        apply chunkMs_noChunk
        intro e he
        cases e with
        | chunk t2 m2 =>
          have : (t2, m2.gl, m2.gc) ∈ List.filterMap Ev.key es := List.mem_filterMap.2 ⟨_, he, rfl⟩
          rw [h2] at this; cases this
        | source i s c => rfl
        | name i n => rfl
      simp only [Prod.mk.injEq] at h1
      refine ⟨mm.orig, ?_⟩
      simp only [chunkMs, hnc]
      cases mm; simp only at h1; obtain ⟨_, rfl, rfl⟩ := h1; rfl
    | source i s c =>
      simp only [evsKeys, List.filterMap_cons, Ev.key] at h
      obtain ⟨o, ho⟩ := ih t gl gc h
      exact ⟨o, by simp only [chunkMs]; exact ho⟩
    | name i n =>
      simp only [evsKeys, List.filterMap_cons, Ev.key] at h
      obtain ⟨o, ho⟩ := ih t gl gc h
      exact ⟨o, by simp only [chunkMs]; exact ho⟩

/-- the original location the combinator delivers for one outer chunk -/
def outOrig (evs : List Ev) : Option Orig := (chunkMs evs).head?.bind (·.orig)

theorem combOnChunk_chunkMs (cfg : CombCfg) (st : CombSt) (t : Option Text) (m : Mapping) :
    chunkMs (combOnChunk cfg st t m).2 = [⟨m.gl, m.gc, outOrig (combOnChunk cfg st none m).2⟩] := by
  obtain ⟨o, ho⟩ := chunkMs_of_keys _ _ _ _ (combOnChunk_keys cfg st none m)
  rw [combOnChunk_retext, chunkMs_retext]
  simp only [outOrig, ho, List.head?_cons, Option.bind_some]

/-! ### the run over the mapped chunks, and the weave -/

/-- run the combinator over mapped mappings only: the original locations it delivers, its announcements, the final state -/
def combRun (cfg : CombCfg) : CombSt → List Mapping → List (Option Orig) × List Ev × CombSt
  | st, [] => ([], [], st)
  | st, m :: ms =>
    let r := combOnChunk cfg st none m
    let rest := combRun cfg r.1 ms
    (outOrig r.2 :: rest.1, declsOf r.2 ++ rest.2.1, rest.2.2)

/-- put delivered original locations back onto a list of chunk mappings: mapped ones take the next delivered location, unmapped ones stay unmapped -/
def weave : List Mapping → List (Option Orig) → List Mapping
  | [], _ => []
  | m :: ms, os =>
    if isMapped m then
      match os with
      | o :: os' => ⟨m.gl, m.gc, o⟩ :: weave ms os'
      | [] => ⟨m.gl, m.gc, none⟩ :: weave ms []
    else ⟨m.gl, m.gc, none⟩ :: weave ms os

theorem isi_keep_chunk (cfg : CombCfg) (st : CombSt) (h : ISI st) (t : Option Text) (m : Mapping) : ISI (combOnChunk cfg st t m).1 := by
  unfold ISI; rw [(combOnChunk_keep cfg st h t m).1]; exact h

/-- **a stream of chunks through the combinator** = the weave of its chunk mappings with the run over its mapped chunks -/
theorem combFold_weave (cfg : CombCfg) : ∀ (evs : List Ev) (st : CombSt), ISI st → (∀ e ∈ evs, e.isChunk = true) →
    chunkMs (combFold cfg st evs) = weave (chunkMs evs) (combRun cfg st (mappedMs evs)).1
    ∧ declsOf (combFold cfg st evs) = (combRun cfg st (mappedMs evs)).2.1 := by
  intro evs
  induction evs with
  | nil => intro st _ _; exact ⟨rfl, rfl⟩
  | cons e es ih =>
    intro st hi hc
    have hc' : ∀ e ∈ es, e.isChunk = true := fun x hx => hc x (List.mem_cons_of_mem _ hx)
    cases e with
    | chunk t m =>
      simp only [combFold, combStep, chunkMs_app, declsOf_append]
      cases hmo : m.orig with
      | none =>
        -- unmapped: nothing happens
        have hm : m = ⟨m.gl, m.gc, none⟩ := by cases m; simp only at hmo; subst hmo; rfl
        have hne : st.innerSourceIndex ≠ -1 := by rcases hi with h | h <;> omega
        have hst : (combOnChunk cfg st t m).1 = st := by
          rw [hm]; simp [combOnChunk, hne.symm, combPass]
        have hout : (combOnChunk cfg st t m).2 = [.chunk t ⟨m.gl, m.gc, none⟩] := by
          rw [hm]; simp [combOnChunk, hne.symm, combPass]
        have hmm : mappedMs (Ev.chunk t m :: es) = mappedMs es := by
          simp only [mappedMs, chunkMs]
          rw [List.filter_cons_of_neg (by simp [isMapped, hmo])]
        obtain ⟨i1, i2⟩ := ih st hi hc'
        rw [hst, hout, hmm]
        refine ⟨?_, ?_⟩
        · simp only [chunkMs, List.cons_append, List.nil_append, weave, isMapped, hmo, Option.isSome_none, Bool.false_eq_true, if_false]
          rw [i1]
        · simp only [declsOf, List.nil_append]; exact i2
      | some o =>
        have hq : isMapped m = true := by simp [isMapped, hmo]
        have hmm : mappedMs (Ev.chunk t m :: es) = m :: mappedMs es := by
          simp only [mappedMs, chunkMs]
          rw [List.filter_cons_of_pos hq]
        have hst : (combOnChunk cfg st t m).1 = (combOnChunk cfg st none m).1 := by rw [combOnChunk_retext]
        have hdecl : declsOf (combOnChunk cfg st t m).2 = declsOf (combOnChunk cfg st none m).2 := by
          rw [combOnChunk_retext]; exact declsOf_retext t _
        obtain ⟨i1, i2⟩ := ih (combOnChunk cfg st none m).1 (isi_keep_chunk cfg st hi none m) hc'
        rw [hmm, combOnChunk_chunkMs, hst, hdecl]
        simp only [combRun, chunkMs, List.cons_append, List.nil_append, weave, hq, if_true]
        exact ⟨by rw [i1], by rw [i2]⟩
    | source i s c => have := hc _ (List.mem_cons_self); simp [Ev.isChunk] at this
    | name i n => have := hc _ (List.mem_cons_self); simp [Ev.isChunk] at this

/-! ### lookups in a weave -/

/-- the mapping a lookup answers with -/
def lastMatch (l c : Nat) : Option Mapping → List Mapping → Option Mapping
  | acc, [] => acc
  | acc, m :: ms => lastMatch l c (if m.gl = l ∧ m.gc ≤ c then some m else acc) ms

theorem lookupGo_lastMatch (l c : Nat) : ∀ (ms : List Mapping) (acc : Option Mapping),
    lookupGo l c (acc.map (·.orig)) ms = (lastMatch l c acc ms).map (·.orig) := by
  intro ms
  induction ms with
  | nil => intro acc; rfl
  | cons m ms ih =>
    intro acc
    simp only [lookupGo, lastMatch]
    by_cases h : m.gl = l ∧ m.gc ≤ c
    · simp only [h, and_self, if_true]; exact ih (some m)
    · simp only [h, if_false]; exact ih acc

theorem lookupCols_lastMatch (ms : List Mapping) (l c : Nat) : lookupCols ms l c = ((lastMatch l c none ms).map (·.orig)).join := by
  unfold lookupCols
  rw [← lookupGo_lastMatch]; rfl

theorem lastMatch_map (l c : Nat) (f : Mapping → Mapping) (hf : ∀ m, (f m).gl = m.gl ∧ (f m).gc = m.gc) : ∀ (ms : List Mapping) (acc : Option Mapping),
    lastMatch l c (acc.map f) (ms.map f) = (lastMatch l c acc ms).map f := by
  intro ms
  induction ms with
  | nil => intro acc; rfl
  | cons m ms ih =>
    intro acc
    simp only [List.map_cons, lastMatch, (hf m).1, (hf m).2]
    by_cases h : m.gl = l ∧ m.gc ≤ c
    · simp only [h, and_self, if_true]; exact ih (some m)
    · simp only [h, if_false]; exact ih acc

theorem lastMatch_split (l c : Nat) : ∀ (ms : List Mapping) (acc : Option Mapping) (a : Mapping), lastMatch l c acc ms = some a →
    (∃ pre post, ms = pre ++ a :: post ∧ a.gl = l ∧ a.gc ≤ c ∧ ∀ x ∈ post, ¬ (x.gl = l ∧ x.gc ≤ c))
    ∨ (acc = some a ∧ ∀ x ∈ ms, ¬ (x.gl = l ∧ x.gc ≤ c)) := by
  intro ms
  induction ms with
  | nil => intro acc a h; exact Or.inr ⟨h, fun x hx => (by simp at hx)⟩
  | cons m ms ih =>
    intro acc a h
    simp only [lastMatch] at h
    by_cases hm : m.gl = l ∧ m.gc ≤ c
    · simp only [hm, and_self, if_true] at h
      rcases ih (some m) a h with ⟨pre, post, e1, e2, e3, e4⟩ | ⟨e1, e2⟩
      · exact Or.inl ⟨m :: pre, post, by rw [e1]; rfl, e2, e3, e4⟩
      · simp only [Option.some.injEq] at e1; subst e1
        exact Or.inl ⟨[], ms, rfl, hm.1, hm.2, e2⟩
    · simp only [hm, if_false] at h
      rcases ih acc a h with ⟨pre, post, e1, e2, e3, e4⟩ | ⟨e1, e2⟩
      · exact Or.inl ⟨m :: pre, post, by rw [e1]; rfl, e2, e3, e4⟩
      · refine Or.inr ⟨e1, fun x hx => ?_⟩
        simp only [List.mem_cons] at hx
        rcases hx with rfl | hx
        · exact hm
        · exact e2 x hx

/-- in a list sorted by generated position the lookup answers with the right-most qualifying mapping: every qualifying mapping
stands at or before its column -/
theorem lastMatch_max (l c : Nat) (ms : List Mapping) (hs : ms.Pairwise mle) (a : Mapping) (h : lastMatch l c none ms = some a) :
    a ∈ ms ∧ a.gl = l ∧ a.gc ≤ c ∧ ∀ x ∈ ms, x.gl = l → x.gc ≤ c → x.gc ≤ a.gc := by
  rcases lastMatch_split l c ms none a h with ⟨pre, post, e1, e2, e3, e4⟩ | ⟨e1, _⟩
  · subst e1
    refine ⟨by simp, e2, e3, fun x hx h1 h2 => ?_⟩
    rcases List.mem_append.1 hx with hx | hx
    · have := (List.pairwise_append.1 hs).2.2 x hx a (by simp)
      unfold mle at this; omega
    · simp only [List.mem_cons] at hx
      rcases hx with rfl | hx
      · exact Nat.le_refl _
      · exact absurd ⟨h1, h2⟩ (e4 x hx)
  · cases e1

theorem lastMatch_none (l c : Nat) (ms : List Mapping) (h : lastMatch l c none ms = none) : ∀ x ∈ ms, ¬ (x.gl = l ∧ x.gc ≤ c) := by
  have : ∀ (ms : List Mapping) (acc : Option Mapping), lastMatch l c acc ms = none → acc = none ∧ ∀ x ∈ ms, ¬ (x.gl = l ∧ x.gc ≤ c) := by
    intro ms
    induction ms with
    | nil => intro acc h; exact ⟨h, fun x hx => (by simp at hx)⟩
    | cons m ms ih =>
      intro acc h
      simp only [lastMatch] at h
      by_cases hm : m.gl = l ∧ m.gc ≤ c
      · simp only [hm, and_self, if_true] at h
        exact absurd (ih _ h).1 (by simp)
      · simp only [hm, if_false] at h
        obtain ⟨i1, i2⟩ := ih acc h
        refine ⟨i1, fun x hx => ?_⟩
        simp only [List.mem_cons] at hx
        rcases hx with rfl | hx
        · exact hm
        · exact i2 x hx
  exact (this ms none h).2

/-- a function of the generated position that returns, for the k-th mapped mapping, the k-th delivered location -/
theorem exists_posFun : ∀ (M : List Mapping) (O : List (Option Orig)), M.Pairwise mlt → O.length = M.length →
    ∃ H : Nat → Nat → Option Orig, ∀ k (h1 : k < M.length) (h2 : k < O.length), H M[k].gl M[k].gc = O[k] := by
  intro M
  induction M with
  | nil => intro O _ _; exact ⟨fun _ _ => none, fun k h1 => (by simp at h1)⟩
  | cons m M ih =>
    intro O hp hl
    cases O with
    | nil => simp at hl
    | cons o O =>
      obtain ⟨hp1, hp2⟩ := List.pairwise_cons.1 hp
      obtain ⟨H, hH⟩ := ih O hp2 (by simpa using hl)
      refine ⟨fun l c => if l = m.gl ∧ c = m.gc then o else H l c, fun k h1 h2 => ?_⟩
      cases k with
      | zero => simp
      | succ k =>
        simp only [List.getElem_cons_succ]
        have hlt : k < M.length := by simpa using h1
        have := hp1 M[k] (List.getElem_mem hlt)
        unfold mlt at this
        have hne : ¬ (M[k].gl = m.gl ∧ M[k].gc = m.gc) := by omega
        simp only [hne, if_false]
        exact hH k hlt (by simpa using h2)

theorem weave_eq_map (H : Nat → Nat → Option Orig) : ∀ (A : List Mapping) (O : List (Option Orig)),
    O.length = (A.filter isMapped).length →
    (∀ k (h1 : k < (A.filter isMapped).length) (h2 : k < O.length), H (A.filter isMapped)[k].gl (A.filter isMapped)[k].gc = O[k]) →
    weave A O = A.map (fun a => ⟨a.gl, a.gc, if isMapped a then H a.gl a.gc else none⟩) := by
  intro A
  induction A with
  | nil => intro O _ _; rfl
  | cons a A ih =>
    intro O hl hH
    by_cases hq : isMapped a = true
    · rw [List.filter_cons_of_pos hq] at hl hH
      cases O with
      | nil => simp at hl
      | cons o O =>
        simp only [weave, hq, if_true, List.map_cons]
        have h0 := hH 0 (by simp) (by simp)
        simp only [List.getElem_cons_zero] at h0
        rw [h0]
        rw [ih O (by simpa using hl) (fun k h1 h2 => by
          have := hH (k + 1) (by simpa using h1) (by simpa using h2)
          simpa using this)]
    · have hq' : isMapped a = false := by simpa using hq
      rw [List.filter_cons_of_neg (by simp [hq'])] at hl hH
      simp only [weave, hq', Bool.false_eq_true, if_false, List.map_cons]
      rw [ih O hl hH]

/-- **lookups in two weaves agree** when the underlying lists answer alike, are sorted, and have the same mapped mappings, at
pairwise different positions -/
theorem weave_lookEq (T : Text) (A B : List Mapping) (O : List (Option Orig)) (hA : A.Pairwise mle) (hB : B.Pairwise mle)
    (hM : A.filter isMapped = B.filter isMapped) (hstrict : (A.filter isMapped).Pairwise mlt) (hlen : O.length = (A.filter isMapped).length)
    (hL : LookEq T A B) : LookEq T (weave A O) (weave B O) := by
  obtain ⟨H, hH⟩ := exists_posFun (A.filter isMapped) O hstrict hlen
  rw [weave_eq_map H A O hlen hH, weave_eq_map H B O (by rw [← hM]; exact hlen) (by rw [← hM]; exact hH)]
  intro j hj
  have hl := hL j hj
  generalize (adv startPos (T.take j)).line = l at hl ⊢
  generalize (adv startPos (T.take j)).col = c at hl ⊢
  rw [lookupCols_lastMatch, lookupCols_lastMatch] at hl ⊢
  have hf : ∀ m : Mapping, ((fun a : Mapping => (⟨a.gl, a.gc, if isMapped a then H a.gl a.gc else none⟩ : Mapping)) m).gl = m.gl
      ∧ ((fun a : Mapping => (⟨a.gl, a.gc, if isMapped a then H a.gl a.gc else none⟩ : Mapping)) m).gc = m.gc := fun m => ⟨rfl, rfl⟩
  have e1 := lastMatch_map l c _ hf A none
  have e2 := lastMatch_map l c _ hf B none
  simp only [Option.map_none] at e1 e2
  rw [e1, e2]
  cases ha : lastMatch l c none A with
  | none =>
    rw [ha] at hl
    cases hb : lastMatch l c none B with
    | none => rfl
    | some b =>
      rw [hb] at hl
      simp only [Option.map_none, Option.join_none, Option.map_some, Option.join_some] at hl ⊢
      have : isMapped b = false := by simp [isMapped, ← hl]
      simp [this]
  | some a =>
    rw [ha] at hl
    cases hb : lastMatch l c none B with
    | none =>
      rw [hb] at hl
      simp only [Option.map_none, Option.join_none, Option.map_some, Option.join_some] at hl ⊢
      have : isMapped a = false := by simp [isMapped, hl]
      simp [this]
    | some b =>
      rw [hb] at hl
      simp only [Option.map_some, Option.join_some] at hl ⊢
      by_cases hq : isMapped a = true
      · have hqb : isMapped b = true := by unfold isMapped at hq ⊢; rw [← hl]; exact hq
        obtain ⟨a1, a2, a3, a4⟩ := lastMatch_max l c A hA a ha
        obtain ⟨b1, b2, b3, b4⟩ := lastMatch_max l c B hB b hb
        have haB : a ∈ B := by
          have : a ∈ A.filter isMapped := List.mem_filter.2 ⟨a1, hq⟩
          rw [hM] at this; exact (List.mem_filter.1 this).1
        have hbA : b ∈ A := by
          have : b ∈ B.filter isMapped := List.mem_filter.2 ⟨b1, hqb⟩
          rw [← hM] at this; exact (List.mem_filter.1 this).1
        have h1 := b4 a haB a2 a3
        have h2 := a4 b hbA b2 b3
        have hgc : a.gc = b.gc := by omega
        simp only [hq, hqb, if_true, a2, b2, hgc]
      · have hq' : isMapped a = false := by simpa using hq
        have hqb : isMapped b = false := by unfold isMapped at hq' ⊢; rw [← hl]; exact hq'
        simp [hq', hqb]

/-! ### the two modes of the combinator -/

def combEnd (cfg : CombCfg) : CombSt → List Ev → CombSt
  | st, [] => st
  | st, e :: es => combEnd cfg (combStep cfg st e).1 es

theorem combFold_append (cfg : CombCfg) : ∀ (a b : List Ev) (st : CombSt),
    combFold cfg st (a ++ b) = combFold cfg st a ++ combFold cfg (combEnd cfg st a) b := by
  intro a
  induction a with
  | nil => intro b st; rfl
  | cons e es ih => intro b st; simp only [List.cons_append, combFold, combEnd, ih, List.append_assoc]

theorem isi_combEnd (cfg : CombCfg) : ∀ (evs : List Ev) (st : CombSt), ISI st → ISI (combEnd cfg st evs) := by
  intro evs
  induction evs with
  | nil => intro st h; exact h
  | cons e es ih =>
    intro st h
    simp only [combEnd]
    apply ih
    cases e with
    | chunk t m => simp only [combStep]; exact isi_keep_chunk cfg st h t m
    | source i s c =>
      simp only [combStep]
      unfold combOnSource ISI
      split
      · rw [combInnerFold_keep]; exact Or.inr (by simp only; omega)
      · exact h
    | name i n => exact h

theorem combRun_length (cfg : CombCfg) : ∀ (M : List Mapping) (st : CombSt), (combRun cfg st M).1.length = M.length := by
  intro M
  induction M with
  | nil => intro st; rfl
  | cons m M ih => intro st; simp only [combRun, List.length_cons, ih]

theorem weave_sorted : ∀ (A : List Mapping) (O : List (Option Orig)) (l c : Nat), sortedFrom l c A → sortedFrom l c (weave A O) := by
  intro A
  induction A with
  | nil => intro O l c _; trivial
  | cons a A ih =>
    intro O l c h
    simp only [weave]
    split
    · cases O with
      | nil => exact ⟨h.1, ih _ _ _ h.2⟩
      | cons o O => exact ⟨h.1, ih _ _ _ h.2⟩
    · exact ⟨h.1, ih _ _ _ h.2⟩

theorem chunkMs_of_noKeys (evs : List Ev) (h : evsKeys evs = []) : chunkMs evs = [] := by
  cases hq : chunkMs evs with
  | nil => rfl
  | cons m ms =>
    obtain ⟨k, hk, _⟩ := chunkMs_keys evs m (by rw [hq]; simp)
    rw [h] at hk; cases hk

theorem isChunk_of_origs (evs : List Ev) (h : ChunkOrigs (fun _ => True) evs) : ∀ e ∈ evs, e.isChunk = true := by
  intro e he
  obtain ⟨t, m, rfl, _⟩ := h e he
  rfl

theorem adv_ne_start (t : Text) (h : t ≠ []) : adv startPos t ≠ ⟨1, 0⟩ := by
  cases t with
  | nil => exact absurd rfl h
  | cons c cs =>
    have := adv_gt c cs startPos
    intro he
    rw [he] at this
    have e1 : startPos.line = 1 := rfl
    have e2 : startPos.col = 0 := rfl
    unfold posLt at this
    simp only at this
    omega

/-- the outer stream, both column modes: nothing at all for the empty text, otherwise the announcements followed by chunks only -/
theorem streamSM_shape (t : Text) (sm : SMap) (b : Bool) :
    ((streamSM t sm ⟨true, b⟩).evs = [] ∧ t = [])
    ∨ (t ≠ [] ∧ ∃ C, (streamSM t sm ⟨true, b⟩).evs = (smSourceEvs sm ++ smNameEvs sm) ++ C ∧ ∀ e ∈ C, e.isChunk = true) := by
  by_cases ht : t = []
  · subst ht
    left
    cases b
    · simp [streamSM, streamSMFull, splitLines, splitLinesAux]
    · have hg : genInfo [] = ⟨1, 0⟩ := by decide
      simp [streamSM, streamSMFinal, hg]
  · right
    refine ⟨ht, ?_⟩
    cases b
    · simp only [streamSM]
      unfold streamSMFull
      have he : (splitLines t).isEmpty = false := by
        rw [Bool.eq_false_iff]
        intro he
        have hsl : splitLines t = [] := by simpa using he
        have hj := splitLines_join t
        rw [hsl] at hj
        exact ht (by simpa using hj.symm)
      simp only [he, Bool.false_eq_true, if_false]
      exact ⟨_, rfl, isChunk_of_origs _ (smFullGo_origs _ _ _ _ _ _ (fun _ _ => trivial) (fun _ _ _ _ => trivial))⟩
    · simp only [streamSM]
      unfold streamSMFinal
      have hne := adv_ne_start t ht
      rw [← genInfo_adv] at hne
      have he : ((genInfo t).line == 1 && (genInfo t).col == 0) = false := by
        rw [Bool.eq_false_iff]
        intro hc
        simp only [Bool.and_eq_true, beq_iff_eq] at hc
        apply hne
        cases hg : genInfo t with
        | mk l c => rw [hg] at hc; simp only at hc; rw [hc.1, hc.2]
      simp only [he, Bool.false_eq_true, if_false]
      exact ⟨_, rfl, isChunk_of_origs _ (smFinalGo_origs _ _ _ _ (fun _ _ _ _ => trivial))⟩

theorem mappedMs_noChunk (evs : List Ev) (h : ∀ e ∈ evs, e.isChunk = false) : mappedMs evs = [] := by
  simp [mappedMs, chunkMs_noChunk evs h]

/-- **T3 for the combinator (columns = true)**: the text-less stream of a SourceMapSource with an inner map is sorted, announces
what the normal stream announces, and answers every lookup at a character position of the generated text like the normal stream —
for an ASCII text and an outer map that is strictly sorted with every mapped segment on a character of the text -/
theorem streamCombined_m3 (t : Text) (sm : SMap) (n : Text) (os : Option Text) (im : SMap) (rm : Bool)
    (ha : IsAscii t) (hl : t.length ≤ USIZE_MAX) (hs : sortedFrom 1 0 (decode sm.mappings)) (hstrict : (decode sm.mappings).Pairwise mlt)
    (hseg : ∀ m ∈ decode sm.mappings, SegOK (splitLines t) (adv startPos t).line (adv startPos t).col m) :
    sortedFrom 1 0 (chunkMs (streamCombined t sm n os im rm ⟨true, true⟩).evs)
    ∧ declsOf (streamCombined t sm n os im rm ⟨true, true⟩).evs = declsOf (streamCombined t sm n os im rm ⟨true, false⟩).evs
    ∧ LookEq t (chunkMs (streamCombined t sm n os im rm ⟨true, true⟩).evs) (chunkMs (streamCombined t sm n os im rm ⟨true, false⟩).evs) := by
  obtain ⟨mN, mF⟩ := streamSM_mapped t sm ha hl hs hstrict hseg
  have hlook := streamSM_lookEq t sm ha hl hs hseg
  have hsF := streamSM_final_sorted t sm hs
  have hin : MapInside t sm := fun x hx => (hseg x hx).1
  have hpN : PosOK (streamSM t sm ⟨true, false⟩) := streamSM_posOK t sm true ha hl (fun _ => hin)
  have hsN := chunkMs_sorted _ [] hpN.1 (streamSM_tl t sm true)
  simp only [streamCombined]
  rcases streamSM_shape t sm true with ⟨eF, hte⟩ | ⟨ht, CF, eF, cF⟩
  · rcases streamSM_shape t sm false with ⟨eN, _⟩ | ⟨ht', _⟩
    · rw [eF, eN]
      exact ⟨trivial, rfl, fun _ _ => rfl⟩
    · exact absurd hte ht'
  · rcases streamSM_shape t sm false with ⟨_, hte⟩ | ⟨_, CN, eN, cN⟩
    · exact absurd hte ht
    · have hP : ∀ e ∈ smSourceEvs sm ++ smNameEvs sm, e.isChunk = false := by
        intro e he
        rcases List.mem_append.1 he with h | h
        · exact smSourceEvs_nochunk sm e h
        · exact smNameEvs_nochunk sm e h
      generalize smSourceEvs sm ++ smNameEvs sm = P at eF eN hP
      rw [eF] at mF hsF hlook
      rw [eN] at mN hsN hlook
      rw [mappedMs_append, mappedMs_noChunk _ hP, List.nil_append] at mF mN
      rw [chunkMs_app, chunkMs_noChunk _ hP, List.nil_append] at hsF hsN hlook
      rw [eF, eN]
      generalize ({ genText := t, innerName := n, innerMap := im, remove := rm, columns := true } : CombCfg) = cfg
      have eFa := combFold_append cfg P CF { innerSource := os }
      have eNa := combFold_append cfg P CN { innerSource := os }
      have hisi := isi_combEnd cfg P { innerSource := os } (Or.inl rfl)
      generalize combEnd cfg { innerSource := os } P = st1 at eFa eNa hisi
      have hX : chunkMs (combFold cfg { innerSource := os } P) = [] := by
        apply chunkMs_of_noKeys
        rw [combFold_keys]
        unfold evsKeys
        rw [List.filterMap_eq_nil_iff]
        intro e he
        have := hP e he
        cases e with
        | chunk t m => simp [Ev.isChunk] at this
        | source i s c => rfl
        | name i n => rfl
      obtain ⟨wF, dF⟩ := combFold_weave cfg CF st1 hisi cF
      obtain ⟨wN, dN⟩ := combFold_weave cfg CN st1 hisi cN
      rw [mF] at wF dF
      rw [mN] at wN dN
      have hsFp := (sortedFrom_iff _ _ _).1 hsF
      have hsNp := (sortedFrom_iff _ _ _).1 hsN
      have hMF : (chunkMs CF).filter isMapped = (decode sm.mappings).filter isMapped := mF
      have hMN : (chunkMs CN).filter isMapped = (decode sm.mappings).filter isMapped := mN
      refine ⟨?_, ?_, ?_⟩
      · show sortedFrom 1 0 (chunkMs (combFold cfg { innerSource := os } (P ++ CF)))
        rw [eFa, chunkMs_app, hX, List.nil_append, wF]
        exact weave_sorted _ _ _ _ hsF
      · show declsOf (combFold cfg { innerSource := os } (P ++ CF)) = declsOf (combFold cfg { innerSource := os } (P ++ CN))
        rw [eFa, eNa, declsOf_append, declsOf_append, dF, dN]
      · show LookEq t (chunkMs (combFold cfg { innerSource := os } (P ++ CF))) (chunkMs (combFold cfg { innerSource := os } (P ++ CN)))
        rw [eFa, eNa, chunkMs_app, chunkMs_app, hX, List.nil_append, List.nil_append, wF, wN]
        apply weave_lookEq t _ _ _ hsFp.2 hsNp.2 (by rw [hMF, hMN])
        · rw [hMF]; exact List.Pairwise.sublist List.filter_sublist hstrict
        · rw [combRun_length, hMF]
        · rw [chunkMs_app, chunkMs_noChunk _ hP, List.nil_append] at hlook
          exact hlook

end Rs
