import RsModel.Lemmas.RopeSlice
/-! # Rope observers against the flat string: `ends_with`, equality with a string, `char_indices` (offsets) -/
namespace Rs
namespace Rope

theorem getLast?_append_ne (x y : Text) (h : y ≠ []) : (x ++ y).getLast? = y.getLast? := by
  rw [List.getLast?_append]
  cases hy : y.getLast? with
  | none => exact absurd (List.getLast?_eq_none_iff.1 hy) h
  | some b => rfl

theorem endsWith_aux (c : UInt8) : ∀ (qs : List (Text × Nat)),
    (match qs.find? (fun p => !p.1.isEmpty) with | some (l, _) => l.getLast? == some c | none => false)
      = ((flat qs.reverse).getLast? == some c) := by
  intro qs
  induction qs with
  | nil => rfl
  | cons q qs ih =>
    obtain ⟨t, o⟩ := q
    rw [List.reverse_cons, flat_append]
    have hf : flat [(t, o)] = t := by simp [flat]
    rw [hf]
    by_cases ht : t = []
    · subst ht
      simp only [List.find?_cons, List.isEmpty_nil, Bool.not_true, List.append_nil]
      exact ih
    · have : (!t.isEmpty) = true := by cases t <;> simp_all
      simp only [List.find?_cons, this]
      rw [getLast?_append_ne _ _ ht]

/-- **`ends_with(c)`** looks at the last byte of the flat string -/
theorem endsWith_spec (r : Rope) (c : UInt8) : r.endsWith c = (r.render.getLast? == some c) := by
  cases r with
  | light s => rfl
  | full ps =>
    have := endsWith_aux c ps.reverse
    rw [List.reverse_reverse] at this
    unfold endsWith
    rw [render_full]
    exact this

theorem eqStrGo_spec : ∀ (ps : List (Text × Nat)) (o : Text) (idx : Nat), idx + total ps = o.length →
    eqStrGo ps o idx = .ok (flat ps == o.drop idx) := by
  intro ps
  induction ps with
  | nil =>
    intro o idx h
    have : o.drop idx = [] := List.drop_eq_nil_of_le (by simp [total] at h; omega)
    simp [eqStrGo, flat, this]
  | cons p rest ih =>
    intro o idx h
    obtain ⟨c, st⟩ := p
    have ht : total ((c, st) :: rest) = c.length + total rest := by simp [total]
    rw [ht] at h
    unfold eqStrGo
    have h1 : ¬ idx + c.length > o.length := by omega
    simp only [h1, if_false]
    have hsplit : o.drop idx = bsub o idx (idx + c.length) ++ o.drop (idx + c.length) := by
      unfold bsub
      rw [Nat.add_sub_cancel_left, ← List.drop_drop, List.take_append_drop]
    have hlen : (bsub o idx (idx + c.length)).length = c.length := by
      unfold bsub; simp; omega
    have hflat : flat ((c, st) :: rest) = c ++ flat rest := by simp [flat]
    by_cases hc : c = bsub o idx (idx + c.length)
    · have hne : (c != bsub o idx (idx + c.length)) = false := by simpa using hc
      simp only [hne, Bool.false_eq_true, if_false]
      rw [ih o (idx + c.length) (by omega), hflat, hsplit, ← hc]
      congr 1
      exact Bool.eq_iff_iff.2 (by simp)
    · have hne : (c != bsub o idx (idx + c.length)) = true := by simpa using hc
      simp only [hne, if_true]
      congr 1
      rw [hflat, hsplit]
      symm
      rw [beq_eq_false_iff_ne]
      intro he
      exact hc (List.append_inj_left he (by rw [hlen]))

/-- **`rope == str`** is equality of the flat string with the string (and does not panic) -/
theorem eqStr_spec (r : Rope) (h : r.Inv) (o : Text) : eqStr r o = .ok (r.render == o) := by
  have hl := len_eq_render r h
  unfold eqStr
  by_cases hne : r.len = o.length
  · have : (r.len != o.length) = false := by simpa using hne
    simp only [this, Bool.false_eq_true, if_false]
    cases r with
    | light s => rfl
    | full ps =>
      simp only
      rw [eqStrGo_spec ps o 0 (by rw [render_full, flat_length] at hl; simp only [len] at hne hl; omega)]
      simp [render_full]
  · have : (r.len != o.length) = true := by simpa using hne
    simp only [this, if_true]
    congr 1
    symm
    rw [beq_eq_false_iff_ne]
    intro he
    rw [he] at hl; exact hne hl

/-! ### `char_indices`: the byte offsets -/
theorem strCharIndices_fst : ∀ (t : Text) (off i : Nat), (strCharIndices off i t).map (·.1) = (charStartsFrom i t).map (off + ·) := by
  intro t
  induction t with
  | nil => intro off i; rfl
  | cons b bs ih =>
    intro off i
    simp only [strCharIndices, charStartsFrom]
    split
    · exact ih off (i + 1)
    · simp [ih off (i + 1)]

theorem charStartsFrom_shift : ∀ (t : Text) (i k : Nat), charStartsFrom (i + k) t = (charStartsFrom i t).map (· + k) := by
  intro t
  induction t with
  | nil => intro i k; rfl
  | cons b bs ih =>
    intro i k
    simp only [charStartsFrom]
    have : i + k + 1 = (i + 1) + k := by omega
    split
    · rw [this]; exact ih (i + 1) k
    · rw [this, ih (i + 1) k]; simp

theorem charStartsFrom_append : ∀ (x y : Text) (i : Nat),
    charStartsFrom i (x ++ y) = charStartsFrom i x ++ charStartsFrom (i + x.length) y := by
  intro x
  induction x with
  | nil => intro y i; simp [charStartsFrom]
  | cons b bs ih =>
    intro y i
    simp only [List.cons_append, charStartsFrom, List.length_cons]
    have : i + (bs.length + 1) = i + 1 + bs.length := by omega
    split
    · rw [ih y (i + 1), this]
    · rw [ih y (i + 1), this]; rfl

/-- **`char_indices()`** reports the byte offsets of the chars of the flat string -/
theorem charIndices_offsets (r : Rope) (h : r.Inv) : (charIndices r).map (·.1) = charStarts r.render := by
  cases r with
  | light s =>
    simp only [charIndices, render, charStarts, strCharIndices_fst]
    simp
  | full ps =>
    simp only [Inv] at h
    simp only [charIndices, render_full, charStarts]
    suffices hs : ∀ (ps : List (Text × Nat)) (s : Nat), OffsOK s ps →
        ((ps.map fun p => strCharIndices p.2 0 p.1).flatten).map (·.1) = charStartsFrom s (flat ps) by
      exact hs ps 0 h
    intro ps
    induction ps with
    | nil => intro s _; rfl
    | cons p rest ih =>
      intro s hof
      obtain ⟨c, o⟩ := p
      obtain ⟨h1, h2⟩ := hof
      subst h1
      have hflat : flat ((c, o) :: rest) = c ++ flat rest := by simp [flat]
      rw [hflat, charStartsFrom_append, List.map_cons, List.flatten_cons, List.map_append, ih (o + c.length) h2,
        strCharIndices_fst]
      congr 1
      have := charStartsFrom_shift c 0 o
      rw [Nat.zero_add] at this
      rw [this]
      simp [Nat.add_comm]

end Rope
end Rs

namespace Rs
namespace Rope

theorem beq_append_split (x1 x2 y1 y2 : Text) (h : x1.length = y1.length) :
    (x1 ++ x2 == y1 ++ y2) = (x1 == y1 && x2 == y2) := by
  apply Bool.eq_iff_iff.2
  simp only [beq_iff_eq, Bool.and_eq_true]
  constructor
  · intro he; exact List.append_inj he h
  · rintro ⟨rfl, rfl⟩; rfl

theorem drop_flatten_cons (c : Text) (cs : List Text) (ic : Nat) (h : ic ≤ c.length) :
    (c :: cs).flatten.drop ic = c.drop ic ++ cs.flatten := by
  rw [List.flatten_cons, List.drop_append_of_le_length h]

/-- the chunk-walking comparison decides equality of the two remaining texts -/
theorem eqLoop_spec : ∀ (fuel : Nat) (cs : List Text) (ic : Nat) (os : List Text) (io bi total : Nat),
    cs.length + os.length < fuel → bi ≤ total →
    (∀ c cs', cs = c :: cs' → ic ≤ c.length) → (∀ o os', os = o :: os' → io ≤ o.length) →
    (cs.flatten.drop ic).length = total - bi → (os.flatten.drop io).length = total - bi →
    eqLoop fuel cs ic os io bi total = .ok (cs.flatten.drop ic == os.flatten.drop io) := by
  intro fuel
  induction fuel with
  | zero => intro cs ic os io bi total h; omega
  | succ fuel ih =>
    intro cs ic os io bi total hf hbi hic hio hla hlb
    unfold eqLoop
    by_cases hend : bi = total
    · simp only [hend, if_true]
      have e1 : cs.flatten.drop ic = [] := List.eq_nil_of_length_eq_zero (by omega)
      have e2 : os.flatten.drop io = [] := List.eq_nil_of_length_eq_zero (by omega)
      rw [e1, e2]; rfl
    · simp only [hend, if_false]
      cases cs with
      | nil => simp at hla; omega
      | cons c cs' =>
        cases os with
        | nil => simp at hlb; omega
        | cons o os' =>
          have hic' := hic c cs' rfl
          have hio' := hio o os' rfl
          rw [drop_flatten_cons c cs' ic hic'] at hla ⊢
          rw [drop_flatten_cons o os' io hio'] at hlb ⊢
          simp only [List.length_append, List.length_drop] at hla hlb
          simp only
          by_cases h1 : c.length - ic < o.length - io
          · simp only [h1, if_true]
            have hsplit : o.drop io = bsub o io (io + (c.length - ic)) ++ o.drop (io + (c.length - ic)) := by
              unfold bsub
              rw [Nat.add_sub_cancel_left, ← List.drop_drop, List.take_append_drop]
            have hlen : (bsub o io (io + (c.length - ic))).length = (c.drop ic).length := by
              unfold bsub; simp; omega
            rw [hsplit, List.append_assoc, beq_append_split _ _ _ _ hlen.symm]
            by_cases hcmp : bsub o io (io + (c.length - ic)) = c.drop ic
            · have hne : (bsub o io (io + (c.length - ic)) != c.drop ic) = false := by simpa using hcmp
              simp only [hne, Bool.false_eq_true, if_false]
              rw [ih cs' 0 (o :: os') (io + (c.length - ic)) (bi + (c.length - ic)) total (by simp only [List.length_cons] at hf ⊢; omega) (by omega)
                (fun _ _ _ => Nat.zero_le _) (fun o' os'' he => by cases he; omega)
                (by simp only [List.drop_zero]; omega)
                (by rw [drop_flatten_cons o os' _ (by omega)]; simp only [List.length_append, List.length_drop]; omega)]
              rw [drop_flatten_cons o os' _ (by omega), List.drop_zero, hcmp]
              simp
            · have hne : (bsub o io (io + (c.length - ic)) != c.drop ic) = true := by simpa using hcmp
              simp only [hne, if_true]
              have : (c.drop ic == bsub o io (io + (c.length - ic))) = false := by
                rw [beq_eq_false_iff_ne]; exact fun e => hcmp e.symm
              rw [this, Bool.false_and]
          · simp only [h1, if_false]
            by_cases h2 : c.length - ic = o.length - io
            · simp only [h2, if_true]
              have hlen : (c.drop ic).length = (o.drop io).length := by simp; omega
              rw [beq_append_split _ _ _ _ hlen]
              by_cases hcmp : c.drop ic = o.drop io
              · have hne : (c.drop ic != o.drop io) = false := by simpa using hcmp
                simp only [hne, Bool.false_eq_true, if_false]
                rw [ih cs' 0 os' 0 (bi + (o.length - io)) total (by simp only [List.length_cons] at hf ⊢; omega) (by omega)
                  (fun _ _ _ => Nat.zero_le _) (fun _ _ _ => Nat.zero_le _) (by simp only [List.drop_zero]; omega)
                  (by simp only [List.drop_zero]; omega)]
                simp [hcmp]
              · have hne : (c.drop ic != o.drop io) = true := by simpa using hcmp
                simp only [hne, if_true]
                have : (c.drop ic == o.drop io) = false := by rw [beq_eq_false_iff_ne]; exact hcmp
                rw [this, Bool.false_and]
            · simp only [h2, if_false]
              have hsplit : c.drop ic = bsub c ic (ic + (o.length - io)) ++ c.drop (ic + (o.length - io)) := by
                unfold bsub
                rw [Nat.add_sub_cancel_left, ← List.drop_drop, List.take_append_drop]
              have hlen : (bsub c ic (ic + (o.length - io))).length = (o.drop io).length := by
                unfold bsub; simp; omega
              rw [hsplit, List.append_assoc, beq_append_split _ _ _ _ hlen]
              by_cases hcmp : bsub c ic (ic + (o.length - io)) = o.drop io
              · have hne : (bsub c ic (ic + (o.length - io)) != o.drop io) = false := by simpa using hcmp
                simp only [hne, Bool.false_eq_true, if_false]
                rw [ih (c :: cs') (ic + (o.length - io)) os' 0 (bi + (o.length - io)) total (by simp only [List.length_cons] at hf ⊢; omega) (by omega)
                  (fun c' cs'' he => by cases he; omega) (fun _ _ _ => Nat.zero_le _)
                  (by rw [drop_flatten_cons c cs' _ (by omega)]; simp only [List.length_append, List.length_drop]; omega)
                  (by simp only [List.drop_zero]; omega)]
                rw [drop_flatten_cons c cs' _ (by omega), List.drop_zero, hcmp]
                simp
              · have hne : (bsub c ic (ic + (o.length - io)) != o.drop io) = true := by simpa using hcmp
                simp only [hne, if_true]
                have : (bsub c ic (ic + (o.length - io)) == o.drop io) = false := by rw [beq_eq_false_iff_ne]; exact hcmp
                rw [this, Bool.false_and]

theorem pieces_flatten (r : Rope) : r.pieces.flatten = r.render := by
  cases r with
  | light s => simp [pieces, render]
  | full ps => simp [pieces, render]

/-- **`rope == rope`** is equality of the flat strings (and does not panic) -/
theorem eqRope_spec (a b : Rope) (ha : a.Inv) (hb : b.Inv) : eqRope a b = .ok (a.render == b.render) := by
  have la := len_eq_render a ha
  have lb := len_eq_render b hb
  unfold eqRope
  by_cases hne : a.len = b.len
  · have : (a.len != b.len) = false := by simpa using hne
    simp only [this, Bool.false_eq_true, if_false]
    have hgen : eqLoop (a.pieces.length + b.pieces.length + 2) a.pieces 0 b.pieces 0 0 a.len = .ok (a.render == b.render) := by
      rw [eqLoop_spec _ a.pieces 0 b.pieces 0 0 a.len (by omega) (Nat.zero_le _) (fun _ _ _ => Nat.zero_le _) (fun _ _ _ => Nat.zero_le _)
        (by rw [List.drop_zero, pieces_flatten]; omega) (by rw [List.drop_zero, pieces_flatten]; omega)]
      simp [pieces_flatten]
    cases a with
    | light s =>
      cases b with
      | light o => rfl
      | full os => exact hgen
    | full ps => exact hgen
  · have : (a.len != b.len) = true := by simpa using hne
    simp only [this, if_true]
    congr 1
    symm
    rw [beq_eq_false_iff_ne]
    intro he
    rw [he] at la; exact hne (by omega)

end Rope
end Rs
