import RsModel.Lemmas.MappedNE
import RsModel.Lemmas.ModeCold
/-!
# Mapped chunks of the text-less stream stand strictly inside the text

`StrictK T evs`: every *mapped* chunk of `evs` is reported at the position of a character of `T` (the position reached after a
proper prefix) — so the segment `get_map` writes for it governs at least one character.
-/
namespace Rs

def StrictK (T : Text) (evs : List Ev) : Prop :=
  ∀ t m, Ev.chunk t m ∈ evs → m.orig.isSome = true → ∃ k, k < T.length ∧ adv startPos (T.take k) = ⟨m.gl, m.gc⟩

theorem strictK_nil (T : Text) : StrictK T [] := fun t m h => by simp at h
theorem strictK_append (T : Text) (a b : List Ev) (ha : StrictK T a) (hb : StrictK T b) : StrictK T (a ++ b) := by
  intro t m h
  rcases List.mem_append.1 h with h | h
  · exact ha t m h
  · exact hb t m h
theorem strictK_unmapped (T : Text) (evs : List Ev) (h : ∀ t m, Ev.chunk t m ∈ evs → m.orig = none) : StrictK T evs := by
  intro t m hm ho; rw [h t m hm] at ho; cases ho
theorem strictK_noChunk (T : Text) (evs : List Ev) (h : ∀ e ∈ evs, e.isChunk = false) : StrictK T evs := by
  intro t m hm; have := h _ hm; simp [Ev.isChunk] at this
theorem strictK_mono (A B : Text) (evs : List Ev) (h : StrictK A evs) : StrictK (A ++ B) evs := by
  intro t m hm ho
  obtain ⟨k, hk, e⟩ := h t m hm ho
  exact ⟨k, by simp; omega, by rw [List.take_append_of_le_length (by omega)]; exact e⟩

/-- a normal-mode stream honouring C02 whose mapped chunks carry text -/
theorem strictK_of_posOK : ∀ (evs : List Ev) (pre : Text), posOKT pre evs → evsTL evs = false → MappedNE evs →
    ∀ t m, Ev.chunk t m ∈ evs → m.orig.isSome = true →
      ∃ k, pre.length ≤ k ∧ k < (pre ++ evsText evs).length ∧ adv startPos ((pre ++ evsText evs).take k) = ⟨m.gl, m.gc⟩ := by
  intro evs
  induction evs with
  | nil => intro pre _ _ _ t m h; simp at h
  | cons e es ih =>
    intro pre hp hTL hMN t m hm ho
    have hTLs : evsTL es = false := by simp only [evsTL_cons, Bool.or_eq_false_iff] at hTL; exact hTL.2
    have hMNs : MappedNE es := fun t' m' h' => hMN t' m' (by simp [h'])
    cases e with
    | chunk t0 m0 =>
      cases t0 with
      | none => simp [evsTL_cons, Ev.textless] at hTL
      | some t0 =>
        simp only [posOKT] at hp
        rw [evsText_cons]
        simp only [Ev.text]
        simp only [List.mem_cons] at hm
        rcases hm with hm | hm
        · cases hm
          have hne := hMN t0 m (by simp) ho
          refine ⟨pre.length, Nat.le_refl _, ?_, ?_⟩
          · have : 0 < t0.length := List.length_pos_iff.2 hne
            simp; omega
          · rw [List.take_left']; exact hp.1.symm
            rfl
        · obtain ⟨k, h1, h2, h3⟩ := ih (pre ++ t0) hp.2 hTLs hMNs t m hm ho
          refine ⟨k, by simp at h1; omega, by simpa [List.append_assoc] using h2, by simpa [List.append_assoc] using h3⟩
    | source i s c =>
      rw [evsText_cons]
      simp only [Ev.text, List.nil_append]
      exact ih pre hp hTLs hMNs t m (by simpa using hm) ho
    | name i n =>
      rw [evsText_cons]
      simp only [Ev.text, List.nil_append]
      exact ih pre hp hTLs hMNs t m (by simpa using hm) ho

theorem strictK_normal (r : SResult) (hp : PosOK r) (hTL : evsTL r.evs = false) (hMN : MappedNE r.evs) : StrictK (evsText r.evs) r.evs := by
  intro t m hm ho
  obtain ⟨k, _, h2, h3⟩ := strictK_of_posOK r.evs [] hp.1 hTL hMN t m hm ho
  exact ⟨k, by simpa using h2, by simpa using h3⟩

/-! ## leaves, text-less mode, columns = true -/

theorem origTok_final_sub : ∀ (toks : List Text) (l c : Nat), ∀ t m, Ev.chunk t m ∈ (origTokChunks true l c toks).1 →
    ∃ t', Ev.chunk (some t') m ∈ (origTokChunks false l c toks).1 := by
  intro toks
  induction toks with
  | nil => intro l c t m h; simp [origTokChunks] at h
  | cons tok toks ih =>
    intro l c t m h
    simp only [origTokChunks, if_true, Bool.false_eq_true, if_false, List.mem_append] at h ⊢
    rcases h with h | h
    · split at h
      · simp at h
      · rename_i hc
        simp only [List.mem_singleton] at h
        cases h
        exact ⟨tok, Or.inl (by simp [hc])⟩
    · split at h
      · rename_i he
        obtain ⟨t', ht'⟩ := ih _ _ t m h
        exact ⟨t', Or.inr (by simp only [he, if_true]; exact ht')⟩
      · rename_i he
        obtain ⟨t', ht'⟩ := ih _ _ t m h
        exact ⟨t', Or.inr (by simp only [he, Bool.false_eq_true, if_false]; exact ht')⟩

theorem streamOriginal_strictK (t name : Text) : StrictK t (streamOriginal t name ⟨true, true⟩).evs := by
  have hn := strictK_normal _ (streamOriginal_posOK t name true) (streamOriginal_tl t name true) (streamOriginal_mappedNE t name true)
  rw [streamOriginal_text] at hn
  intro tt m hm ho
  simp only [streamOriginal, if_true, List.mem_cons] at hm
  rcases hm with hm | hm
  · cases hm
  · obtain ⟨t', ht'⟩ := origTok_final_sub _ _ _ tt m hm
    exact hn (some t') m (by simp only [streamOriginal, if_true]; exact List.mem_cons_of_mem _ ht') ho

/-- every chunk (mapped or not) the text-less splitter delivers stands on a character of the text -/
theorem smFinalGo_strictA (t : Text) (ha : IsAscii t) (hl : t.length ≤ USIZE_MAX) : ∀ (ms : List Mapping) (act : Nat),
    (∀ m ∈ ms, Inside (splitLines t) m) → ∀ tt m, Ev.chunk tt m ∈ smFinalGo (genInfo t) act ms →
      ∃ k, k < t.length ∧ adv startPos (t.take k) = ⟨m.gl, m.gc⟩ := by
  intro ms act hin tt m hm
  -- the delivered mapping lies on a position of the text, strictly before its end
  have hpos : ∀ (ms : List Mapping) (act : Nat), (∀ m ∈ ms, Inside (splitLines t) m) → ∀ tt m, Ev.chunk tt m ∈ smFinalGo (genInfo t) act ms →
      IsPos t ⟨m.gl, m.gc⟩ ∧ posLt ⟨m.gl, m.gc⟩ ⟨(genInfo t).line, (genInfo t).col⟩ := by
    intro ms
    induction ms with
    | nil => intro act _ tt m h; simp [smFinalGo] at h
    | cons x xs ih =>
      intro act hin tt m h
      have hrest : ∀ m' ∈ xs, Inside (splitLines t) m' := fun m' h' => hin m' (by simp [h'])
      simp only [smFinalGo] at h
      split at h
      · exact ih act hrest tt m h
      · rename_i hcond
        have hlt : posLt ⟨x.gl, x.gc⟩ ⟨(genInfo t).line, (genInfo t).col⟩ := by
          simp only [Bool.and_eq_true, Bool.or_eq_true, decide_eq_true_eq, not_and, not_or, Nat.not_le, Nat.not_lt] at hcond
          rcases Nat.lt_or_ge x.gl (genInfo t).line with g | g
          · exact Or.inl g
          · have := hcond g
            exact Or.inr ⟨by simp only; omega, this.1⟩
        have hxpos : IsPos t ⟨x.gl, x.gc⟩ := by
          have hxin := hin x (by simp)
          have hlen : x.gl ≤ (splitLines t).length := by
            have hfl := finalLine_le t
            rcases hlt with g | g <;> simp only at g
            · split at hfl <;> omega
            · have : ((genInfo t).col == 0) = false := by simp; omega
              simp only [this, Bool.false_eq_true, if_false] at hfl
              omega
          exact isPos_inside t ha hl x hxin hlen
        split at h
        · simp only [List.mem_cons] at h
          rcases h with h | h
          · cases h; exact ⟨hxpos, hlt⟩
          · exact ih _ hrest tt m h
        · split at h
          · simp only [List.mem_cons] at h
            rcases h with h | h
            · cases h; exact ⟨hxpos, hlt⟩
            · exact ih _ hrest tt m h
          · exact ih _ hrest tt m h
  obtain ⟨⟨k, hk, e⟩, hlt⟩ := hpos ms act hin tt m hm
  rcases Nat.lt_or_ge k t.length with g | g
  · exact ⟨k, g, e⟩
  · exfalso
    have : k = t.length := by omega
    subst this
    rw [List.take_length, ← genInfo_adv] at e
    rw [← e] at hlt
    rcases hlt with g' | g' <;> simp only at g' <;> omega

theorem smFinalGo_strict (t : Text) (ha : IsAscii t) (hl : t.length ≤ USIZE_MAX) (ms : List Mapping) (act : Nat)
    (hin : ∀ m ∈ ms, Inside (splitLines t) m) : StrictK t (smFinalGo (genInfo t) act ms) :=
  fun tt m hm _ => smFinalGo_strictA t ha hl ms act hin tt m hm

theorem streamSM_strictK (t : Text) (sm : SMap) (ha : IsAscii t) (hl : t.length ≤ USIZE_MAX) (hm : MapInside t sm) :
    StrictK t (streamSM t sm ⟨true, true⟩).evs := by
  simp only [streamSM]
  unfold streamSMFinal
  dsimp only
  split
  · exact strictK_nil t
  · exact strictK_append _ _ _ (strictK_append _ _ _ (strictK_noChunk _ _ (sourceEvs_noChunk sm)) (strictK_noChunk _ _ (nameEvs_noChunk sm)))
      (smFinalGo_strict t ha hl _ 0 hm)

/-! ## ConcatSource (either mode) -/

theorem concatEv_strict (final : Bool) (st : CSt) (P : Pos) (hr : FRel st P) (gpre Tc : Text) (hP : adv startPos gpre = P) (e : Ev)
    (h : StrictK Tc [e]) : StrictK (gpre ++ Tc) (concatEv final st e).2 := by
  cases e with
  | chunk text m =>
    simp only [concatEv]
    apply strictK_append
    · split
      · exact strictK_unmapped _ _ (fun t m' hm => by simp only [List.mem_singleton] at hm; cases hm; rfl)
      · exact strictK_nil _
    · intro t m' hm ho
      simp only [List.mem_singleton] at hm
      split at hm
      · rename_i si o hsi hoo
        simp only [Ev.chunk.injEq] at hm
        obtain ⟨_, hmm⟩ := hm
        obtain ⟨k, hk, e⟩ := h text m (by simp) (by rw [hoo]; rfl)
        refine ⟨gpre.length + k, by simp; omega, ?_⟩
        rw [List.take_length_add_append, adv_append, hP, adv_shift _ P, e, hmm]
        obtain ⟨r1, r2⟩ := hr
        simp only [Pos.mk.injEq]
        have hgl : 1 ≤ m.gl := by
          have e1 : startPos.line = 1 := rfl
          have := adv_ge (Tc.take k) startPos
          rw [e] at this
          rcases this with g | g <;> simp only at g <;> omega
        refine ⟨by omega, ?_⟩
        by_cases h1 : m.gl = 1 <;> simp [h1, r2]
      · simp only [Ev.chunk.injEq] at hm
        obtain ⟨_, hmm⟩ := hm
        rw [hmm] at ho
        cases ho
  | source i s c =>
    simp only [concatEv, globalSource]
    split <;> exact strictK_noChunk _ _ (by simp [Ev.isChunk])
  | name i n =>
    simp only [concatEv, globalName]
    split <;> exact strictK_noChunk _ _ (by simp [Ev.isChunk])

theorem strictK_cons (T : Text) (e : Ev) (es : List Ev) (h : StrictK T (e :: es)) : StrictK T [e] ∧ StrictK T es :=
  ⟨fun t m hm => h t m (by simp only [List.mem_singleton] at hm; simp [hm]), fun t m hm => h t m (by simp [hm])⟩

theorem concatEvs_strict (final : Bool) : ∀ (evs : List Ev) (st : CSt) (P : Pos) (gpre Tc : Text), FRel st P → adv startPos gpre = P →
    StrictK Tc evs → StrictK (gpre ++ Tc) (concatEvs final st evs).2 := by
  intro evs
  induction evs with
  | nil => intro st P gpre Tc _ _ _; exact strictK_nil _
  | cons e es ih =>
    intro st P gpre Tc hr hP h
    obtain ⟨h1, h2⟩ := strictK_cons Tc e es h
    have hfr : FRel (concatEv final st e).1 P := by
      cases e with
      | chunk t m => rw [concatEv_chunk_st]; exact hr
      | source i s c => obtain ⟨_, _, d3, d4, _⟩ := concatEv_decl_ms final st (.source i s c) rfl; exact ⟨by rw [d3]; exact hr.1, by rw [d4]; exact hr.2⟩
      | name i n => obtain ⟨_, _, d3, d4, _⟩ := concatEv_decl_ms final st (.name i n) rfl; exact ⟨by rw [d3]; exact hr.1, by rw [d4]; exact hr.2⟩
    simp only [concatEvs]
    exact strictK_append _ _ _ (concatEv_strict final st P hr gpre Tc hP e h1) (ih _ P gpre Tc hfr hP h2)

/-- children paired with their texts, each strict -/
inductive StrictAll : List SResult → List Text → Prop where
  | nil : StrictAll [] []
  | cons (r : SResult) (T : Text) (rs : List SResult) (Ts : List Text) : FinOK T r → StrictK T r.evs → StrictAll rs Ts → StrictAll (r :: rs) (T :: Ts)

theorem StrictAll.fin {cs : List SResult} {Ts : List Text} (h : StrictAll cs Ts) : FinAll cs Ts := by
  induction h with
  | nil => exact FinAll.nil
  | cons r T rs Ts hf _ _ ih => exact FinAll.cons _ _ _ _ hf ih

theorem concatGo_strict (final : Bool) : ∀ (cs : List SResult) (Ts : List Text), StrictAll cs Ts → ∀ (st : CSt) (gpre : Text),
    FRel st (adv startPos gpre) → StrictK (gpre ++ Ts.flatten) (concatGo final st cs).2 := by
  intro cs Ts h
  induction h with
  | nil => intro st gpre _; exact strictK_nil _
  | cons r T rs Ts hf hs _ ih =>
    intro st gpre hrel
    obtain ⟨_, b⟩ := concatChild_fin final st _ gpre T r hrel rfl hf
    simp only [concatGo, List.flatten_cons]
    rw [← List.append_assoc]
    apply strictK_append
    · apply strictK_mono
      simp only [concatChild]
      apply strictK_append
      · exact concatEvs_strict final r.evs (childStart st) _ gpre T hrel rfl hs
      · split
        · exact strictK_unmapped _ _ (fun t m' hm => by simp only [List.mem_singleton] at hm; cases hm; rfl)
        · exact strictK_nil _
    · exact ih _ (gpre ++ T) b

theorem concatStream_strict (final : Bool) (cs : List SResult) (Ts : List Text) (h : StrictAll cs Ts) :
    StrictK Ts.flatten (concatStream final cs).evs := by
  have := concatGo_strict final cs Ts h {} [] ⟨rfl, rfl⟩
  simpa [concatStream] using this

/-! ## the combinator keeps the positions of mapped chunks -/

theorem combFold_mappedPos (cfg : CombCfg) (Q : Nat → Nat → Prop) : ∀ (evs : List Ev) (st : CombSt), ISI st →
    (∀ t m, Ev.chunk t m ∈ evs → m.orig.isSome = true → Q m.gl m.gc) →
    ∀ t m, Ev.chunk t m ∈ combFold cfg st evs → m.orig.isSome = true → Q m.gl m.gc := by
  intro evs
  induction evs with
  | nil => intro st _ _ t m h; simp [combFold] at h
  | cons e es ih =>
    intro st hi hq t m h ho
    have hq' : ∀ t m, Ev.chunk t m ∈ es → m.orig.isSome = true → Q m.gl m.gc := fun t m hm => hq t m (List.mem_cons_of_mem _ hm)
    simp only [combFold] at h
    rcases List.mem_append.1 h with h | h
    · cases e with
      | chunk text m0 =>
        simp only [combStep] at h
        obtain ⟨_, k2⟩ := combOnChunk_keep cfg st hi text m0
        have hk := mem_keys _ t m h
        rw [combOnChunk_keys] at hk
        simp only [List.mem_singleton, Prod.mk.injEq] at hk
        rw [hk.2.1, hk.2.2]
        exact hq text m0 (by simp) ((k2 t m h).2 ho)
      | source i s c =>
        simp only [combStep] at h
        exfalso
        have := mem_keys _ t m h
        unfold combOnSource at this
        split at this
        · simp [evsKeys] at this
        · rw [globalSource_keys] at this; simp at this
      | name i n => simp [combStep] at h
    · refine ih _ ?_ hq' t m h ho
      cases e with
      | chunk text m0 => simp only [combStep]; unfold ISI; rw [(combOnChunk_keep cfg st hi text m0).1]; exact hi
      | source i s c =>
        simp only [combStep]
        unfold combOnSource ISI
        split
        · rw [combInnerFold_keep]; exact Or.inr (by simp only; omega)
        · exact hi
      | name i n => exact hi

theorem streamCombined_strictK (t : Text) (sm : SMap) (n : Text) (os : Option Text) (im : SMap) (rm : Bool)
    (h : StrictK t (streamSM t sm ⟨true, true⟩).evs) : StrictK t (streamCombined t sm n os im rm ⟨true, true⟩).evs := by
  intro tt m hm ho
  simp only [streamCombined] at hm
  exact combFold_mappedPos _ (fun l c => ∃ k, k < t.length ∧ adv startPos (t.take k) = ⟨l, c⟩) _ _ (Or.inl rfl)
    (fun t' m' hm' ho' => h t' m' hm' ho') tt m hm ho

/-! ## whole trees, cold caches -/
mutual
theorem Src.strictC : ∀ (s : Src), s.ModeHypC → s.ids.Nodup → ∀ (σ : Store), Cold σ s.ids → StrictK s.src (s.stream ⟨true, true⟩ σ).1.evs
  | .raw _ _ lossy, _, _, σ, _ => by simp only [Src.stream, streamRaw, if_true]; exact strictK_nil _
  | .rawStr t, _, _, σ, _ => by simp only [Src.stream, streamRaw, if_true]; exact strictK_nil _
  | .rawBuf _ lossy, _, _, σ, _ => by simp only [Src.stream, streamRaw, if_true]; exact strictK_nil _
  | .orig t name, _, _, σ, _ => by simp only [Src.stream, Src.src]; exact streamOriginal_strictK t name
  | .sms t name map origSrc inner remove, h, _, σ, _ => by
    simp only [Src.ModeHypC] at h
    obtain ⟨_, ha, hl, _, hseg, _⟩ := h
    simp only [Src.stream, Src.src]
    cases inner with
    | none => exact streamSM_strictK t map ha hl (fun m hm => (hseg m hm).1)
    | some im => exact streamCombined_strictK t map name origSrc im remove (streamSM_strictK t map ha hl (fun m hm => (hseg m hm).1))
  | .concat .nil, _, _, σ, _ => by simp only [Src.stream, concatStream, concatGo]; exact strictK_nil _
  | .concat (.cons s rest), h, hn, σ, hc => by
    simp only [Src.ModeHypC, SrcList.ModeHypsC] at h
    simp only [Src.ids, Src.cachedNodes, SrcList.cachedNodesL, List.map_append] at hn hc
    have hn1 := (List.nodup_append.1 hn).1
    have hn2 := (List.nodup_append.1 hn).2.1
    have hdisj := (List.nodup_append.1 hn).2.2
    have hc1 := (cold_sub _ _ _ hc).1
    have hs := Src.strictC s h.1 hn1 σ hc1
    cases hr : rest with
    | nil => simp only [Src.stream, Src.src, SrcList.srcs, List.append_nil]; exact hs
    | cons s2 rest2 =>
      have hc2 : Cold (s.stream ⟨true, true⟩ σ).2 (SrcList.cons s2 rest2).idsL := by
        rw [← hr]; exact cold_after s _ σ _ (cold_sub _ _ _ hc).2 (fun i hi hmem => hdisj i hmem i hi rfl)
      have hrest := SrcList.strictsC (.cons s2 rest2) (hr ▸ h.2) (hr ▸ hn2) _ hc2
      obtain ⟨_, _, _, _, _, _, b7⟩ := Src.base_factsC s h.1 hn1 σ σ hc1 hc1
      simp only [Src.stream, Src.src]
      have hsrc : (SrcList.cons s (SrcList.cons s2 rest2)).srcs = (s.src :: (SrcList.cons s2 rest2).srcList).flatten := by
        rw [List.flatten_cons, SrcList.srcList_flatten]; rfl
      rw [hsrc]
      exact concatStream_strict true _ _ (StrictAll.cons _ _ _ _ b7 hs hrest)
  | .replace inner rs, h, hn, σ, hc => by
    obtain ⟨b1, _, b3, b4, _, _, _⟩ := Src.base_factsC (.replace inner rs) h hn σ σ hc hc
    have hMN : MappedNE ((Src.replace inner rs).stream ⟨true, false⟩ σ).1.evs := by
      simp only [Src.stream]; exact replaceStream_mappedNE _ _
    have := strictK_normal _ b1 b3 hMN
    rw [b4] at this
    simpa [Src.stream] using this
  | .cached id inner, h, hn, σ, hc => by
    simp only [Src.ModeHypC] at h
    simp only [Src.ids, Src.cachedNodes, List.map_cons, List.nodup_cons] at hn hc
    simp only [Src.stream, Src.src]
    rw [hc id (by simp) _]
    simp only
    exact Src.strictC inner h.1 hn.2 σ (fun i hi => hc i (List.mem_cons_of_mem _ hi))
theorem SrcList.strictsC : ∀ (l : SrcList), l.ModeHypsC → l.idsL.Nodup → ∀ (σ : Store), Cold σ l.idsL →
    StrictAll (l.streams ⟨true, true⟩ σ).1 l.srcList
  | .nil, _, _, σ, _ => StrictAll.nil
  | .cons s rest, h, hn, σ, hc => by
    simp only [SrcList.ModeHypsC] at h
    simp only [SrcList.idsL, SrcList.cachedNodesL, List.map_append] at hn hc
    have hn1 := (List.nodup_append.1 hn).1
    have hn2 := (List.nodup_append.1 hn).2.1
    have hdisj := (List.nodup_append.1 hn).2.2
    have hc1 := (cold_sub _ _ _ hc).1
    have hc2 : Cold (s.stream ⟨true, true⟩ σ).2 rest.idsL :=
      cold_after s _ σ _ (cold_sub _ _ _ hc).2 (fun i hi hmem => hdisj i hmem i hi rfl)
    obtain ⟨_, _, _, _, _, _, b7⟩ := Src.base_factsC s h.1 hn1 σ σ hc1 hc1
    simp only [SrcList.streams, SrcList.srcList]
    exact StrictAll.cons _ _ _ _ b7 (Src.strictC s h.1 hn1 σ hc1) (SrcList.strictsC rest h.2 hn2 _ hc2)
end

end Rs
