import RsModel.Lemmas.PosTree
/-!
# C02, text-less (final_source) mode

In final mode the chunks carry no text, so the contract is stated against the source's text `T`: every reported
position is a position of `T` (`IsPos`: the position reached after some prefix of `T`), and the returned
generated info is the position after the whole of `T`.
-/
namespace Rs

/-- `p` is the (line, column) reached after writing some prefix of `T` -/
def IsPos (T : Text) (p : Pos) : Prop := ∃ k, k ≤ T.length ∧ adv startPos (T.take k) = p

/-- the final-mode contract of C02 -/
def FinOK (T : Text) (r : SResult) : Prop :=
  (∀ k ∈ evsKeys r.evs, IsPos T ⟨k.2.1, k.2.2⟩) ∧ r.info = adv startPos T

theorem isPos_prefix (A B : Text) : IsPos (A ++ B) (adv startPos A) :=
  ⟨A.length, by simp, by simp⟩

theorem isPos_end (T : Text) : IsPos T (adv startPos T) := by
  have := isPos_prefix T []
  simpa using this

theorem isPos_start (T : Text) : IsPos T startPos := ⟨0, by simp, by simp [adv]⟩

theorem isPos_mid (A B C : Text) (p : Pos) (h : IsPos B p) (q : Pos) (hq : ∀ x, adv startPos (A ++ x) = adv (adv startPos A) x)
    (hp : ∀ x, adv startPos x = p → adv (adv startPos A) x = q) : IsPos (A ++ B ++ C) q := by
  obtain ⟨k, hk, he⟩ := h
  refine ⟨A.length + k, by simp; omega, ?_⟩
  have : (A ++ B ++ C).take (A.length + k) = A ++ B.take k := by
    rw [List.append_assoc, List.take_length_add_append, List.take_append_of_le_length hk]
  rw [this, hq, hp _ he]

/-! ## every chunk of a normal-mode stream sits at a position of the text -/

theorem posOKT_isPos : ∀ (evs : List Ev) (pre : Text), posOKT pre evs → evsTL evs = false →
    ∀ k ∈ evsKeys evs, ∃ j, j ≤ (evsText evs).length ∧ adv startPos (pre ++ (evsText evs).take j) = ⟨k.2.1, k.2.2⟩ := by
  intro evs
  induction evs with
  | nil => intro pre _ _ k hk; simp [evsKeys] at hk
  | cons e es ih =>
    intro pre hp hTL k hk
    simp only [evsTL_cons, Bool.or_eq_false_iff] at hTL
    cases e with
    | chunk t m =>
      cases t with
      | none => simp [Ev.textless] at hTL
      | some t =>
        simp only [posOKT] at hp
        simp only [evsKeys, List.filterMap_cons, Ev.key, List.mem_cons] at hk
        rw [evsText_cons]
        simp only [Ev.text]
        rcases hk with rfl | hk
        · exact ⟨0, by simp, by simp [hp.1]⟩
        · obtain ⟨j, hj, he⟩ := ih (pre ++ t) hp.2 hTL.2 k hk
          refine ⟨t.length + j, by simp; omega, ?_⟩
          rw [List.take_length_add_append, ← List.append_assoc]
          exact he
    | source i s c =>
      simp only [evsKeys, List.filterMap_cons, Ev.key] at hk
      rw [evsText_cons]
      simp only [Ev.text, List.nil_append]
      exact ih pre hp hTL.2 k hk
    | name i n =>
      simp only [evsKeys, List.filterMap_cons, Ev.key] at hk
      rw [evsText_cons]
      simp only [Ev.text, List.nil_append]
      exact ih pre hp hTL.2 k hk

/-- a normal-mode stream that satisfies C02 also satisfies the final-mode contract against its own text -/
theorem finOK_of_posOK (r : SResult) (h : PosOK r) (hTL : evsTL r.evs = false) : FinOK (evsText r.evs) r := by
  refine ⟨fun k hk => ?_, h.2⟩
  obtain ⟨j, hj, he⟩ := posOKT_isPos r.evs [] h.1 hTL k hk
  exact ⟨j, hj, by simpa using he⟩

/-- positions only: a stream whose chunk positions all occur in a stream satisfying the contract, with the same info -/
theorem finOK_sub (T : Text) (a b : SResult) (h : FinOK T b) (hi : a.info = b.info)
    (hs : ∀ k ∈ evsKeys a.evs, ∃ k' ∈ evsKeys b.evs, k'.2 = k.2) : FinOK T a := by
  refine ⟨fun k hk => ?_, hi ▸ h.2⟩
  obtain ⟨k', hk', he⟩ := hs k hk
  have := h.1 k' hk'
  rw [he] at this
  exact this

/-! ## genInfo -/

theorem getLast?_append_ne {α} (a b : List α) (h : b ≠ []) : (a ++ b).getLast? = b.getLast? := by
  rw [List.getLast?_append]
  cases hb : b.getLast? with
  | none => simp at hb; exact absurd hb h
  | some v => rfl

theorem lines_flatten_ne (ls : List Text) (h : Lines ls) (hne : ls ≠ []) : ls.flatten ≠ [] := by
  cases h with
  | nil => exact absurd rfl hne
  | last t ht _ => simpa using ht
  | lastNL t _ => simp
  | cons t rest _ _ _ => simp

theorem lines_last_nl : ∀ (ls : List Text), Lines ls →
    endsWithNL ls.flatten = (match ls.getLast? with | some last => endsWithNL last | none => false) := by
  intro ls h
  induction h with
  | nil => rfl
  | last t _ _ => simp
  | lastNL t _ => simp
  | cons t rest _ hne hl ih =>
    have hf := lines_flatten_ne rest hl hne
    have h1 : ((t ++ [NL]) :: rest).getLast? = rest.getLast? := by
      cases rest with
      | nil => exact absurd rfl hne
      | cons r rs => simp [List.getLast?_cons_cons]
    rw [h1, ← ih]
    simp only [List.flatten_cons, endsWithNL]
    rw [getLast?_append_ne _ _ hf]

theorem lines_last_ne (ls : List Text) (h : Lines ls) (last : Text) (hl : ls.getLast? = some last) : last ≠ [] := by
  induction h with
  | nil => simp at hl
  | last t ht _ => simp at hl; subst hl; exact ht
  | lastNL t _ => simp at hl; subst hl; simp
  | cons t rest _ hne _ ih =>
    have h1 : ((t ++ [NL]) :: rest).getLast? = rest.getLast? := by
      cases rest with
      | nil => exact absurd rfl hne
      | cons r rs => simp [List.getLast?_cons_cons]
    rw [h1] at hl
    exact ih hl

theorem genInfo_eq (t : Text) : genInfo t = lineLoopInfo (splitLines t) := by
  have hL := lines_of_splitLines t
  have hnl := lines_last_nl _ hL
  rw [splitLines_join] at hnl
  unfold genInfo lineLoopInfo
  simp only [hnl]
  cases hl : (splitLines t).getLast? with
  | none => simp only [Bool.false_eq_true, if_false]; simp at hl; simp [hl]
  | some last =>
    simp only
    split
    · rfl
    · have : (splitLines t) ≠ [] := by intro e; rw [e] at hl; simp at hl
      have : 1 ≤ (splitLines t).length := by
        cases hs : splitLines t with
        | nil => exact absurd hs this
        | cons _ _ => simp
      simp [Nat.max_eq_left this]

theorem genInfo_adv (t : Text) : genInfo t = adv startPos t := by rw [genInfo_eq, adv_text_end]

/-- the last line that final-mode line streaming may report is a line of the text -/
theorem finalLine_le (t : Text) :
    (if (genInfo t).col == 0 then (genInfo t).line - 1 else (genInfo t).line) ≤ (splitLines t).length := by
  rw [genInfo_eq]
  unfold lineLoopInfo
  cases hl : (splitLines t).getLast? with
  | none => simp
  | some last =>
    simp only
    split
    · simp
    · split <;> simp only <;> omega

/-- every line start is a position of the text -/
theorem isPos_line_start (t : Text) (l : Nat) (h1 : 1 ≤ l) (hl : l ≤ (splitLines t).length) : IsPos t ⟨l, 0⟩ := by
  obtain ⟨_, hadv⟩ := lines_get (splitLines t) (lines_of_splitLines t) (l - 1) (by omega)
  have hsplit : t = ((splitLines t).take (l - 1)).flatten ++ ((splitLines t).drop (l - 1)).flatten := by
    rw [← List.flatten_append, List.take_append_drop, splitLines_join]
  have := isPos_prefix ((splitLines t).take (l - 1)).flatten ((splitLines t).drop (l - 1)).flatten
  rw [← hsplit, hadv startPos] at this
  by_cases h0 : l - 1 = 0
  · have : l = 1 := by omega
    subst this
    simpa [startPos] using this
  · simp only [h0, if_false, startPos] at this
    have e : 1 + (l - 1) = l := by omega
    rw [e] at this
    exact this

end Rs
