import RsModel.Lemmas.CombModes
import RsModel.Lemmas.LinesLeaves
/-! # C03 for the combinator, columns = false -/
namespace Rs

/-! ### columns = false -/

theorem smLines_mapped (lines : List Text) : ∀ (ms : List Mapping) (cur : Nat),
    mappedMs (smLinesFinalGo lines.length cur ms) = mappedMs (smLinesFullGo lines cur ms).1 := by
  intro ms
  induction ms with
  | nil => intro cur; rfl
  | cons m ms ih =>
    intro cur
    simp only [smLinesFinalGo, smLinesFullGo]
    cases hmo : m.orig with
    | none => simp only; exact ih cur
    | some o =>
      simp only
      by_cases hc : cur ≤ m.gl ∧ m.gl ≤ lines.length
      · have h1 : (decide (cur ≤ m.gl) && decide (m.gl ≤ lines.length)) = true := by simp [hc.1, hc.2]
        have h2 : (decide (m.gl < cur) || decide (m.gl > lines.length)) = false := by
          rw [Bool.eq_false_iff]; intro h; simp only [Bool.or_eq_true, decide_eq_true_eq] at h; omega
        simp only [h1, h2, if_true, Bool.false_eq_true, if_false]
        have hmax : max cur m.gl = m.gl := by omega
        rw [mappedMs_append, mappedMs_unmapped _ (chunkMs_wholeLines lines _ _), List.nil_append, hmax]
        have e1 : ∀ (t : Option Text) (mm : Mapping) (r : List Ev), isMapped mm = true → mappedMs (Ev.chunk t mm :: r) = mm :: mappedMs r := by
          intro t mm r hq
          simp only [mappedMs, chunkMs]
          rw [List.filter_cons_of_pos hq]
        rw [e1 _ _ _ (by simp [isMapped]), e1 _ _ _ (by simp [isMapped]), ih]
      · have h1 : (decide (cur ≤ m.gl) && decide (m.gl ≤ lines.length)) = false := by
          rw [Bool.eq_false_iff]; intro h; simp only [Bool.and_eq_true, decide_eq_true_eq] at h; exact hc h
        have h2 : (decide (m.gl < cur) || decide (m.gl > lines.length)) = true := by
          simp only [Bool.or_eq_true, decide_eq_true_eq]; omega
        simp only [h1, h2, if_true, Bool.false_eq_true, if_false]
        exact ih cur

theorem smLinesFinalGo_isChunk (fl : Nat) : ∀ (ms : List Mapping) (cur : Nat), ∀ e ∈ smLinesFinalGo fl cur ms, e.isChunk = true := by
  intro ms
  induction ms with
  | nil => intro cur e he; simp [smLinesFinalGo] at he
  | cons m ms ih =>
    intro cur e he
    simp only [smLinesFinalGo] at he
    split at he
    · split at he
      · simp only [List.mem_cons] at he
        rcases he with rfl | he
        · rfl
        · exact ih _ e he
      · exact ih _ e he
    · exact ih _ e he

theorem smWholeLines_isChunk (lines : List Text) (a b : Nat) : ∀ e ∈ smWholeLines lines a b, e.isChunk = true :=
  isChunk_of_origs _ (smWholeLines_origs _ lines a b)

theorem smLinesFullGo_isChunk (lines : List Text) : ∀ (ms : List Mapping) (cur : Nat), ∀ e ∈ (smLinesFullGo lines cur ms).1, e.isChunk = true := by
  intro ms
  induction ms with
  | nil => intro cur e he; simp [smLinesFullGo] at he
  | cons m ms ih =>
    intro cur e he
    simp only [smLinesFullGo] at he
    split at he
    · exact ih _ e he
    · split at he
      · exact ih _ e he
      · simp only [List.mem_append, List.mem_cons] at he
        rcases he with he | rfl | he
        · exact smWholeLines_isChunk _ _ _ e he
        · rfl
        · exact ih _ e he

/-- the line-granular splitters: nothing for the empty text, else the source announcements followed by chunks only, with the same mapped chunks in both modes -/
theorem streamSM_linesShape (t : Text) (sm : SMap) :
    ((streamSM t sm ⟨false, true⟩).evs = [] ∧ (streamSM t sm ⟨false, false⟩).evs = [])
    ∨ (∃ CF CN, (streamSM t sm ⟨false, true⟩).evs = smSourceEvs sm ++ CF ∧ (streamSM t sm ⟨false, false⟩).evs = smSourceEvs sm ++ CN
        ∧ (∀ e ∈ CF, e.isChunk = true) ∧ (∀ e ∈ CN, e.isChunk = true) ∧ mappedMs CF = mappedMs CN) := by
  by_cases ht : t = []
  · subst ht
    left
    have hg : genInfo [] = ⟨1, 0⟩ := by decide
    constructor
    · simp [streamSM, streamSMLinesFinal, hg]
    · simp [streamSM, streamSMLinesFull, splitLines, splitLinesAux]
  · right
    have he : (splitLines t).isEmpty = false := by
      rw [Bool.eq_false_iff]
      intro he
      have hsl : splitLines t = [] := by simpa using he
      have hj := splitLines_join t
      rw [hsl] at hj
      exact ht (by simpa using hj.symm)
    have hne := adv_ne_start t ht
    have hgi := genInfo_adv t
    have hg2 : ((genInfo t).line == 1 && (genInfo t).col == 0) = false := by
      rw [Bool.eq_false_iff]
      intro hc
      simp only [Bool.and_eq_true, beq_iff_eq] at hc
      apply hne
      rw [← hgi]
      cases hg : genInfo t with
      | mk l c => rw [hg] at hc; simp only at hc; rw [hc.1, hc.2]
    -- the number of the last line that carries text
    have hfl : (if ((genInfo t).col == 0) = true then (genInfo t).line - 1 else (genInfo t).line) = (splitLines t).length := by
      rw [genInfo_eq]
      unfold lineLoopInfo
      have hnel : splitLines t ≠ [] := by simpa using he
      cases hl' : (splitLines t).getLast? with
      | none => exact absurd (List.getLast?_eq_none_iff.1 hl') hnel
      | some last =>
        simp only
        have hlast : last ∈ splitLines t := List.mem_of_getLast? hl'
        have hlne : last ≠ [] := lines_ne _ (lines_of_splitLines t) last hlast
        by_cases hnl : endsWithNL last = true
        · simp [hnl]
        · have : last.length ≠ 0 := fun h0 => hlne (List.eq_nil_of_length_eq_zero h0)
          simp [hnl, this]
    refine ⟨smLinesFinalGo (splitLines t).length 1 (decode sm.mappings),
      (smLinesFullGo (splitLines t) 1 (decode sm.mappings)).1 ++ smWholeLines (splitLines t) (smLinesFullGo (splitLines t) 1 (decode sm.mappings)).2 ((splitLines t).length + 1),
      ?_, ?_, ?_, ?_, ?_⟩
    · simp only [streamSM]
      unfold streamSMLinesFinal
      simp only [hg2, Bool.false_eq_true, if_false, hfl]
    · simp only [streamSM]
      unfold streamSMLinesFull
      simp only [he, Bool.false_eq_true, if_false, List.append_assoc]
    · exact smLinesFinalGo_isChunk _ _ _
    · intro e he
      rcases List.mem_append.1 he with h | h
      · exact smLinesFullGo_isChunk _ _ _ e h
      · exact smWholeLines_isChunk _ _ _ e h
    · rw [mappedMs_append, mappedMs_unmapped _ (chunkMs_wholeLines _ _ _), List.append_nil]
      exact smLines_mapped (splitLines t) (decode sm.mappings) 1

theorem lookupLines_filter (ms : List Mapping) (L : Nat) : lookupLines ms L = lookupLines (ms.filter isMapped) L := by
  unfold lookupLines
  have : ∀ (ms : List Mapping), ms.find? (fun m => m.gl == L && m.orig.isSome) = (ms.filter isMapped).find? (fun m => m.gl == L && m.orig.isSome) := by
    intro ms
    induction ms with
    | nil => rfl
    | cons m ms ih =>
      by_cases hq : isMapped m = true
      · rw [List.filter_cons_of_pos hq]
        simp only [List.find?_cons]
        split
        · rfl
        · exact ih
      · have hq' : isMapped m = false := by simpa using hq
        rw [List.filter_cons_of_neg (by simp [hq'])]
        simp only [List.find?_cons]
        have : (m.gl == L && m.orig.isSome) = false := by
          unfold isMapped at hq'; simp [hq']
        simp only [this]
        exact ih
  rw [this ms]

theorem weave_filter : ∀ (A : List Mapping) (O : List (Option Orig)),
    (weave A O).filter isMapped = (weave (A.filter isMapped) O).filter isMapped := by
  intro A
  induction A with
  | nil => intro O; rfl
  | cons a A ih =>
    intro O
    by_cases hq : isMapped a = true
    · rw [List.filter_cons_of_pos hq]
      simp only [weave, hq, if_true]
      cases O with
      | nil =>
        simp only
        rw [List.filter_cons_of_neg (by simp [isMapped]), List.filter_cons_of_neg (by simp [isMapped])]
        exact ih []
      | cons o O =>
        simp only
        by_cases ho : isMapped (⟨a.gl, a.gc, o⟩ : Mapping) = true
        · rw [List.filter_cons_of_pos ho, List.filter_cons_of_pos ho, ih O]
        · rw [List.filter_cons_of_neg ho, List.filter_cons_of_neg ho, ih O]
    · have hq' : isMapped a = false := by simpa using hq
      rw [List.filter_cons_of_neg (by simp [hq'])]
      simp only [weave, hq', Bool.false_eq_true, if_false]
      rw [List.filter_cons_of_neg (by simp [isMapped])]
      exact ih O

/-- **T3 for the combinator, columns = false**: the text-less line-granular stream is sorted, announces what the normal one announces,
and gives every generated line the same first mapped segment -/
theorem streamCombined_m3l (t : Text) (sm : SMap) (n : Text) (os : Option Text) (im : SMap) (rm : Bool) :
    sortedFrom 1 0 (chunkMs (streamCombined t sm n os im rm ⟨false, true⟩).evs)
    ∧ declsOf (streamCombined t sm n os im rm ⟨false, true⟩).evs = declsOf (streamCombined t sm n os im rm ⟨false, false⟩).evs
    ∧ ∀ L, lookupLines (chunkMs (streamCombined t sm n os im rm ⟨false, true⟩).evs) L
        = lookupLines (chunkMs (streamCombined t sm n os im rm ⟨false, false⟩).evs) L := by
  have hsF := streamSM_linesSorted t sm
  simp only [streamCombined]
  rcases streamSM_linesShape t sm with ⟨eF, eN⟩ | ⟨CF, CN, eF, eN, cF, cN, hM⟩
  · rw [eF, eN]
    exact ⟨trivial, rfl, fun _ => rfl⟩
  · have hP : ∀ e ∈ smSourceEvs sm, e.isChunk = false := smSourceEvs_nochunk sm
    generalize smSourceEvs sm = P at eF eN hP
    rw [eF] at hsF
    rw [chunkMs_app, chunkMs_noChunk _ hP, List.nil_append] at hsF
    rw [eF, eN]
    generalize ({ genText := t, innerName := n, innerMap := im, remove := rm, columns := false } : CombCfg) = cfg
    have eFa := combFold_append cfg P CF { innerSource := os }
    have eNa := combFold_append cfg P CN { innerSource := os }
    have hisi := isi_combEnd cfg P { innerSource := os } (Or.inl rfl)
    generalize combEnd cfg { innerSource := os } P = st1 at eFa eNa hisi
    have hX : chunkMs (combFold cfg { innerSource := os } P) = [] := by
      apply chunkMs_of_noKeys
      rw [combFold_keys]
      unfold evsKeys
      rw [List.filterMap_eq_nil_iff]
      intro e he
      have := hP e he
      cases e with
      | chunk t m => simp [Ev.isChunk] at this
      | source i s c => rfl
      | name i n => rfl
    obtain ⟨wF, dF⟩ := combFold_weave cfg CF st1 hisi cF
    obtain ⟨wN, dN⟩ := combFold_weave cfg CN st1 hisi cN
    rw [hM] at wF dF
    refine ⟨?_, ?_, ?_⟩
    · show sortedFrom 1 0 (chunkMs (combFold cfg { innerSource := os } (P ++ CF)))
      rw [eFa, chunkMs_app, hX, List.nil_append, wF]
      exact weave_sorted _ _ _ _ hsF
    · show declsOf (combFold cfg { innerSource := os } (P ++ CF)) = declsOf (combFold cfg { innerSource := os } (P ++ CN))
      rw [eFa, eNa, declsOf_append, declsOf_append, dF, dN]
    · intro L
      show lookupLines (chunkMs (combFold cfg { innerSource := os } (P ++ CF))) L = lookupLines (chunkMs (combFold cfg { innerSource := os } (P ++ CN))) L
      rw [eFa, eNa, chunkMs_app, chunkMs_app, hX, List.nil_append, List.nil_append, wF, wN]
      rw [lookupLines_filter (weave (chunkMs CF) _), lookupLines_filter (weave (chunkMs CN) _), weave_filter (chunkMs CF), weave_filter (chunkMs CN)]
      have : (chunkMs CF).filter isMapped = (chunkMs CN).filter isMapped := hM
      rw [this]

end Rs
