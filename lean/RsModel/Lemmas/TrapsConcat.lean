import RsModel.Model.Checked
import RsModel.Lemmas.Pos
import RsModel.Lemmas.HasText
/-!
# ConcatSource's saturating column addition (fix F16) agrees with the model's unbounded addition

`concatStreamS` (the crate: `generated_column.saturating_add(current_column_offset)`) equals `concatStream` (the model every
other theorem is about) whenever chunk columns and the accumulated column offset stay below 2³² — in particular for children that
report true positions (C02) of a text below 2 GiB.
-/
namespace Rs
namespace Chk

theorem concatEvS_eq (final : Bool) (st : CSt) (e : Ev) (h : ∀ t m, e = .chunk t m → m.gc + st.colOff < 2 ^ 32) :
    concatEvS final st e = concatEv final st e := by
  cases e with
  | chunk t m =>
    have := h t m rfl
    have e : min (m.gc + st.colOff) (2 ^ 32 - 1) = m.gc + st.colOff := Nat.min_eq_left (by omega)
    simp only [concatEvS, concatEv, satAdd32, e]
    generalize (m.orig.bind fun o => st.sim[o.src]?) = rsi
    cases rsi <;> cases m.orig <;> rfl
  | source i s c => rfl
  | name i n => rfl

theorem concatEv_colOff (final : Bool) (st : CSt) (e : Ev) : (concatEv final st e).1.colOff = st.colOff := by
  cases e with
  | chunk t m => simp only [concatEv]
  | source i s c => simp only [concatEv]
  | name i n => simp only [concatEv]

theorem concatEvs_colOff (final : Bool) : ∀ (evs : List Ev) (st : CSt), (concatEvs final st evs).1.colOff = st.colOff := by
  intro evs
  induction evs with
  | nil => intro st; rfl
  | cons e es ih => intro st; simp only [concatEvs]; rw [ih, concatEv_colOff]

theorem concatEvsS_eq (final : Bool) : ∀ (evs : List Ev) (st : CSt), (∀ t m, Ev.chunk t m ∈ evs → m.gc + st.colOff < 2 ^ 32) →
    concatEvsS final st evs = concatEvs final st evs := by
  intro evs
  induction evs with
  | nil => intro st _; rfl
  | cons e es ih =>
    intro st h
    simp only [concatEvsS, concatEvs]
    rw [concatEvS_eq final st e (fun t m he => h t m (by rw [he]; simp))]
    rw [ih _ (fun t m hm => by rw [concatEv_colOff]; exact h t m (List.mem_cons_of_mem _ hm))]

theorem concatChildS_eq (final : Bool) (st : CSt) (c : SResult) (h : ∀ t m, Ev.chunk t m ∈ c.evs → m.gc + st.colOff < 2 ^ 32) :
    concatChildS final st c = concatChild final st c := by
  have e := concatEvsS_eq final c.evs { st with sim := [], nim := [], lastMappingLine := 0 } h
  unfold concatChildS concatChild
  simp only []
  rw [e]

theorem concatChild_colOff (final : Bool) (st : CSt) (c : SResult) :
    (concatChild final st c).1.colOff = if c.info.line > 1 then c.info.col else st.colOff + c.info.col := by
  unfold concatChild
  simp only []
  rw [concatEvs_colOff]

/-- all chunk columns at most `B` -/
def ColsLe (B : Nat) (evs : List Ev) : Prop := ∀ t m, Ev.chunk t m ∈ evs → m.gc ≤ B

def sumCols : List SResult → Nat
  | [] => 0
  | c :: cs => c.info.col + sumCols cs

theorem concatGoS_eq (final : Bool) (B B' : Nat) (hB : B + B' < 2 ^ 32) : ∀ (cs : List SResult) (st : CSt),
    (∀ c ∈ cs, ColsLe B c.evs) → st.colOff + sumCols cs ≤ B' → concatGoS final st cs = concatGo final st cs := by
  intro cs
  induction cs with
  | nil => intro st _ _; rfl
  | cons c cs ih =>
    intro st hc hs
    simp only [sumCols] at hs
    simp only [concatGoS, concatGo]
    rw [concatChildS_eq final st c (fun t m hm => by have := hc c (by simp) t m hm; omega)]
    rw [ih _ (fun c' h' => hc c' (List.mem_cons_of_mem _ h')) (by rw [concatChild_colOff]; split <;> omega)]

/-- **the crate's ConcatSource (saturating column addition) and the model's (unbounded) agree** when every chunk column of every
child is at most `B`, the children's end columns sum to at most `B'`, and `B + B' < 2³²` -/
theorem concatStreamS_eq (final : Bool) (B B' : Nat) (hB : B + B' < 2 ^ 32) (cs : List SResult)
    (hc : ∀ c ∈ cs, ColsLe B c.evs) (hs : sumCols cs ≤ B') : concatStreamS final cs = concatStream final cs := by
  unfold concatStreamS concatStream
  rw [concatGoS_eq final B B' hB cs {} hc (by simpa using hs)]

/-! ## children that report true positions -/

theorem adv_col_le : ∀ (t : Text) (p : Pos), (adv p t).col ≤ p.col + t.length := by
  intro t
  induction t with
  | nil => intro p; simp [adv]
  | cons b bs ih =>
    intro p
    simp only [adv, List.length_cons]
    split
    · have := ih ⟨p.line + 1, 0⟩; simp only [] at this; omega
    · have := ih ⟨p.line, p.col + 1⟩; simp only [] at this; omega

theorem posOKT_colsLe : ∀ (evs : List Ev) (pre : Text), posOKT pre evs → evsTL evs = false →
    ColsLe (pre ++ evsText evs).length evs := by
  intro evs
  induction evs with
  | nil => intro pre _ _ t m h; cases h
  | cons e es ih =>
    intro pre hp hTL t m hm
    have hTL' : evsTL es = false := by
      simp only [evsTL, List.any_cons, Bool.or_eq_false_iff] at hTL; exact hTL.2
    rw [evsText_cons, List.length_append, List.length_append]
    cases e with
    | chunk t' m' =>
      cases t' with
      | none => simp [evsTL, Ev.textless] at hTL
      | some tx =>
        simp only [posOKT] at hp
        rcases List.mem_cons.1 hm with h | h
        · cases h
          have h1 := congrArg Pos.col hp.1
          simp only [] at h1
          rw [h1]
          have := adv_col_le pre startPos
          have h0 : startPos.col = 0 := rfl
          omega
        · have := ih (pre ++ tx) hp.2 hTL' t m h
          simp only [List.length_append, Ev.text] at this ⊢
          omega
    | source i s c =>
      simp only [posOKT] at hp
      rcases List.mem_cons.1 hm with h | h
      · cases h
      · have := ih pre hp hTL' t m h
        simp only [List.length_append] at this
        omega
    | name i n =>
      simp only [posOKT] at hp
      rcases List.mem_cons.1 hm with h | h
      · cases h
      · have := ih pre hp hTL' t m h
        simp only [List.length_append] at this
        omega

/-- a child honouring C02 (`PosOK`): every chunk column, and the end column, is at most the length of the child's text -/
theorem posOK_bounds (r : SResult) (hp : PosOK r) (hTL : evsTL r.evs = false) :
    ColsLe (evsText r.evs).length r.evs ∧ r.info.col ≤ (evsText r.evs).length := by
  refine ⟨by simpa using posOKT_colsLe r.evs [] hp.1 hTL, ?_⟩
  rw [hp.2]
  have := adv_col_le (evsText r.evs) startPos
  have h0 : startPos.col = 0 := rfl
  omega

def sumText : List SResult → Nat
  | [] => 0
  | c :: cs => (evsText c.evs).length + sumText cs

theorem colsLe_mono (a b : Nat) (h : a ≤ b) (evs : List Ev) (hc : ColsLe a evs) : ColsLe b evs :=
  fun t m hm => Nat.le_trans (hc t m hm) h

theorem le_sumText : ∀ (cs : List SResult) (c : SResult), c ∈ cs → (evsText c.evs).length ≤ sumText cs := by
  intro cs
  induction cs with
  | nil => intro c h; cases h
  | cons x xs ih =>
    intro c h
    simp only [sumText]
    rcases List.mem_cons.1 h with rfl | h
    · omega
    · have := ih c h; omega

theorem sumCols_le : ∀ (cs : List SResult), (∀ c ∈ cs, c.info.col ≤ (evsText c.evs).length) → sumCols cs ≤ sumText cs := by
  intro cs
  induction cs with
  | nil => intro _; exact Nat.le_refl _
  | cons x xs ih =>
    intro h
    simp only [sumCols, sumText]
    have := h x (by simp)
    have := ih (fun c hc => h c (List.mem_cons_of_mem _ hc))
    omega

/-- **children that report true positions (C02), texts below 2 GiB in total: the crate's saturating ConcatSource is the model's** -/
theorem concatStreamS_eq_of_posOK (final : Bool) (cs : List SResult) (hp : ∀ c ∈ cs, PosOK c ∧ evsTL c.evs = false)
    (hlen : 2 * sumText cs < 2 ^ 32) : concatStreamS final cs = concatStream final cs := by
  apply concatStreamS_eq final (sumText cs) (sumText cs) (by omega) cs
  · intro c hc
    exact colsLe_mono _ _ (le_sumText cs c hc) _ (posOK_bounds c (hp c hc).1 (hp c hc).2).1
  · exact sumCols_le cs (fun c hc => (posOK_bounds c (hp c hc).1 (hp c hc).2).2)


/-! ## the `u32` line / column bookkeeping of ConcatSource cannot overflow -/

theorem concatEvS_offs (final : Bool) (st : CSt) (e : Ev) :
    (concatEvS final st e).1.lineOff = st.lineOff ∧ (concatEvS final st e).1.colOff = st.colOff := by
  cases e with
  | chunk t m => simp only [concatEvS]; exact ⟨trivial, trivial⟩
  | source i s c => simp only [concatEvS, concatEv]; exact ⟨trivial, trivial⟩
  | name i n => simp only [concatEvS, concatEv]; exact ⟨trivial, trivial⟩

theorem concatEvsS_offs (final : Bool) : ∀ (evs : List Ev) (st : CSt),
    (concatEvsS final st evs).1.lineOff = st.lineOff ∧ (concatEvsS final st evs).1.colOff = st.colOff := by
  intro evs
  induction evs with
  | nil => intro st; exact ⟨rfl, rfl⟩
  | cons e es ih =>
    intro st
    simp only [concatEvsS]
    obtain ⟨a1, a2⟩ := ih (concatEvS final st e).1
    obtain ⟨b1, b2⟩ := concatEvS_offs final st e
    exact ⟨by rw [a1, b1], by rw [a2, b2]⟩

theorem concatEvsC_eq (final : Bool) : ∀ (evs : List Ev) (st : CSt), (∀ t m, Ev.chunk t m ∈ evs → m.gl + st.lineOff < 2 ^ 32) →
    st.lineOff + 1 < 2 ^ 32 → concatEvsC final st evs = some (concatEvsS final st evs) := by
  intro evs
  induction evs with
  | nil => intro st _ _; rfl
  | cons e es ih =>
    intro st h h1
    simp only [concatEvsC, concatEvsS]
    have he : concatEvC final st e = some (concatEvS final st e) := by
      cases e with
      | chunk t m =>
        have := h t m (by simp)
        simp only [concatEvC]
        rw [if_pos ⟨this, fun _ => h1⟩]
      | source i s c => rfl
      | name i n => rfl
    rw [he]
    simp only []
    obtain ⟨b1, _⟩ := concatEvS_offs final st e
    rw [ih _ (fun t m hm => by rw [b1]; exact h t m (List.mem_cons_of_mem _ hm)) (by rw [b1]; exact h1)]

/-- what a child's stream satisfies when it reports positions inside a text of `n` bytes -/
def ChildB (n : Nat) (c : SResult) : Prop :=
  (∀ t m, Ev.chunk t m ∈ c.evs → m.gl ≤ n + 1 ∧ m.gc ≤ n) ∧ 1 ≤ c.info.line ∧ c.info.line ≤ n + 1 ∧ c.info.col ≤ n

def sumLines : List SResult → Nat
  | [] => 0
  | c :: cs => (c.info.line - 1) + sumLines cs

theorem concatChildC_eq (final : Bool) (N : Nat) (st : CSt) (c : SResult) (hc : ChildB N c)
    (hl : st.lineOff + N + 2 < 2 ^ 32) (hcol : st.colOff + N < 2 ^ 32) :
    concatChildC final st c = some (concatChildS final st c) := by
  obtain ⟨h1, h2, h3, h4⟩ := hc
  have e := concatEvsC_eq final c.evs { st with sim := [], nim := [], lastMappingLine := 0 }
    (fun t m hm => by have := (h1 t m hm).1; simp only []; omega) (by simp only []; omega)
  obtain ⟨o1, o2⟩ := concatEvsS_offs final c.evs { st with sim := [], nim := [], lastMappingLine := 0 }
  simp only [] at o1 o2
  unfold concatChildC concatChildS
  simp only []
  rw [e]
  simp only []
  rw [if_pos ⟨fun _ => by rw [o1]; omega, fun _ => by rw [o2]; omega, h2, by rw [o1]; omega⟩]

theorem concatChildS_offs (final : Bool) (st : CSt) (c : SResult) :
    (concatChildS final st c).1.lineOff = st.lineOff + (c.info.line - 1)
    ∧ (concatChildS final st c).1.colOff = (if c.info.line > 1 then c.info.col else st.colOff + c.info.col) := by
  obtain ⟨o1, o2⟩ := concatEvsS_offs final c.evs { st with sim := [], nim := [], lastMappingLine := 0 }
  simp only [] at o1 o2
  unfold concatChildS
  simp only []
  rw [o1, o2]
  exact ⟨rfl, rfl⟩

theorem concatGoC_eq (final : Bool) (N N' : Nat) (hN : N + N' + 2 < 2 ^ 32) : ∀ (cs : List SResult) (st : CSt),
    (∀ c ∈ cs, ChildB N c) → st.lineOff + sumLines cs ≤ N' → st.colOff + sumCols cs ≤ N' →
    concatGoC final st cs = some (concatGoS final st cs) ∧ (concatGoS final st cs).1.lineOff ≤ N' := by
  intro cs
  induction cs with
  | nil => intro st _ hl _; exact ⟨rfl, by simpa [sumLines, concatGoS] using hl⟩
  | cons c cs ih =>
    intro st hc hl hco
    simp only [sumLines, sumCols] at hl hco
    simp only [concatGoC, concatGoS]
    rw [concatChildC_eq final N st c (hc c (by simp)) (by omega) (by omega)]
    simp only []
    obtain ⟨o1, o2⟩ := concatChildS_offs final st c
    obtain ⟨e, hle⟩ := ih (concatChildS final st c).1 (fun c' h' => hc c' (List.mem_cons_of_mem _ h'))
      (by rw [o1]; omega) (by rw [o2]; split <;> omega)
    rw [e]
    exact ⟨rfl, hle⟩

/-- **ConcatSource's `u32` line and column bookkeeping cannot overflow** when every child reports positions inside a text of at
most `N` bytes and the children's end lines and end columns sum to at most `N'`, `N + N' + 2 < 2³²`: the checked stream is the
saturating stream -/
theorem concatStreamC_eq (final : Bool) (N N' : Nat) (hN : N + N' + 2 < 2 ^ 32) (cs : List SResult)
    (hc : ∀ c ∈ cs, ChildB N c) (hl : sumLines cs ≤ N') (hco : sumCols cs ≤ N') :
    concatStreamC final cs = some (concatStreamS final cs) := by
  unfold concatStreamC concatStreamS
  obtain ⟨e, hle⟩ := concatGoC_eq final N N' hN cs {} hc (by simpa using hl) (by simpa using hco)
  rw [e]
  simp only []
  rw [if_pos (by omega)]

theorem adv_line_bounds : ∀ (t : Text) (p : Pos), p.line ≤ (adv p t).line ∧ (adv p t).line ≤ p.line + t.length := by
  intro t
  induction t with
  | nil => intro p; simp [adv]
  | cons b bs ih =>
    intro p
    simp only [adv, List.length_cons]
    split
    · have := ih ⟨p.line + 1, 0⟩; simp only [] at this; omega
    · have := ih ⟨p.line, p.col + 1⟩; simp only [] at this; omega

theorem posOKT_linesLe : ∀ (evs : List Ev) (pre : Text), posOKT pre evs → evsTL evs = false →
    ∀ t m, Ev.chunk t m ∈ evs → m.gl ≤ (pre ++ evsText evs).length + 1 := by
  intro evs
  induction evs with
  | nil => intro pre _ _ t m h; cases h
  | cons e es ih =>
    intro pre hp hTL t m hm
    have hTL' : evsTL es = false := by
      simp only [evsTL, List.any_cons, Bool.or_eq_false_iff] at hTL; exact hTL.2
    rw [evsText_cons, List.length_append, List.length_append]
    cases e with
    | chunk t' m' =>
      cases t' with
      | none => simp [evsTL, Ev.textless] at hTL
      | some tx =>
        simp only [posOKT] at hp
        rcases List.mem_cons.1 hm with h | h
        · cases h
          have h1 := congrArg Pos.line hp.1
          simp only [] at h1
          rw [h1]
          have := (adv_line_bounds pre startPos).2
          have h0 : startPos.line = 1 := rfl
          omega
        · have := ih (pre ++ tx) hp.2 hTL' t m h
          simp only [List.length_append, Ev.text] at this ⊢
          omega
    | source i s c =>
      simp only [posOKT] at hp
      rcases List.mem_cons.1 hm with h | h
      · cases h
      · have := ih pre hp hTL' t m h
        simp only [List.length_append] at this
        omega
    | name i n =>
      simp only [posOKT] at hp
      rcases List.mem_cons.1 hm with h | h
      · cases h
      · have := ih pre hp hTL' t m h
        simp only [List.length_append] at this
        omega

theorem posOK_childB (r : SResult) (hp : PosOK r) (hTL : evsTL r.evs = false) : ChildB (evsText r.evs).length r := by
  obtain ⟨b1, b2⟩ := posOK_bounds r hp hTL
  have hl := adv_line_bounds (evsText r.evs) startPos
  have h0 : startPos.line = 1 := rfl
  refine ⟨fun t m hm => ⟨by simpa using posOKT_linesLe r.evs [] hp.1 hTL t m hm, b1 t m hm⟩, ?_, ?_, b2⟩
  · rw [hp.2]; omega
  · rw [hp.2]; omega

theorem childB_mono (a b : Nat) (h : a ≤ b) (c : SResult) (hc : ChildB a c) : ChildB b c := by
  obtain ⟨h1, h2, h3, h4⟩ := hc
  exact ⟨fun t m hm => ⟨by have := (h1 t m hm).1; omega, by have := (h1 t m hm).2; omega⟩, h2, by omega, by omega⟩

theorem sumLines_le : ∀ (cs : List SResult), (∀ c ∈ cs, c.info.line ≤ (evsText c.evs).length + 1) → sumLines cs ≤ sumText cs := by
  intro cs
  induction cs with
  | nil => intro _; exact Nat.le_refl _
  | cons x xs ih =>
    intro h
    simp only [sumLines, sumText]
    have := h x (by simp)
    have := ih (fun c hc => h c (List.mem_cons_of_mem _ hc))
    omega

/-- **children that report true positions (C02), texts below 2 GiB in total: ConcatSource's checked stream — every `u32`
addition and subtraction of its bookkeeping as a partial operation — succeeds and is the model's stream** -/
theorem concatStreamC_eq_of_posOK (final : Bool) (cs : List SResult) (hp : ∀ c ∈ cs, PosOK c ∧ evsTL c.evs = false)
    (hlen : 2 * sumText cs + 2 < 2 ^ 32) : concatStreamC final cs = some (concatStream final cs) := by
  have hB : ∀ c ∈ cs, ChildB (evsText c.evs).length c := fun c hc => posOK_childB c (hp c hc).1 (hp c hc).2
  rw [concatStreamC_eq final (sumText cs) (sumText cs) (by omega) cs
    (fun c hc => childB_mono _ _ (le_sumText cs c hc) c (hB c hc))
    (sumLines_le cs (fun c hc => (hB c hc).2.2.1))
    (sumCols_le cs (fun c hc => (hB c hc).2.2.2))]
  rw [concatStreamS_eq_of_posOK final cs hp (by omega)]

end Chk
end Rs
