import RsModel.Lemmas.NameLevel
import RsModel.Lemmas.CombModesL
/-!
# C08 at name level: a SourceMapSource attributes every byte to the file name, content, line, column and name that looking its
position up in the map gives — resolved through the map's own tables with `sourceRoot` applied
-/
namespace Rs

/-- what a consumer resolves an original location of the map `sm` to: file name with `sourceRoot` applied, its content, line,
column, name -/
def resolveSM (sm : SMap) (o : Orig) : RLoc :=
  ⟨(sm.sources[o.src]?).map fun s => (applyRoot sm.sourceRoot s, sm.sourcesContent[o.src]?), o.line, o.col, o.name.map fun k => sm.names[k]?⟩

theorem tblS_chunks (S : SrcTbl) : ∀ (l : List Ev), (∀ e ∈ l, e.isChunk = true) → tblS S l = S := by
  intro l
  induction l with
  | nil => intro _; rfl
  | cons e es ih =>
    intro h
    have := h e (by simp)
    cases e with
    | chunk t m => simp only [tblS]; exact ih (fun x hx => h x (by simp [hx]))
    | source i s c => simp [Ev.isChunk] at this
    | name i n => simp [Ev.isChunk] at this

theorem tblN_chunks (N : NameTbl) : ∀ (l : List Ev), (∀ e ∈ l, e.isChunk = true) → tblN N l = N := by
  intro l
  induction l with
  | nil => intro _; rfl
  | cons e es ih =>
    intro h
    have := h e (by simp)
    cases e with
    | chunk t m => simp only [tblN]; exact ih (fun x hx => h x (by simp [hx]))
    | source i s c => simp [Ev.isChunk] at this
    | name i n => simp [Ev.isChunk] at this

theorem cntS_chunks : ∀ (l : List Ev), (∀ e ∈ l, e.isChunk = true) → cntS l = 0 := by
  intro l
  induction l with
  | nil => intro _; rfl
  | cons e es ih =>
    intro h
    have := h e (by simp)
    cases e with
    | chunk t m => simp only [cntS]; exact ih (fun x hx => h x (by simp [hx]))
    | source i s c => simp [Ev.isChunk] at this
    | name i n => simp [Ev.isChunk] at this

theorem cntN_chunks : ∀ (l : List Ev), (∀ e ∈ l, e.isChunk = true) → cntN l = 0 := by
  intro l
  induction l with
  | nil => intro _; rfl
  | cons e es ih =>
    intro h
    have := h e (by simp)
    cases e with
    | chunk t m => simp only [cntN]; exact ih (fun x hx => h x (by simp [hx]))
    | source i s c => simp [Ev.isChunk] at this
    | name i n => simp [Ev.isChunk] at this

theorem smFullStep_isChunk (lines : List Text) (fl fc : Nat) (s : FullSt) (m : Mapping) : ∀ e ∈ (smFullStep lines fl fc s m).2, e.isChunk = true := by
  intro e he
  unfold smFullStep at he
  split at he
  · cases he
  · simp only [List.mem_append] at he
    rcases he with ((he | he) | he) | he
    · unfold smStep1 at he
      split at he
      · split at he <;> (simp only [] at he; split at he <;> first | (simp only [List.mem_singleton] at he; subst he; rfl) | cases he)
      · cases he
    · unfold smStep2 at he
      split at he
      · simp only [] at he; split at he <;> first | (simp only [List.mem_singleton] at he; subst he; rfl) | cases he
      · cases he
    · exact smWholeLines_isChunk _ _ _ e he
    · unfold smStep4 at he
      split at he
      · simp only [] at he; split at he <;> first | (simp only [List.mem_singleton] at he; subst he; rfl) | cases he
      · cases he

theorem smFullGo_isChunk (lines : List Text) (fl fc : Nat) : ∀ (ms : List Mapping) (s : FullSt), ∀ e ∈ smFullGo lines fl fc s ms, e.isChunk = true := by
  intro ms
  induction ms with
  | nil => intro s e he; cases he
  | cons m ms ih =>
    intro s e he
    simp only [smFullGo, List.mem_append] at he
    rcases he with he | he
    · exact smFullStep_isChunk lines fl fc s m e he
    · exact ih _ e he

theorem tblS_smSources (sm : SMap) (S : SrcTbl) : ∀ (n : Nat), n ≤ sm.sources.length → ∀ j,
    tblS S ((List.range n).map fun i => Ev.source i (applyRoot sm.sourceRoot (sm.sources.getD i [])) (sm.sourcesContent[i]?)) j
      = if j < n then some (applyRoot sm.sourceRoot (sm.sources.getD j []), sm.sourcesContent[j]?) else S j := by
  intro n
  induction n with
  | zero => intro _ j; simp [tblS]
  | succ n ih =>
    intro hn j
    rw [List.range_succ, List.map_append, tblS_append]
    simp only [List.map_cons, List.map_nil, tblS, upd]
    by_cases hj : j = n
    · subst hj; simp
    · simp only [hj, if_false]
      rw [ih (by omega) j]
      by_cases h2 : j < n
      · simp [h2]; omega
      · simp [h2]; omega

theorem tblN_smNames (sm : SMap) (N : NameTbl) : ∀ (n : Nat), n ≤ sm.names.length → ∀ j,
    tblN N ((List.range n).map fun i => Ev.name i (sm.names.getD i [])) j = if j < n then some (sm.names.getD j []) else N j := by
  intro n
  induction n with
  | zero => intro _ j; simp [tblN]
  | succ n ih =>
    intro hn j
    rw [List.range_succ, List.map_append, tblN_append]
    simp only [List.map_cons, List.map_nil, tblN, upd]
    by_cases hj : j = n
    · subst hj; simp
    · simp only [hj, if_false]
      rw [ih (by omega) j]
      by_cases h2 : j < n
      · simp [h2]; omega
      · simp [h2]; omega

theorem tblS_noName (S : SrcTbl) : ∀ (l : List Ev), (∀ e ∈ l, ∃ i n, e = Ev.name i n) → tblS S l = S := by
  intro l
  induction l with
  | nil => intro _; rfl
  | cons e es ih =>
    intro h
    obtain ⟨i, n, rfl⟩ := h e (by simp)
    simp only [tblS]; exact ih (fun x hx => h x (by simp [hx]))

theorem tblN_noSrc' (N : NameTbl) : ∀ (l : List Ev), (∀ e ∈ l, ∃ i s c, e = Ev.source i s c) → tblN N l = N := by
  intro l
  induction l with
  | nil => intro _; rfl
  | cons e es ih =>
    intro h
    obtain ⟨i, s, c, rfl⟩ := h e (by simp)
    simp only [tblN]; exact ih (fun x hx => h x (by simp [hx]))

/-- **C08, name level, columns = true, normal mode**: every byte of the stream of a SourceMapSource resolves — through the
sources and names the stream itself announces — to the file name (with `sourceRoot` applied), the content, the original line and
column and the name that looking the byte's position up in the map and resolving the indices through the map's own tables gives -/
theorem streamSM_attrN (t : Text) (sm : SMap) (ha : IsAscii t) (hl : t.length ≤ USIZE_MAX) (hsorted : sortedFrom 1 0 (decode sm.mappings))
    (hseg : ∀ m ∈ decode sm.mappings, SegOK (splitLines t) (adv startPos t).line (adv startPos t).col m) (hidx : MapIdxOK sm) :
    attrN emptyS emptyN (streamSM t sm ⟨true, false⟩).evs = (attrFrom (decode sm.mappings) startPos t).map (Option.map (resolveSM sm)) := by
  have hd := streamSM_declOK t sm ⟨true, false⟩ hidx
  rw [attrN_end_tables _ 0 0 emptyS emptyN hd]
  have hattr : attrOf (streamSM t sm ⟨true, false⟩).evs = attrFrom (decode sm.mappings) startPos t := streamSMFull_attr t sm ha hl hsorted hseg
  -- every attributed location comes from a segment of the map: its indices are inside the tables
  have hmem : ∀ a ∈ attrOf (streamSM t sm ⟨true, false⟩).evs, ∀ o, a = some o → o.src < sm.sources.length ∧ ∀ k, o.name = some k → k < sm.names.length := by
    intro a ha' o ho
    obtain ⟨m, hm1, hm2⟩ := attrOf_mem _ a ha'
    have := declOK_chunkMs _ 0 0 hd m hm1 o (by rw [← hm2, ho])
    -- the announced counts are the table sizes
    simp only [streamSM] at hd this ⊢
    unfold streamSMFull at this
    dsimp only at this
    split at this
    · exact absurd this.1 (by simp [cntS])
    · simp only [cntS_append, cntN_append, Nat.zero_add] at this
      rw [cntS_chunks _ (smFullGo_isChunk _ _ _ _ _), cntN_chunks _ (smFullGo_isChunk _ _ _ _ _), (smSourceEvs_decl sm 0).2.1, (smSourceEvs_decl sm 0).2.2,
        (smNameEvs_decl sm sm.sources.length).2.1, (smNameEvs_decl sm sm.sources.length).2.2] at this
      simp only [Nat.add_zero, Nat.zero_add] at this
      exact this
  rw [← hattr]
  apply List.map_congr_left
  intro a ha'
  cases a with
  | none => rfl
  | some o =>
    obtain ⟨h1, h2⟩ := hmem (some o) ha' o rfl
    simp only [Option.map_some, Option.some.injEq]
    -- the tables at the end of the stream
    have hS : tblS emptyS (streamSM t sm ⟨true, false⟩).evs o.src = some (applyRoot sm.sourceRoot (sm.sources.getD o.src []), sm.sourcesContent[o.src]?) := by
      simp only [streamSM]
      unfold streamSMFull
      dsimp only
      split
      · rename_i he
        -- no lines: no chunk, so nothing is attributed
        exfalso
        simp only [streamSM] at ha'
        unfold streamSMFull at ha'
        simp only [he, if_true] at ha'
        simp [attrOf] at ha'
      · rw [tblS_append, tblS_append, tblS_chunks _ _ (smFullGo_isChunk _ _ _ _ _),
          tblS_noName _ _ (by intro e he; simp only [smNameEvs, List.mem_map] at he; obtain ⟨i, _, rfl⟩ := he; exact ⟨_, _, rfl⟩)]
        unfold smSourceEvs
        rw [tblS_smSources sm emptyS sm.sources.length (Nat.le_refl _) o.src]
        simp [h1]
    have hN : ∀ k, o.name = some k → tblN emptyN (streamSM t sm ⟨true, false⟩).evs k = some (sm.names.getD k []) := by
      intro k hk
      have hk' := h2 k hk
      simp only [streamSM]
      unfold streamSMFull
      dsimp only
      split
      · rename_i he
        exfalso
        simp only [streamSM] at ha'
        unfold streamSMFull at ha'
        simp only [he, if_true] at ha'
        simp [attrOf] at ha'
      · rw [tblN_append, tblN_append, tblN_chunks _ _ (smFullGo_isChunk _ _ _ _ _),
          tblN_noSrc' emptyN (smSourceEvs sm) (by intro e he; simp only [smSourceEvs, List.mem_map] at he; obtain ⟨i, _, rfl⟩ := he; exact ⟨_, _, _, rfl⟩)]
        unfold smNameEvs
        rw [tblN_smNames sm emptyN sm.names.length (Nat.le_refl _) k]
        simp [hk']
    unfold resolveO resolveSM
    rw [hS]
    congr 1
    · simp [List.getD, List.getElem?_eq_getElem h1]
    · cases hn : o.name with
      | none => rfl
      | some k =>
        simp only [Option.map_some, Option.some.injEq]
        rw [hN k hn]
        have := h2 k hn
        simp [List.getD, List.getElem?_eq_getElem this]

end Rs
