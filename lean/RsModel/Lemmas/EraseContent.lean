import RsModel.Lemmas.NameLevel
import RsModel.Lemmas.WellDeclDecl
import RsModel.Lemmas.HasText
/-!
# ConcatSource at name level without any assumption on contents

`c06_concat` composes attributions *with* the embedded contents and therefore needs "one content per file name".  Dropping the
contents from the announcements (`eraseC`) commutes with ConcatSource — its tables are keyed by name only — and makes that
assumption vacuous: so at name level (file name, line, column, name) a ConcatSource attributes every byte as its child does, for
all children that merely announce before use.
-/
namespace Rs

def eraseE : Ev → Ev
  | .source i s _ => .source i s none
  | e => e

def eraseC (evs : List Ev) : List Ev := evs.map eraseE

def eraseR (r : SResult) : SResult := ⟨eraseC r.evs, r.info⟩

theorem eraseC_append (a b : List Ev) : eraseC (a ++ b) = eraseC a ++ eraseC b := by simp [eraseC]

/-- name-level attribution of a stream -/
def NA (evs : List Ev) : List (Option NLoc) := (attrN emptyS emptyN evs).map (Option.map RLoc.toN)

theorem concatEv_erase (final : Bool) (st : CSt) (e : Ev) :
    concatEv final st (eraseE e) = ((concatEv final st e).1, eraseC (concatEv final st e).2) := by
  cases e with
  | chunk t m =>
    simp only [eraseE, concatEv, eraseC, List.map_append, List.map_cons, List.map_nil]
    congr 1
    congr 1
    · split <;> rfl
    · congr 1
      split <;> rfl
  | source i s c =>
    simp only [eraseE, concatEv, globalSource]
    cases st.sourceMapping.get? s <;> rfl
  | name i n =>
    simp only [eraseE, concatEv, globalName]
    cases st.nameMapping.get? n <;> rfl

theorem concatEvs_erase (final : Bool) : ∀ (evs : List Ev) (st : CSt),
    concatEvs final st (eraseC evs) = ((concatEvs final st evs).1, eraseC (concatEvs final st evs).2) := by
  intro evs
  induction evs with
  | nil => intro st; rfl
  | cons e es ih =>
    intro st
    simp only [eraseC, List.map_cons, concatEvs]
    rw [concatEv_erase]
    simp only []
    have := ih (concatEv final st e).1
    simp only [eraseC] at this
    rw [this]
    simp only [List.map_append, eraseC]

theorem concatChild_erase (final : Bool) (st : CSt) (c : SResult) :
    concatChild final st (eraseR c) = ((concatChild final st c).1, eraseC (concatChild final st c).2) := by
  unfold concatChild eraseR
  simp only []
  rw [concatEvs_erase]
  simp only [eraseC_append]
  congr 1
  congr 1
  split <;> rfl

theorem concatGo_erase (final : Bool) : ∀ (cs : List SResult) (st : CSt),
    concatGo final st (cs.map eraseR) = ((concatGo final st cs).1, eraseC (concatGo final st cs).2) := by
  intro cs
  induction cs with
  | nil => intro st; rfl
  | cons c cs ih =>
    intro st
    simp only [List.map_cons, concatGo]
    rw [concatChild_erase]
    simp only []
    rw [ih]
    simp only [eraseC_append]

/-- ConcatSource commutes with dropping the contents -/
theorem concatStream_erase (final : Bool) (cs : List SResult) : concatStream final (cs.map eraseR) = eraseR (concatStream final cs) := by
  simp only [concatStream, eraseR]
  rw [concatGo_erase]

def eraseTbl (S : SrcTbl) : SrcTbl := fun i => (S i).map fun p => (p.1, none)
def eraseLoc (r : RLoc) : RLoc := { r with file := r.file.map fun p => (p.1, none) }

theorem eraseTbl_upd (S : SrcTbl) (i : Nat) (s : Text) (c : Option Text) : eraseTbl (upd S i (s, c)) = upd (eraseTbl S) i (s, none) := by
  funext j
  unfold eraseTbl upd
  by_cases h : j = i <;> simp [h]

theorem attrN_erase : ∀ (evs : List Ev) (S : SrcTbl) (N : NameTbl),
    attrN (eraseTbl S) N (eraseC evs) = (attrN S N evs).map (Option.map eraseLoc) := by
  intro evs
  induction evs with
  | nil => intro S N; rfl
  | cons e es ih =>
    intro S N
    cases e with
    | chunk t m =>
      cases t with
      | none => simp only [eraseC, List.map_cons, eraseE, attrN]; exact ih S N
      | some tx =>
        simp only [eraseC, List.map_cons, eraseE, attrN, List.map_append, List.map_replicate]
        have := ih S N
        simp only [eraseC] at this
        rw [this]
        congr 2
        cases m.orig with
        | none => rfl
        | some o => simp [resolveO, eraseLoc, eraseTbl]
    | source i s c =>
      simp only [eraseC, List.map_cons, eraseE, attrN]
      have := ih (upd S i (s, c)) N
      rw [eraseTbl_upd] at this
      exact this
    | name i n =>
      simp only [eraseC, List.map_cons, eraseE, attrN]
      exact ih S (upd N i n)

theorem toN_eraseLoc (r : RLoc) : (eraseLoc r).toN = r.toN := by
  unfold eraseLoc RLoc.toN
  simp only [Option.map_map]
  rfl

theorem NA_erase (evs : List Ev) : NA (eraseC evs) = NA evs := by
  unfold NA
  have h0 : eraseTbl emptyS = emptyS := by funext i; rfl
  have := attrN_erase evs emptyS emptyN
  rw [h0] at this
  rw [this, List.map_map]
  apply List.map_congr_left
  intro a _
  cases a with
  | none => rfl
  | some r => simp [toN_eraseLoc]

theorem declOK_erase : ∀ (evs : List Ev) (ns nn : Nat), DeclOK ns nn evs → DeclOK ns nn (eraseC evs) := by
  intro evs
  induction evs with
  | nil => intro _ _ _; trivial
  | cons e es ih =>
    intro ns nn h
    cases e with
    | chunk t m => exact ⟨h.1, ih ns nn h.2⟩
    | source i s c => exact ⟨h.1, ih _ nn h.2⟩
    | name i n => exact ⟨h.1, ih ns _ h.2⟩

theorem contOK_erase (evs : List Ev) : ContOK (fun _ => none) (eraseC evs) := by
  intro i s c h
  simp only [eraseC, List.mem_map] at h
  obtain ⟨e, _, he⟩ := h
  cases e with
  | chunk t m => cases he
  | name j n => cases he
  | source j s' c' => simp only [eraseE, Ev.source.injEq] at he; exact he.2.2.symm

theorem evsTL_erase (evs : List Ev) : evsTL (eraseC evs) = evsTL evs := by
  unfold evsTL eraseC
  rw [List.any_map]
  congr 1
  funext e
  cases e <;> rfl

/-- **ConcatSource at name level**: whatever the children are, as long as each announces its sources and names before use
(C11) and delivers text: every byte contributed by child k resolves to the file name, line, column and name that child k
resolves it to on its own -/
theorem concatStream_NA (cs : List SResult) (h : ∀ c ∈ cs, DeclOK 0 0 c.evs ∧ evsTL c.evs = false) :
    NA (concatStream false cs).evs = (cs.map fun c => NA c.evs).flatten := by
  have e1 : NA (concatStream false cs).evs = NA (concatStream false (cs.map eraseR)).evs := by
    rw [concatStream_erase]; exact (NA_erase _).symm
  rw [e1]
  unfold NA
  rw [concatStream_attrN (fun _ => none) (cs.map eraseR) (by
    intro c hc
    obtain ⟨c0, hc0, rfl⟩ := List.mem_map.1 hc
    obtain ⟨d, tl⟩ := h c0 hc0
    exact ⟨wellDecl_of_declOK _ _ 0 0 emptyS emptyN (declOK_erase _ 0 0 d) (fun i hi => by omega) (fun i hi => by omega) (contOK_erase _),
      by simp only [eraseR]; rw [evsTL_erase]; exact tl⟩)]
  rw [List.map_flatten, List.map_map, List.map_map]
  congr 1
  apply List.map_congr_left
  intro c _
  exact NA_erase c.evs

end Rs
