import RsModel.Lemmas.ModeConcat6
import RsModel.Lemmas.Replay
/-! # the chunk mappings of the text-less streams are sorted by generated position -/
namespace Rs

/-! ## OriginalSource -/

theorem origTok_sublist : ∀ (toks : List Text) (l c : Nat),
    (chunkMs (origTokChunks true l c toks).1).Sublist (chunkMs (origTokChunks false l c toks).1) := by
  intro toks
  induction toks with
  | nil => intro l c; exact List.Sublist.slnil
  | cons tok toks ih =>
    intro l c
    simp only [origTokChunks, chunkMs_app, if_true, Bool.false_eq_true, if_false]
    apply List.Sublist.append
    · split
      · exact List.nil_sublist _
      · exact List.Sublist.refl _
    · split
      · exact ih _ _
      · exact ih _ _

theorem streamOriginal_final_sorted (t name : Text) : sortedFrom 1 0 (chunkMs (streamOriginal t name ⟨true, true⟩).evs) := by
  have hn := chunkMs_sorted (streamOriginal t name ⟨true, false⟩).evs [] (streamOriginal_posOK t name true).1 (streamOriginal_tl t name true)
  apply sortedFrom_sublist _ _ 1 0 hn
  simp only [streamOriginal, if_true, chunkMs]
  exact origTok_sublist _ _ _

/-! ## SourceMapSource -/

theorem smFinalGo_sublist (r : Info) : ∀ (ms : List Mapping) (act : Nat), (chunkMs (smFinalGo r act ms)).Sublist ms := by
  intro ms
  induction ms with
  | nil => intro act; exact List.Sublist.slnil
  | cons m ms ih =>
    intro act
    simp only [smFinalGo]
    split
    · exact List.Sublist.cons _ (ih act)
    · split
      · simp only [chunkMs]; exact List.Sublist.cons_cons _ (ih _)
      · rename_i ho
        split
        · simp only [chunkMs]
          have : (⟨m.gl, m.gc, none⟩ : Mapping) = m := by cases m; simp only at ho; subst ho; rfl
          rw [this]
          exact List.Sublist.cons_cons _ (ih _)
        · exact List.Sublist.cons _ (ih act)

theorem streamSM_final_sorted (t : Text) (sm : SMap) (hs : sortedFrom 1 0 (decode sm.mappings)) :
    sortedFrom 1 0 (chunkMs (streamSM t sm ⟨true, true⟩).evs) := by
  simp only [streamSM]
  unfold streamSMFinal
  dsimp only
  split
  · trivial
  · simp only [chunkMs_app, chunkMs_smSourceEvs, chunkMs_smNameEvs, List.nil_append]
    exact sortedFrom_sublist _ _ 1 0 hs (smFinalGo_sublist _ _ _)

/-! ## ConcatSource (either mode) -/

theorem mle_of_posLe (a b : Mapping) (h : posLe ⟨a.gl, a.gc⟩ ⟨b.gl, b.gc⟩) : mle a b := h

/-- shifting by the child's start keeps the order -/
theorem shift_mono (st : CSt) (a b : Mapping) (ha : 1 ≤ a.gl) (h : mle a b) (oa ob : Option Orig) :
    mle ⟨a.gl + st.lineOff, if (a.gl == 1) = true then a.gc + st.colOff else a.gc, oa⟩
        ⟨b.gl + st.lineOff, if (b.gl == 1) = true then b.gc + st.colOff else b.gc, ob⟩ := by
  rcases h with h | ⟨h1, h2⟩
  · exact Or.inl (by simp only; omega)
  · refine Or.inr ⟨by simp only; omega, ?_⟩
    simp only [h1]
    by_cases hb : b.gl = 1 <;> simp [hb] <;> omega

/-- after the first chunk no close is pending: the rest of the child is delivered shifted, in order, after `m` -/
theorem concatEvs_after (final : Bool) (m : Mapping) (hm1 : 1 ≤ m.gl) (om : Option Orig) : ∀ (evs : List Ev) (st : CSt), st.needClose = false →
    (∀ y ∈ chunkMs evs, mle m y) →
    ∀ x ∈ chunkMs (concatEvs final st evs).2, mle ⟨m.gl + st.lineOff, if (m.gl == 1) = true then m.gc + st.colOff else m.gc, om⟩ x := by
  intro evs
  induction evs with
  | nil => intro st _ _ x hx; simp [concatEvs, chunkMs] at hx
  | cons e es ih =>
    intro st hnc hall x hx
    simp only [concatEvs, chunkMs_app, List.mem_append] at hx
    cases e with
    | chunk t y =>
      have hst := concatEv_chunk_st final st t y
      rcases hx with hx | hx
      · rw [concatEv_chunk_ms, hnc] at hx
        simp only [Bool.false_and, Bool.false_eq_true, if_false, List.nil_append, List.mem_singleton] at hx
        subst hx
        exact shift_mono st m y hm1 (hall y (by simp [chunkMs])) _ _
      · have := ih (concatEv final st (.chunk t y)).1 (by rw [hst]) (fun z hz => hall z (by simp [chunkMs, hz])) x hx
        rw [hst] at this
        exact this
    | source i s c =>
      obtain ⟨d1, d2, d3, d4, _⟩ := concatEv_decl_ms final st (.source i s c) rfl
      rcases hx with hx | hx
      · rw [d1] at hx; simp at hx
      · have := ih (concatEv final st (.source i s c)).1 (by rw [d2]; exact hnc) (fun z hz => hall z (by simpa [chunkMs] using hz)) x hx
        rw [d3, d4] at this; exact this
    | name i n =>
      obtain ⟨d1, d2, d3, d4, _⟩ := concatEv_decl_ms final st (.name i n) rfl
      rcases hx with hx | hx
      · rw [d1] at hx; simp at hx
      · have := ih (concatEv final st (.name i n)).1 (by rw [d2]; exact hnc) (fun z hz => hall z (by simpa [chunkMs] using hz)) x hx
        rw [d3, d4] at this; exact this

theorem concatEvs_pairwise (final : Bool) : ∀ (evs : List Ev) (st : CSt), (chunkMs evs).Pairwise mle → (∀ m ∈ chunkMs evs, 1 ≤ m.gl) →
    (chunkMs (concatEvs final st evs).2).Pairwise mle := by
  intro evs
  induction evs with
  | nil => intro st _ _; simp [concatEvs, chunkMs]
  | cons e es ih =>
    intro st hp h1
    simp only [concatEvs, chunkMs_app]
    cases e with
    | chunk t m =>
      simp only [chunkMs, List.pairwise_cons] at hp
      have hm1 := h1 m (by simp [chunkMs])
      have h1' : ∀ y ∈ chunkMs es, 1 ≤ y.gl := fun y hy => h1 y (by simp [chunkMs, hy])
      have hst := concatEv_chunk_st final st t m
      have hrest := ih (concatEv final st (.chunk t m)).1 hp.2 h1'
      have hafter := concatEvs_after final m hm1 (trans st.sim st.nim m.orig) es (concatEv final st (.chunk t m)).1 (by rw [hst]) hp.1
      have e1 : (concatEv final st (.chunk t m)).1.lineOff = st.lineOff := by rw [hst]
      have e2 : (concatEv final st (.chunk t m)).1.colOff = st.colOff := by rw [hst]
      rw [e1, e2] at hafter
      have hge := concatEvs_ge final es (concatEv final st (.chunk t m)).1 h1'
      rw [e1, e2] at hge
      rw [List.pairwise_append]
      refine ⟨?_, hrest, ?_⟩
      · rw [concatEv_chunk_ms, List.pairwise_append]
        refine ⟨?_, List.pairwise_singleton _ _, ?_⟩
        · split
          · exact List.pairwise_singleton _ _
          · exact List.Pairwise.nil
        · intro a ha b hb
          simp only [List.mem_singleton] at hb
          subst hb
          split at ha
          · simp only [List.mem_singleton] at ha
            subst ha
            by_cases hl : m.gl = 1
            · exact Or.inr ⟨by simp only; omega, by simp [hl]⟩
            · exact Or.inl (by simp only; omega)
          · simp at ha
      · intro a ha b hb
        rw [concatEv_chunk_ms] at ha
        simp only [List.mem_append, List.mem_singleton] at ha
        rcases ha with ha | rfl
        · split at ha
          · simp only [List.mem_singleton] at ha
            subst ha
            exact hge b hb
          · simp at ha
        · exact hafter b hb
    | source i s c =>
      obtain ⟨d1, _, _, _, _⟩ := concatEv_decl_ms final st (.source i s c) rfl
      rw [d1, List.nil_append]
      exact ih _ (by simpa [chunkMs] using hp) (fun y hy => h1 y (by simpa [chunkMs] using hy))
    | name i n =>
      obtain ⟨d1, _, _, _, _⟩ := concatEv_decl_ms final st (.name i n) rfl
      rw [d1, List.nil_append]
      exact ih _ (by simpa [chunkMs] using hp) (fun y hy => h1 y (by simpa [chunkMs] using hy))

theorem concatChild_pairwise (final : Bool) (st : CSt) (T : Text) (c : SResult) (hf : FinOK T c) (hp : (chunkMs c.evs).Pairwise mle) :
    (chunkMs (concatChild final st c).2).Pairwise mle := by
  have h1 : ∀ m ∈ chunkMs c.evs, 1 ≤ m.gl := fun m hm => isPos_line_ge T _ (finOK_ms T c hf m hm)
  obtain ⟨s1, s2, s3, _, s5⟩ := concatEvs_state final c.evs (childStart st)
  simp only [concatChild, chunkMs_app]
  rw [List.pairwise_append]
  refine ⟨concatEvs_pairwise final c.evs _ hp h1, ?_, ?_⟩
  · split
    · simp only [chunkMs]; exact List.pairwise_singleton _ _
    · exact List.Pairwise.nil
  · intro a ha b hb
    -- a close at the end is delivered only when the child had no chunk at all
    split at hb
    · rename_i hcl
      exfalso
      simp only [Bool.and_eq_true] at hcl
      have hnc : (concatEvs final (childStart st) c.evs).1.needClose = true := hcl.1
      rw [s3] at hnc
      by_cases hch : hasChunk c.evs = true
      · simp [hch] at hnc
      · have hch' : hasChunk c.evs = false := by simpa using hch
        have hnil : chunkMs (concatEvs final (childStart st) c.evs).2 = [] := by
          have := concatEvs_ge final c.evs (childStart st) h1
          -- no chunks in, no chunks out
          have hno : ∀ (evs : List Ev) (st : CSt), hasChunk evs = false → chunkMs (concatEvs final st evs).2 = [] := by
            intro evs
            induction evs with
            | nil => intro st _; rfl
            | cons e es ih =>
              intro st h
              cases e with
              | chunk t m => simp [hasChunk] at h
              | source i s c0 =>
                obtain ⟨d1, _, _, _, _⟩ := concatEv_decl_ms final st (.source i s c0) rfl
                simp only [concatEvs, chunkMs_app, d1, List.nil_append]
                exact ih _ (by simpa [hasChunk] using h)
              | name i n =>
                obtain ⟨d1, _, _, _, _⟩ := concatEv_decl_ms final st (.name i n) rfl
                simp only [concatEvs, chunkMs_app, d1, List.nil_append]
                exact ih _ (by simpa [hasChunk] using h)
          exact hno c.evs _ hch'
        have ha' : a ∈ chunkMs (concatEvs final (childStart st) c.evs).2 := ha
        rw [hnil] at ha'
        simp at ha'
    · simp [chunkMs] at hb

theorem concatGo_pairwise (final : Bool) : ∀ (cs : List SResult) (Ts : List Text), FinAll cs Ts → (∀ c ∈ cs, (chunkMs c.evs).Pairwise mle) →
    ∀ (st : CSt) (gpre : Text), FRel st (adv startPos gpre) → (chunkMs (concatGo final st cs).2).Pairwise mle := by
  intro cs Ts h
  induction h with
  | nil => intro _ st gpre _; simp [concatGo, chunkMs]
  | cons r T rs Ts hr hrs ih =>
    intro hp st gpre hrel
    obtain ⟨_, b⟩ := concatChild_fin final st _ gpre T r hrel rfl hr
    simp only [concatGo, chunkMs_app]
    rw [List.pairwise_append]
    refine ⟨concatChild_pairwise final st T r hr (hp r (by simp)), ih (fun c hc => hp c (by simp [hc])) _ (gpre ++ T) b, ?_⟩
    intro x hx y hy
    have h1 := concatChild_ms_le final st gpre T r hrel hr x hx
    have h2 := concatGo_ms_ge final rs Ts hrs _ (gpre ++ T) b y hy
    exact posLe_trans h1 h2

/-- **ConcatSource, either mode**: sorted children give a sorted concatenation -/
theorem concatStream_sorted (final : Bool) (cs : List SResult) (Ts : List Text) (h : FinAll cs Ts) (hp : ∀ c ∈ cs, sortedFrom 1 0 (chunkMs c.evs)) :
    sortedFrom 1 0 (chunkMs (concatStream final cs).evs) := by
  rw [sortedFrom_iff]
  simp only [concatStream]
  have hrel : FRel ({} : CSt) (adv startPos []) := ⟨rfl, rfl⟩
  refine ⟨fun x hx => ?_, concatGo_pairwise final cs Ts h (fun c hc => ((sortedFrom_iff _ _ _).1 (hp c hc)).2) {} [] hrel⟩
  have := concatGo_ms_ge final cs Ts h {} [] hrel x hx
  exact this

end Rs
