import RsModel.Lemmas.DeclReplace
/-!
# C06, ReplaceSource: what every delivered chunk keeps of the inner chunk it was cut from

For one inner chunk with mapping `m`: every chunk the ReplaceSource delivers while processing it — pieces of the inner text and
replacement content alike — is unmapped if the inner chunk is unmapped, and otherwise points to the same source index and the
same original line, at a column that is not before the inner chunk's column and that equals it when no content is recorded
for that source (the column is advanced only where `check_original_content` succeeds).
-/
namespace Rs

/-- the relation between the inner chunk's original location `a` and a delivered one `b` -/
def KeepsOf (contents : List (Option Text)) (a b : Option Orig) : Prop :=
  (a = none → b = none) ∧ ∀ y, b = some y → ∃ x, a = some x ∧ y.src = x.src ∧ y.line = x.line ∧ x.col ≤ y.col
    ∧ ((∀ c, contents[x.src]? ≠ some (some c)) → y.col = x.col)

theorem keepsOf_refl (contents : List (Option Text)) (a : Option Orig) : KeepsOf contents a a :=
  ⟨fun h => h, fun y hy => ⟨y, hy, rfl, rfl, Nat.le_refl _, fun _ => rfl⟩⟩

theorem keepsOf_adv (contents : List (Option Text)) (a b : Option Orig) (h : KeepsOf contents a b) (s : Text) (by_ : Nat) :
    KeepsOf contents a (advOrig contents b s by_) := by
  refine ⟨fun ha => by rw [h.1 ha]; rfl, fun y hy => ?_⟩
  unfold advOrig at hy
  cases hb : b with
  | none => rw [hb] at hy; cases hy
  | some b0 =>
    rw [hb] at hy
    obtain ⟨x, hx, h1, h2, h3, h4⟩ := h.2 b0 hb
    simp only at hy
    split at hy
    · rename_i hc
      simp only [Option.some.injEq] at hy
      subst hy
      refine ⟨x, hx, h1, h2, by simp only; omega, fun hno => ?_⟩
      -- content was checked, so content is recorded
      exfalso
      unfold checkContent at hc
      rw [h1] at hc
      cases hcs : contents[x.src]? with
      | none => rw [hcs] at hc; simp at hc
      | some oc =>
        cases oc with
        | none => rw [hcs] at hc; simp at hc
        | some c => exact hno c hcs
    · simp only [Option.some.injEq] at hy
      subst hy
      exact ⟨x, hx, h1, h2, h3, h4⟩

theorem keepsOf_mapName (contents : List (Option Text)) (nim : List Nat) (a b : Option Orig) (h : KeepsOf contents a b) :
    KeepsOf contents a (mapName nim b) := by
  refine ⟨fun ha => by rw [h.1 ha]; rfl, fun y hy => ?_⟩
  cases hb : b with
  | none => rw [hb] at hy; cases hy
  | some b0 =>
    rw [hb] at hy
    simp only [mapName, Option.map_some, Option.some.injEq] at hy
    subst hy
    exact h.2 b0 hb

theorem keepsOf_setName (contents : List (Option Text)) (a b : Option Orig) (h : KeepsOf contents a b) (n : Option Nat) :
    KeepsOf contents a (b.map fun o => { o with name := n }) := by
  refine ⟨fun ha => by rw [h.1 ha]; rfl, fun y hy => ?_⟩
  cases hb : b with
  | none => rw [hb] at hy; cases hy
  | some b0 =>
    rw [hb] at hy
    simp only [Option.map_some, Option.some.injEq] at hy
    subst hy
    exact h.2 b0 hb

/-- all chunks of the list keep the inner location `a` -/
def AllKeep (contents : List (Option Text)) (a : Option Orig) (evs : List Ev) : Prop :=
  ∀ t mm, Ev.chunk t mm ∈ evs → KeepsOf contents a mm.orig

theorem allKeep_nil (contents : List (Option Text)) (a : Option Orig) : AllKeep contents a [] := fun t mm h => by simp at h

theorem allKeep_append (contents : List (Option Text)) (a : Option Orig) (x y : List Ev) (hx : AllKeep contents a x) (hy : AllKeep contents a y) :
    AllKeep contents a (x ++ y) := by
  intro t mm h
  rcases List.mem_append.1 h with h | h
  · exact hx t mm h
  · exact hy t mm h

def SameC (a b : RSt) : Prop := a.contents = b.contents ∧ a.nim = b.nim

theorem skipWhole_sameC (st : RSt) (chunk : Text) (gl gc remain endPos : Nat) : SameC (skipWhole st chunk gl gc remain endPos) st := by
  unfold skipWhole
  dsimp only
  split
  · split <;> exact ⟨rfl, rfl⟩
  · split <;> exact ⟨rfl, rfl⟩

theorem colShift_sameC (st : RSt) (line by_ : Int) : SameC (colShift st line by_) st := by
  unfold colShift
  split <;> exact ⟨rfl, rfl⟩

theorem emitContent_keeps (contents : List (Option Text)) (a : Option Orig) (gc : Nat) (orig : Option Orig) (ho : KeepsOf contents a orig) :
    ∀ (cls : List Text) (nameIdx : Option Nat) (st : RSt) (line : Int),
    AllKeep contents a (emitContent gc orig cls nameIdx st line).2.1 ∧ SameC (emitContent gc orig cls nameIdx st line).1 st := by
  intro cls
  induction cls with
  | nil => intro nameIdx st line; exact ⟨allKeep_nil _ _, rfl, rfl⟩
  | cons cl cls ih =>
    intro nameIdx st line
    simp only [emitContent]
    split
    · obtain ⟨i1, i2⟩ := ih none (if st.colOffLine == line then { st with colOff := st.colOff + cl.length } else { st with colOff := cl.length, colOffLine := line }) line
      refine ⟨?_, i2.1.trans (by split <;> rfl), i2.2.trans (by split <;> rfl)⟩
      intro t mm h
      simp only [List.mem_cons] at h
      rcases h with h | h
      · cases h; exact keepsOf_setName contents a orig ho nameIdx
      · exact i1 t mm h
    · obtain ⟨i1, i2⟩ := ih none { st with lineOff := st.lineOff + 1, colOff := -(gc : Int), colOffLine := line + 1 } (line + 1)
      refine ⟨?_, i2⟩
      intro t mm h
      simp only [List.mem_cons] at h
      rcases h with h | h
      · cases h; exact keepsOf_setName contents a orig ho nameIdx
      · exact i1 t mm h

theorem globalName_noChunkMem (nm : Assoc) (n : Text) : ∀ t mm, Ev.chunk t mm ∉ (globalName nm n).2.1 := by
  intro t mm h
  unfold globalName at h
  split at h <;> simp at h

theorem rName_keeps (contents : List (Option Text)) (a : Option Orig) (r : Repl) (st : RSt) (l : LSt) :
    AllKeep contents a (rName r st l).2.1 ∧ SameC (rName r st l).1 st := by
  unfold rName
  split
  · exact ⟨fun t mm h => absurd h (globalName_noChunkMem _ _ t mm), rfl, rfl⟩
  · exact ⟨allKeep_nil _ _, rfl, rfl⟩

theorem rIter_keeps (a : Option Orig) (chunk : Text) (gl endPos : Nat) (r : Repl) (rs : List Repl) (st : RSt) (l : LSt)
    (hl : KeepsOf st.contents a l.orig) :
    AllKeep st.contents a (rIter chunk gl endPos r rs st l).1
    ∧ (match (rIter chunk gl endPos r rs st l).2 with
       | .done st' => SameC st' st
       | .cont st' l' => SameC st' st ∧ KeepsOf st.contents a l'.orig) := by
  -- rBefore
  have hb : AllKeep st.contents a (rBefore chunk ((gl : Int) + st.lineOff) r st l).2.2
      ∧ SameC (rBefore chunk ((gl : Int) + st.lineOff) r st l).1 st
      ∧ KeepsOf st.contents a (rBefore chunk ((gl : Int) + st.lineOff) r st l).2.1.orig := by
    unfold rBefore
    split
    · refine ⟨?_, ⟨rfl, rfl⟩, keepsOf_adv _ _ _ hl _ _⟩
      intro t mm h
      simp only [List.mem_singleton] at h
      cases h
      exact keepsOf_mapName _ _ _ _ hl
    · exact ⟨allKeep_nil _ _, ⟨rfl, rfl⟩, hl⟩
  obtain ⟨b1, b2, b3⟩ := hb
  obtain ⟨n1, n2⟩ := rName_keeps st.contents a r (rBefore chunk ((gl : Int) + st.lineOff) r st l).1 (rBefore chunk ((gl : Int) + st.lineOff) r st l).2.1
  obtain ⟨c1, c2⟩ := emitContent_keeps st.contents a (rBefore chunk ((gl : Int) + st.lineOff) r st l).2.1.gc _ b3 (splitLines r.content)
    (rName r (rBefore chunk ((gl : Int) + st.lineOff) r st l).1 (rBefore chunk ((gl : Int) + st.lineOff) r st l).2.1).2.2
    (rName r (rBefore chunk ((gl : Int) + st.lineOff) r st l).1 (rBefore chunk ((gl : Int) + st.lineOff) r st l).2.1).1 ((gl : Int) + st.lineOff)
  have hall := allKeep_append _ _ _ _ (allKeep_append _ _ _ _ b1 n1) c1
  have hsc : SameC (emitContent (rBefore chunk ((gl : Int) + st.lineOff) r st l).2.1.gc (rBefore chunk ((gl : Int) + st.lineOff) r st l).2.1.orig (splitLines r.content)
      (rName r (rBefore chunk ((gl : Int) + st.lineOff) r st l).1 (rBefore chunk ((gl : Int) + st.lineOff) r st l).2.1).2.2
      (rName r (rBefore chunk ((gl : Int) + st.lineOff) r st l).1 (rBefore chunk ((gl : Int) + st.lineOff) r st l).2.1).1 ((gl : Int) + st.lineOff)).1 st :=
    ⟨c2.1.trans (n2.1.trans b2.1), c2.2.trans (n2.2.trans b2.2)⟩
  simp only [rIter]
  split
  · split
    · exact ⟨hall, ⟨(skipWhole_sameC _ _ _ _ _ _).1.trans hsc.1, (skipWhole_sameC _ _ _ _ _ _).2.trans hsc.2⟩⟩
    · refine ⟨hall, ⟨(colShift_sameC _ _ _).1.trans hsc.1, (colShift_sameC _ _ _).2.trans hsc.2⟩, ?_⟩
      have : (emitContent (rBefore chunk ((gl : Int) + st.lineOff) r st l).2.1.gc (rBefore chunk ((gl : Int) + st.lineOff) r st l).2.1.orig (splitLines r.content)
        (rName r (rBefore chunk ((gl : Int) + st.lineOff) r st l).1 (rBefore chunk ((gl : Int) + st.lineOff) r st l).2.1).2.2
        (rName r (rBefore chunk ((gl : Int) + st.lineOff) r st l).1 (rBefore chunk ((gl : Int) + st.lineOff) r st l).2.1).1 ((gl : Int) + st.lineOff)).1.contents = st.contents := hsc.1
      simp only
      rw [this]
      exact keepsOf_adv _ _ _ b3 _ _
  · exact ⟨hall, hsc, b3⟩

theorem rLoop_keeps (a : Option Orig) (chunk : Text) (gl endPos : Nat) : ∀ (rs : List Repl) (st : RSt) (l : LSt), KeepsOf st.contents a l.orig →
    AllKeep st.contents a (rLoop chunk gl endPos rs st l).2.1 ∧ SameC (rLoop chunk gl endPos rs st l).1 st
    ∧ ∀ l2, (rLoop chunk gl endPos rs st l).2.2 = some l2 → KeepsOf st.contents a l2.orig := by
  intro rs
  induction rs with
  | nil =>
    intro st l hl
    simp only [rLoop]
    exact ⟨allKeep_nil _ _, ⟨rfl, rfl⟩, fun l2 h2 => by simp only [Option.some.injEq] at h2; subst h2; exact hl⟩
  | cons r rs ih =>
    intro st l hl
    simp only [rLoop]
    split
    · obtain ⟨a1, a2⟩ := rIter_keeps a chunk gl endPos r rs st l hl
      split
      · rename_i evs st' heq
        rw [heq] at a1 a2
        exact ⟨a1, a2, fun l2 h2 => by cases h2⟩
      · rename_i evs st' l' heq
        rw [heq] at a1 a2
        simp only at a2
        obtain ⟨i1, i2, i3⟩ := ih st' l' (by rw [a2.1.1]; exact a2.2)
        rw [a2.1.1] at i1 i3
        exact ⟨allKeep_append _ _ _ _ a1 i1, ⟨i2.1.trans a2.1.1, i2.2.trans a2.1.2⟩, i3⟩
    · exact ⟨allKeep_nil _ _, ⟨rfl, rfl⟩, fun l2 h2 => by simp only [Option.some.injEq] at h2; subst h2; exact hl⟩

/-- **ReplaceSource, per inner chunk**: everything delivered while processing the inner chunk `(chunk, m)` keeps `m`'s source and
original line, is unmapped iff `m` is, never reports a column before `m`'s, and reports exactly `m`'s column when no content is
recorded for the source -/
theorem rOnChunk_keeps (st : RSt) (chunk : Text) (m : Mapping) :
    AllKeep st.contents m.orig (rOnChunk st chunk m).2 ∧ SameC (rOnChunk st chunk m).1 st := by
  unfold rOnChunk
  dsimp only
  split
  · exact ⟨allKeep_nil _ _, skipWhole_sameC _ _ _ _ _ _⟩
  · rename_i st1 l1 hstart
    have h1 : SameC st1 st ∧ KeepsOf st.contents m.orig l1.orig := by
      split at hstart
      · split at hstart
        · cases hstart
        · simp only [Option.some.injEq, Prod.mk.injEq] at hstart
          obtain ⟨e1, e2⟩ := hstart
          subst e1 e2
          exact ⟨colShift_sameC _ _ _, keepsOf_adv _ _ _ (keepsOf_refl _ _) _ _⟩
      · simp only [Option.some.injEq, Prod.mk.injEq] at hstart
        obtain ⟨e1, e2⟩ := hstart
        subst e1 e2
        exact ⟨⟨rfl, rfl⟩, keepsOf_refl _ _⟩
    obtain ⟨a1, a2, a3⟩ := rLoop_keeps m.orig chunk m.gl (st.pos + chunk.length) st1.rest st1 l1 (by rw [h1.1.1]; exact h1.2)
    rw [h1.1.1] at a1 a3
    split
    · rename_i st2 evs heq
      rw [heq] at a1 a2
      exact ⟨a1, ⟨a2.1.trans h1.1.1, a2.2.trans h1.1.2⟩⟩
    · rename_i st2 evs l2 heq
      rw [heq] at a1 a2 a3
      refine ⟨allKeep_append _ _ _ _ a1 ?_, ⟨a2.1.trans h1.1.1, a2.2.trans h1.1.2⟩⟩
      split
      · intro t mm h
        simp only [List.mem_singleton] at h
        cases h
        exact keepsOf_mapName _ _ _ _ (a3 l2 rfl)
      · exact allKeep_nil _ _

/-! ## the whole stream -/

/-- `KeepsOf` without the clause about recorded content -/
def KeepsW (a b : Option Orig) : Prop :=
  (a = none → b = none) ∧ ∀ y, b = some y → ∃ x, a = some x ∧ y.src = x.src ∧ y.line = x.line ∧ x.col ≤ y.col

theorem KeepsOf.weak {contents : List (Option Text)} {a b : Option Orig} (h : KeepsOf contents a b) : KeepsW a b :=
  ⟨h.1, fun y hy => by obtain ⟨x, h1, h2, h3, h4, _⟩ := h.2 y hy; exact ⟨x, h1, h2, h3, h4⟩⟩

theorem rEvs_keeps : ∀ (evs : List Ev) (st : RSt), ∀ t' mm, Ev.chunk t' mm ∈ (rEvs st evs).2 →
    ∃ t m, Ev.chunk t m ∈ evs ∧ KeepsW m.orig mm.orig := by
  intro evs
  induction evs with
  | nil => intro st t' mm h; simp [rEvs] at h
  | cons e es ih =>
    intro st t' mm h
    simp only [rEvs, List.mem_append] at h
    rcases h with h | h
    · cases e with
      | chunk t m =>
        simp only [rEv] at h
        exact ⟨t, m, by simp, ((rOnChunk_keeps st (t.getD []) m).1 t' mm h).weak⟩
      | source i s c => simp [rEv] at h
      | name i n =>
        simp only [rEv] at h
        exact absurd h (globalName_noChunkMem _ _ t' mm)
    · obtain ⟨t, m, hm, hk⟩ := ih _ t' mm h
      exact ⟨t, m, by simp [hm], hk⟩

/-! ### no source announcement is made up or dropped -/

def NoSrc (evs : List Ev) : Prop := ∀ i s c, Ev.source i s c ∉ evs

theorem noSrc_nil : NoSrc [] := fun i s c h => by simp at h
theorem noSrc_append (a b : List Ev) (ha : NoSrc a) (hb : NoSrc b) : NoSrc (a ++ b) := by
  intro i s c h
  rcases List.mem_append.1 h with h | h
  · exact ha i s c h
  · exact hb i s c h
theorem noSrc_chunk (t : Option Text) (m : Mapping) : NoSrc [Ev.chunk t m] := fun i s c h => by simp at h

theorem emitContent_noSrc (gc : Nat) (orig : Option Orig) : ∀ (cls : List Text) (n : Option Nat) (st : RSt) (line : Int),
    NoSrc (emitContent gc orig cls n st line).2.1 := by
  intro cls
  induction cls with
  | nil => intro n st line; exact noSrc_nil
  | cons cl cls ih =>
    intro n st line
    simp only [emitContent]
    split
    · exact noSrc_append [_] _ (noSrc_chunk _ _) (ih _ _ _)
    · exact noSrc_append [_] _ (noSrc_chunk _ _) (ih _ _ _)

theorem globalName_noSrc (nm : Assoc) (n : Text) : NoSrc (globalName nm n).2.1 := by
  intro i s c h
  unfold globalName at h
  split at h <;> simp at h

theorem rIter_noSrc (chunk : Text) (gl endPos : Nat) (r : Repl) (rs : List Repl) (st : RSt) (l : LSt) :
    NoSrc (rIter chunk gl endPos r rs st l).1 := by
  have hb : NoSrc (rBefore chunk ((gl : Int) + st.lineOff) r st l).2.2 := by
    unfold rBefore; split
    · exact noSrc_chunk _ _
    · exact noSrc_nil
  have hn : ∀ st1 l1, NoSrc (rName r st1 l1).2.1 := by
    intro st1 l1; unfold rName; split
    · exact globalName_noSrc _ _
    · exact noSrc_nil
  simp only [rIter]
  split
  · split <;> exact noSrc_append _ _ (noSrc_append _ _ hb (hn _ _)) (emitContent_noSrc _ _ _ _ _ _)
  · exact noSrc_append _ _ (noSrc_append _ _ hb (hn _ _)) (emitContent_noSrc _ _ _ _ _ _)

theorem rLoop_noSrc (chunk : Text) (gl endPos : Nat) : ∀ (rs : List Repl) (st : RSt) (l : LSt), NoSrc (rLoop chunk gl endPos rs st l).2.1 := by
  intro rs
  induction rs with
  | nil => intro st l; exact noSrc_nil
  | cons r rs ih =>
    intro st l
    simp only [rLoop]
    split
    · have h := rIter_noSrc chunk gl endPos r rs st l
      split
      · rename_i evs st' heq; rw [heq] at h; exact h
      · rename_i evs st' l' heq; rw [heq] at h; exact noSrc_append _ _ h (ih _ _)
    · exact noSrc_nil

theorem rOnChunk_noSrc (st : RSt) (chunk : Text) (m : Mapping) : NoSrc (rOnChunk st chunk m).2 := by
  unfold rOnChunk
  dsimp only
  split
  · exact noSrc_nil
  · rename_i st1 l1 _
    have h := rLoop_noSrc chunk m.gl (st.pos + chunk.length) st1.rest st1 l1
    split
    · rename_i st2 evs heq; rw [heq] at h; exact h
    · rename_i st2 evs l2 heq
      rw [heq] at h
      refine noSrc_append _ _ h ?_
      split
      · exact noSrc_chunk _ _
      · exact noSrc_nil

/-- the source announcements pass through a ReplaceSource unchanged (same index, same file, same content) -/
theorem rEvs_sources : ∀ (evs : List Ev) (st : RSt) (i : Nat) (s : Text) (c : Option Text),
    Ev.source i s c ∈ (rEvs st evs).2 ↔ Ev.source i s c ∈ evs := by
  intro evs
  induction evs with
  | nil => intro st i s c; simp [rEvs]
  | cons e es ih =>
    intro st i s c
    simp only [rEvs, List.mem_append, List.mem_cons, ih]
    cases e with
    | chunk t m =>
      have : Ev.source i s c ∉ (rEv st (.chunk t m)).2 := by simp only [rEv]; exact rOnChunk_noSrc _ _ _ i s c
      simp [this]
    | source j s' c' => simp [rEv]
    | name j n =>
      have : Ev.source i s c ∉ (rEv st (.name j n)).2 := by simp only [rEv]; exact globalName_noSrc _ _ i s c
      simp [this]

theorem rRemainder_unmapped (gcInfo : Nat) : ∀ (cls : List Text) (st : RSt) (line : Int),
    (∀ t mm, Ev.chunk t mm ∈ (rRemainder gcInfo cls st line).2.1 → mm.orig = none) ∧ NoSrc (rRemainder gcInfo cls st line).2.1 := by
  intro cls
  induction cls with
  | nil => intro st line; exact ⟨fun t mm h => by simp [rRemainder] at h, noSrc_nil⟩
  | cons cl cls ih =>
    intro st line
    simp only [rRemainder]
    split
    · obtain ⟨i1, i2⟩ := ih (if st.colOffLine == line then { st with colOff := st.colOff + cl.length } else { st with colOff := cl.length, colOffLine := line }) line
      refine ⟨fun t mm h => ?_, noSrc_append [_] _ (noSrc_chunk _ _) i2⟩
      simp only [List.mem_cons] at h
      rcases h with h | h
      · cases h; rfl
      · exact i1 t mm h
    · obtain ⟨i1, i2⟩ := ih { st with lineOff := st.lineOff + 1, colOff := -(gcInfo : Int), colOffLine := line + 1 } (line + 1)
      refine ⟨fun t mm h => ?_, noSrc_append [_] _ (noSrc_chunk _ _) i2⟩
      simp only [List.mem_cons] at h
      rcases h with h | h
      · cases h; rfl
      · exact i1 t mm h

/-- **ReplaceSource, whole stream**: every delivered chunk is unmapped, or was cut from (or spliced into) an inner chunk whose
source index and original line it keeps, at a column not before that chunk's column; unmapped inner chunks stay unmapped;
and the sources are announced exactly as the inner stream announces them -/
theorem replaceStream_keeps (sorted : List Repl) (inner : SResult) :
    (∀ t' mm, Ev.chunk t' mm ∈ (replaceStream sorted inner).evs → mm.orig = none ∨ ∃ t m, Ev.chunk t m ∈ inner.evs ∧ KeepsW m.orig mm.orig)
    ∧ ∀ i s c, Ev.source i s c ∈ (replaceStream sorted inner).evs ↔ Ev.source i s c ∈ inner.evs := by
  simp only [replaceStream]
  constructor
  · intro t' mm h
    rcases List.mem_append.1 h with h | h
    · exact Or.inr (rEvs_keeps inner.evs _ t' mm h)
    · exact Or.inl ((rRemainder_unmapped _ _ _ _).1 t' mm h)
  · intro i s c
    simp only [List.mem_append]
    constructor
    · rintro (h | h)
      · exact (rEvs_sources inner.evs _ i s c).1 h
      · exact absurd h ((rRemainder_unmapped _ _ _ _).2 i s c)
    · intro h; exact Or.inl ((rEvs_sources inner.evs _ i s c).2 h)

end Rs
