import RsModel.Lemmas.ModeConcat4
import RsModel.Lemmas.Replay
/-!
# Positions and lines

For an ASCII text: the prefix that reaches position `(l, c)` is "all lines before `l`, then `c` bytes of line `l`", and what follows
it starts with the rest of line `l`.  A token (no line break except possibly at its end) that starts there lies inside line `l`.
-/
namespace Rs

theorem take_take_le (T : Text) (a b : Nat) (h : a ≤ b) : (T.take b).take a = T.take a := by
  rw [List.take_take, Nat.min_eq_left h]

/-- positions of prefixes grow strictly with the prefix -/
theorem prefix_pos_strict (T : Text) (a b : Nat) (hab : a < b) (hb : b ≤ T.length) : posLt (adv startPos (T.take a)) (adv startPos (T.take b)) := by
  have := charPos_lt_end' startPos (T.take b) a (by simp; omega)
  rw [take_take_le T a b (by omega)] at this
  exact this

theorem prefix_pos_inj (T : Text) (a b : Nat) (ha : a ≤ T.length) (hb : b ≤ T.length)
    (h : adv startPos (T.take a) = adv startPos (T.take b)) : a = b := by
  rcases Nat.lt_trichotomy a b with g | g | g
  · have := prefix_pos_strict T a b g hb
    rw [h] at this
    rcases this with x | x <;> omega
  · exact g
  · have := prefix_pos_strict T b a g ha
    rw [h] at this
    rcases this with x | x <;> omega

/-- the prefix reaching `(l, c)` and what follows it -/
theorem pos_decompose (T : Text) (ha : IsAscii T) (hl : T.length ≤ USIZE_MAX) (k : Nat) (hk : k < T.length) (l c : Nat)
    (hpos : adv startPos (T.take k) = ⟨l, c⟩) :
    1 ≤ l ∧ l ≤ (splitLines T).length ∧ c ≤ width (lineAt (splitLines T) l)
    ∧ T.drop k = (lineAt (splitLines T) l).drop c ++ ((splitLines T).drop l).flatten := by
  have E := env_of_ascii T ha hl
  have hpre : T.take k <+: (splitLines T).flatten := by rw [splitLines_join]; exact List.take_prefix _ _
  obtain ⟨i1, i2⟩ := prefix_pos_inside (splitLines T) (lines_of_splitLines T) (T.take k) 1 hpre
  have hpos' : adv ⟨1, 0⟩ (T.take k) = ⟨l, c⟩ := hpos
  rw [hpos'] at i1 i2
  simp only at i1 i2
  -- the line exists: a character follows
  have hlt := charPos_lt_end' startPos T k hk
  rw [hpos, adv_text_end] at hlt
  have hlen : l ≤ (splitLines T).length := by
    unfold lineLoopInfo at hlt
    cases hgl : (splitLines T).getLast? with
    | none =>
      have : splitLines T = [] := List.getLast?_eq_none_iff.1 hgl
      have hj := splitLines_join T
      rw [this] at hj
      simp at hj
      rw [hj] at hk
      simp at hk
    | some last =>
      rw [hgl] at hlt
      simp only at hlt
      split at hlt
      · rcases hlt with g | g <;> simp only at g <;> omega
      · rcases hlt with g | g <;> simp only at g <;> omega
  have hw := i2 (by omega)
  have hw' : c ≤ width (lineAt (splitLines T) l) := by simpa [lineAt] using hw
  refine ⟨i1, hlen, hw', ?_⟩
  -- both prefixes reach the same position, so they are the same prefix
  have hv := valid_pos (splitLines T) E.ls E.ascii l c i1 hlen hw'
  have hcl : c ≤ (lineAt (splitLines T) l).length := by
    unfold width at hw'; split at hw' <;> omega
  have hmem : lineAt (splitLines T) l ∈ splitLines T := by
    unfold lineAt
    rw [List.getD_eq_getElem?_getD, List.getElem?_eq_getElem (by omega)]
    exact List.getElem_mem _
  have hcp : cpos (lineAt (splitLines T) l) c = c := cpos_ascii _ (E.ascii _ hmem) c hcl
  have hsplit : T = emitted (splitLines T) l c ++ ((lineAt (splitLines T) l).drop c ++ ((splitLines T).drop l).flatten) := by
    unfold emitted
    rw [hcp]
    have hd : (splitLines T).drop (l - 1) = lineAt (splitLines T) l :: (splitLines T).drop l := by
      unfold lineAt
      have : l - 1 < (splitLines T).length := by omega
      rw [List.drop_eq_getElem_cons this, List.getD_eq_getElem?_getD, List.getElem?_eq_getElem this]
      simp only [Option.getD_some]
      congr 2
      omega
    have : T = ((splitLines T).take (l - 1) ++ (splitLines T).drop (l - 1)).flatten := by rw [List.take_append_drop, splitLines_join]
    conv => lhs; rw [this]
    rw [List.flatten_append, hd, List.flatten_cons]
    conv => lhs; rw [← List.take_append_drop c (lineAt (splitLines T) l)]
    simp only [List.append_assoc]
  generalize emitted (splitLines T) l c = e at hsplit hv
  generalize (lineAt (splitLines T) l).drop c ++ ((splitLines T).drop l).flatten = r at hsplit ⊢
  have hem : T.take e.length = e := by rw [hsplit, List.take_left']; rfl
  have hkk : k = e.length := by
    apply prefix_pos_inj T k _ (by omega) (by
      have := congrArg List.length hsplit
      simp only [List.length_append] at this
      omega)
    rw [hpos, hem, hv]
  rw [hkk, hsplit, List.drop_left']
  rfl

/-- a token that is a prefix of "rest of the line, then further lines" lies inside the rest of the line -/
theorem tok_prefix_line (x v R : Text) (hx : TokOK x) (hv : ∀ b ∈ v, b ≠ NL) (h : x <+: v ++ [NL] ++ R) : x <+: v ++ [NL] := by
  obtain ⟨s, hs, hcase⟩ := hx
  obtain ⟨t, ht⟩ := h
  -- `s` is free of line breaks, so it ends before the line break of the line
  have hslen : s.length ≤ v.length := by
    rcases Nat.lt_or_ge v.length s.length with g | g
    · exfalso
      have hsx : s <+: x := by rcases hcase with rfl | rfl; exact List.prefix_refl _; exact List.prefix_append _ _
      obtain ⟨u, hu⟩ := hsx
      have e : s ++ (u ++ t) = v ++ ([NL] ++ R) := by rw [← List.append_assoc, hu, ht, List.append_assoc]
      have := congrArg (fun l => l[v.length]?) e
      rw [List.getElem?_append_left g, List.getElem?_append_right (Nat.le_refl _), Nat.sub_self] at this
      have h0 : ([NL] ++ R)[0]? = some NL := rfl
      rw [h0] at this
      exact hs _ (List.mem_of_getElem? this) rfl
    · exact g
  rcases hcase with rfl | rfl
  · -- x = s
    have e : x ++ t = v ++ ([NL] ++ R) := by rw [ht, List.append_assoc]
    have hpre : x <+: v := by
      have := List.prefix_of_prefix_length_le ⟨t, e⟩ (List.prefix_append v ([NL] ++ R)) hslen
      exact this
    exact hpre.trans (List.prefix_append _ _)
  · -- x = s ++ [NL]: the line break of x is the line break of the line
    have e : s ++ ([NL] ++ t) = v ++ ([NL] ++ R) := by rw [← List.append_assoc, ht, List.append_assoc]
    have hsv : s <+: v := List.prefix_of_prefix_length_le ⟨_, e⟩ (List.prefix_append v ([NL] ++ R)) hslen
    have hlen : s.length = v.length := by
      rcases Nat.lt_or_ge s.length v.length with g | g
      · exfalso
        have := congrArg (fun l => l[s.length]?) e
        rw [List.getElem?_append_right (Nat.le_refl _), List.getElem?_append_left g, Nat.sub_self] at this
        have h0 : ([NL] ++ t)[0]? = some NL := rfl
        rw [h0] at this
        exact hv _ (List.mem_of_getElem? this.symm) rfl
      · omega
    have : s = v := by
      obtain ⟨w, hw⟩ := hsv
      have : w = [] := by
        have := congrArg List.length hw
        simp at this
        exact List.eq_nil_of_length_eq_zero (by omega)
      rw [this] at hw
      simpa using hw
    rw [this]
    exact List.prefix_refl _

/-- **a token of the text lies inside its line**: if the token `x` follows the prefix that reaches `(l, c)`, then line `l` of the
text, from column `c`, starts with `x` -/
theorem token_in_line (T : Text) (ha : IsAscii T) (hl : T.length ≤ USIZE_MAX) (k : Nat) (hk : k < T.length) (l c : Nat)
    (hpos : adv startPos (T.take k) = ⟨l, c⟩) (x : Text) (hx : TokOK x) (hxp : x <+: T.drop k) :
    1 ≤ l ∧ l ≤ (splitLines T).length ∧ x <+: (lineAt (splitLines T) l).drop c := by
  obtain ⟨h1, h2, h3, h4⟩ := pos_decompose T ha hl k hk l c hpos
  refine ⟨h1, h2, ?_⟩
  rw [h4] at hxp
  obtain ⟨⟨s, hs, hcase⟩, _⟩ := lines_get (splitLines T) (lines_of_splitLines T) (l - 1) (by omega)
  have hla : lineAt (splitLines T) l = (splitLines T).getD (l - 1) [] := rfl
  rcases hcase with hc | ⟨hlast, hc⟩
  · -- the line ends with a line break
    rw [hla, hc] at hxp h3 ⊢
    have hw : width (s ++ [NL]) = s.length := by simp [width, endsWithNL]
    rw [hw] at h3
    have hd : (s ++ [NL]).drop c = s.drop c ++ [NL] := by rw [List.drop_append_of_le_length h3]
    rw [hd] at hxp ⊢
    exact tok_prefix_line x (s.drop c) _ hx (fun b hb => hs b (List.mem_of_mem_drop hb)) hxp
  · -- the last line, without line break: nothing follows it
    have : (splitLines T).drop l = [] := List.drop_eq_nil_of_le (by omega)
    rw [this] at hxp
    simpa using hxp

end Rs
